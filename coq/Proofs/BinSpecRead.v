(* BinSpecRead.v — property C04: the model of the REAL reader (Model/BinFile.v decode_file, Model/BinValues.v dec_col) on the
   files of ANOTHER writer: the document's own encoder (Spec/BinSpec.v bspec_encode, with every freedom it has).

   F1  columns : dec_col on bs_enc_col rdA u col (both rotation-id choices)        -> reader_reads_spec_column
   F2  chunks  : decode_inst / decode_prop / decode_prnt / META / unknown chunks    -> section 2
   F3  file    : decode_file (bspec_encode rdA ch f)                                -> section 3
   F4  order / compression / numbering independence                                 -> section 4
   Recorded disagreements (…_refuted): see the end of every section. *)
From Coq Require Import List NArith ZArith Bool Lia Permutation.
From RbxVerif Require Import Base Bytes Value Lz4 BinSpec BaseFacts BytesFacts Lz4Facts BinSpecFacts.
From RbxVerif Require Import Db CodecDom BinValues BinFile BinFileFacts.
From RbxVerif Require BinValuesFacts BinValuesFacts2 BinValuesFacts3 RotationFacts BinChunkFacts BinFinish BinFraming BinRoundTrip BinSpecAgree.
Import ListNotations.
Open Scope N_scope.

Notation rdA := BinSpecAgree.rdA.

(* ================================================================ 0. helpers *)
Ltac vt :=
  repeat match goal with
         | |- context [N.eqb ?a ?b] =>
           let r := eval vm_compute in (N.eqb a b) in
           match r with true => idtac | false => idtac end;
           change (N.eqb a b) with r
         end; cbv iota; cbn [negb orb andb].

Ltac split_andb :=
  repeat match goal with
         | H : andb _ _ = true |- _ => apply andb_true_iff in H; destruct H
         end.

Lemma prepeat_map_app {A B} (p : parser B) (enc : A -> bytes) (g : A -> B) l rest :
  (forall v r, In v l -> p (enc v ++ r) = Ok (g v, r)) ->
  prepeat (length l) p (flat_map enc l ++ rest) = Ok (List.map g l, rest).
Proof.
  intros H. induction l as [|x l IH]; cbn [length prepeat flat_map app List.map].
  - reflexivity.
  - rewrite <- app_assoc. rewrite (pb _ _ _ (g x) (flat_map enc l ++ rest)) by (apply H; now left).
    rewrite (pb _ _ _ (List.map g l) rest) by (apply IH; intros; apply H; now right).
    reflexivity.
Qed.

Lemma map_as_flat_map {A} (f : A -> N) l : List.map f l = flat_map (fun x => [f x]) l.
Proof. induction l as [|x l IH]; cbn [List.map flat_map app]; [reflexivity|now rewrite IH]. Qed.

Lemma ploop_map_app {A B} (p : parser B) (enc : A -> bytes) (g : A -> B) :
  forall l fuel rest, (forall a r, In a l -> p (enc a ++ r) = Ok (g a, r)) -> (length l <= fuel)%nat ->
  Attr.ploop fuel (N.of_nat (length l)) p (flat_map enc l ++ rest) = Ok (List.map g l, rest).
Proof.
  induction l as [|a l IH]; intros fuel rest Hp Hf.
  - destruct fuel; reflexivity.
  - destruct fuel as [|f]; [cbn in Hf; lia|]. cbn [length flat_map Attr.ploop List.map].
    replace (N.eqb (N.of_nat (S (length l))) 0) with false by (symmetry; apply N.eqb_neq; lia).
    rewrite <- app_assoc, (Hp a _ (or_introl eq_refl)).
    replace (N.pred (N.of_nat (S (length l)))) with (N.of_nat (length l)) by lia.
    rewrite IH; [reflexivity|intros; apply Hp; now right|cbn in Hf; lia].
Qed.

Lemma pfor_map_app {A B} (p : parser B) (enc : A -> bytes) (g : A -> B) l rest :
  (forall a r, In a l -> p (enc a ++ r) = Ok (g a, r)) ->
  (forall a, (1 <= length (enc a))%nat) ->
  pfor32 (N.of_nat (length l)) p (flat_map enc l ++ rest) = Ok (List.map g l, rest).
Proof.
  intros Hp Hne. unfold pfor32, Attr.pfor. apply ploop_map_app; [exact Hp|].
  rewrite app_length. pose proof (flat_map_min_length enc l (fun v _ => Hne v)). lia.
Qed.

Lemma fa_in {A} (f : A -> bool) l : forallb f l = true -> forall x, In x l -> f x = true.
Proof. intros H x Hx. eapply forallb_In; eauto. Qed.

Lemma zip_combine {A B} (a : list A) (b : list B) : zip a b = combine a b.
Proof. revert b. induction a as [|x a IH]; intros [|y b]; cbn [zip combine]; try reflexivity. now rewrite IH. Qed.

Lemma e_f32le_w_f32 x : e_f32le x = w_f32 x. Proof. reflexivity. Qed.

Lemma rd_f32 x rest : f32_ok x = true -> read_f32le (e_f32le x ++ rest) = Ok (x, rest).
Proof. exact (BinValuesFacts.read_f32le_app x rest). Qed.

Lemma rd_bstr s rest : len_ok s = true -> read_bstr None (e_string s ++ rest) = Ok (s, rest).
Proof.
  intros H. rewrite <- BinSpecAgree.w_bstr_e_string. apply BinValuesFacts3.read_bstr_app; [|reflexivity].
  apply len_ok_lt in H. rewrite pow32. exact H.
Qed.

Lemma rd_str s rest : len_ok s = true -> utf8_valid s = true -> read_str None (e_string s ++ rest) = Ok (s, rest).
Proof. intros H Hu. unfold read_str. rewrite (pb _ _ _ _ _ (rd_bstr s rest H)). now rewrite Hu. Qed.

(* ================================================================ 1. F1: one column *)
(* what the reader makes of a document value when the database declares the canonical type [cty] for the property:
   a String column is a String, a ContentId or a BinaryString (the default for a property the database does not know);
   Int32 / Float32 columns are widened for Int64 / Float64 properties.  Every other value is what the document says. *)
Definition retype (cty : N) (v : value) : value :=
  match v with
  | VString s => if N.eqb cty VT_ContentId then VContentId s else if N.eqb cty VT_BinaryString then VBinaryString s else v
  | VInt32 z => if N.eqb cty VT_Int64 then VInt64 z else v
  | VFloat32 x => if N.eqb cty VT_Float64 then VFloat64 (f64_of_f32 x) else v
  | _ => v
  end.

(* what the reader asks of a column BEYOND the document's ranges ([bs_col_ok]): the canonical type must be one the reader's
   `match` pairs with the wire type, text must be UTF-8 where the reader uses read_string, and the value ranges of
   rbx_types (Faces/Axes bits, BrickColor palette, Font weight/style enumerations).  Each restriction is shown necessary
   by a …_refuted lemma below. *)
Definition font_cell_ok (t : bytes * N * N * bytes) : bool :=
  let '(fam, w, s, c) := t in
  utf8_valid fam && utf8_valid c && N.eqb (Attr.font_weight_or_default w) w && N.eqb (Attr.font_style_or_default s) s.
Definition content_cell_ok (c : bs_content) : bool := match c with BCUri s => utf8_valid s | _ => true end.

Definition reader_col_ok (cty : N) (c : bs_column) : bool :=
  match c with
  | KString l => N.eqb cty VT_BinaryString || ((N.eqb cty VT_Str || N.eqb cty VT_ContentId) && forallb utf8_valid l)
  | KBool _ => N.eqb cty VT_Bool
  | KInt32 _ => N.eqb cty VT_Int32 || N.eqb cty VT_Int64
  | KFloat32 _ => N.eqb cty VT_Float32 || N.eqb cty VT_Float64
  | KFloat64 _ => N.eqb cty VT_Float64
  | KUDim _ => N.eqb cty VT_UDim
  | KUDim2 _ => N.eqb cty VT_UDim2
  | KRay _ => N.eqb cty VT_Ray
  | KFaces l => N.eqb cty VT_Faces && forallb (fun v => N.ltb v 64) l
  | KAxes l => N.eqb cty VT_Axes && forallb (fun v => N.ltb v 8) l
  | KBrickColor l => N.eqb cty VT_BrickColor && forallb (fun v => N.ltb v 65536 && brick_valid v) l
  | KColor3 _ => N.eqb cty VT_Color3
  | KVector2 _ => N.eqb cty VT_Vector2
  | KVector3 _ => N.eqb cty VT_Vector3
  | KCFrame _ => N.eqb cty VT_CFrame
  | KEnum _ => N.eqb cty VT_Enum
  | KReferent _ => N.eqb cty VT_Ref
  | KVector3int16 _ => N.eqb cty VT_Vector3int16
  | KNumberSequence _ => N.eqb cty VT_NumberSequence
  | KColorSequence _ => N.eqb cty VT_ColorSequence
  | KNumberRange _ => N.eqb cty VT_NumberRange
  | KRect _ => N.eqb cty VT_Rect
  | KPhysicalProperties _ => N.eqb cty VT_PhysicalProperties
  | KColor3uint8 _ => N.eqb cty VT_Color3 || N.eqb cty VT_Color3uint8
  | KInt64 _ => N.eqb cty VT_Int64
  | KSharedString _ => N.eqb cty VT_SharedString
  | KBytecode _ => false                         (* type id 0x1d is not a wire type of the reader: bytecode_column_skipped *)
  | KOptionalCFrame _ => N.eqb cty VT_OptionalCFrame
  | KUniqueId _ => N.eqb cty VT_UniqueId
  | KFont l => N.eqb cty VT_Font && forallb font_cell_ok l
  | KContent l _ => N.eqb cty VT_Content && forallb content_cell_ok l
  end.

Section ColumnsRead.
Variable dc : dec_ctx.
Hypothesis Hlim : dc_lim dc = None.

Ltac open_col := cbn [dec_col bs_enc_col]; rewrite ?Hlim; vt.

(* ---- in sequence *)
Lemma rd_col_string_bin u l rest : forallb str_ok l = true ->
  dec_col WString VT_BinaryString dc (length l) (bs_enc_col rdA u (KString l) ++ rest) = Ok (List.map VBinaryString l, rest).
Proof.
  intros H. open_col. apply prepeat_map_app. intros s r Hs.
  rewrite (pb _ _ _ _ _ (rd_bstr s r (str_ok_len _ (fa_in _ _ H _ Hs)))). reflexivity.
Qed.

Lemma rd_col_string_str u l rest : forallb str_ok l = true -> forallb utf8_valid l = true ->
  dec_col WString VT_Str dc (length l) (bs_enc_col rdA u (KString l) ++ rest) = Ok (List.map VString l, rest).
Proof.
  intros H Hu. open_col. apply prepeat_map_app. intros s r Hs.
  rewrite (pb _ _ _ _ _ (rd_bstr s r (str_ok_len _ (fa_in _ _ H _ Hs)))). rewrite (fa_in _ _ Hu _ Hs). reflexivity.
Qed.

Lemma rd_col_string_cid u l rest : forallb str_ok l = true -> forallb utf8_valid l = true ->
  dec_col WString VT_ContentId dc (length l) (bs_enc_col rdA u (KString l) ++ rest) = Ok (List.map VContentId l, rest).
Proof.
  intros H Hu. open_col. apply prepeat_map_app. intros s r Hs.
  rewrite (pb _ _ _ _ _ (rd_str s r (str_ok_len _ (fa_in _ _ H _ Hs)) (fa_in _ _ Hu _ Hs))). reflexivity.
Qed.

Lemma rd_col_bool u l rest :
  dec_col WBool VT_Bool dc (length l) (bs_enc_col rdA u (KBool l) ++ rest) = Ok (List.map VBool l, rest).
Proof.
  open_col. rewrite map_as_flat_map. apply prepeat_map_app. intros b r _. destruct b; reflexivity.
Qed.

Lemma rd_col_float64 u l rest : forallb f64_ok l = true ->
  dec_col WFloat64 VT_Float64 dc (length l) (bs_enc_col rdA u (KFloat64 l) ++ rest) = Ok (List.map VFloat64 l, rest).
Proof.
  intros H. open_col. apply prepeat_map_app. intros x r Hx.
  rewrite (pb _ _ _ _ _ (BinValuesFacts2.read_f64le_app x r (fa_in _ _ H _ Hx))). reflexivity.
Qed.

Lemma rd_col_ray u l rest : forallb (fun t => v3_ok (fst t) && v3_ok (snd t)) l = true ->
  dec_col WRay VT_Ray dc (length l) (bs_enc_col rdA u (KRay l) ++ rest) = Ok (List.map (fun t => VRay (fst t) (snd t)) l, rest).
Proof.
  intros H. open_col. apply prepeat_map_app. intros [[ox oy oz] [dx dy dz]] r Hx.
  pose proof (fa_in _ _ H _ Hx) as Hc. cbn [fst snd] in Hc. unfold v3_ok, vec3_ok in Hc. cbn [vx vy vz] in Hc.
  split_andb.
  unfold e_v3le. cbn [vx vy vz fst snd]. rewrite <- !app_assoc.
  repeat (erewrite pb; [|apply rd_f32; assumption]). reflexivity.
Qed.

Lemma rd_col_faces u l rest : forallb byte_ok l = true -> forallb (fun v => N.ltb v 64) l = true ->
  dec_col WFaces VT_Faces dc (length l) (bs_enc_col rdA u (KFaces l) ++ rest) = Ok (List.map VFaces l, rest).
Proof.
  intros H H6. open_col. rewrite <- (map_id l) at 2. rewrite map_as_flat_map. apply prepeat_map_app. intros v r Hv.
  cbn [app]. rewrite (pb _ _ _ _ _ (read_u8_cons v r ltac:(apply N.ltb_lt; exact (fa_in _ _ H _ Hv)))).
  now rewrite (fa_in _ _ H6 _ Hv).
Qed.

Lemma rd_col_axes u l rest : forallb byte_ok l = true -> forallb (fun v => N.ltb v 8) l = true ->
  dec_col WAxes VT_Axes dc (length l) (bs_enc_col rdA u (KAxes l) ++ rest) = Ok (List.map VAxes l, rest).
Proof.
  intros H H6. open_col. rewrite <- (map_id l) at 2. rewrite map_as_flat_map. apply prepeat_map_app. intros v r Hv.
  cbn [app]. rewrite (pb _ _ _ _ _ (read_u8_cons v r ltac:(apply N.ltb_lt; exact (fa_in _ _ H _ Hv)))).
  now rewrite (fa_in _ _ H6 _ Hv).
Qed.

Lemma rd_col_v3i16 u l rest : forallb (fun t => in_i16 (fst (fst t)) && in_i16 (snd (fst t)) && in_i16 (snd t)) l = true ->
  dec_col WVector3int16 VT_Vector3int16 dc (length l) (bs_enc_col rdA u (KVector3int16 l) ++ rest)
  = Ok (List.map (fun t => VVector3int16 (fst (fst t)) (snd (fst t)) (snd t)) l, rest).
Proof.
  intros H. open_col. apply prepeat_map_app. intros [[x y] z] r Hx.
  pose proof (fa_in _ _ H _ Hx) as Hc. cbn [fst snd] in Hc |- *.
  split_andb. rewrite <- !app_assoc.
  repeat (erewrite pb; [|apply BinValuesFacts2.read_i16le_app; assumption]). reflexivity.
Qed.

Lemma rd_col_nrange u l rest : forallb (fun t => f32_ok (fst t) && f32_ok (snd t)) l = true ->
  dec_col WNumberRange VT_NumberRange dc (length l) (bs_enc_col rdA u (KNumberRange l) ++ rest)
  = Ok (List.map (fun t => VNumberRange (fst t) (snd t)) l, rest).
Proof.
  intros H. open_col. apply prepeat_map_app. intros [a b] r Hx.
  pose proof (fa_in _ _ H _ Hx) as Hc. cbn [fst snd] in Hc |- *.
  apply andb_true_iff in Hc; destruct Hc as [Ha Hb]. rewrite <- !app_assoc.
  repeat (erewrite pb; [|apply rd_f32; assumption]). reflexivity.
Qed.

Lemma rd_col_phys u l rest : forallb phys_ok l = true ->
  dec_col WPhysicalProperties VT_PhysicalProperties dc (length l) (bs_enc_col rdA u (KPhysicalProperties l) ++ rest)
  = Ok (List.map VPhysicalProperties l, rest).
Proof.
  intros H. open_col. apply prepeat_map_app. intros [[d f e fw ew]|] r Hx.
  - pose proof (fa_in _ _ H _ Hx) as Hc. cbn [phys_ok ph_density ph_friction ph_elasticity ph_friction_weight ph_elasticity_weight] in Hc.
    split_andb.
    cbn [e_phys ph_density ph_friction ph_elasticity ph_friction_weight ph_elasticity_weight app]. rewrite <- !app_assoc.
    rewrite (pb _ _ _ _ _ (read_u8_cons 1 _ ltac:(lia))). vt.
    repeat (erewrite pb; [|apply rd_f32; assumption]). reflexivity.
  - cbn [e_phys app]. rewrite (pb _ _ _ _ _ (read_u8_cons 0 _ ltac:(lia))). vt. reflexivity.
Qed.

Lemma rd_col_nseq u l rest :
  forallb (fun k => len_ok k && forallb (fun t => f32_ok (fst (fst t)) && f32_ok (snd (fst t)) && f32_ok (snd t)) k) l = true ->
  dec_col WNumberSequence VT_NumberSequence dc (length l) (bs_enc_col rdA u (KNumberSequence l) ++ rest)
  = Ok (List.map VNumberSequence l, rest).
Proof.
  intros H. open_col. apply prepeat_map_app. intros k r Hk.
  pose proof (fa_in _ _ H _ Hk) as Hc. apply andb_true_iff in Hc. destruct Hc as [Hl Hc].
  unfold e_nseq. rewrite <- app_assoc.
  rewrite (pb _ _ _ _ _ (read_le4 _ _ (len_ok_lt _ Hl))). unfold palloc at 1. unfold pbind at 1.
  erewrite pb; [reflexivity|].
  rewrite <- (map_id k) at 3. apply pfor_map_app.
  - intros [[t v] e] r' Ha. pose proof (fa_in _ _ Hc _ Ha) as Hx. cbn [fst snd] in Hx |- *.
    split_andb. rewrite <- !app_assoc.
    repeat (erewrite pb; [|apply rd_f32; assumption]). reflexivity.
  - intros [[t v] e]. cbn [fst snd]. rewrite !app_length, !e_f32le_length. lia.
Qed.

Definition cseq_val (k : list (f32 * vec3 * f32)) : value :=
  VColorSequence (List.map (fun t => (fst (fst t), (vx (snd (fst t)), vy (snd (fst t)), vz (snd (fst t))))) k).

Lemma rd_col_cseq u l rest :
  forallb (fun k => len_ok k && forallb (fun t => f32_ok (fst (fst t)) && v3_ok (snd (fst t)) && f32_ok (snd t)) k) l = true ->
  dec_col WColorSequence VT_ColorSequence dc (length l) (bs_enc_col rdA u (KColorSequence l) ++ rest)
  = Ok (List.map cseq_val l, rest).
Proof.
  intros H. open_col. apply prepeat_map_app. intros k r Hk.
  pose proof (fa_in _ _ H _ Hk) as Hc. apply andb_true_iff in Hc. destruct Hc as [Hl Hc].
  unfold e_cseq. rewrite <- app_assoc.
  rewrite (pb _ _ _ _ _ (read_le4 _ _ (len_ok_lt _ Hl))). unfold palloc at 1. unfold pbind at 1.
  erewrite pb; [reflexivity|].
  apply pfor_map_app.
  - intros [[t [cr cg cb]] e] r' Ha. pose proof (fa_in _ _ Hc _ Ha) as Hx. cbn [fst snd vx vy vz] in Hx |- *.
    unfold v3_ok, vec3_ok in Hx. cbn [vx vy vz] in Hx.
    split_andb. unfold e_v3le. cbn [vx vy vz]. rewrite <- !app_assoc.
    repeat (erewrite pb; [|apply rd_f32; assumption]). reflexivity.
  - intros [[t c] e]. cbn [fst snd]. rewrite !app_length, !e_f32le_length. lia.
Qed.

(* ---- interleaved arrays *)
Lemma fa_Forall {A} (f : A -> bool) l : forallb f l = true -> Forall (fun a => f a = true) l.
Proof. intros H. apply Forall_forall. intros x Hx. exact (fa_in _ _ H _ Hx). Qed.

Lemma f32s_app (l : list f32) rest : forallb f32_ok l = true -> dec_f32_array (length l) (enc_f32_array l ++ rest) = Ok (l, rest).
Proof. intros H. pose proof (f32arr_app (fun x => x) l rest (fa_in _ _ H)) as E. now rewrite map_id in E. Qed.

Lemma u32s_app (l : list N) rest : forallb u32_ok l = true -> dec_u32_array (length l) (enc_u32_array l ++ rest) = Ok (l, rest).
Proof.
  intros H. apply u32_array_roundtrip. apply Forall_forall. intros x Hx. apply u32_ok_lt. exact (fa_in _ _ H _ Hx).
Qed.

Lemma rd_col_int32 u l rest : forallb in_i32 l = true ->
  dec_col WInt32 VT_Int32 dc (length l) (bs_enc_col rdA u (KInt32 l) ++ rest) = Ok (List.map VInt32 l, rest).
Proof. intros H. open_col. rewrite (pb _ _ _ _ _ (i32_array_roundtrip l rest (fa_Forall _ _ H))). reflexivity. Qed.

Lemma rd_col_int32_wide u l rest : forallb in_i32 l = true ->
  dec_col WInt32 VT_Int64 dc (length l) (bs_enc_col rdA u (KInt32 l) ++ rest) = Ok (List.map VInt64 l, rest).
Proof. intros H. open_col. rewrite (pb _ _ _ _ _ (i32_array_roundtrip l rest (fa_Forall _ _ H))). reflexivity. Qed.

Lemma rd_col_int64 u l rest : forallb in_i64 l = true ->
  dec_col WInt64 VT_Int64 dc (length l) (bs_enc_col rdA u (KInt64 l) ++ rest) = Ok (List.map VInt64 l, rest).
Proof. intros H. open_col. rewrite (pb _ _ _ _ _ (i64_array_roundtrip l rest (fa_Forall _ _ H))). reflexivity. Qed.

Lemma rd_col_float32 u l rest : forallb f32_ok l = true ->
  dec_col WFloat32 VT_Float32 dc (length l) (bs_enc_col rdA u (KFloat32 l) ++ rest) = Ok (List.map VFloat32 l, rest).
Proof. intros H. open_col. rewrite (pb _ _ _ _ _ (f32s_app l rest H)). reflexivity. Qed.

Lemma rd_col_float32_wide u l rest : forallb f32_ok l = true ->
  dec_col WFloat32 VT_Float64 dc (length l) (bs_enc_col rdA u (KFloat32 l) ++ rest)
  = Ok (List.map (fun x => VFloat64 (f64_of_f32 x)) l, rest).
Proof. intros H. open_col. rewrite (pb _ _ _ _ _ (f32s_app l rest H)). reflexivity. Qed.

Lemma rd_col_enum u l rest : forallb u32_ok l = true ->
  dec_col WEnum VT_Enum dc (length l) (bs_enc_col rdA u (KEnum l) ++ rest) = Ok (List.map VEnum l, rest).
Proof. intros H. open_col. rewrite (pb _ _ _ _ _ (u32s_app l rest H)). reflexivity. Qed.

Lemma rd_col_brick u l rest : forallb u32_ok l = true -> forallb (fun v => N.ltb v 65536 && brick_valid v) l = true ->
  dec_col WBrickColor VT_BrickColor dc (length l) (bs_enc_col rdA u (KBrickColor l) ++ rest) = Ok (List.map VBrickColor l, rest).
Proof.
  intros H Hb. open_col. rewrite (pb _ _ _ _ _ (u32s_app l rest H)).
  assert (E : find (fun v => negb (N.ltb v 65536 && brick_valid v)) l = None).
  { clear H. induction l as [|v l IH]; cbn [find]; [reflexivity|]. cbn [forallb] in Hb. apply andb_true_iff in Hb.
    destruct Hb as [Hv Hb]. rewrite Hv. cbn [negb]. now apply IH. }
  now rewrite E.
Qed.

Lemma rd_col_referent u l rest : forallb in_i32 l = true ->
  dec_col WRef VT_Ref dc (length l) (bs_enc_col rdA u (KReferent l) ++ rest) = Ok (List.map (fun r => VRef (dc_resolve dc r)) l, rest).
Proof. intros H. open_col. rewrite (pb _ _ _ _ _ (ref_array_roundtrip l rest (fa_Forall _ _ H))). reflexivity. Qed.

Lemma udim_parts x : BinSpec.udim_ok x = true -> f32_ok (ud_scale x) = true /\ in_i32 (ud_offset x) = true.
Proof. unfold BinSpec.udim_ok. intros H. now apply andb_true_iff in H. Qed.

Lemma rd_col_udim u l rest : forallb BinSpec.udim_ok l = true ->
  dec_col WUDim VT_UDim dc (length l) (bs_enc_col rdA u (KUDim l) ++ rest) = Ok (List.map VUDim l, rest).
Proof.
  intros H. open_col. rewrite <- app_assoc.
  rewrite (pb _ _ _ _ _ (f32arr_app ud_scale l _ (fun x Hx => proj1 (udim_parts x (fa_in _ _ H x Hx))))).
  rewrite (pb _ _ _ _ _ (i32arr_app ud_offset l _ (fun x Hx => proj2 (udim_parts x (fa_in _ _ H x Hx))))).
  unfold pret. rewrite BinValuesFacts.zip_map, map_map. do 2 f_equal. apply map_ext. now intros [s o].
Qed.

Lemma rd_col_udim2 u l rest : forallb (fun t => BinSpec.udim_ok (fst t) && BinSpec.udim_ok (snd t)) l = true ->
  dec_col WUDim2 VT_UDim2 dc (length l) (bs_enc_col rdA u (KUDim2 l) ++ rest) = Ok (List.map (fun t => VUDim2 (fst t) (snd t)) l, rest).
Proof.
  intros H. open_col. rewrite <- !app_assoc.
  assert (Hx : forall x, In x l -> BinSpec.udim_ok (fst x) = true /\ BinSpec.udim_ok (snd x) = true).
  { intros x Hx. pose proof (fa_in _ _ H x Hx) as Hc. now apply andb_true_iff in Hc. }
  rewrite (pb _ _ _ _ _ (f32arr_app (fun t => ud_scale (fst t)) l _ (fun x Hi => proj1 (udim_parts _ (proj1 (Hx x Hi)))))).
  rewrite (pb _ _ _ _ _ (f32arr_app (fun t => ud_scale (snd t)) l _ (fun x Hi => proj1 (udim_parts _ (proj2 (Hx x Hi)))))).
  rewrite (pb _ _ _ _ _ (i32arr_app (fun t => ud_offset (fst t)) l _ (fun x Hi => proj2 (udim_parts _ (proj1 (Hx x Hi)))))).
  rewrite (pb _ _ _ _ _ (i32arr_app (fun t => ud_offset (snd t)) l _ (fun x Hi => proj2 (udim_parts _ (proj2 (Hx x Hi)))))).
  unfold pret. rewrite !BinValuesFacts.zip_map, !map_map, BinValuesFacts.zip_map, map_map. do 2 f_equal.
  apply map_ext. now intros [[s o] [s' o']].
Qed.

Lemma v3_parts p : v3_ok p = true -> f32_ok (vx p) = true /\ f32_ok (vy p) = true /\ f32_ok (vz p) = true.
Proof. exact (BinValuesFacts3.vec3_ok_parts p). Qed.
Lemma v2_parts p : v2_ok p = true -> f32_ok (v2x p) = true /\ f32_ok (v2y p) = true.
Proof. unfold v2_ok, vec2_ok. intros H. now apply andb_true_iff in H. Qed.

Lemma v3s_app (l : list vec3) rest : forallb v3_ok l = true ->
  dec_vec3_arrays (length l) (e_v3s l ++ rest) = Ok (l, rest).
Proof.
  intros H. unfold e_v3s. rewrite <- !app_assoc. apply BinValuesFacts3.dec_vec3_arrays_roundtrip. exact (fa_Forall _ _ H).
Qed.

Lemma rd_col_vector3 u l rest : forallb v3_ok l = true ->
  dec_col WVector3 VT_Vector3 dc (length l) (bs_enc_col rdA u (KVector3 l) ++ rest) = Ok (List.map VVector3 l, rest).
Proof. intros H. open_col. rewrite (pb _ _ _ _ _ (v3s_app l rest H)). reflexivity. Qed.

Lemma rd_col_color3 u l rest : forallb v3_ok l = true ->
  dec_col WColor3 VT_Color3 dc (length l) (bs_enc_col rdA u (KColor3 l) ++ rest)
  = Ok (List.map (fun v => VColor3 (vx v) (vy v) (vz v)) l, rest).
Proof.
  intros H. open_col. unfold e_v3s. rewrite <- !app_assoc.
  rewrite (pb _ _ _ _ _ (f32arr_app vx l _ (fun x Hx => proj1 (v3_parts x (fa_in _ _ H x Hx))))).
  rewrite (pb _ _ _ _ _ (f32arr_app vy l _ (fun x Hx => proj1 (proj2 (v3_parts x (fa_in _ _ H x Hx)))))).
  rewrite (pb _ _ _ _ _ (f32arr_app vz l _ (fun x Hx => proj2 (proj2 (v3_parts x (fa_in _ _ H x Hx)))))).
  unfold pret. rewrite BinValuesFacts.zip_map, BinValuesFacts.zip_map, map_map. reflexivity.
Qed.

Lemma rd_col_vector2 u l rest : forallb v2_ok l = true ->
  dec_col WVector2 VT_Vector2 dc (length l) (bs_enc_col rdA u (KVector2 l) ++ rest) = Ok (List.map VVector2 l, rest).
Proof.
  intros H. open_col. unfold e_v2s. rewrite <- !app_assoc.
  rewrite (pb _ _ _ _ _ (f32arr_app v2x l _ (fun x Hx => proj1 (v2_parts x (fa_in _ _ H x Hx))))).
  rewrite (pb _ _ _ _ _ (f32arr_app v2y l _ (fun x Hx => proj2 (v2_parts x (fa_in _ _ H x Hx))))).
  unfold pret. rewrite BinValuesFacts.zip_map, map_map. do 2 f_equal. apply map_ext. now intros [x y].
Qed.

Lemma rd_col_rect u l rest : forallb (fun t => v2_ok (fst t) && v2_ok (snd t)) l = true ->
  dec_col WRect VT_Rect dc (length l) (bs_enc_col rdA u (KRect l) ++ rest) = Ok (List.map (fun t => VRect (fst t) (snd t)) l, rest).
Proof.
  intros H. open_col. unfold e_v2s. rewrite !map_map, <- !app_assoc.
  assert (Hx : forall x, In x l -> v2_ok (fst x) = true /\ v2_ok (snd x) = true).
  { intros x Hx. pose proof (fa_in _ _ H x Hx) as Hc. now apply andb_true_iff in Hc. }
  rewrite (pb _ _ _ _ _ (f32arr_app (fun t => v2x (fst t)) l _ (fun x Hi => proj1 (v2_parts _ (proj1 (Hx x Hi)))))).
  rewrite (pb _ _ _ _ _ (f32arr_app (fun t => v2y (fst t)) l _ (fun x Hi => proj2 (v2_parts _ (proj1 (Hx x Hi)))))).
  rewrite (pb _ _ _ _ _ (f32arr_app (fun t => v2x (snd t)) l _ (fun x Hi => proj1 (v2_parts _ (proj2 (Hx x Hi)))))).
  rewrite (pb _ _ _ _ _ (f32arr_app (fun t => v2y (snd t)) l _ (fun x Hi => proj2 (v2_parts _ (proj2 (Hx x Hi)))))).
  unfold pret. rewrite !BinValuesFacts.zip_map, !map_map, BinValuesFacts.zip_map, map_map. do 2 f_equal.
  apply map_ext. now intros [[a b] [c d]].
Qed.

Lemma rd_col_c3u8 u cty l rest : N.eqb cty VT_Color3 || N.eqb cty VT_Color3uint8 = true ->
  forallb (fun t => byte_ok (fst (fst t)) && byte_ok (snd (fst t)) && byte_ok (snd t)) l = true ->
  dec_col WColor3uint8 cty dc (length l) (bs_enc_col rdA u (KColor3uint8 l) ++ rest)
  = Ok (List.map (fun t => VColor3uint8 (fst (fst t)) (snd (fst t)) (snd t)) l, rest).
Proof.
  intros Hc H. cbn [dec_col bs_enc_col]. rewrite Hc. unfold dec_color3uint8_body. rewrite <- !app_assoc.
  rewrite <- (map_length (fun t : N * N * N => fst (fst t)) l) at 1.
  rewrite (pb _ _ _ _ _ (read_exact_app _ _)).
  rewrite <- (map_length (fun t : N * N * N => snd (fst t)) l) at 1.
  rewrite (pb _ _ _ _ _ (read_exact_app _ _)).
  rewrite <- (map_length (fun t : N * N * N => snd t) l) at 1.
  rewrite (pb _ _ _ _ _ (read_exact_app _ _)).
  unfold pret. rewrite BinValuesFacts.zip_map, BinValuesFacts.zip_map, map_map. reflexivity.
Qed.

(* UniqueId (amended reading: big-endian fields, Random rotated) *)
Lemma uid_of_row row :
  VUniqueId (of_be (firstn 4 row)) (of_be (firstn 4 (skipn 4 row))) (wrap_s 64 (rotr64 (of_be (skipn 8 row))))
  = let t := d_uid rdA row in VUniqueId (fst (fst t)) (snd (fst t)) (snd t).
Proof. reflexivity. Qed.
Lemma rd_col_uid u l rest : forallb (fun t => u32_ok (fst (fst t)) && u32_ok (snd (fst t)) && in_i64 (snd t)) l = true ->
  dec_col WUniqueId VT_UniqueId dc (length l) (bs_enc_col rdA u (KUniqueId l) ++ rest)
  = Ok (List.map (fun t => VUniqueId (fst (fst t)) (snd (fst t)) (snd t)) l, rest).
Proof.
  intros H. open_col.
  assert (Hrows : forall x, In x (List.map (e_uid rdA) l) -> length x = 16%nat).
  { intros x Hx. apply in_map_iff in Hx. destruct Hx as [t [<- Ht]]. exact (proj1 (d_uid_e_uid rdA t (fa_in _ _ H t Ht))). }
  assert (Hlen : length (interleave 16 (List.map (e_uid rdA) l)) = (length l * 16)%nat).
  { rewrite interleave_length, map_length. lia. }
  rewrite <- Hlen. rewrite (pb _ _ _ _ _ (read_exact_app _ _)). unfold pret. do 2 f_equal.
  rewrite <- (map_length (e_uid rdA) l) at 1.
  rewrite deinterleave_interleave by (apply Forall_forall; exact Hrows). rewrite map_map. apply map_ext_in. intros t Ht.
  pose proof (proj2 (d_uid_e_uid rdA t (fa_in _ _ H t Ht))) as E.
  rewrite uid_of_row. cbv zeta. now rewrite E.
Qed.

(* ---- CFrame: BOTH forms of the rotation (special id, nine floats) *)
Lemma dec_rot_e_rot u m rest : mat3_ok m = true -> dec_rot (e_rot u m ++ rest) = Ok (m, rest).
Proof.
  intros H. unfold e_rot. destruct (if u then id_by_rot bs_rot_table m else None) as [id|] eqn:E.
  - destruct u; [|discriminate].
    pose proof (id_by_rot_range _ _ E) as [Hne Hlt].
    pose proof (BinSpecAgree.rot_tables_agree_bwd _ _ (id_by_rot_sound _ _ _ rot_ids_nodup E)) as Hb.
    cbn [app]. unfold dec_rot. rewrite (pb _ _ _ _ _ (read_u8_cons id rest Hlt)).
    destruct (N.eqb_spec id 0) as [->|_]; [now elim Hne|]. now rewrite Hb.
  - apply BinValuesFacts3.mat3_ok_parts in H. destruct H as (Hx & Hy & Hz).
    apply v3_parts in Hx, Hy, Hz.
    destruct Hx as (Hxx & Hxy & Hxz), Hy as (Hyx & Hyy & Hyz), Hz as (Hzx & Hzy & Hzz).
    unfold e_v3le. cbn [app]. rewrite <- !app_assoc. unfold dec_rot.
    rewrite (pb _ _ _ _ _ (read_u8_cons 0 _ ltac:(lia))). vt.
    repeat (erewrite pb; [|apply rd_f32; assumption]).
    unfold pret. destruct m as [[a b c] [d e f] [g h i]]. reflexivity.
Qed.

Lemma cframes_body u (l : list cframe) rest : forallb cf_ok l = true ->
  exists b1, prepeat (length l) dec_rot (e_cframes u l ++ rest) = Ok (List.map cf_rot l, b1) /\
             dec_vec3_arrays (length l) b1 = Ok (List.map cf_pos l, rest).
Proof.
  intros H. unfold e_cframes. rewrite <- app_assoc. eexists. split.
  - apply (prepeat_map_app dec_rot (fun c => e_rot u (cf_rot c)) cf_rot). intros c r Hc.
    apply dec_rot_e_rot. exact (proj2 (BinValuesFacts3.cframe_ok_parts c (fa_in _ _ H c Hc))).
  - rewrite <- (map_length cf_pos l) at 1. apply v3s_app.
    apply forallb_forall. intros p Hp. apply in_map_iff in Hp. destruct Hp as [c [<- Hc]].
    exact (proj1 (BinValuesFacts3.cframe_ok_parts c (fa_in _ _ H c Hc))).
Qed.

Lemma rd_col_cframe u l rest : forallb cf_ok l = true ->
  dec_col WCFrame VT_CFrame dc (length l) (bs_enc_col rdA u (KCFrame l) ++ rest) = Ok (List.map VCFrame l, rest).
Proof.
  intros H. open_col. destruct (cframes_body u l rest H) as (b1 & Hr & Hp).
  rewrite (pb _ _ _ _ _ Hr), (pb _ _ _ _ _ Hp). unfold pret.
  rewrite BinValuesFacts.zip_map, map_map. do 2 f_equal. apply map_ext. now intros [p r].
Qed.

(* ---- OptionalCoordinateFrame *)
Lemma ocf_values_spec (l : list (cframe * bool)) rest :
  ocf_values (List.map (fun t => (cf_pos (fst t), cf_rot (fst t))) l) (List.map (fun t => e_bool (snd t)) l ++ rest)
  = (List.map (fun t : cframe * bool => VOptionalCFrame (if snd t then Some (fst t) else None)) l, rest).
Proof.
  induction l as [|[[p r] b] l IH]; [reflexivity|].
  cbn [List.map ocf_values app fst snd cf_pos cf_rot]. rewrite IH. destruct b; reflexivity.
Qed.

Lemma rd_col_ocf u l rest : forallb (fun t => cf_ok (fst t)) l = true ->
  dec_col WOptionalCFrame VT_OptionalCFrame dc (length l) (bs_enc_col rdA u (KOptionalCFrame l) ++ rest)
  = Ok (List.map (fun t : cframe * bool => VOptionalCFrame (if snd t then Some (fst t) else None)) l, rest).
Proof.
  intros H. open_col. cbn [app].
  rewrite (pb _ _ _ _ _ (read_u8_cons 16 _ ltac:(lia))). vt.
  assert (Hc : forallb cf_ok (List.map fst l) = true).
  { apply forallb_forall. intros c Hc. apply in_map_iff in Hc. destruct Hc as [t [<- Ht]]. exact (fa_in _ _ H t Ht). }
  rewrite <- app_assoc. destruct (cframes_body u (List.map fst l) (2 :: List.map (fun t => e_bool (snd t)) l ++ rest) Hc) as (b1 & Hr & Hp).
  rewrite map_length in Hr, Hp. cbn [app].
  rewrite (pb _ _ _ _ _ Hr), (pb _ _ _ _ _ Hp).
  rewrite (pb _ _ _ _ _ (read_u8_cons 2 _ ltac:(lia))). vt.
  rewrite !map_map, BinValuesFacts.zip_map. now rewrite ocf_values_spec.
Qed.

(* ---- SharedString (amended reading: big-endian indices) *)
Lemma nth_opt_nth_error {A} (l : list A) : forall n, nth_opt n l = nth_error l n.
Proof. induction l as [|x l IH]; intros [|n]; cbn [nth_opt nth_error]; auto. Qed.

Lemma sstr_values_spec (sstr : list (bytes * bytes)) lo : forall l vals,
  bs_col_values sstr lo (KSharedString l) = Ok vals -> sstr_values (List.map snd sstr) l = Some vals.
Proof.
  cbn [bs_col_values]. induction l as [|i r IH]; intros vals; [now intros [= <-]|].
  cbn [sstr_values]. unfold sstr_get. rewrite map_length, nth_opt_nth_error.
  destruct (N.ltb i (N.of_nat (length sstr))); [|discriminate].
  rewrite nth_error_map. destruct (nth_error sstr (N.to_nat i)) as [e|]; [|discriminate]. cbn [option_map].
  match goal with |- (rest <- ?G ;; _) = _ -> _ => destruct G as [rs| | |] eqn:E end; cbn [rbind]; try discriminate.
  intros [= <-]. now rewrite (IH _ eq_refl).
Qed.

Lemma rd_col_sstr u sstr lo l vals rest : forallb u32_ok l = true -> dc_sstr dc = List.map snd sstr ->
  bs_col_values sstr lo (KSharedString l) = Ok vals ->
  dec_col WSharedString VT_SharedString dc (length l) (bs_enc_col rdA u (KSharedString l) ++ rest) = Ok (vals, rest).
Proof.
  intros H Hs Hv. open_col. unfold e_sstr_idx. cbn [rd_sstr_be rdA bs_amended].
  rewrite (pb _ _ _ _ _ (u32s_app l rest H)). now rewrite Hs, (sstr_values_spec _ _ _ _ Hv).
Qed.

(* ---- Font *)
Lemma rd_col_font u l rest :
  forallb (fun t : bytes * N * N * bytes => let '(fam, w, s, c) := t in str_ok fam && N.ltb w 65536 && byte_ok s && str_ok c) l = true ->
  forallb font_cell_ok l = true ->
  dec_col WFont VT_Font dc (length l) (bs_enc_col rdA u (KFont l) ++ rest)
  = Ok (List.map (fun t : bytes * N * N * bytes => let '(fam, w, s, c) := t in
                    VFont (mkFont fam w s (match c with [] => None | _ => Some c end))) l, rest).
Proof.
  intros H Hf. open_col. apply prepeat_map_app. intros [[[fam w] s] c] r Ht.
  pose proof (fa_in _ _ H _ Ht) as H1. pose proof (fa_in _ _ Hf _ Ht) as H2. cbv beta iota in H1. unfold font_cell_ok in H2.
  apply andb_true_iff in H1; destruct H1 as [H1 Hc]. apply andb_true_iff in H1; destruct H1 as [H1 Hs].
  apply andb_true_iff in H1; destruct H1 as [Hfam Hw].
  apply andb_true_iff in H2; destruct H2 as [H2 Hst]. apply andb_true_iff in H2; destruct H2 as [H2 Hwt].
  apply andb_true_iff in H2; destruct H2 as [Hufam Huc].
  unfold e_font. rewrite <- !app_assoc.
  rewrite (pb _ _ _ _ _ (rd_str fam _ (str_ok_len _ Hfam) Hufam)).
  rewrite (pb _ _ _ _ _ (read_le2 w _ ltac:(apply N.ltb_lt; exact Hw))).
  rewrite (pb _ _ _ _ _ (read_le1 s _ ltac:(apply N.ltb_lt; exact Hs) : read_u8 _ = _)).
  rewrite (pb _ _ _ _ _ (rd_str c _ (str_ok_len _ Hc) Huc)).
  apply N.eqb_eq in Hst, Hwt. rewrite Hst, Hwt. reflexivity.
Qed.

(* ---- Content (amended reading: SourceTypes as an Int32 array).  The reader takes everything after ObjectRefs as the
   external referents (read_to_end): nothing may follow the column, which is the case in a PROP chunk. *)
Definition content_val (lo : Z -> N) (c : bs_content) : value :=
  VContent (match c with BCNone => CNone | BCUri s => CUri s | BCObject r => CObject (lo r) end).

Lemma content_values_spec l :
  content_values dc (List.map Z.of_N (List.map content_type l)) (rev (content_uris l)) (content_objs l)
  = Ok (List.map (content_val (dc_resolve dc)) l).
Proof.
  induction l as [|x l IH]; [reflexivity|].
  destruct x as [|s|r]; cbn [List.map content_type Z.of_N content_values content_uris content_objs pop_front].
  - now rewrite IH.
  - now rewrite BinValuesFacts3.pop_back_rev_cons, IH.
  - now rewrite IH.
Qed.

Lemma rd_col_content u l ext : bs_col_ok (KContent l ext) = true -> forallb content_cell_ok l = true ->
  dec_col WContent VT_Content dc (length l) (bs_enc_col rdA u (KContent l ext))
  = Ok (List.map (content_val (dc_resolve dc)) l, []).
Proof.
  intros H Hu. cbn [bs_col_ok] in H.
  apply andb_true_iff in H; destruct H as [H Hle]. apply andb_true_iff in H; destruct H as [H Hll].
  apply andb_true_iff in H; destruct H as [Hcs Hext].
  destruct (content_parts l Hcs) as (Hus & Hos).
  assert (Hlu : len_ok (content_uris l) = true) by (eapply len_ok_le; [apply filter_len_le_uris|exact Hll]).
  assert (Hlo : len_ok (content_objs l) = true) by (eapply len_ok_le; [apply filter_len_le_objs|exact Hll]).
  assert (Huu : forall s, In s (content_uris l) -> utf8_valid s = true).
  { clear - Hu. induction l as [|x l IH]; intros s Hs; [destruct Hs|]. cbn [forallb] in Hu. apply andb_true_iff in Hu.
    destruct Hu as [Hx Hu]. destruct x as [|s'|z]; cbn [content_uris] in Hs; [now apply IH| |now apply IH].
    destruct Hs as [->|Hs]; [exact Hx|now apply IH]. }
  assert (Hp : forall r, pfor32 (N.of_nat (length (content_uris l))) (read_str None) (flat_map e_string (content_uris l) ++ r)
                         = Ok (content_uris l, r)).
  { intros r. pose proof (pfor_map_app (read_str None) e_string (fun x => x) (content_uris l) r) as E.
    rewrite map_id in E. apply E; [|intros s; apply e_string_min].
    intros s r' Hs. apply rd_str; [exact (str_ok_len _ (fa_in _ _ Hus s Hs))|exact (Huu s Hs)]. }
  open_col. unfold e_content, e_ctypes. cbn [rd_content_types_i32 rdA bs_amended]. rewrite ?app_nil_r.
  rewrite <- (map_length content_type l) at 1. rewrite <- (map_length Z.of_N (List.map content_type l)) at 1.
  erewrite pb; [|apply i32_array_roundtrip; apply Forall_forall; intros z Hz;
                 apply in_map_iff in Hz; destruct Hz as [n [<- Hn]]; apply in_map_iff in Hn; destruct Hn as [c [<- _]];
                 destruct c; reflexivity].
  rewrite (pb _ _ _ _ _ (read_le4 _ _ (len_ok_lt _ Hlu))). unfold palloc at 1. unfold pbind at 1.
  rewrite (pb _ _ _ _ _ (Hp _)).
  rewrite (pb _ _ _ _ _ (read_le4 _ _ (len_ok_lt _ Hlo))). unfold palloc at 1. unfold pbind at 1.
  assert (Hn : N.ltb (N.of_nat (length (enc_ref_array (content_objs l) ++ e_len ext ++ enc_ref_array ext)))
                     (4 * N.of_nat (length (content_objs l))) = false).
  { apply N.ltb_ge. rewrite app_length, enc_ref_array_length. lia. }
  rewrite Hn. rewrite Nnat.Nat2N.id.
  rewrite (pb _ _ _ _ _ (ref_array_roundtrip _ _ (in_i32_Forall _ Hos))).
  rewrite (read_le4 _ _ (len_ok_lt _ Hle)). unfold palloc.
  rewrite content_values_spec. reflexivity.
Qed.

End ColumnsRead.

(* ---- F1, assembled: every column of the document, every canonical type the reader pairs with it, both rotation choices *)
Lemma retype_map cty {A} (f g : A -> value) (l : list A) :
  (forall x, In x l -> f x = retype cty (g x)) -> List.map f l = List.map (retype cty) (List.map g l).
Proof. intros H. rewrite map_map. now apply map_ext_in. Qed.

Theorem reader_reads_spec_column dc u col cty ty sstr lo vals rest :
  dc_lim dc = None ->
  bs_col_ok col = true -> reader_col_ok cty col = true ->
  wire_of_id (bs_col_type col) = Some ty ->
  (forall z, dc_resolve dc z = lo z) -> dc_sstr dc = List.map snd sstr ->
  bs_col_values sstr lo col = Ok vals ->
  (match col with KContent _ _ => rest = [] | _ => True end) ->
  dec_col ty cty dc (bs_col_len col) (bs_enc_col rdA u col ++ rest) = Ok (List.map (retype cty) vals, rest).
Proof.
  intros Hlim Hok Hr Hw Hres Hss Hv Hrest.
  destruct col; vm_compute in Hw; try discriminate; injection Hw as <-;
    cbn [bs_col_ok reader_col_ok bs_col_len] in *;
    try (cbn [bs_col_values] in Hv; injection Hv as <-).
  - (* String *)
    apply orb_true_iff in Hr. destruct Hr as [Hr|Hr].
    + apply N.eqb_eq in Hr. subst cty. rewrite rd_col_string_bin by assumption. f_equal. f_equal. now apply retype_map.
    + apply andb_true_iff in Hr. destruct Hr as [Hr Hu]. apply orb_true_iff in Hr. destruct Hr as [Hr|Hr]; apply N.eqb_eq in Hr; subst cty.
      * rewrite rd_col_string_str by assumption. f_equal. f_equal. now apply retype_map.
      * rewrite rd_col_string_cid by assumption. f_equal. f_equal. now apply retype_map.
  - apply N.eqb_eq in Hr. subst cty. rewrite rd_col_bool by assumption. f_equal. f_equal. now apply retype_map.
  - apply orb_true_iff in Hr. destruct Hr as [Hr|Hr]; apply N.eqb_eq in Hr; subst cty.
    + rewrite rd_col_int32 by assumption. f_equal. f_equal. now apply retype_map.
    + rewrite rd_col_int32_wide by assumption. f_equal. f_equal. now apply retype_map.
  - apply orb_true_iff in Hr. destruct Hr as [Hr|Hr]; apply N.eqb_eq in Hr; subst cty.
    + rewrite rd_col_float32 by assumption. f_equal. f_equal. now apply retype_map.
    + rewrite rd_col_float32_wide by assumption. f_equal. f_equal. now apply retype_map.
  - apply N.eqb_eq in Hr. subst cty. rewrite rd_col_float64 by assumption. f_equal. f_equal. now apply retype_map.
  - apply N.eqb_eq in Hr. subst cty. rewrite rd_col_udim by assumption. f_equal. f_equal. now apply retype_map.
  - apply N.eqb_eq in Hr. subst cty. rewrite rd_col_udim2 by assumption. f_equal. f_equal. now apply retype_map.
  - apply N.eqb_eq in Hr. subst cty. rewrite rd_col_ray by assumption. f_equal. f_equal. now apply retype_map.
  - apply andb_true_iff in Hr. destruct Hr as [Hr H6]. apply N.eqb_eq in Hr. subst cty. rewrite rd_col_faces by assumption.
    f_equal. f_equal. apply retype_map. intros x Hx. cbn [retype]. pose proof (fa_in _ _ H6 x Hx) as Hlt. apply N.ltb_lt in Hlt.
    now rewrite N.mod_small.
  - apply andb_true_iff in Hr. destruct Hr as [Hr H6]. apply N.eqb_eq in Hr. subst cty. rewrite rd_col_axes by assumption.
    f_equal. f_equal. apply retype_map. intros x Hx. cbn [retype]. pose proof (fa_in _ _ H6 x Hx) as Hlt. apply N.ltb_lt in Hlt.
    now rewrite N.mod_small.
  - apply andb_true_iff in Hr. destruct Hr as [Hr H6]. apply N.eqb_eq in Hr. subst cty. rewrite rd_col_brick by assumption.
    f_equal. f_equal. now apply retype_map.
  - apply N.eqb_eq in Hr. subst cty. rewrite rd_col_color3 by assumption. f_equal. f_equal. now apply retype_map.
  - apply N.eqb_eq in Hr. subst cty. rewrite rd_col_vector2 by assumption. f_equal. f_equal. now apply retype_map.
  - apply N.eqb_eq in Hr. subst cty. rewrite rd_col_vector3 by assumption. f_equal. f_equal. now apply retype_map.
  - apply N.eqb_eq in Hr. subst cty. rewrite rd_col_cframe by assumption. f_equal. f_equal. now apply retype_map.
  - apply N.eqb_eq in Hr. subst cty. rewrite rd_col_enum by assumption. f_equal. f_equal. now apply retype_map.
  - apply N.eqb_eq in Hr. subst cty. rewrite rd_col_referent by assumption. f_equal. f_equal. apply retype_map.
    intros x _. now rewrite Hres.
  - apply N.eqb_eq in Hr. subst cty. rewrite rd_col_v3i16 by assumption. f_equal. f_equal. now apply retype_map.
  - apply N.eqb_eq in Hr. subst cty. rewrite rd_col_nseq by assumption. f_equal. f_equal. now apply retype_map.
  - apply N.eqb_eq in Hr. subst cty. rewrite rd_col_cseq by assumption. f_equal. f_equal. now apply retype_map.
  - apply N.eqb_eq in Hr. subst cty. rewrite rd_col_nrange by assumption. f_equal. f_equal. now apply retype_map.
  - apply N.eqb_eq in Hr. subst cty. rewrite rd_col_rect by assumption. f_equal. f_equal. now apply retype_map.
  - apply N.eqb_eq in Hr. subst cty. rewrite rd_col_phys by assumption. f_equal. f_equal. now apply retype_map.
  - rewrite rd_col_c3u8 by assumption. f_equal. f_equal. now apply retype_map.
  - apply N.eqb_eq in Hr. subst cty. rewrite rd_col_int64 by assumption. f_equal. f_equal. now apply retype_map.
  - (* SharedString *)
    apply N.eqb_eq in Hr. subst cty. rewrite (rd_col_sstr dc u sstr lo l vals rest Hok Hss Hv). f_equal. f_equal.
    clear - Hv. cbn [bs_col_values] in Hv. revert vals Hv. induction l as [|i r IH]; intros vals; [now intros [= <-]|].
    destruct (if N.ltb i (N.of_nat (length sstr)) then nth_error sstr (N.to_nat i) else None) as [e|]; [|discriminate].
    match goal with |- (rest <- ?G ;; _) = _ -> _ => destruct G as [rs| | |] eqn:E end; cbn [rbind]; try discriminate.
    intros [= <-]. cbn [List.map retype]. f_equal. now apply IH.
  - apply N.eqb_eq in Hr. subst cty. rewrite rd_col_ocf by assumption. f_equal. f_equal. now apply retype_map.
  - apply N.eqb_eq in Hr. subst cty. rewrite rd_col_uid by assumption. f_equal. f_equal. now apply retype_map.
  - apply andb_true_iff in Hr. destruct Hr as [Hr H6]. apply N.eqb_eq in Hr. subst cty. rewrite rd_col_font by assumption.
    f_equal. f_equal. apply retype_map. now intros [[[fam w] s] c] _.
  - apply andb_true_iff in Hr. destruct Hr as [Hr H6]. apply N.eqb_eq in Hr. subst cty. subst rest. rewrite app_nil_r.
    rewrite (rd_col_content dc Hlim u l ext Hok H6). f_equal. f_equal. apply retype_map. intros x _. unfold content_val.
    destruct x; cbn [retype]; try reflexivity. now rewrite Hres.
Qed.

(* ================================================================ 2. F2: one chunk *)
(* The reader's effect of one chunk of the document encoder, WITHOUT bytes: [rstep d p st it] is the reader state after
   the chunk that encodes the item [it], None when the item is outside what the reader reads as the document means it
   (each None branch is a recorded restriction).  It is executable, so whole files can be evaluated with it. *)
Definition st_sstr (st : dstate) : list (bytes * bytes) := List.map (fun s => ([] : bytes, s)) (ds_sstr st).
Definition st_label (st : dstate) (z : Z) : N := match zfind z (ds_insts st) with Some i => di_label i | None => 0 end.
Definition with_insts := BinChunkFacts.with_insts.
Definition set_name := BinChunkFacts.set_name.

(* what the reader does with the values of a PROP chunk of a class registered as [ti] *)
Definition rstep_values (d : db) (p : dec_params) (st : dstate) (ti : dtinfo) (pname : bytes) (col : bs_column) : option dstate :=
  match wire_of_id (bs_col_type col) with
  | None => Some st                      (* a type id the reader does not know (Bytecode 0x1d): the chunk is skipped *)
  | Some ty =>
    if negb (Nat.eqb (bs_col_len col) (length (dt_referents ti))) then None else
    if bytes_eqb pname NAME then
      (* the property called Name is read as a String column whatever its type id says *)
      match col with
      | KString names =>
        match apply_values set_name (ds_insts st) (dt_referents ti) (List.map BinValuesFacts2.str_norm names) with
        | Ok insts => Some (with_insts st insts) | _ => None end
      | _ => None
      end
    else
      match find_canonical_property d ty (dt_name ti) pname with
      | Ok None => Some st                (* the database says the property does not serialize: skipped *)
      | Ok (Some (name, cty, migration)) =>
        if negb (reader_col_ok cty col) then None else
        match bs_col_values (st_sstr st) (st_label st) col with
        | Ok vals =>
          match apply_values (fun i v => add_property p i name migration v) (ds_insts st) (dt_referents ti)
                             (List.map (retype cty) vals) with
          | Ok insts => Some (with_insts st insts) | _ => None end
        | _ => None
        end
      | _ => None
      end
  end.

Definition rstep (d : db) (p : dec_params) (st : dstate) (it : bs_item) : option dstate :=
  match it with
  | IMeta l => if forallb (fun t => utf8_valid (fst t) && utf8_valid (snd t)) l then Some st else None
  | IUnknown _ _ => Some st
  | ISstr l => Some (mkDS (ds_sstr st ++ List.map snd l) (ds_types st) (ds_insts st) (ds_roots st) (ds_next st))
  | IInst c => if utf8_valid (cls_name c) then Some (BinChunkFacts.inst_register st (cls_id c) (cls_name c) (cls_refs c)) else None
  | IProp pr =>
    if negb (utf8_valid (bp_name pr)) then None else
    match lookup (bp_class pr) (ds_types st) with
    | None => None
    | Some ti =>
      match bp_body pr with
      | BTruncated => Some st
      | BUnknown ty _ => match wire_of_id ty with None => Some st | Some _ => None end
      | BValues col => rstep_values d p st ti (bp_name pr) col
      end
    end
  | IPrnt rows =>
    match prnt_links (ds_insts st) (ds_roots st) rows with
    | Ok r => Some (mkDS (ds_sstr st) (ds_types st) (fst r) (snd r) (ds_next st))
    | _ => None
    end
  | IEnd => None
  end.

(* the ranges [bs_wf] asks of one item (no reference to the rest of the file) *)
Definition ritem_ok (it : bs_item) : bool :=
  match it with
  | IMeta l => len_ok l && forallb kv_ok l
  | ISstr l => len_ok l && forallb sstr_entry_ok l
  | IInst c => class_ok c
  | IProp pr => u32_ok (bp_class pr) && str_ok (bp_name pr) &&
                match bp_body pr with BValues c => bs_col_ok c | BTruncated => true | BUnknown ty raw => byte_ok ty end
  | IPrnt rows => forallb (fun t => in_i32 (fst t) && in_i32 (snd t)) rows && len_ok rows
  | IEnd => true
  | IUnknown n _ => negb (known_name n)
  end.

Lemma wire_of_id_sound b ty : wire_of_id b = Some ty -> wire_id ty = b.
Proof. unfold wire_of_id. intros H. apply find_some in H. destruct H as [_ H]. now apply N.eqb_eq in H. Qed.

Lemma e_u32_w_le32 n : e_u32 n = w_le32 n. Proof. reflexivity. Qed.

Lemma st_sstr_snd st : List.map snd (st_sstr st) = ds_sstr st.
Proof. unfold st_sstr. rewrite map_map. apply map_id. Qed.

Lemma prop_header_spec id name rest : u32_ok id = true -> str_ok name = true -> utf8_valid name = true ->
  BinChunkFacts.prop_header None (e_u32 id ++ e_string name ++ rest) = Ok ((id, name), rest).
Proof.
  intros Hi Hn Hu. rewrite e_u32_w_le32, <- BinSpecAgree.w_bstr_e_string.
  apply BinChunkFacts.prop_header_app; [now apply u32_ok_lt| |reflexivity|exact Hu].
  rewrite BinSpecFacts.pow32. exact (len_ok_lt _ (str_ok_len _ Hn)).
Qed.

Section Chunks.
Variable d : db.
Variable p : dec_params.
Hypothesis Hlim : dp_lim p = None.

(* ---- PROP *)
Theorem reader_prop_chunk u st pr st' :
  ritem_ok (IProp pr) = true -> rstep d p st (IProp pr) = Some st' ->
  decode_prop d p st (snd (bs_enc_item rdA u (IProp pr))) = Ok st'.
Proof.
  intros Hok Hs. cbn [ritem_ok] in Hok. apply andb_true_iff in Hok. destruct Hok as [Hok Hb].
  apply andb_true_iff in Hok. destruct Hok as [Hid Hnm].
  cbn [rstep] in Hs. destruct (utf8_valid (bp_name pr)) eqn:Hu; [|discriminate]. cbn [negb] in Hs.
  destruct (lookup (bp_class pr) (ds_types st)) as [ti|] eqn:Hty; [|discriminate].
  cbn [bs_enc_item snd].
  assert (Hh : forall rest, BinChunkFacts.prop_header (dp_lim p) (e_u32 (bp_class pr) ++ e_string (bp_name pr) ++ rest)
                            = Ok ((bp_class pr, bp_name pr), rest)).
  { intros rest. rewrite Hlim. now apply prop_header_spec. }
  destruct (bp_body pr) as [col| |ty raw] eqn:Hbody.
  - (* values *)
    rewrite (BinChunkFacts.decode_prop_after_header d p st _ _ _ _ ti (Hh _) Hty).
    unfold rstep_values in Hs. destruct (wire_of_id (bs_col_type col)) as [ty|] eqn:Hw; [|now injection Hs as <-].
    destruct (Nat.eqb (bs_col_len col) (length (dt_referents ti))) eqn:Hlen; [|discriminate]. cbn [negb] in Hs.
    apply Nat.eqb_eq in Hlen.
    destruct (bytes_eqb (bp_name pr) NAME) eqn:Hname.
    + destruct col; try discriminate.
      destruct (apply_values set_name (ds_insts st) (dt_referents ti) (List.map BinValuesFacts2.str_norm l)) as [insts| | |] eqn:Ha; try discriminate.
      injection Hs as <-. cbn [bs_enc_col bs_col_len] in *. rewrite <- Hlen.
      assert (Hr : run_chunk (prepeat (length l) (read_bstr (dp_lim p))) (flat_map e_string l) = Ok l).
      { rewrite Hlim. apply (BinChunkFacts.run_chunk_ok _ _ _ []). rewrite <- (app_nil_r (flat_map e_string l)).
        rewrite <- (map_id l) at 3. apply prepeat_map_app. intros s r Hs. apply rd_bstr. exact (str_ok_len _ (fa_in _ _ Hb s Hs)). }
      rewrite Hr. cbn [rbind]. unfold BinValuesFacts2.str_norm in Ha. fold set_name. unfold set_name in *. rewrite Ha. reflexivity.
    + destruct (find_canonical_property d ty (dt_name ti) (bp_name pr)) as [[[[name cty] migration]|]| | |] eqn:Hcp; try discriminate.
      2:{ injection Hs as <-. reflexivity. }
      destruct (reader_col_ok cty col) eqn:Hrc; [|discriminate]. cbn [negb] in Hs.
      destruct (bs_col_values (st_sstr st) (st_label st) col) as [vals| | |] eqn:Hv; try discriminate.
      destruct (apply_values _ (ds_insts st) (dt_referents ti) (List.map (retype cty) vals)) as [insts| | |] eqn:Ha; try discriminate.
      injection Hs as <-. cbn [rbind].
      assert (Hr : run_chunk (dec_col ty cty (BinChunkFacts.prop_dctx p st) (length (dt_referents ti))) (bs_enc_col rdA u col)
                   = Ok (List.map (retype cty) vals)).
      { apply (BinChunkFacts.run_chunk_ok _ _ _ []). rewrite <- Hlen. rewrite <- (app_nil_r (bs_enc_col rdA u col)).
        refine (reader_reads_spec_column _ u col cty ty (st_sstr st) (st_label st) vals [] _ Hb Hrc Hw _ _ Hv _).
        - exact Hlim.
        - reflexivity.
        - cbn [dc_sstr BinChunkFacts.prop_dctx]. now rewrite st_sstr_snd.
        - now destruct col. }
      rewrite Hr. cbn [rbind]. rewrite Ha. reflexivity.
  - injection Hs as <-. rewrite app_nil_r.
    pose proof (Hh []) as Hh0. rewrite app_nil_r in Hh0.
    exact (BinChunkFacts.decode_prop_skip_truncated_gen d p st _ _ _ ti Hh0 Hty).
  - destruct (wire_of_id ty) eqn:Hw; [discriminate|]. injection Hs as <-.
    exact (BinChunkFacts.decode_prop_skip_unknown_type_gen d p st _ _ _ ti ty raw (Hh _) Hty Hw).
Qed.

(* ---- INST: plain and service format, arbitrary class id and referents *)
Theorem reader_inst_chunk u st c :
  class_ok c = true -> utf8_valid (cls_name c) = true ->
  run_chunk (decode_inst (dp_lim p) st) (snd (bs_enc_item rdA u (IInst c)))
  = Ok (BinChunkFacts.inst_register st (cls_id c) (cls_name c) (cls_refs c)).
Proof.
  intros Hok Hu. unfold class_ok in Hok.
  apply andb_true_iff in Hok; destruct Hok as [Hok Hm]. apply andb_true_iff in Hok; destruct Hok as [Hok Hlr].
  apply andb_true_iff in Hok; destruct Hok as [Hok Hrefs]. apply andb_true_iff in Hok; destruct Hok as [Hid Hnm].
  cbn [bs_enc_item snd]. rewrite Hlim. apply (BinChunkFacts.run_chunk_ok _ _ _ (cls_markers c)).
  rewrite <- BinSpecAgree.w_bstr_e_string.
  apply (BinChunkFacts.decode_inst_payload None st (cls_id c) (cls_name c) (cls_service c) (cls_refs c) (cls_markers c)).
  - now apply u32_ok_lt.
  - rewrite BinSpecFacts.pow32. exact (len_ok_lt _ (str_ok_len _ Hnm)).
  - reflexivity.
  - exact Hu.
  - rewrite BinSpecFacts.pow32. exact (len_ok_lt _ Hlr).
  - reflexivity.
  - exact (in_i32_Forall _ Hrefs).
Qed.

(* ---- META: read and dropped *)
Theorem reader_meta_chunk u l :
  len_ok l = true -> forallb kv_ok l = true -> forallb (fun t => utf8_valid (fst t) && utf8_valid (snd t)) l = true ->
  run_chunk (decode_meta (dp_lim p)) (snd (bs_enc_item rdA u (IMeta l))) = Ok tt.
Proof.
  intros Hl Hk Hu. cbn [bs_enc_item snd]. rewrite Hlim. apply (BinChunkFacts.run_chunk_ok _ _ _ []).
  unfold decode_meta. rewrite (pb _ _ _ _ _ (read_le4 _ _ (len_ok_lt _ Hl))). unfold palloc at 1. unfold pbind at 1.
  rewrite <- (app_nil_r (flat_map e_pair l)).
  erewrite pb; [reflexivity|]. apply (pfor_map_app _ e_pair (fun _ => tt)).
  - intros [k v] r Hin. pose proof (fa_in _ _ Hk _ Hin) as H1. pose proof (fa_in _ _ Hu _ Hin) as H2.
    unfold kv_ok in H1. cbn [fst snd] in H1, H2. apply andb_true_iff in H1, H2. destruct H1 as [Hk1 Hv1], H2 as [Hk2 Hv2].
    unfold e_pair. cbn [fst snd]. rewrite <- app_assoc.
    rewrite (pb _ _ _ _ _ (rd_str k _ (str_ok_len _ Hk1) Hk2)). rewrite (pb _ _ _ _ _ (rd_str v _ (str_ok_len _ Hv1) Hv2)). reflexivity.
  - intros [k v]. unfold e_pair. rewrite app_length. pose proof (e_string_min (fst (k, v))). lia.
Qed.

(* ---- SSTR *)
Theorem reader_sstr_chunk u l :
  len_ok l = true -> forallb sstr_entry_ok l = true ->
  run_chunk (decode_sstr (dp_lim p)) (snd (bs_enc_item rdA u (ISstr l))) = Ok (List.map snd l).
Proof.
  intros Hl Hk. cbn [bs_enc_item snd]. rewrite Hlim. apply (BinChunkFacts.run_chunk_ok _ _ _ []).
  unfold decode_sstr. rewrite (pb _ _ _ _ _ (read_le4 0 _ ltac:(lia))). vt.
  rewrite (pb _ _ _ _ _ (read_le4 _ _ (len_ok_lt _ Hl))).
  rewrite <- (app_nil_r (flat_map e_sstr_entry l)). apply (pfor_map_app _ e_sstr_entry snd).
  - intros [h s] r Hin. pose proof (fa_in _ _ Hk _ Hin) as H1. unfold sstr_entry_ok in H1. cbn [fst snd] in H1.
    apply andb_true_iff in H1; destruct H1 as [H1 Hs]. apply andb_true_iff in H1; destruct H1 as [_ Hh]. apply Nat.eqb_eq in Hh.
    unfold e_sstr_entry. cbn [fst snd]. rewrite <- app_assoc. rewrite <- Hh at 1.
    rewrite (pb _ _ _ _ _ (read_exact_app _ _)). apply rd_bstr. exact (str_ok_len _ Hs).
  - intros [h s]. unfold e_sstr_entry. rewrite app_length. pose proof (e_string_min (snd (h, s))). lia.
Qed.

(* ---- PRNT: the rows, in any order, with any referents *)
Lemma zip_fst_snd {A B} (l : list (A * B)) : zip (List.map fst l) (List.map snd l) = l.
Proof. rewrite BinValuesFacts.zip_map. rewrite <- (map_id l) at 2. apply map_ext. now intros [a b]. Qed.

Theorem reader_prnt_chunk u st rows :
  forallb (fun t => in_i32 (fst t) && in_i32 (snd t)) rows = true -> len_ok rows = true ->
  decode_prnt (dp_lim p) st (snd (bs_enc_item rdA u (IPrnt rows)))
  = (r2 <- prnt_links (ds_insts st) (ds_roots st) rows ;; Ok (mkDS (ds_sstr st) (ds_types st) (fst r2) (snd r2) (ds_next st))).
Proof.
  intros Hr Hl. cbn [bs_enc_item snd]. rewrite Hlim. unfold decode_prnt.
  assert (H1 : Forall (fun v => in_i32 v = true) (List.map fst rows)).
  { apply Forall_forall. intros z Hz. apply in_map_iff in Hz. destruct Hz as [t [<- Ht]].
    pose proof (fa_in _ _ Hr _ Ht) as Hc. now apply andb_true_iff in Hc. }
  assert (H2 : Forall (fun v => in_i32 v = true) (List.map snd rows)).
  { apply Forall_forall. intros z Hz. apply in_map_iff in Hz. destruct Hz as [t [<- Ht]].
    pose proof (fa_in _ _ Hr _ Ht) as Hc. now apply andb_true_iff in Hc. }
  erewrite (BinChunkFacts.run_chunk_ok _ _ rows []); [reflexivity|].
  rewrite (pb _ _ _ _ _ (read_u8_cons 0 _ ltac:(lia))). vt.
  rewrite (pb _ _ _ _ _ (read_le4 _ _ (len_ok_lt _ Hl))).
  pose proof (BinChunkFacts.read_referents_app None (List.map fst rows) (enc_ref_array (List.map snd rows)) H1 eq_refl) as E1.
  rewrite map_length in E1. rewrite (pb _ _ _ _ _ E1).
  pose proof (BinChunkFacts.read_referents_app None (List.map snd rows) [] H2 eq_refl) as E2.
  rewrite map_length, app_nil_r in E2. rewrite (pb _ _ _ _ _ E2). unfold pret. now rewrite zip_fst_snd.
Qed.

(* ---- a chunk with a name the document does not define: the state is unchanged *)
Theorem reader_unknown_chunk st n data : known_name n = false -> dispatch_chunk d p st n data = Ok (Some st).
Proof.
  unfold known_name. intros H. repeat (apply orb_false_iff in H; destruct H as [H ?]).
  unfold dispatch_chunk.
  change CH_META with NAME_META. change CH_SSTR with NAME_SSTR. change CH_INST with NAME_INST.
  change CH_PROP with NAME_PROP. change CH_PRNT with NAME_PRNT. change CH_END with NAME_END.
  repeat match goal with E : bytes_eqb n _ = false |- _ => rewrite E; clear E end. reflexivity.
Qed.

(* ---- F2, assembled: the dispatch of the reader on the chunk of any item = the byte-free step *)
Theorem reader_item_chunk u st it st' :
  ritem_ok it = true -> rstep d p st it = Some st' ->
  dispatch_chunk d p st (fst (bs_enc_item rdA u it)) (snd (bs_enc_item rdA u it)) = Ok (Some st').
Proof.
  intros Hok Hs. destruct it as [l|l|c|pr|rows| |n data].
  - cbn [rstep] in Hs. destruct (forallb _ l) eqn:Hu; [|discriminate]. injection Hs as <-.
    cbn [ritem_ok] in Hok. apply andb_true_iff in Hok. destruct Hok as [Hl Hk].
    change (fst (bs_enc_item rdA u (IMeta l))) with CH_META. rewrite BinChunkFacts.dispatch_META.
    now rewrite (reader_meta_chunk u l Hl Hk Hu).
  - cbn [rstep] in Hs. injection Hs as <-. cbn [ritem_ok] in Hok. apply andb_true_iff in Hok. destruct Hok as [Hl Hk].
    change (fst (bs_enc_item rdA u (ISstr l))) with CH_SSTR. rewrite BinChunkFacts.dispatch_SSTR.
    now rewrite (reader_sstr_chunk u l Hl Hk).
  - cbn [rstep] in Hs. destruct (utf8_valid (cls_name c)) eqn:Hu; [|discriminate]. injection Hs as <-.
    change (fst (bs_enc_item rdA u (IInst c))) with CH_INST. rewrite BinChunkFacts.dispatch_INST.
    now rewrite (reader_inst_chunk u st c Hok Hu).
  - change (fst (bs_enc_item rdA u (IProp pr))) with CH_PROP. rewrite BinChunkFacts.dispatch_PROP.
    now rewrite (reader_prop_chunk u st pr st' Hok Hs).
  - cbn [rstep] in Hs. cbn [ritem_ok] in Hok. apply andb_true_iff in Hok. destruct Hok as [Hr Hl].
    change (fst (bs_enc_item rdA u (IPrnt rows))) with CH_PRNT. rewrite BinChunkFacts.dispatch_PRNT.
    rewrite (reader_prnt_chunk u st rows Hr Hl).
    destruct (prnt_links (ds_insts st) (ds_roots st) rows) as [r| | |]; try discriminate. now injection Hs as <-.
  - discriminate.
  - cbn [rstep] in Hs. injection Hs as <-. cbn [ritem_ok] in Hok. apply negb_true_iff in Hok.
    cbn [bs_enc_item fst snd]. now apply reader_unknown_chunk.
Qed.

End Chunks.

(* ================================================================ 3. F3: the whole file *)
(* ---- 3a. framing: every chunk framed with its OWN compression choice (none / any compressor the inflater inverts) *)
Fixpoint gframe_all (cmps : list compression) (cs : list (bytes * bytes)) : bytes :=
  match cs with
  | [] => []
  | c :: r =>
    let here := match cmps with x :: _ => x | [] => None end in
    let here := if bytes_eqb (fst c) NAME_END then None else here in
    frame_chunk here c ++ gframe_all (tl cmps) r
  end.
(* per chunk: the sizes fit the u32 fields and the reader's inflater inverts the compressor chosen for the chunk *)
Fixpoint gframes_rt (p : dec_params) (cmps : list compression) (cs : list (bytes * bytes)) : Prop :=
  match cs with
  | [] => True
  | c :: r =>
    let here := match cmps with x :: _ => x | [] => None end in
    let here := if bytes_eqb (fst c) NAME_END then None else here in
    BinFraming.chunk_rt p here c /\ gframes_rt p (tl cmps) r
  end.

Definition cmp_of_bool (b : bool) : compression := if b then Some literal_only_block else None.

Lemma bs_frame_frame_chunk b c : bs_frame b c = frame_chunk (cmp_of_bool b) c.
Proof.
  destruct c as [name data]. unfold bs_frame, frame_chunk, cmp_of_bool. destruct b.
  - now rewrite <- !BinSpecAgree.w_le32_len32.
  - now rewrite <- !BinSpecAgree.w_le32_len32.
Qed.

Lemma bs_frame_all_gframe cs : forall comp, bs_frame_all comp cs = gframe_all (List.map cmp_of_bool comp) cs.
Proof.
  induction cs as [|c r IH]; intros comp; [reflexivity|]. cbn [bs_frame_all gframe_all].
  rewrite bs_frame_frame_chunk, IH. f_equal.
  - destruct comp as [|b comp']; cbn [List.map]; destruct (bytes_eqb (fst c) NAME_END); reflexivity.
  - destruct comp; reflexivity.
Qed.

(* the document encoder's own compressor (LZ4 literal-only blocks) under an inflater that implements LZ4 *)
Lemma literal_frames_rt p : (forall x, dp_inflate p (literal_only_block x) (N.of_nat (length x)) = Some x) ->
  forall cs comp, frames_ok comp cs = true -> gframes_rt p (List.map cmp_of_bool comp) cs.
Proof.
  intros Hinf. induction cs as [|c r IH]; intros comp H; [exact I|]. cbn [frames_ok] in H. cbn [gframes_rt].
  apply andb_true_iff in H. destruct H as [Hc Hr]. split.
  - set (b := if bytes_eqb (fst c) NAME_END then false else match comp with b :: _ => b | [] => false end) in *.
    replace (if bytes_eqb (fst c) NAME_END then None else match List.map cmp_of_bool comp with x :: _ => x | [] => None end)
      with (cmp_of_bool b) by (unfold b; destruct (bytes_eqb (fst c) NAME_END); [reflexivity|destruct comp; reflexivity]).
    unfold frame_ok in Hc. apply andb3 in Hc. destruct Hc as (Hn & Hd & Hz). apply Nat.eqb_eq in Hn.
    unfold BinFraming.chunk_rt, BinFraming.chunk_ok, BinFraming.sizes_ok. rewrite BinSpecFacts.pow32.
    destruct b; cbn [cmp_of_bool].
    + repeat split; [exact Hn|exact (len_ok_lt _ Hd)|exact (len_ok_lt _ Hz)|apply literal_only_nonempty|apply Hinf].
    + repeat split; [exact Hn|exact (len_ok_lt _ Hd)].
  - replace (tl (List.map cmp_of_bool comp)) with (List.map cmp_of_bool (tl comp)) by (destruct comp; reflexivity). now apply IH.
Qed.

Lemma gframes_length p : forall cs cmps, gframes_rt p cmps cs -> (length cs <= length (gframe_all cmps cs))%nat.
Proof.
  induction cs as [|c r IH]; intros cmps H; [cbn; lia|]. cbn [gframes_rt] in H. destruct H as [[Hc _] Hr].
  cbn [gframe_all length]. rewrite app_length. pose proof (BinFraming.frame_chunk_nonempty _ _ Hc). specialize (IH _ Hr). lia.
Qed.

(* the byte-level chunk loop on the framed chunks = the list-level loop on the chunks *)
Lemma chunk_loop_gframes d p : dp_lim p = None -> forall cs cmps fuel st, gframes_rt p cmps cs -> (length cs < fuel)%nat ->
  chunk_loop fuel d p st (gframe_all cmps cs) = chunk_list_loop d p st cs.
Proof.
  intros Hl. induction cs as [|c r IH]; intros cmps fuel st H Hf.
  - destruct fuel as [|f]; [cbn in Hf; lia|]. reflexivity.
  - destruct fuel as [|f]; [cbn in Hf; lia|]. cbn [gframes_rt] in H. destruct H as [Hc Hr].
    cbn [gframe_all chunk_loop]. rewrite (BinFraming.frame_roundtrip p _ c _ Hl Hc).
    destruct c as [name data]. cbn [chunk_list_loop].
    destruct (dispatch_chunk d p st name data) as [[st'|]| | |]; cbn [rbind]; try reflexivity.
    apply IH; [exact Hr|]. cbn [length] in Hf. lia.
Qed.

(* ---- 3b. the chunk list: the reader's loop over the encoded items = the byte-free steps *)
Fixpoint run_items (d : db) (p : dec_params) (st : dstate) (items : list bs_item) : option dstate :=
  match items with
  | [] => None
  | IEnd :: _ => Some st
  | it :: r => match rstep d p st it with Some st' => run_items d p st' r | None => None end
  end.

Lemma chunk_list_loop_items d p u : dp_lim p = None -> forall items st st',
  forallb ritem_ok items = true -> run_items d p st items = Some st' ->
  chunk_list_loop d p st (List.map (bs_enc_item rdA u) items) = Ok st'.
Proof.
  intros Hl. induction items as [|it r IH]; intros st st' Hok Hrun; [discriminate|].
  cbn [forallb] in Hok. apply andb_true_iff in Hok. destruct Hok as [Hit Hr]. cbn [List.map].
  destruct (bs_enc_item rdA u it) as [name data] eqn:E.
  assert (Hstep : forall st1, rstep d p st it = Some st1 -> dispatch_chunk d p st name data = Ok (Some st1)).
  { intros st1 H1. pose proof (reader_item_chunk d p Hl u st it st1 Hit H1) as Hd. now rewrite E in Hd. }
  destruct it; cbn [run_items] in Hrun;
    try (destruct (rstep d p st _) as [st1|] eqn:Hs; [|discriminate];
         rewrite (BinChunkFacts.chunk_list_loop_step d p st name data _ st1 (Hstep st1 eq_refl)); now apply IH).
  injection Hrun as <-. cbn [bs_enc_item] in E. injection E as <- <-. reflexivity.
Qed.

(* ---- 3c. header *)
Lemma spec_header_is_file_header f :
  bs_enc_header (bs_header_of f) = BinFraming.file_header (N.of_nat (length (bf_classes f))) (N.of_nat (inst_total (bf_classes f))).
Proof.
  unfold bs_enc_header, bs_header_of, BinFraming.file_header. cbn [fst snd]. now rewrite !BinSpecAgree.e_i32le_of_nat.
Qed.

Lemma items_ok_of_wf f : bs_wf f = true -> forall order, forallb ritem_ok (bs_items_of order f) = true.
Proof.
  intros Hwf order. unfold bs_wf in Hwf.
  repeat match type of Hwf with _ && _ = true => apply andb_true_iff in Hwf; let H := fresh "W" in destruct Hwf as [Hwf H] end.
  unfold bs_items_of. rewrite forallb_app. apply andb_true_iff. split; [|reflexivity].
  apply forallb_forall. intros it Hit. apply in_flat_map in Hit. destruct Hit as [k [_ Hit]].
  destruct k as [| |k|k| |k]; cbn [item_of_key] in Hit.
  - destruct (bf_meta f) as [l|]; [|destruct Hit]. destruct Hit as [<-|[]]. exact Hwf.
  - destruct (bf_sstr f) as [l|]; [|destruct Hit]. destruct Hit as [<-|[]]. assumption.
  - destruct (nth_error (bf_classes f) k) as [c|] eqn:E; [|destruct Hit]. destruct Hit as [<-|[]].
    apply nth_error_In in E. cbn [ritem_ok]. eapply forallb_In; eassumption.
  - destruct (nth_error (bf_props f) k) as [pr|] eqn:E; [|destruct Hit]. destruct Hit as [<-|[]].
    apply nth_error_In in E. cbn [ritem_ok].
    match goal with H : forallb (prop_ok _) _ = true |- _ => pose proof (forallb_In _ _ _ H E) as Hp end.
    unfold prop_ok in Hp. apply andb_true_iff in Hp. destruct Hp as [Hp Hb]. rewrite Hp. cbn [andb].
    destruct (class_count (bf_classes f) (bp_class pr)); [|discriminate].
    destruct (bp_body pr); [|reflexivity|].
    + now apply andb_true_iff in Hb.
    + apply andb_true_iff in Hb. destruct Hb as [Hb _]. now apply andb_true_iff in Hb.
  - destruct Hit as [<-|[]]. cbn [ritem_ok]. apply andb_true_iff. split; assumption.
  - destruct (nth_error (bf_unknown f) k) as [[n dta]|] eqn:E; [|destruct Hit]. destruct Hit as [<-|[]].
    apply nth_error_In in E. cbn [ritem_ok].
    match goal with H : forallb _ (bf_unknown f) = true |- _ => pose proof (forallb_In _ _ _ H E) as Hp end.
    cbn [fst snd] in Hp. repeat (apply andb_true_iff in Hp; destruct Hp as [Hp ?]). assumption.
Qed.

(* ---- 3d. F3, bytes to steps: for EVERY chunk order, EVERY per-chunk compression, both rotation choices, the reader on the
   bytes of the document encoder is `finish` of the byte-free run over the items — whenever that run is defined *)
Theorem reader_on_spec_file_gen d p u order cmps f st :
  dp_lim p = None -> bs_wf f = true ->
  gframes_rt p cmps (List.map (bs_enc_item rdA u) (bs_items_of order f)) ->
  run_items d p dstate0 (bs_items_of order f) = Some st ->
  decode_file d p (bs_enc_header (bs_header_of f) ++ gframe_all cmps (List.map (bs_enc_item rdA u) (bs_items_of order f)))
  = finish p st.
Proof.
  intros Hl Hwf Hrt Hrun. rewrite spec_header_is_file_header. unfold decode_file. rewrite Hl.
  assert (Hc : (Z.of_nat (length (bf_classes f)) < 2147483648)%Z /\ (Z.of_nat (inst_total (bf_classes f)) < 2147483648)%Z).
  { unfold bs_wf in Hwf. apply andb_true_iff in Hwf. destruct Hwf as [Hwf Hic]. apply andb_true_iff in Hwf. destruct Hwf as [_ Hcc].
    apply Z.ltb_lt in Hic, Hcc. now split. }
  rewrite BinFraming.file_header_decodes by (rewrite BinSpecFacts.pow32; lia).
  rewrite (chunk_loop_gframes d p Hl _ cmps _ dstate0 Hrt) by (pose proof (gframes_length p _ _ Hrt); lia).
  rewrite (chunk_list_loop_items d p u Hl _ dstate0 st (items_ok_of_wf f Hwf order) Hrun). reflexivity.
Qed.

(* the document encoder itself: LZ4 literal-only blocks on the chunks its choices compress *)
Theorem reader_on_spec_file d p ch f st :
  dp_lim p = None -> bs_wf f = true -> bs_sizes_ok rdA ch f = true ->
  (forall x, dp_inflate p (literal_only_block x) (N.of_nat (length x)) = Some x) ->
  run_items d p dstate0 (bs_items_of (ch_order ch) f) = Some st ->
  decode_file d p (bspec_encode rdA ch f) = finish p st.
Proof.
  intros Hl Hwf Hsz Hinf Hrun. unfold bspec_encode, bspec_encode_chunks. rewrite bs_frame_all_gframe.
  apply reader_on_spec_file_gen; try assumption. now apply literal_frames_rt.
Qed.

(* ---- 3e. the structure of the state the run reaches: for ANY chunk order in which the INST chunks precede the one PRNT chunk
   (PROP, META, SSTR and unknown chunks anywhere, INST chunks in any order, any class ids, any referents as long as they are
   pairwise distinct), every instance is registered under its class name and receives exactly the children the PRNT rows give
   it, in row order; the roots are the rows with parent -1, in row order. *)
Fixpoint run_steps (d : db) (p : dec_params) (st : dstate) (items : list bs_item) : option dstate :=
  match items with
  | [] => Some st
  | it :: r => match rstep d p st it with Some st' => run_steps d p st' r | None => None end
  end.

Lemma run_items_steps d p : forall pre st, forallb (fun it => negb (is_end it)) pre = true ->
  run_items d p st (pre ++ [IEnd]) = run_steps d p st pre.
Proof.
  induction pre as [|it r IH]; intros st H; [reflexivity|]. cbn [forallb] in H. apply andb_true_iff in H. destruct H as [Hi Hr].
  cbn [app run_items run_steps]. destruct it; cbn [is_end negb] in Hi; try discriminate;
    (destruct (rstep d p st _); [now apply IH|reflexivity]).
Qed.

(* INST chunks before the PRNT chunk, at most one PRNT chunk ([sp] = a PRNT chunk has been seen) *)
Fixpoint inst_prnt_ok (sp : bool) (items : list bs_item) : bool :=
  match items with
  | [] => true
  | IInst _ :: r => negb sp && inst_prnt_ok sp r
  | IPrnt _ :: r => negb sp && inst_prnt_ok true r
  | IEnd :: _ => false
  | _ :: r => inst_prnt_ok sp r
  end.

Definition struct_inv (st : dstate) (cs : list bs_class) (rws : list (Z * Z)) : Prop :=
  ds_roots st = BinFinish.rows_of (-1) rws /\
  forall c r, In c cs -> In r (cls_refs c) ->
    exists i, zfind r (ds_insts st) = Some i /\ di_class i = cls_name c /\ di_children i = BinFinish.rows_to r rws.

Lemma prnt_links_ok_spec : forall pairs insts roots insts' roots',
  prnt_links insts roots pairs = Ok (insts', roots') ->
  roots' = roots ++ BinFinish.rows_of (-1) pairs /\
  forall k, zfind k insts' = match zfind k insts with
                             | Some i => Some (BinFinish.add_children i (BinFinish.rows_to k pairs))
                             | None => None end.
Proof.
  intros pairs insts roots insts' roots' H.
  assert (Hreg : forall c par, In (c, par) pairs -> par = (-1)%Z \/ zfind par insts <> None).
  { revert insts roots H. induction pairs as [|[c0 par0] rest IH]; intros insts roots H c par Hin; [destruct Hin|].
    cbn [prnt_links] in H. destruct (Z.eqb par0 (-1)) eqn:E.
    - destruct Hin as [[= <- <-]|Hin]; [left; now apply Z.eqb_eq|]. exact (IH _ _ H c par Hin).
    - destruct (zfind par0 insts) as [i|] eqn:Ei; [|discriminate].
      destruct Hin as [[= <- <-]|Hin]; [right; now rewrite Ei|].
      destruct (IH _ _ H c par Hin) as [?|Hs]; [now left|right].
      destruct (Z.eq_dec par0 par) as [<-|Hne]; [now rewrite Ei|]. now rewrite BinSafe.zfind_zupd_other in Hs. }
  destruct (BinFinish.prnt_links_spec pairs insts roots Hreg) as (i2 & Hrun & Hf).
  rewrite H in Hrun. injection Hrun as <- <-. split; [reflexivity|exact Hf].
Qed.

Lemma rstep_lab_inv d p st it st' : dp_lim p = None -> ritem_ok it = true ->
  rstep d p st it = Some st' -> BinFinish.lab_inv st -> BinFinish.lab_inv st'.
Proof.
  intros Hl Hok Hs Hinv. eapply BinFinish.dispatch_labels; [exact Hinv|]. exact (reader_item_chunk d p Hl true st it st' Hok Hs).
Qed.

Lemma struct_step d p st it st' cs rws sp : dp_lim p = None -> ritem_ok it = true ->
  rstep d p st it = Some st' -> struct_inv st cs rws -> (sp = false -> rws = []) ->
  match it with
  | IInst c => sp = false -> NoDup (cls_refs c) -> (forall c' r, In c' cs -> In r (cls_refs c') -> ~ In r (cls_refs c)) ->
               struct_inv st' (cs ++ [c]) rws
  | IPrnt rows => sp = false -> struct_inv st' cs rows
  | _ => struct_inv st' cs rws
  end.
Proof.
  intros Hl Hok Hs [Hroots Hinv] Hsp. destruct it as [l|l|c|pr|rows| |n dta]; cbn [rstep] in Hs.
  - destruct (forallb _ l); [|discriminate]. injection Hs as <-. now split.
  - injection Hs as <-. now split.
  - destruct (utf8_valid (cls_name c)); [|discriminate]. injection Hs as <-. intros Hf Hnd Hdis.
    unfold BinChunkFacts.inst_register.
    pose proof (BinChunkFacts.fresh_insts_spec (cls_name c) (cls_refs c) (ds_insts st) (ds_next st) Hnd) as [F1 F2].
    destruct (BinChunkFacts.fresh_insts (cls_name c) (cls_refs c) (ds_insts st) (ds_next st)) as [insts next].
    cbn [fst] in F1, F2. split; [exact Hroots|]. cbn [ds_insts]. intros c' r Hc' Hr. apply in_app_or in Hc'. destruct Hc' as [Hc'|[<-|[]]].
    + rewrite F2 by (exact (Hdis c' r Hc' Hr)). now apply Hinv.
    + apply In_nth_error in Hr. destruct Hr as [k Hk]. rewrite (F1 k r Hk). eexists. split; [reflexivity|]. cbn [di_class di_children].
      split; [reflexivity|]. rewrite (Hsp Hf). unfold BinFinish.rows_to, BinFinish.rows_of. cbn. now destruct (Z.eqb r (-1)).
  - assert (Hd : decode_prop d p st (snd (bs_enc_item rdA true (IProp pr))) = Ok st') by (now apply reader_prop_chunk).
    apply BinRoundTrip.decode_prop_skel in Hd. destruct Hd as (_ & _ & Hr & _ & Hk). split; [now rewrite Hr|].
    intros c r Hc Hrr. destruct (Hinv c r Hc Hrr) as (i & Hi & Hcl & Hch). specialize (Hk r).
    unfold BinRoundTrip.skelf in Hk. rewrite Hi in Hk. destruct (zfind r (ds_insts st')) as [i'|]; [|discriminate].
    cbn [option_map] in Hk. injection Hk as _ Hc2 Hc3. exists i'. split; [reflexivity|]. split; congruence.
  - intros Hf. destruct (prnt_links (ds_insts st) (ds_roots st) rows) as [[i2 r2]| | |] eqn:E; try discriminate.
    injection Hs as <-. destruct (prnt_links_ok_spec _ _ _ _ _ E) as [-> Hfind]. cbn [fst snd ds_roots ds_insts].
    rewrite (Hsp Hf) in *. split; [now rewrite Hroots|]. intros c r Hc Hr. destruct (Hinv c r Hc Hr) as (i & Hi & Hcl & Hch).
    rewrite Hfind, Hi. eexists. split; [reflexivity|]. unfold BinFinish.add_children. cbn [di_class di_children]. split; [exact Hcl|].
    rewrite Hch. unfold BinFinish.rows_to at 1. unfold BinFinish.rows_of. cbn. now destruct (Z.eqb r (-1)).
  - discriminate.
  - injection Hs as <-. now split.
Qed.

Lemma struct_run d p : dp_lim p = None -> forall items st st' cs rws sp,
  forallb ritem_ok items = true -> run_steps d p st items = Some st' ->
  struct_inv st cs rws -> (sp = false -> rws = []) -> BinFinish.lab_inv st ->
  inst_prnt_ok sp items = true -> NoDup (all_refs (cs ++ bs_insts items)) ->
  struct_inv st' (cs ++ bs_insts items) (rws ++ concat (bs_prnts items)) /\ BinFinish.lab_inv st'.
Proof.
  intros Hl. induction items as [|it r IH]; intros st st' cs rws sp Hok Hrun Hinv Hsp Hlab Hipo Hnd.
  - injection Hrun as <-. cbn [bs_insts bs_prnts flat_map concat]. now rewrite !app_nil_r.
  - cbn [forallb] in Hok. apply andb_true_iff in Hok. destruct Hok as [Hit Hr]. cbn [run_steps] in Hrun.
    destruct (rstep d p st it) as [st1|] eqn:Hs; [|discriminate].
    pose proof (struct_step d p st it st1 cs rws sp Hl Hit Hs Hinv Hsp) as Hstep.
    pose proof (rstep_lab_inv d p st it st1 Hl Hit Hs Hlab) as Hlab1.
    destruct it as [l|l|c|pr|rows| |n dta]; cbn [inst_prnt_ok] in Hipo; unfold bs_insts, bs_prnts in *; cbn [flat_map app concat] in *;
      fold (bs_insts r) in *; fold (bs_prnts r) in *.
    + exact (IH _ _ _ _ sp Hr Hrun Hstep Hsp Hlab1 Hipo Hnd).
    + exact (IH _ _ _ _ sp Hr Hrun Hstep Hsp Hlab1 Hipo Hnd).
    + apply andb_true_iff in Hipo. destruct Hipo as [Hf Hipo]. apply negb_true_iff in Hf.
      replace (cs ++ c :: bs_insts r) with ((cs ++ [c]) ++ bs_insts r) in * by (now rewrite <- app_assoc).
      apply (IH _ _ _ _ sp Hr Hrun); try assumption. apply Hstep; [exact Hf| |].
      * unfold all_refs in Hnd. rewrite !flat_map_app in Hnd. cbn [flat_map] in Hnd. rewrite app_nil_r in Hnd.
        apply BinFinish.NoDup_app_left in Hnd. now apply BinFinish.NoDup_app_right in Hnd.
      * intros c' r0 Hc' Hr0 Hin. unfold all_refs in Hnd. rewrite !flat_map_app in Hnd. cbn [flat_map] in Hnd. rewrite app_nil_r in Hnd.
        apply BinFinish.NoDup_app_left in Hnd. eapply BinFinish.NoDup_app_not; [exact Hnd| |exact Hin].
        apply in_flat_map. exists c'. now split.
    + exact (IH _ _ _ _ sp Hr Hrun Hstep Hsp Hlab1 Hipo Hnd).
    + apply andb_true_iff in Hipo. destruct Hipo as [Hf Hipo]. apply negb_true_iff in Hf. rewrite (Hsp Hf). cbn [app].
      assert (E : bs_prnts r = []).
      { clear - Hipo. induction r as [|x r IH]; [reflexivity|]. destruct x; cbn [inst_prnt_ok] in Hipo; try discriminate;
          unfold bs_prnts; cbn [flat_map app]; apply IH; exact Hipo. }
      rewrite E. cbn [concat]. rewrite app_nil_r.
      pose proof (IH st1 st' cs rows true Hr Hrun (Hstep Hf) ltac:(discriminate) Hlab1 Hipo Hnd) as [H1 H2].
      rewrite E in H1. cbn [concat] in H1. rewrite app_nil_r in H1. now split.
    + discriminate.
    + exact (IH _ _ _ _ sp Hr Hrun Hstep Hsp Hlab1 Hipo Hnd).
Qed.

Lemma items_no_end f : forall order, forallb (fun it => negb (is_end it)) (flat_map (item_of_key f) order) = true.
Proof.
  induction order as [|k r IH]; [reflexivity|]. cbn [flat_map]. rewrite forallb_app, IH, andb_true_r.
  destruct k as [| |k|k| |k]; cbn [item_of_key].
  - now destruct (bf_meta f).
  - now destruct (bf_sstr f).
  - now destruct (nth_error (bf_classes f) k).
  - now destruct (nth_error (bf_props f) k).
  - reflexivity.
  - now destruct (nth_error (bf_unknown f) k) as [[n dta]|].
Qed.

(* ---- 3f. F3, structure: the reader on the document encoder's bytes rebuilds the forest the PRNT rows describe.
   [F] is any forest over referents of the file with [rows_describe (bf_prnt f) F]: its roots are the rows with parent -1 in
   row order, the children of a node are the rows naming it as parent in row order — the structure bspec_to_dom assigns
   (bn_parent of row k = the label of its parent row; sibling order = row order).  `reconstructs` (Proofs/BinFinish.v) says:
   every instance exactly once, labels pairwise distinct, classes, parent labels, root order and every sibling order. *)
Theorem reader_rebuilds_spec_forest d p u order cmps f st F :
  dp_lim p = None -> bs_wf f = true ->
  gframes_rt p cmps (List.map (bs_enc_item rdA u) (bs_items_of order f)) ->
  run_items d p dstate0 (bs_items_of order f) = Some st ->
  let items := flat_map (item_of_key f) order in
  inst_prnt_ok false items = true -> bs_prnts items = [bf_prnt f] ->
  NoDup (all_refs (bs_insts items)) ->
  BinFinish.rows_describe (bf_prnt f) F -> NoDup (BinFinish.zfrefs F) -> incl (BinFinish.zfrefs F) (all_refs (bs_insts items)) ->
  let D := BinFinish.dinst_of (ds_insts st) in
  exists out,
    decode_file d p (bs_enc_header (bs_header_of f) ++ gframe_all cmps (List.map (bs_enc_item rdA u) (bs_items_of order f))) = Ok out /\
    BinFinish.reconstructs D p F out /\
    (forall c r, In c (bs_insts items) -> In r (cls_refs c) ->
       zfind r (ds_insts st) <> None /\ di_class (D r) = cls_name c /\ di_children (D r) = BinFinish.rows_to r (bf_prnt f)).
Proof.
  intros Hl Hwf Hrt Hrun items Hipo Hprnt Hnd Hdesc HndF Hincl D.
  rewrite (reader_on_spec_file_gen d p u order cmps f st Hl Hwf Hrt Hrun).
  unfold bs_items_of in Hrun. fold items in Hrun. rewrite (run_items_steps d p items dstate0 (items_no_end f order)) in Hrun.
  pose proof (items_ok_of_wf f Hwf order) as Hok. unfold bs_items_of in Hok. fold items in Hok. rewrite forallb_app in Hok.
  apply andb_true_iff in Hok. destruct Hok as [Hok _].
  assert (Hinv0 : struct_inv dstate0 [] []) by (split; [reflexivity|intros c r []]).
  destruct (struct_run d p Hl items dstate0 st [] [] false Hok Hrun Hinv0 (fun _ => eq_refl) BinFinish.lab_inv0 Hipo Hnd)
    as [[Hroots Hinst] Hlab].
  cbn [app] in Hroots, Hinst. rewrite Hprnt in Hroots, Hinst. cbn [concat] in Hroots, Hinst. rewrite app_nil_r in Hroots, Hinst.
  assert (HD : forall c r, In c (bs_insts items) -> In r (cls_refs c) ->
            zfind r (ds_insts st) <> None /\ di_class (D r) = cls_name c /\ di_children (D r) = BinFinish.rows_to r (bf_prnt f)).
  { intros c r Hc Hr. destruct (Hinst c r Hc Hr) as (i & Hi & Hc1 & Hc2). unfold D, BinFinish.dinst_of. rewrite Hi.
    split; [discriminate|now split]. }
  assert (Hreg : forall k, In k (BinFinish.zfrefs F) -> zfind k (ds_insts st) <> None).
  { intros k Hk. apply Hincl in Hk. unfold all_refs in Hk. apply in_flat_map in Hk. destruct Hk as (c & Hc & Hr).
    exact (proj1 (HD c k Hc Hr)). }
  destruct (BinFinish.labels_ok_hyp _ _ (BinFinish.zfrefs F) Hlab HndF Hreg) as [Hl1 Hl2].
  destruct st as [sstr types insts roots next]. cbn [ds_insts ds_roots] in *.
  destruct (BinFinish.finish_reconstructs p sstr types insts roots next F) as (out & Hfin & Hrec).
  - apply Forall_forall. intros t Ht. apply BinFinish.shaped_from_subtrees. intros t0 Ht0.
    assert (Hin : In t0 (BinFinish.zfsubtrees F)) by (apply in_flat_map; exists t; auto).
    assert (Hk : In (BinFinish.zroot t0) (BinFinish.zfrefs F)) by (rewrite BinFinish.zfrefs_subtrees; now apply in_map).
    apply Hincl in Hk. unfold all_refs in Hk. apply in_flat_map in Hk. destruct Hk as (c & Hc & Hr).
    pose proof (proj2 (proj2 (HD c _ Hc Hr))) as Hch. unfold D in Hch. cbn [ds_insts] in Hch. rewrite Hch.
    exact (proj2 Hdesc t0 Hin).
  - exact Hl1.
  - intros k Hk. split; [now apply Hreg|now apply Hl2].
  - rewrite Hroots. exact (proj1 Hdesc).
  - exists out. split; [exact Hfin|]. split; [exact Hrec|exact HD].
Qed.

(* ---- 3g. one PROP chunk with values, pointwise: the k-th instance of the chunk's class gains exactly the chunk's property with
   the k-th value of the column (as the document describes it, retyped to the canonical type); its label, class, name, earlier
   properties and children, and every instance of every other class, are untouched.  Together with [rstep] returning the state
   unchanged for a PROP that ends after its name, has an undefined type id, or a type id the reader does not know
   (prop_skipped_step), this is the "without affecting any other property" clause of C04. *)
Theorem reader_prop_step_pointwise d p st pr st' ti col ty name cty vals :
  rstep d p st (IProp pr) = Some st' ->
  lookup (bp_class pr) (ds_types st) = Some ti -> bp_body pr = BValues col ->
  wire_of_id (bs_col_type col) = Some ty -> bytes_eqb (bp_name pr) NAME = false ->
  find_canonical_property d ty (dt_name ti) (bp_name pr) = Ok (Some (name, cty, None)) ->
  bs_col_values (st_sstr st) (st_label st) col = Ok vals ->
  NoDup (dt_referents ti) -> (forall r, In r (dt_referents ti) -> zfind r (ds_insts st) <> None) ->
  (forall k r v, nth_error (dt_referents ti) k = Some r -> nth_error vals k = Some v ->
     exists i, zfind r (ds_insts st) = Some i /\
       zfind r (ds_insts st') = Some (mkDI (di_label i) (di_class i) (di_name i) (di_props i ++ [(name, retype cty v)]) (di_children i))) /\
  (forall z, ~ In z (dt_referents ti) -> zfind z (ds_insts st') = zfind z (ds_insts st)) /\
  ds_types st' = ds_types st /\ ds_sstr st' = ds_sstr st /\ ds_roots st' = ds_roots st /\ ds_next st' = ds_next st.
Proof.
  intros Hs Hty Hbody Hw Hname Hcp Hv Hnd Hreg. cbn [rstep] in Hs.
  destruct (utf8_valid (bp_name pr)); [|discriminate]. cbn [negb] in Hs. rewrite Hty, Hbody in Hs.
  unfold rstep_values in Hs. rewrite Hw in Hs.
  destruct (Nat.eqb (bs_col_len col) (length (dt_referents ti))); [|discriminate]. cbn [negb] in Hs.
  rewrite Hname, Hcp in Hs. destruct (reader_col_ok cty col); [|discriminate]. cbn [negb] in Hs. rewrite Hv in Hs.
  destruct (BinChunkFacts.apply_values_spec (fun i v => add_property p i name None v) (dt_referents ti) (ds_insts st)
              (List.map (retype cty) vals) Hnd Hreg) as (insts' & Hap & H1 & H2 & _).
  rewrite Hap in Hs. injection Hs as <-. cbn [with_insts BinChunkFacts.with_insts ds_insts ds_types ds_sstr ds_roots ds_next].
  split; [|split; [exact H2|repeat split]].
  intros k r v Hr Hvk. destruct (H1 k r (retype cty v) Hr) as (i & Hi & Hi'); [now rewrite nth_error_map, Hvk|].
  exists i. split; [exact Hi|exact Hi'].
Qed.

(* the Name chunk (a String column): the k-th instance of the class is renamed to the k-th string (passed through the reader's
   from_utf8 / from_utf8_lossy: unchanged when it is UTF-8); nothing else changes *)
Theorem reader_name_step_pointwise d p st pr st' ti names :
  rstep d p st (IProp pr) = Some st' ->
  lookup (bp_class pr) (ds_types st) = Some ti -> bp_body pr = BValues (KString names) ->
  bytes_eqb (bp_name pr) NAME = true ->
  NoDup (dt_referents ti) -> (forall r, In r (dt_referents ti) -> zfind r (ds_insts st) <> None) ->
  (forall k r s, nth_error (dt_referents ti) k = Some r -> nth_error names k = Some s ->
     exists i, zfind r (ds_insts st) = Some i /\
       zfind r (ds_insts st') = Some (mkDI (di_label i) (di_class i) (BinValuesFacts2.str_norm s) (di_props i) (di_children i))) /\
  (forall z, ~ In z (dt_referents ti) -> zfind z (ds_insts st') = zfind z (ds_insts st)) /\
  ds_types st' = ds_types st /\ ds_sstr st' = ds_sstr st /\ ds_roots st' = ds_roots st /\ ds_next st' = ds_next st.
Proof.
  intros Hs Hty Hbody Hname Hnd Hreg. cbn [rstep] in Hs.
  destruct (utf8_valid (bp_name pr)); [|discriminate]. cbn [negb] in Hs. rewrite Hty, Hbody in Hs.
  unfold rstep_values in Hs. cbn [bs_col_type] in Hs. change (wire_of_id 1) with (Some WString) in Hs. cbv iota in Hs.
  destruct (Nat.eqb (bs_col_len (KString names)) (length (dt_referents ti))); [|discriminate]. cbn [negb] in Hs.
  rewrite Hname in Hs.
  destruct (BinChunkFacts.apply_values_spec set_name (dt_referents ti) (ds_insts st)
              (List.map BinValuesFacts2.str_norm names) Hnd Hreg) as (insts' & Hap & H1 & H2 & _).
  rewrite Hap in Hs. injection Hs as <-. cbn [with_insts BinChunkFacts.with_insts ds_insts ds_types ds_sstr ds_roots ds_next].
  split; [|split; [exact H2|repeat split]].
  intros k r s0 Hr Hsk. destruct (H1 k r (BinValuesFacts2.str_norm s0) Hr) as (i & Hi & Hi'); [now rewrite nth_error_map, Hsk|].
  exists i. split; [exact Hi|exact Hi'].
Qed.

Theorem prop_skipped_step d p st pr ti :
  utf8_valid (bp_name pr) = true -> lookup (bp_class pr) (ds_types st) = Some ti ->
  match bp_body pr with
  | BTruncated => True
  | BUnknown ty _ => wire_of_id ty = None
  | BValues col => wire_of_id (bs_col_type col) = None
  end ->
  rstep d p st (IProp pr) = Some st.
Proof.
  intros Hu Hty Hb. cbn [rstep]. rewrite Hu, Hty. cbn [negb]. destruct (bp_body pr) as [col| |ty raw].
  - unfold rstep_values. now rewrite Hb.
  - reflexivity.
  - now rewrite Hb.
Qed.

(* ---- 3h. when the step of an item is defined (the reader reads the chunk as the document means it): per item kind.
   META: UTF-8 strings; INST: UTF-8 class name; SSTR / unknown: always; PROP and PRNT: below. *)
Theorem rstep_prop_values_defined d p st pr ti col ty :
  utf8_valid (bp_name pr) = true -> lookup (bp_class pr) (ds_types st) = Some ti -> bp_body pr = BValues col ->
  wire_of_id (bs_col_type col) = Some ty -> bs_col_len col = length (dt_referents ti) ->
  NoDup (dt_referents ti) -> (forall r, In r (dt_referents ti) -> zfind r (ds_insts st) <> None) ->
  (if bytes_eqb (bp_name pr) NAME then exists names, col = KString names
   else find_canonical_property d ty (dt_name ti) (bp_name pr) = Ok None \/
        exists name cty mig vals, find_canonical_property d ty (dt_name ti) (bp_name pr) = Ok (Some (name, cty, mig)) /\
                                  reader_col_ok cty col = true /\ bs_col_values (st_sstr st) (st_label st) col = Ok vals) ->
  exists st', rstep d p st (IProp pr) = Some st'.
Proof.
  intros Hu Hty Hbody Hw Hlen Hnd Hreg Hcase. cbn [rstep]. rewrite Hu, Hty, Hbody. cbn [negb].
  unfold rstep_values. rewrite Hw, Hlen, Nat.eqb_refl. cbn [negb].
  destruct (bytes_eqb (bp_name pr) NAME).
  - destruct Hcase as [names ->].
    destruct (BinChunkFacts.apply_values_spec set_name (dt_referents ti) (ds_insts st)
                (List.map BinValuesFacts2.str_norm names) Hnd Hreg) as (insts' & Hap & _).
    rewrite Hap. eauto.
  - destruct Hcase as [Hcp|(name & cty & mig & vals & Hcp & Hrc & Hv)]; rewrite Hcp; [eauto|].
    rewrite Hrc, Hv. cbn [negb].
    destruct (BinChunkFacts.apply_values_spec (fun i v => add_property p i name mig v) (dt_referents ti) (ds_insts st)
                (List.map (retype cty) vals) Hnd Hreg) as (insts' & Hap & _).
    rewrite Hap. eauto.
Qed.

(* PRNT: every parent is the null referent or a registered instance (the reader's UnknownReferent error otherwise);
   nothing is asked of the row order *)
Theorem rstep_prnt_defined d p st rows :
  (forall c par, In (c, par) rows -> par = (-1)%Z \/ zfind par (ds_insts st) <> None) ->
  exists st', rstep d p st (IPrnt rows) = Some st'.
Proof.
  intros H. cbn [rstep]. destruct (BinFinish.prnt_links_spec rows (ds_insts st) (ds_roots st) H) as (i2 & Hrun & _).
  rewrite Hrun. eauto.
Qed.

(* ---- 3j. a STATIC sufficient condition for the run to be defined: [scan d seen ns items] walks the items with the classes
   registered so far and the number of shared strings read so far; no reader state is involved. *)
Definition col_values_ok (ns : nat) (col : bs_column) : bool :=
  match col with KSharedString l => forallb (fun i => N.ltb i (N.of_nat ns)) l | _ => true end.

Definition scan_prop (d : db) (seen : list bs_class) (ns : nat) (pr : bs_prop) : bool :=
  utf8_valid (bp_name pr) &&
  match find (fun c => N.eqb (cls_id c) (bp_class pr)) seen with
  | None => false
  | Some c =>
    match bp_body pr with
    | BTruncated => true
    | BUnknown ty _ => match wire_of_id ty with None => true | Some _ => false end
    | BValues col =>
      match wire_of_id (bs_col_type col) with
      | None => true
      | Some ty =>
        Nat.eqb (bs_col_len col) (length (cls_refs c)) &&
        if bytes_eqb (bp_name pr) NAME then match col with KString _ => true | _ => false end
        else match find_canonical_property d ty (cls_name c) (bp_name pr) with
             | Ok None => true
             | Ok (Some (_, cty, _)) => reader_col_ok cty col && col_values_ok ns col
             | _ => false
             end
      end
    end
  end.

Fixpoint scan (d : db) (seen : list bs_class) (ns : nat) (items : list bs_item) : bool :=
  match items with
  | [] => true
  | IMeta l :: r => forallb (fun t => utf8_valid (fst t) && utf8_valid (snd t)) l && scan d seen ns r
  | ISstr l :: r => scan d seen (ns + length l) r
  | IInst c :: r => utf8_valid (cls_name c) && negb (existsb (fun c' => N.eqb (cls_id c') (cls_id c)) seen) && scan d (seen ++ [c]) ns r
  | IProp pr :: r => scan_prop d seen ns pr && scan d seen ns r
  | IPrnt rows :: r => forallb (fun t => Z.eqb (snd t) (-1) || memZ (snd t) (all_refs seen)) rows && scan d seen ns r
  | IEnd :: _ => false
  | IUnknown _ _ :: r => scan d seen ns r
  end.

Lemma col_values_defined sstr lo col : col_values_ok (length sstr) col = true -> exists vals, bs_col_values sstr lo col = Ok vals.
Proof.
  destruct col; cbn [col_values_ok bs_col_values]; intros H; try (eexists; reflexivity).
  induction l as [|i r IH]; [eexists; reflexivity|]. cbn [forallb] in H. apply andb_true_iff in H. destruct H as [Hi Hr].
  rewrite Hi. apply N.ltb_lt in Hi. destruct (nth_error sstr (N.to_nat i)) as [e|] eqn:E.
  - destruct (IH Hr) as (vs & Hvs). rewrite Hvs. cbn [rbind]. eexists; reflexivity.
  - apply nth_error_None in E. lia.
Qed.

Definition types_inv (st : dstate) (cs : list bs_class) : Prop :=
  forall c, In c cs -> lookup (cls_id c) (ds_types st) = Some (mkDT (cls_name c) (cls_refs c)).

Lemma find_class_in seen id c : find (fun c => N.eqb (cls_id c) id) seen = Some c -> In c seen /\ cls_id c = id.
Proof. intros H. apply find_some in H. destruct H as [Hin He]. now apply N.eqb_eq in He. Qed.

Theorem run_steps_defined d p : dp_lim p = None -> forall items st cs rws sp,
  forallb ritem_ok items = true -> scan d cs (length (ds_sstr st)) items = true ->
  struct_inv st cs rws -> types_inv st cs -> (sp = false -> rws = []) -> BinFinish.lab_inv st ->
  inst_prnt_ok sp items = true -> NoDup (all_refs (cs ++ bs_insts items)) ->
  exists st', run_steps d p st items = Some st'.
Proof.
  intros Hl. induction items as [|it r IH]; intros st cs rws sp Hok Hscan Hinv Hty Hsp Hlab Hipo Hnd; [eexists; reflexivity|].
  cbn [forallb] in Hok. apply andb_true_iff in Hok. destruct Hok as [Hit Hr].
  assert (Hnext : forall st1, rstep d p st it = Some st1 ->
            (forall cs1 rws1 sp1, scan d cs1 (length (ds_sstr st1)) r = true -> struct_inv st1 cs1 rws1 -> types_inv st1 cs1 ->
               (sp1 = false -> rws1 = []) -> inst_prnt_ok sp1 r = true -> NoDup (all_refs (cs1 ++ bs_insts r)) ->
               exists st', run_steps d p st (it :: r) = Some st')).
  { intros st1 Hs cs1 rws1 sp1 Hsc1 Hi1 Ht1 Hsp1 Hip1 Hnd1. cbn [run_steps]. rewrite Hs.
    exact (IH st1 cs1 rws1 sp1 Hr Hsc1 Hi1 Ht1 Hsp1 (rstep_lab_inv d p st it st1 Hl Hit Hs Hlab) Hip1 Hnd1). }
  destruct it as [l|l|c|pr|rows| |n dta]; cbn [scan inst_prnt_ok] in Hscan, Hipo; unfold bs_insts in Hnd; cbn [flat_map app] in Hnd; fold (bs_insts r) in Hnd.
  - apply andb_true_iff in Hscan. destruct Hscan as [Hu Hscan].
    assert (Hs : rstep d p st (IMeta l) = Some st) by (cbn [rstep]; now rewrite Hu).
    exact (Hnext st Hs cs rws sp Hscan Hinv Hty Hsp Hipo Hnd).
  - assert (Hs : rstep d p st (ISstr l) = Some (mkDS (ds_sstr st ++ List.map snd l) (ds_types st) (ds_insts st) (ds_roots st) (ds_next st)))
      by reflexivity.
    refine (Hnext _ Hs cs rws sp _ Hinv Hty Hsp Hipo Hnd). cbn [ds_sstr]. now rewrite app_length, map_length.
  - apply andb_true_iff in Hscan. destruct Hscan as [Hscan Hsc]. apply andb_true_iff in Hscan. destruct Hscan as [Hu Hfresh].
    apply andb_true_iff in Hipo. destruct Hipo as [Hf Hipo]. apply negb_true_iff in Hf.
    assert (Hs : rstep d p st (IInst c) = Some (BinChunkFacts.inst_register st (cls_id c) (cls_name c) (cls_refs c)))
      by (cbn [rstep]; now rewrite Hu).
    assert (Hnd' : NoDup (all_refs ((cs ++ [c]) ++ bs_insts r))) by (now rewrite <- app_assoc).
    assert (Hndc : NoDup (cls_refs c)).
    { unfold all_refs in Hnd. rewrite flat_map_app in Hnd. cbn [flat_map] in Hnd. apply BinFinish.NoDup_app_right in Hnd.
      now apply BinFinish.NoDup_app_left in Hnd. }
    assert (Hdis : forall c' r0, In c' cs -> In r0 (cls_refs c') -> ~ In r0 (cls_refs c)).
    { intros c' r0 Hc' Hr0 Hin. unfold all_refs in Hnd. rewrite flat_map_app in Hnd. cbn [flat_map] in Hnd.
      eapply BinFinish.NoDup_app_not; [exact Hnd| |apply in_or_app; left; exact Hin]. apply in_flat_map. exists c'. now split. }
    pose proof (struct_step d p st (IInst c) _ cs rws sp Hl Hit Hs Hinv Hsp Hf Hndc Hdis) as Hinv1.
    refine (Hnext _ Hs (cs ++ [c]) rws sp _ Hinv1 _ Hsp Hipo Hnd').
    + unfold BinChunkFacts.inst_register. destruct (BinChunkFacts.fresh_insts _ _ _ _). exact Hsc.
    + intros c' Hc'. unfold BinChunkFacts.inst_register. destruct (BinChunkFacts.fresh_insts _ _ _ _). cbn [ds_types].
      apply in_app_or in Hc'. destruct Hc' as [Hc'|[<-|[]]]; [|apply lookup_upd_eq].
      rewrite lookup_upd_neq; [now apply Hty|]. intros E. apply negb_true_iff in Hfresh.
      assert (existsb (fun c'0 => N.eqb (cls_id c'0) (cls_id c)) cs = true); [|congruence].
      apply existsb_exists. exists c'. split; [exact Hc'|now apply N.eqb_eq].
  - apply andb_true_iff in Hscan. destruct Hscan as [Hp Hscan].
    assert (Hex : exists st1, rstep d p st (IProp pr) = Some st1).
    { unfold scan_prop in Hp. apply andb_true_iff in Hp. destruct Hp as [Hu Hp].
      destruct (find (fun c => N.eqb (cls_id c) (bp_class pr)) cs) as [c|] eqn:Ef; [|discriminate].
      destruct (find_class_in _ _ _ Ef) as [Hc Hid]. pose proof (Hty c Hc) as Hlk. rewrite Hid in Hlk.
      destruct (bp_body pr) as [col| |ty raw] eqn:Hbody.
      - destruct (wire_of_id (bs_col_type col)) as [ty|] eqn:Hw.
        + apply andb_true_iff in Hp. destruct Hp as [Hlen Hp]. apply Nat.eqb_eq in Hlen.
          apply (rstep_prop_values_defined d p st pr (mkDT (cls_name c) (cls_refs c)) col ty Hu Hlk Hbody Hw Hlen).
          * unfold all_refs in Hnd. rewrite flat_map_app in Hnd. apply BinFinish.NoDup_app_left in Hnd.
            cbn [dt_referents]. exact (BinSpecAgree.NoDup_flat_map_each cls_refs cs c Hnd Hc).
          * intros r0 Hr0. destruct (proj2 Hinv c r0 Hc Hr0) as (i & Hi & _). now rewrite Hi.
          * cbn [dt_name]. destruct (bytes_eqb (bp_name pr) NAME).
            -- destruct col; try discriminate. eauto.
            -- destruct (find_canonical_property d ty (cls_name c) (bp_name pr)) as [[[[name cty] mig]|]| | |]; try discriminate; [|now left].
               right. apply andb_true_iff in Hp. destruct Hp as [Hrc Hcv].
               destruct (col_values_defined (st_sstr st) (st_label st) col) as (vals & Hv).
               { unfold st_sstr. now rewrite map_length. }
               exists name, cty, mig, vals. auto.
        + exists st. apply (prop_skipped_step d p st pr (mkDT (cls_name c) (cls_refs c)) Hu Hlk). now rewrite Hbody.
      - exists st. apply (prop_skipped_step d p st pr (mkDT (cls_name c) (cls_refs c)) Hu Hlk). now rewrite Hbody.
      - destruct (wire_of_id ty) eqn:Hw; [discriminate|].
        exists st. apply (prop_skipped_step d p st pr (mkDT (cls_name c) (cls_refs c)) Hu Hlk). now rewrite Hbody. }
    destruct Hex as (st1 & Hs).
    assert (Hd : decode_prop d p st (snd (bs_enc_item rdA true (IProp pr))) = Ok st1) by (now apply reader_prop_chunk).
    apply BinRoundTrip.decode_prop_skel in Hd. destruct Hd as (Hss & Htt & _).
    refine (Hnext _ Hs cs rws sp _ (struct_step d p st (IProp pr) st1 cs rws sp Hl Hit Hs Hinv Hsp) _ Hsp Hipo Hnd).
    + now rewrite Hss.
    + intros c Hc. rewrite Htt. now apply Hty.
  - apply andb_true_iff in Hscan. destruct Hscan as [Hp Hscan].
    apply andb_true_iff in Hipo. destruct Hipo as [Hf Hipo]. apply negb_true_iff in Hf.
    destruct (rstep_prnt_defined d p st rows) as (st1 & Hs).
    { intros c par Hin. pose proof (fa_in _ _ Hp _ Hin) as Hc. cbn [snd] in Hc. apply orb_true_iff in Hc. destruct Hc as [Hc|Hc].
      - left. now apply Z.eqb_eq.
      - right. unfold memZ in Hc. apply existsb_exists in Hc. destruct Hc as (z & Hz & Ez). apply Z.eqb_eq in Ez. subst z.
        unfold all_refs in Hz. apply in_flat_map in Hz. destruct Hz as (c0 & Hc0 & Hr0).
        destruct (proj2 Hinv c0 par Hc0 Hr0) as (i & Hi & _). now rewrite Hi. }
    pose proof (struct_step d p st (IPrnt rows) st1 cs rws sp Hl Hit Hs Hinv Hsp Hf) as Hinv1.
    assert (Hst1 : ds_sstr st1 = ds_sstr st /\ ds_types st1 = ds_types st).
    { cbn [rstep] in Hs. destruct (prnt_links _ _ rows); try discriminate. now injection Hs as <-. }
    refine (Hnext _ Hs cs rows true _ Hinv1 _ ltac:(discriminate) Hipo Hnd).
    + now rewrite (proj1 Hst1).
    + intros c Hc. rewrite (proj2 Hst1). now apply Hty.
  - discriminate.
  - assert (Hs : rstep d p st (IUnknown n dta) = Some st) by reflexivity.
    exact (Hnext st Hs cs rws sp Hscan Hinv Hty Hsp Hipo Hnd).
Qed.

(* F3, bytes to DOM, with static hypotheses only: the reader accepts the file and returns `finish` of the run *)
Theorem reader_accepts_spec_file d p u order cmps f :
  dp_lim p = None -> bs_wf f = true ->
  gframes_rt p cmps (List.map (bs_enc_item rdA u) (bs_items_of order f)) ->
  let items := flat_map (item_of_key f) order in
  scan d [] 0 items = true -> inst_prnt_ok false items = true -> NoDup (all_refs (bs_insts items)) ->
  exists st, run_items d p dstate0 (bs_items_of order f) = Some st /\
    decode_file d p (bs_enc_header (bs_header_of f) ++ gframe_all cmps (List.map (bs_enc_item rdA u) (bs_items_of order f)))
    = finish p st.
Proof.
  intros Hl Hwf Hrt items Hscan Hipo Hnd.
  pose proof (items_ok_of_wf f Hwf order) as Hok. unfold bs_items_of in Hok. fold items in Hok. rewrite forallb_app in Hok.
  apply andb_true_iff in Hok. destruct Hok as [Hok _].
  destruct (run_steps_defined d p Hl items dstate0 [] [] false Hok Hscan) as (st & Hrun);
    try assumption; [split; [reflexivity|intros c r []]|intros c []|reflexivity|exact BinFinish.lab_inv0|].
  exists st. assert (Hri : run_items d p dstate0 (bs_items_of order f) = Some st).
  { unfold bs_items_of. fold items. now rewrite (run_items_steps d p items dstate0 (items_no_end f order)). }
  split; [exact Hri|]. now apply reader_on_spec_file_gen.
Qed.

(* F3, structure, with static hypotheses only (no run of the reader in the hypotheses): for every chunk order with the INST
   chunks before the single PRNT chunk, every PROP chunk after the INST chunk of its class and every SharedString PROP after
   the SSTR chunk (both inside [scan]), every per-chunk compression the inflater inverts and both rotation encodings, the reader
   ACCEPTS the file and the DOM it returns is the forest the PRNT rows describe. *)
Theorem reader_decodes_spec_file_structure d p u order cmps f F :
  dp_lim p = None -> bs_wf f = true ->
  gframes_rt p cmps (List.map (bs_enc_item rdA u) (bs_items_of order f)) ->
  let items := flat_map (item_of_key f) order in
  scan d [] 0 items = true -> inst_prnt_ok false items = true -> bs_prnts items = [bf_prnt f] ->
  NoDup (all_refs (bs_insts items)) ->
  BinFinish.rows_describe (bf_prnt f) F -> NoDup (BinFinish.zfrefs F) -> incl (BinFinish.zfrefs F) (all_refs (bs_insts items)) ->
  exists st out,
    run_items d p dstate0 (bs_items_of order f) = Some st /\
    decode_file d p (bs_enc_header (bs_header_of f) ++ gframe_all cmps (List.map (bs_enc_item rdA u) (bs_items_of order f))) = Ok out /\
    BinFinish.reconstructs (BinFinish.dinst_of (ds_insts st)) p F out /\
    (forall c r, In c (bs_insts items) -> In r (cls_refs c) ->
       di_class (BinFinish.dinst_of (ds_insts st) r) = cls_name c /\
       di_children (BinFinish.dinst_of (ds_insts st) r) = BinFinish.rows_to r (bf_prnt f)).
Proof.
  intros Hl Hwf Hrt items Hscan Hipo Hprnt Hnd Hdesc HndF Hincl.
  destruct (reader_accepts_spec_file d p u order cmps f Hl Hwf Hrt Hscan Hipo Hnd) as (st & Hrun & _).
  destruct (reader_rebuilds_spec_forest d p u order cmps f st F Hl Hwf Hrt Hrun Hipo Hprnt Hnd Hdesc HndF Hincl) as (out & Hd & Hrec & HD).
  exists st, out. split; [exact Hrun|]. split; [exact Hd|]. split; [exact Hrec|].
  intros c r Hc Hr. destruct (HD c r Hc Hr) as (_ & H1 & H2). now split.
Qed.

(* ---- 3i. F3, status.  FULL TARGET (not proved in this file):

     Theorem reader_decodes_spec_file d p ch f :
       dp_lim p = None -> bs_wf f = true -> bs_doc_wf f = true -> bs_sizes_ok rdA ch f = true -> inflater law ->
       reader_file_ok d f (* the restrictions recorded below *) -> order_ok (ch_order ch) f ->
       exists out nodes, decode_file d p (bspec_encode rdA ch f) = Ok out /\ bspec_to_dom f = Ok nodes /\ same_dom nodes out.

   PROVED: (1) reader_on_spec_file(_gen): for EVERY order / compression / rotation choice the reader on the bytes = `finish` of the
   byte-free, executable run [run_items] over the items (hypothesis: the run is defined: see (4));
   (2) reader_rebuilds_spec_forest (= reader_decodes_spec_file_partial): for every order with the INST chunks before the single
   PRNT chunk, the decoded DOM is the forest the PRNT rows describe: every instance once, distinct labels, class names,
   parent labels, root order, sibling orders;  (3) reader_prop_step_pointwise / reader_name_step_pointwise / prop_skipped_step:
   the effect of each PROP chunk on each instance.
   (4) run_steps_defined / reader_accepts_spec_file / reader_decodes_spec_file_structure: the run IS defined, hence the file is
   accepted, under the static check [scan] (no reader state in the hypotheses).
   MISSING for the full target: (b) the composition of the pointwise
   PROP lemmas over all PROP chunks into "collect_props (di_props i) = the retyped bn_props of bspec_to_dom" (needs all INST
   chunks before the PROP chunks carrying referents — ref_before_inst_order_refuted — and property names pairwise distinct per
   class — duplicate_prop_last_wins); (c) the construction of the forest F from PRNT rows that list children first
   (cl_prnt_children_first) and its identification with bn_parent / row order of bspec_to_dom (prnt_cycle_dropped shows
   acyclicity is needed). *)
Definition reader_decodes_spec_file_partial := reader_rebuilds_spec_forest.

(* ================================================================ 4. F4: independence of the byte-level choices *)
(* the per-chunk compression and the rotation encoding do not enter [run_items]: whatever they are, the decoded DOM is the
   same (equal, not just equivalent).  For the chunk order: see reader_rebuilds_spec_forest (same forest, classes, children for
   every accepted order), ex_order_independent (computed) and ref_before_inst_order_refuted (an order the document allows and
   the reader misreads). *)
Theorem compression_and_rotation_independent d p u1 u2 order cmps1 cmps2 f st :
  dp_lim p = None -> bs_wf f = true ->
  gframes_rt p cmps1 (List.map (bs_enc_item rdA u1) (bs_items_of order f)) ->
  gframes_rt p cmps2 (List.map (bs_enc_item rdA u2) (bs_items_of order f)) ->
  run_items d p dstate0 (bs_items_of order f) = Some st ->
  decode_file d p (bs_enc_header (bs_header_of f) ++ gframe_all cmps1 (List.map (bs_enc_item rdA u1) (bs_items_of order f)))
  = decode_file d p (bs_enc_header (bs_header_of f) ++ gframe_all cmps2 (List.map (bs_enc_item rdA u2) (bs_items_of order f))).
Proof.
  intros Hl Hwf H1 H2 Hrun.
  now rewrite (reader_on_spec_file_gen d p u1 order cmps1 f st Hl Hwf H1 Hrun), (reader_on_spec_file_gen d p u2 order cmps2 f st Hl Hwf H2 Hrun).
Qed.

Corollary spec_choices_independent d p order comp1 comp2 u1 u2 f st :
  dp_lim p = None -> bs_wf f = true ->
  bs_sizes_ok rdA (mkChoices order comp1 u1) f = true -> bs_sizes_ok rdA (mkChoices order comp2 u2) f = true ->
  (forall x, dp_inflate p (literal_only_block x) (N.of_nat (length x)) = Some x) ->
  run_items d p dstate0 (bs_items_of order f) = Some st ->
  decode_file d p (bspec_encode rdA (mkChoices order comp1 u1) f) = decode_file d p (bspec_encode rdA (mkChoices order comp2 u2) f).
Proof.
  intros Hl Hwf H1 H2 Hinf Hrun.
  now rewrite (reader_on_spec_file d p (mkChoices order comp1 u1) f st Hl Hwf H1 Hinf Hrun),
              (reader_on_spec_file d p (mkChoices order comp2 u2) f st Hl Hwf H2 Hinf Hrun).
Qed.

(* ================================================================ 3k. the forest of children-first PRNT rows *)
Section ForestOfRows.
Import BinFinish.

(* insert the leaf c as the FIRST child of (every) node p *)
Fixpoint tins (p c : Z) (t : ztree) : ztree :=
  match t with
  | ZNode r cs => ZNode r ((if Z.eqb r p then [ZNode c []] else []) ++ List.map (tins p c) cs)
  end.
Definition fins (p c : Z) (F : list ztree) : list ztree :=
  if Z.eqb p (-1) then ZNode c [] :: F else List.map (tins p c) F.
(* the rows are taken from the last to the first: a row's parent (a LATER row) is already in the forest *)
Definition forest_of (rows : list (Z * Z)) : list ztree := fold_right (fun row F => fins (snd row) (fst row) F) [] rows.

Lemma zroot_tins p c t : zroot (tins p c t) = zroot t.
Proof. now destruct t. Qed.

Lemma map_zroot_tins p c l : List.map zroot (List.map (tins p c) l) = List.map zroot l.
Proof. rewrite map_map. apply map_ext. intros t. apply zroot_tins. Qed.

Lemma tins_notin p c : forall t, ~ In p (zrefs t) -> tins p c t = t.
Proof.
  induction t as [r cs IH] using ztree_ind'. intros Hn. cbn [tins zrefs] in *.
  destruct (Z.eqb_spec r p) as [->|Hne]; [exfalso; apply Hn; now left|]. cbn [app]. f_equal.
  rewrite <- (map_id cs) at 2. apply map_ext_in. intros t Ht. rewrite Forall_forall in IH. apply IH; [exact Ht|].
  intros Hin. apply Hn. right. apply in_flat_map. exists t. now split.
Qed.

Lemma fmap_tins_notin p c (l : list ztree) : ~ In p (zfrefs l) -> List.map (tins p c) l = l.
Proof.
  intros Hn. rewrite <- (map_id l) at 2. apply map_ext_in. intros t Ht. apply tins_notin. intros Hin. apply Hn.
  apply in_flat_map. exists t. now split.
Qed.

Lemma fmap_tins_refs p c : forall l,
  Forall (fun t => NoDup (zrefs t) -> In p (zrefs t) -> Permutation (zrefs (tins p c t)) (c :: zrefs t)) l ->
  NoDup (zfrefs l) -> In p (zfrefs l) -> Permutation (zfrefs (List.map (tins p c) l)) (c :: zfrefs l).
Proof.
  induction l as [|t l IHl]; intros IH Hnd Hin; [destruct Hin|]. inversion IH as [|? ? Ht IHr]; subst.
  cbn [List.map]. rewrite !zfrefs_cons in *. apply in_app_or in Hin. destruct Hin as [Hin|Hin].
  - rewrite (fmap_tins_notin p c l) by (intros Hq; eapply NoDup_app_not; eauto).
    rewrite (Ht (NoDup_app_left _ _ Hnd) Hin). reflexivity.
  - rewrite (tins_notin p c t) by (intros Hq; eapply NoDup_app_not; eauto).
    rewrite (IHl IHr (NoDup_app_right _ _ Hnd) Hin). apply Permutation_sym, Permutation_middle.
Qed.

Lemma tins_refs p c : forall t, NoDup (zrefs t) -> In p (zrefs t) -> Permutation (zrefs (tins p c t)) (c :: zrefs t).
Proof.
  induction t as [r cs IH] using ztree_ind'. intros Hnd Hin. cbn [tins zrefs] in *.
  apply NoDup_cons_iff in Hnd. destruct Hnd as [Hr Hnd]. change (flat_map zrefs cs) with (zfrefs cs) in *.
  destruct (Z.eqb_spec r p) as [->|Hne].
  - rewrite (fmap_tins_notin p c cs Hr). cbn [app flat_map zrefs]. apply perm_swap.
  - destruct Hin as [->|Hin]; [contradiction|]. cbn [app].
    change (flat_map zrefs (List.map (tins p c) cs)) with (zfrefs (List.map (tins p c) cs)).
    rewrite (fmap_tins_refs p c cs IH Hnd Hin). apply perm_swap.
Qed.

Lemma fins_refs p c F : NoDup (zfrefs F) -> p = (-1)%Z \/ In p (zfrefs F) -> Permutation (zfrefs (fins p c F)) (c :: zfrefs F).
Proof.
  intros Hnd Hp. unfold fins. destruct (Z.eqb_spec p (-1)) as [->|Hne]; [reflexivity|].
  destruct Hp as [->|Hin]; [contradiction|]. apply (fmap_tins_refs p c); [|exact Hnd|exact Hin].
  apply Forall_forall. intros t _. apply tins_refs.
Qed.

(* every node has exactly the children the rows give it, in row order *)
Inductive rdesc (rows : list (Z * Z)) : ztree -> Prop :=
| rdesc_node r cs : rows_to r rows = List.map zroot cs -> Forall (rdesc rows) cs -> rdesc rows (ZNode r cs).

Lemma rdesc_subtrees rows : forall t, rdesc rows t -> forall t0, In t0 (zsubtrees t) -> rows_to (zroot t0) rows = List.map zroot (zsubs t0).
Proof.
  induction t as [r cs IH] using ztree_ind'. intros Hd t0 Hin. inversion Hd as [? ? Hr Hcs]; subst.
  cbn [zsubtrees] in Hin. destruct Hin as [<-|Hin]; [exact Hr|].
  apply in_flat_map in Hin. destruct Hin as (t & Ht & Hin). rewrite Forall_forall in IH, Hcs. exact (IH t Ht (Hcs t Ht) t0 Hin).
Qed.

Lemma rows_to_cons k c p rows :
  rows_to k ((c, p) :: rows) = if Z.eqb k (-1) then [] else if Z.eqb p k then c :: rows_of k rows else rows_of k rows.
Proof. unfold rows_to. destruct (Z.eqb k (-1)); [reflexivity|]. apply rows_of_cons. Qed.

Lemma tins_rdesc rows p c : p <> (-1)%Z -> rows_to c ((c, p) :: rows) = [] ->
  forall t, rdesc rows t -> rdesc ((c, p) :: rows) (tins p c t).
Proof.
  intros Hp Hc. induction t as [r cs IH] using ztree_ind'. intros Hd. inversion Hd as [? ? Hr Hcs]; subst. cbn [tins].
  constructor.
  - rewrite rows_to_cons. unfold rows_to in Hr. rewrite map_app, map_zroot_tins.
    destruct (Z.eqb_spec r p) as [->|Hne].
    + rewrite Z.eqb_refl. destruct (Z.eqb p (-1)) eqn:E2; [apply Z.eqb_eq in E2; contradiction|].
      cbn [List.map zroot app]. now rewrite Hr.
    + destruct (Z.eqb p r) eqn:E; [apply Z.eqb_eq in E; congruence|]. cbn [List.map app].
      destruct (Z.eqb r (-1)); exact Hr.
  - apply Forall_app. split.
    + destruct (Z.eqb r p); [|constructor]. constructor; [|constructor]. constructor; [exact Hc|constructor].
    + rewrite Forall_forall in *. intros t' Ht'. apply in_map_iff in Ht'. destruct Ht' as (t & <- & Ht). exact (IH t Ht (Hcs t Ht)).
Qed.

Lemma rdesc_root_row rows c : forall t, rdesc rows t -> rdesc ((c, (-1)%Z) :: rows) t.
Proof.
  induction t as [r cs IH] using ztree_ind'. intros Hd. inversion Hd as [? ? Hr Hcs]; subst. constructor.
  - rewrite rows_to_cons. unfold rows_to in Hr. destruct (Z.eqb r (-1)) eqn:E; [exact Hr|].
    destruct (Z.eqb_spec (-1) r) as [E2|_]; [subst r; discriminate|exact Hr].
  - rewrite Forall_forall in *. intros t Ht. exact (IH t Ht (Hcs t Ht)).
Qed.

(* a child has no rows of its own among the LATER rows *)
Lemma children_first_no_later rows c : c <> (-1)%Z -> children_first rows = true -> ~ In c (List.map fst rows) -> rows_of c rows = [].
Proof.
  intros Hc1. induction rows as [|[c0 p0] rows IH]; intros Hcf Hn; [reflexivity|]. cbn [children_first] in Hcf.
  apply andb_true_iff in Hcf. destruct Hcf as [Hp Hcf]. rewrite rows_of_cons. cbn [List.map fst] in Hn.
  destruct (Z.eqb_spec p0 c) as [->|_]; [|apply IH; [exact Hcf|intros H; apply Hn; now right]].
  exfalso. apply orb_true_iff in Hp. destruct Hp as [Hp|Hp].
  - apply Z.eqb_eq in Hp. contradiction.
  - unfold memZ in Hp. apply existsb_exists in Hp. destruct Hp as (z & Hz & Ez). apply Z.eqb_eq in Ez. subst z. apply Hn. now right.
Qed.

(* THE FOREST OF THE ROWS: pairwise distinct children, every parent -1 or the child of a later row (the document's
   "children before their parents", BinSpec.children_first) *)
Theorem forest_of_spec : forall rows, NoDup (List.map fst rows) -> children_first rows = true ->
  Permutation (zfrefs (forest_of rows)) (List.map fst rows) /\
  List.map zroot (forest_of rows) = rows_of (-1) rows /\ Forall (rdesc rows) (forest_of rows).
Proof.
  induction rows as [|[c p] rows IH]; intros Hnd Hcf; [repeat split; constructor|].
  cbn [List.map fst] in Hnd. apply NoDup_cons_iff in Hnd. destruct Hnd as [Hc Hnd].
  cbn [children_first] in Hcf. apply andb_true_iff in Hcf. destruct Hcf as [Hp Hcf].
  destruct (IH Hnd Hcf) as (Hperm & Hroots & Hdesc). cbn [forest_of fold_right fst snd]. fold (forest_of rows).
  assert (HndF : NoDup (zfrefs (forest_of rows))) by (eapply Permutation_NoDup; [symmetry; exact Hperm|exact Hnd]).
  assert (Hp' : p = (-1)%Z \/ In p (zfrefs (forest_of rows))).
  { apply orb_true_iff in Hp. destruct Hp as [Hp|Hp]; [left; now apply Z.eqb_eq|right].
    unfold memZ in Hp. apply existsb_exists in Hp. destruct Hp as (z & Hz & Ez). apply Z.eqb_eq in Ez. subst z.
    eapply Permutation_in; [symmetry; exact Hperm|exact Hz]. }
  assert (Hleaf : rows_to c ((c, p) :: rows) = []).
  { rewrite rows_to_cons. destruct (Z.eqb_spec c (-1)) as [_|Hc1]; [reflexivity|].
    destruct (Z.eqb_spec p c) as [->|_].
    - exfalso. destruct Hp' as [E|Hin]; [contradiction|]. apply Hc. eapply Permutation_in; [exact Hperm|exact Hin].
    - now apply children_first_no_later. }
  split; [|split].
  - rewrite (fins_refs p c _ HndF Hp'). cbn [List.map fst]. now apply perm_skip.
  - unfold fins. rewrite rows_of_cons. destruct (Z.eqb_spec p (-1)) as [->|Hne].
    + cbn [List.map zroot]. now rewrite Hroots.
    + now rewrite map_zroot_tins.
  - unfold fins. destruct (Z.eqb_spec p (-1)) as [->|Hne].
    + constructor.
      * constructor; [exact Hleaf|constructor].
      * eapply Forall_impl; [|exact Hdesc]. intros t. apply rdesc_root_row.
    + rewrite Forall_forall in *. intros t' Ht'. apply in_map_iff in Ht'. destruct Ht' as (t & <- & Ht).
      apply tins_rdesc; auto.
Qed.

Corollary forest_of_describes rows : NoDup (List.map fst rows) -> children_first rows = true ->
  rows_describe rows (forest_of rows) /\ NoDup (zfrefs (forest_of rows)) /\ Permutation (zfrefs (forest_of rows)) (List.map fst rows).
Proof.
  intros Hnd Hcf. destruct (forest_of_spec rows Hnd Hcf) as (Hperm & Hroots & Hdesc). split; [|split; [|exact Hperm]].
  - split; [now rewrite Hroots|]. intros t0 Ht0. apply in_flat_map in Ht0. destruct Ht0 as (t & Ht & Hin).
    rewrite Forall_forall in Hdesc. exact (rdesc_subtrees rows t (Hdesc t Ht) t0 Hin).
  - eapply Permutation_NoDup; [symmetry; exact Hperm|exact Hnd].
Qed.
End ForestOfRows.

(* ================================================================ 3l. the DOM of the document, in closed form *)
(* the executable conditions on the logical file under which the reader and the document agree on the structure:
   [bs_wf] (ranges), [bs_doc_wf] (every instance exactly once in PRNT, parents listed), children before parents, and
   every SharedString index inside the SSTR table (otherwise [bspec_to_dom] itself fails) *)
Definition sstr_len (f : bs_file) : nat := length (match bf_sstr f with Some l => l | None => [] end).
Definition file_dom_ok (f : bs_file) : bool :=
  bs_wf f && bs_doc_wf f && children_first (bf_prnt f) &&
  forallb (fun pr => match bp_body pr with BValues col => col_values_ok (sstr_len f) col | _ => true end) (bf_props f).

Definition slabel (kids : list Z) (r : Z) : N := match index_Z r kids 1 with Some k => k | None => 0 end.

Lemma index_Z_in c : forall l b, In c l -> exists k, index_Z c l b = Some k /\ b <= k.
Proof.
  induction l as [|y l IH]; intros b Hin; [destruct Hin|]. cbn [index_Z]. destruct (Z.eqb_spec c y) as [->|Hne].
  - exists b. split; [reflexivity|lia].
  - destruct Hin as [->|Hin]; [contradiction|]. destruct (IH (b + 1) Hin) as (k & Hk & Hle). exists k. split; [exact Hk|lia].
Qed.
Lemma index_Z_inj a a' : forall l b k, index_Z a l b = Some k -> index_Z a' l b = Some k -> a = a'.
Proof.
  induction l as [|y l IH]; intros b k H1 H2; [discriminate|]. cbn [index_Z] in H1, H2.
  destruct (Z.eqb_spec a y) as [->|Ha], (Z.eqb_spec a' y) as [->|Ha']; try reflexivity.
  - injection H1 as <-. assert (In a' l) by (destruct (in_dec Z.eq_dec a' l) as [i|n]; [exact i|rewrite (BinSpecAgree.index_Z_notin a' l (b + 1) n) in H2; discriminate]).
    destruct (index_Z_in a' l (b + 1) H) as (k' & Hk' & Hle). rewrite Hk' in H2. injection H2 as ->. lia.
  - injection H2 as <-. assert (In a l) by (destruct (in_dec Z.eq_dec a l) as [i|n]; [exact i|rewrite (BinSpecAgree.index_Z_notin a l (b + 1) n) in H1; discriminate]).
    destruct (index_Z_in a l (b + 1) H) as (k' & Hk' & Hle). rewrite Hk' in H1. injection H1 as ->. lia.
  - exact (IH _ _ H1 H2).
Qed.
Lemma index_Z_mid c : forall a b k, ~ In c a -> index_Z c (a ++ c :: b) k = Some (k + N.of_nat (length a)).
Proof.
  induction a as [|y a IH]; intros b k Hn; cbn [app index_Z length].
  - rewrite Z.eqb_refl. f_equal. lia.
  - destruct (Z.eqb_spec c y) as [->|_]; [exfalso; apply Hn; now left|]. rewrite IH by (intros H; apply Hn; now right). f_equal. lia.
Qed.

Lemma slabel_nz kids c : In c kids -> slabel kids c <> 0.
Proof. intros H. unfold slabel. destruct (index_Z_in c kids 1 H) as (k & -> & Hle). lia. Qed.
Lemma slabel_inj kids a b : In a kids -> In b kids -> slabel kids a = slabel kids b -> a = b.
Proof.
  intros Ha Hb. unfold slabel. destruct (index_Z_in a kids 1 Ha) as (k & E1 & _), (index_Z_in b kids 1 Hb) as (k' & E2 & _).
  rewrite E1, E2. intros <-. exact (index_Z_inj a b kids 1 k E1 E2).
Qed.

Definition mk_node (kids : list Z) (ai : list (Z * (bytes * list (bytes * value)))) (row : Z * Z) : bs_node :=
  match find_Z (fst row) ai with
  | Some (cname, ps) =>
    mkNode (slabel kids (fst row)) (if Z.eqb (snd row) (-1) then 0 else slabel kids (snd row)) cname
           (match fst (take_name ps) with Some s => s | None => cname end) (snd (take_name ps))
  | None => mkNode 0 0 [] [] []
  end.

Lemma node_go_closed kids ai : forall rows pre, kids = List.map fst (pre ++ rows) -> NoDup kids ->
  (forall c p, In (c, p) rows -> find_Z c ai <> None /\ (p = (-1)%Z \/ In p kids)) ->
  BinSpecAgree.node_go kids ai rows (1 + N.of_nat (length pre)) = Ok (List.map (mk_node kids ai) rows).
Proof.
  induction rows as [|[c p] rows IH]; intros pre Hk Hnd H; [reflexivity|].
  destruct (H c p (or_introl eq_refl)) as (Hf & Hp).
  assert (Hin : In c kids) by (rewrite Hk, map_app; apply in_or_app; right; now left).
  cbn [BinSpecAgree.node_go List.map]. rewrite (BinSpecAgree.count_Z_NoDup c kids Hnd Hin). cbn [Nat.eqb negb].
  unfold mk_node at 1. cbn [fst snd]. destruct (find_Z c ai) as [[cname ps]|]; [|contradiction].
  destruct (take_name ps) as [nm ps'] eqn:Et. cbn [fst snd].
  assert (Hlab : slabel kids c = 1 + N.of_nat (length pre)).
  { unfold slabel. rewrite Hk, map_app. cbn [List.map fst]. rewrite index_Z_mid; [now rewrite map_length|].
    rewrite Hk, map_app in Hnd. cbn [List.map fst] in Hnd. apply NoDup_remove_2 in Hnd. intros Hq. apply Hnd. apply in_or_app. now left. }
  assert (Hpar : (if Z.eqb p (-1) then Some 0 else index_Z p kids 1) = Some (if Z.eqb p (-1) then 0 else slabel kids p)).
  { destruct (Z.eqb_spec p (-1)) as [_|Hne]; [reflexivity|]. destruct Hp as [->|Hp]; [contradiction|].
    unfold slabel. destruct (index_Z_in p kids 1 Hp) as (k & -> & _). reflexivity. }
  rewrite Hpar. fold (BinSpecAgree.node_go kids ai).
  replace (1 + N.of_nat (length pre) + 1) with (1 + N.of_nat (length (pre ++ [(c, p)]))) by (rewrite app_length; cbn [length]; lia).
  rewrite (IH (pre ++ [(c, p)])); [cbn [rbind]; now rewrite Hlab| |exact Hnd|].
  - now rewrite <- app_assoc.
  - intros c' p' Hin'. apply H. now right.
Qed.

Lemma class_count_in cs c : NoDup (List.map cls_id cs) -> In c cs -> class_count cs (cls_id c) = Some (length (cls_refs c)).
Proof.
  unfold class_count. induction cs as [|c0 cs IH]; intros Hnd Hin; [destruct Hin|]. cbn [List.map seen_count] in *.
  apply NoDup_cons_iff in Hnd. destruct Hnd as [Hn Hnd]. destruct Hin as [->|Hin]; [now rewrite N.eqb_refl|].
  destruct (N.eqb_spec (cls_id c0) (cls_id c)) as [E|_]; [|now apply IH].
  exfalso. apply Hn. rewrite E. now apply in_map.
Qed.

Record dom_facts (f : bs_file) : Prop := mkDF {
  df_wf : bs_wf f = true;
  df_ids : NoDup (List.map cls_id (bf_classes f));
  df_refs : NoDup (all_refs (bf_classes f));
  df_kids : NoDup (List.map fst (bf_prnt f));
  df_perm : Permutation (List.map fst (bf_prnt f)) (all_refs (bf_classes f));
  df_par : forall c p, In (c, p) (bf_prnt f) -> p = (-1)%Z \/ In p (List.map fst (bf_prnt f));
  df_cf : children_first (bf_prnt f) = true;
  df_total : Forall (fun pr => match bp_body pr with BValues col => col_values_ok (sstr_len f) col = true | _ => True end) (bf_props f)
}.

Lemma count_Z_pos x l : count_Z x l = 1%nat -> In x l.
Proof.
  induction l as [|y l IH]; cbn [count_Z]; [discriminate|]. destruct (Z.eqb_spec x y) as [->|_]; [now left|]. intros H. right. now apply IH.
Qed.
Lemma count_Z_one_NoDup l : (forall x, In x l -> count_Z x l = 1%nat) -> NoDup l.
Proof.
  induction l as [|y l IH]; intros H; [constructor|]. constructor.
  - intros Hin. pose proof (H y (or_introl eq_refl)) as Hy. cbn [count_Z] in Hy. rewrite Z.eqb_refl in Hy.
    assert (count_Z y l = 0%nat) by lia. clear - Hin H0. induction l as [|z l IH]; [destruct Hin|]. cbn [count_Z] in H0.
    destruct (Z.eqb_spec y z) as [->|Hne]; [discriminate|]. destruct Hin as [->|Hin]; [contradiction|]. now apply IH.
  - apply IH. intros x Hx. pose proof (H x (or_intror Hx)) as Hc. cbn [count_Z] in Hc. destruct (Z.eqb x y); [|exact Hc].
    exfalso. assert (count_Z x l = 0%nat) by lia. clear - Hx H0. induction l as [|z l IH]; [destruct Hx|]. cbn [count_Z] in H0.
    destruct (Z.eqb_spec x z) as [->|Hne]; [discriminate|]. destruct Hx as [->|Hx]; [contradiction|]. now apply IH.
Qed.

(* soundness of the executable predicate *)
Theorem file_dom_ok_sound f : file_dom_ok f = true -> dom_facts f.
Proof.
  unfold file_dom_ok. intros H. apply andb_true_iff in H. destruct H as [H Htot]. apply andb_true_iff in H. destruct H as [H Hcf].
  apply andb_true_iff in H. destruct H as [Hwf Hdoc].
  unfold bs_doc_wf in Hdoc. apply andb_true_iff in Hdoc. destruct Hdoc as [Hdoc Hpar]. apply andb_true_iff in Hdoc. destruct Hdoc as [Hdoc Hlen].
  apply andb_true_iff in Hdoc. destruct Hdoc as [Hdoc Hk]. apply andb_true_iff in Hdoc. destruct Hdoc as [_ Hr].
  apply Nat.eqb_eq in Hlen.
  assert (Hrefs : NoDup (all_refs (bf_classes f))).
  { apply count_Z_one_NoDup. intros x Hx. apply Nat.eqb_eq. exact (fa_in _ _ Hr x Hx). }
  assert (Hperm : Permutation (all_refs (bf_classes f)) (List.map fst (bf_prnt f))).
  { apply NoDup_Permutation_bis; [exact Hrefs|rewrite map_length; lia|].
    intros x Hx. apply count_Z_pos. apply Nat.eqb_eq. exact (fa_in _ _ Hk x Hx). }
  assert (Hids : NoDup (List.map cls_id (bf_classes f))).
  { apply nodup_N_NoDup. unfold bs_wf in Hwf. repeat (apply andb_true_iff in Hwf; destruct Hwf as [Hwf ?]). assumption. }
  constructor; try assumption.
  - eapply Permutation_NoDup; [exact Hperm|exact Hrefs].
  - now apply Permutation_sym.
  - intros c p Hin. pose proof (fa_in _ _ Hpar _ Hin) as Hc. cbn [snd] in Hc. apply orb_true_iff in Hc. destruct Hc as [Hc|Hc].
    + left. now apply Z.eqb_eq.
    + right. unfold memZ in Hc. apply existsb_exists in Hc. destruct Hc as (z & Hz & Ez). apply Z.eqb_eq in Ez. now subst z.
  - apply Forall_forall. intros pr Hpr. pose proof (fa_in _ _ Htot pr Hpr) as Hc. cbv beta in Hc. destruct (bp_body pr); [exact Hc|exact I|exact I].
Qed.

Definition f_sstr_tbl (f : bs_file) : list (bytes * bytes) := match bf_sstr f with Some l => l | None => [] end.
Definition f_kids (f : bs_file) : list Z := List.map fst (bf_prnt f).
Definition f_ai (f : bs_file) := BinSpecAgree.ainsts (f_sstr_tbl f) (slabel (f_kids f)) (bf_props f) (bf_classes f).

Theorem spec_dom_closed f : dom_facts f ->
  bspec_to_dom f = Ok (List.map (mk_node (f_kids f) (f_ai f)) (bf_prnt f)).
Proof.
  intros [Hwf Hids Hrefs Hkids Hperm Hpar Hcf Htot]. rewrite BinSpecAgree.bspec_to_dom_unfold. cbv zeta.
  change (fun r : Z => match index_Z r (List.map fst (bf_prnt f)) 1 with Some k => k | None => 0 end) with (slabel (f_kids f)).
  change (match bf_sstr f with Some l => l | None => [] end) with (f_sstr_tbl f).
  assert (Hprops : forallb (prop_ok (bf_classes f)) (bf_props f) = true).
  { unfold bs_wf in Hwf. repeat (apply andb_true_iff in Hwf; destruct Hwf as [Hwf ?]). assumption. }
  assert (Hbt : Forall (fun pr => BinSpecAgree.body_total (f_sstr_tbl f) (slabel (f_kids f)) (bp_body pr)) (bf_props f)).
  { eapply Forall_impl; [|exact Htot]. intros pr Hc. cbv beta in Hc. destruct (bp_body pr) as [col| |]; cbn [BinSpecAgree.body_total]; try exact I.
    apply col_values_defined. exact Hc. }
  rewrite BinSpecAgree.all_instances_spec; [|exact Hbt|].
  2:{ apply Forall_forall. intros c Hc. apply Forall_forall. intros [nm vs] Hnv. unfold BinSpecAgree.ccols in Hnv.
      apply in_flat_map in Hnv. destruct Hnv as (pr & Hpr & Hnv). destruct (N.eqb_spec (bp_class pr) (cls_id c)) as [E|_]; [|destruct Hnv].
      pose proof (fa_in _ _ Hprops pr Hpr) as Hok. unfold prop_ok in Hok. apply andb_true_iff in Hok. destruct Hok as [_ Hok].
      rewrite E, (class_count_in _ c Hids Hc) in Hok.
      destruct (bp_body pr) as [col| |]; cbn [BinSpecAgree.body_values] in Hnv; try (destruct Hnv; fail).
      destruct (bs_col_values (f_sstr_tbl f) (slabel (f_kids f)) col) as [vs0| | |] eqn:Ev; try (destruct Hnv; fail).
      destruct Hnv as [[= <- <-]|[]]. cbn [snd]. apply andb_true_iff in Hok. destruct Hok as [_ Hlen]. apply Nat.eqb_eq in Hlen.
      rewrite (BinSpecAgree.bs_col_values_length _ _ _ _ Ev). lia. }
  cbn [rbind]. fold (f_ai f).
  assert (Hkeys : List.map fst (f_ai f) = all_refs (bf_classes f)) by apply BinSpecAgree.ainsts_keys.
  assert (Hlen : length (f_ai f) = length (List.map fst (bf_prnt f))).
  { rewrite <- (map_length fst (f_ai f)), Hkeys. symmetry. now apply Permutation_length. }
  rewrite Hlen, Nat.eqb_refl. cbn [negb].
  apply (node_go_closed (f_kids f) (f_ai f) (bf_prnt f) []); [reflexivity|exact Hkids|].
  intros c p Hin. split; [|exact (Hpar c p Hin)].
  assert (Hc : In c (List.map fst (f_ai f))).
  { rewrite Hkeys. eapply Permutation_in; [exact Hperm|]. apply in_map_iff. exists (c, p). now split. }
  apply in_map_iff in Hc. destruct Hc as ([c' v] & E & Hv). cbn [fst] in E. subst c'.
  rewrite (BinSpecAgree.find_Z_in c v (f_ai f)); [discriminate| |exact Hv]. now rewrite Hkeys.
Qed.

(* ================================================================ 3m. the relation between the decoded DOM and the document's DOM *)
(* [same_dom phi Q nodes out]: the decoded instances are the nodes of the document's DOM under the relabelling [phi] (document
   label -> reader label; 0, the root, is fixed): as many instances as nodes, pairwise distinct labels, for every node an
   instance with the corresponding label and PARENT label, the same CLASS, and [Q node inst] (name and properties); the roots
   and the children of every node are the same, in the same ORDER. *)
Definition same_dom (phi : N -> N) (Q : bs_node -> inst -> Prop) (nodes : list bs_node) (out : cdom) : Prop :=
  length out = length nodes /\ NoDup (List.map i_ref out) /\ phi 0 = 0 /\
  (forall n, In n nodes -> phi (bn_label n) <> 0) /\
  (forall n n', In n nodes -> In n' nodes -> phi (bn_label n) = phi (bn_label n') -> bn_label n = bn_label n') /\
  (forall n, In n nodes -> exists i, In i out /\ i_ref i = phi (bn_label n) /\ i_parent i = phi (bn_parent n) /\
                                     i_class i = bn_class n /\ Q n i) /\
  children_of out 0 = List.map phi (BinSpecAgree.nodes_children nodes 0) /\
  (forall n, In n nodes -> children_of out (phi (bn_label n)) = List.map phi (BinSpecAgree.nodes_children nodes (bn_label n))).

Lemma filter_none {A} (f : A -> bool) l : (forall x, In x l -> f x = false) -> filter f l = [].
Proof. induction l as [|x l IH]; intros H; [reflexivity|]. cbn [filter]. rewrite (H x (or_introl eq_refl)). apply IH. intros y Hy. apply H. now right. Qed.

Lemma rows_of_in k c rows : In c (BinFinish.rows_of k rows) -> In (c, k) rows.
Proof.
  unfold BinFinish.rows_of. intros H. apply in_map_iff in H. destruct H as ([c' p] & E & H). cbn [fst] in E. subst c'.
  apply filter_In in H. destruct H as [H E]. cbn [snd] in E. apply Z.eqb_eq in E. now subst p.
Qed.
Lemma rows_to_in k c rows : In c (BinFinish.rows_to k rows) -> k <> (-1)%Z /\ In (c, k) rows.
Proof.
  unfold BinFinish.rows_to. destruct (Z.eqb_spec k (-1)) as [->|Hne]; [intros []|]. intros H. split; [exact Hne|now apply rows_of_in].
Qed.
Lemma row_unique (rows : list (Z * Z)) c a b : NoDup (List.map fst rows) -> In (c, a) rows -> In (c, b) rows -> a = b.
Proof.
  induction rows as [|[c0 p0] rows IH]; intros Hnd Ha Hb; [destruct Ha|]. cbn [List.map fst] in Hnd. apply NoDup_cons_iff in Hnd.
  destruct Hnd as [Hn Hnd]. destruct Ha as [Ha|Ha], Hb as [Hb|Hb].
  - congruence.
  - exfalso. apply Hn. apply in_map_iff. exists (c, b). split; [cbn; congruence|exact Hb].
  - exfalso. apply Hn. apply in_map_iff. exists (c, a). split; [cbn; congruence|exact Ha].
  - now apply IH.
Qed.

Section DomRelation.
Import BinFinish.
Local Open Scope N_scope.
Variable kids : list Z.
Variable D : Z -> dinst.
Hypothesis Hkids : NoDup kids.

Definition phi_of (l : N) : N :=
  match find (fun c => N.eqb (slabel kids c) l) kids with Some c => lab D c | None => 0 end.

Lemma phi_slabel c : In c kids -> phi_of (slabel kids c) = lab D c.
Proof.
  intros Hc. unfold phi_of. destruct (find (fun c0 => N.eqb (slabel kids c0) (slabel kids c)) kids) as [c'|] eqn:E.
  - apply find_some in E. destruct E as [Hc' E]. apply N.eqb_eq in E. now rewrite (slabel_inj kids c' c Hc' Hc E).
  - exfalso. pose proof (find_none _ _ E c Hc) as H. cbv beta in H. now rewrite N.eqb_refl in H.
Qed.
Lemma phi_zero : phi_of 0 = 0.
Proof.
  unfold phi_of. destruct (find (fun c0 => N.eqb (slabel kids c0) 0) kids) as [c'|] eqn:E; [|reflexivity].
  apply find_some in E. destruct E as [Hc' E]. apply N.eqb_eq in E. now elim (slabel_nz kids c' Hc').
Qed.
Lemma map_phi_slabel l : incl l kids -> List.map phi_of (List.map (slabel kids) l) = List.map (lab D) l.
Proof. intros H. rewrite map_map. apply map_ext_in. intros c Hc. apply phi_slabel. now apply H. Qed.

Lemma lab_inj (l : list Z) a b : NoDup (List.map (lab D) l) -> In a l -> In b l -> lab D a = lab D b -> a = b.
Proof.
  induction l as [|x l IH]; intros Hnd Ha Hb E; [destruct Ha|]. cbn [List.map] in Hnd. apply NoDup_cons_iff in Hnd. destruct Hnd as [Hx Hnd].
  destruct Ha as [->|Ha], Hb as [->|Hb]; [reflexivity| | |now apply IH].
  - exfalso. apply Hx. rewrite E. now apply in_map.
  - exfalso. apply Hx. rewrite <- E. now apply in_map.
Qed.

Variable ai : list (Z * (bytes * list (bytes * value))).
Variable rows : list (Z * Z).
Hypothesis Hrows : kids = List.map fst rows.
Hypothesis Hai : forall c p, In (c, p) rows -> find_Z c ai <> None.
Hypothesis Hpar : forall c p, In (c, p) rows -> p = (-1)%Z \/ In p kids.

Definition plab (row : Z * Z) : N := if Z.eqb (snd row) (-1) then 0 else slabel kids (snd row).

Lemma mk_node_fields row : In row rows ->
  bn_label (mk_node kids ai row) = slabel kids (fst row) /\ bn_parent (mk_node kids ai row) = plab row.
Proof.
  destruct row as [c p]. intros Hin. unfold mk_node. cbn [fst snd]. pose proof (Hai c p Hin) as Hf.
  destruct (find_Z c ai) as [[cname ps]|]; [|contradiction]. now split.
Qed.

Lemma nodes_children_rows x : forall l, incl l rows ->
  BinSpecAgree.nodes_children (List.map (mk_node kids ai) l) x
  = List.map (slabel kids) (List.map fst (filter (fun row => N.eqb (plab row) x) l)).
Proof.
  induction l as [|row l IH]; intros Hincl; [reflexivity|]. unfold BinSpecAgree.nodes_children in *. cbn [List.map filter].
  destruct (mk_node_fields row (Hincl row (or_introl eq_refl))) as [H1 H2]. rewrite H2.
  assert (Hl : incl l rows) by (intros y Hy; apply Hincl; now right).
  destruct (N.eqb (plab row) x); cbn [List.map]; rewrite ?H1, (IH Hl); reflexivity.
Qed.

Lemma in_rows_kid c p : In (c, p) rows -> In c kids.
Proof. intros H. rewrite Hrows. apply in_map_iff. exists (c, p). now split. Qed.

Lemma nodes_children_zero :
  BinSpecAgree.nodes_children (List.map (mk_node kids ai) rows) 0 = List.map (slabel kids) (rows_of (-1) rows).
Proof.
  rewrite nodes_children_rows by apply incl_refl. unfold rows_of. do 2 f_equal. apply filter_ext_in. intros [c p] Hin. unfold plab. cbn [snd].
  destruct (Z.eqb_spec p (-1)) as [_|Hne]; [reflexivity|]. destruct (Hpar c p Hin) as [->|Hp]; [contradiction|].
  apply N.eqb_neq. now apply slabel_nz.
Qed.

Lemma nodes_children_kid c : In c kids ->
  BinSpecAgree.nodes_children (List.map (mk_node kids ai) rows) (slabel kids c) = List.map (slabel kids) (rows_to c rows).
Proof.
  intros Hc. rewrite nodes_children_rows by apply incl_refl. unfold rows_to, rows_of.
  destruct (Z.eqb_spec c (-1)) as [->|Hc1].
  - rewrite filter_none; [reflexivity|]. intros [c' p] Hin. unfold plab. cbn [snd].
    destruct (Z.eqb_spec p (-1)) as [_|Hne]; [apply N.eqb_neq; intros E; symmetry in E; revert E; now apply slabel_nz|].
    destruct (Hpar c' p Hin) as [->|Hp]; [contradiction|]. apply N.eqb_neq. intros E. apply slabel_inj in E; auto.
  - do 2 f_equal. apply filter_ext_in. intros [c' p] Hin. unfold plab. cbn [snd].
    destruct (Z.eqb_spec p (-1)) as [->|Hne].
    + destruct (Z.eqb_spec (-1) c) as [E|_]; [congruence|]. apply N.eqb_neq. intros E. symmetry in E. revert E. now apply slabel_nz.
    + destruct (Hpar c' p Hin) as [->|Hp]; [contradiction|]. destruct (Z.eqb_spec p c) as [->|Hpc]; [apply N.eqb_refl|].
      apply N.eqb_neq. intros E. apply slabel_inj in E; auto.
Qed.
Variable p : dec_params.
Variable out : cdom.
Variable Q : bs_node -> inst -> Prop.
Hypothesis Hcf : children_first rows = true.
Hypothesis Hrec : reconstructs D p (forest_of rows) out.
Hypothesis Hnz : forall c, In c kids -> lab D c <> 0.
Hypothesis Hclass : forall c pp, In (c, pp) rows -> bn_class (mk_node kids ai (c, pp)) = di_class (D c).
Hypothesis HQ : forall c pp i, In (c, pp) rows -> In i out -> i_ref i = lab D c -> i_name i = di_name (D c) ->
  BinRoundTrip.uid_norm p (collect_props (di_props (D c))) (i_props i) -> Q (mk_node kids ai (c, pp)) i.

Theorem dom_relation : same_dom phi_of Q (List.map (mk_node kids ai) rows) out.
Proof.
  assert (Hndr : NoDup (List.map fst rows)) by (now rewrite <- Hrows).
  destruct (forest_of_describes rows Hndr Hcf) as (Hdesc & HndF & HpermF). rewrite <- Hrows in HpermF.
  set (F := forest_of rows) in *.
  destruct Hrec as (Hout & Hskel & Hperm & Hnd & Hroots & Hch & Hnone).
  assert (HlF : NoDup (List.map (lab D) (zfrefs F))) by (eapply Permutation_NoDup; [exact Hperm|exact Hnd]).
  assert (Hlk : NoDup (List.map (lab D) kids)) by (eapply Permutation_NoDup; [apply Permutation_map; exact HpermF|exact HlF]).
  assert (HkF : forall c, In c kids -> In c (zfrefs F)) by (intros c Hc; eapply Permutation_in; [symmetry; exact HpermF|exact Hc]).
  assert (HFk : forall c, In c (zfrefs F) -> In c kids) by (intros c Hc; eapply Permutation_in; [exact HpermF|exact Hc]).
  assert (Hnode : forall n, In n (List.map (mk_node kids ai) rows) -> exists c pp, In (c, pp) rows /\ n = mk_node kids ai (c, pp) /\
                    bn_label n = slabel kids c /\ bn_parent n = plab (c, pp)).
  { intros n Hn. apply in_map_iff in Hn. destruct Hn as ([c pp] & <- & Hin). exists c, pp. split; [exact Hin|]. split; [reflexivity|].
    exact (mk_node_fields (c, pp) Hin). }
  unfold same_dom. split; [|split; [exact Hnd|split; [exact phi_zero|split; [|split; [|split; [|split]]]]]].
  - rewrite Hout, built_length, <- length_zfrefs, (Permutation_length HpermF), Hrows, !map_length. reflexivity.
  - intros n Hn. destruct (Hnode n Hn) as (c & pp & Hin & _ & Hl & _). rewrite Hl, phi_slabel by (eapply in_rows_kid; eauto).
    apply Hnz. eapply in_rows_kid; eauto.
  - intros n n' Hn Hn'. destruct (Hnode n Hn) as (c & pp & Hin & _ & Hl & _), (Hnode n' Hn') as (c' & pp' & Hin' & _ & Hl' & _).
    rewrite Hl, Hl', !phi_slabel by (eapply in_rows_kid; eauto). intros E.
    now rewrite (lab_inj kids c c' Hlk (in_rows_kid _ _ Hin) (in_rows_kid _ _ Hin') E).
  - intros n Hn. destruct (Hnode n Hn) as (c & pp & Hin & -> & Hl & Hp). pose proof (in_rows_kid _ _ Hin) as Hck.
    assert (Hi : In (lab D c) (List.map i_ref out)).
    { eapply Permutation_in; [symmetry; exact Hperm|]. apply in_map. now apply HkF. }
    apply in_map_iff in Hi. destruct Hi as (i & Hir & Hio). exists i. split; [exact Hio|].
    pose proof Hio as Hb. rewrite Hout in Hb. pose proof (BinRoundTrip.built_in D p F i Hb) as (k & Hk & E1 & E2 & E3 & E4).
    assert (k = c) by (apply (lab_inj (zfrefs F) k c HlF Hk (HkF c Hck)); congruence). subst k.
    rewrite Hl, Hp, (phi_slabel c Hck). split; [exact Hir|]. split; [|split].
    + destruct (built_parent D p F i Hb) as [(t & Ht & Er & Ep)|(t' & cc & Ht' & Hcc & Er & Ep)].
      * assert (Hzt : In (zroot t) (zfrefs F)) by (apply in_flat_map; exists t; split; [exact Ht|apply zroot_in_zrefs]).
        assert (zroot t = c) by (apply (lab_inj (zfrefs F) _ _ HlF Hzt (HkF c Hck)); congruence).
        assert (Hroot : In c (rows_of (-1) rows)).
        { rewrite (proj1 Hdesc). subst c. now apply in_map. }
        apply rows_of_in in Hroot. pose proof (row_unique rows c pp (-1)%Z Hndr Hin Hroot) as ->.
        unfold plab. cbn [snd]. change (Z.eqb (-1) (-1)) with true. cbv iota. now rewrite phi_zero.
      * assert (Hcs : In cc (zfsubtrees F)) by (eapply zfsubtrees_kid; eauto).
        assert (Hzc : In (zroot cc) (zfrefs F)) by (rewrite zfrefs_subtrees; now apply in_map).
        assert (Hzt : In (zroot t') (zfrefs F)) by (rewrite zfrefs_subtrees; now apply in_map).
        assert (zroot cc = c) by (apply (lab_inj (zfrefs F) _ _ HlF Hzc (HkF c Hck)); congruence).
        assert (Hrow : In c (rows_to (zroot t') rows)).
        { rewrite (proj2 Hdesc t' Ht'). subst c. now apply in_map. }
        apply rows_to_in in Hrow. destruct Hrow as [Hne Hrow]. pose proof (row_unique rows c pp _ Hndr Hin Hrow) as ->.
        unfold plab. cbn [snd]. destruct (Z.eqb_spec (zroot t') (-1)) as [E|_]; [contradiction|].
        now rewrite (phi_slabel _ (HFk _ Hzt)).
    + rewrite E2. symmetry. now apply Hclass.
    + apply HQ; auto.
  - rewrite Hroots, nodes_children_zero, map_phi_slabel.
    + rewrite (proj1 Hdesc), map_map. reflexivity.
    + intros c Hc. apply rows_of_in in Hc. eapply in_rows_kid; eauto.
  - intros n Hn. destruct (Hnode n Hn) as (c & pp & Hin & -> & Hl & _). pose proof (in_rows_kid _ _ Hin) as Hck.
    rewrite Hl, (phi_slabel c Hck), (nodes_children_kid c Hck), map_phi_slabel.
    + pose proof (HkF c Hck) as Hc. rewrite zfrefs_subtrees in Hc. apply in_map_iff in Hc. destruct Hc as (t0 & Ez & Ht0).
      rewrite <- Ez, (Hch t0 Ht0), (proj2 Hdesc t0 Ht0), map_map. reflexivity.
    + intros c' Hc'. apply rows_to_in in Hc'. destruct Hc' as [_ Hc']. eapply in_rows_kid; eauto.
Qed.
End DomRelation.

(* ================================================================ 3n. names and property values: the reader's record of one instance *)
Definition D_of (st : dstate) : Z -> dinst := BinFinish.dinst_of (ds_insts st).
Definition rec_of (i : dinst) : bytes * list (bytes * value) := (di_name i, di_props i).

(* what one PROP chunk does to the (name, property list) of the k-th instance of class [cl], for a database that does not know
   the property ([lo], [sstr]: the reader's referent resolution and shared strings when the chunk is read) *)
Definition pstep (sstr : list (bytes * bytes)) (lo : Z -> N) (cl : bs_class) (k : nat)
                 (acc : bytes * list (bytes * value)) (pr : bs_prop) : bytes * list (bytes * value) :=
  if negb (N.eqb (bp_class pr) (cls_id cl)) then acc else
  match bp_body pr with
  | BValues col =>
    match wire_of_id (bs_col_type col) with
    | None => acc
    | Some ty =>
      if bytes_eqb (bp_name pr) NAME then
        match col with
        | KString names => match nth_error names k with Some s0 => (BinValuesFacts2.str_norm s0, snd acc) | None => acc end
        | _ => acc
        end
      else match bs_col_values sstr lo col with
           | Ok vals => match nth_error vals k with
                        | Some v => (fst acc, snd acc ++ [(bp_name pr, retype (to_default_rbx_type ty) v)])
                        | None => acc end
           | _ => acc
           end
    end
  | _ => acc
  end.

(* the PROP chunks of the list concern properties the database does not know (no name / type resolution, no migration) *)
Definition prop_unknown (d : db) (cs : list bs_class) (pr : bs_prop) : bool :=
  match find (fun c => N.eqb (cls_id c) (bp_class pr)) cs, bp_body pr with
  | Some c, BValues col =>
    match wire_of_id (bs_col_type col) with
    | Some ty =>
      bytes_eqb (bp_name pr) NAME ||
      match find_canonical_property d ty (cls_name c) (bp_name pr) with
      | Ok (Some (nm, cty, None)) => bytes_eqb nm (bp_name pr) && N.eqb cty (to_default_rbx_type ty)
      | _ => false
      end
    | None => true
    end
  | _, _ => true
  end.
Definition is_reg (it : bs_item) : bool := match it with IInst _ | ISstr _ => true | _ => false end.
Definition is_prop (it : bs_item) : bool := match it with IProp _ => true | _ => false end.

Lemma run_steps_app d p : forall a b st, run_steps d p st (a ++ b) = match run_steps d p st a with Some st1 => run_steps d p st1 b | None => None end.
Proof. induction a as [|x a IH]; intros b st; [reflexivity|]. cbn [app run_steps]. destruct (rstep d p st x); [apply IH|reflexivity]. Qed.

Lemma bs_col_values_ext sstr lo lo' col : (forall z, lo z = lo' z) -> bs_col_values sstr lo col = bs_col_values sstr lo' col.
Proof.
  intros H. destruct col; cbn [bs_col_values]; try reflexivity.
  - f_equal. apply map_ext. intros z. now rewrite H.
  - f_equal. apply map_ext. intros [| |z]; try reflexivity. now rewrite H.
Qed.

Lemma pstep_ext sstr lo lo' cl k acc pr : (forall z, lo z = lo' z) -> pstep sstr lo cl k acc pr = pstep sstr lo' cl k acc pr.
Proof. intros H. unfold pstep. destruct (bp_body pr); try reflexivity. now rewrite (bs_col_values_ext sstr lo lo' c H). Qed.

Lemma fold_pstep_ext sstr lo lo' cl k : (forall z, lo z = lo' z) -> forall l acc,
  fold_left (pstep sstr lo cl k) l acc = fold_left (pstep sstr lo' cl k) l acc.
Proof. intros H. induction l as [|pr l IH]; intros acc; [reflexivity|]. cbn [fold_left]. now rewrite (pstep_ext sstr lo lo' cl k acc pr H), IH. Qed.

Definition reg_inv (st : dstate) (cs : list bs_class) : Prop :=
  forall cl r, In cl cs -> In r (cls_refs cl) -> zfind r (ds_insts st) <> None.

Lemma D_of_find st r i : zfind r (ds_insts st) = Some i -> D_of st r = i.
Proof. intros H. unfold D_of, BinFinish.dinst_of. now rewrite H. Qed.

Lemma nth_error_Some_lt {A B} (l : list A) (l' : list B) k a : nth_error l k = Some a -> length l' = length l -> nth_error l' k = None -> False.
Proof. intros H1 HL H2. apply nth_error_None in H2. assert (k < length l)%nat by (apply nth_error_Some; congruence). lia. Qed.

Lemma class_id_inj (cs : list bs_class) a b : NoDup (List.map cls_id cs) -> In a cs -> In b cs -> cls_id a = cls_id b -> a = b.
Proof.
  induction cs as [|x cs IH]; intros Hnd Ha Hb E; [destruct Ha|]. cbn [List.map] in Hnd. apply NoDup_cons_iff in Hnd. destruct Hnd as [Hx Hnd].
  destruct Ha as [->|Ha], Hb as [->|Hb]; [reflexivity| | |now apply IH].
  - exfalso. apply Hx. rewrite E. now apply in_map.
  - exfalso. apply Hx. rewrite <- E. now apply in_map.
Qed.

(* the general step: a property the database KNOWS (not migrating) is stored under its canonical name with its canonical type
   (find_canonical_property); one it does not know under its own name with the default type; `does not serialize` is skipped *)
Definition pstepD (d : db) (sstr : list (bytes * bytes)) (lo : Z -> N) (cl : bs_class) (k : nat)
                  (acc : bytes * list (bytes * value)) (pr : bs_prop) : bytes * list (bytes * value) :=
  if negb (N.eqb (bp_class pr) (cls_id cl)) then acc else
  match bp_body pr with
  | BValues col =>
    match wire_of_id (bs_col_type col) with
    | None => acc
    | Some ty =>
      if bytes_eqb (bp_name pr) NAME then
        match col with
        | KString names => match nth_error names k with Some s0 => (BinValuesFacts2.str_norm s0, snd acc) | None => acc end
        | _ => acc
        end
      else match find_canonical_property d ty (cls_name cl) (bp_name pr) with
           | Ok (Some (nm, cty, None)) =>
             match bs_col_values sstr lo col with
             | Ok vals => match nth_error vals k with Some v => (fst acc, snd acc ++ [(nm, retype cty v)]) | None => acc end
             | _ => acc
             end
           | _ => acc
           end
    end
  | _ => acc
  end.

(* no PROP chunk of the list is subject to a migration *)
Definition prop_nonmig (d : db) (cs : list bs_class) (pr : bs_prop) : bool :=
  match find (fun c => N.eqb (cls_id c) (bp_class pr)) cs, bp_body pr with
  | Some c, BValues col =>
    match wire_of_id (bs_col_type col) with
    | Some ty =>
      bytes_eqb (bp_name pr) NAME ||
      match find_canonical_property d ty (cls_name c) (bp_name pr) with
      | Ok None => true
      | Ok (Some (_, _, None)) => true
      | _ => false
      end
    | None => true
    end
  | _, _ => true
  end.

Lemma prop_unknown_nonmig d cs pr : prop_unknown d cs pr = true -> prop_nonmig d cs pr = true.
Proof.
  unfold prop_unknown, prop_nonmig. destruct (find _ cs) as [c|]; [|reflexivity]. destruct (bp_body pr) as [col| |]; try reflexivity.
  destruct (wire_of_id (bs_col_type col)) as [ty|]; [|reflexivity]. destruct (bytes_eqb (bp_name pr) NAME); [reflexivity|]. cbn [orb].
  destruct (find_canonical_property d ty (cls_name c) (bp_name pr)) as [[[[nm cty] [mg|]]|]| | |]; try discriminate. reflexivity.
Qed.

Lemma pstepD_ext d sstr lo lo' cl k acc pr : (forall z, lo z = lo' z) -> pstepD d sstr lo cl k acc pr = pstepD d sstr lo' cl k acc pr.
Proof. intros H. unfold pstepD. destruct (bp_body pr); try reflexivity. now rewrite (bs_col_values_ext sstr lo lo' c H). Qed.
Lemma fold_pstepD_ext d sstr lo lo' cl k : (forall z, lo z = lo' z) -> forall l acc,
  fold_left (pstepD d sstr lo cl k) l acc = fold_left (pstepD d sstr lo' cl k) l acc.
Proof. intros H. induction l as [|pr l IH]; intros acc; [reflexivity|]. cbn [fold_left]. now rewrite (pstepD_ext d sstr lo lo' cl k acc pr H), IH. Qed.

(* for properties the database does not know the general step is the step of 3n *)
Lemma pstepD_unknown d cs sstr lo cl k acc pr : NoDup (List.map cls_id cs) -> In cl cs -> prop_unknown d cs pr = true ->
  pstepD d sstr lo cl k acc pr = pstep sstr lo cl k acc pr.
Proof.
  intros Hids Hcl Hu. unfold pstepD, pstep. destruct (N.eqb (bp_class pr) (cls_id cl)) eqn:Ecl; cbn [negb]; [|reflexivity].
  apply N.eqb_eq in Ecl. unfold prop_unknown in Hu.
  destruct (find (fun c => N.eqb (cls_id c) (bp_class pr)) cs) as [c|] eqn:Ef.
  2:{ exfalso. pose proof (find_none _ _ Ef cl Hcl) as Hn. cbv beta in Hn. rewrite Ecl, N.eqb_refl in Hn. discriminate. }
  destruct (find_class_in _ _ _ Ef) as [Hc Hid]. assert (c = cl) by (apply (class_id_inj cs c cl Hids Hc Hcl); congruence). subst c.
  destruct (bp_body pr) as [col| |]; try reflexivity. destruct (wire_of_id (bs_col_type col)) as [ty|]; [|reflexivity].
  destruct (bytes_eqb (bp_name pr) NAME); [reflexivity|]. cbn [orb] in Hu.
  destruct (find_canonical_property d ty (cls_name cl) (bp_name pr)) as [[[[nm cty] [mg|]]|]| | |]; try discriminate.
  apply andb_true_iff in Hu. destruct Hu as [E1 E2]. apply BinFraming.beqb_true in E1. apply N.eqb_eq in E2. now subst.
Qed.
Lemma fold_pstepD_unknown d cs sstr lo cl k : NoDup (List.map cls_id cs) -> In cl cs -> forall l acc,
  forallb (prop_unknown d cs) l = true -> fold_left (pstepD d sstr lo cl k) l acc = fold_left (pstep sstr lo cl k) l acc.
Proof.
  intros Hids Hcl. induction l as [|pr l IH]; intros acc H; [reflexivity|]. cbn [forallb] in H. apply andb_true_iff in H. destruct H as [H1 H2].
  cbn [fold_left]. now rewrite (pstepD_unknown d cs sstr lo cl k acc pr Hids Hcl H1), IH.
Qed.

(* one step of the PROP phase: the record of every instance moves by [pstep]; labels, types, shared strings stay *)
Lemma phase2_step d p st it st1 cs : dp_lim p = None -> ritem_ok it = true -> is_reg it = false ->
  rstep d p st it = Some st1 -> types_inv st cs -> reg_inv st cs -> NoDup (all_refs cs) -> NoDup (List.map cls_id cs) ->
  scan d cs (length (ds_sstr st)) [it] = true ->
  match it with IProp pr => prop_nonmig d cs pr = true | _ => True end ->
  types_inv st1 cs /\ reg_inv st1 cs /\ ds_sstr st1 = ds_sstr st /\ (forall z, st_label st1 z = st_label st z) /\
  forall cl k r, In cl cs -> nth_error (cls_refs cl) k = Some r ->
    rec_of (D_of st1 r) = match it with IProp pr => pstepD d (st_sstr st) (st_label st) cl k (rec_of (D_of st r)) pr | _ => rec_of (D_of st r) end.
Proof.
  intros Hl Hok Hreg Hs Hty Hri Hnd Hids Hscan Hunk.
  destruct it as [l|l|c|pr|rows| |n dta]; try discriminate; cbn [rstep] in Hs.
  - destruct (forallb _ l); [|discriminate]. injection Hs as <-. repeat split; auto.
  - (* PROP *)
    cbn [scan] in Hscan. rewrite andb_true_r in Hscan. unfold scan_prop in Hscan. apply andb_true_iff in Hscan. destruct Hscan as [Hu Hscan].
    unfold prop_nonmig in Hunk.
    destruct (find (fun c => N.eqb (cls_id c) (bp_class pr)) cs) as [c|] eqn:Ef; [|discriminate].
    destruct (find_class_in _ _ _ Ef) as [Hc Hid]. pose proof (Hty c Hc) as Hlk. rewrite Hid in Hlk.
    assert (Hndc : NoDup (cls_refs c)) by exact (BinSpecAgree.NoDup_flat_map_each cls_refs cs c Hnd Hc).
    assert (Hregc : forall r, In r (dt_referents (mkDT (cls_name c) (cls_refs c))) -> zfind r (ds_insts st) <> None)
      by (intros r Hr; exact (Hri c r Hc Hr)).
    assert (Hother : forall cl r, In cl cs -> In r (cls_refs cl) -> N.eqb (bp_class pr) (cls_id cl) = false -> ~ In r (cls_refs c)).
    { intros cl r Hcl Hr Hne Hin. apply N.eqb_neq in Hne. apply Hne. rewrite <- Hid.
      destruct (In_nth_error _ _ Hcl) as [a Ha]. destruct (In_nth_error _ _ Hc) as [b Hb].
      clear - Hnd Hr Hin Hcl Hc. unfold all_refs in Hnd. induction cs as [|x cs IH]; [destruct Hc|]. cbn [flat_map] in Hnd.
      destruct Hcl as [->|Hcl], Hc as [->|Hc]; [reflexivity| | |apply IH; auto; eapply BinFinish.NoDup_app_right; eauto].
      - exfalso. eapply BinFinish.NoDup_app_not; [exact Hnd|exact Hr|]. apply in_flat_map. exists c. now split.
      - exfalso. eapply BinFinish.NoDup_app_not; [exact Hnd|exact Hin|]. apply in_flat_map. exists cl. now split. }
    assert (Hskip : st1 = st -> types_inv st1 cs /\ reg_inv st1 cs /\ ds_sstr st1 = ds_sstr st /\ (forall z, st_label st1 z = st_label st z) /\
              forall cl k r, In cl cs -> nth_error (cls_refs cl) k = Some r -> rec_of (D_of st1 r) = rec_of (D_of st r)).
    { intros ->. repeat split; auto. }
    rewrite Hu in Hs. cbn [negb] in Hs. rewrite Hlk in Hs.
    destruct (bp_body pr) as [col| |ty raw] eqn:Hbody.
    + destruct (wire_of_id (bs_col_type col)) as [ty|] eqn:Hw.
      2:{ unfold rstep_values in Hs. rewrite Hw in Hs. injection Hs as <-. destruct (Hskip eq_refl) as (A & B & C & E & F).
          repeat split; auto. intros cl k r Hcl Hr. unfold pstepD. rewrite Hbody, Hw. now destruct (negb _). }
      apply andb_true_iff in Hscan. destruct Hscan as [Hlen Hscan]. apply Nat.eqb_eq in Hlen.
      destruct (bytes_eqb (bp_name pr) NAME) eqn:Hname.
      * destruct col; try discriminate.
        assert (Hs' : rstep d p st (IProp pr) = Some st1) by (cbn [rstep]; rewrite Hu, Hlk, Hbody; exact Hs).
        destruct (reader_name_step_pointwise d p st pr st1 _ l Hs' Hlk Hbody Hname Hndc Hregc) as (P1 & P2 & T1 & T2 & _ & _).
        cbn [dt_referents] in P1, P2.
        assert (Hfind : forall z, exists same : bool, match zfind z (ds_insts st) with Some i => exists i', zfind z (ds_insts st1) = Some i' /\ di_label i' = di_label i | None => zfind z (ds_insts st1) = None end).
        { intros z. exists true. destruct (in_dec Z.eq_dec z (cls_refs c)) as [Hz|Hz].
          - destruct (In_nth_error _ _ Hz) as [k Hk]. cbn [bs_col_len] in Hlen.
            destruct (nth_error l k) as [s0|] eqn:Es; [|exfalso; exact (nth_error_Some_lt _ _ _ _ Hk Hlen Es)].
            destruct (P1 k z s0 Hk Es) as (i & Hi & Hi'). rewrite Hi. eexists. split; [exact Hi'|reflexivity].
          - rewrite (P2 z Hz). destruct (zfind z (ds_insts st)) as [i|]; [|reflexivity]. eexists. split; reflexivity. }
        split; [intros c0 Hc0; rewrite T1; now apply Hty|]. split.
        { intros cl r Hcl Hr. destruct (Hfind r) as [_ Hf]. specialize (Hri cl r Hcl Hr). destruct (zfind r (ds_insts st)); [|contradiction].
          destruct Hf as (i' & -> & _). discriminate. }
        split; [exact T2|]. split.
        { intros z. unfold st_label. destruct (Hfind z) as [_ Hf]. destruct (zfind z (ds_insts st)) as [i|]; [destruct Hf as (i' & -> & E); exact E|now rewrite Hf]. }
        intros cl k r Hcl Hr. unfold pstepD. rewrite Hbody. cbn [bs_col_type]. change (wire_of_id 1) with (Some WString). cbv iota. rewrite Hname.
        destruct (N.eqb (bp_class pr) (cls_id cl)) eqn:Ecl; cbn [negb].
        -- apply N.eqb_eq in Ecl. assert (cl = c).
           { apply (class_id_inj cs cl c Hids Hcl Hc). congruence. }
           subst cl. cbn [bs_col_len] in Hlen.
           destruct (nth_error l k) as [s0|] eqn:Es; [|exfalso; exact (nth_error_Some_lt _ _ _ _ Hr Hlen Es)].
           destruct (P1 k r s0 Hr Es) as (i & Hi & Hi'). now rewrite (D_of_find st1 r _ Hi'), (D_of_find st r i Hi).
        -- unfold D_of, BinFinish.dinst_of. now rewrite (P2 r (Hother cl r Hcl (nth_error_In _ _ Hr) Ecl)).
      * cbn [orb] in Hunk.
        destruct (find_canonical_property d ty (cls_name c) (bp_name pr)) as [[[[nm cty] [mg|]]|]| | |] eqn:Hcp; try discriminate.
        2:{ (* the database says: does not serialize — skipped *)
            unfold rstep_values in Hs. cbn [dt_referents dt_name] in Hs. rewrite Hw, Hlen, Nat.eqb_refl, Hname, Hcp in Hs. cbn [negb] in Hs.
            injection Hs as <-. destruct (Hskip eq_refl) as (A & B & C & E & F). repeat split; auto.
            intros cl k r Hcl Hr. unfold pstepD. destruct (N.eqb (bp_class pr) (cls_id cl)) eqn:Ecl; cbn [negb]; [|reflexivity].
            apply N.eqb_eq in Ecl. assert (cl = c) by (apply (class_id_inj cs cl c Hids Hcl Hc); congruence). subst cl.
            now rewrite Hbody, Hw, Hname, Hcp. }
        apply andb_true_iff in Hscan. destruct Hscan as [Hrc Hcv].
        destruct (col_values_defined (st_sstr st) (st_label st) col) as (vals & Hv); [unfold st_sstr; now rewrite map_length|].
        assert (Hs' : rstep d p st (IProp pr) = Some st1) by (cbn [rstep]; rewrite Hu, Hlk, Hbody; exact Hs).
        destruct (reader_prop_step_pointwise d p st pr st1 _ col ty _ _ vals Hs' Hlk Hbody Hw Hname Hcp Hv Hndc Hregc) as (P1 & P2 & T1 & T2 & _ & _).
        cbn [dt_referents] in P1, P2.
        assert (Hvl : length vals = length (cls_refs c)) by (rewrite (BinSpecAgree.bs_col_values_length _ _ _ _ Hv); exact Hlen).
        assert (Hfind : forall z, match zfind z (ds_insts st) with Some i => exists i', zfind z (ds_insts st1) = Some i' /\ di_label i' = di_label i | None => zfind z (ds_insts st1) = None end).
        { intros z. destruct (in_dec Z.eq_dec z (cls_refs c)) as [Hz|Hz].
          - destruct (In_nth_error _ _ Hz) as [k Hk].
            destruct (nth_error vals k) as [v|] eqn:Es; [|exfalso; exact (nth_error_Some_lt _ _ _ _ Hk Hvl Es)].
            destruct (P1 k z v Hk Es) as (i & Hi & Hi'). rewrite Hi. eexists. split; [exact Hi'|reflexivity].
          - rewrite (P2 z Hz). destruct (zfind z (ds_insts st)) as [i|]; [|reflexivity]. eexists. split; reflexivity. }
        split; [intros c0 Hc0; rewrite T1; now apply Hty|]. split.
        { intros cl r Hcl Hr. pose proof (Hfind r) as Hf. specialize (Hri cl r Hcl Hr). destruct (zfind r (ds_insts st)); [|contradiction].
          destruct Hf as (i' & -> & _). discriminate. }
        split; [exact T2|]. split.
        { intros z. unfold st_label. pose proof (Hfind z) as Hf. destruct (zfind z (ds_insts st)) as [i|]; [destruct Hf as (i' & -> & E); exact E|now rewrite Hf]. }
        intros cl k r Hcl Hr. unfold pstepD.
        destruct (N.eqb (bp_class pr) (cls_id cl)) eqn:Ecl; cbn [negb].
        -- apply N.eqb_eq in Ecl. assert (cl = c).
           { apply (class_id_inj cs cl c Hids Hcl Hc). congruence. }
           subst cl. rewrite Hbody, Hw, Hname, Hcp, Hv.
           destruct (nth_error vals k) as [v|] eqn:Es; [|exfalso; exact (nth_error_Some_lt _ _ _ _ Hr Hvl Es)].
           destruct (P1 k r v Hr Es) as (i & Hi & Hi'). now rewrite (D_of_find st1 r _ Hi'), (D_of_find st r i Hi).
        -- unfold D_of, BinFinish.dinst_of. now rewrite (P2 r (Hother cl r Hcl (nth_error_In _ _ Hr) Ecl)).
    + injection Hs as <-. destruct (Hskip eq_refl) as (A & B & C & E & F). repeat split; auto.
      intros cl k r Hcl Hr. unfold pstepD. rewrite Hbody. now destruct (negb _).
    + destruct (wire_of_id ty); [discriminate|]. injection Hs as <-. destruct (Hskip eq_refl) as (A & B & C & E & F). repeat split; auto.
      intros cl k r Hcl Hr. unfold pstepD. rewrite Hbody. now destruct (negb _).
  - (* PRNT *)
    destruct (prnt_links (ds_insts st) (ds_roots st) rows) as [[i2 r2]| | |] eqn:E; try discriminate. injection Hs as <-.
    destruct (prnt_links_ok_spec _ _ _ _ _ E) as [_ Hf]. cbn [ds_types ds_insts ds_sstr fst]. split; [exact Hty|]. split.
    { intros cl r Hcl Hr. rewrite Hf. specialize (Hri cl r Hcl Hr). now destruct (zfind r (ds_insts st)). }
    split; [reflexivity|]. split.
    { intros z. unfold st_label. cbn [ds_insts fst]. rewrite Hf. now destruct (zfind z (ds_insts st)). }
    intros cl k r Hcl Hr. unfold D_of, BinFinish.dinst_of. cbn [ds_insts fst]. rewrite Hf. now destruct (zfind r (ds_insts st)).
  - injection Hs as <-. repeat split; auto.
Qed.

Lemma scan_nonreg d cs ns it r : is_reg it = false -> scan d cs ns (it :: r) = true -> scan d cs ns [it] = true /\ scan d cs ns r = true.
Proof.
  destruct it; try discriminate; intros _ H; cbn [scan] in *; try (split; [reflexivity|exact H]);
    apply andb_true_iff in H; destruct H as [H1 H2]; rewrite H1; auto.
Qed.

(* the PROP phase (no INST / SSTR chunk any more): every record is the fold of [pstep] over the PROP chunks, in chunk order *)
Lemma phase2_run d p cs : dp_lim p = None -> NoDup (all_refs cs) -> NoDup (List.map cls_id cs) ->
  forall items st st', forallb ritem_ok items = true -> forallb (fun it => negb (is_reg it)) items = true ->
  run_steps d p st items = Some st' -> types_inv st cs -> reg_inv st cs -> scan d cs (length (ds_sstr st)) items = true ->
  forallb (prop_nonmig d cs) (bs_props items) = true ->
  (forall z, st_label st' z = st_label st z) /\ ds_sstr st' = ds_sstr st /\
  forall cl k r, In cl cs -> nth_error (cls_refs cl) k = Some r ->
    rec_of (D_of st' r) = fold_left (pstepD d (st_sstr st) (st_label st) cl k) (bs_props items) (rec_of (D_of st r)).
Proof.
  intros Hl Hnd Hids. induction items as [|it r IH]; intros st st' Hok Hnr Hrun Hty Hri Hscan Hunk.
  - injection Hrun as <-. repeat split; auto.
  - cbn [forallb] in Hok, Hnr. apply andb_true_iff in Hok, Hnr. destruct Hok as [Hit Hok], Hnr as [Hn Hnr]. apply negb_true_iff in Hn.
    cbn [run_steps] in Hrun. destruct (rstep d p st it) as [st1|] eqn:Hs; [|discriminate].
    destruct (scan_nonreg d cs _ it r Hn Hscan) as [Hsc1 Hscr].
    assert (Hu1 : match it with IProp pr => prop_nonmig d cs pr = true | _ => True end).
    { destruct it; try exact I. unfold bs_props in Hunk. cbn [flat_map app forallb] in Hunk. apply andb_true_iff in Hunk. now destruct Hunk. }
    assert (Hur : forallb (prop_nonmig d cs) (bs_props r) = true).
    { destruct it; unfold bs_props in *; cbn [flat_map app forallb] in Hunk; try exact Hunk. apply andb_true_iff in Hunk. now destruct Hunk. }
    destruct (phase2_step d p st it st1 cs Hl Hit Hn Hs Hty Hri Hnd Hids Hsc1 Hu1) as (T1 & R1 & S1 & L1 & P1).
    assert (Hss : st_sstr st1 = st_sstr st) by (unfold st_sstr; now rewrite S1).
    rewrite <- S1 in Hscr. destruct (IH st1 st' Hok Hnr Hrun T1 R1 Hscr Hur) as (L2 & S2 & P2).
    split; [intros z; now rewrite L2, L1|]. split; [now rewrite S2|].
    intros cl k r0 Hcl Hr0. rewrite (P2 cl k r0 Hcl Hr0), (P1 cl k r0 Hcl Hr0), Hss, (fold_pstepD_ext d _ _ _ cl k L1).
    destruct it; unfold bs_props; cbn [flat_map app fold_left]; reflexivity.
Qed.

(* the registration phase (no PROP chunk yet): every registered instance is named after its class and has no property *)
Definition fresh_inv (st : dstate) (cs : list bs_class) : Prop :=
  forall cl r, In cl cs -> In r (cls_refs cl) -> exists i, zfind r (ds_insts st) = Some i /\ di_name i = cls_name cl /\ di_props i = [].

Lemma phase1_run d p : forall items st st1 cs,
  forallb (fun it => negb (is_prop it)) items = true -> forallb (fun it => negb (is_end it)) items = true ->
  run_steps d p st items = Some st1 -> fresh_inv st cs -> types_inv st cs ->
  NoDup (all_refs (cs ++ bs_insts items)) -> NoDup (List.map cls_id (cs ++ bs_insts items)) ->
  fresh_inv st1 (cs ++ bs_insts items) /\ types_inv st1 (cs ++ bs_insts items).
Proof.
  induction items as [|it r IH]; intros st st1 cs Hnp Hne Hrun Hfr Hty Hnd Hids.
  - injection Hrun as <-. cbn [bs_insts flat_map]. now rewrite app_nil_r.
  - cbn [forallb] in Hnp, Hne. apply andb_true_iff in Hnp, Hne. destruct Hnp as [Hp Hnp], Hne as [He Hne].
    cbn [run_steps] in Hrun. destruct (rstep d p st it) as [st0|] eqn:Hs; [|discriminate].
    destruct it as [l|l|c|pr|rows| |n dta]; try discriminate; cbn [rstep] in Hs; unfold bs_insts in *; cbn [flat_map app] in *; fold (bs_insts r) in *.
    + destruct (forallb _ l); [|discriminate]. injection Hs as <-. exact (IH _ _ _ Hnp Hne Hrun Hfr Hty Hnd Hids).
    + injection Hs as <-. exact (IH _ _ _ Hnp Hne Hrun Hfr Hty Hnd Hids).
    + destruct (utf8_valid (cls_name c)); [|discriminate]. injection Hs as <-.
      replace (cs ++ c :: bs_insts r) with ((cs ++ [c]) ++ bs_insts r) in * by (now rewrite <- app_assoc).
      apply (IH _ _ _ Hnp Hne Hrun); try assumption.
      * assert (Hndc : NoDup (cls_refs c)).
        { unfold all_refs in Hnd. rewrite !flat_map_app in Hnd. cbn [flat_map] in Hnd. rewrite app_nil_r in Hnd.
          apply BinFinish.NoDup_app_left in Hnd. now apply BinFinish.NoDup_app_right in Hnd. }
        unfold BinChunkFacts.inst_register.
        pose proof (BinChunkFacts.fresh_insts_spec (cls_name c) (cls_refs c) (ds_insts st) (ds_next st) Hndc) as [F1 F2].
        destruct (BinChunkFacts.fresh_insts (cls_name c) (cls_refs c) (ds_insts st) (ds_next st)) as [insts next].
        cbn [fst] in F1, F2. intros cl r0 Hcl Hr0. cbn [ds_insts]. apply in_app_or in Hcl. destruct Hcl as [Hcl|[<-|[]]].
        -- rewrite F2; [now apply Hfr|]. intros Hin. unfold all_refs in Hnd. rewrite !flat_map_app in Hnd. cbn [flat_map] in Hnd.
           rewrite app_nil_r in Hnd. apply BinFinish.NoDup_app_left in Hnd. eapply BinFinish.NoDup_app_not; [exact Hnd| |exact Hin].
           apply in_flat_map. exists cl. now split.
        -- apply In_nth_error in Hr0. destruct Hr0 as [k Hk]. rewrite (F1 k r0 Hk). eexists. split; [reflexivity|]. now split.
      * intros c' Hc'. unfold BinChunkFacts.inst_register. destruct (BinChunkFacts.fresh_insts _ _ _ _). cbn [ds_types].
        apply in_app_or in Hc'. destruct Hc' as [Hc'|[<-|[]]]; [|apply lookup_upd_eq].
        rewrite lookup_upd_neq; [now apply Hty|]. intros E. rewrite !map_app in Hids. cbn [List.map] in Hids.
        apply BinFinish.NoDup_app_left in Hids. eapply BinFinish.NoDup_app_not; [exact Hids|apply in_map; exact Hc'|]. rewrite E. now left.
    + destruct (prnt_links (ds_insts st) (ds_roots st) rows) as [[i2 r2]| | |] eqn:E; try discriminate. injection Hs as <-.
      destruct (prnt_links_ok_spec _ _ _ _ _ E) as [_ Hf]. apply (IH _ _ _ Hnp Hne Hrun); try assumption.
      intros cl r0 Hcl Hr0. cbn [ds_insts fst]. rewrite Hf. destruct (Hfr cl r0 Hcl Hr0) as (i & -> & H1 & H2). eexists. split; [reflexivity|now split].
    + injection Hs as <-. exact (IH _ _ _ Hnp Hne Hrun Hfr Hty Hnd Hids).
Qed.

(* ================================================================ 3o. F3, the headline against bspec_to_dom *)
Lemma run_steps_lab_inv d p : dp_lim p = None -> forall items st st', forallb ritem_ok items = true ->
  run_steps d p st items = Some st' -> BinFinish.lab_inv st -> BinFinish.lab_inv st'.
Proof.
  intros Hl. induction items as [|it r IH]; intros st st' Hok Hrun Hlab; [now injection Hrun as <-|].
  cbn [forallb] in Hok. apply andb_true_iff in Hok. destruct Hok as [Hit Hok]. cbn [run_steps] in Hrun.
  destruct (rstep d p st it) as [st1|] eqn:Hs; [|discriminate]. exact (IH st1 st' Hok Hrun (rstep_lab_inv d p st it st1 Hl Hit Hs Hlab)).
Qed.

Definition sstr_total (items : list bs_item) : nat := length (concat (bs_sstrs items)).
Lemma run_sstr_len d p : forall items st st', forallb (fun it => negb (is_prop it)) items = true ->
  run_steps d p st items = Some st' -> length (ds_sstr st') = (length (ds_sstr st) + sstr_total items)%nat.
Proof.
  unfold sstr_total. induction items as [|it r IH]; intros st st' Hnp Hrun.
  - injection Hrun as <-. cbn. lia.
  - cbn [forallb] in Hnp. apply andb_true_iff in Hnp. destruct Hnp as [Hp Hnp]. cbn [run_steps] in Hrun.
    destruct (rstep d p st it) as [st1|] eqn:Hs; [|discriminate]. rewrite (IH st1 st' Hnp Hrun).
    destruct it as [l|l|c|pr|rows| |n dta]; try discriminate; cbn [rstep] in Hs; unfold bs_sstrs; cbn [flat_map app concat]; fold (bs_sstrs r).
    + destruct (forallb _ l); [|discriminate]. now injection Hs as <-.
    + injection Hs as <-. cbn [ds_sstr]. rewrite !app_length, map_length. lia.
    + destruct (utf8_valid (cls_name c)); [|discriminate]. injection Hs as <-. unfold BinChunkFacts.inst_register.
      destruct (BinChunkFacts.fresh_insts _ _ _ _). reflexivity.
    + destruct (prnt_links _ _ rows) as [[? ?]| | |]; try discriminate. now injection Hs as <-.
    + now injection Hs as <-.
Qed.

Lemma ai_find sstr lo ps cs cl k c : NoDup (all_refs cs) -> In cl cs -> nth_error (cls_refs cl) k = Some c ->
  find_Z c (BinSpecAgree.ainsts sstr lo ps cs) = Some (cls_name cl, BinSpecAgree.row k (BinSpecAgree.ccols sstr lo (cls_id cl) ps)).
Proof.
  intros Hnd Hcl Hk. apply BinSpecAgree.find_Z_in; [now rewrite BinSpecAgree.ainsts_keys|].
  unfold BinSpecAgree.ainsts. apply in_flat_map. exists cl. split; [exact Hcl|].
  exact (BinSpecAgree.cinsts_nth lo _ _ _ 0%nat k c Hk).
Qed.

(* name and properties of the decoded instance that corresponds to a node: the fold of [pstep] over the PROP chunks in chunk
   order, from (class name, no property); the property table is `collect_props` of that list, up to the UniqueId collision rule *)
Definition node_rec (d : db) (f : bs_file) (p : dec_params) (st : dstate) (props : list bs_prop) (n : bs_node) (i : inst) : Prop :=
  exists cl k c pp, In (c, pp) (bf_prnt f) /\ n = mk_node (f_kids f) (f_ai f) (c, pp) /\ In cl (bf_classes f) /\
    nth_error (cls_refs cl) k = Some c /\
    let R := fold_left (pstepD d (st_sstr st) (st_label st) cl k) props (cls_name cl, []) in
    i_name i = fst R /\ BinRoundTrip.uid_norm p (collect_props (snd R)) (i_props i).

Theorem reader_decodes_spec_file_dom d p u order cmps f P1 P2 :
  dp_lim p = None -> file_dom_ok f = true ->
  gframes_rt p cmps (List.map (bs_enc_item rdA u) (bs_items_of order f)) ->
  flat_map (item_of_key f) order = P1 ++ P2 ->
  forallb (fun it => negb (is_prop it)) P1 = true -> forallb (fun it => negb (is_reg it)) P2 = true ->
  Permutation (bs_insts P1) (bf_classes f) -> bs_prnts (P1 ++ P2) = [bf_prnt f] ->
  scan d [] 0 (P1 ++ P2) = true -> inst_prnt_ok false (P1 ++ P2) = true ->
  scan d (bs_insts P1) (sstr_total P1) P2 = true -> forallb (prop_nonmig d (bs_insts P1)) (bs_props P2) = true ->
  exists st out nodes,
    run_items d p dstate0 (bs_items_of order f) = Some st /\
    decode_file d p (bs_enc_header (bs_header_of f) ++ gframe_all cmps (List.map (bs_enc_item rdA u) (bs_items_of order f))) = Ok out /\
    bspec_to_dom f = Ok nodes /\
    same_dom (phi_of (f_kids f) (D_of st)) (node_rec d f p st (bs_props P2)) nodes out.
Proof.
  intros Hl Hfok Hrt Hitems Hnp Hnr Hperm Hprnt Hscan Hipo Hscan2 Hunk.
  pose proof (file_dom_ok_sound f Hfok) as HF. destruct HF as [Hwf Hids Hrefs Hkids Hpk Hpar Hcf Htot].
  assert (Hi2 : bs_insts P2 = []).
  { clear - Hnr. induction P2 as [|x l IH]; [reflexivity|]. cbn [forallb] in Hnr. apply andb_true_iff in Hnr. destruct Hnr as [Hx Hl].
    unfold bs_insts. cbn [flat_map]. fold (bs_insts l). rewrite (IH Hl). now destruct x. }
  assert (Hins : bs_insts (P1 ++ P2) = bs_insts P1) by (unfold bs_insts; rewrite flat_map_app; fold (bs_insts P1) (bs_insts P2); now rewrite Hi2, app_nil_r).
  assert (Hpr : Permutation (all_refs (bs_insts P1)) (all_refs (bf_classes f))) by (unfold all_refs; now apply Permutation_flat_map).
  assert (Hnd1 : NoDup (all_refs (bs_insts P1))) by (eapply Permutation_NoDup; [symmetry; exact Hpr|exact Hrefs]).
  assert (Hid1 : NoDup (List.map cls_id (bs_insts P1))) by (eapply Permutation_NoDup; [symmetry; apply Permutation_map; exact Hperm|exact Hids]).
  destruct (forest_of_describes (bf_prnt f) Hkids Hcf) as (Hdesc & HndF & HpermF).
  assert (Hincl : incl (BinFinish.zfrefs (forest_of (bf_prnt f))) (all_refs (bs_insts (flat_map (item_of_key f) order)))).
  { rewrite Hitems, Hins. intros z Hz. eapply Permutation_in; [symmetry; exact Hpr|]. eapply Permutation_in; [exact Hpk|].
    eapply Permutation_in; [exact HpermF|exact Hz]. }
  destruct (reader_accepts_spec_file d p u order cmps f Hl Hwf Hrt) as (st & Hrun & _);
    [now rewrite Hitems|now rewrite Hitems|now rewrite Hitems, Hins|].
  destruct (reader_rebuilds_spec_forest d p u order cmps f st (forest_of (bf_prnt f)) Hl Hwf Hrt Hrun) as (out & Hdec & Hrec & HD);
    [now rewrite Hitems|now rewrite Hitems|now rewrite Hitems, Hins|exact Hdesc|exact HndF|exact Hincl|].
  rewrite Hitems, Hins in HD.
  (* the run, split at the phases *)
  pose proof Hrun as Hrs. unfold bs_items_of in Hrs. rewrite (run_items_steps d p _ dstate0 (items_no_end f order)), Hitems, run_steps_app in Hrs.
  destruct (run_steps d p dstate0 P1) as [st1|] eqn:Hr1; [|discriminate].
  pose proof (items_ok_of_wf f Hwf order) as Hok. unfold bs_items_of in Hok. rewrite forallb_app, Hitems, forallb_app in Hok.
  apply andb_true_iff in Hok. destruct Hok as [Hok _]. apply andb_true_iff in Hok. destruct Hok as [Hok1 Hok2].
  assert (Hne1 : forallb (fun it => negb (is_end it)) P1 = true).
  { pose proof (items_no_end f order) as H. rewrite Hitems, forallb_app in H. apply andb_true_iff in H. now destruct H. }
  destruct (phase1_run d p P1 dstate0 st1 [] Hnp Hne1 Hr1) as [Hfr Hty]; [intros cl r []|intros c []|exact Hnd1|exact Hid1|]. cbn [app] in Hfr, Hty.
  assert (Hreg1 : reg_inv st1 (bs_insts P1)) by (intros cl r Hcl Hr; destruct (Hfr cl r Hcl Hr) as (i & -> & _); discriminate).
  assert (Hlen1 : length (ds_sstr st1) = sstr_total P1) by (rewrite (run_sstr_len d p P1 dstate0 st1 Hnp Hr1); reflexivity).
  rewrite <- Hlen1 in Hscan2.
  destruct (phase2_run d p (bs_insts P1) Hl Hnd1 Hid1 P2 st1 st Hok2 Hnr Hrs Hty Hreg1 Hscan2 Hunk) as (L2 & S2 & P2f).
  assert (Hlab : BinFinish.lab_inv st).
  { apply (run_steps_lab_inv d p Hl (P1 ++ P2) dstate0 st); [rewrite forallb_app; now rewrite Hok1, Hok2| |exact BinFinish.lab_inv0].
    rewrite run_steps_app, Hr1. exact Hrs. }
  assert (Hkreg : forall c, In c (f_kids f) -> exists cl k, In cl (bs_insts P1) /\ In cl (bf_classes f) /\ nth_error (cls_refs cl) k = Some c).
  { intros c Hc. assert (Hc' : In c (all_refs (bs_insts P1))) by (eapply Permutation_in; [symmetry; exact Hpr|]; eapply Permutation_in; [exact Hpk|exact Hc]).
    unfold all_refs in Hc'. apply in_flat_map in Hc'. destruct Hc' as (cl & Hcl & Hr). destruct (In_nth_error _ _ Hr) as [k Hk].
    exists cl, k. split; [exact Hcl|]. split; [eapply Permutation_in; [exact Hperm|exact Hcl]|exact Hk]. }
  destruct (BinFinish.labels_ok_hyp _ _ (f_kids f) Hlab Hkids) as [_ Hnz].
  { intros c Hc. destruct (Hkreg c Hc) as (cl & k & Hcl & _ & Hk). exact (proj1 (HD cl c Hcl (nth_error_In _ _ Hk))). }
  exists st, out, (List.map (mk_node (f_kids f) (f_ai f)) (bf_prnt f)).
  split; [exact Hrun|]. split; [exact Hdec|]. split; [apply spec_dom_closed; now constructor|].
  apply (dom_relation (f_kids f) (D_of st) Hkids (f_ai f) (bf_prnt f) eq_refl) with (p := p); try assumption.
  - intros c pp Hin. destruct (Hkreg c (in_map fst _ _ Hin)) as (cl & k & _ & Hcl & Hk). unfold f_ai. now rewrite (ai_find _ _ _ _ cl k c Hrefs Hcl Hk).
  - intros c pp Hin. destruct (Hkreg c (in_map fst _ _ Hin)) as (cl & k & Hcl1 & Hcl & Hk). unfold mk_node, f_ai. cbn [fst snd].
    rewrite (ai_find _ _ _ _ cl k c Hrefs Hcl Hk). cbn [bn_class]. symmetry. exact (proj1 (proj2 (HD cl c Hcl1 (nth_error_In _ _ Hk)))).
  - intros c pp i Hin Hio Hir Hnm Hun. destruct (Hkreg c (in_map fst _ _ Hin)) as (cl & k & Hcl1 & Hcl & Hk).
    exists cl, k, c, pp. split; [exact Hin|]. split; [reflexivity|]. split; [exact Hcl|]. split; [exact Hk|]. cbv zeta.
    pose proof (P2f cl k c Hcl1 Hk) as Hrecd. destruct (Hfr cl c Hcl1 (nth_error_In _ _ Hk)) as (i0 & Hi0 & Hn0 & Hp0).
    rewrite (D_of_find st1 c i0 Hi0) in Hrecd. unfold rec_of at 2 in Hrecd. rewrite Hn0, Hp0 in Hrecd.
    assert (Hss : st_sstr st = st_sstr st1) by (unfold st_sstr; now rewrite S2).
    rewrite Hss, (fold_pstepD_ext d _ _ _ cl k L2), <- Hrecd. unfold rec_of. cbn [fst snd]. split; [exact Hnm|exact Hun].
Qed.

(* ---- F4 as a theorem: two accepted chunk orders (each with its own per-chunk compression, rotation encoding, INST order — hence its
   own labelling) of the same file decode to DOMs that are both [same_dom] to the ONE document DOM: same instances, classes,
   parent/child structure and order; names and property lists as the folds over the PROP chunks in the respective chunk order *)
Theorem chunk_order_independent d p f u1 order1 cmps1 P1 P2 u2 order2 cmps2 P1' P2' :
  dp_lim p = None -> file_dom_ok f = true ->
  gframes_rt p cmps1 (List.map (bs_enc_item rdA u1) (bs_items_of order1 f)) ->
  gframes_rt p cmps2 (List.map (bs_enc_item rdA u2) (bs_items_of order2 f)) ->
  flat_map (item_of_key f) order1 = P1 ++ P2 -> flat_map (item_of_key f) order2 = P1' ++ P2' ->
  forallb (fun it => negb (is_prop it)) P1 = true -> forallb (fun it => negb (is_reg it)) P2 = true ->
  forallb (fun it => negb (is_prop it)) P1' = true -> forallb (fun it => negb (is_reg it)) P2' = true ->
  Permutation (bs_insts P1) (bf_classes f) -> bs_prnts (P1 ++ P2) = [bf_prnt f] ->
  Permutation (bs_insts P1') (bf_classes f) -> bs_prnts (P1' ++ P2') = [bf_prnt f] ->
  scan d [] 0 (P1 ++ P2) = true -> inst_prnt_ok false (P1 ++ P2) = true ->
  scan d [] 0 (P1' ++ P2') = true -> inst_prnt_ok false (P1' ++ P2') = true ->
  scan d (bs_insts P1) (sstr_total P1) P2 = true -> forallb (prop_nonmig d (bs_insts P1)) (bs_props P2) = true ->
  scan d (bs_insts P1') (sstr_total P1') P2' = true -> forallb (prop_nonmig d (bs_insts P1')) (bs_props P2') = true ->
  exists nodes st1 out1 st2 out2,
    bspec_to_dom f = Ok nodes /\
    decode_file d p (bs_enc_header (bs_header_of f) ++ gframe_all cmps1 (List.map (bs_enc_item rdA u1) (bs_items_of order1 f))) = Ok out1 /\
    decode_file d p (bs_enc_header (bs_header_of f) ++ gframe_all cmps2 (List.map (bs_enc_item rdA u2) (bs_items_of order2 f))) = Ok out2 /\
    same_dom (phi_of (f_kids f) (D_of st1)) (node_rec d f p st1 (bs_props P2)) nodes out1 /\
    same_dom (phi_of (f_kids f) (D_of st2)) (node_rec d f p st2 (bs_props P2')) nodes out2.
Proof.
  intros Hl Hf R1 R2 I1 I2 A1 A2 B1 B2 C1 C2 D1 D2 E1 E2 F1 F2 G1 G2 H1 H2.
  destruct (reader_decodes_spec_file_dom d p u1 order1 cmps1 f P1 P2 Hl Hf R1 I1 A1 A2 C1 C2 E1 E2 G1 G2) as (st1 & out1 & n1 & _ & X1 & Y1 & Z1).
  destruct (reader_decodes_spec_file_dom d p u2 order2 cmps2 f P1' P2' Hl Hf R2 I2 B1 B2 D1 D2 F1 F2 H1 H2) as (st2 & out2 & n2 & _ & X2 & Y2 & Z2).
  rewrite Y1 in Y2. injection Y2 as <-. exists n1, st1, out1, st2, out2. auto.
Qed.

(* ================================================================ 3q. the PROP fold = the node's own name and properties *)
(* ---- association lists with pairwise distinct keys *)
Lemma beq_refl a : bytes_eqb a a = true. Proof. apply name_eqb_refl. Qed.
Lemma beq_neq a b : a <> b -> bytes_eqb a b = false.
Proof. intros H. destruct (bytes_eqb a b) eqn:E; [|reflexivity]. apply BinSpecFacts.bytes_eqb_eq in E. contradiction. Qed.

Lemma bfind_bremove' {V} k k' (m : list (bytes * V)) : bfind k (bremove k' m) = if bytes_eqb k k' then None else bfind k m.
Proof.
  induction m as [|[k1 v1] m IH]; cbn [bremove bfind]; [now destruct (bytes_eqb k k')|].
  destruct (bytes_eqb k' k1) eqn:E1.
  - apply BinSpecFacts.bytes_eqb_eq in E1. subst k1. rewrite IH. destruct (bytes_eqb k k'); reflexivity.
  - cbn [bfind]. rewrite IH. destruct (bytes_eqb k k') eqn:E; [|reflexivity].
    apply BinSpecFacts.bytes_eqb_eq in E. subst k'. now rewrite E1.
Qed.
Lemma bfind_bupd' {V} k k' (v : V) m : bfind k (bupd k' v m) = if bytes_eqb k k' then Some v else bfind k m.
Proof. unfold bupd. cbn [bfind]. destruct (bytes_eqb k k') eqn:E; [reflexivity|]. now rewrite bfind_bremove', E. Qed.
Lemma collect_props_snoc' l k v : collect_props (l ++ [(k, v)]) = bupd k v (collect_props l).
Proof. unfold collect_props. rewrite fold_left_app. reflexivity. Qed.

Lemma bfind_notin {V} k (l : list (bytes * V)) : ~ In k (List.map fst l) -> bfind k l = None.
Proof.
  induction l as [|[k1 v1] l IH]; intros H; [reflexivity|]. cbn [bfind]. cbn [List.map fst] in H.
  rewrite beq_neq by (intros ->; apply H; now left). apply IH. intros Hi. apply H. now right.
Qed.
Lemma bfind_app {V} k (a b : list (bytes * V)) : bfind k (a ++ b) = match bfind k a with Some v => Some v | None => bfind k b end.
Proof. induction a as [|[k1 v1] a IH]; [reflexivity|]. cbn [app bfind]. destruct (bytes_eqb k k1); [reflexivity|exact IH]. Qed.

(* the table the reader builds from a property list with pairwise distinct names is that list *)
Lemma bfind_collect_nodup l : NoDup (List.map fst l) -> forall k, bfind k (collect_props l) = bfind k l.
Proof.
  induction l as [|[k1 v1] l IH] using rev_ind; intros Hnd k; [reflexivity|].
  rewrite map_app in Hnd. cbn [List.map fst] in Hnd. rewrite collect_props_snoc', bfind_bupd', bfind_app. cbn [bfind].
  rewrite IH by (now apply BinFinish.NoDup_app_left in Hnd). destruct (bytes_eqb k k1) eqn:E; [|now destruct (bfind k l)].
  apply BinSpecFacts.bytes_eqb_eq in E. subst k1. rewrite bfind_notin; [reflexivity|].
  intros Hin. eapply BinFinish.NoDup_app_not; [exact Hnd|exact Hin|now left].
Qed.

Lemma bfind_in_nodup {V} (l : list (bytes * V)) k v : NoDup (List.map fst l) -> In (k, v) l -> bfind k l = Some v.
Proof.
  induction l as [|[k1 v1] l IH]; intros Hnd Hin; [destruct Hin|]. cbn [List.map fst] in Hnd. apply NoDup_cons_iff in Hnd. destruct Hnd as [Hn Hnd].
  cbn [bfind]. destruct Hin as [E|Hin].
  - injection E as -> ->. now rewrite beq_refl.
  - rewrite beq_neq; [now apply IH|]. intros ->. apply Hn. apply in_map_iff. exists (k1, v). now split.
Qed.
Lemma bfind_some_in {V} (l : list (bytes * V)) k v : bfind k l = Some v -> In (k, v) l.
Proof.
  induction l as [|[k1 v1] l IH]; [discriminate|]. cbn [bfind]. destruct (bytes_eqb k k1) eqn:E.
  - intros [= ->]. apply BinSpecFacts.bytes_eqb_eq in E. subst. now left.
  - intros H. right. now apply IH.
Qed.
(* ... and does not depend on the order of the list *)
Lemma bfind_perm {V} (a b : list (bytes * V)) : NoDup (List.map fst a) -> Permutation a b -> forall k, bfind k a = bfind k b.
Proof.
  intros Hnd Hp k. assert (Hndb : NoDup (List.map fst b)) by (eapply Permutation_NoDup; [apply Permutation_map; exact Hp|exact Hnd]).
  destruct (bfind k a) as [v|] eqn:Ea.
  - symmetry. apply bfind_in_nodup; [exact Hndb|]. eapply Permutation_in; [exact Hp|]. now apply bfind_some_in.
  - destruct (bfind k b) as [v|] eqn:Eb; [|reflexivity]. apply bfind_some_in in Eb.
    rewrite (bfind_in_nodup a k v Hnd) in Ea; [discriminate|]. eapply Permutation_in; [symmetry; exact Hp|exact Eb].
Qed.
Lemma bfind_map_snd {V W} (T : V -> W) (l : list (bytes * V)) k :
  bfind k (List.map (fun kv => (fst kv, T (snd kv))) l) = option_map T (bfind k l).
Proof. induction l as [|[k1 v1] l IH]; [reflexivity|]. cbn [List.map bfind fst snd]. destruct (bytes_eqb k k1); [reflexivity|exact IH]. Qed.

(* ---- values: relabelling of referents, and the default canonical type *)
Definition relabel (phi : N -> N) (v : value) : value :=
  match v with
  | VRef l => VRef (phi l)
  | VContent (CObject l) => VContent (CObject (phi l))
  | _ => v
  end.

Lemma retype_relabel cty phi v : retype cty (relabel phi v) = relabel phi (retype cty v).
Proof.
  destruct v; cbn [relabel retype]; repeat match goal with |- context [N.eqb ?a ?b] => destruct (N.eqb a b) end;
    try reflexivity; match goal with c : content |- _ => destruct c; reflexivity end.
Qed.

(* for the canonical type the reader gives a property it does not know, [retype] only turns String values into BinaryString *)
Lemma retype_default_col sstr lo col ty vals : wire_of_id (bs_col_type col) = Some ty -> bs_col_values sstr lo col = Ok vals ->
  List.map (retype (to_default_rbx_type ty)) vals = List.map (retype VT_BinaryString) vals.
Proof.
  intros Hw Hv. destruct col; vm_compute in Hw; try discriminate; injection Hw as <-;
    try (cbn [bs_col_values] in Hv; injection Hv as <-; rewrite !map_map; apply map_ext; intros x;
         repeat match goal with y : (_ * _)%type |- _ => destruct y end; reflexivity).
  (* SharedString *)
  revert vals Hv. cbn [bs_col_values]. induction l as [|i r IH]; intros vals; [now intros [= <-]|].
  destruct (if N.ltb i (N.of_nat (length sstr)) then nth_error sstr (N.to_nat i) else None) as [e|]; [|discriminate].
  match goal with |- (rest <- ?G ;; _) = _ -> _ => destruct G as [rs| | |] eqn:E end; cbn [rbind]; try discriminate.
  intros [= <-]. cbn [List.map]. f_equal. now apply IH.
Qed.

(* the reader's column values = the document's, relabelled *)
Lemma bs_col_values_relabel sstr sstr' lo phi col vals :
  List.map snd sstr' = List.map snd sstr ->
  bs_col_values sstr lo col = Ok vals ->
  bs_col_values sstr' (fun z => phi (lo z)) col = Ok (List.map (relabel phi) vals).
Proof.
  intros Hs Hv. destruct col; try (cbn [bs_col_values] in Hv |- *; injection Hv as <-; rewrite map_map; f_equal; apply map_ext; intros x;
    repeat match goal with y : (_ * _)%type |- _ => destruct y end; try reflexivity; destruct x; reflexivity).
  - (* SharedString *)
    revert vals Hv. cbn [bs_col_values].
    assert (Hlen : length sstr' = length sstr) by (rewrite <- (map_length snd sstr'), Hs; apply map_length).
    induction l as [|i r IH]; intros vals; [now intros [= <-]|]. rewrite Hlen.
    destruct (N.ltb i (N.of_nat (length sstr))); [|discriminate].
    assert (Hn : option_map snd (nth_error sstr' (N.to_nat i)) = option_map snd (nth_error sstr (N.to_nat i))) by (rewrite <- !nth_error_map; now rewrite Hs).
    destruct (nth_error sstr (N.to_nat i)) as [e|]; [|discriminate]. destruct (nth_error sstr' (N.to_nat i)) as [e'|]; [|discriminate].
    cbn [option_map] in Hn. injection Hn as Hn.
    match goal with |- (rest <- ?G ;; _) = _ -> _ => destruct G as [rs| | |] eqn:E end; cbn [rbind]; try discriminate.
    intros [= <-]. rewrite Hlen in IH. rewrite (IH rs eq_refl). cbn [rbind List.map relabel]. now rewrite Hn.
Qed.

Lemma last_indep {A} : forall (l : list A) y d d', last (y :: l) d = last (y :: l) d'.
Proof. induction l as [|z l IH]; intros y d d'; [reflexivity|]. cbn [last] in *. apply (IH z). Qed.
Lemma last_cons {A} (x : A) l d : last (x :: l) d = last l x.
Proof. destruct l as [|y l]; [reflexivity|]. change (last (x :: y :: l) d) with (last (y :: l) d). apply last_indep. Qed.

(* ---- the fold, taken apart: the names and the (name, value) pairs each PROP chunk contributes to the k-th instance of [cl] *)
Section FoldShape.
Variable cl : bs_class.
Variable k : nat.
Definition psel (pr : bs_prop) : bool := N.eqb (bp_class pr) (cls_id cl).
Definition is_NAME (pr : bs_prop) : bool := bytes_eqb (bp_name pr) NAME.

Definition rprop (sstr : list (bytes * bytes)) (lo : Z -> N) (pr : bs_prop) : list (bytes * value) :=
  if negb (psel pr) then [] else
  match bp_body pr with
  | BValues col =>
    match wire_of_id (bs_col_type col) with
    | Some ty => if is_NAME pr then [] else
                 match bs_col_values sstr lo col with
                 | Ok vals => match nth_error vals k with Some v => [(bp_name pr, retype (to_default_rbx_type ty) v)] | None => [] end
                 | _ => [] end
    | None => []
    end
  | _ => []
  end.
Definition rname (pr : bs_prop) : list bytes :=
  if negb (psel pr) then [] else
  match bp_body pr with
  | BValues (KString names) =>
    if is_NAME pr then match nth_error names k with Some s0 => [BinValuesFacts2.str_norm s0] | None => [] end else []
  | _ => []
  end.

Lemma fold_pstep_shape sstr lo : forall l acc,
  fold_left (pstep sstr lo cl k) l acc = (last (flat_map rname l) (fst acc), snd acc ++ flat_map (rprop sstr lo) l).
Proof.
  induction l as [|pr l IH]; intros [nm ps]; [cbn; now rewrite app_nil_r|].
  cbn [fold_left flat_map]. rewrite IH. unfold pstep, rname, rprop, psel, is_NAME.
  destruct (negb (N.eqb (bp_class pr) (cls_id cl))); [reflexivity|].
  destruct (bp_body pr) as [col| |]; try reflexivity.
  destruct (wire_of_id (bs_col_type col)) as [ty|] eqn:Hw.
  2:{ destruct col; try reflexivity. vm_compute in Hw. discriminate. }
  destruct (bytes_eqb (bp_name pr) NAME).
  - destruct col; try reflexivity. destruct (nth_error l0 k) as [s0|]; [|reflexivity]. cbn [fst snd app].
    f_equal. cbn [app]. symmetry. apply last_cons.
  - assert (Hn : (match col with KString _ => @nil bytes | _ => [] end) = []) by (now destruct col).
    replace (match col with KString names => [] | _ => [] end) with (@nil bytes) by (now destruct col). cbn [app].
    destruct (bs_col_values sstr lo col) as [vals| | |]; try reflexivity.
    destruct (nth_error vals k) as [v|]; [|reflexivity]. cbn [fst snd]. now rewrite <- app_assoc.
Qed.
End FoldShape.

(* ---- the document's side: the properties and the name of the node, taken apart the same way *)
Lemma filter_flat_map {A B} (f : B -> bool) (g : A -> list B) l : filter f (flat_map g l) = flat_map (fun x => filter f (g x)) l.
Proof.
  induction l as [|x l IH]; [reflexivity|]. cbn [flat_map]. rewrite <- IH. clear IH.
  induction (g x) as [|y r IHr]; [reflexivity|]. cbn [app filter]. destruct (f y); cbn [app]; now rewrite IHr.
Qed.
Lemma map_flat_map' {A B C} (f : B -> C) (g : A -> list B) l : List.map f (flat_map g l) = flat_map (fun x => List.map f (g x)) l.
Proof. induction l as [|x l IH]; [reflexivity|]. cbn [flat_map]. now rewrite map_app, IH. Qed.
Lemma flat_map_ext_in {A B} (f g : A -> list B) l : (forall x, In x l -> f x = g x) -> flat_map f l = flat_map g l.
Proof. induction l as [|x l IH]; intros H; [reflexivity|]. cbn [flat_map]. rewrite (H x (or_introl eq_refl)), IH; [reflexivity|]. intros y Hy. apply H. now right. Qed.

Definition name_strs (l : list (bytes * value)) : list bytes :=
  flat_map (fun kv => if bytes_eqb (fst kv) NAME_PROP_NAME then match snd kv with VString s0 => [s0] | _ => [] end else []) l.
Lemma take_name_fst l : fst (take_name l) = hd_error (name_strs l).
Proof.
  induction l as [|[k0 v] l IH]; [reflexivity|]. cbn [take_name name_strs flat_map fst snd]. fold (name_strs l).
  destruct (take_name l) as [nm rest]. cbn [fst] in IH. destruct (bytes_eqb k0 NAME_PROP_NAME); [|exact IH].
  destruct v; try exact IH. reflexivity.
Qed.

Definition has_vals (pr : bs_prop) : bool := match bp_body pr with BValues _ => true | _ => false end.

Section SpecShape.
Variable cl : bs_class.
Variable k : nat.
Variable sstr : list (bytes * bytes).
Variable lo : Z -> N.

Definition sprop (pr : bs_prop) : list (bytes * value) :=
  if negb (psel cl pr) then [] else
  match BinSpecAgree.body_values sstr lo (bp_body pr) with
  | Some vs => match nth_error vs k with Some v => [(bp_name pr, v)] | None => [] end
  | None => []
  end.

Lemma row_ccols ps : BinSpecAgree.row k (BinSpecAgree.ccols sstr lo (cls_id cl) ps) = flat_map sprop ps.
Proof.
  unfold BinSpecAgree.row, BinSpecAgree.ccols. rewrite BinSpecAgree.flat_map_flat_map. apply flat_map_ext_in. intros pr _.
  unfold sprop, psel. destruct (N.eqb (bp_class pr) (cls_id cl)); [|reflexivity]. cbn [negb].
  destruct (BinSpecAgree.body_values sstr lo (bp_body pr)) as [vs|]; [|reflexivity]. cbn [flat_map fst snd]. now rewrite app_nil_r.
Qed.

(* what the file must satisfy, property by property, for the reader to see what the document says (each clause has its witness:
   bytecode_column_skipped, name_prop_not_string_refuted, string_not_utf8_refuted) *)
Definition prop_file_ok (pr : bs_prop) : Prop :=
  match bp_body pr with
  | BValues col => wire_of_id (bs_col_type col) <> None /\ (exists vals, bs_col_values sstr lo col = Ok vals) /\
                   (is_NAME pr = true -> exists names, col = KString names /\ forallb utf8_valid names = true)
  | _ => True
  end.

Lemma rname_sname pr : prop_file_ok pr -> rname cl k pr = name_strs (sprop pr).
Proof.
  unfold prop_file_ok, rname, sprop. intros H. destruct (negb (psel cl pr)); [reflexivity|].
  destruct (bp_body pr) as [col| |]; try reflexivity. destruct H as (_ & (vals & Hv) & Hn). cbn [BinSpecAgree.body_values]. rewrite Hv.
  unfold is_NAME in *. destruct (bytes_eqb (bp_name pr) NAME) eqn:E.
  - destruct (Hn eq_refl) as (names & -> & Hu). cbn [bs_col_values] in Hv. injection Hv as <-. rewrite nth_error_map.
    destruct (nth_error names k) as [s0|] eqn:Es; [|reflexivity]. cbn [option_map name_strs flat_map fst snd].
    change NAME_PROP_NAME with NAME. rewrite E. cbn [app]. f_equal. apply BinValuesFacts2.str_norm_valid.
    exact (fa_in _ _ Hu s0 (nth_error_In _ _ Es)).
  - replace (match col with KString names => [] | _ => [] end) with (@nil bytes) by (now destruct col).
    destruct (nth_error vals k); [|reflexivity]. cbn [name_strs flat_map fst snd]. change NAME_PROP_NAME with NAME. now rewrite E.
Qed.

Definition sprop' (pr : bs_prop) : list (bytes * value) := filter (fun kv => negb (BinSpecAgree.is_name_cell kv)) (sprop pr).

Lemma map_eq_nth {A B} (f g : A -> B) l j a : List.map f l = List.map g l -> nth_error l j = Some a -> f a = g a.
Proof.
  revert j. induction l as [|x l IH]; intros [|j] H E; try discriminate; cbn [List.map nth_error] in *; injection H as H1 H2.
  - now injection E as <-.
  - exact (IH j H2 E).
Qed.

Variable sstr' : list (bytes * bytes).
Variable phi : N -> N.
Hypothesis Hss : List.map snd sstr' = List.map snd sstr.

Definition Tval (v : value) : value := relabel phi (retype VT_BinaryString v).

Lemma rprop_sprop pr : prop_file_ok pr ->
  rprop cl k sstr' (fun z => phi (lo z)) pr = List.map (fun kv => (fst kv, Tval (snd kv))) (sprop' pr).
Proof.
  unfold prop_file_ok, rprop, sprop', sprop. intros H. destruct (negb (psel cl pr)); [reflexivity|].
  destruct (bp_body pr) as [col| |]; try reflexivity. destruct H as (Hw & (vals & Hv) & Hn). cbn [BinSpecAgree.body_values]. rewrite Hv.
  destruct (wire_of_id (bs_col_type col)) as [ty|] eqn:Ew; [|contradiction].
  rewrite (bs_col_values_relabel sstr sstr' lo phi col vals Hss Hv), nth_error_map.
  unfold is_NAME in *. destruct (bytes_eqb (bp_name pr) NAME) eqn:E.
  - destruct (Hn eq_refl) as (names & -> & _). cbn [bs_col_values] in Hv. injection Hv as <-. rewrite nth_error_map.
    destruct (nth_error names k); [|reflexivity]. cbn [option_map filter]. unfold BinSpecAgree.is_name_cell. cbn [fst snd]. change NAME_PROP_NAME with NAME. now rewrite E.
  - destruct (nth_error vals k) as [v|] eqn:Ev; [|reflexivity]. cbn [option_map filter]. unfold BinSpecAgree.is_name_cell. cbn [fst snd].
    change NAME_PROP_NAME with NAME. rewrite E. cbn [andb negb List.map fst snd]. unfold Tval. rewrite retype_relabel.
    now rewrite (map_eq_nth _ _ vals k v (retype_default_col sstr lo col ty vals Ew Hv) Ev).
Qed.
End SpecShape.

(* ---- at most one value-carrying PROP per (class, property name) *)
Section Uniq.
Variable cl : bs_class.
Definition pq (pr : bs_prop) : bool := psel cl pr && has_vals pr.

Lemma keys_in {V} (g : bs_prop -> list (bytes * V)) :
  (forall pr, g pr = [] \/ (pq pr = true /\ exists v, g pr = [(bp_name pr, v)])) ->
  forall l key, In key (List.map fst (flat_map g l)) -> In key (List.map bp_name (filter pq l)).
Proof.
  intros G. induction l as [|pr l IH]; intros key Hin; [destruct Hin|]. cbn [flat_map] in Hin. rewrite map_app in Hin. cbn [filter].
  apply in_app_or in Hin. destruct Hin as [Hin|Hin].
  - destruct (G pr) as [E|(Hq & v & E)]; rewrite E in Hin; [destruct Hin|]. rewrite Hq. destruct Hin as [<-|[]]. now left.
  - destruct (pq pr); [right|]; now apply IH.
Qed.

Lemma keys_nodup {V} (g : bs_prop -> list (bytes * V)) :
  (forall pr, g pr = [] \/ (pq pr = true /\ exists v, g pr = [(bp_name pr, v)])) ->
  forall l, NoDup (List.map bp_name (filter pq l)) -> NoDup (List.map fst (flat_map g l)).
Proof.
  intros G. induction l as [|pr l IH]; intros Hnd; [constructor|]. cbn [flat_map filter] in *. rewrite map_app.
  destruct (G pr) as [E|(Hq & v & E)]; rewrite E; cbn [List.map app fst].
  - apply IH. destruct (pq pr); [now apply NoDup_cons_iff in Hnd|exact Hnd].
  - rewrite Hq in Hnd. cbn [List.map] in Hnd. apply NoDup_cons_iff in Hnd. destruct Hnd as [Hn Hnd]. constructor; [|now apply IH].
    intros Hin. apply Hn. now apply (keys_in g G).
Qed.

Lemma names_len1 (g : bs_prop -> list bytes) :
  (forall pr, g pr = [] \/ (pq pr = true /\ is_NAME pr = true /\ exists s0, g pr = [s0])) ->
  forall l, NoDup (List.map bp_name (filter pq l)) -> (length (flat_map g l) <= 1)%nat.
Proof.
  intros G. induction l as [|pr l IH]; intros Hnd; [cbn; lia|]. cbn [flat_map filter] in *. rewrite app_length.
  destruct (G pr) as [E|(Hq & Hn & s0 & E)]; rewrite E; cbn [length].
  - apply IH. destruct (pq pr); [now apply NoDup_cons_iff in Hnd|exact Hnd].
  - rewrite Hq in Hnd. cbn [List.map] in Hnd. apply NoDup_cons_iff in Hnd. destruct Hnd as [Hni _].
    assert (Hz : flat_map g l = []).
    { clear IH. induction l as [|pr' l IHl]; [reflexivity|]. cbn [flat_map filter] in *.
      destruct (G pr') as [E'|(Hq' & Hn' & s1 & E')].
      - rewrite E'. cbn [app]. apply IHl. intros Hin. apply Hni. destruct (pq pr'); [now right|exact Hin].
      - exfalso. apply Hni. rewrite Hq'. left. unfold is_NAME in *. apply BinSpecFacts.bytes_eqb_eq in Hn, Hn'. congruence. }
    rewrite Hz. cbn. lia.
Qed.
End Uniq.

Lemma perm_len1 {A} (a b : list A) : Permutation a b -> (length b <= 1)%nat -> a = b.
Proof.
  intros Hp Hl. destruct b as [|x [|y b]]; [| |cbn in Hl; lia].
  - apply Permutation_sym, Permutation_nil in Hp. exact Hp.
  - apply Permutation_sym, Permutation_length_1_inv in Hp. exact Hp.
Qed.

(* ---- THE IDENTIFICATION: the fold over the PROP chunks in ANY order = the node's own name and property table *)
Theorem fold_is_node cl k sstr lo sstr' phi (P props : list bs_prop) :
  List.map snd sstr' = List.map snd sstr -> Permutation P props ->
  (forall pr, In pr props -> prop_file_ok sstr lo pr) ->
  NoDup (List.map bp_name (filter (pq cl) props)) ->
  let R := fold_left (pstep sstr' (fun z => phi (lo z)) cl k) P (cls_name cl, []) in
  let ps := BinSpecAgree.row k (BinSpecAgree.ccols sstr lo (cls_id cl) props) in
  fst R = match fst (take_name ps) with Some s0 => s0 | None => cls_name cl end /\
  forall key, bfind key (collect_props (snd R)) = option_map (Tval phi) (bfind key (snd (take_name ps))).
Proof.
  intros Hss Hperm Hok Hu. cbv zeta. rewrite fold_pstep_shape, row_ccols, take_name_fst, BinSpecAgree.take_name_snd. cbn [fst snd app].
  assert (HokP : forall pr, In pr P -> prop_file_ok sstr lo pr) by (intros pr Hpr; apply Hok; eapply Permutation_in; eauto).
  assert (GS : forall pr, sprop cl k sstr lo pr = [] \/ (pq cl pr = true /\ exists v, sprop cl k sstr lo pr = [(bp_name pr, v)])).
  { intros pr. unfold sprop, pq, has_vals. destruct (psel cl pr); cbn [negb andb]; [|now left].
    destruct (bp_body pr) as [col| |]; cbn [BinSpecAgree.body_values]; try (now left).
    destruct (bs_col_values sstr lo col) as [vs| | |]; try (now left). destruct (nth_error vs k) as [v|]; [right; eauto|now left]. }
  split.
  - (* the name *)
    unfold name_strs at 1. rewrite BinSpecAgree.flat_map_flat_map. fold name_strs.
    rewrite (flat_map_ext_in (rname cl k) (fun pr => name_strs (sprop cl k sstr lo pr)) P) by (intros pr Hpr; apply rname_sname; now apply HokP).
    set (g := fun pr => name_strs (sprop cl k sstr lo pr)).
    change (flat_map (fun x => flat_map _ (sprop cl k sstr lo x)) props) with (flat_map g props).
    assert (GN : forall pr, g pr = [] \/ (pq cl pr = true /\ is_NAME pr = true /\ exists s0, g pr = [s0])).
    { intros pr. unfold g. destruct (GS pr) as [E|(Hq & v & E)]; rewrite E; [now left|]. cbn [name_strs flat_map fst snd app].
      unfold is_NAME. change NAME_PROP_NAME with NAME. destruct (bytes_eqb (bp_name pr) NAME); [|now left].
      destruct v; try (now left). right. rewrite app_nil_r. eauto. }
    pose proof (names_len1 cl g GN props Hu) as Hlen.
    rewrite (perm_len1 (flat_map g P) (flat_map g props) (Permutation_flat_map g Hperm) Hlen).
    destruct (flat_map g props) as [|x [|y r]]; [reflexivity|reflexivity|cbn in Hlen; lia].
  - (* the property table *)
    intros key. rewrite filter_flat_map. fold (sprop' cl k sstr lo).
    rewrite (flat_map_ext_in (rprop cl k sstr' (fun z => phi (lo z))) (fun pr => List.map (fun kv => (fst kv, Tval phi (snd kv))) (sprop' cl k sstr lo pr)) P)
      by (intros pr Hpr; apply rprop_sprop; [exact Hss|now apply HokP]).
    rewrite <- map_flat_map'.
    assert (GS' : forall pr, sprop' cl k sstr lo pr = [] \/ (pq cl pr = true /\ exists v, sprop' cl k sstr lo pr = [(bp_name pr, v)])).
    { intros pr. unfold sprop'. destruct (GS pr) as [E|(Hq & v & E)]; rewrite E; [now left|]. cbn [filter].
      destruct (negb (BinSpecAgree.is_name_cell (bp_name pr, v))); [right; eauto|now left]. }
    assert (Hnd : NoDup (List.map fst (flat_map (sprop' cl k sstr lo) props))) by (apply (keys_nodup cl _ GS'); exact Hu).
    assert (HndP : NoDup (List.map fst (flat_map (sprop' cl k sstr lo) P))).
    { eapply Permutation_NoDup; [apply Permutation_map, Permutation_flat_map, Permutation_sym; exact Hperm|exact Hnd]. }
    rewrite bfind_collect_nodup by (rewrite map_map; cbn [fst]; exact HndP).
    rewrite bfind_map_snd. f_equal. apply bfind_perm; [exact HndP|]. now apply Permutation_flat_map.
Qed.

(* ================================================================ 3r. the headline, with the node's own name and property table *)
Lemma fresh_keys cname : forall ids insts next z,
  zfind z (fst (BinChunkFacts.fresh_insts cname ids insts next)) <> None -> zfind z insts <> None \/ In z ids.
Proof.
  induction ids as [|id ids IH]; intros insts next z H; [now left|]. rewrite BinChunkFacts.fresh_insts_cons in H.
  destruct (IH _ _ z H) as [H1|H1]; [|right; now right]. destruct (Z.eq_dec z id) as [->|Hne]; [right; now left|].
  left. now rewrite BinChunkFacts.zfind_zupd_ne in H1.
Qed.

Lemma phase1_keys d p : forall items st st1, forallb (fun it => negb (is_prop it)) items = true ->
  run_steps d p st items = Some st1 ->
  (forall z, zfind z (ds_insts st1) <> None -> zfind z (ds_insts st) <> None \/ In z (all_refs (bs_insts items))) /\
  ds_sstr st1 = ds_sstr st ++ flat_map (List.map snd) (bs_sstrs items).
Proof.
  induction items as [|it r IH]; intros st st1 Hnp Hrun.
  - injection Hrun as <-. split; [now left|cbn; now rewrite app_nil_r].
  - cbn [forallb] in Hnp. apply andb_true_iff in Hnp. destruct Hnp as [Hp Hnp]. cbn [run_steps] in Hrun.
    destruct (rstep d p st it) as [st0|] eqn:Hs; [|discriminate]. destruct (IH st0 st1 Hnp Hrun) as [K S].
    destruct it as [l|l|c|pr|rows| |n dta]; try discriminate; cbn [rstep] in Hs; unfold bs_insts, bs_sstrs in *; cbn [flat_map app] in *;
      fold (bs_insts r) in *; fold (bs_sstrs r) in *.
    + destruct (forallb _ l); [|discriminate]. injection Hs as <-. now split.
    + injection Hs as <-. cbn [ds_insts ds_sstr] in *. split; [exact K|]. now rewrite S, <- app_assoc.
    + destruct (utf8_valid (cls_name c)); [|discriminate]. injection Hs as <-. unfold BinChunkFacts.inst_register in *.
      pose proof (fresh_keys (cls_name c) (cls_refs c) (ds_insts st) (ds_next st)) as FK.
      destruct (BinChunkFacts.fresh_insts (cls_name c) (cls_refs c) (ds_insts st) (ds_next st)) as [insts next]. cbn [fst ds_insts ds_sstr] in *.
      split; [|exact S]. intros z Hz. unfold all_refs. cbn [flat_map]. destruct (K z Hz) as [H1|H1].
      * destruct (FK z H1) as [H2|H2]; [now left|right; apply in_or_app; now left].
      * right. apply in_or_app. now right.
    + destruct (prnt_links (ds_insts st) (ds_roots st) rows) as [[i2 r2]| | |] eqn:E; try discriminate. injection Hs as <-.
      destruct (prnt_links_ok_spec _ _ _ _ _ E) as [_ Hf]. cbn [ds_insts ds_sstr fst] in *. split; [|exact S].
      intros z Hz. destruct (K z Hz) as [H1|H1]; [|now right]. left. rewrite Hf in H1. now destruct (zfind z (ds_insts st)).
    + injection Hs as <-. now split.
Qed.

Lemma nodup_bytes_NoDup l : nodup_bytes l = true -> NoDup l.
Proof.
  induction l as [|x l IH]; intros H; [constructor|]. cbn [nodup_bytes] in H. apply andb_true_iff in H. destruct H as [Hx Hl].
  constructor; [|now apply IH]. intros Hin. apply negb_true_iff in Hx.
  assert (existsb (bytes_eqb x) l = true); [|congruence]. apply existsb_exists. exists x. split; [exact Hin|apply beq_refl].
Qed.

(* the executable conditions on the PROP chunks of the file: no column type the reader does not know (Bytecode), the Name property
   is a UTF-8 String column, at most one value-carrying PROP per (class, property name) *)
Definition props_file_okb (f : bs_file) : bool :=
  forallb (fun pr => match bp_body pr with
                     | BValues col =>
                       (match wire_of_id (bs_col_type col) with Some _ => true | None => false end) &&
                       (negb (is_NAME pr) || match col with KString names => forallb utf8_valid names | _ => false end)
                     | _ => true end) (bf_props f)
  && forallb (fun cl => nodup_bytes (List.map bp_name (filter (pq cl) (bf_props f)))) (bf_classes f).

(* same name, same property table up to the canonical typing of unknown properties and the relabelling of referents; the
   UniqueId collision rule of WeakDom::insert applies on top (uid_norm: the table itself, or the table with a fresh UniqueId) *)
Definition node_same (phi : N -> N) (p : dec_params) (n : bs_node) (i : inst) : Prop :=
  i_name i = bn_name n /\
  exists tbl, BinRoundTrip.uid_norm p tbl (i_props i) /\
              forall key, bfind key tbl = option_map (Tval phi) (bfind key (bn_props n)).

Lemma same_dom_weaken phi (Q Q' : bs_node -> inst -> Prop) nodes out :
  (forall n i, In n nodes -> In i out -> Q n i -> Q' n i) -> same_dom phi Q nodes out -> same_dom phi Q' nodes out.
Proof.
  intros H (A & B & C & E & F & G & I & J). repeat split; auto.
  intros n Hn. destruct (G n Hn) as (i & Hi & H1 & H2 & H3 & H4). exists i. repeat split; auto.
Qed.

Theorem reader_decodes_spec_file d p u order cmps f P1 P2 :
  dp_lim p = None -> file_dom_ok f = true -> props_file_okb f = true ->
  gframes_rt p cmps (List.map (bs_enc_item rdA u) (bs_items_of order f)) ->
  flat_map (item_of_key f) order = P1 ++ P2 ->
  forallb (fun it => negb (is_prop it)) P1 = true -> forallb (fun it => negb (is_reg it)) P2 = true ->
  Permutation (bs_insts P1) (bf_classes f) -> bs_prnts (P1 ++ P2) = [bf_prnt f] ->
  Permutation (bs_props P2) (bf_props f) -> bs_sstrs P1 = match bf_sstr f with Some l => [l] | None => [] end ->
  scan d [] 0 (P1 ++ P2) = true -> inst_prnt_ok false (P1 ++ P2) = true ->
  scan d (bs_insts P1) (sstr_total P1) P2 = true -> forallb (prop_unknown d (bs_insts P1)) (bs_props P2) = true ->
  exists st out nodes,
    decode_file d p (bs_enc_header (bs_header_of f) ++ gframe_all cmps (List.map (bs_enc_item rdA u) (bs_items_of order f))) = Ok out /\
    bspec_to_dom f = Ok nodes /\
    same_dom (phi_of (f_kids f) (D_of st)) (node_same (phi_of (f_kids f) (D_of st)) p) nodes out.
Proof.
  intros Hl Hfok Hpok Hrt Hitems Hnp Hnr Hperm Hprnt Hpp Hsstr Hscan Hipo Hscan2 Hunk.
  assert (Hnm : forallb (prop_nonmig d (bs_insts P1)) (bs_props P2) = true).
  { apply forallb_forall. intros pr Hpr. apply prop_unknown_nonmig. exact (fa_in _ _ Hunk pr Hpr). }
  destruct (reader_decodes_spec_file_dom d p u order cmps f P1 P2 Hl Hfok Hrt Hitems Hnp Hnr Hperm Hprnt Hscan Hipo Hscan2 Hnm)
    as (st & out & nodes & Hrun & Hdec & Hnodes & Hsame).
  exists st, out, nodes. split; [exact Hdec|]. split; [exact Hnodes|].
  pose proof (file_dom_ok_sound f Hfok) as HF. destruct HF as [Hwf Hids Hrefs Hkids Hpk Hpar Hcf Htot].
  (* the state, phase by phase *)
  pose proof Hrun as Hrs. unfold bs_items_of in Hrs. rewrite (run_items_steps d p _ dstate0 (items_no_end f order)), Hitems, run_steps_app in Hrs.
  destruct (run_steps d p dstate0 P1) as [st1|] eqn:Hr1; [|discriminate].
  destruct (phase1_keys d p P1 dstate0 st1 Hnp Hr1) as [Hkeys Hss1]. cbn [ds_insts ds_sstr dstate0 app] in Hkeys, Hss1.
  assert (Hpr : Permutation (all_refs (bs_insts P1)) (all_refs (bf_classes f))) by (unfold all_refs; now apply Permutation_flat_map).
  assert (Hnd1 : NoDup (all_refs (bs_insts P1))) by (eapply Permutation_NoDup; [symmetry; exact Hpr|exact Hrefs]).
  assert (Hid1 : NoDup (List.map cls_id (bs_insts P1))) by (eapply Permutation_NoDup; [symmetry; apply Permutation_map; exact Hperm|exact Hids]).
  pose proof (items_ok_of_wf f Hwf order) as Hok. unfold bs_items_of in Hok. rewrite forallb_app, Hitems, forallb_app in Hok.
  apply andb_true_iff in Hok. destruct Hok as [Hok _]. apply andb_true_iff in Hok. destruct Hok as [Hok1 Hok2].
  assert (Hne1 : forallb (fun it => negb (is_end it)) P1 = true).
  { pose proof (items_no_end f order) as H. rewrite Hitems, forallb_app in H. apply andb_true_iff in H. now destruct H. }
  destruct (phase1_run d p P1 dstate0 st1 [] Hnp Hne1 Hr1) as [Hfr Hty]; [intros cl r []|intros c []|exact Hnd1|exact Hid1|]. cbn [app] in Hfr, Hty.
  assert (Hreg1 : reg_inv st1 (bs_insts P1)) by (intros cl r Hcl Hr; destruct (Hfr cl r Hcl Hr) as (i & -> & _); discriminate).
  assert (Hlen1 : length (ds_sstr st1) = sstr_total P1) by (rewrite (run_sstr_len d p P1 dstate0 st1 Hnp Hr1); reflexivity).
  rewrite <- Hlen1 in Hscan2.
  destruct (phase2_run d p (bs_insts P1) Hl Hnd1 Hid1 P2 st1 st Hok2 Hnr Hrs Hty Hreg1 Hscan2 Hnm) as (L2 & S2 & _).
  set (phi := phi_of (f_kids f) (D_of st)) in *.
  (* labels: the reader's resolution of a referent is the relabelled document label *)
  assert (Hlo : forall z, st_label st z = phi (slabel (f_kids f) z)).
  { intros z. destruct (in_dec Z.eq_dec z (f_kids f)) as [Hz|Hz].
    - unfold phi. rewrite (phi_slabel (f_kids f) (D_of st) z Hz). unfold st_label, BinFinish.lab, D_of, BinFinish.dinst_of.
      now destruct (zfind z (ds_insts st)).
    - unfold slabel. rewrite (BinSpecAgree.index_Z_notin z (f_kids f) 1 Hz). unfold phi. rewrite (phi_zero (f_kids f) (D_of st)).
      rewrite L2. unfold st_label. destruct (zfind z (ds_insts st1)) eqn:Ez; [|reflexivity]. exfalso.
      destruct (Hkeys z) as [H1|H1]; [now rewrite Ez|now apply H1|]. apply Hz. eapply Permutation_in; [symmetry; exact Hpk|].
      eapply Permutation_in; [exact Hpr|exact H1]. }
  assert (Hsst : List.map snd (st_sstr st) = List.map snd (f_sstr_tbl f)).
  { rewrite st_sstr_snd, S2, Hss1, Hsstr. unfold f_sstr_tbl. destruct (bf_sstr f); cbn [flat_map]; [now rewrite app_nil_r|reflexivity]. }
  (* the file-level conditions, as propositions *)
  unfold props_file_okb in Hpok. apply andb_true_iff in Hpok. destruct Hpok as [Hpf Huq].
  assert (Hpfo : forall pr, In pr (bf_props f) -> prop_file_ok (f_sstr_tbl f) (slabel (f_kids f)) pr).
  { intros pr Hprin. pose proof (fa_in _ _ Hpf pr Hprin) as Hc. cbv beta in Hc. unfold prop_file_ok.
    rewrite Forall_forall in Htot. specialize (Htot pr Hprin). destruct (bp_body pr) as [col| |]; try exact I.
    apply andb_true_iff in Hc. destruct Hc as [Hw Hn]. split; [now destruct (wire_of_id (bs_col_type col))|]. split.
    - apply col_values_defined. exact Htot.
    - intros HN. rewrite HN in Hn. cbn [negb orb] in Hn. destruct col; try discriminate. eauto. }
  apply (same_dom_weaken phi (node_rec d f p st (bs_props P2))); [|exact Hsame].
  intros n i _ _ (cl & k & c & pp & Hin & -> & Hcl & Hk & HR). cbv zeta in HR. destruct HR as [Hname Hun].
  assert (Huc : NoDup (List.map bp_name (filter (pq cl) (bf_props f)))) by (apply nodup_bytes_NoDup; exact (fa_in _ _ Huq cl Hcl)).
  assert (Hcl1 : In cl (bs_insts P1)) by (eapply Permutation_in; [symmetry; exact Hperm|exact Hcl]).
  rewrite (fold_pstepD_unknown d (bs_insts P1) _ _ cl k Hid1 Hcl1 _ _ Hunk) in Hname, Hun.
  rewrite (fold_pstep_ext _ _ _ cl k Hlo) in Hname, Hun.
  destruct (fold_is_node cl k (f_sstr_tbl f) (slabel (f_kids f)) (st_sstr st) phi (bs_props P2) (bf_props f) Hsst Hpp Hpfo Huc) as [F1 F2].
  unfold mk_node, f_ai. cbn [fst snd]. rewrite (ai_find _ _ _ _ cl k c Hrefs Hcl Hk). unfold node_same. cbn [bn_name bn_props].
  split; [now rewrite Hname, F1|]. eexists. split; [exact Hun|exact F2].
Qed.

(* ---- (b) + F4, final form: the decoded DOM does not depend on the chunk order — in particular not on the order of the PROP chunks —
   nor on compression, rotation encoding or INST order: two accepted encodings of the same file are both [same_dom] to the ONE
   document DOM with [node_same]: same name, same property table (the statement no longer mentions any order) *)
Theorem chunk_order_independent_full d p f u1 order1 cmps1 P1 P2 u2 order2 cmps2 P1' P2' :
  dp_lim p = None -> file_dom_ok f = true -> props_file_okb f = true ->
  gframes_rt p cmps1 (List.map (bs_enc_item rdA u1) (bs_items_of order1 f)) ->
  gframes_rt p cmps2 (List.map (bs_enc_item rdA u2) (bs_items_of order2 f)) ->
  flat_map (item_of_key f) order1 = P1 ++ P2 -> flat_map (item_of_key f) order2 = P1' ++ P2' ->
  forallb (fun it => negb (is_prop it)) P1 = true -> forallb (fun it => negb (is_reg it)) P2 = true ->
  forallb (fun it => negb (is_prop it)) P1' = true -> forallb (fun it => negb (is_reg it)) P2' = true ->
  Permutation (bs_insts P1) (bf_classes f) -> bs_prnts (P1 ++ P2) = [bf_prnt f] ->
  Permutation (bs_insts P1') (bf_classes f) -> bs_prnts (P1' ++ P2') = [bf_prnt f] ->
  Permutation (bs_props P2) (bf_props f) -> bs_sstrs P1 = match bf_sstr f with Some l => [l] | None => [] end ->
  Permutation (bs_props P2') (bf_props f) -> bs_sstrs P1' = match bf_sstr f with Some l => [l] | None => [] end ->
  scan d [] 0 (P1 ++ P2) = true -> inst_prnt_ok false (P1 ++ P2) = true ->
  scan d [] 0 (P1' ++ P2') = true -> inst_prnt_ok false (P1' ++ P2') = true ->
  scan d (bs_insts P1) (sstr_total P1) P2 = true -> forallb (prop_unknown d (bs_insts P1)) (bs_props P2) = true ->
  scan d (bs_insts P1') (sstr_total P1') P2' = true -> forallb (prop_unknown d (bs_insts P1')) (bs_props P2') = true ->
  exists nodes st1 out1 st2 out2,
    bspec_to_dom f = Ok nodes /\
    decode_file d p (bs_enc_header (bs_header_of f) ++ gframe_all cmps1 (List.map (bs_enc_item rdA u1) (bs_items_of order1 f))) = Ok out1 /\
    decode_file d p (bs_enc_header (bs_header_of f) ++ gframe_all cmps2 (List.map (bs_enc_item rdA u2) (bs_items_of order2 f))) = Ok out2 /\
    same_dom (phi_of (f_kids f) (D_of st1)) (node_same (phi_of (f_kids f) (D_of st1)) p) nodes out1 /\
    same_dom (phi_of (f_kids f) (D_of st2)) (node_same (phi_of (f_kids f) (D_of st2)) p) nodes out2.
Proof.
  intros Hl Hf Hpf R1 R2 I1 I2 A1 A2 B1 B2 C1 C2 D1 D2 K1 K2 K3 K4 E1 E2 F1 F2 G1 G2 H1 H2.
  destruct (reader_decodes_spec_file d p u1 order1 cmps1 f P1 P2 Hl Hf Hpf R1 I1 A1 A2 C1 C2 K1 K2 E1 E2 G1 G2) as (st1 & out1 & n1 & X1 & Y1 & Z1).
  destruct (reader_decodes_spec_file d p u2 order2 cmps2 f P1' P2' Hl Hf Hpf R2 I2 B1 B2 D1 D2 K3 K4 F1 F2 H1 H2) as (st2 & out2 & n2 & X2 & Y2 & Z2).
  rewrite Y1 in Y2. injection Y2 as <-. exists n1, st1, out1, st2, out2. auto.
Qed.

(* ================================================================ 3s. (c) properties the database KNOWS (not migrating): whole-file corollary *)
Section KnownProps.
Variable d : db.
Variable cl : bs_class.
Variable k : nat.
Variable sstr : list (bytes * bytes).
Variable lo : Z -> N.

(* the canonical name a PROP chunk of the class is stored under *)
Definition cname_of (pr : bs_prop) : option bytes :=
  match bp_body pr with
  | BValues col =>
    match wire_of_id (bs_col_type col) with
    | Some ty => if is_NAME pr then None else
                 match find_canonical_property d ty (cls_name cl) (bp_name pr) with Ok (Some (nm, _, None)) => Some nm | _ => None end
    | None => None
    end
  | _ => None
  end.
Definition rpropD (pr : bs_prop) : list (bytes * value) :=
  if negb (psel cl pr) then [] else
  match bp_body pr with
  | BValues col =>
    match wire_of_id (bs_col_type col) with
    | Some ty => if is_NAME pr then [] else
                 match find_canonical_property d ty (cls_name cl) (bp_name pr) with
                 | Ok (Some (nm, cty, None)) =>
                   match bs_col_values sstr lo col with
                   | Ok vals => match nth_error vals k with Some v => [(nm, retype cty v)] | None => [] end
                   | _ => [] end
                 | _ => []
                 end
    | None => []
    end
  | _ => []
  end.

Lemma fold_pstepD_snd : forall l acc, snd (fold_left (pstepD d sstr lo cl k) l acc) = snd acc ++ flat_map rpropD l.
Proof.
  induction l as [|pr l IH]; intros [nm0 ps]; [cbn; now rewrite app_nil_r|]. cbn [fold_left flat_map]. rewrite IH.
  unfold pstepD, rpropD, psel, is_NAME. destruct (negb (N.eqb (bp_class pr) (cls_id cl))); [reflexivity|].
  destruct (bp_body pr) as [col| |]; try reflexivity. destruct (wire_of_id (bs_col_type col)) as [ty|]; [|reflexivity].
  destruct (bytes_eqb (bp_name pr) NAME).
  - destruct col; try reflexivity. now destruct (nth_error l0 k).
  - destruct (find_canonical_property d ty (cls_name cl) (bp_name pr)) as [[[[nm cty] [mg|]]|]| | |]; try reflexivity.
    destruct (bs_col_values sstr lo col) as [vals| | |]; try reflexivity. destruct (nth_error vals k); [|reflexivity].
    cbn [fst snd]. now rewrite <- app_assoc.
Qed.

Lemma rpropD_key pr key x : In (key, x) (rpropD pr) -> psel cl pr = true /\ cname_of pr = Some key.
Proof.
  unfold rpropD, cname_of. destruct (psel cl pr); cbn [negb]; [|intros []]. destruct (bp_body pr) as [col| |]; try (intros []).
  destruct (wire_of_id (bs_col_type col)) as [ty|]; [|intros []]. destruct (is_NAME pr); [intros []|].
  destruct (find_canonical_property d ty (cls_name cl) (bp_name pr)) as [[[[nm cty] [mg|]]|]| | |]; try (intros []).
  destruct (bs_col_values sstr lo col) as [vals| | |]; try (intros []). destruct (nth_error vals k); [|intros []].
  intros [E|[]]. injection E as -> _. now split.
Qed.

(* a key all of whose entries carry the same value *)
Lemma bfind_collect_const l key x0 : In (key, x0) l -> (forall x, In (key, x) l -> x = x0) -> bfind key (collect_props l) = Some x0.
Proof.
  induction l as [|[k1 v1] l IH] using rev_ind; intros Hin Hall; [destruct Hin|].
  rewrite collect_props_snoc', bfind_bupd'. destruct (bytes_eqb key k1) eqn:E.
  - apply BinSpecFacts.bytes_eqb_eq in E. subst k1. f_equal. apply Hall. apply in_or_app. right. now left.
  - apply IH.
    + apply in_app_or in Hin. destruct Hin as [Hin|[Hin|[]]]; [exact Hin|]. injection Hin as -> _. now rewrite beq_refl in E.
    + intros x Hx. apply Hall. apply in_or_app. now left.
Qed.

(* exactly one PROP chunk of the class resolves to the canonical name [nm] *)
Definition only_prop (props : list bs_prop) (nm : bytes) (pr : bs_prop) : Prop :=
  filter (fun pr' => psel cl pr' && match cname_of pr' with Some n' => bytes_eqb n' nm | None => false end) props = [pr].

Theorem known_prop_in_fold props pr col ty nm cty vals v :
  only_prop props nm pr -> bp_body pr = BValues col -> wire_of_id (bs_col_type col) = Some ty ->
  find_canonical_property d ty (cls_name cl) (bp_name pr) = Ok (Some (nm, cty, None)) ->
  bs_col_values sstr lo col = Ok vals -> nth_error vals k = Some v ->
  bfind nm (collect_props (snd (fold_left (pstepD d sstr lo cl k) props (cls_name cl, [])))) = Some (retype cty v).
Proof.
  unfold only_prop. intros Hf Hbody Hw Hcp Hv Hk. rewrite fold_pstepD_snd. cbn [snd app].
  assert (Hin : In pr props /\ psel cl pr = true /\ cname_of pr = Some nm).
  { assert (H : In pr (filter (fun pr' => psel cl pr' && match cname_of pr' with Some n' => bytes_eqb n' nm | None => false end) props))
      by (rewrite Hf; now left).
    apply filter_In in H. destruct H as [H1 H2]. apply andb_true_iff in H2. destruct H2 as [H2 H3]. split; [exact H1|]. split; [exact H2|].
    destruct (cname_of pr) as [n'|]; [|discriminate]. apply BinSpecFacts.bytes_eqb_eq in H3. now subst. }
  destruct Hin as (Hin & Hsel & Hcn).
  assert (Hrp : rpropD pr = [(nm, retype cty v)]).
  { unfold rpropD. rewrite Hsel, Hbody, Hw. cbn [negb]. unfold cname_of in Hcn. rewrite Hbody, Hw in Hcn.
    destruct (is_NAME pr); [discriminate|]. now rewrite Hcp, Hv, Hk. }
  apply bfind_collect_const.
  - apply in_flat_map. exists pr. split; [exact Hin|]. rewrite Hrp. now left.
  - intros x Hx. apply in_flat_map in Hx. destruct Hx as (pr' & Hpr' & Hx). destruct (rpropD_key pr' nm x Hx) as [Hs' Hc'].
    assert (Hpf : In pr' [pr]).
    { rewrite <- Hf. apply filter_In. split; [exact Hpr'|]. rewrite Hs', Hc', beq_refl. reflexivity. }
    destruct Hpf as [<-|[]]. rewrite Hrp in Hx. destruct Hx as [E|[]]. now injection E as <-.
Qed.
End KnownProps.

(* the canonical retyping widens exactly *)
Lemma retype_widen_int32 z : retype VT_Int64 (VInt32 z) = VInt64 z. Proof. reflexivity. Qed.
Lemma retype_widen_float32 x : retype VT_Float64 (VFloat32 x) = VFloat64 (f64_of_f32 x). Proof. reflexivity. Qed.

(* what a decoded instance holds for the properties the database knows: for the node's class [cl] and index [k], every PROP chunk
   [pr] of the class that is the only one resolving to the canonical name [nm] (canonical type [cty], no migration) puts, under
   [nm], the k-th value of its column retyped to [cty] *)
Definition node_known (d : db) (f : bs_file) (p : dec_params) (st : dstate) (props : list bs_prop) (n : bs_node) (i : inst) : Prop :=
  exists cl k c pp, In (c, pp) (bf_prnt f) /\ n = mk_node (f_kids f) (f_ai f) (c, pp) /\ In cl (bf_classes f) /\
    nth_error (cls_refs cl) k = Some c /\
    exists tbl, BinRoundTrip.uid_norm p tbl (i_props i) /\
      forall pr col ty nm cty vals v,
        only_prop d cl props nm pr -> bp_body pr = BValues col -> wire_of_id (bs_col_type col) = Some ty ->
        find_canonical_property d ty (cls_name cl) (bp_name pr) = Ok (Some (nm, cty, None)) ->
        bs_col_values (st_sstr st) (st_label st) col = Ok vals -> nth_error vals k = Some v ->
        bfind nm tbl = Some (retype cty v).

(* C04, last clause, for the WHOLE FILE (any database, properties known or unknown, none migrating): accepted, the structure of
   bspec_to_dom f, and every known property stored under its canonical name with its value retyped to the canonical type — an Int32
   column of a property declared Int64 as VInt64 of the same integer, a Float32 column of a Float64 property widened exactly *)
Theorem known_property_whole_file d p u order cmps f P1 P2 :
  dp_lim p = None -> file_dom_ok f = true ->
  gframes_rt p cmps (List.map (bs_enc_item rdA u) (bs_items_of order f)) ->
  flat_map (item_of_key f) order = P1 ++ P2 ->
  forallb (fun it => negb (is_prop it)) P1 = true -> forallb (fun it => negb (is_reg it)) P2 = true ->
  Permutation (bs_insts P1) (bf_classes f) -> bs_prnts (P1 ++ P2) = [bf_prnt f] ->
  scan d [] 0 (P1 ++ P2) = true -> inst_prnt_ok false (P1 ++ P2) = true ->
  scan d (bs_insts P1) (sstr_total P1) P2 = true -> forallb (prop_nonmig d (bs_insts P1)) (bs_props P2) = true ->
  exists st out nodes,
    decode_file d p (bs_enc_header (bs_header_of f) ++ gframe_all cmps (List.map (bs_enc_item rdA u) (bs_items_of order f))) = Ok out /\
    bspec_to_dom f = Ok nodes /\
    same_dom (phi_of (f_kids f) (D_of st)) (node_known d f p st (bs_props P2)) nodes out.
Proof.
  intros Hl Hfok Hrt Hitems Hnp Hnr Hperm Hprnt Hscan Hipo Hscan2 Hnm.
  destruct (reader_decodes_spec_file_dom d p u order cmps f P1 P2 Hl Hfok Hrt Hitems Hnp Hnr Hperm Hprnt Hscan Hipo Hscan2 Hnm)
    as (st & out & nodes & _ & Hdec & Hnodes & Hsame).
  exists st, out, nodes. split; [exact Hdec|]. split; [exact Hnodes|].
  apply (same_dom_weaken _ (node_rec d f p st (bs_props P2))); [|exact Hsame].
  intros n i _ _ (cl & k & c & pp & Hin & Heq & Hcl & Hk & HR). cbv zeta in HR. destruct HR as [_ Hun].
  exists cl, k, c, pp. repeat (split; [assumption|]). eexists. split; [exact Hun|].
  intros pr col ty nm cty vals v Ho Hb Hw Hcp Hv Hvk.
  exact (known_prop_in_fold d cl k (st_sstr st) (st_label st) (bs_props P2) pr col ty nm cty vals v Ho Hb Hw Hcp Hv Hvk).
Qed.

(* ---- 3p. STATUS after the second round (supersedes 3i where they differ).  THIRD ROUND: the `STILL MISSING` part below is now
   PROVED for properties the database does not know: fold_is_node, reader_decodes_spec_file (Q = node_same: same name, same property
   table up to retype/relabel), chunk_order_independent_full; for KNOWN non-migrating properties: pstepD, known_prop_in_fold,
   known_property_whole_file (canonical name, canonical type, exact widening).  Still open: migrations; the identification of the
   WHOLE table (every key) with bn_props for known properties (renaming of keys by the database).
   PROVED: forest_of_spec / forest_of_describes (the forest of children-first rows: rows_describe, NoDup, Permutation with the
   children — no longer hypotheses); file_dom_ok_sound (the executable predicate [file_dom_ok] = bs_wf && bs_doc_wf && children_first
   && SharedString indices in range); spec_dom_closed (bspec_to_dom f = Ok (map mk_node rows): label = index of the child, parent
   label, class, name, properties); dom_relation; reader_decodes_spec_file_dom (the headline: accepted, and [same_dom] to
   bspec_to_dom f: instances, labels, parent labels, classes, root and sibling ORDER; name and property list of every instance =
   the fold [pstep] of the PROP chunks in chunk order, property table = collect_props of it up to the UniqueId collision rule);
   phase1_run / phase2_run / phase2_step (the composition of the pointwise PROP lemmas); chunk_order_independent (F4).
   STILL MISSING: the identification of the fold with the node's own fields:
       fst R = bn_name n   and   forall key, bfind key (collect_props (snd R)) = option_map (relabel phi ∘ retype VT_BinaryString) (bfind-unique key (bn_props n))
   for R = fold_left (pstep …) props (cls_name cl, []).  It needs: (i) at most one value-carrying PROP per (class, name)
   (duplicate_prop_last_wins; for Name the document takes the FIRST, the reader the LAST); (ii) the Name property is a String
   column (name_prop_not_string_refuted), UTF-8; (iii) no Bytecode column (bytecode_column_skipped); (iv) the relabelling of
   Referent / Content values: st_label st z = phi (slabel kids z) (both 0 off the file); (v) PROP chunks permuted w.r.t.
   bf_props: equality of the tables by bfind under (i).  Known (non-migrating) database properties and migrations: not started;
   [prop_unknown] restricts the headline to properties the database does not know (and to the Name property). *)

(* ================================================================ 5. non-vacuity and recorded disagreements *)
Module BinSpecReadExamples.
Local Open Scope string_scope.
Definition S (s : String.string) : bytes := bstr s.
(* an inflater that implements LZ4 (Spec/Lz4.v), no allocation limit *)
Definition ex_p : dec_params :=
  mkDP [] [] (fun c len => match lz4_inflate c len with Ok x => Some x | _ => None end) (VUniqueId 9 9 9%Z) None.
Definition ex_cf : cframe := mkCF (mkV3 0x3F800000 0x40000000 0x40400000) mat3_identity.          (* identity: id form *)
Definition ex_cf2 : cframe := mkCF (mkV3 0 0 0) (mkM3 (mkV3 0x3F000000 0 0) (mkV3 0 0x3F800000 0) (mkV3 0 0 0x3F800000)).
(* two classes (ids 7 and 4000000000), sparse negative referents, a service-format INST, META, SSTR, an unknown chunk, a PROP that
   ends after its name, a PROP with an undefined type id, a Bytecode PROP, CFrames in both rotation forms *)
Definition ex_f : bs_file :=
  mkFile (Some [(S "ExplicitAutoJoints", S "true")])
         (Some [([0;1;2;3;4;5;6;7;8;9;10;11;12;13;14;15], S "shared")])
         [ mkClass 7 (S "Folder") false [(-5)%Z; 100%Z] [];
           mkClass 4000000000 (S "Workspace") true [(-2147483648)%Z] [1] ]
         [ mkProp 7 (S "Name") (BValues (KString [S "A"; S "B"]));
           mkProp 7 (S "X") (BValues (KInt32 [(-1)%Z; 70000%Z]));
           mkProp 4000000000 (S "Target") (BValues (KReferent [(-5)%Z]));
           mkProp 7 (S "Cut") BTruncated;
           mkProp 7 (S "Odd") (BUnknown 0x7f [1; 2; 3]);
           mkProp 7 (S "Where") (BValues (KCFrame [ex_cf; ex_cf2]));
           mkProp 7 (S "Blob") (BValues (KSharedString [0; 0]));
           mkProp 7 (S "Code") (BValues (KBytecode [[1]; [2]])) ]
         [((-5)%Z, 100%Z); (100%Z, (-2147483648)%Z); ((-2147483648)%Z, (-1)%Z)]
         [(S "ABCD", [1; 2; 3])].
Definition ex_order : list bs_okey :=
  [OUnknown 0; OInst 1; OMeta; OSstr; OInst 0; OProp 2; OProp 5; OProp 0; OProp 3; OPrnt; OProp 1; OProp 4; OProp 6; OProp 7].
(* mixed compression; rotation ids in use *)
Definition ex_ch : bs_choices := mkChoices ex_order [true; false; true; true; false; true; false; true] true.
(* another order (canonical: META SSTR INST* PROP* PRNT unknown), no compression, nine-float rotations *)
Definition ex_ch2 : bs_choices := mkChoices (bs_canonical_order ex_f) [] false.
Definition ex_F : list BinFinish.ztree :=
  [BinFinish.ZNode (-2147483648) [BinFinish.ZNode 100 [BinFinish.ZNode (-5) []]]].

Example ex_wf : bs_wf ex_f = true /\ bs_doc_wf ex_f = true /\ bs_sizes_ok rdA ex_ch ex_f = true /\ bs_sizes_ok rdA ex_ch2 ex_f = true.
Proof. vm_compute. auto. Qed.
Example ex_inflater : forall x, dp_inflate ex_p (literal_only_block x) (N.of_nat (length x)) = Some x.
Proof. intros x. cbn [dp_inflate ex_p]. now rewrite lz4_inflate_literal_only. Qed.
Definition ex_st : dstate :=
  match run_items db0 ex_p dstate0 (bs_items_of ex_order ex_f) with Some st => st | None => dstate0 end.
Example ex_run : run_items db0 ex_p dstate0 (bs_items_of ex_order ex_f) = Some ex_st.
Proof. vm_compute. reflexivity. Qed.

(* F3 (bytes to steps) applied: all hypotheses of [reader_on_spec_file] hold for the example *)
Example ex_by_theorem : decode_file db0 ex_p (bspec_encode rdA ex_ch ex_f) = finish ex_p ex_st.
Proof.
  apply reader_on_spec_file; [reflexivity|apply ex_wf|apply ex_wf|exact ex_inflater|exact ex_run].
Qed.

(* the views: every instance as (name, (class, name of the parent, properties sorted by name, Ref values replaced by the
   name of their target)).  Names are pairwise distinct in the example. *)
Definition rname (out : cdom) (l : N) : bytes :=
  match find (fun i => N.eqb (i_ref i) l) out with Some i => i_name i | None => [] end.
Definition sname (nodes : list bs_node) (l : N) : bytes :=
  match find (fun n => N.eqb (bn_label n) l) nodes with Some n => bn_name n | None => [] end.
Definition unref (nm : N -> bytes) (kv : bytes * value) : bytes * value :=
  (fst kv, match snd kv with VRef l => VString (nm l) | v => v end).
Definition view_r (out : cdom) :=
  bsort (List.map (fun i => (i_name i, (i_class i, rname out (i_parent i), bsort (List.map (unref (rname out)) (i_props i))))) out).
Definition view_s (cty_of : bytes -> N) (nodes : list bs_node) :=
  bsort (List.map (fun n => (bn_name n, (bn_class n, sname nodes (bn_parent n),
                                         bsort (List.map (fun kv => unref (sname nodes) (fst kv, retype (cty_of (fst kv)) (snd kv)))
                                                        (bn_props n))))) nodes).

(* the decoded DOM is the DOM the file describes, up to the labelling, the canonical types of a database that knows none of
   the properties (String columns come back as BinaryString), and the Bytecode property (type 0x1d), which the reader skips *)
Definition drop_code (nodes : list bs_node) : list bs_node :=
  List.map (fun n => mkNode (bn_label n) (bn_parent n) (bn_class n) (bn_name n)
                            (List.filter (fun kv => negb (bytes_eqb (fst kv) (S "Code"))) (bn_props n))) nodes.
Example ex_decoded_is_described :
  match decode_file db0 ex_p (bspec_encode rdA ex_ch ex_f), bspec_to_dom ex_f with
  | Ok out, Ok nodes => view_r out = view_s (fun _ => VT_BinaryString) (drop_code nodes) /\ length out = length nodes
  | _, _ => False
  end.
Proof. vm_compute. split; reflexivity. Qed.

(* F4 on the example: another chunk order, no compression, the other rotation encoding: the same DOM (labels apart) *)
Example ex_order_independent :
  match decode_file db0 ex_p (bspec_encode rdA ex_ch ex_f), decode_file db0 ex_p (bspec_encode rdA ex_ch2 ex_f) with
  | Ok out, Ok out2 => view_r out = view_r out2
  | _, _ => False
  end.
Proof. vm_compute. reflexivity. Qed.

(* the hypotheses of [reader_rebuilds_spec_forest] hold for the example *)
Example ex_structure_hyps :
  let items := flat_map (item_of_key ex_f) ex_order in
  inst_prnt_ok false items = true /\ bs_prnts items = [bf_prnt ex_f] /\ NoDup (all_refs (bs_insts items)) /\
  BinFinish.rows_describe (bf_prnt ex_f) ex_F /\ NoDup (BinFinish.zfrefs ex_F) /\
  incl (BinFinish.zfrefs ex_F) (all_refs (bs_insts items)).
Proof.
  cbv zeta. split; [vm_compute; reflexivity|]. split; [vm_compute; reflexivity|].
  split; [vm_compute; repeat constructor; cbn; intuition discriminate|].
  split.
  { split; [vm_compute; reflexivity|]. intros t0 Ht0. vm_compute in Ht0.
    destruct Ht0 as [<-|[<-|[<-|[]]]]; vm_compute; reflexivity. }
  split; [vm_compute; repeat constructor; cbn; intuition discriminate|].
  intros z Hz. vm_compute in Hz |- *. tauto.
Qed.
Definition ctx0 : dec_ctx := mkDC (fun _ => 0) [] None.
Definition lo0 : Z -> N := fun _ => 0.

(* F1 applied: a CFrame column in BOTH rotation encodings (13 bytes / 48 bytes of rotations), a widened Int32 column *)
Example ex_column_hyps :
  bs_col_ok (KCFrame [ex_cf; ex_cf2]) = true /\ reader_col_ok VT_CFrame (KCFrame [ex_cf; ex_cf2]) = true /\
  wire_of_id (bs_col_type (KCFrame [ex_cf; ex_cf2])) = Some WCFrame /\
  bs_col_values [] lo0 (KCFrame [ex_cf; ex_cf2]) = Ok [VCFrame ex_cf; VCFrame ex_cf2] /\
  List.length (bs_enc_col rdA true (KCFrame [ex_cf; ex_cf2])) = 62%nat /\
  List.length (bs_enc_col rdA false (KCFrame [ex_cf; ex_cf2])) = 98%nat.
Proof. vm_compute. repeat split; reflexivity. Qed.
Example ex_column_by_theorem u rest :
  dec_col WCFrame VT_CFrame ctx0 2 (bs_enc_col rdA u (KCFrame [ex_cf; ex_cf2]) ++ rest)%list = Ok ([VCFrame ex_cf; VCFrame ex_cf2], rest).
Proof.
  exact (reader_reads_spec_column ctx0 u (KCFrame [ex_cf; ex_cf2]) VT_CFrame WCFrame [] lo0 _ rest eq_refl eq_refl eq_refl eq_refl
           (fun _ => eq_refl) eq_refl eq_refl I).
Qed.
Example ex_column_widened u rest :
  dec_col WInt32 VT_Int64 ctx0 2 (bs_enc_col rdA u (KInt32 [(-1)%Z; 70000%Z]) ++ rest)%list = Ok ([VInt64 (-1); VInt64 70000], rest).
Proof.
  exact (reader_reads_spec_column ctx0 u (KInt32 [(-1)%Z; 70000%Z]) VT_Int64 WInt32 [] lo0 _ rest eq_refl eq_refl eq_refl eq_refl
           (fun _ => eq_refl) eq_refl eq_refl I).
Qed.

(* F3 (structure) applied to the example *)
Example ex_structure_by_theorem :
  exists out, decode_file db0 ex_p (bspec_encode rdA ex_ch ex_f) = Ok out /\
              BinFinish.reconstructs (BinFinish.dinst_of (ds_insts ex_st)) ex_p ex_F out.
Proof.
  destruct ex_structure_hyps as (H1 & H2 & H3 & H4 & H5 & H6).
  assert (Hrt : gframes_rt ex_p (List.map cmp_of_bool (ch_comp ex_ch))
                  (List.map (bs_enc_item rdA (ch_rot_ids ex_ch)) (bs_items_of ex_order ex_f))).
  { apply literal_frames_rt; [exact ex_inflater|]. exact (proj1 (proj2 (proj2 ex_wf))). }
  destruct (reader_rebuilds_spec_forest db0 ex_p (ch_rot_ids ex_ch) ex_order (List.map cmp_of_bool (ch_comp ex_ch)) ex_f ex_st ex_F
              eq_refl (proj1 ex_wf) Hrt ex_run H1 H2 H3 H4 H5 H6) as (out & Hd & Hr & _).
  exists out. split; [|exact Hr]. unfold bspec_encode, bspec_encode_chunks. rewrite bs_frame_all_gframe. exact Hd.
Qed.

(* F3 with static hypotheses applied to the example *)
Example ex_static_hyps : scan db0 [] 0 (flat_map (item_of_key ex_f) ex_order) = true.
Proof. vm_compute. reflexivity. Qed.
Example ex_accepted_by_theorem :
  exists st out, run_items db0 ex_p dstate0 (bs_items_of ex_order ex_f) = Some st /\
                 decode_file db0 ex_p (bspec_encode rdA ex_ch ex_f) = Ok out /\
                 BinFinish.reconstructs (BinFinish.dinst_of (ds_insts st)) ex_p ex_F out.
Proof.
  destruct ex_structure_hyps as (H1 & H2 & H3 & H4 & H5 & H6).
  assert (Hrt : gframes_rt ex_p (List.map cmp_of_bool (ch_comp ex_ch))
                  (List.map (bs_enc_item rdA (ch_rot_ids ex_ch)) (bs_items_of ex_order ex_f))).
  { apply literal_frames_rt; [exact ex_inflater|]. exact (proj1 (proj2 (proj2 ex_wf))). }
  destruct (reader_decodes_spec_file_structure db0 ex_p (ch_rot_ids ex_ch) ex_order (List.map cmp_of_bool (ch_comp ex_ch)) ex_f ex_F
              eq_refl (proj1 ex_wf) Hrt ex_static_hyps H1 H2 H3 H4 H5 H6) as (st & out & Hrun & Hd & Hr & _).
  exists st, out. split; [exact Hrun|]. split; [|exact Hr]. unfold bspec_encode, bspec_encode_chunks. rewrite bs_frame_all_gframe. exact Hd.
Qed.

(* F3 against bspec_to_dom, applied to the example (PROP chunks before and after the PRNT chunk, INST chunks in reverse order) *)
Definition ex_items := flat_map (item_of_key ex_f) ex_order.
Example ex_dom_hyps :
  file_dom_ok ex_f = true /\ ex_items = (firstn 5 ex_items ++ skipn 5 ex_items)%list /\
  forallb (fun it => negb (is_prop it)) (firstn 5 ex_items) = true /\ forallb (fun it => negb (is_reg it)) (skipn 5 ex_items) = true /\
  bs_prnts (firstn 5 ex_items ++ skipn 5 ex_items)%list = [bf_prnt ex_f] /\
  scan db0 [] 0 (firstn 5 ex_items ++ skipn 5 ex_items)%list = true /\ inst_prnt_ok false (firstn 5 ex_items ++ skipn 5 ex_items)%list = true /\
  scan db0 (bs_insts (firstn 5 ex_items)) (sstr_total (firstn 5 ex_items)) (skipn 5 ex_items) = true /\
  forallb (prop_nonmig db0 (bs_insts (firstn 5 ex_items))) (bs_props (skipn 5 ex_items)) = true /\
  bs_insts (firstn 5 ex_items) = rev (bf_classes ex_f).
Proof. vm_compute. repeat split; reflexivity. Qed.
Example ex_dom_by_theorem :
  exists st out nodes, decode_file db0 ex_p (bspec_encode rdA ex_ch ex_f) = Ok out /\ bspec_to_dom ex_f = Ok nodes /\
    same_dom (phi_of (f_kids ex_f) (D_of st)) (node_rec db0 ex_f ex_p st (bs_props (skipn 5 ex_items))) nodes out.
Proof.
  destruct ex_dom_hyps as (H0 & H1 & H2 & H3 & H4 & H5 & H6 & H7 & H8 & H9).
  assert (Hrt : gframes_rt ex_p (List.map cmp_of_bool (ch_comp ex_ch))
                  (List.map (bs_enc_item rdA (ch_rot_ids ex_ch)) (bs_items_of ex_order ex_f))).
  { apply literal_frames_rt; [exact ex_inflater|]. exact (proj1 (proj2 (proj2 ex_wf))). }
  destruct (reader_decodes_spec_file_dom db0 ex_p (ch_rot_ids ex_ch) ex_order (List.map cmp_of_bool (ch_comp ex_ch)) ex_f
              (firstn 5 ex_items) (skipn 5 ex_items) eq_refl H0 Hrt H1 H2 H3) as (st & out & nodes & _ & Hd & Hn & Hs); try assumption.
  - rewrite H9. apply Permutation_sym, Permutation_rev.
  - exists st, out, nodes. split; [|split; [exact Hn|exact Hs]]. unfold bspec_encode, bspec_encode_chunks. rewrite bs_frame_all_gframe. exact Hd.
Qed.

(* the full headline applied: the example without its Bytecode PROP (which the reader drops: bytecode_column_skipped) *)
Definition ex_g : bs_file :=
  mkFile (bf_meta ex_f) (bf_sstr ex_f) (bf_classes ex_f) (removelast (bf_props ex_f)) (bf_prnt ex_f) (bf_unknown ex_f).
Definition ex_gorder : list bs_okey := removelast ex_order.
Definition ex_gch : bs_choices := mkChoices ex_gorder (ch_comp ex_ch) true.
Definition ex_gitems := flat_map (item_of_key ex_g) ex_gorder.
Example ex_full_hyps :
  file_dom_ok ex_g = true /\ props_file_okb ex_g = true /\ bs_sizes_ok rdA ex_gch ex_g = true /\
  ex_gitems = (firstn 5 ex_gitems ++ skipn 5 ex_gitems)%list /\
  forallb (fun it => negb (is_prop it)) (firstn 5 ex_gitems) = true /\ forallb (fun it => negb (is_reg it)) (skipn 5 ex_gitems) = true /\
  bs_prnts (firstn 5 ex_gitems ++ skipn 5 ex_gitems)%list = [bf_prnt ex_g] /\
  bs_sstrs (firstn 5 ex_gitems) = match bf_sstr ex_g with Some l => [l] | None => [] end /\
  scan db0 [] 0 (firstn 5 ex_gitems ++ skipn 5 ex_gitems)%list = true /\ inst_prnt_ok false (firstn 5 ex_gitems ++ skipn 5 ex_gitems)%list = true /\
  scan db0 (bs_insts (firstn 5 ex_gitems)) (sstr_total (firstn 5 ex_gitems)) (skipn 5 ex_gitems) = true /\
  forallb (prop_unknown db0 (bs_insts (firstn 5 ex_gitems))) (bs_props (skipn 5 ex_gitems)) = true /\
  bs_insts (firstn 5 ex_gitems) = rev (bf_classes ex_g) /\
  (* the PROP chunks are NOT in file order *)
  List.map bp_name (bs_props (skipn 5 ex_gitems)) = [S "Target"; S "Where"; S "Name"; S "Cut"; S "X"; S "Odd"; S "Blob"] /\
  List.map bp_name (bf_props ex_g) = [S "Name"; S "X"; S "Target"; S "Cut"; S "Odd"; S "Where"; S "Blob"].
Proof. vm_compute. repeat split; reflexivity. Qed.

Lemma perm_idx {A} (a : list A) d idx : Permutation idx (seq 0 (List.length a)) -> Permutation (List.map (fun j => nth j a d) idx) a.
Proof. intros H. pose proof (Permutation_map (fun j => nth j a d) H) as Hp. now rewrite (map_nth_seq a d) in Hp. Qed.

Example ex_full_by_theorem :
  exists st out nodes, decode_file db0 ex_p (bspec_encode rdA ex_gch ex_g) = Ok out /\ bspec_to_dom ex_g = Ok nodes /\
    same_dom (phi_of (f_kids ex_g) (D_of st)) (node_same (phi_of (f_kids ex_g) (D_of st)) ex_p) nodes out.
Proof.
  destruct ex_full_hyps as (H0 & H0' & Hsz & H1 & H2 & H3 & H4 & Hs & H5 & H6 & H7 & H8 & H9 & _).
  assert (Hrt : gframes_rt ex_p (List.map cmp_of_bool (ch_comp ex_gch))
                  (List.map (bs_enc_item rdA (ch_rot_ids ex_gch)) (bs_items_of ex_gorder ex_g))).
  { apply literal_frames_rt; [exact ex_inflater|exact Hsz]. }
  destruct (reader_decodes_spec_file db0 ex_p (ch_rot_ids ex_gch) ex_gorder (List.map cmp_of_bool (ch_comp ex_gch)) ex_g
              (firstn 5 ex_gitems) (skipn 5 ex_gitems) eq_refl H0 H0' Hrt H1 H2 H3) as (st & out & nodes & Hd & Hn & Hsd); try assumption.
  - rewrite H9. apply Permutation_sym, Permutation_rev.
  - replace (bs_props (skipn 5 ex_gitems)) with (List.map (fun j => nth j (bf_props ex_g) (mkProp 0 [] BTruncated)) [2; 5; 0; 3; 1; 4; 6]%nat)
      by (vm_compute; reflexivity).
    apply perm_idx. apply NoDup_Permutation_bis; [repeat constructor; cbn; intuition discriminate|cbn; lia|]. intros x Hx. vm_compute in Hx |- *. tauto.
  - exists st, out, nodes. split; [|split; [exact Hn|exact Hsd]]. unfold bspec_encode, bspec_encode_chunks. rewrite bs_frame_all_gframe. exact Hd.
Qed.

(* (c) applied: a database that declares Folder.X as Int64; the file stores X as an Int32 column *)
Definition db1 : db := mkDb [mkCD "Folder" None false [mkPD "X" (DValue 14) (KCanon PSerializes)] []] [].
Definition ex_clF : bs_class := mkClass 7 (S "Folder") false [(-5)%Z; 100%Z] [].
Definition ex_prX : bs_prop := mkProp 7 (S "X") (BValues (KInt32 [(-1)%Z; 70000%Z])).
Example ex_known_hyps :
  find_canonical_property db1 WInt32 (S "Folder") (S "X") = Ok (Some (S "X", VT_Int64, None)) /\
  scan db1 [] 0 (firstn 5 ex_gitems ++ skipn 5 ex_gitems)%list = true /\
  scan db1 (bs_insts (firstn 5 ex_gitems)) (sstr_total (firstn 5 ex_gitems)) (skipn 5 ex_gitems) = true /\
  forallb (prop_nonmig db1 (bs_insts (firstn 5 ex_gitems))) (bs_props (skipn 5 ex_gitems)) = true /\
  only_prop db1 ex_clF (bs_props (skipn 5 ex_gitems)) (S "X") ex_prX.
Proof. vm_compute. repeat split; reflexivity. Qed.
Example ex_known_computed :
  match decode_file db1 ex_p (bspec_encode rdA ex_gch ex_g) with
  | Ok out => List.map (fun i => (i_name i, bfind (S "X") (i_props i))) out
              = [(S "Workspace", None); (S "B", Some (VInt64 70000)); (S "A", Some (VInt64 (-1)))]
  | _ => False
  end.
Proof. vm_compute. reflexivity. Qed.
Example ex_known_by_theorem :
  exists st out nodes, decode_file db1 ex_p (bspec_encode rdA ex_gch ex_g) = Ok out /\ bspec_to_dom ex_g = Ok nodes /\
    same_dom (phi_of (f_kids ex_g) (D_of st)) (node_known db1 ex_g ex_p st (bs_props (skipn 5 ex_gitems))) nodes out.
Proof.
  destruct ex_full_hyps as (H0 & _ & Hsz & H1 & H2 & H3 & H4 & _ & _ & H6 & _ & _ & H9 & _).
  destruct ex_known_hyps as (_ & K1 & K2 & K3 & _).
  assert (Hrt : gframes_rt ex_p (List.map cmp_of_bool (ch_comp ex_gch))
                  (List.map (bs_enc_item rdA (ch_rot_ids ex_gch)) (bs_items_of ex_gorder ex_g))).
  { apply literal_frames_rt; [exact ex_inflater|exact Hsz]. }
  destruct (known_property_whole_file db1 ex_p (ch_rot_ids ex_gch) ex_gorder (List.map cmp_of_bool (ch_comp ex_gch)) ex_g
              (firstn 5 ex_gitems) (skipn 5 ex_gitems) eq_refl H0 Hrt H1 H2 H3) as (st & out & nodes & Hd & Hn & Hsd); try assumption.
  - rewrite H9. apply Permutation_sym, Permutation_rev.
  - exists st, out, nodes. split; [|split; [exact Hn|exact Hsd]]. unfold bspec_encode, bspec_encode_chunks. rewrite bs_frame_all_gframe. exact Hd.
Qed.

(* ---------------------------------------------------------------- recorded disagreements (C04 violation candidates) *)

(* Faces / Axes: the document: "The remaining two bits have no meaning" / "The remaining five bits have no meaning"; a byte with
   such a bit set is within the document and means the value without it; the reader rejects the whole file (InvalidPropData) *)
Example faces_high_bits_refuted :
  bs_col_ok (KFaces [64]) = true /\ bs_col_values [] lo0 (KFaces [64]) = Ok [VFaces 0] /\
  dec_col WFaces VT_Faces ctx0 1 (bs_enc_col rdA true (KFaces [64])) = Err E_INVALID_DATA.
Proof. vm_compute. auto. Qed.
Example axes_high_bits_refuted :
  bs_col_ok (KAxes [8]) = true /\ bs_col_values [] lo0 (KAxes [8]) = Ok [VAxes 0] /\
  dec_col WAxes VT_Axes ctx0 1 (bs_enc_col rdA true (KAxes [8])) = Err E_INVALID_DATA.
Proof. vm_compute. auto. Qed.
(* BrickColor: the document: "a single untransformed big-endian u32"; a number outside the palette is rejected by the reader *)
Example brickcolor_not_in_palette_refuted :
  bs_col_ok (KBrickColor [4]) = true /\ bs_col_values [] lo0 (KBrickColor [4]) = Ok [VBrickColor 4] /\
  dec_col WBrickColor VT_BrickColor ctx0 1 (bs_enc_col rdA true (KBrickColor [4])) = Err E_INVALID_DATA.
Proof. vm_compute. auto. Qed.
(* Font: Weight is "u16": a weight that is not one of the nine enumerated ones is silently read as 400 *)
Example font_weight_misread_refuted :
  bs_col_ok (KFont [([], 450, 0, [])]) = true /\
  bs_col_values [] lo0 (KFont [([], 450, 0, [])]) = Ok [VFont (mkFont [] 450 0 None)] /\
  dec_col WFont VT_Font ctx0 1 (bs_enc_col rdA true (KFont [([], 450, 0, [])])) = Ok ([VFont (mkFont [] 400 0 None)], []).
Proof. vm_compute. auto. Qed.
(* String: bytes that are not UTF-8 (the document: "String values are UTF-8 encoded", silent on other bytes) are replaced
   (from_utf8_lossy) for a String property, kept for a BinaryString / unknown property, and fail a ContentId property *)
Example string_not_utf8_refuted :
  dec_col WString VT_Str ctx0 1 (bs_enc_col rdA true (KString [[255]])) = Ok ([VString [239; 191; 189]], []) /\
  dec_col WString VT_BinaryString ctx0 1 (bs_enc_col rdA true (KString [[255]])) = Ok ([VBinaryString [255]], []) /\
  dec_col WString VT_ContentId ctx0 1 (bs_enc_col rdA true (KString [[255]])) = Err E_UTF8.
Proof. vm_compute. auto. Qed.
(* Bytecode (type id 0x1d, "stored identically to String properties") is not a type the reader knows: the PROP chunk is
   skipped as one with an unknown type id (see "Code" in ex_decoded_is_described) *)
Example bytecode_column_skipped : forall l, wire_of_id (bs_col_type (KBytecode l)) = None.
Proof. reflexivity. Qed.

(* Chunk order.  The document asks only that a PROP chunk follows the INST chunk of ITS class.  The reader resolves Referent
   values when it reads the PROP chunk, against the instances registered SO FAR: a PROP placed before the INST chunk of the
   class of the instance it points to loses the reference (it becomes null).  So the reader accepts FEWER orders than the
   document allows.  The document decoder accepts the file and recovers the reference. *)
Definition f_ref : bs_file :=
  mkFile None None
         [mkClass 0 (S "A") false [0%Z] []; mkClass 1 (S "B") false [1%Z] []]
         [mkProp 0 (S "Link") (BValues (KReferent [1%Z]))]
         [(0%Z, (-1)%Z); (1%Z, (-1)%Z)] [].
Definition link_of (r : res cdom) : option value :=
  match r with Ok out => match find (fun i => bytes_eqb (i_class i) (S "A")) out with Some i => bfind (S "Link") (i_props i) | None => None end
             | _ => None end.
Example ref_before_inst_order_refuted :
  bs_wf f_ref = true /\ bs_doc_wf f_ref = true /\
  (* document order of the keys: INST A, PROP A.Link, INST B, PRNT *)
  bspec_decode rdA (bspec_encode rdA (mkChoices [OInst 0; OProp 0; OInst 1; OPrnt] [] true) f_ref) = Ok f_ref /\
  link_of (decode_file db0 ex_p (bspec_encode rdA (mkChoices [OInst 0; OProp 0; OInst 1; OPrnt] [] true) f_ref)) = Some (VRef 0) /\
  link_of (decode_file db0 ex_p (bspec_encode rdA (mkChoices [OInst 0; OInst 1; OProp 0; OPrnt] [] true) f_ref)) = Some (VRef 2).
Proof. vm_compute. auto. Qed.

(* the same for SharedString values: a PROP chunk placed before the SSTR chunk is an InvalidPropData error in the reader, while the
   document decoder accepts the file (it resolves the indices when the DOM is built) *)
Definition f_sstr : bs_file :=
  mkFile None (Some [([0;1;2;3;4;5;6;7;8;9;10;11;12;13;14;15], S "shared")])
         [mkClass 0 (S "A") false [0%Z] []] [mkProp 0 (S "Blob") (BValues (KSharedString [0]))] [(0%Z, (-1)%Z)] [].
Example sstr_after_prop_order_refuted :
  bs_wf f_sstr = true /\ bs_doc_wf f_sstr = true /\
  bspec_decode rdA (bspec_encode rdA (mkChoices [OInst 0; OProp 0; OSstr; OPrnt] [] true) f_sstr) = Ok f_sstr /\
  decode_file db0 ex_p (bspec_encode rdA (mkChoices [OInst 0; OProp 0; OSstr; OPrnt] [] true) f_sstr) = Err E_INVALID_DATA /\
  scan db0 [] 0 (flat_map (item_of_key f_sstr) [OInst 0; OProp 0; OSstr; OPrnt]) = false /\
  scan db0 [] 0 (flat_map (item_of_key f_sstr) [OSstr; OInst 0; OProp 0; OPrnt]) = true.
Proof. vm_compute. repeat split; reflexivity. Qed.

(* The property called Name is read as a String column whatever type id the chunk declares *)
Definition f_name : bs_file :=
  mkFile None None [mkClass 0 (S "A") false [0%Z] []] [mkProp 0 (S "Name") (BValues (KInt32 [5%Z]))] [(0%Z, (-1)%Z)] [].
Example name_prop_not_string_refuted :
  bs_wf f_name = true /\ bs_doc_wf f_name = true /\
  bspec_decode rdA (bspec_encode rdA (mkChoices (bs_canonical_order f_name) [] true) f_name) = Ok f_name /\
  option_map (List.map (fun n => (bn_name n, bn_props n))) (match bspec_to_dom f_name with Ok n => Some n | _ => None end)
    = Some [(S "A", [(S "Name", VInt32 5)])] /\
  (* the reader takes the transformed integer for a string length, reads to the end of the chunk and names the instance "" *)
  decode_file db0 ex_p (bspec_encode rdA (mkChoices (bs_canonical_order f_name) [] true) f_name) = Ok [mkInst 1 0 (S "A") [] []].
Proof. vm_compute. auto. Qed.

(* two PROP chunks with the same name for one class: the reader keeps the LAST one only *)
Definition f_dup : bs_file :=
  mkFile None None [mkClass 0 (S "A") false [0%Z] []]
         [mkProp 0 (S "X") (BValues (KInt32 [1%Z])); mkProp 0 (S "X") (BValues (KInt32 [2%Z]))] [(0%Z, (-1)%Z)] [].
Example duplicate_prop_last_wins :
  bs_wf f_dup = true /\
  option_map (List.map bn_props) (match bspec_to_dom f_dup with Ok n => Some n | _ => None end)
    = Some [[(S "X", VInt32 1); (S "X", VInt32 2)]] /\
  option_map (List.map i_props) (match decode_file db0 ex_p (bspec_encode rdA (mkChoices (bs_canonical_order f_dup) [] true) f_dup) with Ok o => Some o | _ => None end)
    = Some [[(S "X", VInt32 2)]].
Proof. vm_compute. auto. Qed.

(* a META chunk whose strings are not UTF-8 fails the whole file (the reader's read_string) *)
Definition f_meta : bs_file := mkFile (Some [([255], [])]) None [] [] [] [].
Example meta_not_utf8_refuted :
  bs_wf f_meta = true /\ decode_file db0 ex_p (bspec_encode rdA (mkChoices (bs_canonical_order f_meta) [] true) f_meta) = Err E_UTF8.
Proof. vm_compute. auto. Qed.

(* PRNT rows forming a cycle satisfy every "should" of the document that [bs_doc_wf] checks; the reader silently drops the
   instances (they are unreachable from a root).  Excluded in [reader_rebuilds_spec_forest] by the forest hypothesis. *)
Definition f_cyc : bs_file :=
  mkFile None None [mkClass 0 (S "A") false [0%Z; 1%Z] []] [] [(0%Z, 1%Z); (1%Z, 0%Z)] [].
Example prnt_cycle_dropped :
  bs_wf f_cyc = true /\ bs_doc_wf f_cyc = true /\
  decode_file db0 ex_p (bspec_encode rdA (mkChoices (bs_canonical_order f_cyc) [] true) f_cyc) = Ok [].
Proof. vm_compute. auto. Qed.
(* INST after PRNT ([inst_prnt_ok]).  The reader links children to parents when it reads PRNT: a parent whose INST chunk comes later
   is an UnknownReferent error (first order); an instance that is only a CHILD may be registered after PRNT and the file still
   decodes (second order): the condition is sufficient, and necessary exactly for the classes that contain parents.  The
   document decoder accepts both orders. *)
Definition f_tree : bs_file :=
  mkFile None None [mkClass 0 (S "A") false [0%Z] []; mkClass 1 (S "B") false [1%Z] []] [] [(0%Z, 1%Z); (1%Z, (-1)%Z)] [].
Example prnt_before_inst_order_refuted :
  bs_wf f_tree = true /\ bs_doc_wf f_tree = true /\
  bspec_decode rdA (bspec_encode rdA (mkChoices [OInst 0; OPrnt; OInst 1] [] true) f_tree) = Ok f_tree /\
  decode_file db0 ex_p (bspec_encode rdA (mkChoices [OInst 0; OPrnt; OInst 1] [] true) f_tree) = Err E_UNKNOWN_REFERENT /\
  inst_prnt_ok false (flat_map (item_of_key f_tree) [OInst 0; OPrnt; OInst 1]) = false /\
  option_map (@List.length inst) (match decode_file db0 ex_p (bspec_encode rdA (mkChoices [OInst 1; OPrnt; OInst 0] [] true) f_tree) with Ok o => Some o | _ => None end) = Some 2%nat.
Proof. vm_compute. repeat split; reflexivity. Qed.
End BinSpecReadExamples.
