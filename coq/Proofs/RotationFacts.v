(* RotationFacts.v — facts about Model/Rotation.v: the 24 basic rotation ids round-trip, ids are small and
   non-zero, a matrix is given an id only if every entry is within f32::EPSILON of the corresponding entry of
   that basic rotation, and the refutation witness for `approx_unit_or_zero` as it was before /repo commit
   66cfd56a (0.5*I was given id 2 and came back as the identity). *)
From RbxVerif Require Import Base Bytes Value Rotation.
From Coq Require Import Lia.
Open Scope N_scope.

(* ---------------------------------------------------------------- the finite table *)
Lemma rotation_ids_count : length rotation_ids = 24%nat.
Proof. reflexivity. Qed.

Lemma rotation_ids_nodup : NoDup rotation_ids.
Proof.
  assert (H : forall l : list N, (fix nd (l : list N) := match l with [] => true | x :: r => negb (mem x r) && nd r end) l = true -> NoDup l).
  { induction l as [|x r IH]; intros Hl; [constructor|].
    apply andb_true_iff in Hl. destruct Hl as [Hx Hr]. constructor; [|now apply IH].
    intros Hin. apply negb_true_iff in Hx.
    assert (Hm : forall y s, In y s -> mem y s = true).
    { intros y s. induction s as [|z s IHs]; [easy|]. intros [->|Hy]; cbn; [now rewrite N.eqb_refl|].
      destruct (N.eqb y z); [easy|now apply IHs]. }
    rewrite (Hm _ _ Hin) in Hx. discriminate. }
  apply H. vm_compute. reflexivity.
Qed.

Definition rot_roundtrip_b (id : N) : bool :=
  match from_basic_rotation_id id with
  | Some m => match to_basic_rotation_id m with Some id' => N.eqb id' id | None => false end
  | None => false
  end.

(* all 24 ids: from_basic_rotation_id then to_basic_rotation_id gives the id back *)
Theorem rotation_ids_roundtrip : forall id, In id rotation_ids ->
  exists m, from_basic_rotation_id id = Some m /\ to_basic_rotation_id m = Some id.
Proof.
  assert (H : forallb rot_roundtrip_b rotation_ids = true) by (vm_compute; reflexivity).
  intros id Hin. rewrite forallb_forall in H. specialize (H id Hin). unfold rot_roundtrip_b in H.
  destruct (from_basic_rotation_id id) as [m|]; [|discriminate]. exists m. split; [reflexivity|].
  destruct (to_basic_rotation_id m) as [id'|]; [|discriminate]. apply N.eqb_eq in H. now subst.
Qed.

Lemma rot_lookup_in id t m : rot_lookup id t = Some m -> In id (List.map fst t).
Proof.
  induction t as [|[k m'] r IH]; cbn; [discriminate|].
  destruct (N.eqb_spec id k) as [->|Hne]; [now left|]. intros H. right. now apply IH.
Qed.

Lemma from_id_some_in id m : from_basic_rotation_id id = Some m -> In id rotation_ids.
Proof. apply rot_lookup_in. Qed.

Lemma rot_lookup_none id t : ~ In id (List.map fst t) -> rot_lookup id t = None.
Proof.
  induction t as [|[k m'] r IH]; cbn; [easy|]. intros H.
  destruct (N.eqb_spec id k) as [->|Hne]; [exfalso; apply H; now left|]. apply IH. intros Hin. apply H. now right.
Qed.

(* exactly the 24 ids are accepted *)
Theorem from_id_some_iff id : (exists m, from_basic_rotation_id id = Some m) <-> In id rotation_ids.
Proof.
  split; [intros [m H]; now apply from_id_some_in with m|].
  intros Hin. destruct (rotation_ids_roundtrip id Hin) as [m [H _]]. now exists m.
Qed.

Lemma rotation_id_bound id : In id rotation_ids -> 2 <= id /\ id <= 35.
Proof.
  assert (H : forallb (fun id => N.leb 2 id && N.leb id 35) rotation_ids = true) by (vm_compute; reflexivity).
  intros Hin. rewrite forallb_forall in H. specialize (H id Hin). apply andb_true_iff in H.
  destruct H as [H1 H2]. apply N.leb_le in H1, H2. now split.
Qed.

(* an id handed out by to_basic_rotation_id is one of the 24, so it is never the escape value 0 and fits a byte *)
Lemma to_basic_with_some approx m id :
  to_basic_rotation_id_with approx m = Some id ->
  exists b, from_basic_rotation_id id = Some b /\ id <> 0 /\ id < 256.
Proof.
  unfold to_basic_rotation_id_with.
  destruct (to_normal_id_with approx (mx (transpose m))) as [x|]; [|discriminate].
  destruct (to_normal_id_with approx (my (transpose m))) as [y|]; [|discriminate].
  destruct (to_normal_id_with approx (mz (transpose m))) as [z|]; [|discriminate].
  cbv zeta. destruct (from_basic_rotation_id (6 * x + y + 1)) as [b|] eqn:Hb; [|discriminate].
  destruct (to_normal_id_with approx (mz (transpose b))) as [z'|]; [|discriminate].
  destruct (N.eqb z' z); [|discriminate]. intros H. assert (E : 6 * x + y + 1 = id) by congruence. clear H. subst id.
  exists b. split; [exact Hb|]. apply from_id_some_in in Hb. apply rotation_id_bound in Hb. lia.
Qed.

Lemma to_basic_some m id :
  to_basic_rotation_id m = Some id -> exists b, from_basic_rotation_id id = Some b /\ id <> 0 /\ id < 256.
Proof. apply to_basic_with_some. Qed.

(* ---------------------------------------------------------------- the test before the repair: refutation witness *)
Definition F32_HALF : f32 := 0x3F000000.
Definition half_identity : mat3 :=
  m9 F32_HALF F32_ZERO F32_ZERO  F32_ZERO F32_HALF F32_ZERO  F32_ZERO F32_ZERO F32_HALF.

(* Before commit 66cfd56a, 0.5*I was given the rotation id of the identity and was therefore read back as I: the
   property "a rotation is replaced by a basic rotation only if it is (within f32::EPSILON) that rotation" failed.
   The current code refuses an id to 0.5*I. *)
Theorem snap_scaled_refuted :
  to_basic_rotation_id_with approx_unit_or_zero_pinned half_identity = Some 2 /\
  from_basic_rotation_id 2 = Some mat3_identity /\
  mat3_identity <> half_identity.
Proof. split; [vm_compute; reflexivity|]. split; [vm_compute; reflexivity|]. discriminate. Qed.

Theorem snap_scaled_repaired : to_basic_rotation_id half_identity = None.
Proof. vm_compute. reflexivity. Qed.

(* more generally every |v| <= 1 + ulp was taken for a unit by the old test *)
Lemma pinned_accepts_below_one v :
  f32_is_nan v = false -> F32_EPSILON_BITS < f32_abs_bits v -> f32_abs_bits v <= F32_ONE_PLUS_ULP ->
  approx_unit_or_zero_pinned v = Some (if f32_sign v then (-1)%Z else 1%Z).
Proof.
  intros Hn H1 H2. unfold approx_unit_or_zero_pinned. rewrite Hn.
  destruct (N.leb_spec (f32_abs_bits v) F32_EPSILON_BITS); [lia|].
  destruct (N.leb_spec (f32_abs_bits v) F32_ONE_PLUS_ULP); [reflexivity|lia].
Qed.

(* ---------------------------------------------------------------- the current test *)
(* x is within f32::EPSILON of the exact entry e (e one of 0.0, 1.0, -1.0), stated on bit patterns *)
Definition near_entry (x e : f32) : Prop :=
  f32_is_nan x = false /\
  ((e = F32_ZERO /\ f32_abs_bits x <= F32_EPSILON_BITS) \/
   (e = F32_ONE /\ f32_sign x = false /\ F32_ONE_MINUS_EPS <= f32_abs_bits x <= F32_ONE_PLUS_ULP) \/
   (e = F32_NEG_ONE /\ f32_sign x = true /\ F32_ONE_MINUS_EPS <= f32_abs_bits x <= F32_ONE_PLUS_ULP)).
Definition near_vec (v e : vec3) : Prop :=
  near_entry (vx v) (vx e) /\ near_entry (vy v) (vy e) /\ near_entry (vz v) (vz e).

(* the exact axis vector with normal id k *)
Definition axis_vec (k : N) : vec3 :=
  match k with
  | 0 => mkV3 F32_ONE F32_ZERO F32_ZERO | 1 => mkV3 F32_ZERO F32_ONE F32_ZERO | 2 => mkV3 F32_ZERO F32_ZERO F32_ONE
  | 3 => mkV3 F32_NEG_ONE F32_ZERO F32_ZERO | 4 => mkV3 F32_ZERO F32_NEG_ONE F32_ZERO | _ => mkV3 F32_ZERO F32_ZERO F32_NEG_ONE
  end.

Lemma fixed_zero x : approx_unit_or_zero x = Some 0%Z -> near_entry x F32_ZERO.
Proof.
  unfold approx_unit_or_zero, near_entry. destruct (f32_is_nan x); [discriminate|].
  destruct (N.leb_spec (f32_abs_bits x) F32_EPSILON_BITS) as [H|H].
  - intros _. split; [reflexivity|]. left. now split.
  - destruct (N.leb F32_ONE_MINUS_EPS (f32_abs_bits x) && N.leb (f32_abs_bits x) F32_ONE_PLUS_ULP); [|discriminate].
    destruct (f32_sign x); discriminate.
Qed.

Lemma fixed_unit x s : approx_unit_or_zero x = Some s -> s <> 0%Z ->
  (s = 1%Z /\ near_entry x F32_ONE) \/ (s = (-1)%Z /\ near_entry x F32_NEG_ONE).
Proof.
  unfold approx_unit_or_zero, near_entry. destruct (f32_is_nan x); [discriminate|].
  destruct (N.leb_spec (f32_abs_bits x) F32_EPSILON_BITS) as [H|H]; [intros [= <-]; easy|].
  destruct (N.leb_spec F32_ONE_MINUS_EPS (f32_abs_bits x)) as [H1|H1]; [|discriminate].
  destruct (N.leb_spec (f32_abs_bits x) F32_ONE_PLUS_ULP) as [H2|H2]; [|discriminate]. cbn [andb].
  destruct (f32_sign x) eqn:Hs; intros [= <-] _; [right|left]; (split; [reflexivity|]); (split; [reflexivity|]).
  - right. right. repeat split; assumption.
  - right. left. repeat split; assumption.
Qed.

Lemma fixed_normal_id_near v k :
  to_normal_id_with approx_unit_or_zero v = Some k -> k < 6 /\ near_vec v (axis_vec k).
Proof.
  unfold to_normal_id_with, near_vec.
  destruct (approx_unit_or_zero (vx v)) as [x|] eqn:Hx; [|discriminate].
  destruct (approx_unit_or_zero (vy v)) as [y|] eqn:Hy; [|destruct x; discriminate].
  destruct (approx_unit_or_zero (vz v)) as [z|] eqn:Hz; [|destruct x, y; discriminate].
  assert (Hu : forall p s, get_normal_id p s = Some k -> s <> 0%Z /\ ((s = 1%Z /\ k = p) \/ (s = (-1)%Z /\ k = p + 3))).
  { intros p s. unfold get_normal_id. destruct s as [|q|q]; [discriminate| |].
    - destruct q; try discriminate. intros [= <-]. split; [discriminate|]. now left.
    - destruct q; try discriminate. intros [= <-]. split; [discriminate|]. now right. }
  destruct y as [|py|py], z as [|pz|pz]; intros H.
  - (* y = 0, z = 0: first arm *)
    assert (H' : get_normal_id 0 x = Some k) by (destruct x; exact H). clear H. rename H' into H.
    apply Hu in H. destruct H as [Hne H].
    destruct (fixed_unit _ _ Hx Hne) as [[-> Hn]|[-> Hn]]; destruct H as [[? ->]|[? ->]]; try discriminate;
      (split; [cbn; lia|]); cbn [axis_vec N.add vx vy vz]; (split; [|split]); first [exact Hn | apply fixed_zero; assumption].
  - (* y = 0, z > 0 *)
    destruct x as [|px|px]; try discriminate.
    apply Hu in H. destruct H as [Hne H].
    destruct (fixed_unit _ _ Hz Hne) as [[E Hn]|[E Hn]]; destruct H as [[E' ->]|[E' ->]]; rewrite E in E'; try discriminate;
      (split; [cbn; lia|]); cbn [axis_vec N.add vx vy vz]; (split; [|split]); first [exact Hn | apply fixed_zero; assumption].
  - destruct x as [|px|px]; try discriminate.
    apply Hu in H. destruct H as [Hne H].
    destruct (fixed_unit _ _ Hz Hne) as [[E Hn]|[E Hn]]; destruct H as [[E' ->]|[E' ->]]; rewrite E in E'; try discriminate;
      (split; [cbn; lia|]); cbn [axis_vec N.add vx vy vz]; (split; [|split]); first [exact Hn | apply fixed_zero; assumption].
  - (* y > 0, z = 0 *)
    destruct x as [|px|px]; try discriminate.
    apply Hu in H. destruct H as [Hne H].
    destruct (fixed_unit _ _ Hy Hne) as [[E Hn]|[E Hn]]; destruct H as [[E' ->]|[E' ->]]; rewrite E in E'; try discriminate;
      (split; [cbn; lia|]); cbn [axis_vec N.add vx vy vz]; (split; [|split]); first [exact Hn | apply fixed_zero; assumption].
  - destruct x as [|px|px]; discriminate.
  - destruct x as [|px|px]; discriminate.
  - destruct x as [|px|px]; try discriminate.
    apply Hu in H. destruct H as [Hne H].
    destruct (fixed_unit _ _ Hy Hne) as [[E Hn]|[E Hn]]; destruct H as [[E' ->]|[E' ->]]; rewrite E in E'; try discriminate;
      (split; [cbn; lia|]); cbn [axis_vec N.add vx vy vz]; (split; [|split]); first [exact Hn | apply fixed_zero; assumption].
  - destruct x as [|px|px]; discriminate.
  - destruct x as [|px|px]; discriminate.
Qed.

(* the columns of the basic rotation with id 6x+y+1 are the axis vectors x and y (third: its own id);
   the exact entries are recognised by both tests alike *)
Definition table_columns_b (id : N) : bool :=
  match from_basic_rotation_id id with
  | None => true
  | Some b =>
    let t := transpose b in
    match to_normal_id_with approx_unit_or_zero (mx t), to_normal_id_with approx_unit_or_zero (my t),
          to_normal_id_with approx_unit_or_zero (mz t) with
    | Some x, Some y, Some z =>
      N.eqb id (6 * x + y + 1) && vec3_ok (mx t) &&
      N.eqb (vx (mx t)) (vx (axis_vec x)) && N.eqb (vy (mx t)) (vy (axis_vec x)) && N.eqb (vz (mx t)) (vz (axis_vec x)) &&
      N.eqb (vx (my t)) (vx (axis_vec y)) && N.eqb (vy (my t)) (vy (axis_vec y)) && N.eqb (vz (my t)) (vz (axis_vec y)) &&
      N.eqb (vx (mz t)) (vx (axis_vec z)) && N.eqb (vy (mz t)) (vy (axis_vec z)) && N.eqb (vz (mz t)) (vz (axis_vec z))
    | _, _, _ => false
    end
  end.

Lemma table_columns : forall id, In id rotation_ids -> table_columns_b id = true.
Proof.
  assert (H : forallb table_columns_b rotation_ids = true) by (vm_compute; reflexivity).
  intros id Hin. rewrite forallb_forall in H. now apply H.
Qed.

Definition near_mat (m b : mat3) : Prop :=
  near_vec (mx (transpose m)) (mx (transpose b)) /\
  near_vec (my (transpose m)) (my (transpose b)) /\
  near_vec (mz (transpose m)) (mz (transpose b)).

(* A matrix is given the id of a basic rotation only if every entry is within f32::EPSILON of that rotation's
   entry.  (For the test before the repair this was false: snap_scaled_refuted.) *)
Theorem rotation_snap_only_near_basis m id b :
  to_basic_rotation_id m = Some id ->
  from_basic_rotation_id id = Some b ->
  near_mat m b.
Proof.
  unfold to_basic_rotation_id, to_basic_rotation_id_with.
  destruct (to_normal_id_with approx_unit_or_zero (mx (transpose m))) as [x|] eqn:Hx; [|discriminate].
  destruct (to_normal_id_with approx_unit_or_zero (my (transpose m))) as [y|] eqn:Hy; [|discriminate].
  destruct (to_normal_id_with approx_unit_or_zero (mz (transpose m))) as [z|] eqn:Hz; [|discriminate].
  cbv zeta. destruct (from_basic_rotation_id (6 * x + y + 1)) as [b'|] eqn:Hb; [|discriminate].
  destruct (to_normal_id_with approx_unit_or_zero (mz (transpose b'))) as [z'|] eqn:Hz'; [|discriminate].
  destruct (N.eqb_spec z' z) as [->|]; [|discriminate]. intros H Hb2. assert (E : 6 * x + y + 1 = id) by congruence. clear H. subst id. rewrite Hb in Hb2. injection Hb2 as <-.
  pose proof (table_columns _ (from_id_some_in _ _ Hb)) as T. unfold table_columns_b in T. rewrite Hb in T. cbv zeta in T.
  rewrite Hz' in T.
  destruct (to_normal_id_with approx_unit_or_zero (mx (transpose b'))) as [x'|] eqn:Hx'; [|discriminate].
  destruct (to_normal_id_with approx_unit_or_zero (my (transpose b'))) as [y'|] eqn:Hy'; [|discriminate].
  repeat (apply andb_true_iff in T; destruct T as [T ?]).
  repeat match goal with H : N.eqb _ _ = true |- _ => apply N.eqb_eq in H end.
  destruct (fixed_normal_id_near _ _ Hx) as [Bx Nx]. destruct (fixed_normal_id_near _ _ Hy) as [By Ny].
  destruct (fixed_normal_id_near _ _ Hz) as [Bz Nz].
  destruct (fixed_normal_id_near _ _ Hx') as [Bx' _]. destruct (fixed_normal_id_near _ _ Hy') as [By' _].
  assert (x' = x /\ y' = y) as [-> ->] by lia.
  unfold near_mat, near_vec in *.
  repeat match goal with H : vx _ = vx _ |- _ => rewrite H; clear H | H : vy _ = vy _ |- _ => rewrite H; clear H
                       | H : vz _ = vz _ |- _ => rewrite H; clear H end.
  exact (conj Nx (conj Ny Nz)).
Qed.
