(* BytesFacts.v — arithmetic meaning and round-trip laws of the byte codecs of Model/Bytes.v. *)
From RbxVerif Require Import Base Bytes.
From Coq Require Import Lia ZifyBool ZifyN.
Open Scope N_scope.

(* lia understands div/mod by constants through this hook; Local: not exported to importers. *)
Local Ltac Zify.zify_post_hook ::= Z.div_mod_to_equations.

(* ------------------------------------------------------------------------------------------ *)
(* 1. little/big-endian fixed-width integers                                                    *)
(* ------------------------------------------------------------------------------------------ *)

Lemma pow8_S k : 2 ^ (8 * N.of_nat (S k)) = 256 * 2 ^ (8 * N.of_nat k).
Proof.
  rewrite Nat2N.inj_succ, N.mul_succ_r, N.add_comm, N.pow_add_r.
  change (2 ^ 8) with 256. reflexivity.
Qed.

Lemma pow8_0 : 2 ^ (8 * N.of_nat 0) = 1.
Proof. reflexivity. Qed.

Lemma le_bytes_length n v : length (le_bytes n v) = n.
Proof. revert v. induction n as [|k IH]; intros v; cbn [le_bytes length]; [reflexivity|]. now rewrite IH. Qed.

Lemma be_bytes_length n v : length (be_bytes n v) = n.
Proof. unfold be_bytes. rewrite rev_length. apply le_bytes_length. Qed.

Lemma bytes_ok_cons x b : bytes_ok (x :: b) = (N.ltb x 256 && bytes_ok b)%bool.
Proof. reflexivity. Qed.

Lemma bytes_ok_forall b : bytes_ok b = true <-> (forall x, In x b -> x < 256).
Proof.
  unfold bytes_ok. rewrite forallb_forall. split; intros H x Hx.
  - apply N.ltb_lt. now apply H.
  - apply N.ltb_lt. now apply H.
Qed.

Lemma bytes_ok_app a b : bytes_ok (a ++ b) = (bytes_ok a && bytes_ok b)%bool.
Proof. unfold bytes_ok. apply forallb_app. Qed.

Lemma bytes_ok_rev b : bytes_ok (rev b) = bytes_ok b.
Proof.
  destruct (bytes_ok b) eqn:E.
  - apply bytes_ok_forall. intros x Hx. apply in_rev in Hx. revert x Hx. now apply bytes_ok_forall.
  - destruct (bytes_ok (rev b)) eqn:E'; [|reflexivity].
    rewrite <- E. symmetry. apply bytes_ok_forall. intros x Hx. apply in_rev in Hx.
    revert x Hx. now apply bytes_ok_forall.
Qed.

Lemma le_bytes_ok n v : bytes_ok (le_bytes n v) = true.
Proof.
  revert v. induction n as [|k IH]; intros v; cbn [le_bytes]; [reflexivity|].
  rewrite bytes_ok_cons, IH, andb_true_r. apply N.ltb_lt. apply N.mod_lt. discriminate.
Qed.

Lemma be_bytes_ok n v : bytes_ok (be_bytes n v) = true.
Proof. unfold be_bytes. rewrite bytes_ok_rev. apply le_bytes_ok. Qed.

Lemma le_roundtrip n v : v < 2 ^ (8 * N.of_nat n) -> of_le (le_bytes n v) = v.
Proof.
  revert v. induction n as [|k IH]; intros v Hv.
  - rewrite pow8_0 in Hv. cbn [le_bytes of_le]. lia.
  - rewrite pow8_S in Hv. cbn [le_bytes of_le].
    rewrite IH.
    + symmetry. rewrite N.add_comm. apply N.div_mod. discriminate.
    + apply N.div_lt_upper_bound; [discriminate|exact Hv].
Qed.

Lemma be_roundtrip n v : v < 2 ^ (8 * N.of_nat n) -> of_be (be_bytes n v) = v.
Proof. intros Hv. unfold of_be, be_bytes. rewrite rev_involutive. now apply le_roundtrip. Qed.

Lemma of_le_bound bs : bytes_ok bs = true -> of_le bs < 2 ^ (8 * N.of_nat (length bs)).
Proof.
  induction bs as [|a bs IH]; intros Hok.
  - cbn [length of_le]. rewrite pow8_0. lia.
  - rewrite bytes_ok_cons in Hok. apply andb_true_iff in Hok. destruct Hok as [Ha Hok].
    apply N.ltb_lt in Ha. specialize (IH Hok).
    cbn [length of_le]. rewrite pow8_S.
    generalize dependent (2 ^ (8 * N.of_nat (length bs))). intros P HP.
    generalize dependent (of_le bs). intros x Hx. lia.
Qed.

Lemma of_be_bound bs : bytes_ok bs = true -> of_be bs < 2 ^ (8 * N.of_nat (length bs)).
Proof.
  intros Hok. unfold of_be. rewrite <- (rev_length bs). apply of_le_bound. now rewrite bytes_ok_rev.
Qed.

Lemma le_of_le bs : bytes_ok bs = true -> le_bytes (length bs) (of_le bs) = bs.
Proof.
  induction bs as [|a bs IH]; intros Hok; [reflexivity|].
  rewrite bytes_ok_cons in Hok. apply andb_true_iff in Hok. destruct Hok as [Ha Hok].
  apply N.ltb_lt in Ha. specialize (IH Hok).
  cbn [length of_le le_bytes].
  generalize dependent (of_le bs). intros x Hx.
  replace ((a + 256 * x) mod 256) with a by lia.
  replace ((a + 256 * x) / 256) with x by lia.
  now rewrite Hx.
Qed.

Lemma be_of_be bs : bytes_ok bs = true -> be_bytes (length bs) (of_be bs) = bs.
Proof.
  intros Hok. unfold be_bytes, of_be. rewrite <- (rev_length bs).
  rewrite le_of_le by now rewrite bytes_ok_rev. apply rev_involutive.
Qed.

(* Corollaries for the widths used by the codecs. *)
Lemma be4_roundtrip v : v < 4294967296 -> of_be (be_bytes 4 v) = v.
Proof. intros H. apply be_roundtrip. exact H. Qed.
Lemma be8_roundtrip v : v < 18446744073709551616 -> of_be (be_bytes 8 v) = v.
Proof. intros H. apply be_roundtrip. exact H. Qed.

(* ------------------------------------------------------------------------------------------ *)
(* 2. two's complement wrap                                                                     *)
(* ------------------------------------------------------------------------------------------ *)

Lemma wrap_u_bound w z : wrap_u w z < 2 ^ w.
Proof.
  unfold wrap_u.
  assert (Hp : (0 < 2 ^ Z.of_N w)%Z) by (apply Z.pow_pos_nonneg; lia).
  pose proof (Z.mod_pos_bound z _ Hp) as Hb.
  apply N2Z.inj_lt. rewrite Z2N.id by lia. rewrite N2Z.inj_pow. exact (proj2 Hb).
Qed.

Lemma wrap_u32_Z z : Z.of_N (wrap_u 32 z) = (z mod 4294967296)%Z.
Proof.
  unfold wrap_u. change (2 ^ Z.of_N 32)%Z with 4294967296%Z.
  rewrite Z2N.id; [reflexivity|]. apply Z.mod_pos_bound. reflexivity.
Qed.

Lemma wrap_u64_Z z : Z.of_N (wrap_u 64 z) = (z mod 18446744073709551616)%Z.
Proof.
  unfold wrap_u. change (2 ^ Z.of_N 64)%Z with 18446744073709551616%Z.
  rewrite Z2N.id; [reflexivity|]. apply Z.mod_pos_bound. reflexivity.
Qed.

Lemma wrap_s32_Z n :
  wrap_s 32 n = if N.ltb n 2147483648 then Z.of_N n else (Z.of_N n - 4294967296)%Z.
Proof. reflexivity. Qed.

Lemma wrap_s64_Z n :
  wrap_s 64 n = if N.ltb n 9223372036854775808 then Z.of_N n else (Z.of_N n - 18446744073709551616)%Z.
Proof. reflexivity. Qed.

Lemma wrap_u32_bound z : wrap_u 32 z < 4294967296.
Proof. exact (wrap_u_bound 32 z). Qed.
Lemma wrap_u64_bound z : wrap_u 64 z < 18446744073709551616.
Proof. exact (wrap_u_bound 64 z). Qed.

(* closed forms *)
Lemma to_i32_eq z : to_i32 z = ((z + 2147483648) mod 4294967296 - 2147483648)%Z.
Proof.
  unfold to_i32. rewrite wrap_s32_Z.
  pose proof (wrap_u32_Z z) as H.
  destruct (N.ltb_spec (wrap_u 32 z) 2147483648); lia.
Qed.

Lemma to_i64_eq z :
  to_i64 z = ((z + 9223372036854775808) mod 18446744073709551616 - 9223372036854775808)%Z.
Proof.
  unfold to_i64. rewrite wrap_s64_Z.
  pose proof (wrap_u64_Z z) as H.
  destruct (N.ltb_spec (wrap_u 64 z) 9223372036854775808); lia.
Qed.

Lemma in_i32_iff z : in_i32 z = true <-> (-2147483648 <= z < 2147483648)%Z.
Proof. unfold in_i32. lia. Qed.
Lemma in_i64_iff z : in_i64 z = true <-> (-9223372036854775808 <= z < 9223372036854775808)%Z.
Proof. unfold in_i64. lia. Qed.

Lemma to_i32_id z : in_i32 z = true -> to_i32 z = z.
Proof. rewrite in_i32_iff, to_i32_eq. lia. Qed.
Lemma to_i64_id z : in_i64 z = true -> to_i64 z = z.
Proof. rewrite in_i64_iff, to_i64_eq. lia. Qed.

Lemma wrap_roundtrip32 z : in_i32 z = true -> wrap_s 32 (wrap_u 32 z) = z.
Proof. exact (to_i32_id z). Qed.
Lemma wrap_roundtrip64 z : in_i64 z = true -> wrap_s 64 (wrap_u 64 z) = z.
Proof. exact (to_i64_id z). Qed.

Lemma to_i32_range z : in_i32 (to_i32 z) = true.
Proof. rewrite in_i32_iff, to_i32_eq. lia. Qed.
Lemma to_i64_range z : in_i64 (to_i64 z) = true.
Proof. rewrite in_i64_iff, to_i64_eq. lia. Qed.

Lemma wrap_s32_range n : n < 4294967296 -> in_i32 (wrap_s 32 n) = true.
Proof. intros H. rewrite in_i32_iff, wrap_s32_Z. destruct (N.ltb_spec n 2147483648); lia. Qed.
Lemma wrap_s64_range n : n < 18446744073709551616 -> in_i64 (wrap_s 64 n) = true.
Proof. intros H. rewrite in_i64_iff, wrap_s64_Z. destruct (N.ltb_spec n 9223372036854775808); lia. Qed.

Lemma wrap_us32 n : n < 4294967296 -> wrap_u 32 (wrap_s 32 n) = n.
Proof.
  intros H. apply N2Z.inj. rewrite wrap_u32_Z, wrap_s32_Z.
  destruct (N.ltb_spec n 2147483648); lia.
Qed.
Lemma wrap_us64 n : n < 18446744073709551616 -> wrap_u 64 (wrap_s 64 n) = n.
Proof.
  intros H. apply N2Z.inj. rewrite wrap_u64_Z, wrap_s64_Z.
  destruct (N.ltb_spec n 9223372036854775808); lia.
Qed.
Lemma wrap_us n : n < 2 ^ 32 -> wrap_u 32 (wrap_s 32 n) = n.
Proof. exact (wrap_us32 n). Qed.
Lemma wrap_us' n : n < 2 ^ 64 -> wrap_u 64 (wrap_s 64 n) = n.
Proof. exact (wrap_us64 n). Qed.

(* wrap_u sees only the residue: the bit pattern of to_iN z is that of z *)
Lemma wrap_u32_to_i32 z : wrap_u 32 (to_i32 z) = wrap_u 32 z.
Proof. apply N2Z.inj. rewrite !wrap_u32_Z, to_i32_eq. lia. Qed.
Lemma wrap_u64_to_i64 z : wrap_u 64 (to_i64 z) = wrap_u 64 z.
Proof. apply N2Z.inj. rewrite !wrap_u64_Z, to_i64_eq. lia. Qed.

(* ------------------------------------------------------------------------------------------ *)
(* 3. zigzag transform                                                                          *)
(* ------------------------------------------------------------------------------------------ *)

Lemma shiftl1 v : Z.shiftl v 1 = (2 * v)%Z.
Proof. rewrite Z.shiftl_mul_pow2 by lia. change (2 ^ 1)%Z with 2%Z. lia. Qed.
Lemma shiftr1 v : Z.shiftr v 1 = (v / 2)%Z.
Proof. rewrite Z.shiftr_div_pow2 by lia. reflexivity. Qed.
Lemma shiftr31 v : Z.shiftr v 31 = (v / 2147483648)%Z.
Proof. rewrite Z.shiftr_div_pow2 by lia. reflexivity. Qed.
Lemma shiftr63 v : Z.shiftr v 63 = (v / 9223372036854775808)%Z.
Proof. rewrite Z.shiftr_div_pow2 by lia. reflexivity. Qed.
Lemma land1 v : Z.land v 1 = (v mod 2)%Z.
Proof. change 1%Z with (Z.ones 1) at 1. rewrite Z.land_ones by lia. reflexivity. Qed.
Lemma lxor_m1 a : Z.lxor a (-1) = (- a - 1)%Z.
Proof. rewrite Z.lxor_m1_r. unfold Z.lnot. lia. Qed.

(* sign word: all-zeros or all-ones *)
Lemma sign31 v : in_i32 v = true -> Z.shiftr v 31 = if (0 <=? v)%Z then 0%Z else (-1)%Z.
Proof. rewrite in_i32_iff, shiftr31. intros H. destruct (Z.leb_spec 0 v); lia. Qed.
Lemma sign63 v : in_i64 v = true -> Z.shiftr v 63 = if (0 <=? v)%Z then 0%Z else (-1)%Z.
Proof. rewrite in_i64_iff, shiftr63. intros H. destruct (Z.leb_spec 0 v); lia. Qed.

Lemma neg_land1 v : (- Z.land v 1)%Z = if (v mod 2 =? 0)%Z then 0%Z else (-1)%Z.
Proof. rewrite land1. destruct (Z.eqb_spec (v mod 2) 0); lia. Qed.

Lemma transform_i32_spec v : in_i32 v = true ->
  transform_i32 v = to_i32 (if (0 <=? v)%Z then 2 * v else - 2 * v - 1)%Z.
Proof.
  intros H. unfold transform_i32. rewrite (sign31 v H), shiftl1.
  destruct (0 <=? v)%Z; [now rewrite Z.lxor_0_r|]. rewrite lxor_m1. f_equal. lia.
Qed.

Lemma transform_i64_spec v : in_i64 v = true ->
  transform_i64 v = to_i64 (if (0 <=? v)%Z then 2 * v else - 2 * v - 1)%Z.
Proof.
  intros H. unfold transform_i64. rewrite (sign63 v H), shiftl1.
  destruct (0 <=? v)%Z; [now rewrite Z.lxor_0_r|]. rewrite lxor_m1. f_equal. lia.
Qed.

(* the u32 bit pattern written to the file is the textbook zigzag code *)
Lemma transform_i32_bits v : in_i32 v = true ->
  Z.of_N (i32_bits (transform_i32 v)) = (if (0 <=? v)%Z then 2 * v else - 2 * v - 1)%Z.
Proof.
  intros H. rewrite (transform_i32_spec v H). unfold i32_bits.
  rewrite wrap_u32_to_i32, wrap_u32_Z. apply in_i32_iff in H.
  destruct (Z.leb_spec 0 v); lia.
Qed.
Lemma transform_i64_bits v : in_i64 v = true ->
  Z.of_N (i64_bits (transform_i64 v)) = (if (0 <=? v)%Z then 2 * v else - 2 * v - 1)%Z.
Proof.
  intros H. rewrite (transform_i64_spec v H). unfold i64_bits.
  rewrite wrap_u64_to_i64, wrap_u64_Z. apply in_i64_iff in H.
  destruct (Z.leb_spec 0 v); lia.
Qed.

(* untransform holds for every integer v (only v's low 32 / 64 bits matter) *)
Lemma untransform_i32_spec v :
  untransform_i32 v =
  to_i32 (if (v mod 2 =? 0)%Z then (v mod 4294967296) / 2 else - ((v mod 4294967296) / 2) - 1)%Z.
Proof.
  unfold untransform_i32. rewrite neg_land1, shiftr1, wrap_u32_Z.
  destruct (v mod 2 =? 0)%Z; [now rewrite Z.lxor_0_r|]. now rewrite lxor_m1.
Qed.
Lemma untransform_i64_spec v :
  untransform_i64 v =
  to_i64 (if (v mod 2 =? 0)%Z then (v mod 18446744073709551616) / 2
          else - ((v mod 18446744073709551616) / 2) - 1)%Z.
Proof.
  unfold untransform_i64. rewrite neg_land1, shiftr1, wrap_u64_Z.
  destruct (v mod 2 =? 0)%Z; [now rewrite Z.lxor_0_r|]. now rewrite lxor_m1.
Qed.

Lemma transform_i32_range v : in_i32 (transform_i32 v) = true.
Proof. apply to_i32_range. Qed.
Lemma transform_i64_range v : in_i64 (transform_i64 v) = true.
Proof. apply to_i64_range. Qed.
Lemma untransform_i32_range v : in_i32 (untransform_i32 v) = true.
Proof. apply to_i32_range. Qed.
Lemma untransform_i64_range v : in_i64 (untransform_i64 v) = true.
Proof. apply to_i64_range. Qed.

Lemma zigzag32_roundtrip v : in_i32 v = true -> untransform_i32 (transform_i32 v) = v.
Proof.
  intros H. rewrite untransform_i32_spec, (transform_i32_spec v H), !to_i32_eq.
  apply in_i32_iff in H.
  destruct (Z.leb_spec 0 v);
    match goal with |- context [(?a =? 0)%Z] => destruct (Z.eqb_spec a 0) end; lia.
Qed.

Lemma zigzag32_roundtrip' v : in_i32 v = true -> transform_i32 (untransform_i32 v) = v.
Proof.
  intros H. rewrite (transform_i32_spec _ (untransform_i32_range v)).
  rewrite untransform_i32_spec, !to_i32_eq.
  apply in_i32_iff in H.
  destruct (Z.eqb_spec (v mod 2) 0);
    match goal with |- context [(0 <=? ?a)%Z] => destruct (Z.leb_spec 0 a) end; lia.
Qed.

Lemma zigzag64_roundtrip v : in_i64 v = true -> untransform_i64 (transform_i64 v) = v.
Proof.
  intros H. rewrite untransform_i64_spec, (transform_i64_spec v H), !to_i64_eq.
  apply in_i64_iff in H.
  destruct (Z.leb_spec 0 v);
    match goal with |- context [(?a =? 0)%Z] => destruct (Z.eqb_spec a 0) end; lia.
Qed.

Lemma zigzag64_roundtrip' v : in_i64 v = true -> transform_i64 (untransform_i64 v) = v.
Proof.
  intros H. rewrite (transform_i64_spec _ (untransform_i64_range v)).
  rewrite untransform_i64_spec, !to_i64_eq.
  apply in_i64_iff in H.
  destruct (Z.eqb_spec (v mod 2) 0);
    match goal with |- context [(0 <=? ?a)%Z] => destruct (Z.leb_spec 0 a) end; lia.
Qed.

(* ------------------------------------------------------------------------------------------ *)
(* 4. one-bit rotations                                                                         *)
(* ------------------------------------------------------------------------------------------ *)

Lemma rotl32_bound n : n < 2 ^ 32 -> rotl32 n < 2 ^ 32.
Proof. change (2 ^ 32) with 4294967296. unfold rotl32. lia. Qed.
Lemma rotr32_bound n : n < 2 ^ 32 -> rotr32 n < 2 ^ 32.
Proof. change (2 ^ 32) with 4294967296. unfold rotr32. lia. Qed.
Lemma rot32_roundtrip n : n < 2 ^ 32 -> rotr32 (rotl32 n) = n.
Proof. change (2 ^ 32) with 4294967296. unfold rotl32, rotr32. lia. Qed.
Lemma rot32_roundtrip' n : n < 2 ^ 32 -> rotl32 (rotr32 n) = n.
Proof. change (2 ^ 32) with 4294967296. unfold rotl32, rotr32. lia. Qed.

Lemma rotl64_bound n : n < 2 ^ 64 -> rotl64 n < 2 ^ 64.
Proof. change (2 ^ 64) with 18446744073709551616. unfold rotl64. lia. Qed.
Lemma rotr64_bound n : n < 2 ^ 64 -> rotr64 n < 2 ^ 64.
Proof. change (2 ^ 64) with 18446744073709551616. unfold rotr64. lia. Qed.
Lemma rot64_roundtrip n : n < 2 ^ 64 -> rotr64 (rotl64 n) = n.
Proof. change (2 ^ 64) with 18446744073709551616. unfold rotl64, rotr64. lia. Qed.
Lemma rot64_roundtrip' n : n < 2 ^ 64 -> rotl64 (rotr64 n) = n.
Proof. change (2 ^ 64) with 18446744073709551616. unfold rotl64, rotr64. lia. Qed.

(* ------------------------------------------------------------------------------------------ *)
(* 5. interleaving                                                                              *)
(* ------------------------------------------------------------------------------------------ *)

Lemma flat_map_length_const {A B} (f : A -> list B) n l :
  (forall x, In x l -> length (f x) = n) -> length (flat_map f l) = (n * length l)%nat.
Proof.
  induction l as [|a l IH]; intros H; cbn [flat_map length]; [lia|].
  rewrite app_length, IH by (intros; apply H; now right).
  rewrite (H a) by now left. lia.
Qed.

Lemma interleave_length width rows : length (interleave width rows) = (width * length rows)%nat.
Proof.
  unfold interleave. rewrite (flat_map_length_const _ (length rows)).
  - rewrite seq_length. lia.
  - intros; apply map_length.
Qed.

Lemma deinterleave_length width len buf : length (deinterleave width len buf) = len.
Proof. unfold deinterleave. now rewrite map_length, seq_length. Qed.

Lemma deinterleave_row_length width len buf :
  Forall (fun r => length r = width) (deinterleave width len buf).
Proof.
  unfold deinterleave. apply Forall_forall. intros r Hr. apply in_map_iff in Hr.
  destruct Hr as [i [<- _]]. now rewrite map_length, seq_length.
Qed.

Lemma nth_flat_map_seq {B} (f : nat -> list B) d len s width i j :
  (forall x, length (f x) = len) -> (i < len)%nat -> (j < width)%nat ->
  nth (i + len * j) (flat_map f (seq s width)) d = nth i (f (s + j)%nat) d.
Proof.
  intros Hlen Hi. revert s j. induction width as [|w IH]; intros s j Hj; [lia|].
  cbn [seq flat_map]. destruct j as [|j'].
  - rewrite Nat.mul_0_r, !Nat.add_0_r. apply app_nth1. now rewrite Hlen.
  - rewrite app_nth2 by (rewrite Hlen; lia). rewrite Hlen.
    replace (i + len * S j' - len)%nat with (i + len * j')%nat by lia.
    rewrite IH by lia. f_equal. f_equal. lia.
Qed.

Lemma nth_byte_nil j : nth_byte j [] = 0.
Proof. destruct j; reflexivity. Qed.

Lemma nth_map_nth_byte i j (rows : list bytes) :
  nth i (List.map (nth_byte j) rows) 0 = nth_byte j (nth i rows []).
Proof. rewrite <- (map_nth (nth_byte j) rows [] i). now rewrite nth_byte_nil. Qed.

(* element (i, j) sits at position i + len * j *)
Lemma nth_byte_interleave width rows i j :
  (i < length rows)%nat -> (j < width)%nat ->
  nth_byte (i + length rows * j) (interleave width rows) = nth_byte j (nth i rows []).
Proof.
  intros Hi Hj. unfold nth_byte at 1. unfold interleave.
  rewrite nth_flat_map_seq; [|intros; apply map_length|exact Hi|exact Hj].
  cbn [Nat.add]. apply nth_map_nth_byte.
Qed.

Lemma map_nth_seq {A} (l : list A) d : List.map (fun i => nth i l d) (seq 0 (length l)) = l.
Proof.
  induction l as [|a l IH]; [reflexivity|].
  cbn [length seq List.map nth]. f_equal. rewrite <- seq_shift, map_map. exact IH.
Qed.

Lemma deinterleave_interleave width rows :
  Forall (fun r => length r = width) rows ->
  deinterleave width (length rows) (interleave width rows) = rows.
Proof.
  intros Hrows. unfold deinterleave.
  etransitivity; [|apply (map_nth_seq rows [])].
  apply map_ext_in. intros i Hi. apply in_seq in Hi.
  assert (Hw : length (nth i rows []) = width).
  { rewrite Forall_forall in Hrows. apply Hrows. apply nth_In. lia. }
  etransitivity; [|apply (map_nth_seq (nth i rows []) 0)]. rewrite Hw.
  apply map_ext_in. intros j Hj. apply in_seq in Hj.
  rewrite nth_byte_interleave; [reflexivity|exact (proj2 Hi)|exact (proj2 Hj)].
Qed.

Lemma nth_map_seq {B} (f : nat -> B) d s n k :
  (k < n)%nat -> nth k (List.map f (seq s n)) d = f (s + k)%nat.
Proof.
  intros Hk. rewrite (nth_indep _ d (f 0%nat)) by now rewrite map_length, seq_length.
  rewrite map_nth. now rewrite seq_nth.
Qed.

Lemma interleave_deinterleave width len buf :
  length buf = (width * len)%nat -> interleave width (deinterleave width len buf) = buf.
Proof.
  intros Hlen. apply (nth_ext _ _ 0 0).
  - now rewrite interleave_length, deinterleave_length.
  - rewrite interleave_length, deinterleave_length. intros k Hk.
    assert (Hl : len <> 0%nat) by (intros ->; lia).
    pose proof (Nat.div_mod k len Hl) as Hdm.
    pose proof (Nat.mod_upper_bound k len Hl) as Hm.
    assert (Hj : (k / len < width)%nat) by (apply Nat.div_lt_upper_bound; [exact Hl|lia]).
    rewrite Hdm at 1. rewrite Nat.add_comm.
    pose proof (nth_byte_interleave width (deinterleave width len buf) (k mod len) (k / len)) as E.
    rewrite deinterleave_length in E. specialize (E Hm Hj).
    unfold nth_byte at 1 in E. rewrite E.
    unfold deinterleave. rewrite nth_map_seq by exact Hm. cbn [Nat.add].
    unfold nth_byte at 1. rewrite nth_map_seq by exact Hj. cbn [Nat.add].
    unfold nth_byte. f_equal. lia.
Qed.

Lemma interleave_ok width rows :
  Forall (fun r => bytes_ok r = true) rows -> bytes_ok (interleave width rows) = true.
Proof.
  intros H. apply bytes_ok_forall. intros x Hx. unfold interleave in Hx.
  apply in_flat_map in Hx. destruct Hx as [j [_ Hx]]. apply in_map_iff in Hx.
  destruct Hx as [r [<- Hr]]. rewrite Forall_forall in H. specialize (H r Hr).
  unfold nth_byte. destruct (nth_in_or_default j r 0) as [Hin| ->]; [|reflexivity].
  revert Hin. now apply bytes_ok_forall.
Qed.

(* ------------------------------------------------------------------------------------------ *)
(* 6. referent delta coding                                                                     *)
(* ------------------------------------------------------------------------------------------ *)

Lemma delta_step v last : in_i32 v = true -> to_i32 (to_i32 (v - last) + last) = v.
Proof. rewrite in_i32_iff, !to_i32_eq. lia. Qed.

Lemma delta_encode_length last vs : length (delta_encode last vs) = length vs.
Proof. revert last. induction vs as [|v r IH]; intros last; cbn [delta_encode length]; [reflexivity|]. now rewrite IH. Qed.

Lemma delta_decode_length last ds : length (delta_decode last ds) = length ds.
Proof. revert last. induction ds as [|v r IH]; intros last; cbn [delta_decode length]; [reflexivity|]. now rewrite IH. Qed.

Lemma delta_encode_range last vs : Forall (fun v => in_i32 v = true) (delta_encode last vs).
Proof.
  revert last. induction vs as [|v r IH]; intros last; cbn [delta_encode]; constructor.
  - apply to_i32_range. - apply IH.
Qed.

Lemma delta_decode_range last ds : Forall (fun v => in_i32 v = true) (delta_decode last ds).
Proof.
  revert last. induction ds as [|v r IH]; intros last; cbn [delta_decode]; constructor.
  - apply to_i32_range. - apply IH.
Qed.

(* [last] need not be in range: only the decoded values must be *)
Lemma delta_roundtrip_gen last vs :
  Forall (fun v => in_i32 v = true) vs -> delta_decode last (delta_encode last vs) = vs.
Proof.
  intros H. revert last. induction H as [|v r Hv Hr IH]; intros last; [reflexivity|].
  cbn [delta_encode delta_decode]. rewrite (delta_step v last Hv). now rewrite IH.
Qed.

Lemma delta_roundtrip last vs :
  in_i32 last = true -> Forall (fun v => in_i32 v = true) vs ->
  delta_decode last (delta_encode last vs) = vs.
Proof. intros _. apply delta_roundtrip_gen. Qed.

Lemma delta_step' d last : in_i32 d = true -> to_i32 (to_i32 (d + last) - last) = d.
Proof. rewrite in_i32_iff, !to_i32_eq. lia. Qed.

Lemma delta_roundtrip' last ds :
  Forall (fun v => in_i32 v = true) ds -> delta_encode last (delta_decode last ds) = ds.
Proof.
  intros H. revert last. induction H as [|d r Hd Hr IH]; intros last; [reflexivity|].
  cbn [delta_encode delta_decode]. rewrite (delta_step' d last Hd). now rewrite IH.
Qed.

(* ------------------------------------------------------------------------------------------ *)
(* 8. parser facts (before 7, which uses them)                                                  *)
(* ------------------------------------------------------------------------------------------ *)

Lemma take_n_app a rest : take_n (length a) (a ++ rest) = Some (a, rest).
Proof. induction a as [|x a IH]; [reflexivity|]. cbn [length app take_n]. now rewrite IH. Qed.

Lemma take_n_length n b h t : take_n n b = Some (h, t) -> length h = n /\ b = h ++ t.
Proof.
  revert b h t. induction n as [|k IH]; intros b h t H; cbn [take_n] in H.
  - injection H as <- <-. now split.
  - destruct b as [|x r]; [discriminate|].
    destruct (take_n k r) as [[h' t']|] eqn:E; [|discriminate].
    injection H as <- <-. destruct (IH _ _ _ E) as [Hl ->]. cbn [length app]. now rewrite Hl.
Qed.

Lemma take_n_short n b : (length b < n)%nat -> take_n n b = None.
Proof.
  revert b. induction n as [|k IH]; intros b H; [lia|].
  cbn [take_n]. destruct b as [|x r]; [reflexivity|]. cbn [length] in H.
  rewrite IH by lia. reflexivity.
Qed.

Lemma take_n_some n b : (n <= length b)%nat -> exists h t, take_n n b = Some (h, t).
Proof.
  intros H. rewrite <- (firstn_skipn n b). exists (firstn n b), (skipn n b).
  rewrite <- (firstn_length_le b H) at 1. apply take_n_app.
Qed.

Lemma read_exact_app a rest : read_exact (length a) (a ++ rest) = Ok (a, rest).
Proof. unfold read_exact. now rewrite take_n_app. Qed.

Lemma read_exact_short n b : (length b < n)%nat -> read_exact n b = Err ERR_EOF.
Proof. intros H. unfold read_exact. now rewrite take_n_short. Qed.

Lemma read_exact_ok n b h t : read_exact n b = Ok (h, t) -> length h = n /\ b = h ++ t.
Proof.
  unfold read_exact. destruct (take_n n b) as [[h' t']|] eqn:E; [|discriminate].
  intros H. injection H as <- <-. now apply take_n_length.
Qed.

Lemma read_exact_consumes n b h t : read_exact n b = Ok (h, t) -> length b = (n + length t)%nat.
Proof. intros H. apply read_exact_ok in H. destruct H as [<- ->]. apply app_length. Qed.

(* read_exact never panics / runs out of fuel: it succeeds or reports EOF *)
Lemma read_exact_cases n b :
  (exists h t, read_exact n b = Ok (h, t)) \/ read_exact n b = Err ERR_EOF.
Proof.
  unfold read_exact. destruct (take_n n b) as [[h t]|]; [left; now exists h, t|now right].
Qed.

Lemma pbind_ok {A B} (p : parser A) (f : A -> parser B) b r b' :
  pbind p f b = Ok (r, b') -> exists a b1, p b = Ok (a, b1) /\ f a b1 = Ok (r, b').
Proof.
  unfold pbind. destruct (p b) as [[a b1]| | |]; try discriminate. intros H. now exists a, b1.
Qed.

Lemma pbind_ok_intro {A B} (p : parser A) (f : A -> parser B) b a b1 :
  p b = Ok (a, b1) -> pbind p f b = f a b1.
Proof. unfold pbind. now intros ->. Qed.

Lemma read_le_ok n b v b' :
  read_le n b = Ok (v, b') -> exists h, length h = n /\ b = h ++ b' /\ v = of_le h.
Proof.
  unfold read_le. intros H. apply pbind_ok in H. destruct H as [h [b1 [H1 H2]]].
  unfold pret in H2. injection H2 as <- <-. apply read_exact_ok in H1. destruct H1 as [Hl ->].
  now exists h.
Qed.

Lemma read_be_ok n b v b' :
  read_be n b = Ok (v, b') -> exists h, length h = n /\ b = h ++ b' /\ v = of_be h.
Proof.
  unfold read_be. intros H. apply pbind_ok in H. destruct H as [h [b1 [H1 H2]]].
  unfold pret in H2. injection H2 as <- <-. apply read_exact_ok in H1. destruct H1 as [Hl ->].
  now exists h.
Qed.

Lemma read_le_consumes n b v b' : read_le n b = Ok (v, b') -> length b = (n + length b')%nat.
Proof. intros H. apply read_le_ok in H. destruct H as [h [<- [-> _]]]. apply app_length. Qed.

Lemma read_be_consumes n b v b' : read_be n b = Ok (v, b') -> length b = (n + length b')%nat.
Proof. intros H. apply read_be_ok in H. destruct H as [h [<- [-> _]]]. apply app_length. Qed.

Lemma read_u8_consumes b v b' : read_u8 b = Ok (v, b') -> length b = (1 + length b')%nat.
Proof. exact (read_le_consumes 1 b v b'). Qed.

Lemma read_le_i_consumes n w b v b' : read_le_i n w b = Ok (v, b') -> length b = (n + length b')%nat.
Proof.
  unfold read_le_i. intros H. apply pbind_ok in H. destruct H as [u [b1 [H1 H2]]].
  unfold pret in H2. injection H2 as _ <-. now apply read_le_consumes in H1.
Qed.

Lemma read_le_app n v rest :
  v < 2 ^ (8 * N.of_nat n) -> read_le n (le_bytes n v ++ rest) = Ok (v, rest).
Proof.
  intros Hv. unfold read_le.
  rewrite (pbind_ok_intro _ _ _ (le_bytes n v) rest).
  - unfold pret. now rewrite le_roundtrip.
  - rewrite <- (le_bytes_length n v) at 1. apply read_exact_app.
Qed.

Lemma read_be_app n v rest :
  v < 2 ^ (8 * N.of_nat n) -> read_be n (be_bytes n v ++ rest) = Ok (v, rest).
Proof.
  intros Hv. unfold read_be.
  rewrite (pbind_ok_intro _ _ _ (be_bytes n v) rest).
  - unfold pret. now rewrite be_roundtrip.
  - rewrite <- (be_bytes_length n v) at 1. apply read_exact_app.
Qed.

Lemma read_le_value_bound n b v b' :
  bytes_ok b = true -> read_le n b = Ok (v, b') -> v < 2 ^ (8 * N.of_nat n).
Proof.
  intros Hok H. apply read_le_ok in H. destruct H as [h [<- [-> ->]]].
  rewrite bytes_ok_app in Hok. apply andb_true_iff in Hok. now apply of_le_bound.
Qed.

Lemma prepeat_length {A} n (p : parser A) b l b' : prepeat n p b = Ok (l, b') -> length l = n.
Proof.
  revert b l b'. induction n as [|k IH]; intros b l b' H; cbn [prepeat] in H.
  - unfold pret in H. now injection H as <- _.
  - apply pbind_ok in H. destruct H as [a [b1 [_ H]]].
    apply pbind_ok in H. destruct H as [r [b2 [Hr H]]].
    unfold pret in H. injection H as <- _. cbn [length]. f_equal. now apply IH in Hr.
Qed.

(* if every successful run of p consumes exactly k bytes, prepeat n p consumes n * k *)
Lemma prepeat_consumes {A} k n (p : parser A) :
  (forall b a b', p b = Ok (a, b') -> length b = (k + length b')%nat) ->
  forall b l b', prepeat n p b = Ok (l, b') -> length b = (n * k + length b')%nat.
Proof.
  intros Hp. induction n as [|m IH]; intros b l b' H; cbn [prepeat] in H.
  - unfold pret in H. now injection H as _ <-.
  - apply pbind_ok in H. destruct H as [a [b1 [Ha H]]].
    apply pbind_ok in H. destruct H as [r [b2 [Hr H]]].
    unfold pret in H. injection H as _ <-.
    apply Hp in Ha. apply IH in Hr. lia.
Qed.

(* ------------------------------------------------------------------------------------------ *)
(* 7. array codecs                                                                              *)
(* ------------------------------------------------------------------------------------------ *)

(* common shape of all interleaved array codecs *)
Lemma array_roundtrip_gen {A} w (enc : A -> bytes) (dec : bytes -> A) vs rest :
  (forall v, In v vs -> length (enc v) = w /\ dec (enc v) = v) ->
  pbind (read_exact (length vs * w))
        (fun buf => pret (List.map dec (deinterleave w (length vs) buf)))
        (interleave w (List.map enc vs) ++ rest)
  = Ok (vs, rest).
Proof.
  intros H.
  rewrite (pbind_ok_intro _ _ _ (interleave w (List.map enc vs)) rest).
  - unfold pret. f_equal. f_equal.
    rewrite <- (map_length enc vs) at 1.
    rewrite deinterleave_interleave.
    + rewrite map_map. rewrite <- (map_id vs) at 2. apply map_ext_in. intros v Hv. now apply H.
    + apply Forall_forall. intros r Hr. apply in_map_iff in Hr. destruct Hr as [v [<- Hv]]. now apply H.
  - replace (length vs * w)%nat with (length (interleave w (List.map enc vs)))
      by (rewrite interleave_length, map_length; lia).
    apply read_exact_app.
Qed.

Lemma i32_cell_roundtrip v : in_i32 v = true ->
  untransform_i32 (wrap_s 32 (of_be (be_bytes 4 (i32_bits (transform_i32 v))))) = v.
Proof.
  intros H. unfold i32_bits. rewrite be4_roundtrip by apply wrap_u32_bound.
  rewrite (wrap_roundtrip32 _ (transform_i32_range v)). now apply zigzag32_roundtrip.
Qed.

Lemma i64_cell_roundtrip v : in_i64 v = true ->
  untransform_i64 (wrap_s 64 (of_be (be_bytes 8 (i64_bits (transform_i64 v))))) = v.
Proof.
  intros H. unfold i64_bits. rewrite be8_roundtrip by apply wrap_u64_bound.
  rewrite (wrap_roundtrip64 _ (transform_i64_range v)). now apply zigzag64_roundtrip.
Qed.

Lemma i32_array_roundtrip vs rest :
  Forall (fun v => in_i32 v = true) vs ->
  dec_i32_array (length vs) (enc_i32_array vs ++ rest) = Ok (vs, rest).
Proof.
  intros H. unfold dec_i32_array, enc_i32_array.
  apply (array_roundtrip_gen 4 (fun v => be_bytes 4 (i32_bits (transform_i32 v)))
           (fun row => untransform_i32 (wrap_s 32 (of_be row)))).
  intros v Hv. split; [apply be_bytes_length|].
  rewrite Forall_forall in H. now apply i32_cell_roundtrip, H.
Qed.

Lemma u32_array_roundtrip vs rest :
  Forall (fun v => v < 2 ^ 32) vs ->
  dec_u32_array (length vs) (enc_u32_array vs ++ rest) = Ok (vs, rest).
Proof.
  intros H. unfold dec_u32_array, enc_u32_array.
  apply (array_roundtrip_gen 4 (be_bytes 4) of_be).
  intros v Hv. split; [apply be_bytes_length|].
  rewrite Forall_forall in H. apply be4_roundtrip. exact (H v Hv).
Qed.

Lemma f32_array_roundtrip vs rest :
  Forall (fun v => v < 2 ^ 32) vs ->
  dec_f32_array (length vs) (enc_f32_array vs ++ rest) = Ok (vs, rest).
Proof.
  intros H. unfold dec_f32_array, enc_f32_array.
  apply (array_roundtrip_gen 4 (fun v => be_bytes 4 (rotl32 v)) (fun row => rotr32 (of_be row))).
  intros v Hv. split; [apply be_bytes_length|].
  rewrite Forall_forall in H. specialize (H v Hv).
  rewrite be4_roundtrip by exact (rotl32_bound v H). now apply rot32_roundtrip.
Qed.

Lemma i64_array_roundtrip vs rest :
  Forall (fun v => in_i64 v = true) vs ->
  dec_i64_array (length vs) (enc_i64_array vs ++ rest) = Ok (vs, rest).
Proof.
  intros H. unfold dec_i64_array, enc_i64_array.
  apply (array_roundtrip_gen 8 (fun v => be_bytes 8 (i64_bits (transform_i64 v)))
           (fun row => untransform_i64 (wrap_s 64 (of_be row)))).
  intros v Hv. split; [apply be_bytes_length|].
  rewrite Forall_forall in H. now apply i64_cell_roundtrip, H.
Qed.

Lemma ref_array_roundtrip vs rest :
  Forall (fun v => in_i32 v = true) vs ->
  dec_ref_array (length vs) (enc_ref_array vs ++ rest) = Ok (vs, rest).
Proof.
  intros H. unfold dec_ref_array, enc_ref_array.
  rewrite (pbind_ok_intro _ _ _ (delta_encode 0 vs) rest).
  - unfold pret. now rewrite delta_roundtrip_gen.
  - rewrite <- (delta_encode_length 0 vs) at 1. apply i32_array_roundtrip, delta_encode_range.
Qed.

(* encoded sizes and well-formedness of the produced bytes *)
Lemma enc_i32_array_length vs : length (enc_i32_array vs) = (4 * length vs)%nat.
Proof. unfold enc_i32_array. now rewrite interleave_length, map_length. Qed.
Lemma enc_u32_array_length vs : length (enc_u32_array vs) = (4 * length vs)%nat.
Proof. unfold enc_u32_array. now rewrite interleave_length, map_length. Qed.
Lemma enc_f32_array_length vs : length (enc_f32_array vs) = (4 * length vs)%nat.
Proof. unfold enc_f32_array. now rewrite interleave_length, map_length. Qed.
Lemma enc_i64_array_length vs : length (enc_i64_array vs) = (8 * length vs)%nat.
Proof. unfold enc_i64_array. now rewrite interleave_length, map_length. Qed.
Lemma enc_ref_array_length vs : length (enc_ref_array vs) = (4 * length vs)%nat.
Proof. unfold enc_ref_array. now rewrite enc_i32_array_length, delta_encode_length. Qed.

Lemma interleave_map_ok {A} w (f : A -> bytes) vs :
  (forall v, bytes_ok (f v) = true) -> bytes_ok (interleave w (List.map f vs)) = true.
Proof.
  intros H. apply interleave_ok, Forall_forall. intros r Hr. apply in_map_iff in Hr.
  destruct Hr as [v [<- _]]. apply H.
Qed.

Lemma enc_i32_array_ok vs : bytes_ok (enc_i32_array vs) = true.
Proof. apply interleave_map_ok. intros; apply be_bytes_ok. Qed.
Lemma enc_u32_array_ok vs : bytes_ok (enc_u32_array vs) = true.
Proof. apply interleave_map_ok. intros; apply be_bytes_ok. Qed.
Lemma enc_f32_array_ok vs : bytes_ok (enc_f32_array vs) = true.
Proof. apply interleave_map_ok. intros; apply be_bytes_ok. Qed.
Lemma enc_i64_array_ok vs : bytes_ok (enc_i64_array vs) = true.
Proof. apply interleave_map_ok. intros; apply be_bytes_ok. Qed.
Lemma enc_ref_array_ok vs : bytes_ok (enc_ref_array vs) = true.
Proof. apply enc_i32_array_ok. Qed.

(* decoders: short input is EOF, never a panic; success consumes exactly len * width bytes *)
Lemma dec_i32_array_short len b : (length b < len * 4)%nat -> dec_i32_array len b = Err ERR_EOF.
Proof. intros H. unfold dec_i32_array, pbind. now rewrite read_exact_short. Qed.

Lemma dec_i32_array_consumes len b vs b' :
  dec_i32_array len b = Ok (vs, b') -> length vs = len /\ length b = (len * 4 + length b')%nat.
Proof.
  unfold dec_i32_array. intros H. apply pbind_ok in H. destruct H as [h [b1 [H1 H2]]].
  unfold pret in H2. injection H2 as <- <-. split.
  - now rewrite map_length, deinterleave_length.
  - now apply read_exact_consumes in H1.
Qed.

(* decoded values are always in range, whatever the input bytes *)
Lemma dec_i32_array_range len b vs b' :
  dec_i32_array len b = Ok (vs, b') -> Forall (fun v => in_i32 v = true) vs.
Proof.
  unfold dec_i32_array. intros H. apply pbind_ok in H. destruct H as [h [b1 [_ H2]]].
  unfold pret in H2. injection H2 as <- _. apply Forall_forall. intros v Hv.
  apply in_map_iff in Hv. destruct Hv as [r [<- _]]. apply untransform_i32_range.
Qed.

(* ------------------------------------------------------------------------------------------ *)
Print Assumptions le_roundtrip.
Print Assumptions be_roundtrip.
Print Assumptions of_le_bound.
Print Assumptions of_be_bound.
Print Assumptions le_of_le.
Print Assumptions be_of_be.
Print Assumptions wrap_roundtrip32.
Print Assumptions wrap_roundtrip64.
Print Assumptions wrap_u_bound.
Print Assumptions wrap_us.
Print Assumptions wrap_us'.
Print Assumptions to_i32_range.
Print Assumptions transform_i32_spec.
Print Assumptions transform_i64_spec.
Print Assumptions zigzag32_roundtrip.
Print Assumptions zigzag32_roundtrip'.
Print Assumptions zigzag64_roundtrip.
Print Assumptions zigzag64_roundtrip'.
Print Assumptions rot32_roundtrip.
Print Assumptions rot32_roundtrip'.
Print Assumptions rot64_roundtrip.
Print Assumptions rot64_roundtrip'.
Print Assumptions interleave_length.
Print Assumptions deinterleave_interleave.
Print Assumptions interleave_deinterleave.
Print Assumptions delta_roundtrip.
Print Assumptions delta_roundtrip'.
Print Assumptions i32_array_roundtrip.
Print Assumptions u32_array_roundtrip.
Print Assumptions f32_array_roundtrip.
Print Assumptions i64_array_roundtrip.
Print Assumptions ref_array_roundtrip.
Print Assumptions take_n_length.
Print Assumptions prepeat_length.
Print Assumptions prepeat_consumes.
Print Assumptions read_le_consumes.
