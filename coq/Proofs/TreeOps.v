(* TreeOps.v — reusable facts about the forest operations of Model/Tree.v (ffind, fdel, fgraft):
   what they do to the referents / UniqueIds held (as permutations) and to the flattened instance
   table (pointwise, through [lookup]).  Used by the per-operation refinement proofs. *)
From RbxVerif Require Import Base Dom Tree BaseFacts TreeFacts.
From Coq Require Import Lia Permutation.

(* ---- association-list maps: keys under remove / upd ---- *)

Lemma lookup_Some_keys {V} k (v : V) m : lookup k m = Some v -> In k (keys m).
Proof.
  intros H. destruct (in_dec N.eq_dec k (keys m)) as [Hi|Hn]; [exact Hi|].
  apply lookup_None_notin in Hn. congruence.
Qed.

Lemma keys_In_lookup {V} k (m : map V) : In k (keys m) -> exists v, lookup k m = Some v.
Proof.
  intros H. destruct (lookup k m) as [v|] eqn:E; [eauto|].
  apply lookup_None_notin in E. contradiction.
Qed.

Lemma keys_remove_In {V} k x (m : map V) : In x (keys (remove k m)) <-> In x (keys m) /\ x <> k.
Proof.
  unfold keys. induction m as [|[k' v] m IH]; cbn [remove List.map In fst]; [tauto|].
  destruct (N.eqb k k') eqn:E.
  - apply N.eqb_eq in E. subst k'. rewrite IH. split; [tauto|].
    intros [[H|H] Hne]; [congruence|tauto].
  - apply N.eqb_neq in E. cbn [List.map In fst]. rewrite IH. split.
    + intros [H|[H Hne]]; [subst x; split; [now left|congruence]|tauto].
    + intros [[H|H] Hne]; [now left|right; tauto].
Qed.

Lemma NoDup_keys_remove {V} k (m : map V) : NoDup (keys m) -> NoDup (keys (remove k m)).
Proof.
  induction m as [|[k' v] m IH]; cbn [remove]; intros H; [exact H|].
  unfold keys in H. cbn [List.map fst] in H. inversion H as [|? ? Hn Hd]; subst.
  destruct (N.eqb k k') eqn:E; [now apply IH|].
  unfold keys. cbn [List.map fst]. constructor.
  - intros Hi. apply (keys_remove_In k k' m) in Hi. apply Hn. exact (proj1 Hi).
  - now apply IH.
Qed.

Lemma NoDup_keys_upd {V} k (v : V) m : NoDup (keys m) -> NoDup (keys (upd k v m)).
Proof.
  intros H. unfold upd, keys. cbn [List.map fst]. constructor.
  - intros Hi. apply (keys_remove_In k k m) in Hi. destruct Hi as [_ Hne]. now apply Hne.
  - now apply NoDup_keys_remove.
Qed.

Lemma In_lookup_NoDup {V} k (v : V) m : NoDup (keys m) -> In (k, v) m -> lookup k m = Some v.
Proof.
  induction m as [|[k' v'] m IH]; cbn [lookup In]; intros Hnd Hin; [contradiction|].
  unfold keys in Hnd. cbn [List.map fst] in Hnd. inversion Hnd as [|? ? Hn Hd]; subst.
  destruct Hin as [Heq|Hin].
  - injection Heq as -> ->. now rewrite N.eqb_refl.
  - destruct (N.eqb k k') eqn:E; [|now apply IH].
    apply N.eqb_eq in E. subst k'. exfalso. apply Hn.
    change (In k (keys m)). apply in_map_iff. exists (k, v). split; [reflexivity|exact Hin].
Qed.

Lemma retain_ne_notin c l : ~ In c l -> retain_ne c l = l.
Proof.
  unfold retain_ne. induction l as [|x l IH]; cbn [filter]; intros H; [reflexivity|].
  destruct (N.eqb x c) eqn:E.
  - apply N.eqb_eq in E. subst x. exfalso. apply H. now left.
  - cbn [negb]. f_equal. apply IH. intros Hi. apply H. now right.
Qed.

Lemma retain_ne_In c x l : In x (retain_ne c l) <-> In x l /\ x <> c.
Proof.
  unfold retain_ne. rewrite filter_In. rewrite negb_true_iff, N.eqb_neq. tauto.
Qed.

Lemma option_map_id {A} (o : option A) : option_map (fun i => i) o = o.
Proof. destruct o; reflexivity. Qed.

(* ---- simultaneous induction on trees and forests ---- *)

Lemma tree_forest_ind (P : tree -> Prop) (Q : list tree -> Prop) :
  (forall r n c ps kids, Q kids -> P (Node r n c ps kids)) ->
  Q [] -> (forall t ts, P t -> Q ts -> Q (t :: ts)) ->
  (forall t, P t) /\ (forall ts, Q ts).
Proof.
  intros HN Hnil Hcons.
  assert (HP : forall t, P t).
  { induction t as [r n c ps kids IH] using tree_ind'. apply HN.
    induction IH as [|k ks Hk _ IHks]; [exact Hnil|]. apply Hcons; assumption. }
  split; [exact HP|]. induction ts as [|t ts IH]; [exact Hnil|]. apply Hcons; auto.
Qed.

Lemma fuids_cons t ts : fuids (t :: ts) = tuids t ++ fuids ts.
Proof. reflexivity. Qed.

Lemma in_frefs x ts : In x (frefs ts) <-> exists t, In t ts /\ In x (trefs t).
Proof. unfold frefs. apply in_flat_map. Qed.

Lemma NoDup_trefs_node r n c ps kids :
  NoDup (trefs (Node r n c ps kids)) -> ~ In r (frefs kids) /\ NoDup (frefs kids).
Proof. rewrite trefs_eq. intros H. inversion H; subst. tauto. Qed.

Lemma NoDup_frefs_cons t ts :
  NoDup (frefs (t :: ts)) ->
  NoDup (trefs t) /\ NoDup (frefs ts) /\ (forall x, In x (trefs t) -> In x (frefs ts) -> False).
Proof.
  rewrite frefs_cons. intros H. split; [eapply NoDup_app_l; eauto|].
  split; [eapply NoDup_app_r; eauto|]. intros x. now apply NoDup_app_disj.
Qed.

Lemma NoDup_frefs_In ts k : NoDup (frefs ts) -> In k ts -> NoDup (trefs k).
Proof.
  induction ts as [|t ts IH]; intros Hnd Hk; [contradiction|].
  apply NoDup_frefs_cons in Hnd. destruct Hnd as [H1 [H2 _]].
  destruct Hk as [->|Hk]; [exact H1|now apply IH].
Qed.

(* ---- ffind ---- *)

Lemma tfind_ffind_root r :
  (forall t sub, tfind r t = Some sub -> troot sub = r) /\
  (forall ts sub, ffind r ts = Some sub -> troot sub = r).
Proof.
  apply tree_forest_ind.
  - intros x n c ps kids IH sub. rewrite tfind_eq. destruct (N.eqb x r) eqn:E.
    + intros [= <-]. cbn [troot]. now apply N.eqb_eq.
    + apply IH.
  - intros sub. cbn [ffind]. discriminate.
  - intros t ts IHt IHts sub. cbn [ffind]. destruct (tfind r t) as [s|] eqn:E.
    + intros [= <-]. now apply IHt.
    + apply IHts.
Qed.

Lemma ffind_root r ts sub : ffind r ts = Some sub -> troot sub = r.
Proof. apply tfind_ffind_root. Qed.
Lemma tfind_root r t sub : tfind r t = Some sub -> troot sub = r.
Proof. apply tfind_ffind_root. Qed.

Lemma tfind_ffind_incl r :
  (forall t sub, tfind r t = Some sub -> incl (trefs sub) (trefs t)) /\
  (forall ts sub, ffind r ts = Some sub -> incl (trefs sub) (frefs ts)).
Proof.
  apply tree_forest_ind.
  - intros x n c ps kids IH sub. rewrite tfind_eq. destruct (N.eqb x r) eqn:E.
    + intros [= <-]. apply incl_refl.
    + intros H. rewrite trefs_eq. apply incl_tl. now apply IH.
  - intros sub. cbn [ffind]. discriminate.
  - intros t ts IHt IHts sub. cbn [ffind]. rewrite frefs_cons. destruct (tfind r t) as [s|] eqn:E.
    + intros [= <-]. apply incl_appl. now apply IHt.
    + intros H. apply incl_appr. now apply IHts.
Qed.

Lemma ffind_incl r ts sub : ffind r ts = Some sub -> incl (trefs sub) (frefs ts).
Proof. apply tfind_ffind_incl. Qed.
Lemma tfind_incl r t sub : tfind r t = Some sub -> incl (trefs sub) (trefs t).
Proof. apply tfind_ffind_incl. Qed.

Lemma tfind_Some_In r t sub : tfind r t = Some sub -> In r (trefs t).
Proof.
  intros H. apply (tfind_incl _ _ _ H). rewrite <- (tfind_root _ _ _ H). apply troot_in_trefs.
Qed.
Lemma ffind_Some_In r ts sub : ffind r ts = Some sub -> In r (frefs ts).
Proof.
  intros H. apply (ffind_incl _ _ _ H). rewrite <- (ffind_root _ _ _ H). apply troot_in_trefs.
Qed.

Lemma tfind_ffind_In_Some r :
  (forall t, In r (trefs t) -> exists sub, tfind r t = Some sub) /\
  (forall ts, In r (frefs ts) -> exists sub, ffind r ts = Some sub).
Proof.
  apply tree_forest_ind.
  - intros x n c ps kids IH. rewrite trefs_eq, tfind_eq. destruct (N.eqb x r) eqn:E; [eauto|].
    apply N.eqb_neq in E. intros [H|H]; [contradiction|now apply IH].
  - intros H. contradiction.
  - intros t ts IHt IHts. rewrite frefs_cons, in_app_iff. cbn [ffind].
    destruct (tfind r t) as [s|] eqn:E; [eauto|].
    intros [H|H]; [apply IHt in H; destruct H as [s H]; congruence|now apply IHts].
Qed.

Lemma ffind_In_Some r ts : In r (frefs ts) -> exists sub, ffind r ts = Some sub.
Proof. apply tfind_ffind_In_Some. Qed.
Lemma tfind_In_Some r t : In r (trefs t) -> exists sub, tfind r t = Some sub.
Proof. apply tfind_ffind_In_Some. Qed.

Lemma tfind_None_iff r t : tfind r t = None <-> ~ In r (trefs t).
Proof.
  split.
  - intros H Hi. apply tfind_In_Some in Hi. destruct Hi as [s Hs]. congruence.
  - intros H. destruct (tfind r t) as [s|] eqn:E; [|reflexivity]. apply tfind_Some_In in E. contradiction.
Qed.
Lemma ffind_None_iff r ts : ffind r ts = None <-> ~ In r (frefs ts).
Proof.
  split.
  - intros H Hi. apply ffind_In_Some in Hi. destruct Hi as [s Hs]. congruence.
  - intros H. destruct (ffind r ts) as [s|] eqn:E; [|reflexivity]. apply ffind_Some_In in E. contradiction.
Qed.

Lemma hasnode_true_iff r ts : hasnode r ts = true <-> In r (frefs ts).
Proof.
  unfold hasnode. destruct (ffind r ts) as [s|] eqn:E.
  - split; [intros _; eapply ffind_Some_In; eauto|reflexivity].
  - split; [discriminate|]. intros H. apply ffind_None_iff in E. contradiction.
Qed.

(* the subtree found has no repeated referent when the forest has none *)
Lemma tfind_ffind_NoDup r :
  (forall t sub, tfind r t = Some sub -> NoDup (trefs t) -> NoDup (trefs sub)) /\
  (forall ts sub, ffind r ts = Some sub -> NoDup (frefs ts) -> NoDup (trefs sub)).
Proof.
  apply tree_forest_ind.
  - intros x n c ps kids IH sub. rewrite tfind_eq. destruct (N.eqb x r) eqn:E.
    + intros [= <-] H. exact H.
    + intros Hf Hnd. apply NoDup_trefs_node in Hnd. apply (IH _ Hf). tauto.
  - intros sub. cbn [ffind]. discriminate.
  - intros t ts IHt IHts sub. cbn [ffind]. intros Hf Hnd. apply NoDup_frefs_cons in Hnd.
    destruct (tfind r t) as [s|] eqn:E.
    + injection Hf as <-. apply (IHt _ eq_refl). tauto.
    + apply (IHts _ Hf). tauto.
Qed.

Lemma ffind_NoDup r ts sub : ffind r ts = Some sub -> NoDup (frefs ts) -> NoDup (trefs sub).
Proof. apply tfind_ffind_NoDup. Qed.

(* ---- tdel / fdel: basic facts ---- *)

Lemma tdel_root r t :
  match tdel r t with
  | None => troot t = r
  | Some t' => troot t' = troot t /\ troot t <> r
  end.
Proof.
  destruct t as [x n c ps kids]. rewrite tdel_eq. destruct (N.eqb x r) eqn:E; cbn [troot].
  - now apply N.eqb_eq.
  - apply N.eqb_neq in E. tauto.
Qed.

Lemma map_troot_fdel r ts : List.map troot (fdel r ts) = retain_ne r (List.map troot ts).
Proof.
  unfold retain_ne. induction ts as [|t ts IH]; [reflexivity|].
  cbn [fdel List.map filter]. pose proof (tdel_root r t) as Ht.
  destruct (tdel r t) as [t'|].
  - destruct Ht as [Hr Hne]. apply N.eqb_neq in Hne. rewrite Hne. cbn [negb List.map]. now rewrite Hr, IH.
  - apply N.eqb_eq in Ht. rewrite Ht. cbn [negb]. exact IH.
Qed.

Lemma tdel_fdel_notin r :
  (forall t, ~ In r (trefs t) -> tdel r t = Some t) /\
  (forall ts, ~ In r (frefs ts) -> fdel r ts = ts).
Proof.
  apply tree_forest_ind.
  - intros x n c ps kids IH. rewrite trefs_eq, tdel_eq. intros H.
    destruct (N.eqb x r) eqn:E.
    + apply N.eqb_eq in E. exfalso. apply H. now left.
    + rewrite IH; [reflexivity|]. intros Hi. apply H. now right.
  - reflexivity.
  - intros t ts IHt IHts. rewrite frefs_cons, in_app_iff. intros H. cbn [fdel].
    rewrite IHt by tauto. rewrite IHts by tauto. reflexivity.
Qed.

Lemma fdel_notin r ts : ~ In r (frefs ts) -> fdel r ts = ts.
Proof. apply tdel_fdel_notin. Qed.
Lemma tdel_notin r t : ~ In r (trefs t) -> tdel r t = Some t.
Proof. apply tdel_fdel_notin. Qed.

Lemma tdel_fdel_incl r :
  (forall t t', tdel r t = Some t' -> incl (trefs t') (trefs t)) /\
  (forall ts, incl (frefs (fdel r ts)) (frefs ts)).
Proof.
  apply tree_forest_ind.
  - intros x n c ps kids IH t'. rewrite tdel_eq. destruct (N.eqb x r); [discriminate|].
    intros [= <-]. rewrite !trefs_eq. intros y [Hy|Hy]; [now left|right; now apply IH].
  - apply incl_refl.
  - intros t ts IHt IHts. cbn [fdel]. destruct (tdel r t) as [t'|] eqn:E.
    + rewrite !frefs_cons. apply incl_app; [apply incl_appl; now apply IHt|apply incl_appr; exact IHts].
    + rewrite frefs_cons. apply incl_appr. exact IHts.
Qed.

Lemma fdel_incl r ts : incl (frefs (fdel r ts)) (frefs ts).
Proof. apply tdel_fdel_incl. Qed.
Lemma tdel_incl r t t' : tdel r t = Some t' -> incl (trefs t') (trefs t).
Proof. apply tdel_fdel_incl. Qed.

(* ---- tgraft: basic facts ---- *)

Lemma troot_tgraft p sub t : troot (tgraft p sub t) = troot t.
Proof. destruct t as [x n c ps kids]. rewrite tgraft_eq. destruct (N.eqb x p); reflexivity. Qed.

Lemma map_troot_tgraft p sub ts : List.map troot (List.map (tgraft p sub) ts) = List.map troot ts.
Proof. rewrite map_map. apply map_ext. intros t. apply troot_tgraft. Qed.

Lemma tgraft_notin p sub :
  (forall t, ~ In p (trefs t) -> tgraft p sub t = t) /\
  (forall ts, ~ In p (frefs ts) -> List.map (tgraft p sub) ts = ts).
Proof.
  apply tree_forest_ind.
  - intros x n c ps kids IH. rewrite trefs_eq, tgraft_eq. intros H.
    destruct (N.eqb x p) eqn:E.
    + apply N.eqb_eq in E. exfalso. apply H. now left.
    + rewrite IH; [reflexivity|]. intros Hi. apply H. now right.
  - reflexivity.
  - intros t ts IHt IHts. rewrite frefs_cons, in_app_iff. intros H. cbn [List.map].
    rewrite IHt by tauto. rewrite IHts by tauto. reflexivity.
Qed.

Lemma map_tgraft_notin p sub ts : ~ In p (frefs ts) -> List.map (tgraft p sub) ts = ts.
Proof. apply tgraft_notin. Qed.

(* ---- what fdel / fgraft do to any per-node collection (referents, UniqueIds), as permutations ---- *)

Lemma perm_app_In {A} (l a b : list A) x :
  Permutation l (a ++ b) -> NoDup l -> (In x b <-> In x l /\ ~ In x a).
Proof.
  intros HP Hnd. pose proof (Permutation_NoDup HP Hnd) as Hab. split.
  - intros Hb. split; [apply (Permutation_in _ (Permutation_sym HP)); apply in_app_iff; now right|].
    intros Ha. eapply NoDup_app_disj; eauto.
  - intros [Hl Hna]. apply (Permutation_in _ HP) in Hl. apply in_app_iff in Hl. tauto.
Qed.

Section Collect.
  Variable g : tree -> list N.
  Variable h : ref -> N -> N -> props -> list N.
  Hypothesis g_eq : forall r n c ps kids, g (Node r n c ps kids) = h r n c ps ++ flat_map g kids.

  Lemma collect_del_perm r :
    (forall t sub, tfind r t = Some sub -> NoDup (trefs t) ->
        match tdel r t with None => sub = t | Some t' => Permutation (g t) (g sub ++ g t') end) /\
    (forall ts sub, ffind r ts = Some sub -> NoDup (frefs ts) ->
        Permutation (flat_map g ts) (g sub ++ flat_map g (fdel r ts))).
  Proof.
    apply tree_forest_ind.
    - intros x n c ps kids IH sub. rewrite tfind_eq, tdel_eq. destruct (N.eqb x r) eqn:E.
      + intros [= <-] _. reflexivity.
      + intros Hf Hnd. apply NoDup_trefs_node in Hnd. destruct Hnd as [_ Hnd].
        rewrite !g_eq. specialize (IH _ Hf Hnd).
        eapply Permutation_trans; [apply Permutation_app_head; exact IH|].
        apply Permutation_app_swap_app.
    - intros sub. cbn [ffind]. discriminate.
    - intros t ts IHt IHts sub. cbn [ffind fdel flat_map]. intros Hf Hnd.
      apply NoDup_frefs_cons in Hnd. destruct Hnd as [Hnt [Hnts Hdisj]].
      destruct (tfind r t) as [s|] eqn:E.
      + injection Hf as <-. specialize (IHt _ eq_refl Hnt).
        assert (Hr : ~ In r (frefs ts)).
        { intros Hi. apply (Hdisj r); [eapply tfind_Some_In; eauto|exact Hi]. }
        rewrite (fdel_notin _ _ Hr).
        destruct (tdel r t) as [t'|].
        * cbn [flat_map]. rewrite app_assoc. apply Permutation_app_tail. exact IHt.
        * subst s. reflexivity.
      + apply tfind_None_iff in E. rewrite (tdel_notin _ _ E). cbn [flat_map].
        specialize (IHts _ Hf Hnts).
        eapply Permutation_trans; [apply Permutation_app_head; exact IHts|].
        apply Permutation_app_swap_app.
  Qed.

  Lemma collect_graft_perm dest sub :
    (forall t, In dest (trefs t) -> NoDup (trefs t) ->
        Permutation (g (tgraft dest sub t)) (g t ++ g sub)) /\
    (forall ts, In dest (frefs ts) -> NoDup (frefs ts) ->
        Permutation (flat_map g (List.map (tgraft dest sub) ts)) (flat_map g ts ++ g sub)).
  Proof.
    apply tree_forest_ind.
    - intros x n c ps kids IH Hin Hnd. rewrite trefs_eq in Hin. rewrite tgraft_eq.
      apply NoDup_trefs_node in Hnd. destruct Hnd as [Hx Hnd].
      destruct (N.eqb x dest) eqn:E.
      + apply N.eqb_eq in E. subst x. rewrite (map_tgraft_notin _ _ _ Hx).
        rewrite !g_eq. rewrite flat_map_app. cbn [flat_map]. rewrite app_nil_r, app_assoc. reflexivity.
      + apply N.eqb_neq in E. destruct Hin as [Hin|Hin]; [contradiction|].
        rewrite !g_eq. rewrite <- app_assoc. apply Permutation_app_head. now apply IH.
    - intros H. contradiction.
    - intros t ts IHt IHts. rewrite frefs_cons, in_app_iff. intros Hin Hnd.
      apply NoDup_frefs_cons in Hnd. destruct Hnd as [Hnt [Hnts Hdisj]]. cbn [List.map flat_map].
      destruct (in_dec N.eq_dec dest (trefs t)) as [Hd|Hd].
      + assert (Hr : ~ In dest (frefs ts)) by (intros Hi; eapply Hdisj; eauto).
        rewrite (map_tgraft_notin _ _ _ Hr).
        eapply Permutation_trans; [apply Permutation_app_tail; apply IHt; assumption|].
        rewrite <- !app_assoc. apply Permutation_app_head. apply Permutation_app_comm.
      + destruct Hin as [Hin|Hin]; [contradiction|].
        rewrite (proj1 (tgraft_notin dest sub) _ Hd). rewrite <- app_assoc.
        apply Permutation_app_head. now apply IHts.
  Qed.

  Lemma collect_fgraft_perm dest sub ts :
    dest = rnone \/ In dest (frefs ts) -> NoDup (frefs ts) ->
    Permutation (flat_map g (fgraft dest sub ts)) (flat_map g ts ++ g sub).
  Proof.
    intros Hd Hnd. unfold fgraft. destruct (N.eqb dest rnone) eqn:E.
    - rewrite flat_map_app. cbn [flat_map]. rewrite app_nil_r. reflexivity.
    - apply N.eqb_neq in E. destruct Hd as [Hd|Hd]; [contradiction|].
      now apply collect_graft_perm.
  Qed.
End Collect.

Lemma trefs_collect_eq r n c ps kids :
  trefs (Node r n c ps kids) = (fun x (_ _ : N) (_ : props) => [x]) r n c ps ++ flat_map trefs kids.
Proof. rewrite trefs_eq. reflexivity. Qed.

Lemma tuids_collect_eq r n c ps kids :
  tuids (Node r n c ps kids) =
  (fun (_ : ref) (_ _ : N) (q : props) => match get_uid q with Some u => [u] | None => [] end) r n c ps
  ++ flat_map tuids kids.
Proof. rewrite tuids_eq. reflexivity. Qed.

Lemma frefs_fdel_perm r ts sub :
  ffind r ts = Some sub -> NoDup (frefs ts) -> Permutation (frefs ts) (trefs sub ++ frefs (fdel r ts)).
Proof. exact (proj2 (collect_del_perm trefs _ trefs_collect_eq r) ts sub). Qed.

Lemma fuids_fdel_perm r ts sub :
  ffind r ts = Some sub -> NoDup (frefs ts) -> Permutation (fuids ts) (tuids sub ++ fuids (fdel r ts)).
Proof. exact (proj2 (collect_del_perm tuids _ tuids_collect_eq r) ts sub). Qed.

Lemma frefs_fgraft_perm dest sub ts :
  dest = rnone \/ In dest (frefs ts) -> NoDup (frefs ts) ->
  Permutation (frefs (fgraft dest sub ts)) (frefs ts ++ trefs sub).
Proof. exact (collect_fgraft_perm trefs _ trefs_collect_eq dest sub ts). Qed.

Lemma fuids_fgraft_perm dest sub ts :
  dest = rnone \/ In dest (frefs ts) -> NoDup (frefs ts) ->
  Permutation (fuids (fgraft dest sub ts)) (fuids ts ++ tuids sub).
Proof. exact (collect_fgraft_perm tuids _ tuids_collect_eq dest sub ts). Qed.

(* consequences for fdel, in the In / NoDup form *)
Lemma frefs_fdel_In r ts sub x :
  ffind r ts = Some sub -> NoDup (frefs ts) ->
  (In x (frefs (fdel r ts)) <-> In x (frefs ts) /\ ~ In x (trefs sub)).
Proof. intros Hf Hnd. apply perm_app_In; [now apply frefs_fdel_perm|exact Hnd]. Qed.

Lemma NoDup_frefs_fdel r ts sub :
  ffind r ts = Some sub -> NoDup (frefs ts) -> NoDup (frefs (fdel r ts)).
Proof.
  intros Hf Hnd. eapply NoDup_app_r. eapply Permutation_NoDup; [now apply frefs_fdel_perm; eauto|exact Hnd].
Qed.

Lemma fuids_fdel_In r ts sub u :
  ffind r ts = Some sub -> NoDup (frefs ts) -> NoDup (fuids ts) ->
  (In u (fuids (fdel r ts)) <-> In u (fuids ts) /\ ~ In u (tuids sub)).
Proof. intros Hf Hnd Hu. apply perm_app_In; [now apply fuids_fdel_perm|exact Hu]. Qed.

Lemma NoDup_fuids_fdel r ts sub :
  ffind r ts = Some sub -> NoDup (frefs ts) -> NoDup (fuids ts) -> NoDup (fuids (fdel r ts)).
Proof.
  intros Hf Hnd Hu. eapply NoDup_app_r. eapply Permutation_NoDup; [now apply fuids_fdel_perm; eauto|exact Hu].
Qed.

Lemma fsize_fdel_le r ts sub :
  ffind r ts = Some sub -> NoDup (frefs ts) -> (tsize sub + fsize (fdel r ts) = fsize ts)%nat.
Proof.
  intros Hf Hnd. pose proof (Permutation_length (frefs_fdel_perm _ _ _ Hf Hnd)) as H.
  rewrite app_length, !length_frefs, length_trefs in H. lia.
Qed.

(* ---- the flattened table: basic pointwise facts ---- *)

Lemma mem_app x a b : mem x (a ++ b) = (mem x a || mem x b)%bool.
Proof.
  induction a as [|y a IH]; cbn [app mem]; [reflexivity|].
  destruct (N.eqb x y); [reflexivity|exact IH].
Qed.

Lemma set_children_same i : set_children i (i_children i) = i.
Proof. destruct i; reflexivity. Qed.

Lemma lookup_tflat_troot p t :
  exists i, lookup (troot t) (tflat p t) = Some i /\ i_parent i = p /\
            i_children i = List.map troot (tkids t) /\ i_props i = tprops t.
Proof.
  destruct t as [r n c ps kids]. cbn [troot tkids tprops]. rewrite lookup_tflat_root.
  eexists. split; [reflexivity|]. cbn [i_parent i_children i_props]. auto.
Qed.

(* the parent argument of tflat only shows in the entry of the root *)
Lemma lookup_tflat_reparent p p' t x :
  lookup x (tflat p' t) =
  option_map (fun i => if N.eqb x (troot t) then set_parent i p' else i) (lookup x (tflat p t)).
Proof.
  destruct t as [r n c ps kids]. cbn [troot]. rewrite !lookup_tflat_node.
  destruct (N.eqb x r) eqn:E; [reflexivity|]. symmetry. apply option_map_id.
Qed.

Lemma lookup_fflat_in_tree p ts k x :
  NoDup (frefs ts) -> In k ts -> In x (trefs k) ->
  lookup x (flat_map (tflat p) ts) = lookup x (tflat p k).
Proof.
  induction ts as [|t ts IH]; intros Hnd Hk Hx; [contradiction|].
  apply NoDup_frefs_cons in Hnd. destruct Hnd as [Hnt [Hnts Hdisj]].
  rewrite lookup_fflat_cons. destruct Hk as [->|Hk].
  - destruct (lookup_tflat_in p k x Hx) as [i Hi]. rewrite Hi. reflexivity.
  - rewrite lookup_tflat_notin.
    + now apply IH.
    + intros Hi. apply (Hdisj x Hi). apply in_frefs. eauto.
Qed.

(* every parent pointer of a flattened forest is the top parent or a node of the forest *)
Lemma tflat_fflat_parent :
  (forall t p x i, In (x, i) (tflat p t) -> i_parent i = p \/ In (i_parent i) (trefs t)) /\
  (forall ts p x i, In (x, i) (flat_map (tflat p) ts) -> i_parent i = p \/ In (i_parent i) (frefs ts)).
Proof.
  apply tree_forest_ind.
  - intros r n c ps kids IH p x i. rewrite tflat_eq, trefs_eq. intros [H|H].
    + injection H as _ <-. left. reflexivity.
    + right. apply IH in H. destruct H as [H|H]; [left; symmetry; exact H|right; exact H].
  - intros p x i H. contradiction.
  - intros t ts IHt IHts p x i. cbn [flat_map]. rewrite frefs_cons, !in_app_iff. intros [H|H].
    + apply IHt in H. tauto.
    + apply IHts in H. tauto.
Qed.

Lemma fflat_parent_in ts p x i :
  lookup x (flat_map (tflat p) ts) = Some i -> i_parent i = p \/ In (i_parent i) (frefs ts).
Proof. intros H. apply lookup_In in H. eapply (proj2 tflat_fflat_parent); eauto. Qed.

Lemma lookup_fflat_Some_In p ts x i : lookup x (flat_map (tflat p) ts) = Some i -> In x (frefs ts).
Proof. intros H. rewrite <- keys_fflat with (p := p). eapply lookup_Some_keys; eauto. Qed.

Lemma lookup_tflat_Some_In p t x i : lookup x (tflat p t) = Some i -> In x (trefs t).
Proof. intros H. rewrite <- keys_tflat with (p := p). eapply lookup_Some_keys; eauto. Qed.

(* each child an entry lists exists and names that entry's key as its parent *)
Lemma tflat_fflat_child_parent :
  (forall t p x i c, NoDup (trefs t) -> lookup x (tflat p t) = Some i -> In c (i_children i) ->
       exists ci, lookup c (tflat p t) = Some ci /\ i_parent ci = x) /\
  (forall ts p x i c, NoDup (frefs ts) -> lookup x (flat_map (tflat p) ts) = Some i -> In c (i_children i) ->
       exists ci, lookup c (flat_map (tflat p) ts) = Some ci /\ i_parent ci = x).
Proof.
  apply tree_forest_ind.
  - intros r n cl ps kids IH p x i c Hnd Hl Hc.
    pose proof (NoDup_trefs_node _ _ _ _ _ Hnd) as [Hr Hk].
    rewrite lookup_tflat_node in Hl. rewrite lookup_tflat_node.
    destruct (N.eqb x r) eqn:E.
    + apply N.eqb_eq in E. subst x. injection Hl as <-. cbn [i_children] in Hc.
      apply in_map_iff in Hc. destruct Hc as [k [Hkr Hkin]].
      assert (Hck : In c (trefs k)) by (rewrite <- Hkr; apply troot_in_trefs).
      assert (Hcin : In c (frefs kids)) by (apply in_frefs; eauto).
      destruct (N.eqb c r) eqn:Ec; [apply N.eqb_eq in Ec; rewrite Ec in Hcin; contradiction|].
      rewrite (lookup_fflat_in_tree r kids k c Hk Hkin Hck).
      destruct (lookup_tflat_troot r k) as [ci [H1 [H2 _]]]. rewrite Hkr in H1. eauto.
    + destruct (IH r x i c Hk Hl Hc) as [ci [H1 H2]].
      assert (Hcin : In c (frefs kids)) by (eapply lookup_fflat_Some_In; eauto).
      destruct (N.eqb c r) eqn:Ec; [apply N.eqb_eq in Ec; rewrite Ec in Hcin; contradiction|]. eauto.
  - intros p x i c _ H. cbn in H. discriminate.
  - intros t ts IHt IHts p x i c Hnd Hl Hc.
    apply NoDup_frefs_cons in Hnd. destruct Hnd as [Hnt [Hnts Hdisj]].
    rewrite lookup_fflat_cons in Hl. rewrite lookup_fflat_cons.
    destruct (lookup x (tflat p t)) as [i0|] eqn:E.
    + injection Hl as ->. destruct (IHt p x i c Hnt E Hc) as [ci [H1 H2]]. rewrite H1. eauto.
    + destruct (IHts p x i c Hnts Hl Hc) as [ci [H1 H2]].
      rewrite lookup_tflat_notin; [eauto|].
      intros Hi. apply (Hdisj c Hi). eapply lookup_fflat_Some_In; eauto.
Qed.

Lemma fflat_child_parent ts p x i c :
  NoDup (frefs ts) -> lookup x (flat_map (tflat p) ts) = Some i -> In c (i_children i) ->
  exists ci, lookup c (flat_map (tflat p) ts) = Some ci /\ i_parent ci = x.
Proof. apply tflat_fflat_child_parent. Qed.

(* the entries of a found subtree are those of its own flattening under its parent p',
   which lies outside the subtree *)
Lemma tfind_ffind_flat r :
  (forall t p sub, tfind r t = Some sub -> NoDup (trefs t) -> ~ In p (trefs t) ->
     exists p', ~ In p' (trefs sub) /\ (p' = p \/ In p' (trefs t)) /\
       forall x, In x (trefs sub) -> lookup x (tflat p t) = lookup x (tflat p' sub)) /\
  (forall ts p sub, ffind r ts = Some sub -> NoDup (frefs ts) -> ~ In p (frefs ts) ->
     exists p', ~ In p' (trefs sub) /\ (p' = p \/ In p' (frefs ts)) /\
       forall x, In x (trefs sub) -> lookup x (flat_map (tflat p) ts) = lookup x (tflat p' sub)).
Proof.
  apply tree_forest_ind.
  - intros y n c ps kids IH p sub Hf Hnd Hp. rewrite tfind_eq in Hf.
    destruct (N.eqb y r) eqn:E.
    + injection Hf as <-. exists p. split; [exact Hp|]. split; [now left|]. reflexivity.
    + pose proof (NoDup_trefs_node _ _ _ _ _ Hnd) as [Hy Hk].
      destruct (IH y sub Hf Hk Hy) as [p' [H1 [H2 H3]]].
      exists p'. split; [exact H1|]. split.
      * right. rewrite trefs_eq. destruct H2 as [->|H2]; [now left|now right].
      * intros x Hx. rewrite lookup_tflat_node.
        destruct (N.eqb x y) eqn:Ex; [|now apply H3].
        apply N.eqb_eq in Ex. subst x. exfalso. apply Hy. eapply ffind_incl; eauto.
  - intros p sub Hf. cbn [ffind] in Hf. discriminate.
  - intros t ts IHt IHts p sub Hf Hnd Hp. cbn [ffind] in Hf.
    apply NoDup_frefs_cons in Hnd. destruct Hnd as [Hnt [Hnts Hdisj]].
    rewrite frefs_cons, in_app_iff in Hp.
    destruct (tfind r t) as [s|] eqn:E.
    + injection Hf as ->. destruct (IHt p sub eq_refl Hnt) as [p' [H1 [H2 H3]]]; [tauto|].
      exists p'. split; [exact H1|]. split; [rewrite frefs_cons, in_app_iff; tauto|].
      intros x Hx. rewrite lookup_fflat_cons. rewrite H3 by exact Hx.
      destruct (lookup_tflat_in p' sub x Hx) as [i Hi]. rewrite Hi. reflexivity.
    + destruct (IHts p sub Hf Hnts) as [p' [H1 [H2 H3]]]; [tauto|].
      exists p'. split; [exact H1|]. split; [rewrite frefs_cons, in_app_iff; tauto|].
      intros x Hx. rewrite lookup_fflat_cons. rewrite lookup_tflat_notin; [now apply H3|].
      intros Hi. apply (Hdisj x Hi). eapply ffind_incl; eauto.
Qed.

Lemma ffind_flat r ts p sub :
  ffind r ts = Some sub -> NoDup (frefs ts) -> ~ In p (frefs ts) ->
  exists p', ~ In p' (trefs sub) /\ (p' = p \/ In p' (frefs ts)) /\
    forall x, In x (trefs sub) -> lookup x (flat_map (tflat p) ts) = lookup x (tflat p' sub).
Proof. apply tfind_ffind_flat. Qed.

(* ---- the flattened table after fdel ---- *)

Lemma tdel_fdel_flat r :
  (forall t p t' x, tdel r t = Some t' -> NoDup (trefs t) -> In x (trefs t') ->
     lookup x (tflat p t') =
     option_map (fun i => set_children i (retain_ne r (i_children i))) (lookup x (tflat p t))) /\
  (forall ts p x, NoDup (frefs ts) -> In x (frefs (fdel r ts)) ->
     lookup x (flat_map (tflat p) (fdel r ts)) =
     option_map (fun i => set_children i (retain_ne r (i_children i))) (lookup x (flat_map (tflat p) ts))).
Proof.
  apply tree_forest_ind.
  - intros y n c ps kids IH p t' x Hd Hnd Hx. rewrite tdel_eq in Hd.
    destruct (N.eqb y r) eqn:E; [discriminate|]. injection Hd as <-.
    pose proof (NoDup_trefs_node _ _ _ _ _ Hnd) as [Hy Hk].
    rewrite trefs_eq in Hx. rewrite !lookup_tflat_node.
    destruct (N.eqb x y) eqn:Ex.
    + cbn [option_map set_children i_children i_parent i_name i_class i_props].
      rewrite map_troot_fdel. reflexivity.
    + apply N.eqb_neq in Ex. destruct Hx as [Hx|Hx]; [congruence|]. now apply IH.
  - intros p x _ H. contradiction.
  - intros t ts IHt IHts p x Hnd Hx.
    apply NoDup_frefs_cons in Hnd. destruct Hnd as [Hnt [Hnts Hdisj]].
    cbn [fdel] in Hx. cbn [fdel]. rewrite (lookup_fflat_cons p t ts).
    destruct (tdel r t) as [t'|] eqn:E.
    + rewrite lookup_fflat_cons. rewrite frefs_cons, in_app_iff in Hx.
      destruct (in_dec N.eq_dec x (trefs t')) as [Hi|Hn].
      * rewrite (IHt p t' x eq_refl Hnt Hi).
        destruct (lookup_tflat_in p t x (tdel_incl _ _ _ E _ Hi)) as [i Hl]. rewrite Hl. reflexivity.
      * destruct Hx as [Hx|Hx]; [contradiction|].
        assert (Hxt : ~ In x (trefs t)). { intros Hi. apply (Hdisj x Hi). now apply (fdel_incl r ts). }
        rewrite (lookup_tflat_notin p t' x Hn), (lookup_tflat_notin p t x Hxt). now apply IHts.
    + assert (Hxt : ~ In x (trefs t)). { intros Hi. apply (Hdisj x Hi). now apply (fdel_incl r ts). }
      rewrite (lookup_tflat_notin p t x Hxt). now apply IHts.
Qed.

Lemma fdel_flat r ts p x :
  NoDup (frefs ts) -> In x (frefs (fdel r ts)) ->
  lookup x (flat_map (tflat p) (fdel r ts)) =
  option_map (fun i => set_children i (retain_ne r (i_children i))) (lookup x (flat_map (tflat p) ts)).
Proof. apply tdel_fdel_flat. Qed.

(* the complete pointwise description of the table after detaching the subtree at r:
   the subtree's entries vanish; r's former parent p (if it is a node) stops listing r;
   every other entry is untouched *)
Lemma fdel_flat_spec r ts p0 sub :
  NoDup (frefs ts) -> ~ In p0 (frefs ts) -> ffind r ts = Some sub ->
  exists ir p,
    lookup r (flat_map (tflat p0) ts) = Some ir /\ i_parent ir = p /\
    i_children ir = List.map troot (tkids sub) /\ i_props ir = tprops sub /\
    ~ In p (trefs sub) /\ (p = p0 \/ In p (frefs ts)) /\
    (forall x, In x (trefs sub) -> lookup x (flat_map (tflat p0) ts) = lookup x (tflat p sub)) /\
    (forall x, In x (trefs sub) -> lookup x (flat_map (tflat p0) (fdel r ts)) = None) /\
    (forall x, ~ In x (trefs sub) -> x <> p ->
        lookup x (flat_map (tflat p0) (fdel r ts)) = lookup x (flat_map (tflat p0) ts)) /\
    (forall pi, lookup p (flat_map (tflat p0) ts) = Some pi ->
        lookup p (flat_map (tflat p0) (fdel r ts)) = Some (set_children pi (retain_ne r (i_children pi)))).
Proof.
  intros Hnd Hp0 Hf.
  destruct (ffind_flat r ts p0 sub Hf Hnd Hp0) as [p [Hp [Hpin Hsub]]].
  pose proof (ffind_root _ _ _ Hf) as Hroot.
  assert (Hrin : In r (trefs sub)) by (rewrite <- Hroot; apply troot_in_trefs).
  destruct (lookup_tflat_troot p sub) as [ir [Hir [Hirp [Hirc Hirps]]]]. rewrite Hroot in Hir.
  assert (Hlr : lookup r (flat_map (tflat p0) ts) = Some ir) by (rewrite (Hsub r Hrin); exact Hir).
  exists ir, p. repeat split; try assumption.
  - intros x Hx. apply lookup_fflat_notin. intros Hi.
    apply (frefs_fdel_In r ts sub x Hf Hnd) in Hi. tauto.
  - intros x Hx Hxp. destruct (in_dec N.eq_dec x (frefs ts)) as [Hi|Hn].
    + assert (Hi' : In x (frefs (fdel r ts))) by (apply (frefs_fdel_In r ts sub x Hf Hnd); tauto).
      rewrite (fdel_flat r ts p0 x Hnd Hi').
      destruct (lookup_fflat_in p0 ts x Hi) as [i Hl]. rewrite Hl. cbn [option_map]. f_equal.
      rewrite retain_ne_notin; [apply set_children_same|].
      intros Hc. destruct (fflat_child_parent ts p0 x i r Hnd Hl Hc) as [ci [H1 H2]]. congruence.
    + rewrite !lookup_fflat_notin; [reflexivity|exact Hn|].
      intros Hi. apply Hn. now apply (fdel_incl r ts).
  - intros pi Hl.
    assert (Hi : In p (frefs ts)) by (eapply lookup_fflat_Some_In; eauto).
    assert (Hi' : In p (frefs (fdel r ts))) by (apply (frefs_fdel_In r ts sub p Hf Hnd); tauto).
    rewrite (fdel_flat r ts p0 p Hnd Hi'), Hl. reflexivity.
Qed.

(* ---- the flattened table after tgraft / fgraft ---- *)

Definition graft_entry (dest c x : ref) (i : inst) : inst :=
  if N.eqb x dest then set_children i (i_children i ++ [c]) else i.

Lemma tgraft_flat dest sub :
  (forall t p x, In dest (trefs t) -> NoDup (trefs t) -> (forall y, In y (trefs sub) -> ~ In y (trefs t)) ->
     lookup x (tflat p (tgraft dest sub t)) =
     if mem x (trefs t) then option_map (graft_entry dest (troot sub) x) (lookup x (tflat p t))
     else lookup x (tflat dest sub)) /\
  (forall ts p x, In dest (frefs ts) -> NoDup (frefs ts) -> (forall y, In y (trefs sub) -> ~ In y (frefs ts)) ->
     lookup x (flat_map (tflat p) (List.map (tgraft dest sub) ts)) =
     if mem x (frefs ts) then option_map (graft_entry dest (troot sub) x) (lookup x (flat_map (tflat p) ts))
     else lookup x (tflat dest sub)).
Proof.
  apply tree_forest_ind.
  - intros y n c ps kids IH p x Hin Hnd Hdj.
    pose proof (NoDup_trefs_node _ _ _ _ _ Hnd) as [Hy Hk].
    rewrite trefs_eq in Hin. rewrite tgraft_eq, trefs_eq. cbn [mem].
    destruct (N.eqb y dest) eqn:E.
    + apply N.eqb_eq in E. subst y. rewrite (map_tgraft_notin _ _ _ Hy).
      rewrite !lookup_tflat_node. destruct (N.eqb x dest) eqn:Ex.
      * unfold graft_entry. rewrite Ex.
        cbn [option_map set_children i_children i_parent i_name i_class i_props].
        rewrite map_app. reflexivity.
      * rewrite flat_map_app. cbn [flat_map]. rewrite app_nil_r, lookup_app.
        destruct (mem x (frefs kids)) eqn:Em.
        -- apply mem_In in Em. destruct (lookup_fflat_in dest kids x Em) as [i Hi]. rewrite Hi.
           unfold graft_entry. rewrite Ex. reflexivity.
        -- apply mem_false_In in Em. rewrite (lookup_fflat_notin dest kids x Em). reflexivity.
    + assert (Hne : y <> dest) by now apply N.eqb_neq.
      destruct Hin as [Hin|Hin]; [contradiction|].
      rewrite !lookup_tflat_node. destruct (N.eqb x y) eqn:Ex.
      * apply N.eqb_eq in Ex. subst x. unfold graft_entry. rewrite E.
        cbn [option_map]. rewrite map_troot_tgraft. reflexivity.
      * apply IH; [exact Hin|exact Hk|]. intros z Hz Hzk. apply (Hdj z Hz). rewrite trefs_eq. now right.
  - intros p x H. contradiction.
  - intros t ts IHt IHts p x Hin Hnd Hdj.
    apply NoDup_frefs_cons in Hnd. destruct Hnd as [Hnt [Hnts Hdisj]].
    rewrite frefs_cons, in_app_iff in Hin. cbn [List.map]. rewrite !lookup_fflat_cons.
    assert (Hdjt : forall y, In y (trefs sub) -> ~ In y (trefs t)).
    { intros z Hz Hzt. apply (Hdj z Hz). rewrite frefs_cons, in_app_iff. now left. }
    assert (Hdjts : forall y, In y (trefs sub) -> ~ In y (frefs ts)).
    { intros z Hz Hzt. apply (Hdj z Hz). rewrite frefs_cons, in_app_iff. now right. }
    rewrite frefs_cons, mem_app.
    destruct (in_dec N.eq_dec dest (trefs t)) as [Hd|Hd].
    + assert (Hr : ~ In dest (frefs ts)) by (intros Hi; eapply Hdisj; eauto).
      rewrite (map_tgraft_notin _ _ _ Hr). rewrite (IHt p x Hd Hnt Hdjt).
      destruct (mem x (trefs t)) eqn:Em.
      * apply mem_In in Em. destruct (lookup_tflat_in p t x Em) as [i Hi]. rewrite Hi. reflexivity.
      * apply mem_false_In in Em. rewrite (lookup_tflat_notin p t x Em). cbn [orb].
        destruct (lookup x (tflat dest sub)) as [i|] eqn:El.
        -- assert (Hxs : In x (trefs sub)) by (eapply lookup_tflat_Some_In; eauto).
           apply Hdjts in Hxs. apply mem_false_In in Hxs. rewrite Hxs. reflexivity.
        -- destruct (mem x (frefs ts)) eqn:Em2; [|apply lookup_fflat_notin; now apply mem_false_In].
           apply mem_In in Em2. unfold graft_entry.
           destruct (N.eqb x dest) eqn:Ex; [apply N.eqb_eq in Ex; subst x; contradiction|].
           symmetry. apply option_map_id.
    + destruct Hin as [Hin|Hin]; [contradiction|].
      rewrite (proj1 (tgraft_notin dest sub) _ Hd).
      destruct (mem x (trefs t)) eqn:Em.
      * apply mem_In in Em. destruct (lookup_tflat_in p t x Em) as [i Hi]. rewrite Hi. cbn [option_map orb].
        unfold graft_entry. destruct (N.eqb x dest) eqn:Ex; [apply N.eqb_eq in Ex; subst x; contradiction|].
        reflexivity.
      * apply mem_false_In in Em. rewrite (lookup_tflat_notin p t x Em). cbn [orb]. now apply IHts.
Qed.

Lemma fgraft_flat_node dest sub ts p x :
  In dest (frefs ts) -> dest <> rnone -> NoDup (frefs ts) ->
  (forall y, In y (trefs sub) -> ~ In y (frefs ts)) ->
  lookup x (flat_map (tflat p) (fgraft dest sub ts)) =
  if mem x (frefs ts) then option_map (graft_entry dest (troot sub) x) (lookup x (flat_map (tflat p) ts))
  else lookup x (tflat dest sub).
Proof.
  intros Hd Hne Hnd Hdj. unfold fgraft. apply N.eqb_neq in Hne. rewrite Hne.
  now apply tgraft_flat.
Qed.

Lemma fgraft_flat_top sub ts p x :
  lookup x (flat_map (tflat p) (fgraft rnone sub ts)) =
  match lookup x (flat_map (tflat p) ts) with Some i => Some i | None => lookup x (tflat p sub) end.
Proof.
  unfold fgraft. rewrite N.eqb_refl, flat_map_app, lookup_app. cbn [flat_map]. now rewrite app_nil_r.
Qed.

Lemma map_troot_fgraft dest sub ts :
  List.map troot (fgraft dest sub ts) =
  if N.eqb dest rnone then List.map troot ts ++ [troot sub] else List.map troot ts.
Proof.
  unfold fgraft. destruct (N.eqb dest rnone); [now rewrite map_app|apply map_troot_tgraft].
Qed.

Lemma frefs_fgraft_In dest sub ts x :
  dest = rnone \/ In dest (frefs ts) -> NoDup (frefs ts) ->
  (In x (frefs (fgraft dest sub ts)) <-> In x (frefs ts) \/ In x (trefs sub)).
Proof.
  intros Hd Hnd. pose proof (frefs_fgraft_perm dest sub ts Hd Hnd) as HP. rewrite <- in_app_iff. split.
  - apply (Permutation_in _ HP).
  - apply (Permutation_in _ (Permutation_sym HP)).
Qed.

Lemma fuids_fgraft_In dest sub ts u :
  dest = rnone \/ In dest (frefs ts) -> NoDup (frefs ts) ->
  (In u (fuids (fgraft dest sub ts)) <-> In u (fuids ts) \/ In u (tuids sub)).
Proof.
  intros Hd Hnd. pose proof (fuids_fgraft_perm dest sub ts Hd Hnd) as HP. rewrite <- in_app_iff. split.
  - apply (Permutation_in _ HP).
  - apply (Permutation_in _ (Permutation_sym HP)).
Qed.

(* detaching a subtree and grafting it back elsewhere keeps the referents and UniqueIds (as multisets) *)
Lemma frefs_move_perm r dest ts sub :
  ffind r ts = Some sub -> NoDup (frefs ts) -> In dest (frefs (fdel r ts)) ->
  Permutation (frefs (fgraft dest sub (fdel r ts))) (frefs ts).
Proof.
  intros Hf Hnd Hd.
  eapply Permutation_trans;
    [apply frefs_fgraft_perm; [now right|eapply NoDup_frefs_fdel; eauto]|].
  eapply Permutation_trans; [apply Permutation_app_comm|].
  apply Permutation_sym. now apply frefs_fdel_perm.
Qed.

Lemma fuids_move_perm r dest ts sub :
  ffind r ts = Some sub -> NoDup (frefs ts) -> In dest (frefs (fdel r ts)) ->
  Permutation (fuids (fgraft dest sub (fdel r ts))) (fuids ts).
Proof.
  intros Hf Hnd Hd.
  eapply Permutation_trans;
    [apply fuids_fgraft_perm; [now right|eapply NoDup_frefs_fdel; eauto]|].
  eapply Permutation_trans; [apply Permutation_app_comm|].
  apply Permutation_sym. now apply fuids_fdel_perm.
Qed.

(* a forest's referents are keys of any table that agrees with its flattening *)
Lemma fsize_le_table {V} ts (m : map V) :
  NoDup (frefs ts) ->
  (forall x, In x (frefs ts) -> lookup x m <> None) ->
  (fsize ts <= length m)%nat.
Proof.
  intros Hnd Hin. rewrite <- length_frefs. replace (length m) with (length (keys m)) by apply map_length.
  apply NoDup_incl_length; [exact Hnd|]. intros x Hx.
  destruct (lookup x m) as [v|] eqn:E; [eapply lookup_Some_keys; eauto|]. exfalso. now apply (Hin x Hx).
Qed.
