(* BinFraming.v — the chunk framing of the binary file model (Model/BinFile.v):
     (A) framing transparency: the byte-level reader loop [chunk_loop] on a well-framed chunk sequence
         is the list-level loop [chunk_list_loop] on the de-framed chunks (uncompressed, and compressed
         under the oracle hypotheses of [chunk_roundtrip_compressed]); lifted to decode_file / encode_chunks;
     (B) truncation is always detected (C13): no strict prefix of a well-framed file decodes to Ok,
         for every allocation limit and EVERY inflate oracle, uncompressed and compressed; with the
         totality theorem of BinSafe.v the outcome is an error; lifted to encode_file;
     (C) instances on the sample file of BinFileFacts.v, and witnesses that the hypotheses are needed. *)
From Coq Require Import Lia.
From RbxVerif Require Import Base Bytes Value Db CodecDom BinValues BinFile BytesFacts AttrSafe BinFileFacts BinSafe.
Open Scope N_scope.

(* ------------------------------------------------------------------------------------------ *)
(* 0. small tools                                                                               *)
(* ------------------------------------------------------------------------------------------ *)
Lemma beqb_true a : forall b, bytes_eqb a b = true -> a = b.
Proof.
  induction a as [|x a IH]; intros [|y b] H; cbn in H; try discriminate; auto.
  apply andb_true_iff in H. destruct H as [H1 H2]. apply N.eqb_eq in H1. apply IH in H2. congruence.
Qed.

Lemma w_le32_length v : length (w_le32 v) = 4%nat.
Proof. unfold w_le32. apply le_bytes_length. Qed.

Lemma len32_lt {A} (l : list A) : len32 l < 2 ^ 32.
Proof. unfold len32. change (2 ^ 32) with 4294967296. apply N.mod_lt. discriminate. Qed.

Lemma firstn_app_ge {A} (a b : list A) j : (length a <= j)%nat -> firstn j (a ++ b) = a ++ firstn (j - length a) b.
Proof. intros H. rewrite firstn_app. now rewrite firstn_all2 by exact H. Qed.

Lemma firstn_app_lt {A} (a b : list A) j : (j <= length a)%nat -> firstn j (a ++ b) = firstn j a.
Proof.
  intros H. rewrite firstn_app. replace (j - length a)%nat with 0%nat by lia. cbn [firstn]. apply app_nil_r.
Qed.

Definition not_ok {A} (r : res A) : Prop := forall a, r <> Ok a.

Lemma not_ok_err {A} e : not_ok (@Err A e). Proof. intros a. discriminate. Qed.
Lemma not_ok_rbind {A B} (r : res A) (f : A -> res B) : not_ok r -> not_ok (rbind r f).
Proof. intros H b. destruct r as [a| | |]; cbn [rbind]; try discriminate. now destruct (H a). Qed.

(* ------------------------------------------------------------------------------------------ *)
(* 1. parsers that cannot succeed on a short input                                              *)
(* ------------------------------------------------------------------------------------------ *)
(* [needs n p]: on fewer than n bytes p reports an error (no Ok, no panic);
   [exact m p]: p never panics and a success consumes exactly m bytes *)
Definition needs {A} (n : nat) (p : parser A) : Prop :=
  forall b, (length b < n)%nat -> exists e, p b = Err e.
Definition exact {A} (m : nat) (p : parser A) : Prop :=
  forall b, match p b with Ok (_, b') => length b = (m + length b')%nat | Err _ => True | _ => False end.

Lemma needs_0 {A} (p : parser A) : needs 0 p.
Proof. intros b Hb. lia. Qed.
Lemma needs_fail {A} n c : needs n (@pfail A c).
Proof. intros b _. now exists c. Qed.
Lemma needs_bind {A B} m n (p : parser A) (f : A -> parser B) :
  exact m p -> (forall a, needs n (f a)) -> needs (m + n) (pbind p f).
Proof.
  intros Hp Hf b Hb. unfold pbind. specialize (Hp b).
  destruct (p b) as [[a b']| |e|]; [|easy|now exists e|easy]. apply Hf. lia.
Qed.
Lemma exact_read_exact n : exact n (read_exact n).
Proof. intros b. apply read_exact_len. Qed.
Lemma exact_read_le n : exact n (read_le n).
Proof.
  intros b. unfold read_le, pbind. pose proof (read_exact_len n b) as H.
  destruct (read_exact n b) as [[h t]| | |]; try easy.
Qed.

(* FileHeader::decode needs its 32 bytes *)
Lemma decode_header_short lim : needs 32 (decode_header lim).
Proof.
  unfold decode_header. change 32%nat with (8 + (6 + (2 + (4 + (4 + (8 + 0))))))%nat.
  apply needs_bind; [apply exact_read_exact|intros magic]. destruct (negb _); [apply needs_fail|].
  apply needs_bind; [apply exact_read_exact|intros sig]. destruct (negb _); [apply needs_fail|].
  apply needs_bind; [apply exact_read_le|intros ver]. destruct (negb _); [apply needs_fail|].
  apply needs_bind; [apply exact_read_le|intros nt].
  apply needs_bind; [apply exact_read_le|intros ni].
  apply needs_bind; [apply exact_read_exact|intros rs]. apply needs_0.
Qed.

(* Chunk::decode needs the 16 bytes of a chunk header *)
Lemma decode_chunk_short p : needs 16 (decode_chunk p).
Proof.
  unfold decode_chunk. change 16%nat with (4 + (4 + (4 + (4 + 0))))%nat.
  apply needs_bind; [apply exact_read_exact|intros name].
  apply needs_bind; [apply exact_read_le|intros cl].
  apply needs_bind; [apply exact_read_le|intros len].
  apply needs_bind; [apply exact_read_le|intros rs]. apply needs_0.
Qed.

(* ------------------------------------------------------------------------------------------ *)
(* 2. one framed chunk                                                                          *)
(* ------------------------------------------------------------------------------------------ *)
Definition chunk_hdr (name : bytes) (cl len : N) : bytes := name ++ w_le32 cl ++ w_le32 len ++ w_le32 0.

Lemma chunk_hdr_length name cl len : length name = 4%nat -> length (chunk_hdr name cl len) = 16%nat.
Proof. intros H. unfold chunk_hdr. rewrite !app_length, !w_le32_length, H. reflexivity. Qed.

(* what ChunkBuilder::dump writes after the 16-byte chunk header *)
Definition frame_body (cmp : compression) (payload : bytes) : bytes :=
  match cmp with None => payload | Some f => f payload end.

Lemma frame_chunk_eq cmp name payload :
  frame_chunk cmp (name, payload) =
  chunk_hdr name (match cmp with None => 0 | Some f => len32 (f payload) end) (len32 payload) ++ frame_body cmp payload.
Proof. unfold frame_chunk, chunk_hdr, frame_body. destruct cmp; rewrite <- !app_assoc; reflexivity. Qed.

(* Chunk::decode after a well-formed chunk header: the two payload branches *)
Definition chunk_tail (p : dec_params) (name : bytes) (cl len : N) : parser (bytes * bytes) :=
  if N.eqb cl 0 then
    _ <== palloc (dp_lim p) len ;;
    data <== take_upto len ;;
    if negb (N.eqb (N.of_nat (length data)) len) then pfail E_EOF else pret (name, data)
  else
    _ <== palloc (dp_lim p) cl ;;
    compressed_data <== take_upto cl ;;
    _ <== palloc (dp_lim p) len ;;
    match dp_inflate p compressed_data len with
    | None => pfail E_INFLATE
    | Some data => if negb (N.eqb (N.of_nat (length data)) len) then pfail E_EOF else pret (name, data)
    end.

Lemma decode_chunk_hdr p name cl len tail :
  length name = 4%nat -> cl < 2 ^ 32 -> len < 2 ^ 32 ->
  decode_chunk p (chunk_hdr name cl len ++ tail) = chunk_tail p name cl len tail.
Proof.
  intros Hn Hc Hl. unfold decode_chunk, chunk_hdr, chunk_tail. rewrite <- !app_assoc.
  unfold pbind at 1. rewrite <- Hn at 1. rewrite read_exact_app.
  unfold pbind at 1. rewrite le32_app by assumption.
  unfold pbind at 1. rewrite le32_app by assumption.
  unfold pbind at 1. rewrite le32_app by (cbv; reflexivity).
  change (N.eqb 0 0) with true. cbn [negb]. reflexivity.
Qed.

Lemma take_upto_short len b : N.of_nat (length b) <= len -> take_upto len b = Ok (b, []).
Proof. intros H. unfold take_upto. apply N.leb_le in H. now rewrite H. Qed.

(* the outcome of Chunk::decode is "a chunk called [name], leaving [rest]" or an error *)
Definition chunk_or_err (r : res ((bytes * bytes) * bytes)) (name rest : bytes) : Prop :=
  (exists data, r = Ok ((name, data), rest)) \/ (exists e, r = Err e).

Lemma palloc_cases lim n b : palloc lim n b = Ok (tt, b) \/ palloc lim n b = Err E_ALLOC.
Proof. unfold palloc. destruct lim as [l|]; [destruct (N.ltb l n)|]; auto. Qed.

(* size conditions under which ChunkBuilder::dump writes the lengths it means to write *)
Definition sizes_ok (cmp : compression) (payload : bytes) : Prop :=
  N.of_nat (length payload) < 2 ^ 32 /\
  match cmp with
  | None => True
  | Some f => N.of_nat (length (f payload)) < 2 ^ 32 /\ f payload <> []
  end.
Definition chunk_ok (cmp : compression) (c : bytes * bytes) : Prop :=
  length (fst c) = 4%nat /\ sizes_ok cmp (snd c).

Lemma frame_chunk_length cmp name payload : length name = 4%nat ->
  length (frame_chunk cmp (name, payload)) = (16 + length (frame_body cmp payload))%nat.
Proof. intros H. rewrite frame_chunk_eq, app_length, chunk_hdr_length by exact H. reflexivity. Qed.

(* a complete frame followed by anything: the chunk (with SOME payload when compressed: nothing is
   assumed about the inflate oracle) and exactly the rest, or an error *)
Lemma frame_full p cmp name payload rest : chunk_ok cmp (name, payload) ->
  chunk_or_err (decode_chunk p (frame_chunk cmp (name, payload) ++ rest)) name rest.
Proof.
  intros [Hn [Hp Hc]]. cbn [fst snd] in *. rewrite frame_chunk_eq, <- app_assoc.
  destruct cmp as [f|]; cbn [frame_body].
  - destruct Hc as [Hc Hne].
    rewrite decode_chunk_hdr by (try apply len32_lt; assumption).
    unfold chunk_tail. rewrite !len32_small by assumption.
    assert (E : N.eqb (N.of_nat (length (f payload))) 0 = false).
    { apply N.eqb_neq. destruct (f payload); [congruence|]. cbn [length]. lia. }
    rewrite E. unfold pbind at 1.
    destruct (palloc_cases (dp_lim p) (N.of_nat (length (f payload))) (f payload ++ rest)) as [-> | ->];
      [|right; now eexists].
    unfold pbind at 1. rewrite take_upto_app. unfold pbind at 1.
    destruct (palloc_cases (dp_lim p) (N.of_nat (length payload)) rest) as [-> | ->]; [|right; now eexists].
    destruct (dp_inflate p (f payload) (N.of_nat (length payload))) as [data|]; [|right; now eexists].
    destruct (negb _); [right; now eexists|left; now eexists].
  - rewrite decode_chunk_hdr by (try apply len32_lt; try assumption; cbv; reflexivity).
    unfold chunk_tail. rewrite !len32_small by assumption. change (N.eqb 0 0) with true. cbv iota.
    unfold pbind at 1.
    destruct (palloc_cases (dp_lim p) (N.of_nat (length payload)) (payload ++ rest)) as [-> | ->];
      [|right; now eexists].
    unfold pbind at 1. rewrite take_upto_app. rewrite N.eqb_refl. cbn [negb]. left. now eexists.
Qed.

(* a strict prefix of a frame: an error, or (compressed only, at the mercy of the inflate oracle)
   a chunk that leaves NO input behind *)
Lemma frame_trunc p cmp name payload j : chunk_ok cmp (name, payload) ->
  (j < length (frame_chunk cmp (name, payload)))%nat ->
  chunk_or_err (decode_chunk p (firstn j (frame_chunk cmp (name, payload)))) name [].
Proof.
  intros [Hn [Hp Hc]] Hj. cbn [fst snd] in *.
  destruct (Nat.lt_ge_cases j 16) as [Hs|Hs].
  { right. apply decode_chunk_short. rewrite firstn_length. lia. }
  rewrite frame_chunk_length in Hj by exact Hn.
  rewrite frame_chunk_eq, firstn_app_ge by (rewrite chunk_hdr_length by exact Hn; exact Hs).
  rewrite chunk_hdr_length by exact Hn.
  set (m := (j - 16)%nat). assert (Hm : (m < length (frame_body cmp payload))%nat) by (unfold m; lia).
  assert (Hfl : length (firstn m (frame_body cmp payload)) = m) by (rewrite firstn_length; lia).
  destruct cmp as [f|]; cbn [frame_body] in *.
  - destruct Hc as [Hc Hne].
    rewrite decode_chunk_hdr by (try apply len32_lt; assumption).
    unfold chunk_tail. rewrite !len32_small by assumption.
    assert (E : N.eqb (N.of_nat (length (f payload))) 0 = false).
    { apply N.eqb_neq. destruct (f payload); [congruence|]. cbn [length]. lia. }
    rewrite E. unfold pbind at 1.
    destruct (palloc_cases (dp_lim p) (N.of_nat (length (f payload))) (firstn m (f payload))) as [-> | ->];
      [|right; now eexists].
    unfold pbind at 1. rewrite take_upto_short by (rewrite Hfl; lia). unfold pbind at 1.
    destruct (palloc_cases (dp_lim p) (N.of_nat (length payload)) []) as [-> | ->]; [|right; now eexists].
    destruct (dp_inflate p (firstn m (f payload)) (N.of_nat (length payload))) as [data|]; [|right; now eexists].
    destruct (negb _); [right; now eexists|left; now eexists].
  - rewrite decode_chunk_hdr by (try apply len32_lt; try assumption; cbv; reflexivity).
    unfold chunk_tail. rewrite !len32_small by assumption. change (N.eqb 0 0) with true. cbv iota.
    unfold pbind at 1.
    destruct (palloc_cases (dp_lim p) (N.of_nat (length payload)) (firstn m payload)) as [-> | ->];
      [|right; now eexists].
    unfold pbind at 1. rewrite take_upto_short by (rewrite Hfl; lia). rewrite Hfl.
    assert (E : N.eqb (N.of_nat m) (N.of_nat (length payload)) = false) by (apply N.eqb_neq; lia).
    rewrite E. cbn [negb]. right. now eexists.
Qed.

(* uncompressed: a strict prefix of a frame is always an error *)
Lemma frame_trunc_plain p name payload j : chunk_ok None (name, payload) ->
  (j < length (frame_chunk None (name, payload)))%nat ->
  exists e, decode_chunk p (firstn j (frame_chunk None (name, payload))) = Err e.
Proof.
  intros [Hn [Hp Hc]] Hj. cbn [fst snd] in *.
  destruct (Nat.lt_ge_cases j 16) as [Hs|Hs].
  { apply decode_chunk_short. rewrite firstn_length. lia. }
  rewrite frame_chunk_length in Hj by exact Hn.
  rewrite frame_chunk_eq, firstn_app_ge by (rewrite chunk_hdr_length by exact Hn; exact Hs).
  rewrite chunk_hdr_length by exact Hn. cbn [frame_body] in *.
  set (m := (j - 16)%nat). assert (Hm : (m < length payload)%nat) by (unfold m; lia).
  assert (Hfl : length (firstn m payload) = m) by (rewrite firstn_length; lia).
  rewrite decode_chunk_hdr by (try apply len32_lt; try assumption; cbv; reflexivity).
  unfold chunk_tail. rewrite !len32_small by assumption. change (N.eqb 0 0) with true. cbv iota.
  unfold pbind at 1.
  destruct (palloc_cases (dp_lim p) (N.of_nat (length payload)) (firstn m payload)) as [-> | ->];
    [|now eexists].
  unfold pbind at 1. rewrite take_upto_short by (rewrite Hfl; lia). rewrite Hfl.
  assert (E : N.eqb (N.of_nat m) (N.of_nat (length payload)) = false) by (apply N.eqb_neq; lia).
  rewrite E. cbn [negb]. now eexists.
Qed.

(* ------------------------------------------------------------------------------------------ *)
(* 3. (A) framing transparency                                                                  *)
(* ------------------------------------------------------------------------------------------ *)
(* the hypotheses of chunk_roundtrip / chunk_roundtrip_compressed for one chunk *)
Definition chunk_rt (p : dec_params) (cmp : compression) (c : bytes * bytes) : Prop :=
  chunk_ok cmp c /\
  match cmp with
  | None => True
  | Some f => dp_inflate p (f (snd c)) (N.of_nat (length (snd c))) = Some (snd c)
  end.

Lemma frame_roundtrip p cmp c rest : dp_lim p = None -> chunk_rt p cmp c ->
  decode_chunk p (frame_chunk cmp c ++ rest) = Ok (c, rest).
Proof.
  intros Hl [[Hn [Hp Hc]] Hi]. destruct c as [name payload]. cbn [fst snd] in *.
  destruct cmp as [f|].
  - destruct Hc as [Hc Hne]. now apply chunk_roundtrip_compressed.
  - now apply chunk_roundtrip.
Qed.

Lemma dispatch_end d p st data : dispatch_chunk d p st CH_END data = Ok None.
Proof. reflexivity. Qed.

Lemma dispatch_none d p st name data : dispatch_chunk d p st name data = Ok None -> name = CH_END.
Proof.
  unfold dispatch_chunk.
  destruct (bytes_eqb name CH_META). { destruct (run_chunk _ data); cbn [rbind]; discriminate. }
  destruct (bytes_eqb name CH_SSTR). { destruct (run_chunk _ data); cbn [rbind]; discriminate. }
  destruct (bytes_eqb name CH_INST). { destruct (run_chunk _ data); cbn [rbind]; discriminate. }
  destruct (bytes_eqb name CH_PROP). { destruct (decode_prop d p st data); cbn [rbind]; discriminate. }
  destruct (bytes_eqb name CH_PRNT). { destruct (decode_prnt _ st data); cbn [rbind]; discriminate. }
  destruct (bytes_eqb name CH_END) eqn:E; [intros _; now apply beqb_true|discriminate].
Qed.

Lemma end_chunk_decodes p rest : dp_lim p = None ->
  decode_chunk p (END_CHUNK ++ rest) = Ok ((CH_END, FILE_FOOTER), rest).
Proof. intros Hl. unfold END_CHUNK. apply chunk_roundtrip; [reflexivity|vm_compute; reflexivity|exact Hl]. Qed.

(* THEOREM A1.  The byte-level reader loop on framed chunks followed by the END chunk is the list-level
   loop on the chunks followed by (END, footer).  One unit of fuel per chunk, the END chunk included.
   [cmp = None]: CompressionType::None; [cmp = Some f]: compressed, with the inflate oracle inverting f
   on every payload (chunk_rt).  Whatever follows the END chunk ([extra]) is never looked at. *)
Theorem chunk_loop_framed d p cmp : dp_lim p = None ->
  forall cs, Forall (chunk_rt p cmp) cs ->
  forall fuel st extra, (length cs < fuel)%nat ->
  chunk_loop fuel d p st (flat_map (frame_chunk cmp) cs ++ END_CHUNK ++ extra)
  = chunk_list_loop d p st (cs ++ [(CH_END, FILE_FOOTER)]).
Proof.
  intros Hl. induction cs as [|c cs IH]; intros Hcs fuel st extra Hf.
  - destruct fuel as [|f]; [cbn in Hf; lia|].
    cbn [flat_map app chunk_loop chunk_list_loop]. rewrite end_chunk_decodes by exact Hl.
    rewrite dispatch_end. reflexivity.
  - destruct fuel as [|f]; [cbn in Hf; lia|]. inversion Hcs as [|c' cs' Hc Hcs']; subst.
    cbn [flat_map]. rewrite <- !app_assoc. cbn [chunk_loop]. rewrite frame_roundtrip by assumption.
    destruct c as [name data]. cbn [app chunk_list_loop].
    destruct (dispatch_chunk d p st name data) as [[st'|]| | |]; cbn [rbind]; try reflexivity.
    apply IH; [exact Hcs'|]. cbn [length] in Hf. lia.
Qed.

Lemma frame_chunk_nonempty cmp c : chunk_ok cmp c -> (1 <= length (frame_chunk cmp c))%nat.
Proof. intros [Hn _]. destruct c as [name payload]. cbn [fst] in Hn. rewrite frame_chunk_length by exact Hn. lia. Qed.

Lemma framed_length_ge cmp cs : Forall (chunk_ok cmp) cs -> (length cs <= length (flat_map (frame_chunk cmp) cs))%nat.
Proof.
  induction 1 as [|c cs Hc _ IH]; cbn [flat_map length]; [lia|].
  rewrite app_length. pose proof (frame_chunk_nonempty cmp c Hc). lia.
Qed.

Lemma chunk_rt_ok p cmp cs : Forall (chunk_rt p cmp) cs -> Forall (chunk_ok cmp) cs.
Proof. apply Forall_impl. now intros c [H _]. Qed.

(* the fuel decode_file hands to the loop, S (length of what follows the header), suffices *)
Theorem chunk_loop_framed_filefuel d p cmp : dp_lim p = None ->
  forall cs, Forall (chunk_rt p cmp) cs -> forall st,
  let rest := flat_map (frame_chunk cmp) cs ++ END_CHUNK in
  chunk_loop (S (length rest)) d p st rest = chunk_list_loop d p st (cs ++ [(CH_END, FILE_FOOTER)]).
Proof.
  intros Hl cs Hcs st rest. unfold rest.
  rewrite <- (app_nil_r END_CHUNK) at 2. apply chunk_loop_framed; [exact Hl|exact Hcs|].
  rewrite app_length. pose proof (framed_length_ge cmp cs (chunk_rt_ok _ _ _ Hcs)). lia.
Qed.

(* the file header written by write_header *)
Definition file_header (nt ni : N) : bytes :=
  FILE_MAGIC_HEADER ++ FILE_SIGNATURE ++ w_le16 0 ++ w_le32 nt ++ w_le32 ni ++ [0; 0; 0; 0; 0; 0; 0; 0].

Lemma file_header_length nt ni : length (file_header nt ni) = 32%nat.
Proof. unfold file_header. rewrite !app_length, !w_le32_length. reflexivity. Qed.

Lemma file_header_decodes nt ni rest : nt < 2 ^ 32 -> ni < 2 ^ 32 ->
  decode_header None (file_header nt ni ++ rest) = Ok ((nt, ni), rest).
Proof. intros Ht Hi. unfold file_header. rewrite <- !app_assoc. now apply header_roundtrip. Qed.

(* with an allocation limit: the same, or the header-sized reservation is refused *)
Lemma file_header_decodes_lim lim nt ni rest : nt < 2 ^ 32 -> ni < 2 ^ 32 ->
  decode_header lim (file_header nt ni ++ rest) = Ok ((nt, ni), rest) \/
  decode_header lim (file_header nt ni ++ rest) = Err E_ALLOC.
Proof.
  intros Ht Hi.
  assert (E : decode_header lim (file_header nt ni ++ rest) =
              (_ <== palloc lim (48 * nt) ;; _ <== palloc lim (144 * ni) ;; pret (nt, ni)) rest).
  { unfold file_header. rewrite <- !app_assoc. unfold decode_header.
    unfold pbind at 1. change 8%nat with (length FILE_MAGIC_HEADER) at 1. rewrite read_exact_app.
    replace (bytes_eqb FILE_MAGIC_HEADER FILE_MAGIC_HEADER) with true by (vm_compute; reflexivity). cbn [negb].
    unfold pbind at 1. change 6%nat with (length FILE_SIGNATURE) at 1. rewrite read_exact_app.
    replace (bytes_eqb FILE_SIGNATURE FILE_SIGNATURE) with true by (vm_compute; reflexivity). cbn [negb].
    unfold pbind at 1. unfold w_le16. rewrite read_le_app by (cbv; reflexivity). cbn [N.eqb negb].
    unfold pbind at 1. rewrite le32_app by assumption.
    unfold pbind at 1. rewrite le32_app by assumption.
    unfold pbind at 1. change 8%nat with (length [0; 0; 0; 0; 0; 0; 0; 0]) at 1. rewrite read_exact_app.
    replace (bytes_eqb [0; 0; 0; 0; 0; 0; 0; 0] [0; 0; 0; 0; 0; 0; 0; 0]) with true by (vm_compute; reflexivity). cbn [negb].
    reflexivity. }
  rewrite E. unfold pbind.
  destruct (palloc_cases lim (48 * nt) rest) as [-> | ->]; [|right; reflexivity].
  destruct (palloc_cases lim (144 * ni) rest) as [-> | ->]; [|right; reflexivity].
  left; reflexivity.
Qed.

(* THEOREM A2.  Reading a well-framed file = reading its header and then its de-framed chunk list *)
Theorem decode_file_framed d p cmp nt ni cs :
  dp_lim p = None -> nt < 2 ^ 32 -> ni < 2 ^ 32 -> Forall (chunk_rt p cmp) cs ->
  decode_file d p (file_header nt ni ++ flat_map (frame_chunk cmp) cs ++ END_CHUNK)
  = decode_chunks d p (file_header nt ni) (cs ++ [(CH_END, FILE_FOOTER)]).
Proof.
  intros Hl Ht Hi Hcs. unfold decode_file, decode_chunks. rewrite Hl.
  rewrite file_header_decodes by assumption.
  rewrite <- (app_nil_r (file_header nt ni)). rewrite file_header_decodes by assumption.
  rewrite (chunk_loop_framed_filefuel d p cmp Hl cs Hcs). reflexivity.
Qed.

(* ------------------------------------------------------------------------------------------ *)
(* 4. what encode_chunks writes: the header and the chunk names                                 *)
(* ------------------------------------------------------------------------------------------ *)
Definition enc_names : list bytes := [CH_SSTR; CH_INST; CH_PROP; CH_PRNT].

Lemma enc_names_ok name : In name enc_names -> length name = 4%nat /\ name <> CH_END.
Proof.
  intros H. cbn in H. destruct H as [<-|[<-|[<-|[<-|[]]]]]; (split; [reflexivity|discriminate]).
Qed.

Lemma map_res_Forall {A B} (f : A -> res B) (P : B -> Prop) :
  (forall x y, f x = Ok y -> P y) -> forall l l', map_res f l = Ok l' -> Forall P l'.
Proof.
  intros Hf. induction l as [|x l IH]; intros l' H; cbn [map_res] in H.
  - injection H as <-. constructor.
  - destruct (f x) as [y| | |] eqn:E; cbn [rbind] in H; try discriminate.
    destruct (map_res f l) as [r| | |]; cbn [rbind] in H; try discriminate.
    injection H as <-. constructor; [exact (Hf x y E)|now apply IH].
Qed.

Lemma Forall_concat {A} (P : A -> Prop) (ll : list (list A)) : Forall (Forall P) ll -> Forall P (concat ll).
Proof. induction 1 as [|l ll Hl _ IH]; cbn [concat]; [constructor|]. apply Forall_app. now split. Qed.

Lemma inst_chunk_name refs ct c : inst_chunk refs ct = Ok c -> fst c = CH_INST.
Proof.
  unfold inst_chunk. destruct ct as [cname ti].
  destruct (map_res (to_ref refs) (ti_instances ti)); cbn [rbind]; try discriminate. now intros [= <-].
Qed.

Lemma prop_chunk_name ep dom ctx ti cp c : prop_chunk ep dom ctx ti cp = Ok c -> fst c = CH_PROP.
Proof.
  unfold prop_chunk. destruct cp as [canon pi]. destruct (negb _); [discriminate|].
  destruct (fold_res _ _ _) as [insts| | |]; cbn [rbind]; try discriminate.
  destruct (enc_col _ _ _) as [col| | |]; cbn [rbind]; try discriminate. now intros [= <-].
Qed.

(* encode_chunks writes the 32-byte header of write_header and only SSTR / INST / PROP / PRNT chunks *)
Theorem encode_chunks_shape d ep dom roots e : encode_chunks d ep dom roots = Ok e ->
  (exists nt ni, nt < 2 ^ 32 /\ ni < 2 ^ 32 /\ en_header e = file_header nt ni) /\
  Forall (fun c => In (fst c) enc_names) (en_chunks e).
Proof.
  unfold encode_chunks. intros H.
  destruct (add_instances d ep dom roots) as [st| | |]; cbn [rbind] in H; try discriminate.
  destruct (Z.ltb _ _); cbn [rbind] in H; try discriminate. cbv zeta in H.
  match type of H with context [map_res (inst_chunk ?r) ?l] =>
    destruct (map_res (inst_chunk r) l) as [insts| | |] eqn:Ei; cbn [rbind] in H; try discriminate end.
  match type of H with context [map_res ?f (ss_types st)] =>
    destruct (map_res f (ss_types st)) as [props| | |] eqn:Ep; cbn [rbind] in H; try discriminate end.
  match type of H with context [map_res (to_ref ?r) ?l] =>
    destruct (map_res (to_ref r) l) as [objs| | |]; cbn [rbind] in H; try discriminate end.
  match type of H with context [map_res ?f (ss_relevant st)] =>
    destruct (map_res f (ss_relevant st)) as [parents| | |]; cbn [rbind] in H; try discriminate end.
  injection H as <-. cbn [en_header en_chunks]. split.
  - exists (len32 (ss_types st)), (len32 (ss_relevant st)). repeat split; apply len32_lt.
  - apply Forall_app. split.
    { destruct (ss_sstr st); constructor; [cbn; auto|constructor]. }
    apply Forall_app. split.
    { eapply map_res_Forall; [|exact Ei]. intros x y Hy. apply inst_chunk_name in Hy. rewrite Hy. cbn; auto. }
    apply Forall_app. split.
    { apply Forall_concat. eapply map_res_Forall; [|exact Ep]. cbv beta. intros ct l Hl.
      eapply map_res_Forall; [|exact Hl]. intros x y Hy. apply prop_chunk_name in Hy. rewrite Hy. cbn; auto. }
    constructor; [cbn; auto 6|constructor].
Qed.

Lemma encode_file_inv d ep cmp dom roots f : encode_file d ep cmp dom roots = Ok f ->
  exists e, encode_chunks d ep dom roots = Ok e /\
            f = en_header e ++ flat_map (frame_chunk cmp) (en_chunks e) ++ END_CHUNK.
Proof.
  unfold encode_file. destruct (encode_chunks d ep dom roots) as [e| | |]; cbn [rbind]; try discriminate.
  intros [= <-]. now exists e.
Qed.

(* THEOREM A3.  For what the encoder writes: reading the file = reading header + chunk list.
   Uncompressed files need only the payload bound; compressed files the oracle hypotheses. *)
Theorem decode_file_of_encode_chunks d ep dom roots e p cmp :
  encode_chunks d ep dom roots = Ok e -> dp_lim p = None ->
  Forall (fun c => sizes_ok cmp (snd c) /\
                   match cmp with
                   | None => True
                   | Some f => dp_inflate p (f (snd c)) (N.of_nat (length (snd c))) = Some (snd c)
                   end) (en_chunks e) ->
  decode_file d p (en_header e ++ flat_map (frame_chunk cmp) (en_chunks e) ++ END_CHUNK)
  = decode_chunks d p (en_header e) (en_chunks e ++ [(CH_END, FILE_FOOTER)]).
Proof.
  intros He Hl Hs. destruct (encode_chunks_shape _ _ _ _ _ He) as [(nt & ni & Ht & Hi & ->) Hn].
  apply decode_file_framed; try assumption.
  rewrite Forall_forall in *. intros c Hc. destruct (Hs c Hc) as [H1 H2].
  split; [split; [exact (proj1 (enc_names_ok _ (Hn c Hc)))|exact H1]|exact H2].
Qed.

Corollary decode_file_of_encode_file d ep dom roots f p :
  encode_file d ep None dom roots = Ok f -> dp_lim p = None ->
  (forall e, encode_chunks d ep dom roots = Ok e -> Forall (fun c => N.of_nat (length (snd c)) < 2 ^ 32) (en_chunks e)) ->
  exists e, encode_chunks d ep dom roots = Ok e /\
            decode_file d p f = decode_chunks d p (en_header e) (en_chunks e ++ [(CH_END, FILE_FOOTER)]).
Proof.
  intros Hf Hl Hs. destruct (encode_file_inv _ _ _ _ _ _ Hf) as (e & He & ->). exists e. split; [exact He|].
  apply (decode_file_of_encode_chunks d ep dom roots e p None He Hl).
  eapply Forall_impl; [|exact (Hs e He)]. intros c Hc. cbn. repeat split. exact Hc.
Qed.

(* ------------------------------------------------------------------------------------------ *)
(* 5. (B) truncation is always detected                                                         *)
(* ------------------------------------------------------------------------------------------ *)
Lemma chunk_loop_nil fuel d p st : not_ok (chunk_loop fuel d p st []).
Proof.
  destruct fuel as [|f]; [intros a; discriminate|]. cbn [chunk_loop].
  destruct (decode_chunk_short p []) as [e ->]; [cbn; lia|]. apply not_ok_err.
Qed.

(* the reader loop on a strict prefix of a framed chunk sequence never ends with Ok: whatever the fuel,
   the start state, the allocation limit and the inflate oracle *)
Lemma chunk_loop_trunc d p cmp : forall cs,
  Forall (chunk_ok cmp) cs -> Forall (fun c => fst c <> CH_END) cs ->
  forall fuel st j, (j < length (flat_map (frame_chunk cmp) cs ++ END_CHUNK))%nat ->
  not_ok (chunk_loop fuel d p st (firstn j (flat_map (frame_chunk cmp) cs ++ END_CHUNK))).
Proof.
  induction cs as [|c cs IH]; intros Hok Hne fuel st j Hj.
  - cbn [flat_map app] in *. destruct fuel as [|f]; [intros a; discriminate|]. cbn [chunk_loop].
    unfold END_CHUNK in *.
    destruct (frame_trunc_plain p CH_END FILE_FOOTER j) as [e ->];
      [split; [reflexivity|split; [vm_compute; reflexivity|exact I]]|exact Hj|apply not_ok_err].
  - inversion Hok as [|c' cs' Hc Hok']; subst. inversion Hne as [|c' cs' Hn Hne']; subst.
    destruct c as [name payload]. cbn [fst] in Hn.
    destruct fuel as [|f]; [intros a; discriminate|].
    cbn [flat_map] in *. rewrite <- app_assoc in *. rewrite app_length in Hj.
    set (fr := frame_chunk cmp (name, payload)) in *.
    set (tl := flat_map (frame_chunk cmp) cs ++ END_CHUNK) in *.
    assert (Hstep : forall r rest, chunk_or_err r name rest ->
              (forall st', not_ok (chunk_loop f d p st' rest)) ->
              not_ok (match r with
                      | Panic => Panic | Err e => Err e | OutOfFuel => OutOfFuel
                      | Ok ((name, data), rest) =>
                          r <- dispatch_chunk d p st name data ;;
                          match r with None => Ok st | Some st' => chunk_loop f d p st' rest end
                      end)).
    { intros r rest [[data ->]|[e ->]] Hrest; [|apply not_ok_err].
      destruct (dispatch_chunk d p st name data) as [[st'|]| | |] eqn:Ed; cbn [rbind];
        try (intros a; discriminate).
      - apply Hrest.
      - apply dispatch_none in Ed. contradiction. }
    cbn [chunk_loop].
    destruct (Nat.lt_ge_cases j (length fr)) as [Hlt|Hge].
    + rewrite firstn_app_lt by lia. apply (Hstep _ []); [now apply frame_trunc|]. intros st'. apply chunk_loop_nil.
    + rewrite firstn_app_ge by exact Hge. apply (Hstep _ (firstn (j - length fr) tl)); [now apply frame_full|].
      intros st'. apply IH; [exact Hok'|exact Hne'|lia].
Qed.

(* THEOREM B1 (C13, "never Ok").  f = header ++ framed chunks ++ END; no chunk is called END; sizes fit
   their 32-bit fields.  No strict prefix of f decodes to a DOM — for every database, every allocation
   limit and every inflate oracle; [cmp] may be None or any compression function. *)
Theorem truncation_not_ok d p cmp nt ni cs :
  nt < 2 ^ 32 -> ni < 2 ^ 32 ->
  Forall (chunk_ok cmp) cs -> Forall (fun c => fst c <> CH_END) cs ->
  let f := file_header nt ni ++ flat_map (frame_chunk cmp) cs ++ END_CHUNK in
  forall k, (k < length f)%nat -> forall dom, decode_file d p (firstn k f) <> Ok dom.
Proof.
  intros Ht Hi Hok Hne f k Hk. change (not_ok (decode_file d p (firstn k f))). unfold f in *. clear f.
  rewrite app_length, file_header_length in Hk. unfold decode_file.
  destruct (Nat.lt_ge_cases k 32) as [Hlt|Hge].
  - rewrite firstn_app_lt by (rewrite file_header_length; lia).
    destruct (decode_header_short (dp_lim p) (firstn k (file_header nt ni))) as [e ->];
      [rewrite firstn_length, file_header_length; lia|apply not_ok_err].
  - rewrite firstn_app_ge by (rewrite file_header_length; exact Hge). rewrite file_header_length.
    destruct (file_header_decodes_lim (dp_lim p) nt ni
                (firstn (k - 32) (flat_map (frame_chunk cmp) cs ++ END_CHUNK)) Ht Hi) as [-> | ->];
      [|apply not_ok_err].
    apply not_ok_rbind. apply chunk_loop_trunc; [exact Hok|exact Hne|lia].
Qed.

(* THEOREM B2 (C13).  With the database hypothesis of BinSafe.decode_file_total the outcome is an error:
   not Ok, not a panic, not out of fuel. *)
Theorem truncation_rejected d p cmp nt ni cs :
  db_total d -> nt < 2 ^ 32 -> ni < 2 ^ 32 ->
  Forall (chunk_ok cmp) cs -> Forall (fun c => fst c <> CH_END) cs ->
  let f := file_header nt ni ++ flat_map (frame_chunk cmp) cs ++ END_CHUNK in
  forall k, (k < length f)%nat -> exists e, decode_file d p (firstn k f) = Err e.
Proof.
  intros Hdb Ht Hi Hok Hne f k Hk.
  pose proof (truncation_not_ok d p cmp nt ni cs Ht Hi Hok Hne k Hk) as Hn.
  destruct (decode_file_total d p (firstn k f) Hdb) as [H1 H2]. fold f in Hn.
  destruct (decode_file d p (firstn k f)) as [dom| |e|]; [now destruct (Hn dom)|congruence|now exists e|congruence].
Qed.

(* lifted to the encoder.  The only facts needed about encode_chunks are its header and chunk names
   (encode_chunks_shape); the size conditions are hypotheses. *)
Theorem encode_file_truncation_not_ok_gen d ep cmp p dom roots f :
  encode_file d ep cmp dom roots = Ok f ->
  (forall e, encode_chunks d ep dom roots = Ok e -> Forall (fun c => sizes_ok cmp (snd c)) (en_chunks e)) ->
  forall k, (k < length f)%nat -> forall r, decode_file d p (firstn k f) <> Ok r.
Proof.
  intros Hf Hs k Hk. destruct (encode_file_inv _ _ _ _ _ _ Hf) as (e & He & ->).
  destruct (encode_chunks_shape _ _ _ _ _ He) as [(nt & ni & Ht & Hi & Hh) Hn]. rewrite Hh in *.
  specialize (Hs e He). apply truncation_not_ok; try assumption.
  - rewrite Forall_forall in *. intros c Hc. split; [exact (proj1 (enc_names_ok _ (Hn c Hc)))|exact (Hs c Hc)].
  - rewrite Forall_forall in *. intros c Hc. exact (proj2 (enc_names_ok _ (Hn c Hc))).
Qed.

Lemma frame_plain_ge c : (length (snd c) <= length (frame_chunk None c))%nat.
Proof. destruct c as [name payload]. unfold frame_chunk. cbn [snd]. rewrite !app_length. lia. Qed.

Lemma framed_payload_le n : forall cs, (length (flat_map (frame_chunk None) cs) <= n)%nat ->
  Forall (fun c => (length (snd c) <= n)%nat) cs.
Proof.
  induction cs as [|c cs IH]; intros H; [constructor|]. cbn [flat_map] in H. rewrite app_length in H.
  pose proof (frame_plain_ge c). constructor; [lia|apply IH; lia].
Qed.

(* THEOREM B3 (C13 for the encoder, CompressionType::None).  The one size hypothesis: the file is shorter
   than 2^32 bytes (then every payload length fits its 32-bit field). *)
Theorem encode_file_truncation_not_ok d ep p dom roots f :
  encode_file d ep None dom roots = Ok f -> N.of_nat (length f) < 2 ^ 32 ->
  forall k, (k < length f)%nat -> forall r, decode_file d p (firstn k f) <> Ok r.
Proof.
  intros Hf Hlen. apply (encode_file_truncation_not_ok_gen d ep None p dom roots f Hf).
  intros e He. destruct (encode_file_inv _ _ _ _ _ _ Hf) as (e' & He' & ->).
  assert (e' = e) by congruence. subst e'.
  rewrite !app_length in Hlen.
  pose proof (framed_payload_le (length (flat_map (frame_chunk None) (en_chunks e))) (en_chunks e) (Nat.le_refl _)) as H.
  eapply Forall_impl; [|exact H]. intros c Hc. cbv beta in Hc. split; [|exact I].
  change (2 ^ 32) with 4294967296 in *. unfold bytes in *. lia.
Qed.

Theorem encode_file_truncation_rejected d ep p dom roots f :
  db_total d -> encode_file d ep None dom roots = Ok f -> N.of_nat (length f) < 2 ^ 32 ->
  forall k, (k < length f)%nat -> exists e, decode_file d p (firstn k f) = Err e.
Proof.
  intros Hdb Hf Hlen k Hk.
  pose proof (encode_file_truncation_not_ok d ep p dom roots f Hf Hlen k Hk) as Hn.
  destruct (decode_file_total d p (firstn k f) Hdb) as [H1 H2].
  destruct (decode_file d p (firstn k f)) as [r| |e|]; [now destruct (Hn r)|congruence|now exists e|congruence].
Qed.

(* THEOREM B4 (compressed files).  No hypothesis on the inflate oracle: a cut inside a compressed payload
   leaves the reader with no input after that chunk, so the next Chunk::decode reports EOF even when the
   decompressor accepts the truncated data. *)
Theorem encode_file_truncation_rejected_compressed d ep c p dom roots f :
  db_total d -> encode_file d ep (Some c) dom roots = Ok f ->
  (forall e, encode_chunks d ep dom roots = Ok e ->
     Forall (fun ch => N.of_nat (length (snd ch)) < 2 ^ 32 /\
                       N.of_nat (length (c (snd ch))) < 2 ^ 32 /\ c (snd ch) <> []) (en_chunks e)) ->
  forall k, (k < length f)%nat -> exists e, decode_file d p (firstn k f) = Err e.
Proof.
  intros Hdb Hf Hs k Hk.
  pose proof (encode_file_truncation_not_ok_gen d ep (Some c) p dom roots f Hf Hs k Hk) as Hn.
  destruct (decode_file_total d p (firstn k f) Hdb) as [H1 H2].
  destruct (decode_file d p (firstn k f)) as [r| |e|]; [now destruct (Hn r)|congruence|now exists e|congruence].
Qed.

(* bytes after the END chunk are never read (Deserializer::deserialize breaks out of its loop) *)
Theorem trailing_bytes_ignored d p cmp nt ni cs extra :
  dp_lim p = None -> nt < 2 ^ 32 -> ni < 2 ^ 32 -> Forall (chunk_rt p cmp) cs ->
  decode_file d p (file_header nt ni ++ flat_map (frame_chunk cmp) cs ++ END_CHUNK ++ extra)
  = decode_file d p (file_header nt ni ++ flat_map (frame_chunk cmp) cs ++ END_CHUNK).
Proof.
  intros Hl Ht Hi Hcs. rewrite (decode_file_framed d p cmp nt ni cs Hl Ht Hi Hcs).
  unfold decode_file, decode_chunks. rewrite Hl.
  rewrite file_header_decodes by assumption.
  rewrite <- (app_nil_r (file_header nt ni)). rewrite file_header_decodes by assumption.
  rewrite chunk_loop_framed; [reflexivity|exact Hl|exact Hcs|].
  rewrite !app_length. pose proof (framed_length_ge cmp cs (chunk_rt_ok _ _ _ Hcs)). lia.
Qed.

(* ------------------------------------------------------------------------------------------ *)
(* 6. (C) instances and witnesses                                                               *)
(* ------------------------------------------------------------------------------------------ *)
(* B3 on the sample file: every strict prefix is rejected — here for EVERY decoder parameter record
   (allocation limit, inflate oracle, tables), where sample_truncation_rejected computes it for one *)
Example sample_truncation_by_theorem : forall p k, (k < length sample_file)%nat ->
  exists e, decode_file db0 p (firstn k sample_file) = Err e.
Proof.
  intros p k Hk.
  apply (encode_file_truncation_rejected db0 ep0 p sample_dom [1] sample_file db_total_empty sample_encodes);
    [vm_compute; reflexivity|exact Hk].
Qed.

(* the sample file has 385 strict prefixes, and the conclusion agrees with the computed check *)
Example sample_file_length : length sample_file = 385%nat.
Proof. vm_compute. reflexivity. Qed.

(* the chunk list of the sample file *)
Definition sample_enc : encoded :=
  Eval vm_compute in match encode_chunks db0 ep0 sample_dom [1] with Ok e => e | _ => mkEnc [] [] end.
Lemma sample_enc_ok : encode_chunks db0 ep0 sample_dom [1] = Ok sample_enc.
Proof. vm_compute. reflexivity. Qed.

(* A3 on the sample file *)
Example sample_framing_transparent :
  decode_file db0 (dp0 None) sample_file
  = decode_chunks db0 (dp0 None) (en_header sample_enc) (en_chunks sample_enc ++ [(CH_END, FILE_FOOTER)]).
Proof.
  destruct (decode_file_of_encode_file db0 ep0 sample_dom [1] sample_file (dp0 None) sample_encodes eq_refl)
    as (e & He & H).
  - intros e He. rewrite sample_enc_ok in He. injection He as <-.
    repeat (apply Forall_cons; [vm_compute; reflexivity|]). apply Forall_nil.
  - rewrite sample_enc_ok in He. injection He as <-. exact H.
Qed.

(* a toy codec pair: "compress" prefixes a byte, inflate drops it *)
Definition cmp0 : bytes -> bytes := fun b => 7 :: b.
Definition dp_toy : dec_params := mkDP [] [] (fun c _ => Some (tl c)) (VUniqueId 0 0 0%Z) None.
(* an inflate oracle that accepts ANY input and returns data of the announced length *)
Definition dp_liar : dec_params := mkDP [] [] (fun _ len => Some (repeat 0 (N.to_nat len))) (VUniqueId 0 0 0%Z) None.

Definition sample_file_c : bytes :=
  Eval vm_compute in match encode_file db0 ep0 (Some cmp0) sample_dom [1] with Ok b => b | _ => [] end.
Lemma sample_file_c_ok : encode_file db0 ep0 (Some cmp0) sample_dom [1] = Ok sample_file_c.
Proof. vm_compute. reflexivity. Qed.

(* A3, compressed, on the sample: the hypotheses (chunk_rt with an oracle inverting the codec) are satisfiable *)
Example sample_framing_transparent_compressed :
  decode_file db0 dp_toy sample_file_c
  = decode_chunks db0 dp_toy (en_header sample_enc) (en_chunks sample_enc ++ [(CH_END, FILE_FOOTER)]).
Proof.
  pose proof (decode_file_of_encode_chunks db0 ep0 sample_dom [1] sample_enc dp_toy (Some cmp0) sample_enc_ok eq_refl) as H.
  assert (E : sample_file_c = en_header sample_enc ++ flat_map (frame_chunk (Some cmp0)) (en_chunks sample_enc) ++ END_CHUNK)
    by (vm_compute; reflexivity).
  rewrite E. apply H.
  repeat (apply Forall_cons;
          [split; [split; [vm_compute; reflexivity|split; [vm_compute; reflexivity|discriminate]]|reflexivity]|]).
  apply Forall_nil.
Qed.

(* B4 on the compressed sample, for every decoder parameter record — the lying oracle included *)
Example sample_truncation_compressed : forall p k, (k < length sample_file_c)%nat ->
  exists e, decode_file db0 p (firstn k sample_file_c) = Err e.
Proof.
  intros p k Hk.
  apply (encode_file_truncation_rejected_compressed db0 ep0 cmp0 p sample_dom [1] sample_file_c
           db_total_empty sample_file_c_ok); [|exact Hk].
  intros e He. rewrite sample_enc_ok in He. injection He as <-.
  repeat (apply Forall_cons; [split; [vm_compute; reflexivity|split; [vm_compute; reflexivity|discriminate]]|]).
  apply Forall_nil.
Qed.

(* the delicate branch is real: with the lying oracle, Chunk::decode ACCEPTS a chunk whose compressed
   payload was cut short (it returns Ok and leaves no input) — the file is rejected only because the next
   chunk header cannot be read *)
Example short_compressed_chunk_accepted :
  exists name data, decode_chunk dp_liar (firstn 30 (skipn 32 sample_file_c)) = Ok ((name, data), []).
Proof. eexists. eexists. vm_compute. reflexivity. Qed.
Example short_compressed_file_rejected :
  decode_file db0 dp_liar (firstn 62 sample_file_c) = Err E_EOF.
Proof. vm_compute. reflexivity. Qed.

(* the hypothesis "no chunk is called END" is needed: a file with an early END chunk, cut right after it,
   is a complete file *)
Definition early_end_file : bytes := file_header 0 0 ++ frame_chunk None (CH_END, []) ++ END_CHUNK.
Example early_end_prefix_accepted :
  (48 < length early_end_file)%nat /\ decode_file db0 (dp0 None) (firstn 48 early_end_file) = Ok [].
Proof. split; vm_compute; [lia|reflexivity]. Qed.

(* the END chunk must be stored uncompressed (serialize_end does so): were it compressed, a lenient
   decompressor would let a cut inside its payload through *)
Definition compressed_end_file : bytes := file_header 0 0 ++ frame_chunk (Some cmp0) (CH_END, FILE_FOOTER).
Example compressed_end_prefix_accepted :
  (52 < length compressed_end_file)%nat /\ decode_file db0 dp_liar (firstn 52 compressed_end_file) = Ok [].
Proof. split; vm_compute; [lia|reflexivity]. Qed.

(* ------------------------------------------------------------------------------------------ *)
(* 7. the main statements once more, with their hypotheses spelled out                          *)
(* ------------------------------------------------------------------------------------------ *)
Theorem chunk_loop_framed_none d p cs fuel st :
  dp_lim p = None ->
  Forall (fun c => length (fst c) = 4%nat /\ N.of_nat (length (snd c)) < 2 ^ 32) cs ->
  (length cs < fuel)%nat ->
  chunk_loop fuel d p st (flat_map (frame_chunk None) cs ++ END_CHUNK)
  = chunk_list_loop d p st (cs ++ [(CH_END, FILE_FOOTER)]).
Proof.
  intros Hl Hcs Hf. rewrite <- (app_nil_r END_CHUNK). apply chunk_loop_framed; [exact Hl| |exact Hf].
  eapply Forall_impl; [|exact Hcs]. intros c [H1 H2]. repeat split; assumption.
Qed.

Theorem chunk_loop_framed_compressed d p f cs fuel st :
  dp_lim p = None ->
  Forall (fun c => length (fst c) = 4%nat /\ N.of_nat (length (snd c)) < 2 ^ 32 /\
                   N.of_nat (length (f (snd c))) < 2 ^ 32 /\ f (snd c) <> [] /\
                   dp_inflate p (f (snd c)) (N.of_nat (length (snd c))) = Some (snd c)) cs ->
  (length cs < fuel)%nat ->
  chunk_loop fuel d p st (flat_map (frame_chunk (Some f)) cs ++ END_CHUNK)
  = chunk_list_loop d p st (cs ++ [(CH_END, FILE_FOOTER)]).
Proof.
  intros Hl Hcs Hf. rewrite <- (app_nil_r END_CHUNK). apply chunk_loop_framed; [exact Hl| |exact Hf].
  eapply Forall_impl; [|exact Hcs]. intros c (H1 & H2 & H3 & H4 & H5). repeat split; assumption.
Qed.

Theorem truncation_rejected_none d p nt ni cs :
  db_total d -> nt < 2 ^ 32 -> ni < 2 ^ 32 ->
  Forall (fun c => length (fst c) = 4%nat /\ fst c <> CH_END /\ N.of_nat (length (snd c)) < 2 ^ 32) cs ->
  let f := file_header nt ni ++ flat_map (frame_chunk None) cs ++ END_CHUNK in
  forall k, (k < length f)%nat -> exists e, decode_file d p (firstn k f) = Err e.
Proof.
  intros Hdb Ht Hi Hcs. apply truncation_rejected; try assumption.
  - eapply Forall_impl; [|exact Hcs]. intros c (H1 & H2 & H3). repeat split; assumption.
  - eapply Forall_impl; [|exact Hcs]. now intros c (H1 & H2 & H3).
Qed.

(* the fuel bound of A1 is tight, and A1 needs dp_lim = None (with a limit the byte-level reader may
   refuse the payload-sized allocation that the list-level reader never makes) *)
Example framed_fuel_tight d p st :
  chunk_loop 0 d p st (flat_map (frame_chunk None) [] ++ END_CHUNK) = OutOfFuel /\
  chunk_list_loop d p st ([] ++ [(CH_END, FILE_FOOTER)]) = Ok st.
Proof. split; reflexivity. Qed.
Example framed_needs_no_limit :
  chunk_loop 1 db0 (dp0 (Some 8)) dstate0 (flat_map (frame_chunk None) [] ++ END_CHUNK) = Err E_ALLOC /\
  chunk_list_loop db0 (dp0 (Some 8)) dstate0 ([] ++ [(CH_END, FILE_FOOTER)]) = Ok dstate0.
Proof. split; vm_compute; reflexivity. Qed.

Print Assumptions chunk_loop_framed.
Print Assumptions chunk_loop_framed_filefuel.
Print Assumptions decode_file_framed.
Print Assumptions encode_chunks_shape.
Print Assumptions decode_file_of_encode_chunks.
Print Assumptions decode_file_of_encode_file.
Print Assumptions chunk_loop_framed_none.
Print Assumptions chunk_loop_framed_compressed.
Print Assumptions truncation_rejected_none.
Print Assumptions truncation_not_ok.
Print Assumptions truncation_rejected.
Print Assumptions encode_file_truncation_not_ok.
Print Assumptions encode_file_truncation_rejected.
Print Assumptions encode_file_truncation_rejected_compressed.
Print Assumptions trailing_bytes_ignored.
Print Assumptions sample_truncation_by_theorem.
Print Assumptions sample_truncation_compressed.

(* EXPORT:
     (A)  chunk_loop_framed (= chunk_loop_framed_none / chunk_loop_framed_compressed), chunk_loop_framed_filefuel, decode_file_framed,
          encode_chunks_shape, decode_file_of_encode_chunks, decode_file_of_encode_file,
          trailing_bytes_ignored
     (B)  truncation_not_ok, truncation_rejected (= truncation_rejected_none for CompressionType::None),
          encode_file_truncation_not_ok, encode_file_truncation_rejected,
          encode_file_truncation_rejected_compressed
     (C)  sample_truncation_by_theorem, sample_framing_transparent,
          sample_framing_transparent_compressed, sample_truncation_compressed,
          short_compressed_chunk_accepted, short_compressed_file_rejected,
          early_end_prefix_accepted, compressed_end_prefix_accepted *)
