(* Binary write path of C15, the ORDER in which a column's aliases are consulted.

   serialize_properties looks a column's value up on an instance under the canonical name first and then under the aliases
   collect_type_info met, in the iteration order of hash sets (the model's `ep_order`, any permutation).  When an
   instance carries a legacy migrating name (BrickColor) AND the new property under an alias spelling (Color3uint8),
   the order decides which value is written:

   * with the legacy names consulted LAST (rbx-dom since 94a4bf2f: the writer keeps the legacy names in a set of their own,
     chained after the plain aliases) the explicitly set value wins            [prop_value_alias_explicit_wins];
   * with a legacy name in front of the alias (possible in the pinned code, whose single set iterated in a per-process
     hash order) the migrated LEGACY value is written                          [prop_value_legacy_first_loses].

   The harness hands the model the order the implementation uses (binfile.rs `aset` hints, plain aliases before legacy
   ones); the byte-exact correspondence run ties that order to the crate. *)
From Coq Require Import List NArith Bool.
From RbxVerif Require Import Base Bytes Value Db CodecDom BinValues BinFile MigratePaths.
Import MigratePaths.BinWrite.
Import ListNotations.

Section AliasOrder.
Variables (p : enc_params) (canon : bytes) (pi : prop_info) (i : inst) (op : migop).
Variable is_legacy : bytes -> bool.
Hypothesis Hname : bytes_eqb canon NAME = false.
Hypothesis Hmig : pi_migration pi = Some op.

(* the order the repaired writer uses: every plain alias before every legacy name *)
Definition legacy_last (ord : list bytes) : Prop :=
  exists plain leg, ord = plain ++ leg /\ forallb (fun a => negb (is_legacy a)) plain = true /\ forallb is_legacy leg = true.

Lemma find_app_l {A} (f : A -> bool) l l' x : find f l = Some x -> find f (l ++ l') = Some x.
Proof.
  induction l as [|y l IH]; cbn [find app]; [discriminate|]. destruct (f y); [exact (fun H => H)|exact IH].
Qed.

Lemma find_some_in_first {A} (f : A -> bool) l a : In a l -> f a = true -> exists b, find f l = Some b /\ In b l /\ f b = true.
Proof.
  induction l as [|y l IH]; cbn [In find]; [intros []|]. intros [->|Hin] Hf.
  - rewrite Hf. exists a. repeat split; [now left|exact Hf].
  - destruct (f y) eqn:Hy.
    + exists y. repeat split; [now left|exact Hy].
    + destruct (IH Hin Hf) as (b & Hb & Hbin & Hfb). exists b. repeat split; [exact Hb|now right|exact Hfb].
Qed.

(* if the instance carries the new property under some plain alias, the alias found first is a plain one *)
Lemma legacy_last_finds_plain ord a :
  legacy_last ord -> In a ord -> is_legacy a = false -> carried i a = true ->
  exists b, find (carried i) ord = Some b /\ is_legacy b = false /\ carried i b = true.
Proof.
  intros (plain & leg & -> & Hp & Hl) Hin Ha Hc.
  assert (Hinp : In a plain).
  { apply in_app_or in Hin. destruct Hin as [H|H]; [exact H|].
    rewrite forallb_forall in Hl. rewrite (Hl a H) in Ha. discriminate. }
  destruct (find_some_in_first (carried i) plain a Hinp Hc) as (b & Hb & Hbin & Hcb).
  exists b. split; [now apply find_app_l|]. split; [|exact Hcb].
  rewrite forallb_forall in Hp. specialize (Hp b Hbin). now destruct (is_legacy b).
Qed.

(* THE STATEMENT: legacy names last => the value written for an instance that carries the new property under a plain
   alias (besides any legacy spellings) is the value of a plain alias it carries — the explicitly set one when the
   plain aliases it carries agree (in particular when it carries one) *)
Theorem prop_value_alias_explicit_wins ord a ex :
  legacy_last ord ->
  bfind canon (i_props i) = None ->
  In a ord -> is_legacy a = false -> bfind a (i_props i) = Some ex ->
  (forall b v, In b ord -> is_legacy b = false -> bfind b (i_props i) = Some v -> v = ex) ->
  vtype ex = mig_out_type op ->
  prop_value p canon pi ord i = ex.
Proof.
  intros Hord Hc Hin Ha Hex Hone Hty.
  assert (Hca : carried i a = true) by (unfold carried; now rewrite Hex).
  destruct (legacy_last_finds_plain ord a Hord Hin Ha Hca) as (b & Hfind & Hlb & Hcb).
  unfold carried in Hcb. destruct (bfind b (i_props i)) as [v|] eqn:Hbv; [|discriminate].
  assert (Hbin : In b ord) by (apply find_some in Hfind; tauto).
  assert (v = ex) by (eapply Hone; eauto). subst v.
  unfold prop_value. rewrite Hname, Hc. fold (carried i). rewrite Hfind, Hbv, Hmig.
  now rewrite (migrate_none_on_new_type _ _ _ _ Hty).
Qed.

(* ... and why the order matters: a legacy name the instance carries in FRONT of every carried alias wins instead *)
Theorem prop_value_legacy_first_loses ord l v w :
  bfind canon (i_props i) = None ->
  find (carried i) ord = Some l -> bfind l (i_props i) = Some v ->
  migrate (ep_font p) (ep_brick p) op v = Some w ->
  prop_value p canon pi ord i = w.
Proof. intros Hc Hf Hl Hm. exact (prop_value_legacy_migrated p canon pi ord i op Hname Hmig l v w Hc Hf Hl Hm). Qed.
End AliasOrder.

(* ---- non-vacuity, on a Part{BrickColor = 1 (white), Color3uint8 = (1,2,3)}: column Color, both names met as aliases *)
Module BinAliasOrderExample.
Definition B := bytes_of_string.
Definition ex_inst : inst :=
  mkInst 1 0 (B "Part") (B "p") [(B "BrickColor", VBrickColor 1); (B "Color3uint8", VColor3uint8 1 2 3)].
Definition ex_pi : prop_info :=
  mkPI WColor3uint8 (B "Color3uint8") [B "BrickColor"; B "Color3uint8"] (VColor3uint8 0 0 0) (Some MigBrick).
Definition ex_legacy (a : bytes) : bool := bytes_eqb a (B "BrickColor").
Definition ex_ep : enc_params := mkEP [] [(1, (242, 243, 243))]%N (fun _ => 0%N) (fun l => l) [].

(* the repaired order: plain alias first *)
Example ex_legacy_last : legacy_last ex_legacy [B "Color3uint8"; B "BrickColor"].
Proof. exists [B "Color3uint8"], [B "BrickColor"]. repeat split. Qed.

Example ex_explicit_wins :
  prop_value ex_ep (B "Color") ex_pi [B "Color3uint8"; B "BrickColor"] ex_inst = VColor3uint8 1 2 3.
Proof.
  apply (prop_value_alias_explicit_wins ex_ep (B "Color") ex_pi ex_inst MigBrick ex_legacy eq_refl eq_refl
           [B "Color3uint8"; B "BrickColor"] (B "Color3uint8") (VColor3uint8 1 2 3) ex_legacy_last eq_refl).
  - now left.
  - reflexivity.
  - reflexivity.
  - intros b v [<-|[<-|[]]] Hl Hv; [now inversion Hv|discriminate Hl].
  - reflexivity.
Qed.

(* the other order (one hash set, as in the pinned code): the migrated legacy value is written instead *)
Example ex_legacy_first_loses :
  prop_value ex_ep (B "Color") ex_pi [B "BrickColor"; B "Color3uint8"] ex_inst = VColor3uint8 242 243 243.
Proof.
  exact (prop_value_legacy_first_loses ex_ep (B "Color") ex_pi ex_inst MigBrick eq_refl eq_refl
           [B "BrickColor"; B "Color3uint8"] (B "BrickColor") (VBrickColor 1) (VColor3uint8 242 243 243) eq_refl eq_refl eq_refl eq_refl).
Qed.
End BinAliasOrderExample.

Print Assumptions prop_value_alias_explicit_wins.
Print Assumptions prop_value_legacy_first_loses.
Print Assumptions BinAliasOrderExample.ex_explicit_wins.
