(* XmlSafe.v — property C13 for the XML decoder model (Model/XmlFile.v xml_decode over Model/XmlValues.v):
   B1  every value reader is total: read_value_xml o ty evs is Ok or Err, never Panic, never OutOfFuel, and consumes
       at least one event when it succeeds;
   B2  xml_decode is never OutOfFuel (the fuel the entry points pass always suffices) and is Panic exactly when the
       first event is neither StartDocument nor a parser error (the `unreachable!()` of deserialize_root), for
       every environment whose descriptor lookups succeed (coherent databases, the bundled database);
   B3  truncation: cutting an accepted event list anywhere inside the part the decoder consumed and appending the
       parser's error event is rejected with an error; cutting it after that part changes nothing; the cut exactly at
       the end of that part is accepted iff the decoder stopped at `</roblox>` (and not at EndDocument);
   B4  xml_encode is never OutOfFuel on a DOM whose subtrees are finite, and panics only for a root that is not in the
       DOM or a Content::Object property value.
   Parser framework in the style of Proofs/AttrSafe.v / Proofs/BinSafe.v, over [list revent]. *)
From RbxVerif Require Import Base Bytes Value Utf8 Db DbCheck Hex Tags Attr CodecDom XmlEvents XmlValues XmlFile
  HexFacts AttrSafe DbFacts.
From RbxVerif Require Database.
From Coq Require Import Lia.
Open Scope N_scope.

(* ========================================================================================== *)
(* 1. safety framework: [xgood] / [xstrict]                                                     *)
(* ========================================================================================== *)
Definition rsafe {A} (r : res A) : Prop := r <> Panic /\ r <> OutOfFuel.

Lemma rsafe_ok {A} (a : A) : rsafe (Ok a). Proof. split; discriminate. Qed.
Lemma rsafe_err {A} c : rsafe (@Err A c). Proof. split; discriminate. Qed.
Lemma rsafe_ask {A} (o : option A) : rsafe (ask o). Proof. destruct o; [apply rsafe_ok|apply rsafe_err]. Qed.
Lemma rsafe_bind {A C} (r : res A) (k : A -> res C) : rsafe r -> (forall a, rsafe (k a)) -> rsafe (rbind r k).
Proof. intros [H1 H2] Hk. destruct r; cbn [rbind]; try congruence; [apply Hk|apply rsafe_err]. Qed.

(* [xgood_at p s]: on the input s, p neither panics nor runs out of fuel, and on success leaves at most its input;
   [xstrict_at p s]: moreover it consumes at least one event *)
Definition xgood_at {A} (p : xrd A) (s : list revent) : Prop :=
  match p s with Ok (_, s') => (length s' <= length s)%nat | Err _ => True | Panic => False | OutOfFuel => False end.
Definition xstrict_at {A} (p : xrd A) (s : list revent) : Prop :=
  match p s with Ok (_, s') => (length s' < length s)%nat | Err _ => True | Panic => False | OutOfFuel => False end.
Definition xgood {A} (p : xrd A) : Prop := forall s, xgood_at p s.
Definition xstrict {A} (p : xrd A) : Prop := forall s, xstrict_at p s.

Lemma xstrict_good_at {A} (p : xrd A) s : xstrict_at p s -> xgood_at p s.
Proof. unfold xstrict_at, xgood_at. destruct (p s) as [[a s']| | |]; try easy. lia. Qed.
Lemma xstrict_good {A} (p : xrd A) : xstrict p -> xgood p.
Proof. intros H s. apply xstrict_good_at, H. Qed.

Lemma xgood_at_safe {A} (p : xrd A) s : xgood_at p s -> rsafe (p s).
Proof. unfold xgood_at, rsafe. destruct (p s) as [[a s']| | |]; try easy; split; discriminate. Qed.

Lemma xgood_at_bind {A C} (p : xrd A) (f : A -> xrd C) s :
  xgood_at p s -> (forall a s1, (length s1 <= length s)%nat -> xgood_at (f a) s1) -> xgood_at (xbind p f) s.
Proof.
  unfold xgood_at, xbind. intros Hp Hf. destruct (p s) as [[a s1]| | |]; try easy.
  specialize (Hf a s1 Hp). destruct (f a s1) as [[r s2]| | |]; try easy. lia.
Qed.
Lemma xstrict_at_bind {A C} (p : xrd A) (f : A -> xrd C) s :
  xstrict_at p s -> (forall a s1, (length s1 < length s)%nat -> xgood_at (f a) s1) -> xstrict_at (xbind p f) s.
Proof.
  unfold xstrict_at, xgood_at, xbind. intros Hp Hf. destruct (p s) as [[a s1]| | |]; try easy.
  specialize (Hf a s1 Hp). destruct (f a s1) as [[r s2]| | |]; try easy. lia.
Qed.
Lemma xgood_at_bind_strict {A C} (p : xrd A) (f : A -> xrd C) s :
  xgood_at p s -> (forall a s1, (length s1 <= length s)%nat -> xstrict_at (f a) s1) -> xstrict_at (xbind p f) s.
Proof.
  unfold xstrict_at, xgood_at, xbind. intros Hp Hf. destruct (p s) as [[a s1]| | |]; try easy.
  specialize (Hf a s1 Hp). destruct (f a s1) as [[r s2]| | |]; try easy. lia.
Qed.

Lemma xgood_ret {A} (a : A) : xgood (xret a).
Proof. intros s. unfold xgood_at, xret. lia. Qed.
Lemma xgood_fail {A} c : xgood (@xfail A c).
Proof. intros s. exact I. Qed.
Lemma xstrict_fail {A} c : xstrict (@xfail A c).
Proof. intros s. exact I. Qed.
Lemma xgood_lift {A} (r : res A) : rsafe r -> xgood (xlift r).
Proof. intros [H1 H2] s. unfold xgood_at, xlift. destruct r; try congruence; [lia|exact I]. Qed.
Lemma xgood_bind {A C} (p : xrd A) (f : A -> xrd C) : xgood p -> (forall a, xgood (f a)) -> xgood (xbind p f).
Proof. intros Hp Hf s. apply xgood_at_bind; [apply Hp|intros; apply Hf]. Qed.
Lemma xstrict_bind {A C} (p : xrd A) (f : A -> xrd C) : xstrict p -> (forall a, xgood (f a)) -> xstrict (xbind p f).
Proof. intros Hp Hf s. apply xstrict_at_bind; [apply Hp|intros; apply Hf]. Qed.
Lemma xgood_bind_strict {A C} (p : xrd A) (f : A -> xrd C) : xgood p -> (forall a, xstrict (f a)) -> xstrict (xbind p f).
Proof. intros Hp Hf s. apply xgood_at_bind_strict; [apply Hp|intros; apply Hf]. Qed.

(* ---- primitives ---- *)
Lemma xstrict_next : xstrict x_next.
Proof. intros [|e r]; unfold xstrict_at, x_next; [exact I|]. destruct e; cbn [length]; try exact I; lia. Qed.
Lemma xgood_peek : xgood x_peek.
Proof. intros [|e r]; unfold xgood_at, x_peek; [exact I|]. destruct e; try exact I; lia. Qed.
Lemma xstrict_expect_start n : xstrict (x_expect_start n).
Proof.
  unfold x_expect_start. apply xstrict_bind; [apply xstrict_next|intros e].
  destruct e; try apply xgood_fail. destruct (bytes_eqb name n); [apply xgood_ret|apply xgood_fail].
Qed.
Lemma xstrict_expect_end n : xstrict (x_expect_end n).
Proof.
  unfold x_expect_end. apply xstrict_bind; [apply xstrict_next|intros e].
  destruct e; try apply xgood_fail. destruct (bytes_eqb name n); [apply xgood_ret|apply xgood_fail].
Qed.
Lemma xgood_chars_go : forall s acc, xgood_at (x_chars_go acc) s.
Proof.
  induction s as [|e r IH]; intros acc; unfold xgood_at; cbn [x_chars_go]; [lia|].
  destruct e; try (cbn [length]; lia); try exact I.
  - specialize (IH (acc ++ s)). unfold xgood_at in IH. destruct (x_chars_go (acc ++ s) r) as [[a s']| | |]; try easy. cbn [length]. lia.
  - specialize (IH (acc ++ s)). unfold xgood_at in IH. destruct (x_chars_go (acc ++ s) r) as [[a s']| | |]; try easy. cbn [length]. lia.
Qed.
Lemma xgood_chars : xgood x_chars.
Proof. intros s. apply xgood_chars_go. Qed.
Lemma xstrict_eat_go : forall s depth, xstrict_at (x_eat_go depth) s.
Proof.
  induction s as [|e r IH]; intros depth; unfold xstrict_at; cbn [x_eat_go]; [exact I|].
  assert (Hrec : forall d, match x_eat_go d r with
                           | Ok (_, s') => (length s' < length (e :: r))%nat | Err _ => True | Panic => False | OutOfFuel => False end).
  { intros d. specialize (IH d). unfold xstrict_at in IH. destruct (x_eat_go d r) as [[a s']| | |]; try easy. cbn [length]. lia. }
  destruct e; try apply Hrec; try exact I.
  destruct (Z.eqb (depth - 1) 0); [cbn [length]; lia|apply Hrec].
Qed.
Lemma xstrict_eat_unknown : xstrict x_eat_unknown.
Proof. intros s. apply xstrict_eat_go. Qed.

Lemma xgood_base64 : xgood x_base64.
Proof.
  unfold x_base64. apply xgood_bind; [apply xgood_chars|intros t].
  destruct (b64_decode (strip_ws t)); [apply xgood_ret|apply xgood_fail].
Qed.
Lemma xstrict_tag_contents n : xstrict (x_tag_contents n).
Proof.
  unfold x_tag_contents. apply xstrict_bind; [apply xstrict_expect_start|intros _].
  apply xgood_bind; [apply xgood_chars|intros t].
  apply xgood_bind; [apply xstrict_good, xstrict_expect_end|intros _]. apply xgood_ret.
Qed.
Lemma xstrict_in_tag {A} n (p : xrd A) : xgood p -> xstrict (x_in_tag n p).
Proof.
  intros Hp. unfold x_in_tag. apply xstrict_bind; [apply xstrict_expect_start|intros _].
  apply xgood_bind; [exact Hp|intros v].
  apply xgood_bind; [apply xstrict_good, xstrict_expect_end|intros _]. apply xgood_ret.
Qed.
Lemma xgood_in_tag {A} n (p : xrd A) : xgood p -> xgood (x_in_tag n p).
Proof. intros Hp. apply xstrict_good, xstrict_in_tag, Hp. Qed.
Lemma xstrict_rv {A} (f : A -> value) tag (p : xrd A) : xgood p -> xstrict (rv f tag p).
Proof.
  intros Hp. unfold rv, outer. apply xstrict_bind; [apply xstrict_in_tag, Hp|intros v; apply xgood_ret].
Qed.

(* ---- the things the readers call that return [res] ---- *)
Lemma parse_digits_safe hi ovf s : forall acc, rsafe (parse_digits hi ovf acc s).
Proof.
  induction s as [|c r IH]; intros acc; cbn [parse_digits]; [apply rsafe_ok|].
  destruct (digit_val c); [|apply rsafe_err]. destruct (N.ltb hi _); [apply rsafe_err|apply IH].
Qed.
Lemma parse_hex_gen_safe signed ph nh s : rsafe (parse_hex_gen signed ph nh s).
Proof.
  unfold parse_hex_gen. destruct s as [|c r]; [apply rsafe_err|].
  destruct (_ && is_nil r); [apply rsafe_err|].
  destruct (N.eqb c 43); [apply rsafe_bind; [apply parse_digits_safe|intros; apply rsafe_ok]|].
  destruct (_ && signed); apply rsafe_bind; try apply parse_digits_safe; intros; apply rsafe_ok.
Qed.
Lemma parse_hex_u_safe bits s : rsafe (parse_hex_u bits s).
Proof. unfold parse_hex_u. apply rsafe_bind; [apply parse_hex_gen_safe|intros [n m]; apply rsafe_ok]. Qed.

Lemma uid_from_str_safe s : rsafe (uid_from_str s).
Proof.
  split; [apply uid_from_str_no_panic|].
  unfold uid_from_str. destruct (_ && _); [|discriminate].
  destruct (negb _); [discriminate|].
  destruct (parse_hex_u_safe 64 (slice s 0 16)) as [_ H1].
  destruct (parse_hex_u 64 (slice s 0 16)); cbn [rbind]; try congruence; try discriminate.
  destruct (negb _); [discriminate|].
  destruct (parse_hex_u_safe 32 (slice s 16 24)) as [_ H2].
  destruct (parse_hex_u 32 (slice s 16 24)); cbn [rbind]; try congruence; try discriminate.
  destruct (parse_hex_u_safe 32 (slice s 24 32)) as [_ H3].
  destruct (parse_hex_u 32 (slice s 24 32)); cbn [rbind]; try congruence; discriminate.
Qed.

Lemma piece_f32_safe o t : rsafe (piece_f32 o t).
Proof. unfold piece_f32. apply rsafe_bind; [apply rsafe_ask|intros [x|]; [apply rsafe_ok|apply rsafe_err]]. Qed.

Lemma r_nseq_go_safe o : forall n ps, (length ps <= n)%nat -> rsafe (r_nseq_go o ps).
Proof.
  induction n as [|n IH]; intros ps Hn.
  - destruct ps; [apply rsafe_ok|cbn in Hn; lia].
  - destruct ps as [|t [|v [|e r3]]]; cbn [r_nseq_go]; try apply rsafe_ok.
    + apply rsafe_bind; [apply piece_f32_safe|intros; apply rsafe_err].
    + apply rsafe_bind; [apply piece_f32_safe|intros]. apply rsafe_bind; [apply piece_f32_safe|intros; apply rsafe_err].
    + apply rsafe_bind; [apply piece_f32_safe|intros]. apply rsafe_bind; [apply piece_f32_safe|intros].
      apply rsafe_bind; [apply piece_f32_safe|intros]. apply rsafe_bind; [apply IH; cbn [length] in Hn; lia|intros; apply rsafe_ok].
Qed.
Lemma r_cseq_go_safe o : forall n ps, (length ps <= n)%nat -> rsafe (r_cseq_go o ps).
Proof.
  induction n as [|n IH]; intros ps Hn.
  - destruct ps; [apply rsafe_ok|cbn in Hn; lia].
  - destruct ps as [|t [|r [|g [|b [|e r5]]]]]; cbn [r_cseq_go]; try apply rsafe_ok.
    + apply rsafe_bind; [apply piece_f32_safe|intros; apply rsafe_err].
    + apply rsafe_bind; [apply piece_f32_safe|intros]. apply rsafe_bind; [apply piece_f32_safe|intros; apply rsafe_err].
    + apply rsafe_bind; [apply piece_f32_safe|intros]. apply rsafe_bind; [apply piece_f32_safe|intros].
      apply rsafe_bind; [apply piece_f32_safe|intros; apply rsafe_err].
    + apply rsafe_bind; [apply piece_f32_safe|intros]. apply rsafe_bind; [apply piece_f32_safe|intros].
      apply rsafe_bind; [apply piece_f32_safe|intros]. apply rsafe_bind; [apply piece_f32_safe|intros; apply rsafe_err].
    + apply rsafe_bind; [apply piece_f32_safe|intros]. apply rsafe_bind; [apply piece_f32_safe|intros].
      apply rsafe_bind; [apply piece_f32_safe|intros]. apply rsafe_bind; [apply piece_f32_safe|intros].
      apply rsafe_bind; [apply piece_f32_safe|intros]. apply rsafe_bind; [apply IH; cbn [length] in Hn; lia|intros; apply rsafe_ok].
Qed.

Ltac rs :=
  first [ apply rsafe_ask | apply piece_f32_safe | eapply r_nseq_go_safe; apply Nat.le_refl
        | eapply r_cseq_go_safe; apply Nat.le_refl | apply rsafe_ok | apply rsafe_err | apply uid_from_str_safe ].

(* ---- automation ---- *)
Create HintDb xsafe.

Ltac xg1 :=
  lazymatch goal with
  | |- xgood (xret _) => apply xgood_ret
  | |- xgood (xfail _) => apply xgood_fail
  | |- xgood (xlift _) => apply xgood_lift; rs
  | |- xgood x_chars => apply xgood_chars
  | |- xgood x_peek => apply xgood_peek
  | |- xgood x_next => apply xstrict_good, xstrict_next
  | |- xgood x_base64 => apply xgood_base64
  | |- xgood (x_expect_start _) => apply xstrict_good, xstrict_expect_start
  | |- xgood (x_expect_end _) => apply xstrict_good, xstrict_expect_end
  | |- xgood (x_tag_contents _) => apply xstrict_good, xstrict_tag_contents
  | |- xgood (x_in_tag _ _) => apply xgood_in_tag
  | |- xgood (xbind _ _) => apply xgood_bind; [|intros ?]
  | |- xgood (match uid_from_str ?t with _ => _ end) =>
      let H := fresh "Hu" in
      pose proof (uid_from_str_safe t) as H; destruct (uid_from_str t);
      [ | exfalso; apply (proj1 H); reflexivity | | exfalso; apply (proj2 H); reflexivity ]
  | |- xgood (if ?b then _ else _) => destruct b
  | |- xgood (match ?x with _ => _ end) => destruct x
  | |- xgood _ => solve [auto with xsafe nocore]
  end.
Ltac xg := repeat xg1.

Lemma xgood_r_f32 o : xgood (r_f32 o). Proof. unfold r_f32. xg. Qed.
Lemma xgood_r_f64 o : xgood (r_f64 o). Proof. unfold r_f64. xg. Qed.
Lemma xgood_r_int {A} (parse : bytes -> option A) : xgood (r_int parse). Proof. unfold r_int. xg. Qed.
Lemma xgood_r_bool : xgood r_bool. Proof. unfold r_bool. xg. Qed.
#[export] Hint Resolve xgood_r_f32 xgood_r_f64 xgood_r_int xgood_r_bool : xsafe.
Lemma xgood_r_vec3 o : xgood (r_vec3 o). Proof. unfold r_vec3. xg. Qed.
Lemma xgood_r_vec2 o : xgood (r_vec2 o). Proof. unfold r_vec2. xg. Qed.
Lemma xgood_r_cframe o : xgood (r_cframe o). Proof. unfold r_cframe. xg. Qed.
Lemma xgood_r_content_inner u : xgood (r_content_inner u). Proof. unfold r_content_inner. xg. Qed.
Lemma xgood_r_content : xgood r_content. Proof. unfold r_content. xg. Qed.
#[export] Hint Resolve xgood_r_vec3 xgood_r_vec2 xgood_r_cframe xgood_r_content_inner xgood_r_content : xsafe.
Lemma xgood_r_font_content tag : xgood (r_font_content tag). Proof. unfold r_font_content. xg. Qed.
#[export] Hint Resolve xgood_r_font_content : xsafe.
Lemma xgood_r_font : xgood r_font. Proof. unfold r_font. xg. Qed.
#[export] Hint Resolve xgood_r_font : xsafe.

(* B1: types/mod.rs read_value_xml, whatever the oracle, the type name and the events *)
Theorem xstrict_read_value_xml o ty : xstrict (read_value_xml o ty).
Proof.
  unfold read_value_xml. cbv zeta beta.
  repeat match goal with |- xstrict (if ?b then _ else _) => destruct b end.
  all: try (apply xstrict_rv; xg).
  - apply xstrict_bind; [apply xstrict_tag_contents|intros; xg].
  - apply xstrict_bind; [apply xstrict_tag_contents|intros; xg].
  - apply xstrict_bind; [apply xstrict_eat_unknown|intros; xg].
Qed.

Corollary xml_value_reader_total o ty evs :
  match read_value_xml o ty evs with
  | Ok (_, rest) => (length rest < length evs)%nat
  | Err _ => True
  | Panic => False
  | OutOfFuel => False
  end.
Proof. exact (xstrict_read_value_xml o ty evs). Qed.

Corollary xml_value_reader_no_panic o ty evs :
  read_value_xml o ty evs <> Panic /\ read_value_xml o ty evs <> OutOfFuel.
Proof. apply xgood_at_safe, xstrict_good_at, xstrict_read_value_xml. Qed.

(* ========================================================================================== *)
(* 2. locality framework: what a run on a truncated stream says about the run on an extension    *)
(* ========================================================================================== *)
(* [xsuffix p]: what p leaves is a suffix of its input (for every fuel, whatever the outcome of the lookups).
   [xtri p p']: p run on  q ++ [RError]  (the events q, then the parser's error event), compared with p' run
   on  q ++ t  for a non-empty continuation t (p' = p with at least as much fuel):
     - if p succeeds it never looked at the error event, and p' does exactly the same on q ++ t;
     - if p fails, either p' fails in the same way, or p' consumes the whole of q (p failed BECAUSE it met the
       end of the truncated stream). *)
Definition xsuffix {A} (p : xrd A) : Prop := forall s a s', p s = Ok (a, s') -> exists c, s = c ++ s'.
Definition xtri {A} (p p' : xrd A) : Prop := forall q t, t <> [] ->
  match p (q ++ [RError]) with
  | Ok (a, s') => exists q', s' = q' ++ [RError] /\ p' (q ++ t) = Ok (a, q' ++ t)
  | Err code => p' (q ++ t) = Err code \/ (forall a s', p' (q ++ t) = Ok (a, s') -> (length s' <= length t)%nat)
  | Panic | OutOfFuel => True
  end.
Definition xloc {A} (p p' : xrd A) : Prop := xsuffix p' /\ xtri p p'.

Lemma xloc_bind {A C} (p p' : xrd A) (f f' : A -> xrd C) :
  xloc p p' -> (forall a, xloc (f a) (f' a)) -> xloc (xbind p f) (xbind p' f').
Proof.
  intros [Sp Tp] Hf. split.
  - intros s b s' H. unfold xbind in H. destruct (p' s) as [[a s1]| | |] eqn:E; try discriminate.
    destruct (Sp _ _ _ E) as [c1 ->]. destruct (proj1 (Hf a) _ _ _ H) as [c2 ->]. exists (c1 ++ c2). now rewrite app_assoc.
  - intros q t Ht. specialize (Tp q t Ht). unfold xbind.
    destruct (p (q ++ [RError])) as [[a s1]| |code|]; try exact I.
    + destruct Tp as (q1 & -> & E'). rewrite E'. exact (proj2 (Hf a) q1 t Ht).
    + destruct Tp as [E'|Hreach]; [left; now rewrite E'|right].
      intros b s' H. destruct (p' (q ++ t)) as [[a s1]| | |] eqn:E; try discriminate.
      specialize (Hreach _ _ eq_refl). destruct (proj1 (Hf a) _ _ _ H) as [c2 ->]. rewrite app_length in Hreach. lia.
Qed.

Lemma xloc_ret {A} (a : A) : xloc (xret a) (xret a).
Proof.
  split.
  - intros s b s' [= <- <-]. now exists [].
  - intros q t Ht. unfold xret. now exists q.
Qed.
Lemma xloc_fail {A} c : xloc (@xfail A c) (@xfail A c).
Proof. split; [intros s b s' H; discriminate|]. intros q t Ht. left. reflexivity. Qed.
Lemma xloc_lift {A} (r : res A) : xloc (xlift r) (xlift r).
Proof.
  split.
  - intros s b s' H. unfold xlift in H. destruct r; try discriminate. injection H as <- <-. now exists [].
  - intros q t Ht. unfold xlift. destruct r; try exact I; [now exists q|now left].
Qed.
Lemma xloc_panic {A} : xloc (fun _ => @Panic (A * list revent)) (fun _ => Panic).
Proof. split; [intros s b s' H; discriminate|]. intros q t Ht. exact I. Qed.
Lemma xloc_oof {A} : xloc (fun _ => @OutOfFuel (A * list revent)) (fun _ => OutOfFuel).
Proof. split; [intros s b s' H; discriminate|]. intros q t Ht. exact I. Qed.

Lemma xloc_next : xloc x_next x_next.
Proof.
  split.
  - intros [|e r] a s' H; [discriminate|]. unfold x_next in H. destruct e; try discriminate; injection H as <- <-; now eexists [_].
  - intros [|e q0] t Ht; cbn [app].
    + right. intros a s' H. destruct t as [|e r]; [discriminate|]. unfold x_next in H.
      destruct e; try discriminate; injection H as <- <-; cbn [length]; lia.
    + unfold x_next. destruct e; try (exists q0; split; reflexivity). now left.
Qed.
Lemma xloc_peek : xloc x_peek x_peek.
Proof.
  split.
  - intros [|e r] a s' H; [discriminate|]. unfold x_peek in H. destruct e; try discriminate; injection H as <- <-; now exists [].
  - intros [|e q0] t Ht; cbn [app].
    + right. intros a s' H. destruct t as [|e r]; [discriminate|]. unfold x_peek in H.
      destruct e; try discriminate; injection H as <- <-; cbn [length]; lia.
    + unfold x_peek. destruct e; try (eexists (_ :: q0); split; reflexivity). now left.
Qed.

Lemma xsuffix_chars_go : forall s acc a s', x_chars_go acc s = Ok (a, s') -> exists c, s = c ++ s'.
Proof.
  induction s as [|e r IH]; intros acc a s' H; cbn [x_chars_go] in H.
  - injection H as <- <-. now exists [].
  - destruct e; try discriminate; try (injection H as <- <-; now exists []).
    + destruct (IH _ _ _ H) as [c ->]. now exists (RChars s :: c).
    + destruct (IH _ _ _ H) as [c ->]. now exists (RCData s :: c).
Qed.
Lemma xloc_chars_go acc : xloc (x_chars_go acc) (x_chars_go acc).
Proof.
  split; [intros s a s'; apply xsuffix_chars_go|].
  intros q t Ht. revert acc. induction q as [|e q0 IH]; intros acc; cbn [app].
  - cbn [x_chars_go]. right. intros a s' H. pose proof (xgood_chars_go t acc) as G. unfold xgood_at in G. now rewrite H in G.
  - cbn [x_chars_go]. destruct e; try (eexists (_ :: q0); split; reflexivity); try apply IH. now left.
Qed.
Lemma xloc_chars : xloc x_chars x_chars.
Proof. apply xloc_chars_go. Qed.

Lemma xsuffix_eat_go : forall s depth a s', x_eat_go depth s = Ok (a, s') -> exists c, s = c ++ s'.
Proof.
  induction s as [|e r IH]; intros depth a s' H; cbn [x_eat_go] in H; [discriminate|].
  assert (Hrec : forall d, x_eat_go d r = Ok (a, s') -> exists c, e :: r = c ++ s').
  { intros d Hd. destruct (IH _ _ _ Hd) as [c ->]. now exists (e :: c). }
  destruct e; try discriminate; try (now apply (Hrec _ H)).
  destruct (Z.eqb (depth - 1) 0); [|now apply (Hrec _ H)]. injection H as <- <-. now eexists [_].
Qed.
Lemma xloc_eat_go depth : xloc (x_eat_go depth) (x_eat_go depth).
Proof.
  split; [intros s a s'; apply xsuffix_eat_go|].
  intros q t Ht. revert depth. induction q as [|e q0 IH]; intros depth; cbn [app].
  - cbn [x_eat_go]. right. intros a s' H. pose proof (xstrict_eat_go t depth) as G. unfold xstrict_at in G. rewrite H in G. lia.
  - cbn [x_eat_go]. destruct e; try apply IH; [|now left].
    destruct (Z.eqb (depth - 1) 0); [|apply IH]. exists q0. split; reflexivity.
Qed.
Lemma xloc_eat_unknown : xloc x_eat_unknown x_eat_unknown.
Proof. apply xloc_eat_go. Qed.

Create HintDb xlocal.

Ltac xl1 :=
  lazymatch goal with
  | |- xloc (xret _) _ => apply xloc_ret
  | |- xloc (xfail _) _ => apply xloc_fail
  | |- xloc (xlift _) _ => apply xloc_lift
  | |- xloc (fun _ => Panic) _ => apply xloc_panic
  | |- xloc (fun _ => OutOfFuel) _ => apply xloc_oof
  | |- xloc x_chars _ => apply xloc_chars
  | |- xloc x_peek _ => apply xloc_peek
  | |- xloc x_next _ => apply xloc_next
  | |- xloc x_eat_unknown _ => apply xloc_eat_unknown
  | |- xloc (xbind _ _) _ => apply xloc_bind; [|intros ?]
  | |- xloc (if ?b then _ else _) _ => destruct b
  | |- xloc (match ?x with _ => _ end) _ => destruct x
  | |- xloc _ _ => solve [auto with xlocal nocore]
  end.
Ltac xl := repeat xl1.

Lemma xloc_expect_start n : xloc (x_expect_start n) (x_expect_start n). Proof. unfold x_expect_start. xl. Qed.
Lemma xloc_expect_end n : xloc (x_expect_end n) (x_expect_end n). Proof. unfold x_expect_end. xl. Qed.
#[export] Hint Resolve xloc_expect_start xloc_expect_end : xlocal.
Lemma xloc_base64 : xloc x_base64 x_base64. Proof. unfold x_base64. xl. Qed.
Lemma xloc_tag_contents n : xloc (x_tag_contents n) (x_tag_contents n). Proof. unfold x_tag_contents. xl. Qed.
Lemma xloc_in_tag {A} n (p : xrd A) : xloc p p -> xloc (x_in_tag n p) (x_in_tag n p).
Proof. intros Hp. unfold x_in_tag. xl. Qed.
#[export] Hint Resolve xloc_base64 xloc_tag_contents : xlocal.
Lemma xloc_rv {A} (f : A -> value) tag (p : xrd A) : xloc p p -> xloc (rv f tag p) (rv f tag p).
Proof. intros Hp. unfold rv, outer. apply xloc_bind; [apply xloc_in_tag, Hp|intros; apply xloc_ret]. Qed.

Ltac xl2 := first [ apply xloc_in_tag | xl1 ].
Ltac xll := repeat xl2.

Lemma xloc_r_f32 o : xloc (r_f32 o) (r_f32 o). Proof. unfold r_f32. xll. Qed.
Lemma xloc_r_f64 o : xloc (r_f64 o) (r_f64 o). Proof. unfold r_f64. xll. Qed.
Lemma xloc_r_int {A} (parse : bytes -> option A) : xloc (r_int parse) (r_int parse). Proof. unfold r_int. xll. Qed.
Lemma xloc_r_bool : xloc r_bool r_bool. Proof. unfold r_bool. xll. Qed.
#[export] Hint Resolve xloc_r_f32 xloc_r_f64 xloc_r_int xloc_r_bool : xlocal.
Lemma xloc_r_vec3 o : xloc (r_vec3 o) (r_vec3 o). Proof. unfold r_vec3. xll. Qed.
Lemma xloc_r_vec2 o : xloc (r_vec2 o) (r_vec2 o). Proof. unfold r_vec2. xll. Qed.
Lemma xloc_r_cframe o : xloc (r_cframe o) (r_cframe o). Proof. unfold r_cframe. xll. Qed.
Lemma xloc_r_content_inner u : xloc (r_content_inner u) (r_content_inner u). Proof. unfold r_content_inner. xll. Qed.
Lemma xloc_r_content : xloc r_content r_content. Proof. unfold r_content. xll. Qed.
#[export] Hint Resolve xloc_r_vec3 xloc_r_vec2 xloc_r_cframe xloc_r_content_inner xloc_r_content : xlocal.
Lemma xloc_r_font_content tag : xloc (r_font_content tag) (r_font_content tag). Proof. unfold r_font_content. xll. Qed.
#[export] Hint Resolve xloc_r_font_content : xlocal.
Lemma xloc_r_font : xloc r_font r_font. Proof. unfold r_font. xll. Qed.
#[export] Hint Resolve xloc_r_font : xlocal.

Lemma xloc_read_value_xml o ty : xloc (read_value_xml o ty) (read_value_xml o ty).
Proof.
  unfold read_value_xml. cbv zeta beta.
  repeat match goal with |- xloc (if ?b then _ else _) _ => destruct b end.
  all: try (apply xloc_rv; xll).
  all: xll.
Qed.

(* ========================================================================================== *)
(* 3. deserialize_property                                                                      *)
(* ========================================================================================== *)
(* the hypothesis on the reflection database: the descriptor lookups return (C16: every coherent database) *)
Definition xdb_total (d : db) : Prop := forall cn pn, exists r, find_desc_xml d cn pn = Ok r.

Lemma collect_utf8_safe ps : rsafe (collect_utf8 ps).
Proof.
  induction ps as [|p r IH]; cbn [collect_utf8]; [apply rsafe_ok|].
  destruct (utf8_valid p); [|apply rsafe_err]. apply rsafe_bind; [exact IH|intros; apply rsafe_ok].
Qed.
Lemma tags_decode_safe b : rsafe (tags_decode b).
Proof. unfold tags_decode. apply collect_utf8_safe. Qed.

Lemma try_convert_safe o v t : rsafe (try_convert o v t).
Proof.
  unfold try_convert. destruct v; try apply rsafe_ok;
    repeat match goal with |- rsafe (if ?b then _ else _) => destruct b end; try apply rsafe_ok; try apply rsafe_err.
  - pose proof (tags_decode_safe b) as [H1 H2]. destruct (tags_decode b); try congruence; [apply rsafe_ok|apply rsafe_err].
  - pose proof (attr_decode_total b) as [H1 H2]. destruct (attr_decode b); try congruence; apply rsafe_ok.
  - match goal with |- rsafe (match ?x with _ => _ end) => destruct x end; apply rsafe_ok.
  - repeat (apply rsafe_bind; [apply rsafe_ask|intros]). apply rsafe_ok.
  - destruct c; try apply rsafe_ok; apply rsafe_err.
Qed.

Lemma xstrict_read_prop_value e st ty id pname : xstrict (read_prop_value e st ty id pname).
Proof.
  unfold read_prop_value. apply xstrict_bind; [apply xstrict_read_value_xml|intros rvl]. destruct rvl; apply xgood_ret.
Qed.
Lemma xloc_read_prop_value e st ty id pname : xloc (read_prop_value e st ty id pname) (read_prop_value e st ty id pname).
Proof.
  unfold read_prop_value. apply xloc_bind; [apply xloc_read_value_xml|intros rvl]. destruct rvl; apply xloc_ret.
Qed.
#[export] Hint Resolve xloc_read_prop_value : xlocal.

Lemma find_desc_safe d cn pn : xdb_total d -> rsafe (find_desc_xml d cn pn).
Proof. intros H. destruct (H cn pn) as [r ->]. apply rsafe_ok. Qed.

Lemma xstrict_deserialize_property e beh class id ty pname st props : xdb_total (xe_db e) ->
  xstrict (deserialize_property e beh class id ty pname st props).
Proof.
  intros Hdb. unfold deserialize_property.
  apply xgood_bind_strict.
  { apply xgood_lift. destruct (bytes_eqb pname (B "Name")); [|apply rsafe_ok].
    destruct beh; try apply rsafe_ok; (apply rsafe_bind; [apply find_desc_safe, Hdb|intros; apply rsafe_ok]). }
  intros undescribed. destruct undescribed.
  { apply xstrict_bind; [apply xstrict_read_prop_value|intros [ov st1]]. destruct ov; apply xgood_ret. }
  apply xgood_bind_strict.
  { apply xgood_lift. destruct beh; try apply rsafe_ok; apply find_desc_safe, Hdb. }
  intros desc. destruct desc as [[canon ser]|].
  - apply xstrict_bind; [apply xstrict_read_prop_value|intros [ov st1]].
    destruct ov as [v|]; [|apply xgood_ret].
    apply xgood_bind; [apply xgood_lift, try_convert_safe|intros conv].
    destruct (pd_kind canon) as [[| | |to op]|]; try apply xgood_ret.
    destruct (bfind _ props); [apply xgood_ret|]. destruct (migrate _ _ op conv); [apply xgood_ret|apply xgood_fail].
  - destruct beh; try apply xstrict_fail;
      (apply xstrict_bind; [apply xstrict_read_prop_value|intros [ov st1]]); try apply xgood_ret; destruct ov; apply xgood_ret.
Qed.

Lemma xloc_deserialize_property e beh class id ty pname st props :
  xloc (deserialize_property e beh class id ty pname st props) (deserialize_property e beh class id ty pname st props).
Proof. unfold deserialize_property. xl. Qed.

Lemma xstrict_deserialize_property_pinned e beh class id ty pname st props : xdb_total (xe_db e) ->
  xstrict (deserialize_property_pinned e beh class id ty pname st props).
Proof.
  intros Hdb. unfold deserialize_property_pinned.
  apply xgood_bind_strict.
  { apply xgood_lift. destruct beh; try apply rsafe_ok; apply find_desc_safe, Hdb. }
  intros desc. destruct desc as [[canon ser]|].
  - apply xstrict_bind; [apply xstrict_read_prop_value|intros [ov st1]].
    destruct ov as [v|]; [|apply xgood_ret].
    apply xgood_bind; [apply xgood_lift, try_convert_safe|intros conv].
    destruct (pd_kind canon) as [[| | |to op]|]; try apply xgood_ret.
    destruct (bfind _ props); [apply xgood_ret|]. destruct (migrate _ _ op conv); [apply xgood_ret|apply xgood_fail].
  - destruct beh; try apply xstrict_fail;
      (apply xstrict_bind; [apply xstrict_read_prop_value|intros [ov st1]]); try apply xgood_ret; destruct ov; apply xgood_ret.
Qed.
Lemma xloc_deserialize_property_pinned e beh class id ty pname st props :
  xloc (deserialize_property_pinned e beh class id ty pname st props) (deserialize_property_pinned e beh class id ty pname st props).
Proof. unfold deserialize_property_pinned. xl. Qed.

(* ========================================================================================== *)
(* 4. the loops: the fuel the entry points pass suffices                                        *)
(* ========================================================================================== *)
Lemma xgood_at_of {A} (p : xrd A) s : xgood p -> xgood_at p s. Proof. intros H. apply H. Qed.
Lemma xstrict_at_of {A} (p : xrd A) s : xstrict p -> xstrict_at p s. Proof. intros H. apply H. Qed.
Lemma xstrict_at_bind_good {A C} (p : xrd A) (f : A -> xrd C) s :
  xstrict_at p s -> (forall a s1, (length s1 < length s)%nat -> xgood_at (f a) s1) -> xgood_at (xbind p f) s.
Proof. intros Hp Hf. apply xstrict_good_at, xstrict_at_bind; assumption. Qed.

(* unfolding of the mutual recursion *)
Lemma deserialize_instance_S dprop f e beh parent st :
  deserialize_instance_with dprop (S f) e beh parent st =
  (a <~ x_expect_start (B "Item") ;;
   match attr_last (B "class") a None with
   | None => xfail DE_ATTR
   | Some class =>
       let id := ds_next st in
       let st1 := mkDS (ds_nodes st ++ [mkInst id parent class class []]) (id + 1)
                       (match attr_last (B "referent") a None with
                        | Some r => bupd r id (ds_refs st)
                        | None => ds_refs st
                        end)
                       (ds_rewrites st) (ds_shared st) (ds_srewrites st) in
       '(st2, props) <~ instance_loop_with dprop f e beh class id st1 [] ;;
       match bfind (B "Name") props with
       | Some (VString s) =>
           xret (mkDS (set_node (ds_nodes st2) id s (bremove (B "Name") props)) (ds_next st2) (ds_refs st2)
                      (ds_rewrites st2) (ds_shared st2) (ds_srewrites st2))
       | Some _ => xfail DE_NAME
       | None =>
           xret (mkDS (set_node (ds_nodes st2) id class props) (ds_next st2) (ds_refs st2)
                      (ds_rewrites st2) (ds_shared st2) (ds_srewrites st2))
       end
   end).
Proof. reflexivity. Qed.
Lemma instance_loop_S dprop f e beh class id st props :
  instance_loop_with dprop (S f) e beh class id st props =
  (ev <~ x_peek ;;
   match ev with
   | RStart n _ =>
       if bytes_eqb n (B "Properties") then
         '(st1, props1) <~ deserialize_properties_with dprop e beh class id st props ;;
         instance_loop_with dprop f e beh class id st1 props1
       else if bytes_eqb n (B "Item") then
         st1 <~ deserialize_instance_with dprop f e beh id st ;;
         instance_loop_with dprop f e beh class id st1 props
       else _ <~ x_next ;; xfail DE_EVENT
   | REnd n => _ <~ x_next ;; if bytes_eqb n (B "Item") then xret (st, props) else xfail DE_EVENT
   | _ => _ <~ x_next ;; xfail DE_EVENT
   end).
Proof. reflexivity. Qed.
Lemma deserialize_instance_0 dprop e beh parent st s : deserialize_instance_with dprop 0 e beh parent st s = OutOfFuel.
Proof. reflexivity. Qed.
Lemma instance_loop_0 dprop e beh class id st props s : instance_loop_with dprop 0 e beh class id st props s = OutOfFuel.
Proof. reflexivity. Qed.

Lemma xstrict_metadata : xstrict deserialize_metadata.
Proof.
  unfold deserialize_metadata. apply xstrict_bind; [apply xstrict_expect_start|intros a]. xg.
Qed.
Lemma xstrict_shared_string st : xstrict (deserialize_shared_string st).
Proof.
  unfold deserialize_shared_string. apply xstrict_bind; [apply xstrict_expect_start|intros a]. xg.
Qed.

Lemma shared_dict_loop_good : forall f st s, (length s < f)%nat -> xgood_at (shared_dict_loop f st) s.
Proof.
  induction f as [|f IH]; intros st s Hf; [lia|]. cbn [shared_dict_loop].
  apply xgood_at_bind; [apply xgood_peek|intros ev s1 H1].
  destruct ev; try solve [apply xgood_at_of; xg].
  destruct (bytes_eqb name (B "SharedString")); [|apply xgood_at_of; xg].
  apply xstrict_at_bind_good; [apply xstrict_shared_string|intros st1 s2 H2]. apply IH. lia.
Qed.
Lemma xstrict_shared_string_dict st : xstrict (deserialize_shared_string_dict st).
Proof.
  intros s. unfold deserialize_shared_string_dict.
  apply xstrict_at_bind; [apply xstrict_expect_start|intros _ s1 H1].
  apply xgood_at_bind; [apply shared_dict_loop_good; lia|intros st1 s2 H2]. apply xgood_at_of. xg.
Qed.

Section Loops.
Variable dprop : dprop_t.
Variable e : xenv.
Variable beh : dbehavior.
Hypothesis Hd_strict : forall class id ty pname st props, xstrict (dprop e beh class id ty pname st props).

Lemma properties_loop_good : forall f class id st props s, (length s < f)%nat ->
  xgood_at (deserialize_properties_loop_with dprop f e beh class id st props) s.
Proof.
  induction f as [|f IH]; intros class id st props s Hf; [lia|]. cbn [deserialize_properties_loop_with].
  apply xgood_at_bind; [apply xgood_peek|intros ev s1 H1].
  destruct ev; try solve [apply xgood_at_of; xg].
  destruct (attr_first (B "name") a) as [pname|]; [|apply xgood_at_of; xg].
  apply xstrict_at_bind_good; [apply Hd_strict|intros [st1 props1] s2 H2]. apply IH. lia.
Qed.
Lemma xstrict_properties class id st props : xstrict (deserialize_properties_with dprop e beh class id st props).
Proof.
  intros s. unfold deserialize_properties_with.
  apply xstrict_at_bind; [apply xstrict_expect_start|intros _ s1 H1]. apply properties_loop_good. lia.
Qed.

(* deserialize_instance consumes its start tag, every iteration of its loop at least one event; a nested instance is
   entered with one unit of fuel less and the same input: 2 * events + 1 (resp. + 2) always suffices *)
Lemma instance_good : forall f,
  (forall parent st s, (2 * length s + 1 <= f)%nat -> xstrict_at (deserialize_instance_with dprop f e beh parent st) s) /\
  (forall class id st props s, (2 * length s + 2 <= f)%nat -> xgood_at (instance_loop_with dprop f e beh class id st props) s).
Proof.
  induction f as [|f [IHD IHI]]; [split; intros; lia|]. split.
  - intros parent st s Hf. rewrite deserialize_instance_S.
    apply xstrict_at_bind; [apply xstrict_expect_start|intros a s1 H1].
    destruct (attr_last (B "class") a None) as [class|]; [|apply xgood_at_of; xg]. cbv zeta.
    apply xgood_at_bind; [apply IHI; lia|intros [st2 props] s2 H2]. apply xgood_at_of. xg.
  - intros class id st props s Hf. rewrite instance_loop_S.
    apply xgood_at_bind; [apply xgood_peek|intros ev s1 H1].
    destruct ev; try solve [apply xgood_at_of; xg].
    destruct (bytes_eqb name (B "Properties")).
    { apply xstrict_at_bind_good; [apply xstrict_properties|intros [st1 props1] s2 H2]. apply IHI. lia. }
    destruct (bytes_eqb name (B "Item")); [|apply xgood_at_of; xg].
    apply xstrict_at_bind_good; [apply IHD; lia|intros st1 s2 H2]. apply IHI. lia.
Qed.

Lemma root_loop_good : forall f st s, (length s < f)%nat -> xgood_at (root_loop_with dprop f e beh st) s.
Proof.
  induction f as [|f IH]; intros st s Hf; [lia|]. cbn [root_loop_with].
  apply xgood_at_bind; [apply xgood_peek|intros ev s1 H1].
  destruct ev; try solve [apply xgood_at_of; xg].
  destruct (bytes_eqb name (B "Item")).
  { apply xstrict_at_bind_good; [apply (proj1 (instance_good _)); lia|intros st1 s2 H2]. apply IH. lia. }
  destruct (bytes_eqb name (B "External")).
  { apply xstrict_at_bind_good; [apply xstrict_eat_unknown|intros u s2 H2]. apply IH. lia. }
  destruct (bytes_eqb name (B "Meta")).
  { apply xstrict_at_bind_good; [apply xstrict_metadata|intros u s2 H2]. apply IH. lia. }
  destruct (bytes_eqb name (B "SharedStrings")); [|apply xgood_at_of; xg].
  apply xstrict_at_bind_good; [apply xstrict_shared_string_dict|intros st1 s2 H2]. apply IH. lia.
Qed.

(* deserialize_root: the only panic is the `unreachable!()` when the first event is not StartDocument *)
Definition starts_wrong (evs : list revent) : Prop :=
  exists ev r, evs = ev :: r /\ ev <> RStartDoc /\ ev <> RError.

Lemma root_after_startdoc r :
  xgood_at (fun s => (a <~ x_expect_start (B "roblox") ;;
                      match attr_last (B "version") a None with
                      | None => xfail DE_ATTR
                      | Some v => if bytes_eqb v (B "4") then root_loop_with dprop (S (length (RStartDoc :: r))) e beh ds0
                                  else xfail DE_VERSION
                      end) s) r.
Proof.
  apply xstrict_good_at. apply xstrict_at_bind; [apply xstrict_expect_start|intros a s1 H1].
  destruct (attr_last (B "version") a None) as [v|]; [|apply xgood_at_of; xg].
  destruct (bytes_eqb v (B "4")); [|apply xgood_at_of; xg]. apply root_loop_good. cbn [length]. lia.
Qed.

Lemma deserialize_root_with_total evs :
  deserialize_root_with dprop e beh evs <> OutOfFuel /\
  (deserialize_root_with dprop e beh evs = Panic <-> starts_wrong evs).
Proof.
  unfold deserialize_root_with, xbind at 1. destruct evs as [|ev r].
  { cbn. split; [discriminate|]. split; [discriminate|]. intros (ev & r & H & _). discriminate. }
  unfold x_next.
  destruct ev;
    try (split; [discriminate|]; split; [intros _; eexists _, r; repeat split; discriminate|reflexivity]).
  - pose proof (root_after_startdoc r) as G. apply xgood_at_safe in G. cbv beta in G. destruct G as [G1 G2].
    split; [exact G2|]. split; [intros H; now apply G1 in H|].
    intros (ev & r' & [= <- <-] & H & _). congruence.
  - split; [discriminate|]. split; [discriminate|]. intros (ev & r' & [= <- <-] & _ & H). congruence.
Qed.

Lemma xml_decode_with_total evs :
  xml_decode_with dprop e beh evs <> OutOfFuel /\
  (xml_decode_with dprop e beh evs = Panic <-> starts_wrong evs).
Proof.
  destruct (deserialize_root_with_total evs) as [H1 H2]. unfold xml_decode_with.
  destruct (deserialize_root_with dprop e beh evs) as [[st rest]| | |]; try congruence.
  - split; [discriminate|]. split; [discriminate|]. intros H. apply (proj2 H2) in H. discriminate.
  - split; [discriminate|]. split; [intros _; now apply (proj1 H2)|reflexivity].
  - split; [discriminate|]. split; [discriminate|]. intros H. apply (proj2 H2) in H. discriminate.
Qed.
End Loops.

(* ========================================================================================== *)
(* 5. B2: xml_decode                                                                            *)
(* ========================================================================================== *)
Theorem xml_decode_total e beh evs : xdb_total (xe_db e) ->
  xml_decode e beh evs <> OutOfFuel /\ (xml_decode e beh evs = Panic <-> starts_wrong evs).
Proof. intros H. apply xml_decode_with_total. intros. apply xstrict_deserialize_property, H. Qed.

(* the same for the reader before 9d6f480a / 8e3b6855 *)
Theorem xml_decode_pinned_total e beh evs : xdb_total (xe_db e) ->
  xml_decode_pinned e beh evs <> OutOfFuel /\ (xml_decode_pinned e beh evs = Panic <-> starts_wrong evs).
Proof. intros H. apply xml_decode_with_total. intros. apply xstrict_deserialize_property_pinned, H. Qed.

(* what the parser delivers always starts with StartDocument (or is its error): no panic *)
Corollary xml_decode_no_panic e beh r : xdb_total (xe_db e) ->
  xml_decode e beh (RStartDoc :: r) <> Panic /\ xml_decode e beh (RStartDoc :: r) <> OutOfFuel.
Proof.
  intros H. destruct (xml_decode_total e beh (RStartDoc :: r) H) as [H1 H2]. split; [|exact H1].
  intros E. apply H2 in E. destruct E as (ev & r' & [= <- <-] & E & _). congruence.
Qed.

Lemma coherent_xdb_total d : db_coherent d = true -> xdb_total d.
Proof. intros H cn pn. exact (proj2 (coherent_lookups_total d H cn pn)). Qed.

Corollary xml_decode_total_coherent e beh evs : db_coherent (xe_db e) = true ->
  xml_decode e beh evs <> OutOfFuel /\ (xml_decode e beh evs = Panic <-> starts_wrong evs).
Proof. intros H. apply xml_decode_total, coherent_xdb_total, H. Qed.

Corollary xml_decode_total_bundled e beh evs : xe_db e = Database.database ->
  xml_decode e beh evs <> OutOfFuel /\ (xml_decode e beh evs = Panic <-> starts_wrong evs).
Proof. intros H. apply xml_decode_total_coherent. rewrite H. exact bundled_coherent. Qed.

Lemma xdb_total_empty : xdb_total (mkDb [] []).
Proof. intros cn pn. eexists. reflexivity. Qed.

(* the `unreachable!()` is reached by every event list whose first event is not StartDocument (nor an error),
   whatever the environment: this is the only panic (xml_decode_total is an equivalence) *)
Lemma xml_decode_unreachable_refuted e beh : xml_decode e beh [RStart (B "roblox") [(B "version", B "4")]; REnd (B "roblox")] = Panic.
Proof. reflexivity. Qed.

(* the hypothesis on the database is needed: a class whose superclass is missing makes the lookup panic
   (`superclass.unwrap()`), a cyclic superclass chain would loop *)
Definition db_dangling : db := mkDb [mkCD "A" (Some "B") false [] []] [].
Definition db_cyclic : db := mkDb [mkCD "A" (Some "B") false [] []; mkCD "B" (Some "A") false [] []] [].
Definition o_none : xoracle := mkXO (fun _ => None) (fun _ => None) (fun _ => None) (fun _ => None) (fun _ => None) (fun _ => None).
Definition env_of (d : db) : xenv := mkXE d [] [] o_none (fun _ => None).
Definition doc_one_prop : list revent :=
  [RStartDoc; RStart (B "roblox") [(B "version", B "4")];
   RStart (B "Item") [(B "class", B "A"); (B "referent", B "R1")];
   RStart (B "Properties") [];
   RStart (B "string") [(B "name", B "Foo")]; RChars (B "x"); REnd (B "string");
   REnd (B "Properties"); REnd (B "Item"); REnd (B "roblox"); REndDoc].
Lemma xml_decode_dangling_db_refuted : xml_decode (env_of db_dangling) DIgnoreUnknown doc_one_prop = Panic.
Proof. vm_compute. reflexivity. Qed.
Lemma xml_decode_cyclic_db_refuted : xml_decode (env_of db_cyclic) DIgnoreUnknown doc_one_prop = OutOfFuel.
Proof. vm_compute. reflexivity. Qed.

(* non-vacuity: the hypotheses hold for the empty database, and the document above decodes *)
Example xml_decode_total_example :
  xdb_total (xe_db (env_of (mkDb [] []))) /\
  xml_decode (env_of (mkDb [] [])) DReadUnknown doc_one_prop = Ok [mkInst 1 0 (B "A") (B "A") [(B "Foo", VString (B "x"))]].
Proof. split; [exact xdb_total_empty|vm_compute; reflexivity]. Qed.

(* ========================================================================================== *)
(* 6. locality of the loops (more fuel and a longer stream: the same run)                       *)
(* ========================================================================================== *)
Lemma xloc_fuel {A X} (L : nat -> X -> xrd A) :
  (forall x s, L 0%nat x s = OutOfFuel) ->
  (forall f f', (forall x, xloc (L f x) (L f' x)) -> forall x, xloc (L (S f) x) (L (S f') x)) ->
  forall f' f, (f <= f')%nat -> forall x, xloc (L f x) (L f' x).
Proof.
  intros H0 Hs. induction f' as [|f' IH]; intros f Hf x.
  - assert (f = 0%nat) by lia. subst. split; [intros s a s' H; rewrite H0 in H; discriminate|].
    intros q t Ht. rewrite H0. exact I.
  - destruct f as [|f].
    + split; [exact (proj1 (Hs f' f' (IH f' (le_n _)) x))|]. intros q t Ht. rewrite H0. exact I.
    + apply Hs. intros x'. apply IH. lia.
Qed.

Lemma xloc_fuel2 {A1 A2 X1 X2} (L1 : nat -> X1 -> xrd A1) (L2 : nat -> X2 -> xrd A2) :
  (forall x s, L1 0%nat x s = OutOfFuel) -> (forall x s, L2 0%nat x s = OutOfFuel) ->
  (forall f f', (forall x, xloc (L1 f x) (L1 f' x)) -> (forall x, xloc (L2 f x) (L2 f' x)) ->
     (forall x, xloc (L1 (S f) x) (L1 (S f') x)) /\ (forall x, xloc (L2 (S f) x) (L2 (S f') x))) ->
  forall f' f, (f <= f')%nat -> (forall x, xloc (L1 f x) (L1 f' x)) /\ (forall x, xloc (L2 f x) (L2 f' x)).
Proof.
  intros H01 H02 Hs. induction f' as [|f' IH]; intros f Hf.
  - assert (f = 0%nat) by lia. subst. split; intros x; (split; [intros s a s' H; rewrite ?H01, ?H02 in H; discriminate|]);
      intros q t Ht; rewrite ?H01, ?H02; exact I.
  - destruct f as [|f].
    + destruct (IH f' (le_n _)) as [I1 I2]. destruct (Hs f' f' I1 I2) as [S1 S2].
      split; intros x; (split; [first [exact (proj1 (S1 x))|exact (proj1 (S2 x))]|]); intros q t Ht; rewrite ?H01, ?H02; exact I.
    + assert (Hf' : (f <= f')%nat) by lia. destruct (IH f Hf') as [I1 I2]. exact (Hs f f' I1 I2).
Qed.

(* entry points that take their fuel from the length of the stream *)
Lemma xloc_len {A} (g : nat -> nat) (P P' : nat -> xrd A) :
  (forall a b, (a <= b)%nat -> (g a <= g b)%nat) ->
  (forall n n', (n <= n')%nat -> xloc (P n) (P' n')) ->
  xloc (fun evs => P (g (length evs)) evs) (fun evs => P' (g (length evs)) evs).
Proof.
  intros Hg H. split.
  - intros s a s' E. exact (proj1 (H 0%nat _ (Nat.le_0_l _)) s a s' E).
  - intros q t Ht. cbv beta.
    assert (Hl : (length (q ++ [RError]) <= length (q ++ t))%nat)
      by (rewrite !app_length; destruct t; [congruence|cbn [length]; lia]).
    exact (proj2 (H _ _ (Hg _ _ Hl)) q t Ht).
Qed.

Lemma xloc_metadata : xloc deserialize_metadata deserialize_metadata.
Proof. unfold deserialize_metadata. xl. Qed.
Lemma xloc_shared_string st : xloc (deserialize_shared_string st) (deserialize_shared_string st).
Proof. unfold deserialize_shared_string. xl. Qed.
#[export] Hint Resolve xloc_metadata xloc_shared_string : xlocal.

Lemma shared_dict_loop_loc : forall f' f, (f <= f')%nat -> forall st, xloc (shared_dict_loop f st) (shared_dict_loop f' st).
Proof.
  apply (xloc_fuel shared_dict_loop); [reflexivity|].
  intros f f' IH st. cbn [shared_dict_loop]. xl.
Qed.
Lemma xloc_shared_string_dict st : xloc (deserialize_shared_string_dict st) (deserialize_shared_string_dict st).
Proof.
  unfold deserialize_shared_string_dict.
  apply (xloc_len S (fun n => _ <~ x_expect_start (B "SharedStrings") ;; st1 <~ shared_dict_loop n st ;;
                               _ <~ x_expect_end (B "SharedStrings") ;; xret st1)
                    (fun n => _ <~ x_expect_start (B "SharedStrings") ;; st1 <~ shared_dict_loop n st ;;
                               _ <~ x_expect_end (B "SharedStrings") ;; xret st1)); [intros; lia|].
  intros n n' Hn. pose proof (shared_dict_loop_loc n' n Hn) as Hl. xl.
Qed.
#[export] Hint Resolve xloc_shared_string_dict : xlocal.

Section LoopsLocal.
Variable dprop : dprop_t.
Variable e : xenv.
Variable beh : dbehavior.
Hypothesis Hd_loc : forall class id ty pname st props,
  xloc (dprop e beh class id ty pname st props) (dprop e beh class id ty pname st props).

Lemma properties_loop_loc : forall f' f, (f <= f')%nat -> forall class id st props,
  xloc (deserialize_properties_loop_with dprop f e beh class id st props)
       (deserialize_properties_loop_with dprop f' e beh class id st props).
Proof.
  intros f' f Hf class id st props.
  apply (xloc_fuel (fun f (x : bytes * N * dstate * list (bytes * value)) =>
                      let '(class, id, st, props) := x in deserialize_properties_loop_with dprop f e beh class id st props))
    with (x := (class, id, st, props)); [intros [[[? ?] ?] ?] s; reflexivity| |exact Hf].
  clear Hf class id st props f f'. intros f f' IH [[[class id] st] props].
  assert (IH' : forall class id st props, xloc (deserialize_properties_loop_with dprop f e beh class id st props)
                                               (deserialize_properties_loop_with dprop f' e beh class id st props))
    by (intros c i s p; exact (IH (c, i, s, p))).
  cbn [deserialize_properties_loop_with]. xl.
Qed.

Lemma xloc_properties class id st props :
  xloc (deserialize_properties_with dprop e beh class id st props) (deserialize_properties_with dprop e beh class id st props).
Proof.
  unfold deserialize_properties_with.
  apply (xloc_len S (fun n => _ <~ x_expect_start (B "Properties") ;; deserialize_properties_loop_with dprop n e beh class id st props)
                    (fun n => _ <~ x_expect_start (B "Properties") ;; deserialize_properties_loop_with dprop n e beh class id st props));
    [intros; lia|].
  intros n n' Hn. pose proof (properties_loop_loc n' n Hn) as Hl. xl.
Qed.

Lemma instance_loc : forall f' f, (f <= f')%nat ->
  (forall parent st, xloc (deserialize_instance_with dprop f e beh parent st) (deserialize_instance_with dprop f' e beh parent st)) /\
  (forall class id st props,
     xloc (instance_loop_with dprop f e beh class id st props) (instance_loop_with dprop f' e beh class id st props)).
Proof.
  pose proof xloc_properties as Hp.
  pose proof (xloc_fuel2 (fun f (x : N * dstate) => deserialize_instance_with dprop f e beh (fst x) (snd x))
                    (fun f (x : bytes * N * dstate * list (bytes * value)) =>
                       let '(class, id, st, props) := x in instance_loop_with dprop f e beh class id st props)) as H.
  cbv beta in H.
  assert (H1 : forall (x : N * dstate) s, deserialize_instance_with dprop 0 e beh (fst x) (snd x) s = OutOfFuel) by reflexivity.
  assert (H2 : forall (x : bytes * N * dstate * list (bytes * value)) s,
             (let '(class, id, st, props) := x in instance_loop_with dprop 0 e beh class id st props) s = OutOfFuel)
    by (intros [[[? ?] ?] ?] s; reflexivity).
  specialize (H H1 H2). clear H1 H2.
  assert (Hs : forall f f' : nat,
      (forall x : N * dstate, xloc (deserialize_instance_with dprop f e beh (fst x) (snd x))
                                   (deserialize_instance_with dprop f' e beh (fst x) (snd x))) ->
      (forall x : bytes * N * dstate * list (bytes * value),
          xloc (let '(class, id, st, props) := x in instance_loop_with dprop f e beh class id st props)
               (let '(class, id, st, props) := x in instance_loop_with dprop f' e beh class id st props)) ->
      (forall x : N * dstate, xloc (deserialize_instance_with dprop (S f) e beh (fst x) (snd x))
                                   (deserialize_instance_with dprop (S f') e beh (fst x) (snd x))) /\
      (forall x : bytes * N * dstate * list (bytes * value),
          xloc (let '(class, id, st, props) := x in instance_loop_with dprop (S f) e beh class id st props)
               (let '(class, id, st, props) := x in instance_loop_with dprop (S f') e beh class id st props))).
  { intros f f' IHD IHI.
    assert (IHD' : forall parent st, xloc (deserialize_instance_with dprop f e beh parent st) (deserialize_instance_with dprop f' e beh parent st))
      by (intros p s; exact (IHD (p, s))).
    assert (IHI' : forall class id st props, xloc (instance_loop_with dprop f e beh class id st props)
                                                 (instance_loop_with dprop f' e beh class id st props))
      by (intros c i s p; exact (IHI (c, i, s, p))).
    clear IHD IHI H. split.
    + intros [parent st]. cbn [fst snd]. rewrite !deserialize_instance_S. cbv zeta. xl.
    + intros [[[class id] st] props]. rewrite !instance_loop_S. xl. }
  specialize (H Hs). intros f' f Hf. destruct (H f' f Hf) as [A B].
  split; [intros p s; exact (A (p, s))|intros c i s p; exact (B (c, i, s, p))].
Qed.
Lemma deserialize_instance_loc f f' parent st : (f <= f')%nat ->
  xloc (deserialize_instance_with dprop f e beh parent st) (deserialize_instance_with dprop f' e beh parent st).
Proof. intros Hf. exact (proj1 (instance_loc f' f Hf) parent st). Qed.

Lemma root_loop_loc : forall f' f, (f <= f')%nat -> forall st, xloc (root_loop_with dprop f e beh st) (root_loop_with dprop f' e beh st).
Proof.
  apply (xloc_fuel (fun f st => root_loop_with dprop f e beh st)); [reflexivity|].
  intros f f' IH st. cbn [root_loop_with].
  apply xloc_bind; [apply xloc_peek|intros ev]. destruct ev; try solve [xl].
  destruct (bytes_eqb name (B "Item")); [|xl].
  apply (xloc_len (fun n => (2 * n + 4)%nat)
           (fun n => st1 <~ deserialize_instance_with dprop n e beh 0 st ;; root_loop_with dprop f e beh st1)
           (fun n => st1 <~ deserialize_instance_with dprop n e beh 0 st ;; root_loop_with dprop f' e beh st1)); [intros; lia|].
  intros n n' Hn. apply xloc_bind; [apply deserialize_instance_loc, Hn|intros st1; apply IH].
Qed.

Lemma xloc_deserialize_root : xloc (deserialize_root_with dprop e beh) (deserialize_root_with dprop e beh).
Proof.
  unfold deserialize_root_with.
  set (P := fun n : nat =>
     first <~ x_next ;;
     match first with
     | RStartDoc =>
         a <~ x_expect_start (B "roblox") ;;
         match attr_last (B "version") a None with
         | None => xfail DE_ATTR
         | Some v => if bytes_eqb v (B "4") then root_loop_with dprop n e beh ds0 else xfail DE_VERSION
         end
     | _ => fun _ => Panic
     end).
  apply (xloc_len S P P); [intros; lia|].
  intros n n' Hn. pose proof (root_loop_loc n' n Hn) as Hl. unfold P. xl.
Qed.
End LoopsLocal.

(* ========================================================================================== *)
(* 7. B3: truncation                                                                            *)
(* ========================================================================================== *)
Lemma xbind_ok {A C} (p : xrd A) (f : A -> xrd C) s b s' :
  xbind p f s = Ok (b, s') -> exists a s1, p s = Ok (a, s1) /\ f a s1 = Ok (b, s').
Proof. unfold xbind. destruct (p s) as [[a s1]| | |]; try discriminate. intros H. now exists a, s1. Qed.
Lemma x_peek_ok s ev s1 : x_peek s = Ok (ev, s1) -> s1 = s /\ exists r, s = ev :: r.
Proof. destruct s as [|e r]; [discriminate|]. unfold x_peek. destruct e; try discriminate; intros [= <- <-]; split; eauto. Qed.
Lemma x_next_ok s ev s1 : x_next s = Ok (ev, s1) -> s = ev :: s1.
Proof. destruct s as [|e r]; [discriminate|]. unfold x_next. destruct e; try discriminate; intros [= <- <-]; reflexivity. Qed.
Lemma beqb_eq a : forall b, bytes_eqb a b = true -> a = b.
Proof.
  induction a as [|x a IH]; intros [|y b] H; cbn in H; try discriminate; [reflexivity|].
  apply andb_true_iff in H. destruct H as [H1 H2]. apply N.eqb_eq in H1. apply IH in H2. congruence.
Qed.

(* how a successful run of the root loop ended: it consumed `</roblox>` (the events after it were never looked at),
   or it met EndDocument (which it leaves in the stream) *)
Definition closed_or_enddoc (s rest : list revent) : Prop :=
  (exists c, s = c ++ REnd (B "roblox") :: rest) \/ (exists r, rest = REndDoc :: r).

Lemma closed_or_enddoc_app c s rest : closed_or_enddoc s rest -> closed_or_enddoc (c ++ s) rest.
Proof. intros [[c' ->]|H]; [left; exists (c ++ c'); now rewrite app_assoc|now right]. Qed.

Lemma shape_step {A C} (p : xrd A) (k : A -> xrd C) s b rest :
  xsuffix p -> xbind p k s = Ok (b, rest) ->
  (forall a s2, k a s2 = Ok (b, rest) -> closed_or_enddoc s2 rest) -> closed_or_enddoc s rest.
Proof.
  intros Hs H Hk. apply xbind_ok in H. destruct H as (a & s2 & H1 & H2).
  destruct (Hs _ _ _ H1) as [c ->]. apply closed_or_enddoc_app. exact (Hk a s2 H2).
Qed.

Section Truncation.
Variable dprop : dprop_t.
Variable e : xenv.
Variable beh : dbehavior.
Hypothesis Hd_strict : forall class id ty pname st props, xstrict (dprop e beh class id ty pname st props).
Hypothesis Hd_loc : forall class id ty pname st props,
  xloc (dprop e beh class id ty pname st props) (dprop e beh class id ty pname st props).

Lemma root_loop_shape : forall f st s st' rest,
  root_loop_with dprop f e beh st s = Ok (st', rest) -> closed_or_enddoc s rest.
Proof.
  induction f as [|f IH]; intros st s st' rest H; [discriminate|]. cbn [root_loop_with] in H.
  apply xbind_ok in H. destruct H as (ev & s1 & Hp & H). apply x_peek_ok in Hp. destruct Hp as [-> [r Hs]].
  destruct ev; try solve [apply xbind_ok in H; destruct H as (? & ? & _ & H); discriminate].
  - destruct (bytes_eqb name (B "Item")).
    { cbv beta in H. eapply shape_step; [|exact H|intros a' s2 H2; exact (IH _ _ _ _ H2)].
      exact (proj1 (deserialize_instance_loc dprop e beh Hd_loc _ _ 0 st (le_n _))). }
    destruct (bytes_eqb name (B "External")).
    { eapply shape_step; [|exact H|intros a' s2 H2; exact (IH _ _ _ _ H2)]. exact (proj1 xloc_eat_unknown). }
    destruct (bytes_eqb name (B "Meta")).
    { eapply shape_step; [|exact H|intros a' s2 H2; exact (IH _ _ _ _ H2)]. exact (proj1 xloc_metadata). }
    destruct (bytes_eqb name (B "SharedStrings")).
    { eapply shape_step; [|exact H|intros a' s2 H2; exact (IH _ _ _ _ H2)]. exact (proj1 (xloc_shared_string_dict st)). }
    apply xbind_ok in H. destruct H as (? & ? & _ & H). discriminate.
  - apply xbind_ok in H. destruct H as (ev & s2 & Hn & H). apply x_next_ok in Hn.
    destruct (bytes_eqb name (B "roblox")) eqn:En; [|discriminate]. apply beqb_eq in En. subst name.
    injection H as <- <-. rewrite Hs in Hn. injection Hn as <- <-. left. exists []. exact Hs.
  - injection H as <- <-. right. now exists r.
Qed.

Lemma deserialize_root_shape evs st rest :
  deserialize_root_with dprop e beh evs = Ok (st, rest) -> closed_or_enddoc evs rest.
Proof.
  intros H. unfold deserialize_root_with in H.
  apply xbind_ok in H. destruct H as (first & s1 & Hn & H). apply x_next_ok in Hn. subst evs.
  destruct first; try discriminate.
  apply xbind_ok in H. destruct H as (a & s2 & Hs & H).
  destruct (proj1 (xloc_expect_start (B "roblox")) _ _ _ Hs) as [c ->].
  destruct (attr_last (B "version") a None) as [v|]; [|discriminate].
  destruct (bytes_eqb v (B "4")); [|discriminate].
  apply (closed_or_enddoc_app (RStartDoc :: c)). exact (root_loop_shape _ _ _ _ _ H).
Qed.

(* the run on the events before position k followed by the parser's error, against the successful run on the whole *)
Lemma truncated_run evs st rest k :
  deserialize_root_with dprop e beh evs = Ok (st, rest) -> (k < length evs)%nat ->
  match deserialize_root_with dprop e beh (firstn k evs ++ [RError]) with
  | Ok (a, _) => a = st /\ (length evs - k <= length rest)%nat
  | Err _ => (length rest <= length evs - k)%nat
  | Panic => False
  | OutOfFuel => False
  end.
Proof.
  intros Hok Hk.
  assert (Ht : skipn k evs <> []).
  { intros E. pose proof (skipn_length k evs) as L. rewrite E in L. cbn [length] in L. lia. }
  assert (Hlt : length (skipn k evs) = (length evs - k)%nat) by apply skipn_length.
  pose proof (proj2 (xloc_deserialize_root dprop e beh Hd_loc) (firstn k evs) (skipn k evs) Ht) as T.
  rewrite firstn_skipn, Hok in T.
  destruct (deserialize_root_with_total dprop e beh Hd_strict (firstn k evs ++ [RError])) as [Hf Hp].
  destruct (deserialize_root_with dprop e beh (firstn k evs ++ [RError])) as [[a s']| |code|].
  - destruct T as (q' & -> & [= <- E]). split; [reflexivity|]. rewrite E, app_length. lia.
  - exfalso. destruct (proj1 Hp eq_refl) as (ev & r & E1 & E2 & E3).
    destruct (deserialize_root_with_total dprop e beh Hd_strict evs) as [_ Hp'].
    assert (Hw : starts_wrong evs).
    { destruct k as [|k]; [cbn in E1; injection E1 as <- _; congruence|].
      destruct evs as [|e0 evs0]; [cbn in Hk; lia|]. cbn in E1. injection E1 as <- _. exists e0, evs0. auto. }
    apply Hp' in Hw. congruence.
  - destruct T as [T|T]; [discriminate|]. specialize (T _ _ eq_refl). lia.
  - congruence.
Qed.

(* ---- the cut exactly at c ---- *)
(* if the cut at c is accepted, the decoder never looks past c: whatever follows c, the same DOM *)
Lemma cut_accepted_ignores_rest c st' s' :
  deserialize_root_with dprop e beh (c ++ [RError]) = Ok (st', s') ->
  forall t, t <> [] -> exists q', deserialize_root_with dprop e beh (c ++ t) = Ok (st', q' ++ t).
Proof.
  intros H t Ht. pose proof (proj2 (xloc_deserialize_root dprop e beh Hd_loc) c t Ht) as T. rewrite H in T.
  destruct T as (q' & _ & E). now exists q'.
Qed.

(* reverse direction of locality, when the full run stops at least one event before the continuation *)
Lemma xloc_reverse {A} (p p' : xrd A) q t a s' :
  xloc p p' -> t <> [] -> rsafe (p (q ++ [RError])) -> p' (q ++ t) = Ok (a, s') -> (length t < length s')%nat ->
  exists q', s' = q' ++ t /\ p (q ++ [RError]) = Ok (a, q' ++ [RError]).
Proof.
  intros [_ T] Ht [S1 S2] E Hl. specialize (T q t Ht).
  destruct (p (q ++ [RError])) as [[a2 s2]| |code|]; try congruence.
  - destruct T as (q' & -> & E'). rewrite E in E'. injection E' as <- ->. now exists q'.
  - destruct T as [E'|Hr]; [congruence|]. specialize (Hr _ _ E). lia.
Qed.

(* the root loop cannot succeed without consuming anything unless it sees EndDocument *)
Lemma strict_then_suffix_contra {A} (P : xrd A) (k : A -> xrd dstate) t st' :
  xstrict_at P t -> (forall a s2, k a s2 = Ok (st', t) -> exists c, s2 = c ++ t) -> xbind P k t = Ok (st', t) -> False.
Proof.
  intros Hs Hk H. apply xbind_ok in H. destruct H as (a & s2 & H1 & H2). unfold xstrict_at in Hs. rewrite H1 in Hs.
  destruct (Hk a s2 H2) as [c ->]. rewrite app_length in Hs. lia.
Qed.
Lemma root_loop_suffix f st s st' rest : root_loop_with dprop f e beh st s = Ok (st', rest) -> exists c, s = c ++ rest.
Proof. exact (proj1 (root_loop_loc dprop e beh Hd_loc f f (le_n _) st) s st' rest). Qed.

Lemma root_loop_progress f st t st' : root_loop_with dprop f e beh st t = Ok (st', t) -> exists r, t = REndDoc :: r.
Proof.
  destruct f as [|f]; [discriminate|]. cbn [root_loop_with]. intros H.
  apply xbind_ok in H. destruct H as (ev & s1 & Hp & H). apply x_peek_ok in Hp. destruct Hp as [-> [r Hs]].
  destruct ev; try solve [apply xbind_ok in H; destruct H as (? & ? & _ & H); discriminate].
  - exfalso. destruct (bytes_eqb name (B "Item")).
    { cbv beta in H. eapply strict_then_suffix_contra; [|intros a' s2; apply root_loop_suffix|exact H].
      apply (proj1 (instance_good dprop e beh Hd_strict _)). lia. }
    destruct (bytes_eqb name (B "External")).
    { eapply strict_then_suffix_contra; [apply xstrict_eat_unknown|intros a' s2; apply root_loop_suffix|exact H]. }
    destruct (bytes_eqb name (B "Meta")).
    { eapply strict_then_suffix_contra; [apply xstrict_metadata|intros a' s2; apply root_loop_suffix|exact H]. }
    destruct (bytes_eqb name (B "SharedStrings")).
    { eapply strict_then_suffix_contra; [apply xstrict_shared_string_dict|intros a' s2; apply root_loop_suffix|exact H]. }
    apply xbind_ok in H. destruct H as (? & ? & _ & H). discriminate.
  - exfalso. apply xbind_ok in H. destruct H as (ev & s2 & Hn & H). apply x_next_ok in Hn.
    destruct (bytes_eqb name (B "roblox")); [|discriminate]. injection H as _ ->.
    assert (L : length t = length (ev :: t)) by (rewrite <- Hn; reflexivity). cbn [length] in L. lia.
  - now exists r.
Qed.

Lemma cut_step {A} (P P' : xrd A) (k k' : A -> xrd dstate) q t st' :
  xloc P P' -> xstrict_at P (q ++ [RError]) -> t <> [] ->
  xbind P' k' (q ++ t) = Ok (st', t) ->
  (forall a s2, k' a s2 = Ok (st', t) -> (exists c, s2 = c ++ t) /\ s2 <> t) ->
  (forall a q2, (length q2 < length q)%nat -> k' a (q2 ++ t) = Ok (st', t) -> k a (q2 ++ [RError]) = Ok (st', [RError])) ->
  xbind P k (q ++ [RError]) = Ok (st', [RError]).
Proof.
  intros Hl Hs Ht H Hk Hk2. apply xbind_ok in H. destruct H as (a & s2 & H1 & H2).
  destruct (Hk a s2 H2) as [[c Hc] Hne].
  assert (Hlen : (length t < length s2)%nat).
  { subst s2. rewrite app_length. destruct c; [now contradiction Hne|cbn [length]; lia]. }
  destruct (xloc_reverse P P' q t a s2 Hl Ht (xgood_at_safe _ _ (xstrict_good_at _ _ Hs)) H1 Hlen) as (q2 & -> & E).
  unfold xbind. unfold xstrict_at in Hs. rewrite E in *. apply Hk2; [|exact H2].
  rewrite !app_length in Hs. cbn [length] in Hs. lia.
Qed.

Lemma root_loop_cut : forall f f' st q t st', (f <= f')%nat -> (length q + 1 < f)%nat -> t <> [] ->
  (forall r, t <> REndDoc :: r) ->
  root_loop_with dprop f' e beh st (q ++ t) = Ok (st', t) ->
  root_loop_with dprop f e beh st (q ++ [RError]) = Ok (st', [RError]).
Proof.
  induction f as [|f IH]; intros f' st q t st' Hf Hq Ht Hnd H; [lia|].
  destruct f' as [|f']; [lia|].
  assert (Hk : forall (a : dstate) s2, root_loop_with dprop f' e beh a s2 = Ok (st', t) -> (exists c, s2 = c ++ t) /\ s2 <> t).
  { intros a s2 H2. split; [exact (root_loop_suffix _ _ _ _ _ H2)|]. intros ->.
    destruct (root_loop_progress _ _ _ _ H2) as [r Hr]. exact (Hnd r Hr). }
  assert (Hk2 : forall (a : dstate) q2, (length q2 < length q)%nat -> root_loop_with dprop f' e beh a (q2 ++ t) = Ok (st', t) ->
                root_loop_with dprop f e beh a (q2 ++ [RError]) = Ok (st', [RError])).
  { intros a q2 Hl H2. apply (IH f' a q2 t st'); try assumption; lia. }
  destruct q as [|ev q0].
  { exfalso. cbn [app] in H. destruct (root_loop_progress _ _ _ _ H) as [r Hr]. exact (Hnd r Hr). }
  cbn [root_loop_with] in H |- *. cbn [app] in H |- *.
  apply xbind_ok in H. destruct H as (ev' & s1 & Hp & H). apply x_peek_ok in Hp. destruct Hp as [-> [r Hs]].
  injection Hs as <- _.
  destruct ev; try solve [apply xbind_ok in H; destruct H as (? & ? & _ & H); discriminate].
  - unfold xbind at 1. cbn [x_peek].
    destruct (bytes_eqb name (B "Item")).
    { change (RStart name a :: q0 ++ [RError]) with ((RStart name a :: q0) ++ [RError]).
      change (RStart name a :: q0 ++ t) with ((RStart name a :: q0) ++ t) in H. cbv beta in H |- *.
      eapply cut_step; [|apply (proj1 (instance_good dprop e beh Hd_strict _)); lia|exact Ht|exact H|exact Hk|exact Hk2].
      apply deserialize_instance_loc; [exact Hd_loc|]. rewrite !app_length. destruct t; [congruence|cbn [length]; lia]. }
    destruct (bytes_eqb name (B "External")).
    { change (RStart name a :: q0 ++ [RError]) with ((RStart name a :: q0) ++ [RError]).
      change (RStart name a :: q0 ++ t) with ((RStart name a :: q0) ++ t) in H.
      eapply cut_step; [apply xloc_eat_unknown|apply xstrict_eat_unknown|exact Ht|exact H|intros u; apply Hk|intros u; apply Hk2]. }
    destruct (bytes_eqb name (B "Meta")).
    { change (RStart name a :: q0 ++ [RError]) with ((RStart name a :: q0) ++ [RError]).
      change (RStart name a :: q0 ++ t) with ((RStart name a :: q0) ++ t) in H.
      eapply cut_step; [apply xloc_metadata|apply xstrict_metadata|exact Ht|exact H|intros u; apply Hk|intros u; apply Hk2]. }
    destruct (bytes_eqb name (B "SharedStrings")).
    { change (RStart name a :: q0 ++ [RError]) with ((RStart name a :: q0) ++ [RError]).
      change (RStart name a :: q0 ++ t) with ((RStart name a :: q0) ++ t) in H.
      eapply cut_step; [apply xloc_shared_string_dict|apply xstrict_shared_string_dict|exact Ht|exact H|exact Hk|exact Hk2]. }
    apply xbind_ok in H. destruct H as (? & ? & _ & H). discriminate.
  - apply xbind_ok in H. destruct H as (ev & s2 & Hn & H). apply x_next_ok in Hn. injection Hn as <- <-.
    unfold xbind, x_peek, x_next. destruct (bytes_eqb name (B "roblox")); [|discriminate]. injection H as <- Hq0.
    assert (q0 = []).
    { destruct q0 as [|x q1]; [reflexivity|]. exfalso.
      assert (L : length ((x :: q1) ++ t) = length t) by (rewrite Hq0; reflexivity). rewrite app_length in L. cbn [length] in L. lia. }
    subst q0. reflexivity.
  - exfalso. injection H as _ Hq0.
    assert (L : length (REndDoc :: q0 ++ t) = length t) by (rewrite Hq0; reflexivity). cbn [length] in L. rewrite app_length in L. lia.
Qed.

(* so: when the stream does not continue with EndDocument after c, the cut at c is accepted *)
Lemma deserialize_root_cut c rest st :
  deserialize_root_with dprop e beh (c ++ rest) = Ok (st, rest) -> rest <> [] -> (forall r, rest <> REndDoc :: r) ->
  deserialize_root_with dprop e beh (c ++ [RError]) = Ok (st, [RError]).
Proof.
  intros H Hr Hnd. unfold deserialize_root_with in H |- *.
  apply xbind_ok in H. destruct H as (first & s1 & Hn & H). apply x_next_ok in Hn.
  destruct c as [|ev c1].
  { exfalso. cbn [app] in Hn. destruct first; try discriminate.
    apply xbind_ok in H. destruct H as (a & s2 & Hs & H).
    pose proof (xstrict_expect_start (B "roblox") s1) as St. unfold xstrict_at in St. rewrite Hs in St.
    destruct (attr_last (B "version") a None) as [v|]; [|discriminate]. destruct (bytes_eqb v (B "4")); [|discriminate].
    destruct (root_loop_suffix _ _ _ _ _ H) as [c' Hc']. rewrite Hc', Hn, app_length in St. cbn [length] in St. lia. }
  cbn [app] in Hn. injection Hn as <- <-. destruct ev; try discriminate.
  unfold xbind at 1. cbn [app x_next].
  apply xbind_ok in H. destruct H as (a & s2 & Hs & H).
  destruct (attr_last (B "version") a None) as [v|] eqn:Ev; [|discriminate].
  destruct (bytes_eqb v (B "4")) eqn:E4; [|discriminate].
  destruct (root_loop_suffix _ _ _ _ _ H) as [c2 Hc2].
  assert (Hne : s2 <> rest).
  { intros ->. destruct (root_loop_progress _ _ _ _ H) as [r Hr']. exact (Hnd r Hr'). }
  assert (Hlen : (length rest < length s2)%nat).
  { subst s2. rewrite app_length. destruct c2; [now contradiction Hne|cbn [length]; lia]. }
  destruct (xloc_reverse (x_expect_start (B "roblox")) (x_expect_start (B "roblox")) c1 rest a s2
              (xloc_expect_start _) Hr (xgood_at_safe _ _ (xstrict_good_at _ _ (xstrict_expect_start _ _))) Hs Hlen)
    as (q2 & -> & E).
  unfold xbind. rewrite E, Ev, E4.
  pose proof (xstrict_expect_start (B "roblox") (c1 ++ [RError])) as St. unfold xstrict_at in St. rewrite E in St.
  rewrite !app_length in St. cbn [length] in St.
  eapply root_loop_cut; [|  |exact Hr|exact Hnd|exact H].
  - cbn [length]. rewrite !app_length. destruct rest; [congruence|cbn [length]; lia].
  - cbn [length]. rewrite app_length. cbn [length]. lia.
Qed.
Theorem truncation_with evs st rest :
  deserialize_root_with dprop e beh evs = Ok (st, rest) ->
  exists c, evs = c ++ rest /\ closed_or_enddoc evs rest /\
    (forall k, (k < length c)%nat -> exists code, xml_decode_with dprop e beh (firstn k evs ++ [RError]) = Err code) /\
    (forall k, (length c < k < length evs)%nat ->
       xml_decode_with dprop e beh (firstn k evs ++ [RError]) = xml_decode_with dprop e beh evs) /\
    (rest <> [] ->
       (xml_decode_with dprop e beh (c ++ [RError]) = xml_decode_with dprop e beh evs /\
        forall t, t <> [] -> xml_decode_with dprop e beh (c ++ t) = xml_decode_with dprop e beh evs) \/
       ((exists code, xml_decode_with dprop e beh (c ++ [RError]) = Err code) /\ exists r, rest = REndDoc :: r)).
Proof.
  intros Hok. destruct (proj1 (xloc_deserialize_root dprop e beh Hd_loc) _ _ _ Hok) as [c Hc].
  exists c. split; [exact Hc|]. split; [exact (deserialize_root_shape _ _ _ Hok)|].
  assert (Hlen : length evs = (length c + length rest)%nat) by (rewrite Hc; apply app_length).
  repeat split.
  - intros k Hk. pose proof (truncated_run evs st rest k Hok ltac:(lia)) as T. unfold xml_decode_with.
    destruct (deserialize_root_with dprop e beh (firstn k evs ++ [RError])) as [[a s']| |code|]; try easy; [lia|eauto].
  - intros k Hk. pose proof (truncated_run evs st rest k Hok ltac:(lia)) as T. unfold xml_decode_with. rewrite Hok.
    destruct (deserialize_root_with dprop e beh (firstn k evs ++ [RError])) as [[a s']| |code|]; try easy; [|lia].
    destruct T as [-> _]. reflexivity.
  - intros Hr.
    assert (Hk : (length c < length evs)%nat) by (destruct rest; [congruence|cbn [length] in Hlen; lia]).
    assert (Hacc : forall s', deserialize_root_with dprop e beh (c ++ [RError]) = Ok (st, s') ->
              xml_decode_with dprop e beh (c ++ [RError]) = xml_decode_with dprop e beh evs /\
              forall t, t <> [] -> xml_decode_with dprop e beh (c ++ t) = xml_decode_with dprop e beh evs).
    { intros s' E. split; [unfold xml_decode_with; rewrite E, Hok; reflexivity|].
      intros t Ht. destruct (cut_accepted_ignores_rest c st s' E t Ht) as [q' E'].
      unfold xml_decode_with. rewrite E', Hok. reflexivity. }
    assert (D : (exists r, rest = REndDoc :: r) \/ (forall r, rest <> REndDoc :: r)).
    { destruct rest as [|x r]; [congruence|]. destruct x; try (right; intros r' Hr'; discriminate). left. now exists r. }
    destruct D as [D|D].
    + pose proof (truncated_run evs st rest (length c) Hok Hk) as T.
      assert (Hf : firstn (length c) evs = c) by (rewrite Hc, firstn_app, Nat.sub_diag, firstn_all; cbn; apply app_nil_r).
      rewrite Hf in T.
      destruct (deserialize_root_with dprop e beh (c ++ [RError])) as [[a s']| |code|] eqn:E; try easy.
      * destruct T as [-> _]. left. exact (Hacc s' eq_refl).
      * right. split; [|exact D]. exists code. unfold xml_decode_with. now rewrite E.
    + left. rewrite Hc in Hok. pose proof (deserialize_root_cut c rest st Hok Hr D) as E. rewrite <- Hc in Hok.
      exact (Hacc _ E).
Qed.
End Truncation.

(* B3.  Let xml_decode accept evs.  deserialize_root consumed a prefix c of evs and never looked at the rest (c ends
   with `</roblox>`), or it stopped at EndDocument.  Then
     - EVERY cut strictly inside c, followed by the parser's end-of-input error, is rejected with an error: this is
       "the closing tag makes truncation detectable" -- as long as `</roblox>` has not been delivered the decoder
       cannot return Ok;
     - every cut strictly after c decodes to the same DOM (only events the decoder never reads were lost);
     - the cut exactly at c is accepted with the same DOM, and then the decoder accepts c followed by ANYTHING (it
       stopped at `</roblox>` and never looks further), or it is an error, and then the stream continues with
       EndDocument after c (the decoder stopped because it saw EndDocument; the parser delivers EndDocument only
       after the root element is closed, so a real cut stream carries the parser's error there instead).  Both
       happen: the two examples below. *)
Theorem xml_truncation_rejected e beh evs d : xdb_total (xe_db e) ->
  xml_decode e beh evs = Ok d ->
  exists c rest st,
    evs = c ++ rest /\ deserialize_root e beh evs = Ok (st, rest) /\ closed_or_enddoc evs rest /\
    (forall k, (k < length c)%nat -> exists code, xml_decode e beh (firstn k evs ++ [RError]) = Err code) /\
    (forall k, (length c < k < length evs)%nat -> xml_decode e beh (firstn k evs ++ [RError]) = Ok d) /\
    (rest <> [] ->
       (xml_decode e beh (c ++ [RError]) = Ok d /\ forall t, t <> [] -> xml_decode e beh (c ++ t) = Ok d) \/
       ((exists code, xml_decode e beh (c ++ [RError]) = Err code) /\ exists r, rest = REndDoc :: r)).
Proof.
  intros Hdb Hok.
  assert (Hs : forall class id ty pname st props, xstrict (deserialize_property e beh class id ty pname st props))
    by (intros; apply xstrict_deserialize_property, Hdb).
  assert (Hl : forall class id ty pname st props,
             xloc (deserialize_property e beh class id ty pname st props) (deserialize_property e beh class id ty pname st props))
    by (intros; apply xloc_deserialize_property).
  unfold xml_decode, deserialize_root in *.
  destruct (deserialize_root_with deserialize_property e beh evs) as [[st rest]| | |] eqn:E;
    try (unfold xml_decode_with in Hok; rewrite E in Hok; discriminate).
  destruct (truncation_with deserialize_property e beh Hs Hl evs st rest E) as (c & Hc & Hsh & Ha & Hb & Hcc).
  exists c, rest, st. rewrite <- Hok. repeat split; assumption.
Qed.

(* the same for the reader before 9d6f480a / 8e3b6855 *)
Theorem xml_truncation_rejected_pinned e beh evs d : xdb_total (xe_db e) ->
  xml_decode_pinned e beh evs = Ok d ->
  exists c rest st,
    evs = c ++ rest /\ deserialize_root_with deserialize_property_pinned e beh evs = Ok (st, rest) /\ closed_or_enddoc evs rest /\
    (forall k, (k < length c)%nat -> exists code, xml_decode_pinned e beh (firstn k evs ++ [RError]) = Err code) /\
    (forall k, (length c < k < length evs)%nat -> xml_decode_pinned e beh (firstn k evs ++ [RError]) = Ok d) /\
    (rest <> [] ->
       (xml_decode_pinned e beh (c ++ [RError]) = Ok d /\ forall t, t <> [] -> xml_decode_pinned e beh (c ++ t) = Ok d) \/
       ((exists code, xml_decode_pinned e beh (c ++ [RError]) = Err code) /\ exists r, rest = REndDoc :: r)).
Proof.
  intros Hdb Hok.
  assert (Hs : forall class id ty pname st props, xstrict (deserialize_property_pinned e beh class id ty pname st props))
    by (intros; apply xstrict_deserialize_property_pinned, Hdb).
  assert (Hl : forall class id ty pname st props,
             xloc (deserialize_property_pinned e beh class id ty pname st props) (deserialize_property_pinned e beh class id ty pname st props))
    by (intros; apply xloc_deserialize_property_pinned).
  unfold xml_decode_pinned in *.
  destruct (deserialize_root_with deserialize_property_pinned e beh evs) as [[st rest]| | |] eqn:E;
    try (unfold xml_decode_with in Hok; rewrite E in Hok; discriminate).
  destruct (truncation_with deserialize_property_pinned e beh Hs Hl evs st rest E) as (c & Hc & Hsh & Ha & Hb & Hcc).
  exists c, rest, st. rewrite <- Hok. repeat split; assumption.
Qed.

(* in particular: a stream that is cut anywhere before its `</roblox>` was delivered is never accepted *)
Corollary xml_truncation_not_ok e beh evs d k : xdb_total (xe_db e) ->
  xml_decode e beh evs = Ok d -> (k < length evs)%nat ->
  forall d', xml_decode e beh (firstn k evs ++ [RError]) = Ok d' ->
  d' = d /\ exists c rest, evs = c ++ rest /\ (length c <= k)%nat /\ closed_or_enddoc evs rest.
Proof.
  intros Hdb Hok Hk d' Hd'.
  destruct (xml_truncation_rejected e beh evs d Hdb Hok) as (c & rest & st & Hc & _ & Hsh & Ha & Hb & Hcc).
  destruct (Nat.lt_ge_cases k (length c)) as [Hlt|Hge].
  { destruct (Ha k Hlt) as [code E]. congruence. }
  split; [|exists c, rest; auto].
  destruct (Nat.eq_dec k (length c)) as [->|Hne].
  - assert (Hf : firstn (length c) evs = c) by (rewrite Hc, firstn_app, Nat.sub_diag, firstn_all; cbn; apply app_nil_r).
    rewrite Hf in Hd'. assert (Hr : rest <> []).
    { intros ->. rewrite Hc, app_nil_r in Hk. lia. }
    destruct (Hcc Hr) as [[E _]|[[code E] _]]; congruence.
  - rewrite (Hb k ltac:(lia)) in Hd'. congruence.
Qed.

(* summary: a cut stream is rejected or decodes to the very same DOM -- never to a different one, never a panic *)
Corollary xml_truncation_err_or_same e beh evs d k : xdb_total (xe_db e) ->
  xml_decode e beh evs = Ok d -> (k < length evs)%nat ->
  (exists code, xml_decode e beh (firstn k evs ++ [RError]) = Err code) \/
  xml_decode e beh (firstn k evs ++ [RError]) = Ok d.
Proof.
  intros Hdb Hok Hk.
  destruct (xml_truncation_rejected e beh evs d Hdb Hok) as (c & rest & st & Hc & _ & Hsh & Ha & Hb & Hcc).
  destruct (Nat.lt_ge_cases k (length c)) as [Hlt|Hge]; [left; exact (Ha k Hlt)|].
  destruct (Nat.eq_dec k (length c)) as [->|Hne]; [|right; apply Hb; lia].
  assert (Hf : firstn (length c) evs = c) by (rewrite Hc, firstn_app, Nat.sub_diag, firstn_all; cbn; apply app_nil_r).
  rewrite Hf. assert (Hr : rest <> []) by (intros ->; rewrite Hc, app_nil_r in Hk; lia).
  destruct (Hcc Hr) as [[E _]|[E _]]; [now right|now left].
Qed.

(* what the writer/parser channel delivers starts with StartDocument: decoding it never panics *)
Corollary xml_decode_channel_no_panic e beh w evs : xdb_total (xe_db e) -> channel w = Ok evs ->
  xml_decode e beh evs <> Panic /\ xml_decode e beh evs <> OutOfFuel.
Proof.
  intros Hdb Hch. unfold channel in Hch. destruct w as [|x w']; [discriminate|].
  destruct (forallb wevent_legal (x :: w')); [|discriminate].
  destruct (chan_go [] t0 (x :: w')) as [body| | |]; try discriminate. injection Hch as <-.
  apply xml_decode_no_panic, Hdb.
Qed.

(* ---- examples ---- *)
Definition res_is_err {A} (r : res A) : bool := match r with Err _ => true | _ => false end.
Definition env0 : xenv := env_of (mkDb [] []).

(* B1 on a concrete element *)
Example xml_value_reader_example :
  read_value_xml o_none (B "Vector3int16")
    [RStart (B "Vector3int16") [(B "name", B "V")];
     RStart (B "X") []; RChars (B "1"); REnd (B "X"); RStart (B "Y") []; RChars (B "-2"); REnd (B "Y");
     RStart (B "Z") []; RChars (B "3"); REnd (B "Z"); REnd (B "Vector3int16"); REnd (B "Properties")]
  = Ok (RVal (VVector3int16 1 (-2) 3), [REnd (B "Properties")]).
Proof. vm_compute. reflexivity. Qed.

(* a file written by the model serializer, through the writer/parser channel *)
Definition sample_dom : cdom :=
  [mkInst 1 0 (B "Folder") (B "Top") [(B "Flag", VBool true); (B "Link", VRef 2); (B "Blob", VBinaryString [1; 2; 3])];
   mkInst 2 1 (B "Part") (B " inner ]]> name ") [(B "Count", VInt32 (-7)); (B "Shared", VSharedString [9; 9])]].
Definition env_hash : xenv := mkXE (mkDb [] []) [] [] o_none (fun c => Some (c ++ repeat 0 30)).
Definition sample_events : res (list revent) := w <- xml_encode env_hash EWriteUnknown sample_dom [1] ;; channel w.

(* the hypotheses of xml_truncation_rejected hold for it; every cut before the last event is an error; the cut that
   only loses EndDocument is accepted with the same DOM (c = everything up to `</roblox>`) *)
Example sample_truncation :
  match sample_events with
  | Ok evs =>
      match xml_decode env_hash DReadUnknown evs with
      | Ok d =>
          (Nat.eqb (length evs) 39
           && forallb (fun k => res_is_err (xml_decode env_hash DReadUnknown (firstn k evs ++ [RError]))) (seq 0 (length evs - 1))
           && match xml_decode env_hash DReadUnknown (firstn (length evs - 1) evs ++ [RError]) with
              | Ok d' => Nat.eqb (length d') 2 && Nat.eqb (length d) 2
              | _ => false
              end)%bool
      | _ => false
      end
  | _ => false
  end = true.
Proof. vm_compute. reflexivity. Qed.

(* the two outcomes of the cut exactly at c *)
Definition doc_closed : list revent :=
  [RStartDoc; RStart (B "roblox") [(B "version", B "4")]; REnd (B "roblox"); REndDoc].
Definition doc_unclosed : list revent :=
  [RStartDoc; RStart (B "roblox") [(B "version", B "4")]; REndDoc].
Example cut_at_c_same_dom :
  deserialize_root env0 DIgnoreUnknown doc_closed = Ok (ds0, [REndDoc]) /\
  xml_decode env0 DIgnoreUnknown doc_closed = Ok [] /\
  xml_decode env0 DIgnoreUnknown (firstn 3 doc_closed ++ [RError]) = Ok [].
Proof. repeat split. Qed.
(* the model (like the Rust code) accepts EndDocument inside the root element; the parser never delivers that:
   an unclosed element is a parser error, which is what the cut stream carries *)
Example cut_at_c_error :
  deserialize_root env0 DIgnoreUnknown doc_unclosed = Ok (ds0, [REndDoc]) /\
  xml_decode env0 DIgnoreUnknown doc_unclosed = Ok [] /\
  xml_decode env0 DIgnoreUnknown (firstn 2 doc_unclosed ++ [RError]) = Err DE_XML.
Proof. repeat split. Qed.

(* ========================================================================================== *)
(* 8. B4: xml_encode                                                                            *)
(* ========================================================================================== *)
From RbxVerif Require Import XmlDeterminism BinPostorder.
From Coq Require Import Permutation.
Open Scope N_scope.

(* [rsafeP C r]: r is never OutOfFuel, and a panic has the cause C *)
Definition rsafeP {A} (C : Prop) (r : res A) : Prop := r <> OutOfFuel /\ (r = Panic -> C).

Lemma rsafe_P {A} C (r : res A) : rsafe r -> rsafeP C r.
Proof. intros [H1 H2]. split; [exact H2|]. intros E. now apply H1 in E. Qed.
Lemma rsafeP_mono {A} (C C' : Prop) (r : res A) : (C -> C') -> rsafeP C r -> rsafeP C' r.
Proof. intros H [H1 H2]. split; auto. Qed.
Lemma rsafeP_bind {A X} C (r : res A) (k : A -> res X) : rsafeP C r -> (forall a, rsafeP C (k a)) -> rsafeP C (rbind r k).
Proof.
  intros [H1 H2] Hk. destruct r; cbn [rbind]; try congruence; [apply Hk| |].
  - split; [discriminate|intros _; now apply H2].
  - split; discriminate.
Qed.
Lemma rsafeP_ok {A} C (a : A) : rsafeP C (Ok a). Proof. split; discriminate. Qed.
Lemma rsafeP_err {A} C c : rsafeP C (@Err A c). Proof. split; discriminate. Qed.

(* ---- the value writers ---- *)
Lemma rsafe_concat_res {A} (l : list (res (list A))) : Forall rsafe l -> rsafe (concat_res l).
Proof.
  induction 1 as [|r l Hr Hl IH]; cbn [concat_res]; [apply rsafe_ok|].
  apply rsafe_bind; [exact Hr|intros a]. apply rsafe_bind; [exact IH|intros b; apply rsafe_ok].
Qed.
Lemma rsafe_concat_res_map {A X} (f : X -> res (list A)) l : (forall x, rsafe (f x)) -> rsafe (concat_res (List.map f l)).
Proof. intros H. apply rsafe_concat_res. apply Forall_forall. intros r Hr. apply in_map_iff in Hr. destruct Hr as (x & <- & _). apply H. Qed.

Create HintDb rsafedb.
Ltac rsw1 :=
  lazymatch goal with
  | |- rsafe (Ok _) => apply rsafe_ok
  | |- rsafe (Err _) => apply rsafe_err
  | |- rsafe (ask _) => apply rsafe_ask
  | |- rsafe (rbind _ _) => apply rsafe_bind; [|intros ?]
  | |- rsafe (concat_res (List.map _ _)) => apply rsafe_concat_res_map; intros ?
  | |- rsafe (concat_res _) => apply rsafe_concat_res; repeat (first [apply Forall_cons|apply Forall_nil])
  | |- rsafe (match attr_encode ?m with _ => _ end) =>
      let H1 := fresh "Ha" in let H2 := fresh "Hb" in
      pose proof (attr_encode_no_panic m) as [H1 H2]; destruct (attr_encode m); try congruence
  | |- rsafe (if ?b then _ else _) => destruct b
  | |- rsafe (match ?x with _ => _ end) => destruct x
  | |- rsafe _ => solve [auto with rsafedb nocore]
  end.
Ltac rsw := repeat rsw1.

Lemma rsafe_text_f32 o x : rsafe (text_f32 o x). Proof. unfold text_f32. rsw. Qed.
Lemma rsafe_text_f64 o x : rsafe (text_f64 o x). Proof. unfold text_f64. rsw. Qed.
#[export] Hint Resolve rsafe_text_f32 rsafe_text_f64 : rsafedb.
Lemma rsafe_xw_f32 o x : rsafe (xw_f32 o x). Proof. unfold xw_f32. rsw. Qed.
Lemma rsafe_xw_f64 o x : rsafe (xw_f64 o x). Proof. unfold xw_f64. rsw. Qed.
Lemma rsafe_xw_f32_display o x : rsafe (xw_f32_display o x). Proof. unfold xw_f32_display. rsw. Qed.
#[export] Hint Resolve rsafe_xw_f32 rsafe_xw_f64 rsafe_xw_f32_display : rsafedb.
Lemma rsafe_xw_f32_display_tag o tag x : rsafe (xw_f32_display_tag o tag x). Proof. unfold xw_f32_display_tag. rsw. Qed.
Lemma rsafe_xw_f32_tag o tag x : rsafe (xw_f32_tag o tag x). Proof. unfold xw_f32_tag. rsw. Qed.
#[export] Hint Resolve rsafe_xw_f32_display_tag rsafe_xw_f32_tag : rsafedb.
Lemma rsafe_w_vec3 o v : rsafe (w_vec3 o v). Proof. unfold w_vec3. rsw. Qed.
Lemma rsafe_w_vec2 o v : rsafe (w_vec2 o v). Proof. unfold w_vec2. rsw. Qed.
Lemma rsafe_w_cframe o c : rsafe (w_cframe o c). Proof. unfold w_cframe. rsw. Qed.
#[export] Hint Resolve rsafe_w_vec3 rsafe_w_vec2 rsafe_w_cframe : rsafedb.

Definition no_object (v : value) : bool := match v with VContent (CObject _) => false | _ => true end.
Definition inst_no_object (i : inst) : bool := forallb (fun kv : bytes * value => no_object (snd kv)) (i_props i).
Definition dom_no_object (d : cdom) : bool := forallb inst_no_object d.

Lemma no_object_false v : no_object v = false -> exists r, v = VContent (CObject r).
Proof. destruct v; try discriminate. destruct c; try discriminate. eauto. Qed.

Lemma write_xml_safe o v tag r : write_xml o v = Some (tag, r) -> no_object v = true -> rsafe r.
Proof.
  intros H Hno. destruct v; try match goal with c : content |- _ => destruct c end;
    cbn [write_xml] in H; try discriminate; injection H as <- <-; rsw.
Qed.

Lemma write_value_xml_safe e st pname v : rsafeP (no_object v = false) (write_value_xml e st pname v).
Proof.
  destruct (no_object v) eqn:Hno.
  - apply rsafe_P.
    assert (D : (exists r, v = VRef r) \/ (exists c, v = VSharedString c) \/
                write_value_xml e st pname v =
                match write_xml (xe_o e) v with
                | Some (tag, r) => evs <- r ;; Ok (WStart tag (name_attr pname) :: evs ++ [WEnd], st)
                | None => Err EE_TYPE
                end) by (destruct v; eauto).
    destruct D as [[r ->]|[[c ->]| ->]].
    + cbn [write_value_xml]. destruct (r =? 0); [apply rsafe_ok|]. destruct (map_id st r). apply rsafe_ok.
    + cbn [write_value_xml]. apply rsafe_bind; [apply rsafe_ask|intros; apply rsafe_ok].
    + destruct (write_xml (xe_o e) v) as [[tag r]|] eqn:E; [|apply rsafe_err].
      apply rsafe_bind; [exact (write_xml_safe _ _ _ _ E Hno)|intros; apply rsafe_ok].
  - apply no_object_false in Hno. destruct Hno as [r ->]. cbn. split; [discriminate|reflexivity].
Qed.

Lemma try_convert_no_object o v t w : no_object v = true -> try_convert o v t = Ok w -> no_object w = true.
Proof.
  intros Hno H. destruct v; cbn [try_convert] in H;
  repeat match type of H with
         | (if ?b then _ else _) = _ => destruct b
         | rbind ?r _ = _ => destruct r eqn:?; cbn [rbind] in H
         | (match ?x with _ => _ end) = _ => destruct x eqn:?
         end; try discriminate; try (injection H as <-); try reflexivity; try exact Hno.
Qed.
Lemma migrate_no_object ft bt op v w : migrate ft bt op v = Some w -> no_object w = true.
Proof. intros H. apply migrate_plain in H. destruct w; try reflexivity. destruct c; try reflexivity. discriminate. Qed.

Lemma has_other_key_for_safe e class pname newc keys : xdb_total (xe_db e) -> rsafe (has_other_key_for e class pname newc keys).
Proof.
  intros Hdb. induction keys as [|k r IH]; cbn [has_other_key_for]; [apply rsafe_ok|].
  destruct (bytes_eqb k pname); [exact IH|].
  apply rsafe_bind; [apply find_desc_safe, Hdb|intros [[canon ser]|]]; [|exact IH].
  destruct (String.eqb _ _); [apply rsafe_ok|exact IH].
Qed.
Lemma has_explicit_new_value_safe e class pname to keys : xdb_total (xe_db e) -> rsafe (has_explicit_new_value e class pname to keys).
Proof.
  intros Hdb. unfold has_explicit_new_value. apply rsafe_bind; [apply find_desc_safe, Hdb|intros [[canon ser]|]]; [|apply rsafe_ok].
  apply has_other_key_for_safe, Hdb.
Qed.

Lemma write_value_xml_safe' e st pname v (C : Prop) : (no_object v = false -> C) -> rsafeP C (write_value_xml e st pname v).
Proof. intros H. eapply rsafeP_mono; [exact H|apply write_value_xml_safe]. Qed.

Lemma serialize_property_safe e beh class keys st pname v : xdb_total (xe_db e) ->
  rsafeP (no_object v = false) (serialize_property e beh class keys st pname v).
Proof.
  intros Hdb. unfold serialize_property.
  apply rsafeP_bind. { apply rsafe_P. destruct beh; try apply rsafe_ok; apply find_desc_safe, Hdb. }
  intros [[canon ser]|].
  - pose proof (try_convert_safe (xe_o e) v (dtype_vt (pd_type ser))) as [T1 T2].
    pose proof (try_convert_no_object (xe_o e) v (dtype_vt (pd_type ser))) as Tn.
    destruct (try_convert (xe_o e) v (dtype_vt (pd_type ser))) as [conv| |c|]; try congruence.
    2: { destruct (c =? DE_CONVERT); apply rsafeP_err. }
    cbn [rbind].
    assert (Hc : no_object conv = false -> no_object v = false).
    { intros H. destruct (no_object v); [|reflexivity]. rewrite (Tn conv eq_refl eq_refl) in H. discriminate. }
    destruct (pd_kind ser) as [[| | |to op]|]; try (apply write_value_xml_safe', Hc).
    apply rsafeP_bind; [apply rsafe_P, has_explicit_new_value_safe, Hdb|intros explicit].
    destruct explicit; [apply rsafeP_ok|].
    destruct (migrate _ _ op conv) as [nv|] eqn:M; [|apply write_value_xml_safe', Hc].
    apply write_value_xml_safe'. intros H. rewrite (migrate_no_object _ _ _ _ _ M) in H. discriminate.
  - destruct beh; try apply rsafeP_ok; try apply rsafeP_err; apply write_value_xml_safe.
Qed.
Lemma serialize_property_pinned_safe e beh class keys st pname v : xdb_total (xe_db e) ->
  rsafeP (no_object v = false) (serialize_property_pinned e beh class keys st pname v).
Proof.
  intros Hdb. unfold serialize_property_pinned.
  apply rsafeP_bind. { apply rsafe_P. destruct beh; try apply rsafe_ok; apply find_desc_safe, Hdb. }
  intros [[canon ser]|].
  - pose proof (try_convert_safe (xe_o e) v (dtype_vt (pd_type ser))) as [T1 T2].
    pose proof (try_convert_no_object (xe_o e) v (dtype_vt (pd_type ser))) as Tn.
    destruct (try_convert (xe_o e) v (dtype_vt (pd_type ser))) as [conv| |c|]; try congruence.
    2: { destruct (c =? DE_CONVERT); apply rsafeP_err. }
    cbn [rbind].
    assert (Hc : no_object conv = false -> no_object v = false).
    { intros H. destruct (no_object v); [|reflexivity]. rewrite (Tn conv eq_refl eq_refl) in H. discriminate. }
    destruct (pd_kind ser) as [[| | |to op]|]; try (apply write_value_xml_safe', Hc).
    destruct (migrate _ _ op conv) as [nv|] eqn:M; [|apply write_value_xml_safe', Hc].
    apply write_value_xml_safe'. intros H. rewrite (migrate_no_object _ _ _ _ _ M) in H. discriminate.
  - destruct beh; try apply rsafeP_ok; try apply rsafeP_err; apply write_value_xml_safe.
Qed.

(* ---- trees ---- *)
Lemma tree_ind' (P : tree -> Prop) : (forall r cs, Forall P cs -> P (Node r cs)) -> forall t, P t.
Proof.
  intros H. fix IH 1. intros [r cs]. apply H.
  induction cs as [|c cs IHcs]; constructor; [apply IH|exact IHcs].
Qed.

Lemma size_child r cs c : In c cs -> (size c < size (Node r cs))%nat.
Proof.
  intros Hin. cbn [size]. induction cs as [|x cs IH]; [destruct Hin|]. cbn [fold_right].
  destruct Hin as [->|Hin]; [lia|]. specialize (IH Hin). lia.
Qed.

Lemma find_inst_in d : forall i, In i d -> find_inst d (i_ref i) <> None.
Proof.
  induction d as [|j d IH]; intros i Hin; [destruct Hin|]. cbn [find_inst].
  destruct (N.eqb (i_ref j) (i_ref i)) eqn:E; [discriminate|]. destruct Hin as [->|Hin]; [rewrite N.eqb_refl in E; discriminate|now apply IH].
Qed.
Lemma find_inst_some d r i : find_inst d r = Some i -> In i d /\ i_ref i = r.
Proof.
  induction d as [|j d IH]; cbn [find_inst]; [discriminate|].
  destruct (N.eqb (i_ref j) r) eqn:E; [intros [= ->]; split; [now left|now apply N.eqb_eq]|].
  intros H. destruct (IH H). split; [now right|assumption].
Qed.
Lemma child_in d r c : In c (children_of d r) -> In c (List.map i_ref d).
Proof.
  unfold children_of. intros H. apply in_map_iff in H. destruct H as (i & <- & Hi). apply filter_In in Hi. apply in_map, Hi.
Qed.
Lemma child_found d r c : In c (children_of d r) -> find_inst d c <> None.
Proof.
  unfold children_of. intros H. apply in_map_iff in H. destruct H as (i & <- & Hi). apply filter_In in Hi. apply find_inst_in, Hi.
Qed.

Lemma agrees_refs_in d t : agrees (children_of d) t -> In (root t) (List.map i_ref d) -> incl (refs t) (List.map i_ref d).
Proof.
  induction t as [r cs IH] using tree_ind'. intros Ha Hr. apply agrees_unfold in Ha. destruct Ha as [Hk Hcs].
  cbn [refs root] in *. intros x [<-|Hx]; [exact Hr|].
  apply in_flat_map in Hx. destruct Hx as (c & Hc & Hx).
  rewrite Forall_forall in IH, Hcs. apply (IH c Hc (Hcs c Hc)); [|exact Hx].
  apply (child_in d r). rewrite Hk. now apply in_map.
Qed.

(* depth of a tree; a tree that agrees with a children function is determined by its root, hence no referent occurs
   below itself, hence the referents on a root-to-leaf path are distinct: the depth is bounded by the number of
   instances *)
Fixpoint depth (t : tree) : nat :=
  match t with Node r cs => S (fold_right (fun c n => Nat.max (depth c) n) 0%nat cs) end.
Lemma depth_child r cs c : In c cs -> (depth c < depth (Node r cs))%nat.
Proof.
  intros Hin. cbn [depth]. induction cs as [|x cs IH]; [destruct Hin|]. cbn [fold_right].
  destruct Hin as [->|Hin]; [lia|]. specialize (IH Hin). lia.
Qed.
Lemma fold_max_le (f : tree -> nat) b cs : (forall c, In c cs -> (f c <= b)%nat) ->
  (fold_right (fun c n => Nat.max (f c) n) 0%nat cs <= b)%nat.
Proof.
  induction cs as [|x cs IH]; intros H; cbn [fold_right]; [lia|].
  pose proof (H x (or_introl eq_refl)). specialize (IH (fun c Hc => H c (or_intror Hc))). lia.
Qed.

Section Acyclic.
Variable kids : N -> list N.

Lemma agrees_unique : forall t1 t2, agrees kids t1 -> agrees kids t2 -> root t1 = root t2 -> t1 = t2.
Proof.
  induction t1 as [r cs IH] using tree_ind'. intros [r2 cs2] H1 H2 Hr. cbn [root] in Hr. subst r2.
  apply agrees_unfold in H1. apply agrees_unfold in H2. destruct H1 as [K1 A1]. destruct H2 as [K2 A2]. f_equal.
  rewrite K1 in K2. clear K1. revert cs2 K2 A2.
  induction cs as [|c cs IHcs]; intros [|c2 cs2] K A2; try discriminate; [reflexivity|].
  cbn [List.map] in K. injection K as Kc Kr.
  apply Forall_cons_iff in IH. destruct IH as [IHc IHr].
  apply Forall_cons_iff in A1. destruct A1 as [A1c A1r].
  apply Forall_cons_iff in A2. destruct A2 as [A2c A2r].
  f_equal; [exact (IHc c2 A1c A2c Kc)|exact (IHcs IHr A1r cs2 Kr A2r)].
Qed.

Lemma subtree_at : forall t, agrees kids t -> forall x, In x (refs t) ->
  exists t', agrees kids t' /\ root t' = x /\ (size t' <= size t)%nat.
Proof.
  induction t as [r cs IH] using tree_ind'. intros Ha x Hx. cbn [refs] in Hx. destruct Hx as [<-|Hx].
  - exists (Node r cs). auto.
  - apply in_flat_map in Hx. destruct Hx as (c & Hc & Hx).
    pose proof (proj2 (proj1 (agrees_unfold kids r cs) Ha)) as Hcs. rewrite Forall_forall in IH, Hcs.
    destruct (IH c Hc (Hcs c Hc) x Hx) as (t' & H1 & H2 & H3). exists t'. split; [exact H1|]. split; [exact H2|].
    pose proof (size_child r cs c Hc). lia.
Qed.

Lemma agrees_acyclic r cs c : agrees kids (Node r cs) -> In c cs -> ~ In r (refs c).
Proof.
  intros Ha Hc Hin. pose proof (proj2 (proj1 (agrees_unfold kids r cs) Ha)) as Hcs. rewrite Forall_forall in Hcs.
  destruct (subtree_at c (Hcs c Hc) r Hin) as (t' & H1 & H2 & H3).
  assert (E : t' = Node r cs) by (apply agrees_unique; assumption). subst t'.
  pose proof (size_child r cs c Hc). lia.
Qed.

Lemma depth_bound (D : list N) : forall t, agrees kids t -> forall anc, NoDup anc ->
  (forall x, In x anc -> ~ In x (refs t)) -> incl anc D -> incl (refs t) D ->
  (length anc + depth t <= length D)%nat.
Proof.
  induction t as [r cs IH] using tree_ind'. intros Ha anc Hnd Hdis Hanc Hrefs.
  assert (Hr : In r (refs (Node r cs))) by (cbn [refs]; now left).
  assert (Hnd' : NoDup (r :: anc)) by (constructor; [intros Hin; exact (Hdis r Hin Hr)|exact Hnd]).
  assert (Hinc' : incl (r :: anc) D) by (intros x [<-|Hx]; [apply Hrefs, Hr|apply Hanc, Hx]).
  pose proof (NoDup_incl_length Hnd' Hinc') as Hlen. cbn [length] in Hlen.
  pose proof (proj2 (proj1 (agrees_unfold kids r cs) Ha)) as Hcs. rewrite Forall_forall in IH, Hcs.
  assert (Hb : (fold_right (fun c n => Nat.max (depth c) n) 0%nat cs <= length D - S (length anc))%nat).
  { apply fold_max_le. intros c Hc.
    assert (Hsub : incl (refs c) (refs (Node r cs))).
    { intros x Hx. cbn [refs]. right. apply in_flat_map. exists c. auto. }
    specialize (IH c Hc (Hcs c Hc) (r :: anc) Hnd').
    assert (H1 : forall x, In x (r :: anc) -> ~ In x (refs c)).
    { intros x [<-|Hx]; [exact (agrees_acyclic r cs c Ha Hc)|]. intros Hin. exact (Hdis x Hx (Hsub x Hin)). }
    specialize (IH H1 Hinc' (fun x Hx => Hrefs x (Hsub x Hx))). cbn [length] in IH. lia. }
  cbn [depth]. lia.
Qed.
End Acyclic.

Lemma tree_fits d t : agrees (children_of d) t -> find_inst d (root t) <> None -> (depth t <= length d)%nat.
Proof.
  intros Ha Hf. rewrite <- (map_length i_ref d).
  apply (depth_bound (children_of d) (List.map i_ref d) t Ha [] (NoDup_nil _)); [intros x []|intros x []|].
  apply agrees_refs_in; [exact Ha|]. destruct (find_inst d (root t)) as [i|] eqn:E; [|congruence].
  apply find_inst_some in E. destruct E as [Hi <-]. now apply in_map.
Qed.

(* ---- the recursion ---- *)
Lemma seq_with_safe C F cs : (forall s c, In c cs -> rsafeP C (F s c)) -> forall s, rsafeP C (seq_with F cs s).
Proof.
  induction cs as [|c r IH]; intros H s; cbn [seq_with]; [apply rsafeP_ok|].
  apply rsafeP_bind; [apply H; now left|intros [e1 s1]].
  apply rsafeP_bind; [apply IH; intros; apply H; now right|intros [e2 s2]; apply rsafeP_ok].
Qed.

Lemma dom_no_object_false d i k v : In i d -> In (k, v) (i_props i) -> no_object v = false -> dom_no_object d = false.
Proof.
  intros Hi Hk Hv. destruct (dom_no_object d) eqn:E; [|reflexivity]. unfold dom_no_object in E.
  rewrite forallb_forall in E. specialize (E i Hi). unfold inst_no_object in E. rewrite forallb_forall in E.
  specialize (E (k, v) Hk). cbn [snd] in E. congruence.
Qed.

Section Encode.
Variable sprop : sprop_t.
Variable e : xenv.
Variable beh : ebehavior.
Variable d : cdom.
Hypothesis Hsp : forall class keys st k v, rsafeP (no_object v = false) (sprop e beh class keys st k v).

Lemma serialize_properties_safe class keys (C : Prop) : forall ps st,
  (forall k v, In (k, v) ps -> no_object v = false -> C) ->
  rsafeP C (serialize_properties_with sprop e beh class keys st ps).
Proof.
  induction ps as [|[k v] r IH]; intros st H; cbn [serialize_properties_with]; [apply rsafeP_ok|].
  apply rsafeP_bind; [eapply rsafeP_mono; [apply (H k v); now left|apply Hsp]|intros [ev1 st1]].
  apply rsafeP_bind; [apply IH; intros k' v' Hin; apply (H k' v'); now right|intros [ev2 st2]; apply rsafeP_ok].
Qed.

(* an instance that is in the DOM, with a finite subtree: fuel >= the depth of the subtree suffices, and the only
   panic is a Content::Object property value *)
Lemma serialize_instance_safe : forall fuel t st,
  agrees (children_of d) t -> (depth t <= fuel)%nat -> find_inst d (root t) <> None ->
  rsafeP (dom_no_object d = false) (serialize_instance_with sprop fuel e beh d st (root t)).
Proof.
  induction fuel as [|f IH]; intros [r cs] st Ha Hs Hf; [cbn [depth] in Hs; lia|].
  apply agrees_unfold in Ha. destruct Ha as [Hk Hcs]. cbn [root] in *.
  rewrite serialize_instance_with_S. destruct (find_inst d r) as [i|] eqn:Ei; [|congruence].
  apply find_inst_some in Ei. destruct Ei as [Hi Hr]. destruct (map_id st r) as [mapped st0].
  apply rsafeP_bind; [apply write_value_xml_safe'; discriminate|intros [nev st1]]. cbv zeta.
  apply rsafeP_bind.
  { apply serialize_properties_safe. intros k v Hin Hv.
    apply (dom_no_object_false d i k v Hi); [|exact Hv].
    eapply Permutation_in; [apply bsort_permutation|exact Hin]. }
  intros [pev st2]. apply rsafeP_bind; [|intros [cev st3]; apply rsafeP_ok].
  apply seq_with_safe. intros s c Hc. rewrite Hk in Hc. apply in_map_iff in Hc. destruct Hc as (tc & <- & Htc).
  rewrite Forall_forall in Hcs. apply IH; [apply Hcs, Htc| |].
  - pose proof (depth_child r cs tc Htc). lia.
  - apply (child_found d r). rewrite Hk. now apply in_map.
Qed.

Theorem xml_encode_with_total ts :
  Forall (agrees (children_of d)) ts ->
  rsafeP ((exists t, In t ts /\ find_inst d (root t) = None) \/ dom_no_object d = false)
         (xml_encode_with sprop e beh d (List.map root ts)).
Proof.
  intros Ha. rewrite xml_encode_with_eq. apply rsafeP_bind; [|intros [body st]; apply rsafeP_ok].
  apply seq_with_safe. intros s c Hc. apply in_map_iff in Hc. destruct Hc as (t & <- & Ht).
  rewrite Forall_forall in Ha.
  destruct (find_inst d (root t)) as [i|] eqn:Ei.
  - eapply rsafeP_mono; [intros H; right; exact H|].
    apply serialize_instance_safe; [apply Ha, Ht| |congruence].
    pose proof (tree_fits d t (Ha t Ht)) as Hfit. rewrite Ei in Hfit. specialize (Hfit ltac:(discriminate)). lia.
  - rewrite serialize_instance_with_S, Ei. split; [discriminate|]. intros _. left. exists t. auto.
Qed.
End Encode.

Lemma dom_has_object d : dom_no_object d = false -> exists i k r, In i d /\ In (k, VContent (CObject r)) (i_props i).
Proof.
  intros H. unfold dom_no_object in H.
  assert (E : existsb (fun i => negb (inst_no_object i)) d = true).
  { induction d as [|i d IH]; [discriminate|]. cbn [forallb existsb] in *.
    destruct (inst_no_object i); cbn [negb andb orb] in *; [now apply IH|reflexivity]. }
  apply existsb_exists in E. destruct E as (i & Hi & E). exists i.
  assert (E2 : existsb (fun kv : bytes * value => negb (no_object (snd kv))) (i_props i) = true).
  { unfold inst_no_object in E. induction (i_props i) as [|kv l IH]; [discriminate|]. cbn [forallb existsb] in *.
    destruct (no_object (snd kv)); cbn [negb andb orb] in *; [now apply IH|reflexivity]. }
  apply existsb_exists in E2. destruct E2 as ([k v] & Hk & E2). cbn [snd] in E2.
  destruct (no_object v) eqn:Ev; [discriminate|]. apply no_object_false in Ev. destruct Ev as [r ->]. exists k, r. auto.
Qed.

(* B4.  For a DOM whose chosen subtrees are finite trees read off children_of (i.e. no parent cycle below a root; part
   of BinRoundTrip.input_ok), and a database whose lookups succeed: encode_internal as modelled is never out of fuel
   (a root-to-leaf path has distinct referents, so number of instances + 1 levels suffice), and it panics only when a
   root referent is not in the DOM (`tree.get_by_ref(id).unwrap()`; the children are found by construction) or some
   property value is a Content::Object (the `todo!()`). *)
Theorem xml_encode_total e beh d ts : xdb_total (xe_db e) ->
  Forall (agrees (children_of d)) ts ->
  xml_encode e beh d (List.map root ts) <> OutOfFuel /\
  (xml_encode e beh d (List.map root ts) = Panic ->
     (exists t, In t ts /\ find_inst d (root t) = None) \/
     (exists i k r, In i d /\ In (k, VContent (CObject r)) (i_props i))).
Proof.
  intros Hdb Ha.
  destruct (xml_encode_with_total serialize_property e beh d
              (fun class keys st k v => serialize_property_safe e beh class keys st k v Hdb) ts Ha) as [H1 H2].
  split; [exact H1|]. intros E. destruct (H2 E) as [H|H]; [now left|right; now apply dom_has_object].
Qed.
Theorem xml_encode_pinned_total e beh d ts : xdb_total (xe_db e) ->
  Forall (agrees (children_of d)) ts ->
  xml_encode_pinned e beh d (List.map root ts) <> OutOfFuel /\
  (xml_encode_pinned e beh d (List.map root ts) = Panic ->
     (exists t, In t ts /\ find_inst d (root t) = None) \/
     (exists i k r, In i d /\ In (k, VContent (CObject r)) (i_props i))).
Proof.
  intros Hdb Ha.
  destruct (xml_encode_with_total serialize_property_pinned e beh d
              (fun class keys st k v => serialize_property_pinned_safe e beh class keys st k v Hdb) ts Ha) as [H1 H2].
  split; [exact H1|]. intros E. destruct (H2 E) as [H|H]; [now left|right; now apply dom_has_object].
Qed.

(* the causes are real, and the tree hypothesis is needed *)
Lemma xml_encode_object_panics_refuted :
  xml_encode env0 EWriteUnknown [mkInst 1 0 (B "Folder") (B "F") [(B "C", VContent (CObject 5))]] [1] = Panic.
Proof. vm_compute. reflexivity. Qed.
Lemma xml_encode_missing_root_panics_refuted :
  xml_encode env0 EWriteUnknown [mkInst 1 0 (B "Folder") (B "F") []] [2] = Panic.
Proof. vm_compute. reflexivity. Qed.
(* an instance that is its own parent: children_of never bottoms out, no tree agrees with it *)
Lemma xml_encode_cycle_out_of_fuel_refuted :
  xml_encode env0 EWriteUnknown [mkInst 1 1 (B "Folder") (B "F") []] [1] = OutOfFuel.
Proof. vm_compute. reflexivity. Qed.

Definition sample_tree : tree := Node 1 [Node 2 []].
Example xml_encode_total_example :
  xdb_total (xe_db env_hash) /\ Forall (agrees (children_of sample_dom)) [sample_tree] /\
  List.map root [sample_tree] = [1] /\
  exists w, xml_encode env_hash EWriteUnknown sample_dom [1] = Ok w /\ length w = 36%nat.
Proof.
  split; [exact xdb_total_empty|]. split.
  { repeat constructor. }
  split; [reflexivity|]. eexists. split; [vm_compute; reflexivity|reflexivity].
Qed.
