(* BinStructure.v — structural clauses of property C03 (and the chunk-level part of C01) proved about the
   MODEL OF THE REAL SERIALIZER, Model/BinFile.v `encode_chunks` (rbx_binary/src/serializer/state.rs), for every DOM:
   class table invariant of collect_type_info/add_loop, shape of the chunk list, header counts, one value per
   instance in every PROP chunk, the PRNT arrays (post-order, children before parents), the reader's view of the
   INST/PRNT referent arrays, and the SSTR table. *)
From Coq Require Import List Arith Lia Bool NArith ZArith Permutation Sorted.
From RbxVerif Require Import Base Bytes Value Db CodecDom BinValues BinFile BytesFacts BaseFacts BinValuesFacts BinColumnsFacts BinFileFacts BinPostorder.
Import ListNotations.
Open Scope N_scope.

(* ================================================================ 0. byte-string order, sorted association lists *)
Definition blt (a b : bytes) : Prop := bytes_ltb a b = true.

Lemma blt_irrefl a : ~ blt a a.
Proof. unfold blt. induction a as [|x a IH]; cbn; [discriminate|]. now rewrite N.ltb_irrefl. Qed.

Lemma blt_trans a : forall b c, blt a b -> blt b c -> blt a c.
Proof.
  unfold blt. induction a as [|x a IH]; intros [|y b] [|z c]; cbn; try easy.
  destruct (N.ltb_spec x y), (N.ltb_spec y x), (N.ltb_spec y z), (N.ltb_spec z y), (N.ltb_spec x z), (N.ltb_spec z x);
    try easy; try lia. apply IH.
Qed.

Lemma bytes_ltb_total a : forall b, bytes_ltb a b = false -> bytes_ltb b a = false -> a = b.
Proof.
  induction a as [|x a IH]; intros [|y b]; cbn; try easy.
  destruct (N.ltb_spec x y), (N.ltb_spec y x); try easy. intros H1 H2.
  assert (x = y) by lia. subst y. f_equal. now apply IH.
Qed.

Lemma bytes_eqb_false_neq a b : bytes_eqb a b = false -> a <> b.
Proof. intros H ->. now rewrite bytes_eqb_refl in H. Qed.

Lemma bytes_eqb_neq a b : a <> b -> bytes_eqb a b = false.
Proof. intros H. destruct (bytes_eqb a b) eqn:E; [|reflexivity]. now apply bytes_eqb_eq in E. Qed.

Definition keys_sorted {V} (m : list (bytes * V)) : Prop := StronglySorted blt (List.map fst m).

Lemma sorted_NoDup (l : list bytes) : StronglySorted blt l -> NoDup l.
Proof.
  induction 1 as [|a l Hs IH Hall]; constructor; auto.
  intros Hin. rewrite Forall_forall in Hall. exact (blt_irrefl a (Hall a Hin)).
Qed.

Lemma binsert_perm {V} (kv : bytes * V) l : Permutation (binsert kv l) (kv :: l).
Proof.
  induction l as [|x r IH]; cbn [binsert]; [reflexivity|].
  destruct (bytes_ltb (fst x) (fst kv)); [|reflexivity].
  rewrite IH. apply perm_swap.
Qed.

Lemma bfind_none_neq {V} k (m : list (bytes * V)) : bfind k m = None -> forall k', In k' (List.map fst m) -> k' <> k.
Proof. intros H k' Hin ->. exact (bfind_none_notin _ _ H Hin). Qed.

Lemma binsert_sorted {V} (kv : bytes * V) l :
  keys_sorted l -> bfind (fst kv) l = None -> keys_sorted (binsert kv l).
Proof.
  unfold keys_sorted. induction l as [|x r IH]; intros Hs Hn.
  - cbn. constructor; constructor.
  - cbn [List.map] in Hs. apply StronglySorted_inv in Hs. destruct Hs as [Hs Hall].
    assert (Hx : fst x <> fst kv).
    { apply (bfind_none_neq _ _ Hn). now left. }
    assert (Hn' : bfind (fst kv) r = None).
    { destruct x as [k' v']. cbn [bfind] in Hn. destruct (bytes_eqb (fst kv) k'); [discriminate|exact Hn]. }
    cbn [binsert]. destruct (bytes_ltb (fst x) (fst kv)) eqn:E.
    + cbn [List.map]. constructor; [now apply IH|].
      apply Forall_forall. intros y Hy.
      assert (Hy' : In y (List.map fst (kv :: r))).
      { eapply Permutation_in; [|exact Hy]. apply Permutation_map, binsert_perm. }
      cbn [List.map] in Hy'. destruct Hy' as [<-|Hy']; [exact E|].
      rewrite Forall_forall in Hall. now apply Hall.
    + assert (Hlt : blt (fst kv) (fst x)).
      { unfold blt. destruct (bytes_ltb (fst kv) (fst x)) eqn:E2; [reflexivity|].
        exfalso. apply Hx. now apply bytes_ltb_total. }
      cbn [List.map]. constructor.
      * constructor; assumption.
      * constructor; [exact Hlt|]. rewrite Forall_forall in *. intros y Hy.
        eapply blt_trans; [exact Hlt|now apply Hall].
Qed.

Lemma bfind_binsert_same {V} (k : bytes) (v : V) l : bfind k l = None -> bfind k (binsert (k, v) l) = Some v.
Proof.
  induction l as [|[k' v'] r IH]; intros Hn.
  - cbn. now rewrite bytes_eqb_refl.
  - cbn [bfind] in Hn. destruct (bytes_eqb k k') eqn:E; [discriminate|].
    cbn [binsert fst]. destruct (bytes_ltb k' k).
    + cbn [bfind]. rewrite E. now apply IH.
    + cbn [bfind]. now rewrite bytes_eqb_refl.
Qed.

(* the entry found by bfind, and what bset does to it *)
Lemma bfind_split {V} k (m : list (bytes * V)) v0 :
  bfind k m = Some v0 ->
  exists l1 l2, m = l1 ++ (k, v0) :: l2 /\ ~ In k (List.map fst l1) /\
                forall v, bset k v m = l1 ++ (k, v) :: l2.
Proof.
  induction m as [|[k' v'] r IH]; [discriminate|]. cbn [bfind]. destruct (bytes_eqb k k') eqn:E.
  - intros [= ->]. apply bytes_eqb_eq in E. subst k'. exists [], r. repeat split; auto.
    intros v. cbn [bset]. now rewrite bytes_eqb_refl.
  - intros H. destruct (IH H) as (l1 & l2 & -> & Hni & Hb). exists ((k', v') :: l1), l2. repeat split.
    + cbn [List.map fst]. intros [->|Hin]; [now rewrite bytes_eqb_refl in E|auto].
    + intros v. cbn [bset]. rewrite E, Hb. reflexivity.
Qed.

Lemma bset_keys {V} k (v : V) m : List.map fst (bset k v m) = List.map fst m.
Proof.
  induction m as [|[k' v'] r IH]; [reflexivity|]. cbn [bset]. destruct (bytes_eqb k k') eqn:E.
  - apply bytes_eqb_eq in E. now subst.
  - cbn [List.map]. now rewrite IH.
Qed.

Lemma bset_length {V} k (v : V) m : length (bset k v m) = length m.
Proof. rewrite <- (map_length fst), bset_keys. apply map_length. Qed.

(* ================================================================ 1. collect_type_info: what the property loop leaves alone *)
Definition same_core (ti ti' : type_info) : Prop :=
  ti_id ti' = ti_id ti /\ ti_instances ti' = ti_instances ti /\ ti_service ti' = ti_service ti /\ ti_class ti' = ti_class ti.

Lemma same_core_refl ti : same_core ti ti. Proof. repeat split. Qed.
Lemma same_core_trans a b c : same_core a b -> same_core b c -> same_core a c.
Proof. unfold same_core. intros (?&?&?&?) (?&?&?&?). repeat split; congruence. Qed.

Lemma bmem_In k l : bmem k l = true <-> In k l.
Proof.
  unfold bmem. rewrite existsb_exists. split.
  - intros (x & Hx & E). apply bytes_eqb_eq in E. now subst.
  - intros H. exists k. split; auto. apply bytes_eqb_refl.
Qed.

Definition sstr_ext (ss ss' : list bytes) : Prop := incl ss ss' /\ (NoDup ss -> NoDup ss').

Lemma sstr_ext_refl ss : sstr_ext ss ss. Proof. split; [apply incl_refl|auto]. Qed.
Lemma sstr_ext_trans a b c : sstr_ext a b -> sstr_ext b c -> sstr_ext a c.
Proof. intros [H1 H2] [H3 H4]. split; [eapply incl_tran; eauto|auto]. Qed.


Lemma NoDup_snoc {A} (l : list A) x : NoDup l -> ~ In x l -> NoDup (l ++ [x]).
Proof.
  induction l as [|a l IH]; intros Hnd Hni; cbn.
  - constructor; [intros []|constructor].
  - apply NoDup_cons_iff in Hnd. destruct Hnd as [Ha Hnd]. constructor.
    + intros Hin. apply in_app_or in Hin. destruct Hin as [Hin|[->|[]]]; [auto|]. apply Hni. now left.
    + apply IH; auto. intros Hin. apply Hni. now right.
Qed.

Lemma track_sstr_ext v ss : sstr_ext ss (track_sstr v ss).
Proof.
  destruct v; try apply sstr_ext_refl. cbn [track_sstr].
  destruct (bmem b ss) eqn:E; [apply sstr_ext_refl|]. split.
  - apply incl_appl, incl_refl.
  - intros Hnd. apply NoDup_snoc; auto. intros Hin. apply bmem_In in Hin. congruence.
Qed.

Lemma track_sstr_in s ss : In s (track_sstr (VSharedString s) ss).
Proof.
  cbn [track_sstr]. destruct (bmem s ss) eqn:E; [now apply bmem_In|]. apply in_or_app. right. now left.
Qed.

Lemma cti_prop_core' d class ss ti pv ss' ti' :
  cti_prop d class (ss, ti) pv = Ok (ss', ti') -> same_core ti ti' /\ sstr_ext (track_sstr (snd pv) ss) ss'.
Proof.
  destruct pv as [pname pvalue]. unfold cti_prop. cbn [snd].
  set (ss0 := track_sstr pvalue ss).
  destruct (bmem pname (ti_visited ti)).
  { intros [= <- <-]. split; [apply same_core_refl|apply sstr_ext_refl]. }
  destruct (resolve_prop d class pname pvalue) as [[|canonical serialized ser_ty migration]| | |]; cbn [rbind]; try discriminate.
  { intros [= <- <-]. split; [repeat split|apply sstr_ext_refl]. }
  cbn [ti_props ti_class ti_id ti_service ti_instances ti_visited].
  match goal with |- rbind ?X _ = _ -> _ => destruct X as [[ss1 ti1]| | |] eqn:E1 end; cbn [rbind]; try discriminate.
  assert (H1 : same_core ti ti1 /\ sstr_ext ss0 ss1).
  { destruct (bfind canonical (ti_props ti)).
    - injection E1 as <- <-. split; [repeat split|apply sstr_ext_refl].
    - match type of E1 with rbind ?X _ = _ => destruct X as [dbdef| | |] end; cbn [rbind] in E1; try discriminate.
      match type of E1 with match ?X with _ => _ end = _ => destruct X as [dv|] end; [|discriminate].
      destruct (from_rbx_type ser_ty); [|discriminate].
      injection E1 as <- <-. split; [repeat split|]. apply track_sstr_ext. }
  destruct H1 as [Hc Hs].
  destruct (bytes_eqb pname canonical).
  { intros [= <- <-]. split; assumption. }
  destruct (bfind canonical (ti_props ti1)); [|discriminate].
  intros [= <- <-]. split; [|exact Hs].
  destruct Hc as (?&?&?&?). repeat split; assumption.
Qed.

Lemma cti_prop_core d class ss ti pv ss' ti' :
  cti_prop d class (ss, ti) pv = Ok (ss', ti') -> same_core ti ti' /\ sstr_ext ss ss'.
Proof.
  intros H. apply cti_prop_core' in H. destruct H as [H1 H2]. split; [exact H1|].
  eapply sstr_ext_trans; [apply track_sstr_ext|exact H2].
Qed.

Lemma cti_fold_core d class l : forall ss ti ss' ti',
  fold_res (cti_prop d class) (ss, ti) l = Ok (ss', ti') -> same_core ti ti' /\ sstr_ext ss ss'.
Proof.
  induction l as [|pv l IH]; intros ss ti ss' ti'; cbn [fold_res].
  - intros [= <- <-]. split; [apply same_core_refl|apply sstr_ext_refl].
  - destruct (cti_prop d class (ss, ti) pv) as [[ss1 ti1]| | |] eqn:E; cbn [rbind]; try discriminate.
    intros H. apply cti_prop_core in E. apply IH in H. destruct E, H.
    split; [eapply same_core_trans|eapply sstr_ext_trans]; eauto.
Qed.

(* every SharedString value met by the property loop is in the table afterwards *)
Lemma cti_fold_tracks d class l : forall ss ti ss' ti',
  fold_res (cti_prop d class) (ss, ti) l = Ok (ss', ti') ->
  forall name s, In (name, VSharedString s) l -> In s ss'.
Proof.
  induction l as [|pv l IH]; intros ss ti ss' ti'; cbn [fold_res]; [intros _ name s []|].
  destruct (cti_prop d class (ss, ti) pv) as [[ss1 ti1]| | |] eqn:E; cbn [rbind]; try discriminate.
  intros H name s [->|Hin].
  - apply cti_prop_core' in E. destruct E as [_ [Hincl _]]. cbn [snd] in Hincl.
    apply cti_fold_core in H. destruct H as [_ [Hincl2 _]]. apply Hincl2, Hincl, track_sstr_in.
  - eapply IH; eauto.
Qed.

(* ================================================================ 2. the class table invariant of add_loop *)
Definition class_of (dom : cdom) (r : N) : bytes :=
  match find_inst dom r with Some i => i_class i | None => [] end.
Definition of_class (dom : cdom) (c : bytes) (r : N) : bool := bytes_eqb (class_of dom r) c.
Definition nseq (n : N) : list N := List.map N.of_nat (seq 0 (N.to_nat n)).
Definition type_ids (types : list (bytes * type_info)) : list N := List.map (fun ct => ti_id (snd ct)) types.

Lemma find_inst_some dom r i : find_inst dom r = Some i -> In i dom /\ i_ref i = r.
Proof.
  induction dom as [|x dom IH]; [discriminate|]. cbn [find_inst].
  destruct (N.eqb (i_ref x) r) eqn:E.
  - intros [= <-]. apply N.eqb_eq in E. split; [now left|exact E].
  - intros H. destruct (IH H). split; [now right|assumption].
Qed.

Lemma nseq_succ n : nseq (n + 1) = nseq n ++ [n].
Proof.
  unfold nseq. replace (N.to_nat (n + 1)) with (S (N.to_nat n)) by lia.
  rewrite seq_S, map_app. cbn [List.map Nat.add]. now rewrite N2Nat.id.
Qed.

Lemma nseq_in n k : In k (nseq n) <-> k < n.
Proof.
  unfold nseq. rewrite in_map_iff. split.
  - intros (x & <- & Hx). apply in_seq in Hx. lia.
  - intros H. exists (N.to_nat k). split; [apply N2Nat.id|]. apply in_seq. lia.
Qed.

Lemma nseq_NoDup n : NoDup (nseq n).
Proof.
  unfold nseq. apply FinFun.Injective_map_NoDup; [|apply seq_NoDup].
  intros a b H. now apply Nat2N.inj.
Qed.

Lemma nseq_length n : length (nseq n) = N.to_nat n.
Proof. unfold nseq. now rewrite map_length, seq_length. Qed.

Record types_inv (dom : cdom) (st : ser_state) : Prop := mkTInv {
  inv_sorted : keys_sorted (ss_types st);
  inv_ids : Permutation (type_ids (ss_types st)) (nseq (ss_next_id st));
  inv_insts : forall c ti, In (c, ti) (ss_types st) -> ti_instances ti = filter (of_class dom c) (ss_relevant st);
  inv_nonempty : forall c ti, In (c, ti) (ss_types st) -> ti_instances ti <> [];
  inv_cover : forall r, In r (ss_relevant st) -> In (class_of dom r) (List.map fst (ss_types st));
  inv_sstr : NoDup (ss_sstr st);
  inv_found : forall r, In r (ss_relevant st) -> find_inst dom r <> None
}.

Lemma types_inv0 dom : types_inv dom ser_state0.
Proof.
  constructor; cbn.
  - constructor.
  - constructor.
  - intros c ti [].
  - intros c ti [].
  - intros r [].
  - constructor.
  - intros r [].
Qed.

Lemma filter_snoc {A} (f : A -> bool) l x : filter f (l ++ [x]) = filter f l ++ (if f x then [x] else []).
Proof. rewrite filter_app. reflexivity. Qed.

(* the update of one class entry by a pushed instance *)
Lemma step_core dom rel (types : list (bytes * type_info)) r class ti1 ti' :
  keys_sorted types ->
  (forall c t, In (c, t) types -> ti_instances t = filter (of_class dom c) rel) ->
  (forall c t, In (c, t) types -> c <> class -> ti_instances t <> []) ->
  class_of dom r = class ->
  bfind class types = Some ti1 ->
  ti_id ti' = ti_id ti1 -> ti_instances ti' = ti_instances ti1 ++ [r] ->
  keys_sorted (bset class ti' types) /\
  type_ids (bset class ti' types) = type_ids types /\
  (forall c t, In (c, t) (bset class ti' types) -> ti_instances t = filter (of_class dom c) (rel ++ [r])) /\
  (forall c t, In (c, t) (bset class ti' types) -> ti_instances t <> []) /\
  List.map fst (bset class ti' types) = List.map fst types.
Proof.
  intros Hs Hi Hne Hc Hf Hid Hin.
  destruct (bfind_split _ _ _ Hf) as (l1 & l2 & E & Hn1 & Hb).
  pose proof (sorted_NoDup _ Hs) as Hnd. rewrite E, map_app in Hnd. cbn [List.map fst] in Hnd.
  apply NoDup_remove_2 in Hnd.
  assert (Hother : forall c t, In (c, t) (l1 ++ l2) -> c <> class).
  { intros c t H ->. apply Hnd. rewrite <- map_app. apply in_map_iff. exists (class, t). split; auto. }
  assert (Hold : forall c t, In (c, t) (l1 ++ l2) -> In (c, t) types).
  { intros c t H. rewrite E. apply in_or_app. apply in_app_or in H. destruct H; [now left|right; now right]. }
  rewrite (Hb ti'). split; [|split; [|split; [|split]]].
  - unfold keys_sorted. rewrite <- (Hb ti'), bset_keys. exact Hs.
  - unfold type_ids. rewrite E, !map_app. cbn [List.map snd]. now rewrite Hid.
  - intros c t H. rewrite filter_snoc. unfold of_class at 2. rewrite Hc.
    apply in_app_or in H. destruct H as [H|[H|H]].
    + assert (Hcc : c <> class) by (apply (Hother c t), in_or_app; now left).
      rewrite (bytes_eqb_neq class c) by congruence. rewrite app_nil_r. apply Hi, Hold, in_or_app. now left.
    + injection H as <- <-. rewrite bytes_eqb_refl, Hin. f_equal. apply Hi. rewrite E. apply in_or_app. right. now left.
    + assert (Hcc : c <> class) by (apply (Hother c t), in_or_app; now right).
      rewrite (bytes_eqb_neq class c) by congruence. rewrite app_nil_r. apply Hi, Hold, in_or_app. now right.
  - intros c t H. apply in_app_or in H. destruct H as [H|[H|H]].
    + apply (Hne c t); [apply Hold, in_or_app; now left|apply (Hother c t), in_or_app; now left].
    + injection H as <- <-. rewrite Hin. now destruct (ti_instances ti1).
    + apply (Hne c t); [apply Hold, in_or_app; now right|apply (Hother c t), in_or_app; now right].
  - rewrite <- (Hb ti'). apply bset_keys.
Qed.

Lemma filter_none {A} (f : A -> bool) l : (forall x, In x l -> f x = false) -> filter f l = [].
Proof.
  induction l as [|x l IH]; intros H; [reflexivity|]. cbn [filter].
  rewrite (H x) by now left. apply IH. intros y Hy. apply H. now right.
Qed.

Lemma cti_step d dom st r i st' :
  find_inst dom r = Some i -> types_inv dom st ->
  collect_type_info d (mkSS (ss_relevant st ++ [r]) (ss_types st) (ss_next_id st) (ss_sstr st)) i = Ok st' ->
  types_inv dom st' /\ ss_relevant st' = ss_relevant st ++ [r] /\ sstr_ext (ss_sstr st) (ss_sstr st') /\
  (forall name s, In (name, VSharedString s) (i_props i) -> In s (ss_sstr st')).
Proof.
  intros Hfi [Hs Hids Hi Hne Hcov Hss Hfound] H.
  assert (Hclass : class_of dom r = i_class i) by (unfold class_of; now rewrite Hfi).
  destruct (find_inst_some _ _ _ Hfi) as [_ Hr].
  unfold collect_type_info in H. cbn [ss_types ss_next_id ss_sstr ss_relevant] in H.
  destruct (bfind (i_class i) (ss_types st)) as [ti0|] eqn:Hf.
  - match type of H with rbind ?X _ = _ => destruct X as [[ss2 ti2]| | |] eqn:Ef end; cbn [rbind] in H; try discriminate.
    injection H as <-. cbn [ss_relevant ss_sstr].
    pose proof (cti_fold_tracks _ _ _ _ _ _ _ Ef) as Htr.
    apply cti_fold_core in Ef. destruct Ef as [(Hid2 & Hin2 & _ & _) Hext].
    cbn [ti_id ti_instances] in Hid2, Hin2. rewrite Hr in Hin2.
    destruct (step_core dom (ss_relevant st) (ss_types st) r (i_class i) ti0 ti2 Hs Hi) as (S1 & S2 & S3 & S4 & S5); auto.
    { intros c t Hin _. eapply Hne; eauto. }
    split; [|split; [reflexivity|split; [exact Hext|exact Htr]]].
    constructor; cbn [ss_types ss_next_id ss_relevant ss_sstr]; auto.
    + now rewrite S2.
    + intros x Hx. rewrite S5. apply in_app_or in Hx. destruct Hx as [Hx|[<-|[]]]; [now apply Hcov|].
      rewrite Hclass. apply bfind_in in Hf. apply in_map_iff. exists (i_class i, ti0). split; auto.
    + now apply Hext.
    + intros x Hx. apply in_app_or in Hx. destruct Hx as [Hx|[<-|[]]]; [now apply Hfound|congruence].
  - set (tin := new_type_info d (ss_next_id st) (i_class i)) in *.
    match type of H with rbind ?X _ = _ => destruct X as [[ss2 ti2]| | |] eqn:Ef end; cbn [rbind] in H; try discriminate.
    injection H as <-. cbn [ss_relevant ss_sstr].
    pose proof (cti_fold_tracks _ _ _ _ _ _ _ Ef) as Htr.
    apply cti_fold_core in Ef. destruct Ef as [(Hid2 & Hin2 & _ & _) Hext].
    cbn [ti_id ti_instances] in Hid2, Hin2. rewrite Hr in Hin2.
    set (types1 := binsert (i_class i, tin) (ss_types st)) in *.
    assert (Hs1 : keys_sorted types1) by (apply binsert_sorted; auto).
    assert (Hp1 : Permutation types1 ((i_class i, tin) :: ss_types st)) by apply binsert_perm.
    assert (Hin1 : forall c t, In (c, t) types1 -> (c, t) = (i_class i, tin) \/ In (c, t) (ss_types st)).
    { intros c t Hx. apply (Permutation_in _ Hp1) in Hx. destruct Hx as [Hx|Hx]; [left; now symmetry|now right]. }
    destruct (step_core dom (ss_relevant st) types1 r (i_class i) tin ti2 Hs1) as (S1 & S2 & S3 & S4 & S5); auto.
    { intros c t Hx. destruct (Hin1 c t Hx) as [[= -> ->]|Hx']; [|now apply Hi].
      cbn [tin new_type_info ti_instances]. symmetry. apply filter_none. intros x Hx'.
      unfold of_class. apply bytes_eqb_neq. intros Hcx. apply (bfind_none_notin _ _ Hf). rewrite <- Hcx. now apply Hcov. }
    { intros c t Hx Hc. destruct (Hin1 c t Hx) as [[= -> ->]|Hx']; [congruence|]. eapply Hne; eauto. }
    { now apply bfind_binsert_same. }
    split; [|split; [reflexivity|split; [exact Hext|exact Htr]]].
    constructor; cbn [ss_types ss_next_id ss_relevant ss_sstr]; auto.
    + rewrite S2, nseq_succ. unfold type_ids. rewrite (Permutation_map _ Hp1). cbn [List.map snd tin new_type_info ti_id].
      rewrite <- Permutation_cons_append. now apply perm_skip.
    + intros x Hx. rewrite S5.
      assert (Hk : forall k, In k (i_class i :: List.map fst (ss_types st)) -> In k (List.map fst types1)).
      { intros k Hk. eapply Permutation_in; [symmetry; apply (Permutation_map fst Hp1)|exact Hk]. }
      apply Hk. apply in_app_or in Hx. destruct Hx as [Hx|[<-|[]]]; [right; now apply Hcov|left; now symmetry].
    + now apply Hext.
    + intros x Hx. apply in_app_or in Hx. destruct Hx as [Hx|[<-|[]]]; [now apply Hfound|congruence].
Qed.

Lemma add_loop_inv d dom : forall fuel outer stack lv st st',
  types_inv dom st -> add_loop fuel d dom outer stack lv st = Ok st' ->
  types_inv dom st' /\ sstr_ext (ss_sstr st) (ss_sstr st').
Proof.
  induction fuel as [|f IH]; intros outer stack lv st st' Hinv H; [discriminate|].
  cbn [add_loop] in H. destruct stack as [|x rest].
  { injection H as <-. split; [exact Hinv|apply sstr_ext_refl]. }
  destruct (find_inst dom x) as [inst|] eqn:Hfi; [|discriminate].
  destruct outer; [now apply IH in H|].
  destruct (negb (is_nil (children_of dom x)) && negb (opt_eqb (last_opt (children_of dom x)) lv))%bool; [now apply IH in H|].
  destruct (collect_type_info d _ inst) as [st1| | |] eqn:E; cbn [rbind] in H; try discriminate.
  destruct (cti_step _ _ _ _ _ _ Hfi Hinv E) as (Hinv1 & _ & Hext1 & _).
  destruct (IH _ _ _ _ _ Hinv1 H) as [Hinv' Hext']. split; [exact Hinv'|eapply sstr_ext_trans; eauto].
Qed.

(* ---- shared strings are sorted by a stable insertion sort: a permutation *)
Lemma bsort_perm {V} (l : list (bytes * V)) : Permutation (bsort l) l.
Proof.
  induction l as [|x l IH]; [reflexivity|]. cbn [bsort fold_right]. fold (bsort l).
  rewrite binsert_perm. now apply perm_skip.
Qed.

Lemma sort_sstr_keyed (hash : list (bytes * bytes)) : forall (ss : list bytes) (acc keyed : list (bytes * bytes)),
  fold_res (fun acc s => match bfind s hash with
                         | Some h => Ok (acc ++ [(h, s)])
                         | None => Err E_HASH_ORDER
                         end) acc ss = Ok keyed ->
  List.map snd keyed = List.map snd acc ++ ss.
Proof.
  induction ss as [|s ss IH]; intros acc keyed; cbn [fold_res].
  - intros [= <-]. now rewrite app_nil_r.
  - destruct (bfind s hash) as [h|]; cbn [rbind]; [|discriminate].
    intros H. apply IH in H. rewrite H, map_app, <- app_assoc. reflexivity.
Qed.

Lemma sort_sstr_perm hash ss ss' : sort_sstr hash ss = Ok ss' -> Permutation ss' ss.
Proof.
  unfold sort_sstr.
  match goal with |- rbind ?X _ = _ -> _ => destruct X as [keyed| | |] eqn:E end; cbn [rbind]; try discriminate.
  intros [= <-]. apply sort_sstr_keyed in E. cbn [List.map app] in E. rewrite <- E.
  apply Permutation_map, bsort_perm.
Qed.

(* add_instances = the loop from the empty state, then the sort *)
Lemma add_instances_inv d p dom roots st :
  add_instances d p dom roots = Ok st ->
  exists st0, add_loop (3 * (length dom + 1) * (length roots + 1)) d dom true roots None ser_state0 = Ok st0 /\
              ss_relevant st = ss_relevant st0 /\ ss_types st = ss_types st0 /\ ss_next_id st = ss_next_id st0 /\
              Permutation (ss_sstr st) (ss_sstr st0) /\ types_inv dom st.
Proof.
  unfold add_instances.
  destruct (add_loop _ d dom true roots None ser_state0) as [st0| | |] eqn:E; cbn [rbind]; try discriminate.
  destruct (sort_sstr (ep_hash p) (ss_sstr st0)) as [ss| | |] eqn:Es; cbn [rbind]; try discriminate.
  intros [= <-]. exists st0. cbn [ss_relevant ss_types ss_next_id ss_sstr].
  apply sort_sstr_perm in Es.
  destruct (add_loop_inv _ _ _ _ _ _ _ _ (types_inv0 dom) E) as [[Hs Hids Hi Hne Hcov Hss Hfound] _].
  do 4 (split; [reflexivity|]). split; [exact Es|].
  constructor; cbn [ss_relevant ss_types ss_next_id ss_sstr]; auto.
  eapply Permutation_NoDup; [symmetry; exact Es|exact Hss].
Qed.

(* ---- the instance lists of the classes partition the relevant list *)
Lemma flat_map_ext_in' {A B} (f g : A -> list B) l : (forall x, In x l -> f x = g x) -> flat_map f l = flat_map g l.
Proof.
  induction l as [|x l IH]; intros H; [reflexivity|]. cbn [flat_map].
  rewrite (H x) by now left. f_equal. apply IH. intros y Hy. apply H. now right.
Qed.
Lemma class_partition dom (rel : list N) : forall ks : list bytes,
  NoDup ks -> (forall r, In r rel -> In (class_of dom r) ks) ->
  Permutation (flat_map (fun k => filter (of_class dom k) rel) ks) rel.
Proof.
  induction rel as [|x rel IH]; intros ks Hnd Hcov.
  - induction ks as [|k ks IHk]; [reflexivity|]. cbn. apply IHk. now apply NoDup_cons_iff in Hnd. intros r [].
  - assert (Hin : In (class_of dom x) ks) by (apply Hcov; now left).
    destruct (in_split _ _ Hin) as (k1 & k2 & E). subst ks.
    assert (Hnk : ~ In (class_of dom x) (k1 ++ k2)) by now apply NoDup_remove_2 in Hnd.
    assert (Hoth : forall l, (forall k, In k l -> k <> class_of dom x) ->
              flat_map (fun k => filter (of_class dom k) (x :: rel)) l = flat_map (fun k => filter (of_class dom k) rel) l).
    { intros l Hl. apply flat_map_ext_in'. intros k Hk. cbn [filter]. unfold of_class at 1.
      rewrite bytes_eqb_neq; [reflexivity|]. intros Heq. apply (Hl k Hk). now symmetry. }
    specialize (IH (k1 ++ class_of dom x :: k2) Hnd (fun r Hr => Hcov r (or_intror Hr))).
    rewrite flat_map_app in *. cbn [flat_map] in *.
    rewrite (Hoth k1), (Hoth k2).
    + cbn [filter]. unfold of_class at 2. rewrite bytes_eqb_refl.
      rewrite <- IH at 2. cbn [app]. symmetry. apply Permutation_middle.
    + intros k Hk ->. apply Hnk, in_or_app. now right.
    + intros k Hk ->. apply Hnk, in_or_app. now left.
Qed.

Lemma flat_map_types dom rel (types : list (bytes * type_info)) :
  (forall c ti, In (c, ti) types -> ti_instances ti = filter (of_class dom c) rel) ->
  flat_map (fun ct => ti_instances (snd ct)) types = flat_map (fun k => filter (of_class dom k) rel) (List.map fst types).
Proof.
  induction types as [|[c ti] types IH]; intros H; [reflexivity|]. cbn [flat_map List.map fst snd].
  rewrite (H c ti) by now left. f_equal. apply IH. intros c' t' Hin. apply H. now right.
Qed.

Lemma types_inv_perm dom st : types_inv dom st ->
  Permutation (flat_map (fun ct => ti_instances (snd ct)) (ss_types st)) (ss_relevant st).
Proof.
  intros [Hs Hids Hi Hne Hcov Hss Hfound]. rewrite (flat_map_types dom (ss_relevant st)) by exact Hi.
  apply class_partition; [now apply sorted_NoDup|exact Hcov].
Qed.

Lemma flat_map_length_ge {A B} (f : A -> list B) l : (forall x, In x l -> f x <> []) -> (length l <= length (flat_map f l))%nat.
Proof.
  induction l as [|x l IH]; intros H; [apply le_n|]. cbn [flat_map length]. rewrite app_length.
  assert (f x <> []) by (apply H; now left). destruct (f x); [congruence|]. cbn [length].
  assert (length l <= length (flat_map f l))%nat by (apply IH; intros y Hy; apply H; now right). lia.
Qed.

Lemma types_inv_count dom st : types_inv dom st ->
  (length (ss_types st) <= length (ss_relevant st))%nat /\ ss_next_id st = N.of_nat (length (ss_types st)).
Proof.
  intros Hinv. split.
  - rewrite <- (Permutation_length (types_inv_perm _ _ Hinv)). apply flat_map_length_ge.
    intros [c ti] Hin. cbn [snd]. eapply inv_nonempty; eauto.
  - pose proof (Permutation_length (inv_ids _ _ Hinv)) as H. unfold type_ids in H.
    rewrite map_length, nseq_length in H. lia.
Qed.

(* ================================================================ clause (3): class ids *)
(* the class table after add_instances: keys strictly increasing (BTreeMap order, pairwise distinct), type ids
   exactly 0 .. next-1 (pairwise distinct), each class lists exactly the relevant instances of that class in
   the order of the relevant list, never empty, and all classes together list every relevant instance once *)
Theorem enc_class_ids d p dom roots st :
  add_instances d p dom roots = Ok st ->
  StronglySorted blt (List.map fst (ss_types st)) /\
  NoDup (List.map fst (ss_types st)) /\
  Permutation (type_ids (ss_types st)) (nseq (ss_next_id st)) /\
  NoDup (type_ids (ss_types st)) /\
  ss_next_id st = N.of_nat (length (ss_types st)) /\
  (forall c ti, In (c, ti) (ss_types st) ->
     ti_instances ti = filter (of_class dom c) (ss_relevant st) /\ ti_instances ti <> [] /\ ti_id ti < ss_next_id st) /\
  (forall r, In r (ss_relevant st) -> exists ti, In (class_of dom r, ti) (ss_types st)) /\
  Permutation (flat_map (fun ct => ti_instances (snd ct)) (ss_types st)) (ss_relevant st).
Proof.
  intros H. destruct (add_instances_inv _ _ _ _ _ H) as (st0 & _ & _ & _ & _ & _ & Hinv).
  pose proof Hinv as [Hs Hids Hi Hne Hcov Hss Hfound].
  split; [exact Hs|]. split; [now apply sorted_NoDup|]. split; [exact Hids|].
  split; [eapply Permutation_NoDup; [symmetry; exact Hids|apply nseq_NoDup]|].
  split; [apply (types_inv_count dom _ Hinv)|].
  split; [|split; [|now apply (types_inv_perm dom)]].
  - intros c ti Hin. split; [now apply Hi|]. split; [eapply Hne; eauto|].
    apply nseq_in. eapply Permutation_in; [exact Hids|]. unfold type_ids. apply in_map_iff. exists (c, ti). auto.
  - intros r Hr. apply Hcov in Hr. apply in_map_iff in Hr. destruct Hr as ([c ti] & Hc & Hin). cbn [fst] in Hc. subst c. eauto.
Qed.
Print Assumptions enc_class_ids.

(* ================================================================ 3. encode_chunks taken apart *)
Definition enc_refs (st : ser_state) : list (N * Z) := referent_table 0 (ss_relevant st) [].
Definition enc_ctx_of (p : enc_params) (st : ser_state) : enc_ctx :=
  mkEC (fun r => lookup r (enc_refs st)) (fun s => index_of s (ss_sstr st) 0) (ep_quant p).
Definition enc_header_of (st : ser_state) : bytes :=
  FILE_MAGIC_HEADER ++ FILE_SIGNATURE ++ w_le16 0 ++
  w_le32 (len32 (ss_types st)) ++ w_le32 (len32 (ss_relevant st)) ++ [0; 0; 0; 0; 0; 0; 0; 0].
Definition sstr_payload (l : list bytes) : bytes :=
  w_le32 0 ++ w_le32 (len32 l) ++ flat_map (fun s => [0;0;0;0;0;0;0;0;0;0;0;0;0;0;0;0] ++ w_bstr s) l.
Definition sstr_chunks (st : ser_state) : list (bytes * bytes) :=
  match ss_sstr st with [] => [] | l => [(CH_SSTR, sstr_payload l)] end.
Definition parent_entry (dom : cdom) (refs : list (N * Z)) (r : N) : res Z :=
  match find_inst dom r with
  | None => Panic
  | Some i => Ok (if N.eqb (i_parent i) 0 then (-1)%Z
                  else match lookup (i_parent i) refs with Some z => z | None => (-1)%Z end)
  end.
Definition prnt_payload (n : N) (objs parents : list Z) : bytes :=
  w_u8 0 ++ w_le32 n ++ enc_ref_array objs ++ enc_ref_array parents.

(* the parent column as a function of the relevant list *)
Definition parent_val (dom : cdom) (refs : list (N * Z)) (r : N) : Z :=
  match find_inst dom r with
  | Some i => if N.eqb (i_parent i) 0 then (-1)%Z
              else match lookup (i_parent i) refs with Some z => z | None => (-1)%Z end
  | None => (-1)%Z
  end.
Definition prnt_parents (dom : cdom) (rel : list N) : list Z := List.map (parent_val dom (referent_table 0 rel [])) rel.
Definition prnt_objs (rel : list N) : list Z := List.map Z.of_nat (seq 0 (length rel)).

Lemma parents_explicit dom refs : forall l parents,
  map_res (parent_entry dom refs) l = Ok parents -> parents = List.map (parent_val dom refs) l.
Proof.
  induction l as [|r l IH]; intros parents; cbn [map_res].
  - now intros [= <-].
  - unfold parent_entry at 1. destruct (find_inst dom r) as [i|] eqn:E; cbn [rbind]; [|discriminate].
    destruct (map_res (parent_entry dom refs) l) as [ps| | |]; cbn [rbind]; try discriminate.
    intros [= <-]. cbn [List.map]. f_equal; [|now apply IH]. unfold parent_val. now rewrite E.
Qed.

Lemma encode_chunks_inv d p dom roots e :
  encode_chunks d p dom roots = Ok e ->
  exists st insts props objs parents,
    add_instances d p dom roots = Ok st /\
    (Z.of_nat (length (ss_relevant st)) <= 2147483647)%Z /\
    map_res (inst_chunk (enc_refs st)) (ss_types st) = Ok insts /\
    map_res (fun ct => map_res (prop_chunk p dom (enc_ctx_of p st) (snd ct)) (ti_props (snd ct))) (ss_types st) = Ok props /\
    map_res (to_ref (enc_refs st)) (ss_relevant st) = Ok objs /\
    map_res (parent_entry dom (enc_refs st)) (ss_relevant st) = Ok parents /\
    e = mkEnc (enc_header_of st)
              (sstr_chunks st ++ insts ++ concat props ++ [(CH_PRNT, prnt_payload (len32 (ss_relevant st)) objs parents)]).
Proof.
  unfold encode_chunks.
  destruct (add_instances d p dom roots) as [st| | |] eqn:Est; cbn [rbind]; try discriminate.
  destruct (Z.ltb 2147483647 (Z.of_nat (length (ss_relevant st)))) eqn:Elen; cbn [rbind]; try discriminate.
  fold (enc_refs st). fold (enc_ctx_of p st).
  destruct (map_res (inst_chunk (enc_refs st)) (ss_types st)) as [insts| | |] eqn:Ei; cbn [rbind]; try discriminate.
  match goal with |- rbind ?X _ = _ -> _ => destruct X as [props| | |] eqn:Ep end; cbn [rbind]; try discriminate.
  destruct (map_res (to_ref (enc_refs st)) (ss_relevant st)) as [objs| | |] eqn:Eo; cbn [rbind]; try discriminate.
  match goal with |- rbind ?X _ = _ -> _ => destruct X as [parents| | |] eqn:Epa end; cbn [rbind]; try discriminate.
  intros [= <-]. exists st, insts, props, objs, parents.
  split; [reflexivity|]. split; [apply Z.ltb_ge in Elen; exact Elen|].
  split; [exact Ei|]. split; [exact Ep|]. split; [exact Eo|]. split; [exact Epa|].
  reflexivity.
Qed.

(* ================================================================ 4. post-order lists: children before parents *)
Lemma tree_ind' (P : tree -> Prop) : (forall r cs, Forall P cs -> P (Node r cs)) -> forall t, P t.
Proof.
  intros H. fix IH 1. intros [r cs]. apply H. revert cs. fix IHcs 1. intros [|c cs].
  - constructor.
  - constructor; [apply IH|apply IHcs].
Qed.

Definition inner (t : tree) : list N := flat_map refs (subs t).

Lemma refs_unfold t : refs t = root t :: inner t.
Proof. destruct t; reflexivity. Qed.

Lemma post_unfold t : post t = flat_map post (subs t) ++ [root t].
Proof. destruct t; reflexivity. Qed.

Lemma in_root_post t : In (root t) (post t).
Proof. rewrite post_unfold. apply in_or_app. right. now left. Qed.

Lemma post_perm_refs : forall t, Permutation (post t) (refs t).
Proof.
  apply tree_ind'. intros r cs IH. cbn [post refs].
  rewrite <- Permutation_cons_append. apply perm_skip.
  induction IH as [|c cs Hc _ IHcs]; [reflexivity|]. cbn [flat_map]. now apply Permutation_app.
Qed.

Lemma post_perm_refs_forest ts : Permutation (flat_map post ts) (flat_map refs ts).
Proof.
  induction ts as [|t ts IH]; [reflexivity|]. cbn [flat_map]. apply Permutation_app; [apply post_perm_refs|exact IH].
Qed.

(* [r] occurs strictly before [p] in [l] *)
Definition before {A} (r p : A) (l : list A) : Prop := exists l1 l2 l3, l = l1 ++ r :: l2 ++ p :: l3.

Lemma before_app {A} (r p : A) a l b : before r p l -> before r p (a ++ l ++ b).
Proof.
  intros (l1 & l2 & l3 & ->). exists (a ++ l1), l2, (l3 ++ b).
  rewrite <- !app_assoc. cbn [app]. rewrite <- !app_assoc. reflexivity.
Qed.

Lemma flat_map_split {A B} (f : A -> list B) l1 x l2 : flat_map f (l1 ++ x :: l2) = flat_map f l1 ++ f x ++ flat_map f l2.
Proof. rewrite flat_map_app. reflexivity. Qed.

Lemma before_nth {A} (r p : A) l k j :
  NoDup l -> before r p l -> nth_error l k = Some r -> nth_error l j = Some p -> (k < j)%nat.
Proof.
  intros Hnd (l1 & l2 & l3 & ->) Hk Hj.
  assert (Hk' : nth_error (l1 ++ r :: l2 ++ p :: l3) (length l1) = Some r).
  { rewrite nth_error_app2 by lia. now rewrite Nat.sub_diag. }
  assert (Hj' : nth_error (l1 ++ r :: l2 ++ p :: l3) (length l1 + S (length l2)) = Some p).
  { rewrite nth_error_app2 by lia. replace (length l1 + S (length l2) - length l1)%nat with (S (length l2)) by lia.
    cbn [nth_error]. rewrite nth_error_app2 by lia. now rewrite Nat.sub_diag. }
  rewrite NoDup_nth_error in Hnd.
  assert (k = length l1).
  { apply Hnd; [apply nth_error_Some; congruence|congruence]. }
  assert (j = (length l1 + S (length l2))%nat).
  { apply Hnd; [apply nth_error_Some; congruence|congruence]. }
  lia.
Qed.

Section Trees.
Variable kids : N -> list N.

(* a child of a listed node is listed before it *)
Lemma before_tree : forall t, agrees kids t -> forall p r, In p (post t) -> In r (kids p) -> before r p (post t).
Proof.
  apply (tree_ind' (fun t => agrees kids t -> forall p r, In p (post t) -> In r (kids p) -> before r p (post t))).
  intros q cs IH Hag p r Hp Hr. apply agrees_unfold in Hag. destruct Hag as [Hk Hcs].
  cbn [post] in *. apply in_app_or in Hp. destruct Hp as [Hp|[<-|[]]].
  - apply in_flat_map in Hp. destruct Hp as (c & Hc & Hpc).
    rewrite Forall_forall in IH, Hcs. pose proof (IH c Hc (Hcs c Hc) p r Hpc Hr) as Hb.
    destruct (in_split _ _ Hc) as (c1 & c2 & ->). rewrite flat_map_split, <- !app_assoc.
    apply before_app. exact Hb.
  - rewrite Hk in Hr. apply in_map_iff in Hr. destruct Hr as (c & <- & Hc).
    assert (Hin : In (root c) (flat_map post cs)) by (apply in_flat_map; exists c; split; [exact Hc|apply in_root_post]).
    destruct (in_split _ _ Hin) as (a & b & ->). exists a, b, []. now rewrite <- app_assoc.
Qed.

Lemma before_forest ts p r :
  Forall (agrees kids) ts -> In p (flat_map post ts) -> In r (kids p) -> before r p (flat_map post ts).
Proof.
  intros Hag Hp Hr. apply in_flat_map in Hp. destruct Hp as (t & Ht & Hpt).
  rewrite Forall_forall in Hag. pose proof (before_tree t (Hag t Ht) p r Hpt Hr) as Hb.
  destruct (in_split _ _ Ht) as (t1 & t2 & ->). rewrite flat_map_split. now apply before_app.
Qed.

(* a child of a listed node is a non-root node of that tree *)
Lemma child_inner : forall t, agrees kids t -> forall p r, In p (refs t) -> In r (kids p) -> In r (inner t).
Proof.
  apply (tree_ind' (fun t => agrees kids t -> forall p r, In p (refs t) -> In r (kids p) -> In r (inner t))).
  intros q cs IH Hag p r Hp Hr. apply agrees_unfold in Hag. destruct Hag as [Hk Hcs].
  unfold inner. cbn [subs refs] in *. destruct Hp as [<-|Hp].
  - rewrite Hk in Hr. apply in_map_iff in Hr. destruct Hr as (c & <- & Hc).
    apply in_flat_map. exists c. split; [exact Hc|apply in_root_refs].
  - apply in_flat_map in Hp. destruct Hp as (c & Hc & Hpc).
    rewrite Forall_forall in IH, Hcs. pose proof (IH c Hc (Hcs c Hc) p r Hpc Hr) as Hi.
    apply in_flat_map. exists c. split; [exact Hc|]. rewrite refs_unfold. now right.
Qed.

(* so, in a duplicate free forest, no chosen root is a child of a listed node *)
Lemma root_not_child ts t p :
  Forall (agrees kids) ts -> NoDup (flat_map refs ts) -> In t ts -> In p (flat_map refs ts) -> ~ In (root t) (kids p).
Proof.
  intros Hag Hnd Ht Hp Hr.
  apply in_flat_map in Hp. destruct Hp as (t' & Ht' & Hpt').
  rewrite Forall_forall in Hag. pose proof (child_inner t' (Hag t' Ht') p (root t) Hpt' Hr) as Hi.
  destruct (in_split _ _ Ht) as (t1 & t2 & ->).
  rewrite flat_map_split, refs_unfold in Hnd. cbn [app] in Hnd. apply NoDup_remove_2 in Hnd.
  apply Hnd. apply in_app_or in Ht'. destruct Ht' as [Ht'|[<-|Ht']].
  - apply in_or_app. left. apply in_flat_map. exists t'. split; [exact Ht'|]. rewrite refs_unfold. now right.
  - apply in_or_app. right. apply in_or_app. now left.
  - apply in_or_app. right. apply in_or_app. right. apply in_flat_map. exists t'. split; [exact Ht'|].
    rewrite refs_unfold. now right.
Qed.
End Trees.

(* the link between an instance's parent field and children_of *)
Lemma parent_child dom r i : find_inst dom r = Some i -> In r (children_of dom (i_parent i)).
Proof.
  intros H. destruct (find_inst_some _ _ _ H) as [Hin Hr]. unfold children_of.
  apply in_map_iff. exists i. split; [exact Hr|]. apply filter_In. split; [exact Hin|apply N.eqb_refl].
Qed.

(* generate_referents numbers the relevant list 0, 1, 2, ... *)
Lemma referent_table_notin r : forall l next acc, ~ In r l -> lookup r (referent_table next l acc) = lookup r acc.
Proof.
  induction l as [|x l IH]; intros next acc Hni; [reflexivity|]. cbn [referent_table].
  rewrite IH by (intros H; apply Hni; now right). cbn [lookup].
  destruct (N.eqb_spec r x) as [->|]; [|reflexivity]. exfalso. apply Hni. now left.
Qed.

Lemma referent_table_nth r : forall l next acc k, NoDup l -> nth_error l k = Some r ->
  lookup r (referent_table next l acc) = Some (next + Z.of_nat k)%Z.
Proof.
  induction l as [|x l IH]; intros next acc k Hnd Hk; [destruct k; discriminate|].
  apply NoDup_cons_iff in Hnd. destruct Hnd as [Hx Hnd]. cbn [referent_table]. destruct k as [|k].
  - cbn [nth_error] in Hk. injection Hk as ->. rewrite referent_table_notin by exact Hx.
    cbn [lookup]. rewrite N.eqb_refl. f_equal. lia.
  - cbn [nth_error] in Hk. rewrite (IH _ _ k Hnd Hk). f_equal. lia.
Qed.

(* map_res as a relation *)
Lemma map_res_Forall2 {A B} (f : A -> res B) : forall l l', map_res f l = Ok l' -> Forall2 (fun x y => f x = Ok y) l l'.
Proof.
  induction l as [|x l IH]; intros l'; cbn [map_res].
  - intros [= <-]. constructor.
  - destruct (f x) as [y| | |] eqn:E; cbn [rbind]; try discriminate.
    destruct (map_res f l) as [r| | |]; cbn [rbind]; try discriminate.
    intros [= <-]. constructor; [exact E|now apply IH].
Qed.

Lemma Forall2_nth {A B} (R : A -> B -> Prop) l l' : Forall2 R l l' ->
  forall k x, nth_error l k = Some x -> exists y, nth_error l' k = Some y /\ R x y.
Proof.
  induction 1 as [|a b l l' Hab _ IH]; intros k x Hk; [destruct k; discriminate|].
  destruct k as [|k]; cbn [nth_error] in *.
  - injection Hk as <-. eauto.
  - now apply IH.
Qed.

Lemma Forall2_length' {A B} (R : A -> B -> Prop) l l' : Forall2 R l l' -> length l = length l'.
Proof. induction 1; cbn; congruence. Qed.

(* ================================================================ clause (5): the PRNT chunk *)
Lemma map_res_seq {A B} (f : A -> res B) (g : nat -> B) : forall l s,
  (forall k x, nth_error l k = Some x -> f x = Ok (g (s + k)%nat)) ->
  map_res f l = Ok (List.map g (seq s (length l))).
Proof.
  induction l as [|x l IH]; intros s H; [reflexivity|]. cbn [map_res length seq List.map].
  rewrite (H 0%nat x eq_refl), Nat.add_0_r. cbn [rbind]. rewrite (IH (S s)); [reflexivity|].
  intros k y Hk. rewrite (H (S k) y Hk). f_equal. f_equal. lia.
Qed.

Lemma objs_numbering rel objs : NoDup rel ->
  map_res (to_ref (referent_table 0 rel [])) rel = Ok objs -> objs = List.map Z.of_nat (seq 0 (length rel)).
Proof.
  intros Hnd H. rewrite (map_res_seq _ Z.of_nat rel 0%nat) in H; [now injection H as <-|].
  intros k x Hk. unfold to_ref. rewrite (referent_table_nth x rel 0%Z [] k Hnd Hk). reflexivity.
Qed.

Lemma parents_spec dom rel parents : NoDup rel ->
  map_res (parent_entry dom (referent_table 0 rel [])) rel = Ok parents ->
  length parents = length rel /\
  forall k r, nth_error rel k = Some r -> exists i, find_inst dom r = Some i /\
    (i_parent i = 0 \/ ~ In (i_parent i) rel -> nth_error parents k = Some (-1)%Z) /\
    (forall j, i_parent i <> 0 -> nth_error rel j = Some (i_parent i) -> nth_error parents k = Some (Z.of_nat j)).
Proof.
  intros Hnd H. apply map_res_Forall2 in H. split; [symmetry; eapply Forall2_length'; eauto|].
  intros k r Hk. destruct (Forall2_nth _ _ _ H k r Hk) as (z & Hz & Hpe).
  unfold parent_entry in Hpe. destruct (find_inst dom r) as [i|]; [|discriminate]. injection Hpe as <-.
  exists i. split; [reflexivity|]. split.
  - intros [H0|Hni].
    + rewrite H0 in Hz. exact Hz.
    + rewrite referent_table_notin in Hz by exact Hni. cbn [lookup] in Hz. now destruct (N.eqb (i_parent i) 0).
  - intros j H0 Hj. apply N.eqb_neq in H0. rewrite H0 in Hz.
    rewrite (referent_table_nth _ _ 0%Z [] j Hnd Hj) in Hz. exact Hz.
Qed.

(* relevant_instances is the post-order of the chosen subtrees *)
Lemma enc_relevant_postorder d p dom ts st :
  Forall (agrees (children_of dom)) ts -> NoDup (flat_map refs ts) ->
  add_instances d p dom (List.map root ts) = Ok st ->
  ss_relevant st = flat_map post ts /\ NoDup (ss_relevant st).
Proof.
  intros Hag Hnd H. destruct (add_instances_inv _ _ _ _ _ H) as (st0 & Hl & Hr & _).
  apply (add_loop_postorder _ _ _ _ _ _ Hag Hnd) in Hl. cbn [ser_state0 ss_relevant app] in Hl.
  rewrite Hr, Hl. split; [reflexivity|].
  eapply Permutation_NoDup; [symmetry; apply post_perm_refs_forest|exact Hnd].
Qed.

Theorem enc_prnt d p dom ts e :
  Forall (agrees (children_of dom)) ts -> NoDup (flat_map refs ts) ->
  encode_chunks d p dom (List.map root ts) = Ok e ->
  let rel := flat_map post ts in
  let parents := prnt_parents dom rel in
  exists front,
    en_chunks e = front ++ [(CH_PRNT, prnt_payload (N.of_nat (length rel)) (prnt_objs rel) parents)] /\
    NoDup rel /\ length parents = length rel /\ (Z.of_nat (length rel) <= 2147483647)%Z /\
    forall k r, nth_error rel k = Some r ->
      exists i, find_inst dom r = Some i /\ i_ref i = r /\
        (* the parent is written too: the entry is its position, and that position is later *)
        (forall j, i_parent i <> 0 -> nth_error rel j = Some (i_parent i) ->
                   nth_error parents k = Some (Z.of_nat j) /\ (k < j)%nat) /\
        (* the parent is not written *)
        (i_parent i = 0 \/ ~ In (i_parent i) rel -> nth_error parents k = Some (-1)%Z) /\
        (* a chosen root *)
        (In r (List.map root ts) -> nth_error parents k = Some (-1)%Z).
Proof.
  intros Hag Hnd H rel parents0.
  destruct (encode_chunks_inv _ _ _ _ _ H) as (st & insts & props & objs & parents & Hst & Hlen & _ & _ & Ho & Hpa & ->).
  destruct (enc_relevant_postorder _ _ _ _ _ Hag Hnd Hst) as [Hrel Hndr].
  unfold enc_refs in *. rewrite Hrel in *. fold rel in Ho, Hpa, Hlen, Hndr |- *.
  apply objs_numbering in Ho; [|exact Hndr]. subst objs.
  destruct (parents_spec _ _ _ Hndr Hpa) as [Hpl Hps].
  apply parents_explicit in Hpa. fold (prnt_parents dom rel) in Hpa. fold parents0 in Hpa. subst parents.
  exists (sstr_chunks st ++ insts ++ concat props). cbn [en_chunks].
  split.
  { rewrite <- !app_assoc. repeat f_equal. apply len32_small. change (2 ^ 32) with 4294967296. lia. }
  split; [exact Hndr|]. split; [exact Hpl|]. split; [exact Hlen|].
  intros k r Hk. destruct (Hps k r Hk) as (i & Hfi & Hnone & Hsome).
  exists i. split; [exact Hfi|]. split; [apply (find_inst_some _ _ _ Hfi)|].
  pose proof (parent_child _ _ _ Hfi) as Hchild.
  split; [|split; [exact Hnone|]].
  - intros j H0 Hj. split; [now apply Hsome|].
    apply (before_nth r (i_parent i) rel k j Hndr); auto.
    apply (before_forest (children_of dom)); auto. eapply nth_error_In; eauto.
  - intros Hroot. apply Hnone. destruct (N.eq_dec (i_parent i) 0) as [H0|H0]; [now left|right].
    intros Hin. apply in_map_iff in Hroot. destruct Hroot as (t & <- & Ht).
    apply (root_not_child (children_of dom) ts t (i_parent i) Hag Hnd Ht); [|exact Hchild].
    eapply Permutation_in; [apply post_perm_refs_forest|exact Hin].
Qed.
Print Assumptions enc_prnt.

(* ================================================================ clauses (1), (2): chunk list and header *)
Definition inst_payload (cname : bytes) (ti : type_info) (ids : list Z) : bytes :=
  w_le32 (ti_id ti) ++ w_bstr cname ++ w_bool (ti_service ti) ++ w_le32 (len32 (ti_instances ti)) ++
  enc_ref_array ids ++ (if ti_service ti then List.map (fun _ => 1) (ti_instances ti) else []).

(* the INST chunk of one class: its name, and the referents of its instances *)
Definition inst_chunk_of (refs : list (N * Z)) (ct : bytes * type_info) (ch : bytes * bytes) : Prop :=
  exists ids, map_res (to_ref refs) (ti_instances (snd ct)) = Ok ids /\ ch = (CH_INST, inst_payload (fst ct) (snd ct) ids).

Lemma inst_chunk_inv refs ct ch : inst_chunk refs ct = Ok ch -> inst_chunk_of refs ct ch.
Proof.
  destruct ct as [cname ti]. unfold inst_chunk, inst_chunk_of. cbn [fst snd].
  destruct (map_res (to_ref refs) (ti_instances ti)) as [ids| | |]; cbn [rbind]; try discriminate.
  intros [= <-]. exists ids. split; reflexivity.
Qed.

Lemma Forall2_impl' {A B} (R R' : A -> B -> Prop) l l' : (forall a b, R a b -> R' a b) -> Forall2 R l l' -> Forall2 R' l l'.
Proof. intros H. induction 1; constructor; auto. Qed.

Lemma Forall2_Forall_r {A B} (R : A -> B -> Prop) (P : B -> Prop) l l' :
  (forall a b, R a b -> P b) -> Forall2 R l l' -> Forall P l'.
Proof. intros H. induction 1; constructor; eauto. Qed.

Lemma prop_chunk_name p dom ctx ti cp ch : prop_chunk p dom ctx ti cp = Ok ch -> fst ch = CH_PROP.
Proof.
  destruct cp as [canon pi]. unfold prop_chunk.
  destruct (negb (is_perm _ _)); [discriminate|].
  match goal with |- rbind ?X _ = _ -> _ => destruct X as [insts| | |] end; cbn [rbind]; try discriminate.
  match goal with |- rbind ?X _ = _ -> _ => destruct X as [col| | |] end; cbn [rbind]; try discriminate.
  now intros [= <-].
Qed.

Lemma Forall_concat {A} (P : A -> Prop) (ll : list (list A)) : Forall (Forall P) ll -> Forall P (concat ll).
Proof. induction 1; cbn [concat]; [constructor|]. apply Forall_app. split; assumption. Qed.

Definition chunk_name_ok (ch : bytes * bytes) : Prop := length (fst ch) = 4%nat /\ fst ch <> CH_END.

Theorem enc_shape d p dom roots e :
  encode_chunks d p dom roots = Ok e ->
  exists st insts props objs parents,
    add_instances d p dom roots = Ok st /\
    en_chunks e = sstr_chunks st ++ insts ++ props ++ [(CH_PRNT, prnt_payload (N.of_nat (length objs)) objs parents)] /\
    (* at most one SSTR chunk, present exactly when a SharedString was met *)
    (ss_sstr st = [] /\ sstr_chunks st = [] \/ ss_sstr st <> [] /\ sstr_chunks st = [(CH_SSTR, sstr_payload (ss_sstr st))]) /\
    (* one INST chunk per entry of the class table, in the table's order *)
    Forall2 (inst_chunk_of (enc_refs st)) (ss_types st) insts /\
    Forall (fun ch => fst ch = CH_INST) insts /\ length insts = length (ss_types st) /\
    Forall (fun ch => fst ch = CH_PROP) props /\
    (* the arrays of the PRNT chunk have one entry per relevant instance *)
    length objs = length (ss_relevant st) /\ length parents = length (ss_relevant st) /\
    Forall chunk_name_ok (en_chunks e).
Proof.
  intros H.
  destruct (encode_chunks_inv _ _ _ _ _ H) as (st & insts & props & objs & parents & Hst & Hlen & Hi & Hp & Ho & Hpa & ->).
  apply map_res_Forall2 in Hi, Hp, Ho, Hpa.
  pose proof (Forall2_length' _ _ _ Ho) as Hlo. pose proof (Forall2_length' _ _ _ Hpa) as Hlp.
  assert (Hi2 : Forall2 (inst_chunk_of (enc_refs st)) (ss_types st) insts).
  { eapply Forall2_impl'; [|exact Hi]. intros a b. apply inst_chunk_inv. }
  assert (Hin : Forall (fun ch => fst ch = CH_INST) insts).
  { eapply Forall2_Forall_r; [|exact Hi2]. intros a b (ids & _ & ->). reflexivity. }
  assert (Hpn : Forall (fun ch => fst ch = CH_PROP) (concat props)).
  { apply Forall_concat. eapply Forall2_Forall_r; [|exact Hp]. intros ct chs Hc. cbn beta in Hc.
    apply map_res_Forall2 in Hc. eapply Forall2_Forall_r; [|exact Hc]. intros cp ch. apply prop_chunk_name. }
  assert (Hss : ss_sstr st = [] /\ sstr_chunks st = [] \/ ss_sstr st <> [] /\ sstr_chunks st = [(CH_SSTR, sstr_payload (ss_sstr st))]).
  { unfold sstr_chunks. destruct (ss_sstr st); [left; split; reflexivity|right; split; [discriminate|reflexivity]]. }
  exists st, insts, (concat props), objs, parents. cbn [en_chunks].
  split; [exact Hst|]. split.
  { repeat f_equal. rewrite <- Hlo. apply len32_small. change (2 ^ 32) with 4294967296. lia. }
  split; [exact Hss|]. split; [exact Hi2|]. split; [exact Hin|].
  split; [symmetry; eapply Forall2_length'; eauto|]. split; [exact Hpn|].
  split; [now symmetry|]. split; [now symmetry|].
  apply Forall_app. split.
  { destruct Hss as [[_ ->]|[_ ->]]; constructor; [|constructor]. split; [reflexivity|discriminate]. }
  apply Forall_app. split.
  { eapply Forall_impl; [|exact Hin]. intros ch Hc. unfold chunk_name_ok. rewrite Hc. split; [reflexivity|discriminate]. }
  apply Forall_app. split.
  { eapply Forall_impl; [|exact Hpn]. intros ch Hc. unfold chunk_name_ok. rewrite Hc. split; [reflexivity|discriminate]. }
  constructor; [|constructor]. split; [reflexivity|discriminate].
Qed.
Print Assumptions enc_shape.

(* number of chunks with a given name *)
Definition count_chunks (name : bytes) (chunks : list (bytes * bytes)) : nat :=
  length (filter (fun ch => bytes_eqb (fst ch) name) chunks).

Lemma count_all name chunks : Forall (fun ch => fst ch = name) chunks -> count_chunks name chunks = length chunks.
Proof.
  unfold count_chunks. induction 1 as [|ch l Hc _ IH]; [reflexivity|]. cbn [filter]. rewrite Hc, bytes_eqb_refl. cbn [length]. now rewrite IH.
Qed.

Lemma count_none name name' chunks : name' <> name -> Forall (fun ch => fst ch = name') chunks -> count_chunks name chunks = 0%nat.
Proof.
  intros Hne. unfold count_chunks. induction 1 as [|ch l Hc _ IH]; [reflexivity|]. cbn [filter].
  rewrite Hc, (bytes_eqb_neq name' name Hne). exact IH.
Qed.

Lemma count_app name a b : count_chunks name (a ++ b) = (count_chunks name a + count_chunks name b)%nat.
Proof. unfold count_chunks. now rewrite filter_app, app_length. Qed.

(* header counts match the body: the class count field is the number of INST chunks, the instance count field
   is the length of the arrays of the (single, last) PRNT chunk; both fit 32 bits, so FileHeader::decode reads them back *)
Theorem enc_header d p dom roots e :
  encode_chunks d p dom roots = Ok e ->
  exists front objs parents,
    en_chunks e = front ++ [(CH_PRNT, prnt_payload (N.of_nat (length objs)) objs parents)] /\
    length parents = length objs /\
    count_chunks CH_PRNT front = 0%nat /\
    let n_inst := N.of_nat (count_chunks CH_INST (en_chunks e)) in
    let n_obj := N.of_nat (length objs) in
    en_header e = FILE_MAGIC_HEADER ++ FILE_SIGNATURE ++ w_le16 0 ++ w_le32 n_inst ++ w_le32 n_obj ++ [0; 0; 0; 0; 0; 0; 0; 0] /\
    n_inst <= n_obj /\ n_obj < 2 ^ 31 /\
    forall rest, decode_header None (en_header e ++ rest) = Ok ((n_inst, n_obj), rest).
Proof.
  intros H.
  destruct (encode_chunks_inv _ _ _ _ _ H) as (st & insts0 & props0 & objs0 & parents0 & Hst0 & Hlen & _ & _ & _ & _ & He).
  destruct (enc_shape _ _ _ _ _ H) as (st' & insts & props & objs & parents & Hst & Hch & Hss & Hi2 & Hin & Hli & Hpn & Hlo & Hlp & _).
  assert (st' = st) by congruence. subst st'.
  destruct (add_instances_inv _ _ _ _ _ Hst) as (_ & _ & _ & _ & _ & _ & Hinv).
  destruct (types_inv_count _ _ Hinv) as [Hcnt _].
  assert (Hsn : count_chunks CH_INST (sstr_chunks st) = 0%nat /\ count_chunks CH_PRNT (sstr_chunks st) = 0%nat).
  { destruct Hss as [[_ ->]|[_ ->]]; split; reflexivity. }
  assert (Hci : count_chunks CH_INST (en_chunks e) = length (ss_types st)).
  { rewrite Hch, !count_app, (proj1 Hsn), (count_all _ _ Hin), (count_none CH_INST CH_PROP props) by (discriminate || exact Hpn).
    cbn. lia. }
  exists (sstr_chunks st ++ insts ++ props), objs, parents.
  split; [rewrite Hch, <- !app_assoc; reflexivity|]. split; [congruence|].
  split.
  { rewrite !count_app, (proj2 Hsn), (count_none CH_PRNT CH_INST insts), (count_none CH_PRNT CH_PROP props) by (discriminate || assumption).
    reflexivity. }
  cbn zeta. rewrite Hci, Hlo.
  assert (Hhdr : en_header e = FILE_MAGIC_HEADER ++ FILE_SIGNATURE ++ w_le16 0 ++ w_le32 (N.of_nat (length (ss_types st))) ++
                               w_le32 (N.of_nat (length (ss_relevant st))) ++ [0; 0; 0; 0; 0; 0; 0; 0]).
  { rewrite He. cbn [en_header]. unfold enc_header_of.
    rewrite !len32_small by (change (2 ^ 32) with 4294967296; lia). reflexivity. }
  split; [exact Hhdr|]. split; [lia|]. split; [change (2 ^ 31) with 2147483648; lia|].
  intros rest. rewrite Hhdr, <- !app_assoc. apply header_roundtrip; change (2 ^ 32) with 4294967296; lia.
Qed.
Print Assumptions enc_header.

(* ================================================================ clause (3), continued: one class per instance, distinct ids on the wire *)
Lemma keys_functional {V} (m : list (bytes * V)) k v v' :
  NoDup (List.map fst m) -> In (k, v) m -> In (k, v') m -> v = v'.
Proof. intros Hnd H1 H2. apply (in_bfind _ _ _ Hnd) in H1, H2. congruence. Qed.

(* every written instance is listed by exactly one class, its own, exactly once *)
Theorem enc_class_membership d p dom ts st :
  Forall (agrees (children_of dom)) ts -> NoDup (flat_map refs ts) ->
  add_instances d p dom (List.map root ts) = Ok st ->
  ss_relevant st = flat_map post ts /\
  NoDup (flat_map (fun ct => ti_instances (snd ct)) (ss_types st)) /\
  forall r, In r (flat_map post ts) ->
    exists i ti, find_inst dom r = Some i /\ In (i_class i, ti) (ss_types st) /\
      count_occ N.eq_dec (ti_instances ti) r = 1%nat /\
      forall c' ti', In (c', ti') (ss_types st) -> In r (ti_instances ti') -> c' = i_class i /\ ti' = ti.
Proof.
  intros Hag Hnd H. destruct (enc_relevant_postorder _ _ _ _ _ Hag Hnd H) as [Hrel Hndr].
  destruct (add_instances_inv _ _ _ _ _ H) as (_ & _ & _ & _ & _ & _ & Hinv).
  pose proof Hinv as [Hs Hids Hi Hne Hcov Hss Hfound]. pose proof (sorted_NoDup _ Hs) as Hndk.
  split; [exact Hrel|]. split.
  { eapply Permutation_NoDup; [symmetry; apply (types_inv_perm dom _ Hinv)|exact Hndr]. }
  rewrite <- Hrel. intros r Hr.
  destruct (find_inst dom r) as [i|] eqn:Hfi; [|exfalso; now apply (Hfound r Hr)].
  assert (Hc : class_of dom r = i_class i) by (unfold class_of; now rewrite Hfi).
  pose proof (Hcov r Hr) as Hk. rewrite Hc in Hk. apply in_map_iff in Hk. destruct Hk as ([c ti] & Hcc & Hin).
  cbn [fst] in Hcc. subst c. exists i, ti. split; [reflexivity|]. split; [exact Hin|]. split.
  - apply NoDup_count_occ'.
    + rewrite (Hi _ _ Hin). now apply NoDup_filter.
    + rewrite (Hi _ _ Hin). apply filter_In. split; [exact Hr|]. unfold of_class. rewrite Hc. apply bytes_eqb_refl.
  - intros c' ti' Hin' Hr'. rewrite (Hi _ _ Hin') in Hr'. apply filter_In in Hr'. destruct Hr' as [_ Hoc].
    unfold of_class in Hoc. apply bytes_eqb_eq in Hoc. rewrite Hc in Hoc. subst c'. split; [reflexivity|].
    eapply keys_functional; eauto.
Qed.
Print Assumptions enc_class_membership.

Lemma filter_all {A} (f : A -> bool) l : (forall x, In x l -> f x = true) -> filter f l = l.
Proof.
  induction l as [|x l IH]; intros H; [reflexivity|]. cbn [filter]. rewrite (H x) by now left.
  f_equal. apply IH. intros y Hy. apply H. now right.
Qed.

Lemma w_le32_inj a b : a < 2 ^ 32 -> b < 2 ^ 32 -> w_le32 a = w_le32 b -> a = b.
Proof.
  intros Ha Hb H. unfold w_le32 in H.
  rewrite <- (le_roundtrip 4 a), <- (le_roundtrip 4 b) by assumption. now rewrite H.
Qed.

Lemma firstn_inst_payload c ti ids : firstn 4 (inst_payload c ti ids) = w_le32 (ti_id ti).
Proof.
  unfold inst_payload. change 4%nat with (length (w_le32 (ti_id ti)) + 0)%nat at 1.
  - rewrite firstn_app_2. cbn [firstn]. apply app_nil_r.
Qed.

(* the INST chunks of the file are exactly those of the class table, and their type id fields (the first four
   payload bytes) are pairwise distinct *)
Theorem enc_inst_type_ids d p dom roots e :
  encode_chunks d p dom roots = Ok e ->
  exists st insts,
    add_instances d p dom roots = Ok st /\
    filter (fun ch => bytes_eqb (fst ch) CH_INST) (en_chunks e) = insts /\
    Forall2 (inst_chunk_of (enc_refs st)) (ss_types st) insts /\
    List.map (fun ch => firstn 4 (snd ch)) insts = List.map (fun ct => w_le32 (ti_id (snd ct))) (ss_types st) /\
    NoDup (List.map (fun ch => firstn 4 (snd ch)) insts).
Proof.
  intros H.
  destruct (enc_shape _ _ _ _ _ H) as (st & insts & props & objs & parents & Hst & Hch & Hss & Hi2 & Hin & Hli & Hpn & Hlo & Hlp & _).
  destruct (encode_chunks_inv _ _ _ _ _ H) as (st' & _ & _ & _ & _ & Hst' & Hlen & _).
  assert (st' = st) by congruence. subst st'.
  destruct (enc_class_ids _ _ _ _ _ Hst) as (_ & _ & Hperm & Hndi & Hnext & Hall & _ & _).
  destruct (add_instances_inv _ _ _ _ _ Hst) as (_ & _ & _ & _ & _ & _ & Hinv).
  destruct (types_inv_count _ _ Hinv) as [Hcnt _].
  exists st, insts. split; [exact Hst|]. split.
  { rewrite Hch, !filter_app.
    rewrite (filter_none _ (sstr_chunks st)), (filter_all _ insts), (filter_none _ props).
    - cbn. now rewrite app_nil_r.
    - rewrite Forall_forall in Hpn. intros x Hx. now rewrite (Hpn x Hx).
    - rewrite Forall_forall in Hin. intros x Hx. now rewrite (Hin x Hx).
    - destruct Hss as [[_ ->]|[_ ->]]; intros x []; [subst x; reflexivity|contradiction]. }
  split; [exact Hi2|].
  assert (Hmap : List.map (fun ch => firstn 4 (snd ch)) insts = List.map (fun ct => w_le32 (ti_id (snd ct))) (ss_types st)).
  { clear - Hi2. induction Hi2 as [|ct ch l l' (ids & _ & ->) _ IH]; [reflexivity|]. cbn [List.map snd].
    now rewrite firstn_inst_payload, IH. }
  split; [exact Hmap|]. rewrite Hmap.
  assert (Heq : List.map (fun ct => w_le32 (ti_id (snd ct))) (ss_types st) = List.map w_le32 (type_ids (ss_types st))).
  { unfold type_ids. now rewrite map_map. }
  rewrite Heq.
  assert (Hb : forall x, In x (type_ids (ss_types st)) -> x < 2 ^ 32).
  { intros x Hx. apply (Permutation_in _ Hperm), nseq_in in Hx. rewrite Hnext in Hx. change (2 ^ 32) with 4294967296. lia. }
  clear - Hndi Hb. induction Hndi as [|x l Hx _ IH]; [constructor|]. cbn [List.map]. constructor.
  - intros Hin. apply in_map_iff in Hin. destruct Hin as (y & Hy & Hyl).
    apply w_le32_inj in Hy; [subst y; contradiction| |]; apply Hb; [now right|now left].
  - apply IH. intros y Hy. apply Hb. now right.
Qed.
Print Assumptions enc_inst_type_ids.

(* ================================================================ clause (4): one value per instance in every PROP chunk *)
Lemma fold_insts dom : forall (l : list N) (acc insts : list inst),
  fold_res (fun acc r => match find_inst dom r with Some i => Ok (acc ++ [i]) | None => Panic end) acc l = Ok insts ->
  exists new, insts = acc ++ new /\ Forall2 (fun r i => find_inst dom r = Some i) l new.
Proof.
  induction l as [|r l IH]; intros acc insts; cbn [fold_res].
  - intros [= <-]. exists []. split; [now rewrite app_nil_r|constructor].
  - destruct (find_inst dom r) as [i|] eqn:E; cbn [rbind]; [|discriminate].
    intros H. destruct (IH _ _ H) as (new & -> & HF). exists (i :: new). split; [now rewrite <- app_assoc|].
    constructor; assumption.
Qed.

(* the PROP chunk of one (class, property): type id, serialized name, type byte, and a column encoded from
   exactly one value per instance of the class, in the order of the class's instance list *)
Definition prop_chunk_of (p : enc_params) (dom : cdom) (ctx : enc_ctx) (ti : type_info) (cp : bytes * prop_info)
                         (ch : bytes * bytes) : Prop :=
  exists insts vals col,
    Forall2 (fun r i => find_inst dom r = Some i) (ti_instances ti) insts /\
    vals = List.map (prop_value p (fst cp) (snd cp) (ep_order p (pi_aliases (snd cp)))) insts /\
    length vals = length (ti_instances ti) /\
    enc_col (pi_type (snd cp)) ctx vals = Ok col /\
    ch = (CH_PROP, w_le32 (ti_id ti) ++ w_bstr (pi_ser_name (snd cp)) ++ w_u8 (wire_id (pi_type (snd cp))) ++ col).

Lemma prop_chunk_inv p dom ctx ti cp ch : prop_chunk p dom ctx ti cp = Ok ch -> prop_chunk_of p dom ctx ti cp ch.
Proof.
  destruct cp as [canon pi]. unfold prop_chunk, prop_chunk_of. cbn [fst snd].
  destruct (negb (is_perm _ _)); [discriminate|].
  match goal with |- rbind ?X _ = _ -> _ => destruct X as [insts| | |] eqn:Ei end; cbn [rbind]; try discriminate.
  match goal with |- rbind ?X _ = _ -> _ => destruct X as [col| | |] eqn:Ec end; cbn [rbind]; try discriminate.
  intros [= <-]. apply fold_insts in Ei. destruct Ei as (new & -> & HF). cbn [app] in *.
  exists new, (List.map (prop_value p canon pi (ep_order p (pi_aliases pi))) new), col.
  split; [exact HF|]. split; [reflexivity|]. split; [|split; [exact Ec|reflexivity]].
  rewrite map_length. symmetry. eapply Forall2_length'; eauto.
Qed.

Theorem enc_prop_values d p dom roots e :
  encode_chunks d p dom roots = Ok e ->
  exists st propss,
    add_instances d p dom roots = Ok st /\
    filter (fun ch => bytes_eqb (fst ch) CH_PROP) (en_chunks e) = concat propss /\
    (* per class, in class table order: one chunk per property of the class, in property table order *)
    Forall2 (fun ct chs => Forall2 (prop_chunk_of p dom (enc_ctx_of p st) (snd ct)) (ti_props (snd ct)) chs)
            (ss_types st) propss.
Proof.
  intros H.
  destruct (encode_chunks_inv _ _ _ _ _ H) as (st & insts & props & objs & parents & Hst & Hlen & Hi & Hp & Ho & Hpa & ->).
  apply map_res_Forall2 in Hi, Hp.
  assert (Hin : Forall (fun ch => fst ch = CH_INST) insts).
  { eapply Forall2_Forall_r; [|exact Hi]. intros a b Hab. apply inst_chunk_inv in Hab. destruct Hab as (ids & _ & ->). reflexivity. }
  assert (Hp2 : Forall2 (fun ct chs => Forall2 (prop_chunk_of p dom (enc_ctx_of p st) (snd ct)) (ti_props (snd ct)) chs) (ss_types st) props).
  { eapply Forall2_impl'; [|exact Hp]. intros ct chs Hc. cbn beta in Hc. apply map_res_Forall2 in Hc.
    eapply Forall2_impl'; [|exact Hc]. intros cp ch. apply prop_chunk_inv. }
  assert (Hpn : Forall (fun ch => fst ch = CH_PROP) (concat props)).
  { apply Forall_concat. eapply Forall2_Forall_r; [|exact Hp2]. intros ct chs Hc.
    eapply Forall2_Forall_r; [|exact Hc]. intros cp ch (? & ? & ? & _ & _ & _ & _ & ->). reflexivity. }
  exists st, props. split; [exact Hst|]. split; [|exact Hp2].
  cbn [en_chunks]. rewrite !filter_app.
  rewrite (filter_none _ (sstr_chunks st)), (filter_none _ insts), (filter_all _ (concat props)).
  - cbn. now rewrite app_nil_r.
  - rewrite Forall_forall in Hpn. intros x Hx. now rewrite (Hpn x Hx).
  - rewrite Forall_forall in Hin. intros x Hx. now rewrite (Hin x Hx).
  - unfold sstr_chunks. destruct (ss_sstr st); intros x []; [subst x; reflexivity|contradiction].
Qed.
Print Assumptions enc_prop_values.

(* ================================================================ clause (6): what the reader sees in the referent arrays *)
Definition lim_ok (lim : option N) (n : N) : Prop := match lim with Some l => n <= l | None => True end.

Lemma palloc_ok lim n b : lim_ok lim n -> palloc lim n b = Ok (tt, b).
Proof.
  unfold palloc, lim_ok. destruct lim as [l|]; [|reflexivity]. intros H.
  destruct (N.ltb_spec l n); [lia|reflexivity].
Qed.

Lemma read_referents_app lim vs rest :
  Forall (fun v => in_i32 v = true) vs -> lim_ok lim (4 * N.of_nat (length vs)) ->
  read_referents lim (N.of_nat (length vs)) (enc_ref_array vs ++ rest) = Ok (vs, rest).
Proof.
  intros Hv Hl. unfold read_referents, pbind. rewrite palloc_ok by exact Hl.
  rewrite app_length, enc_ref_array_length.
  destruct (N.ltb_spec (N.of_nat (4 * length vs + length rest)) (4 * N.of_nat (length vs))); [lia|].
  rewrite Nat2N.id. now apply ref_array_roundtrip.
Qed.

(* every number handed out by generate_referents is a position of the relevant list *)
Lemma referent_table_range r z : forall l next acc,
  lookup r (referent_table next l acc) = Some z ->
  (next <= z < next + Z.of_nat (length l))%Z \/ lookup r acc = Some z.
Proof.
  induction l as [|x l IH]; intros next acc H; [now right|]. cbn [referent_table] in H.
  apply IH in H. cbn [length]. destruct H as [H|H]; [left; lia|].
  cbn [lookup] in H. destruct (N.eqb r x); [injection H as <-; left; lia|now right].
Qed.

Lemma in_i32_range z : (-1 <= z <= 2147483647)%Z -> in_i32 z = true.
Proof. intros H. apply in_i32_iff. lia. Qed.

Lemma to_ref_range rel ids l :
  (Z.of_nat (length rel) <= 2147483647)%Z ->
  map_res (to_ref (referent_table 0 rel [])) l = Ok ids -> Forall (fun v => in_i32 v = true) ids.
Proof.
  intros Hlen H. apply map_res_Forall2 in H. eapply Forall2_Forall_r; [|exact H].
  intros r z Hz. cbn beta in Hz. unfold to_ref in Hz.
  destruct (lookup r (referent_table 0 rel [])) as [z'|] eqn:E; [|discriminate]. injection Hz as ->.
  apply referent_table_range in E. destruct E as [E|E]; [|discriminate]. apply in_i32_range. lia.
Qed.

Lemma prnt_parents_range dom rel :
  (Z.of_nat (length rel) <= 2147483647)%Z -> Forall (fun v => in_i32 v = true) (prnt_parents dom rel).
Proof.
  intros Hlen. unfold prnt_parents. apply Forall_forall. intros z Hz. apply in_map_iff in Hz.
  destruct Hz as (r & <- & _). unfold parent_val. destruct (find_inst dom r) as [i|]; [|reflexivity].
  destruct (N.eqb (i_parent i) 0); [reflexivity|].
  destruct (lookup (i_parent i) (referent_table 0 rel [])) as [z|] eqn:E; [|reflexivity].
  apply referent_table_range in E. destruct E as [E|E]; [|discriminate]. apply in_i32_range. lia.
Qed.

Lemma prnt_objs_range rel :
  (Z.of_nat (length rel) <= 2147483647)%Z -> Forall (fun v => in_i32 v = true) (prnt_objs rel).
Proof.
  intros Hlen. unfold prnt_objs. apply Forall_forall. intros z Hz. apply in_map_iff in Hz.
  destruct Hz as (k & <- & Hk). apply in_seq in Hk. apply in_i32_range. lia.
Qed.

(* decode_prnt_chunk on a payload written by serialize_parents *)
Lemma decode_prnt_payload lim st objs parents :
  length parents = length objs -> N.of_nat (length objs) < 2 ^ 32 ->
  Forall (fun v => in_i32 v = true) objs -> Forall (fun v => in_i32 v = true) parents ->
  lim_ok lim (4 * N.of_nat (length objs)) ->
  decode_prnt lim st (prnt_payload (N.of_nat (length objs)) objs parents) =
  (r2 <- prnt_links (ds_insts st) (ds_roots st) (zip objs parents) ;;
   Ok (mkDS (ds_sstr st) (ds_types st) (fst r2) (snd r2) (ds_next st))).
Proof.
  intros Hlp Hn Ho Hp Hl. unfold decode_prnt, prnt_payload.
  match goal with |- rbind (run_chunk ?P ?B) _ = _ => assert (E : run_chunk P B = Ok (zip objs parents)) end.
  { unfold run_chunk.
    unfold pbind at 1. rewrite read_u8_app by reflexivity. cbn [N.eqb negb].
    unfold pbind at 1. rewrite le32_app by exact Hn.
    unfold pbind at 1. rewrite read_referents_app by assumption.
    unfold pbind at 1. rewrite <- Hlp, <- (app_nil_r (enc_ref_array parents)).
    rewrite read_referents_app by (try assumption; now rewrite Hlp). reflexivity. }
  rewrite E. reflexivity.
Qed.

Lemma prnt_objs_length rel : length (prnt_objs rel) = length rel.
Proof. unfold prnt_objs. now rewrite map_length, seq_length. Qed.
Lemma prnt_parents_length dom rel : length (prnt_parents dom rel) = length rel.
Proof. unfold prnt_parents. now rewrite map_length. Qed.

(* the PRNT payload written for the chosen subtrees parses back to exactly the pairs (position, parent position) *)
Theorem enc_prnt_decodes d p dom ts e :
  Forall (agrees (children_of dom)) ts -> NoDup (flat_map refs ts) ->
  encode_chunks d p dom (List.map root ts) = Ok e ->
  let rel := flat_map post ts in
  exists front,
    en_chunks e = front ++ [(CH_PRNT, prnt_payload (N.of_nat (length rel)) (prnt_objs rel) (prnt_parents dom rel))] /\
    forall lim ds, lim_ok lim (4 * N.of_nat (length rel)) ->
      decode_prnt lim ds (prnt_payload (N.of_nat (length rel)) (prnt_objs rel) (prnt_parents dom rel)) =
      (r2 <- prnt_links (ds_insts ds) (ds_roots ds) (zip (prnt_objs rel) (prnt_parents dom rel)) ;;
       Ok (mkDS (ds_sstr ds) (ds_types ds) (fst r2) (snd r2) (ds_next ds))).
Proof.
  intros Hag Hnd H rel. destruct (enc_prnt _ _ _ _ _ Hag Hnd H) as (front & Hch & _ & _ & Hlen & _).
  fold rel in Hch, Hlen. exists front. split; [exact Hch|]. intros lim ds Hl.
  pose proof (decode_prnt_payload lim ds (prnt_objs rel) (prnt_parents dom rel)) as D.
  rewrite prnt_objs_length in D. apply D.
  - now rewrite prnt_parents_length.
  - change (2 ^ 32) with 4294967296. lia.
  - now apply prnt_objs_range.
  - now apply prnt_parents_range.
  - exact Hl.
Qed.
Print Assumptions enc_prnt_decodes.

(* ---- INST *)
Definition register_insts (cname : bytes) (referents : list Z) (acc : list (Z * dinst) * N) : list (Z * dinst) * N :=
  fold_left (fun acc referent =>
               let '(insts, next) := acc in
               (zupd referent (mkDI next cname cname [] []) insts, next + 1))
            referents acc.

Lemma read_bstr_app lim s rest :
  N.of_nat (length s) < 2 ^ 32 -> lim_ok lim (N.of_nat (length s)) ->
  read_bstr lim (w_bstr s ++ rest) = Ok (s, rest).
Proof.
  intros Hs Hl. unfold read_bstr, w_bstr. rewrite <- app_assoc.
  unfold pbind at 1. rewrite len32_small by exact Hs. rewrite le32_app by exact Hs.
  unfold pbind at 1. rewrite palloc_ok by exact Hl. apply take_upto_app.
Qed.

Lemma decode_inst_payload lim ds cname ti ids :
  length ids = length (ti_instances ti) -> Forall (fun v => in_i32 v = true) ids ->
  ti_id ti < 2 ^ 32 -> N.of_nat (length ids) < 2 ^ 32 ->
  N.of_nat (length cname) < 2 ^ 32 -> Utf8.utf8_valid cname = true ->
  lim_ok lim (N.of_nat (length cname)) -> lim_ok lim (4 * N.of_nat (length ids)) ->
  decode_inst lim ds (inst_payload cname ti ids) =
  Ok (let r := register_insts cname ids (ds_insts ds, ds_next ds) in
      mkDS (ds_sstr ds) (upd (ti_id ti) (mkDT cname ids) (ds_types ds)) (fst r) (ds_roots ds) (snd r),
      if ti_service ti then List.map (fun _ => 1) (ti_instances ti) else []).
Proof.
  intros Hli Hi Hid Hn Hc Hu Hl1 Hl2. unfold decode_inst, inst_payload.
  unfold pbind at 1. rewrite le32_app by exact Hid.
  unfold pbind at 1. unfold read_str. unfold pbind at 1. rewrite read_bstr_app by assumption. rewrite Hu. unfold pret at 1.
  unfold pbind at 1. change (w_bool (ti_service ti)) with (w_u8 (if ti_service ti then 1 else 0)).
  rewrite read_u8_app by (destruct (ti_service ti); reflexivity).
  unfold pbind at 1. rewrite (len32_small (ti_instances ti)) by (rewrite <- Hli; exact Hn).
  rewrite <- Hli. rewrite le32_app by exact Hn.
  unfold pbind at 1. rewrite read_referents_app by assumption.
  unfold register_insts.
  destruct (fold_left _ ids (ds_insts ds, ds_next ds)) as [insts next]. reflexivity.
Qed.

Lemma zfind_zremove_eq {V} k (m : list (Z * V)) : zfind k (zremove k m) = None.
Proof.
  induction m as [|[k' v] m IH]; [reflexivity|]. cbn [zremove]. destruct (Z.eqb k k') eqn:E; [exact IH|].
  cbn [zfind]. now rewrite E.
Qed.
Lemma zfind_zremove_neq {V} k k' (m : list (Z * V)) : k' <> k -> zfind k' (zremove k m) = zfind k' m.
Proof.
  intros Hne. induction m as [|[k2 v] m IH]; [reflexivity|]. cbn [zremove zfind].
  destruct (Z.eqb_spec k k2) as [->|].
  - destruct (Z.eqb_spec k' k2); [congruence|exact IH].
  - cbn [zfind]. now rewrite IH.
Qed.
Lemma zfind_zupd_eq {V} k (v : V) m : zfind k (zupd k v m) = Some v.
Proof. unfold zupd. cbn [zfind]. now rewrite Z.eqb_refl. Qed.
Lemma zfind_zupd_neq {V} k k' (v : V) m : k' <> k -> zfind k' (zupd k v m) = zfind k' m.
Proof. intros H. unfold zupd. cbn [zfind]. destruct (Z.eqb_spec k' k); [congruence|]. now apply zfind_zremove_neq. Qed.

(* the instances an INST chunk registers: consecutive fresh labels, in the order of the referent array *)
Lemma register_next cname : forall ids insts next,
  snd (register_insts cname ids (insts, next)) = next + N.of_nat (length ids).
Proof.
  induction ids as [|z ids IH]; intros insts next; cbn [register_insts fold_left length]; [cbn; lia|].
  fold (register_insts cname ids (zupd z (mkDI next cname cname [] []) insts, next + 1)). rewrite IH. lia.
Qed.

Lemma register_other cname z : forall ids insts next, ~ In z ids ->
  zfind z (fst (register_insts cname ids (insts, next))) = zfind z insts.
Proof.
  induction ids as [|z0 ids IH]; intros insts next Hni; [reflexivity|]. cbn [register_insts fold_left].
  fold (register_insts cname ids (zupd z0 (mkDI next cname cname [] []) insts, next + 1)).
  rewrite IH by (intros H; apply Hni; now right). apply zfind_zupd_neq. intros ->. apply Hni. now left.
Qed.

Lemma register_find cname z : forall ids insts next k, NoDup ids -> nth_error ids k = Some z ->
  zfind z (fst (register_insts cname ids (insts, next))) = Some (mkDI (next + N.of_nat k) cname cname [] []).
Proof.
  induction ids as [|z0 ids IH]; intros insts next k Hnd Hk; [destruct k; discriminate|].
  apply NoDup_cons_iff in Hnd. destruct Hnd as [Hz0 Hnd]. cbn [register_insts fold_left].
  fold (register_insts cname ids (zupd z0 (mkDI next cname cname [] []) insts, next + 1)).
  destruct k as [|k]; cbn [nth_error] in Hk.
  - injection Hk as ->. rewrite register_other by exact Hz0. rewrite zfind_zupd_eq. do 2 f_equal. cbn. lia.
  - rewrite (IH _ _ k Hnd Hk). do 2 f_equal. lia.
Qed.

Lemma Forall2_impl_in {A B} (R R' : A -> B -> Prop) l l' :
  (forall a b, In a l -> R a b -> R' a b) -> Forall2 R l l' -> Forall2 R' l l'.
Proof.
  intros H HF. induction HF as [|a b l l' Hab _ IH]; constructor.
  - apply H; [now left|exact Hab].
  - apply IH. intros a' b' Hin. apply H. now right.
Qed.

Lemma filter_length_le' {A} (f : A -> bool) l : (length (filter f l) <= length l)%nat.
Proof. induction l as [|x l IH]; [apply le_n|]. cbn [filter]. destruct (f x); cbn [length]; lia. Qed.

(* on a duplicate free relevant list the referent of an instance is its position *)
Lemma enc_refs_nth st k r : NoDup (ss_relevant st) -> nth_error (ss_relevant st) k = Some r ->
  lookup r (enc_refs st) = Some (Z.of_nat k).
Proof. intros Hnd Hk. unfold enc_refs. now rewrite (referent_table_nth r _ 0%Z [] k Hnd Hk). Qed.

(* every INST payload written by the encoder is read by decode_inst_chunk as: the class's type id and name, and
   the referents of the class's instances in order, registered under consecutive fresh labels
   (class names are Rust Strings: valid UTF-8) *)
Theorem enc_inst_decodes d p dom roots e :
  Forall (fun i => Utf8.utf8_valid (i_class i) = true /\ N.of_nat (length (i_class i)) < 2 ^ 32) dom ->
  encode_chunks d p dom roots = Ok e ->
  exists st insts,
    add_instances d p dom roots = Ok st /\
    filter (fun ch => bytes_eqb (fst ch) CH_INST) (en_chunks e) = insts /\
    Forall2 (fun ct ch => exists ids,
               ch = (CH_INST, inst_payload (fst ct) (snd ct) ids) /\
               Forall2 (fun r z => lookup r (enc_refs st) = Some z) (ti_instances (snd ct)) ids /\
               forall lim ds, lim_ok lim (N.of_nat (length (fst ct))) -> lim_ok lim (4 * N.of_nat (length ids)) ->
                 decode_inst lim ds (snd ch) =
                 Ok (let r := register_insts (fst ct) ids (ds_insts ds, ds_next ds) in
                     mkDS (ds_sstr ds) (upd (ti_id (snd ct)) (mkDT (fst ct) ids) (ds_types ds)) (fst r) (ds_roots ds)
                          (ds_next ds + N.of_nat (length ids)),
                     if ti_service (snd ct) then List.map (fun _ => 1) (ti_instances (snd ct)) else []))
            (ss_types st) insts.
Proof.
  intros Hdom H.
  destruct (enc_inst_type_ids _ _ _ _ _ H) as (st & insts & Hst & Hf & Hi2 & _ & _).
  destruct (encode_chunks_inv _ _ _ _ _ H) as (st' & _ & _ & _ & _ & Hst' & Hlen & _).
  assert (st' = st) by congruence. subst st'.
  destruct (enc_class_ids _ _ _ _ _ Hst) as (_ & _ & Hperm & Hndi & Hnext & Hall & _ & _).
  destruct (add_instances_inv _ _ _ _ _ Hst) as (_ & _ & _ & _ & _ & _ & Hinv).
  destruct (types_inv_count _ _ Hinv) as [Hcnt _].
  exists st, insts. split; [exact Hst|]. split; [exact Hf|].
  eapply Forall2_impl_in; [|exact Hi2]. intros [c ti] ch Hin (ids & Hids & ->). cbn [fst snd] in *.
  destruct (Hall c ti Hin) as (Hinst & Hne & Hidlt).
  pose proof Hids as Hrange. apply (to_ref_range _ _ _ Hlen) in Hrange.
  apply map_res_Forall2 in Hids.
  assert (Hlids : length ids = length (ti_instances ti)) by (symmetry; eapply Forall2_length'; eauto).
  assert (Hli : (length (ti_instances ti) <= length (ss_relevant st))%nat) by (rewrite Hinst; apply filter_length_le').
  assert (Hc : Utf8.utf8_valid c = true /\ N.of_nat (length c) < 2 ^ 32).
  { destruct (ti_instances ti) as [|r rs] eqn:Er; [congruence|].
    assert (Hr : In r (filter (of_class dom c) (ss_relevant st))) by (rewrite <- Hinst; now left).
    apply filter_In in Hr. destruct Hr as [Hr Hoc]. unfold of_class, class_of in Hoc.
    destruct (find_inst dom r) as [i|] eqn:Hfi; [|exfalso; exact (inv_found _ _ Hinv r Hr Hfi)].
    apply bytes_eqb_eq in Hoc. subst c. rewrite Forall_forall in Hdom. apply Hdom. apply (find_inst_some _ _ _ Hfi). }
  exists ids. split; [reflexivity|]. split.
  { eapply Forall2_impl'; [|exact Hids]. intros r z Hz. cbn beta in Hz. unfold to_ref in Hz.
    destruct (lookup r (enc_refs st)); [now injection Hz as ->|discriminate]. }
  intros lim ds Hl1 Hl2. rewrite (decode_inst_payload lim ds c ti ids); try assumption; try tauto.
  - cbn zeta. now rewrite register_next.
  - change (2 ^ 32) with 4294967296. lia.
  - change (2 ^ 32) with 4294967296. lia.
Qed.
Print Assumptions enc_inst_decodes.

(* ================================================================ clause (7): the SSTR chunk *)
Definition sstr_complete (dom : cdom) (st : ser_state) : Prop :=
  forall r i name s, In r (ss_relevant st) -> find_inst dom r = Some i ->
                     In (name, VSharedString s) (i_props i) -> In s (ss_sstr st).

Lemma add_loop_sstr d dom : forall fuel outer stack lv st st',
  types_inv dom st -> sstr_complete dom st -> add_loop fuel d dom outer stack lv st = Ok st' -> sstr_complete dom st'.
Proof.
  induction fuel as [|f IH]; intros outer stack lv st st' Hinv Hc H; [discriminate|].
  cbn [add_loop] in H. destruct stack as [|x rest]; [now injection H as <-|].
  destruct (find_inst dom x) as [inst|] eqn:Hfi; [|discriminate].
  destruct outer; [now apply IH in H|].
  destruct (negb (is_nil (children_of dom x)) && negb (opt_eqb (last_opt (children_of dom x)) lv))%bool; [now apply IH in H|].
  destruct (collect_type_info d _ inst) as [st1| | |] eqn:E; cbn [rbind] in H; try discriminate.
  destruct (cti_step _ _ _ _ _ _ Hfi Hinv E) as (Hinv1 & Hrel1 & [Hincl _] & Htr).
  apply (IH _ _ _ _ _ Hinv1) in H; [exact H|].
  intros r i name s Hr Hi Hin. rewrite Hrel1 in Hr. apply in_app_or in Hr. destruct Hr as [Hr|[<-|[]]].
  - apply Hincl. eapply Hc; eauto.
  - assert (i = inst) by congruence. subst i. eapply Htr; eauto.
Qed.

(* the shared string table is duplicate free, holds every SharedString value of every written instance, and is
   written as the single SSTR chunk (absent when the table is empty) *)
Theorem enc_sstr d p dom roots e :
  encode_chunks d p dom roots = Ok e ->
  exists st,
    add_instances d p dom roots = Ok st /\
    NoDup (ss_sstr st) /\
    filter (fun ch => bytes_eqb (fst ch) CH_SSTR) (en_chunks e) =
      match ss_sstr st with [] => [] | l => [(CH_SSTR, sstr_payload l)] end /\
    (forall r i name s, In r (ss_relevant st) -> find_inst dom r = Some i ->
                        In (name, VSharedString s) (i_props i) -> In s (ss_sstr st)).
Proof.
  intros H.
  destruct (enc_shape _ _ _ _ _ H) as (st & insts & props & objs & parents & Hst & Hch & Hss & Hi2 & Hin & Hli & Hpn & Hlo & Hlp & _).
  destruct (add_instances_inv _ _ _ _ _ Hst) as (st0 & Hloop & Hrel & _ & _ & Hperm & Hinv).
  exists st. split; [exact Hst|]. split; [apply (inv_sstr _ _ Hinv)|]. split.
  - rewrite Hch, !filter_app.
    rewrite (filter_none _ insts), (filter_none _ props).
    + unfold sstr_chunks. destruct (ss_sstr st); reflexivity.
    + rewrite Forall_forall in Hpn. intros x Hx. now rewrite (Hpn x Hx).
    + rewrite Forall_forall in Hin. intros x Hx. now rewrite (Hin x Hx).
  - intros r i name s Hr Hi Hv. rewrite Hrel in Hr.
    eapply Permutation_in; [symmetry; exact Hperm|].
    eapply (add_loop_sstr _ _ _ _ _ _ _ _ (types_inv0 dom)); eauto.
    intros r' i' n' s' [].
Qed.
Print Assumptions enc_sstr.

(* ================================================================ witnesses: the hypotheses are satisfiable, and the
   non-overlap hypothesis is needed *)
Definition sample_tree : tree := Node 1 [Node 2 []; Node 3 []].

Example sample_tree_ok :
  Forall (agrees (children_of sample_dom)) [sample_tree] /\ NoDup (flat_map refs [sample_tree]) /\
  List.map root [sample_tree] = [1] /\
  Forall (fun i => Utf8.utf8_valid (i_class i) = true /\ N.of_nat (length (i_class i)) < 2 ^ 32) sample_dom /\
  exists e, encode_chunks db0 ep0 sample_dom [1] = Ok e.
Proof.
  split; [|split; [|split; [reflexivity|split]]].
  - repeat (constructor; try (vm_compute; reflexivity)).
  - cbn. repeat constructor; cbn; intuition discriminate.
  - repeat constructor.
  - eexists. vm_compute. reflexivity.
Qed.

(* the whole tree: post-order 2, 3, 1; both children point at position 2, the chosen root at -1 *)
Example sample_prnt :
  flat_map post [sample_tree] = [2; 3; 1] /\
  prnt_objs [2; 3; 1] = [0; 1; 2]%Z /\ prnt_parents sample_dom [2; 3; 1] = [2; 2; -1]%Z.
Proof. vm_compute. repeat split; reflexivity. Qed.

(* two sibling subtrees whose parent is not written: both parent entries are -1 *)
Example sample_siblings :
  Forall (agrees (children_of sample_dom)) [Node 2 []; Node 3 []] /\ NoDup (flat_map refs [Node 2 []; Node 3 []]) /\
  (exists e, encode_chunks db0 ep0 sample_dom [2; 3] = Ok e) /\
  prnt_parents sample_dom (flat_map post [Node 2 []; Node 3 []]) = [-1; -1]%Z.
Proof.
  split; [|split; [|split]].
  - repeat (constructor; try (vm_compute; reflexivity)).
  - cbn. repeat constructor; cbn; intuition discriminate.
  - eexists. vm_compute. reflexivity.
  - vm_compute. reflexivity.
Qed.

(* SharedStrings: two instances share one value, a third has another; the table holds each once *)
Definition sstr_dom : cdom :=
  [ mkInst 1 0 (bstr "A") (bstr "a") [(bstr "S", VSharedString [1; 2])];
    mkInst 2 1 (bstr "A") (bstr "b") [(bstr "S", VSharedString [1; 2])];
    mkInst 3 1 (bstr "B") (bstr "c") [(bstr "T", VSharedString [7])] ].
Definition ep_sstr : enc_params := mkEP [] [] (fun _ => 0) (fun l => l) [([1; 2], [9]); ([7], [5]); ([], [0])].

Example sample_sstr :
  exists st e, add_instances db0 ep_sstr sstr_dom [1] = Ok st /\ encode_chunks db0 ep_sstr sstr_dom [1] = Ok e /\
               ss_sstr st = [[]; [7]; [1; 2]] /\ count_chunks CH_SSTR (en_chunks e) = 1%nat.
Proof. eexists. eexists. vm_compute. repeat split; reflexivity. Qed.

(* FINDING (needed hypothesis).  When the chosen referents overlap (here an instance and one of its children) the
   traversal of add_instances visits the shared subtree twice: relevant_instances has a duplicate, the header
   announces 4 instances for 3 distinct ones, the INST chunk of the class lists the same referent twice and the
   PRNT object array contains a referent twice.  So "every written instance appears exactly once in the parent
   chunk" needs the non-overlap hypothesis [NoDup (flat_map refs ts)] of enc_prnt / enc_class_membership. *)
Example overlapping_roots_duplicate :
  exists st e, add_instances db0 ep0 sample_dom [1; 2] = Ok st /\ encode_chunks db0 ep0 sample_dom [1; 2] = Ok e /\
    ss_relevant st = [2; 3; 1; 2] /\
    List.map (fun ct => ti_instances (snd ct)) (ss_types st) = [[2; 1; 2]; [3]] /\
    en_header e = FILE_MAGIC_HEADER ++ FILE_SIGNATURE ++ w_le16 0 ++ w_le32 2 ++ w_le32 4 ++ [0; 0; 0; 0; 0; 0; 0; 0] /\
    last (en_chunks e) ([], []) = (CH_PRNT, prnt_payload 4 [3; 1; 2; 3]%Z [2; 2; -1; 2]%Z).
Proof. eexists. eexists. vm_compute. repeat split; reflexivity. Qed.

(* EXPORT:
     enc_class_ids          (3) class table: keys strictly sorted, ids = 0..next-1, per-class instance lists, partition
     enc_class_membership   (3) every written instance in exactly one class (its own), exactly once
     enc_inst_type_ids      (3) the INST chunks = class table entries; type id fields pairwise distinct
     enc_prnt               (5) PRNT arrays: post-order, duplicate free, children before parents, roots/unwritten parents -1
     enc_shape              (1) SSTR? ++ INST* ++ PROP* ++ [PRNT]; names of length 4, none END
     enc_header             (2) header counts = number of INST chunks, length of the PRNT arrays; read back by decode_header
     enc_prop_values        (4) per class and property one PROP chunk, column of exactly one value per instance
     enc_prnt_decodes       (6) decode_prnt parses the written PRNT payload back to zip objs parents
     enc_inst_decodes       (6) decode_inst registers exactly the class's referents in order under consecutive labels
     enc_sstr               (7) shared string table duplicate free and complete; single SSTR chunk
     overlapping_roots_duplicate   finding: the non-overlap hypothesis is necessary
   auxiliary, reusable: types_inv, add_loop_inv, add_instances_inv, encode_chunks_inv, enc_relevant_postorder,
     decode_prnt_payload, decode_inst_payload, register_find, register_other, register_next, enc_refs_nth *)
