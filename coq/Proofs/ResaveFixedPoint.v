(* ResaveFixedPoint.v — property C07, second half: load/save is a fixed point after the first save.
   XML (complete, plain pairing of behaviours):
         save (load (save d)) = save (norm_dom d)                      [xml_resave]            (equality of results: same events
                                                                                                or the same failure)
         save (load (save d1)) = save d1  for d1 = load (save d)       [xml_resave_fixed_point]
         both closed for the 26 simple value types + Ref + SharedString [xml_resave_simple_types]
     where [norm_dom d] is d with every property value of a written instance replaced by what the per-value law says it is read
     back as, and every Ref that does not point to a written instance replaced by the null Ref (the reader cannot resolve it).
     The first save differs from the second in exactly these two respects; of the two only the second shows for the simple
     types (a NaN payload is printed `NAN` by the writer anyway: [xml_nan_payload_invisible]), and it also shifts the referent
     numbers, which the writer hands out in order of first mention ([xml_first_save_differs_dangling_ref_refuted]).
   Binary:
         encode_file sees its DOM only through the written instances   [encode_chunks_shape, encode_file_shape]
         encode_file (decode_file (encode_file dom)) = encode_file (bnorm_dom dom)   [bin_resave]   closed case of BinRoundTrip's
         [unknown_props_roundtrip] (properties unknown to the database, simple column types, any compressor under frame_ok),
         via the generic [bin_resave_generic] (any decoded forest described by same_forest + per-instance property lists).
         encode_file (decode_file (encode_file out)) = encode_file out for out = decode_file (encode_file dom)   [bin_resave_fixed_point]
         (round 2, sections (O)-(Q) at the end of the file).
   Method: the writer is run on two DOMs of different shape that show the same forest under a renaming of the referents
   ([serialize_instance_sim], reusing the per-value simulation of XmlDeterminism; [encode_chunks_shape] + BinRename for the
   binary format); the fuel the entry points pass is shown sufficient on both sides ([serialize_instance_fuel_ordered],
   [add_loop_fuel]).
   Standard library only. *)
From Coq Require Import List NArith ZArith Bool Lia String Permutation Sorted.
From RbxVerif Require Import Base Bytes Value Db CodecDom XmlEvents XmlValues XmlFile XmlInt XmlText XmlBase64 XmlCompound XmlCompound2
  XmlFileFacts XmlDeterminism XmlStructure XmlRoundTrip.
Import ListNotations.
Open Scope list_scope.
Open Scope N_scope.

(* ================================================================= (A) fuel: on a DOM whose parents precede their children *)
(* labels are at most [n] and every instance hangs under a smaller label (0 = the root) *)
Definition ordered (n : N) (d : cdom) : Prop := forall i, In i d -> i_parent i < i_ref i /\ i_ref i <= n.

Lemma children_ordered n d id c : ordered n d -> In c (children_of d id) -> id < c /\ c <= n.
Proof.
  intros Ho Hc. unfold children_of in Hc. apply in_map_iff in Hc. destruct Hc as (i & <- & Hi). apply filter_In in Hi.
  destruct Hi as [Hi Hp]. apply N.eqb_eq in Hp. destruct (Ho i Hi). lia.
Qed.

Lemma seq_with_ext_in F G : forall cs s, (forall s c, In c cs -> F s c = G s c) -> seq_with F cs s = seq_with G cs s.
Proof.
  induction cs as [|c r IH]; intros s H; [reflexivity|].
  cbn [seq_with]. rewrite H by (now left). destruct (G s c) as [[e1 s1]| |k|]; cbn [rbind]; try reflexivity.
  fold (seq_with F). fold (seq_with G). rewrite IH; [reflexivity|]. intros s' c' Hc'. apply H. now right.
Qed.

Lemma serialize_instance_fuel_ordered sprop e beh n d : ordered n d ->
  forall f f' st id, id <= n -> n < id + N.of_nat f -> n < id + N.of_nat f' ->
    serialize_instance_with sprop f e beh d st id = serialize_instance_with sprop f' e beh d st id.
Proof.
  intros Ho f. induction f as [|f IH]; intros f' st id Hid Hf Hf'; [lia|]. destruct f' as [|f']; [lia|].
  rewrite !serialize_instance_with_S. destruct (find_inst d id) as [i|]; [|reflexivity].
  destruct (map_id st id) as [mapped st0].
  destruct (write_value_xml e st0 (B "Name") (VString (i_name i))) as [[nev st1]| |c|]; cbn [rbind]; try reflexivity.
  cbv zeta. destruct (serialize_properties_with sprop e beh (i_class i) (List.map fst (bsort (i_props i))) st1 (bsort (i_props i)))
    as [[pev st2]| |c|]; cbn [rbind]; try reflexivity.
  rewrite (seq_with_ext_in (serialize_instance_with sprop f e beh d) (serialize_instance_with sprop f' e beh d)); [reflexivity|].
  intros s c Hc. destruct (children_ordered n d id c Ho Hc). apply IH; lia.
Qed.

Lemma subtree_fuel_ordered n d : ordered n d ->
  forall f f' id, id <= n -> n < id + N.of_nat f -> n < id + N.of_nat f' -> subtree d f id = subtree d f' id.
Proof.
  intros Ho f. induction f as [|f IH]; intros f' id Hid Hf Hf'; [lia|]. destruct f' as [|f']; [lia|].
  cbn [subtree]. f_equal.
  assert (H : forall cs, (forall c, In c cs -> id < c /\ c <= n) -> flat_map (subtree d f) cs = flat_map (subtree d f') cs).
  { induction cs as [|c cs IHc]; intro Hcs; [reflexivity|]. cbn [flat_map]. destruct (Hcs c (or_introl eq_refl)).
    rewrite (IH f' c) by lia. rewrite IHc; [reflexivity|]. intros c' Hc'. apply Hcs. now right. }
  apply H. intros c Hc. exact (children_ordered n d id c Ho Hc).
Qed.

(* ================================================================= (B) the writer on two DOMs that show the same forest *)
(* [d'] shows, under the renaming [phi] of the referents, the instances [W] of [d]: same class, same name, the same sorted
   property list with renamed Refs, the children in the same order.  Whatever else the two DOMs hold does not matter. *)
Section Sim.
  Variable phi : N -> N.
  Variable P : N -> Prop.
  Hypothesis P0 : P 0.
  Hypothesis phi0 : phi 0 = 0.
  Hypothesis phi_inj : forall a b, P a -> P b -> phi a = phi b -> a = b.
  Variables (sprop : sprop_t) (e : xenv) (beh : ebehavior) (d d' : cdom) (W : list N).
  Hypothesis Hsp : sprop_rn phi P sprop.
  Hypothesis HWP : forall id, In id W -> P id.
  Hypothesis Hnode : forall id, In id W ->
    exists i i', find_inst d id = Some i /\ find_inst d' (phi id) = Some i' /\ i_class i' = i_class i /\ i_name i' = i_name i /\
                 bsort (i_props i') = rename_props phi (bsort (i_props i)) /\ Forall P (props_refs (i_props i)) /\
                 children_of d' (phi id) = List.map phi (children_of d id).

  Lemma seq_with_sim (F' F : estate -> N -> rres) : forall cs s,
    (forall s c, In c cs -> keysP P s -> sim phi P (F' (rename_st phi s) (phi c)) (F s c)) -> keysP P s ->
    sim phi P (seq_with F' (List.map phi cs) (rename_st phi s)) (seq_with F cs s).
  Proof.
    induction cs as [|c r IH]; intros s HF Hk.
    - apply sim_ok. exact Hk.
    - cbn [List.map seq_with]. apply sim_bind; [apply HF; [now left|exact Hk]|]. intros e1 s1 Hk1. cbv beta iota.
      fold (seq_with F'). fold (seq_with F).
      apply sim_bind; [apply IH; [intros s' c' Hc'; apply HF; now right|exact Hk1]|]. intros e2 s2 Hk2. cbv beta iota. apply sim_ok. exact Hk2.
  Qed.

  Lemma serialize_instance_sim : forall f st id, incl (subtree d f id) W -> keysP P st ->
    sim phi P (serialize_instance_with sprop f e beh d' (rename_st phi st) (phi id)) (serialize_instance_with sprop f e beh d st id).
  Proof.
    induction f as [|f IH]; intros st id Hsub Hk; [apply sim_fail; exact I|].
    rewrite !serialize_instance_with_S. cbn [subtree] in Hsub.
    assert (HidW : In id W) by (apply Hsub; now left).
    destruct (Hnode id HidW) as (i & i' & Hf & Hf' & Hc & Hn & Hps & Hrefs & Hch). rewrite Hf, Hf'.
    destruct (map_id_rename phi P phi_inj st id (HWP id HidW) Hk) as [-> Hk0]. destruct (map_id st id) as [mapped st0]. cbn [fst snd] in *.
    rewrite Hc, Hn.
    apply sim_bind; [now apply write_value_xml_plain_rn|]. intros nev st1 Hk1. cbv beta iota zeta.
    rewrite Hps. unfold rename_props at 1. rewrite map_fst_map_values. fold (rename_props phi (bsort (i_props i))).
    apply sim_bind; [apply serialize_properties_with_rn; [exact Hsp|exact Hk1|now apply bsort_refs_ok]|].
    intros pev st2 Hk2. cbv beta iota. rewrite Hch.
    apply sim_bind.
    - apply seq_with_sim; [|exact Hk2]. intros s c Hc' Hs. apply IH; [|exact Hs].
      intros y Hy. apply Hsub. right. apply in_flat_map. exists c. split; assumption.
    - intros cev st3 Hk3. cbv beta iota. apply sim_ok. exact Hk3.
  Qed.

  (* the roots: the same events, the same dictionary *)
  Lemma roots_sim f roots : incl (flat_map (subtree d f) roots) W ->
    sim phi P (seq_with (serialize_instance_with sprop f e beh d') (List.map phi roots) es0)
              (seq_with (serialize_instance_with sprop f e beh d) roots es0).
  Proof.
    intro Hsub. change es0 with (rename_st phi es0) at 1. apply seq_with_sim; [|constructor].
    intros s c Hc Hs. apply serialize_instance_sim; [|exact Hs].
    intros y Hy. apply Hsub. apply in_flat_map. exists c. split; assumption.
  Qed.
End Sim.

(* ================================================================= (C) what the reader builds lists parents before children *)
Lemma flatten_parent_lt : forall it P L, P < L -> Forall (fun fn => fn_parent fn < fn_label fn) (flatten it P L).
Proof.
  induction it as [id x c nm ps ks IH] using witem_ind'. intros P L HPL. rewrite flatten_item. constructor; [exact HPL|].
  assert (H : forall L', L < L' -> Forall (fun fn => fn_parent fn < fn_label fn) (flattens ks L L')).
  { induction IH as [|k r Hk _ IHr]; intros L' HL; [constructor|]. cbn [flattens]. apply Forall_app. split; [apply Hk, HL|apply IHr; lia]. }
  apply H. lia.
Qed.
Lemma flattens_parent_lt ks : forall P L, P < L -> Forall (fun fn => fn_parent fn < fn_label fn) (flattens ks P L).
Proof.
  induction ks as [|k r IH]; intros P L HPL; [constructor|]. cbn [flattens]. apply Forall_app.
  split; [now apply flatten_parent_lt|apply IH; lia].
Qed.

Lemma skel_ordered F : forall d1, List.map skel d1 = List.map fskel F ->
  Forall (fun fn => fn_parent fn < fn_label fn) F -> (forall fn, In fn F -> fn_label fn <= N.of_nat (length F)) ->
  ordered (N.of_nat (length d1)) d1.
Proof.
  intros d1 Hs Hlt Hle i Hi.
  assert (Hlen : length d1 = length F) by (rewrite <- (map_length skel d1), Hs, map_length; reflexivity).
  assert (Hin : In (skel i) (List.map fskel F)) by (rewrite <- Hs; now apply in_map).
  apply in_map_iff in Hin. destruct Hin as (fn & E & Hfn). unfold skel, fskel in E. inversion E as [[E1 E2 E3 E4]].
  rewrite Forall_forall in Hlt. rewrite Hlen. split; [apply Hlt, Hfn|apply Hle, Hfn].
Qed.

Theorem xml_roundtrip_ordered_generic e ebeh dbeh (D : dout) d roots evs revs :
  input_ok0 d roots -> hash_bytes e -> readable e ebeh d roots -> dec_law e ebeh dbeh D d roots ->
  xml_encode e ebeh d roots = Ok evs -> channel evs = Ok revs ->
  exists d', xml_decode e dbeh revs = Ok d' /\ ordered (N.of_nat (length d')) d'.
Proof.
  intros Hin Hb Hrd Hdl He Hc.
  destruct (encode_view e ebeh d roots Hrd evs He) as (its & stF & Hm & Hids & Hok & Hst & Hsorted & Hevs).
  assert (Hdec : Forall (it_forall (node_dec_ok e dbeh D)) its).
  { rewrite Forall_forall in *. intros it Hit. eapply (item_dec_ok e ebeh dbeh D d roots Hdl); [|apply Hok, Hit].
    rewrite <- Hids. intros y Hy. apply in_flat_map. exists it. split; assumption. }
  pose proof (channel_view e dbeh D its stF evs revs Hdec Hevs Hc) as Hrevs.
  pose proof (decode_view e dbeh D its (es_shared stF) Hdec (dict_is_bytes e stF Hb Hst)) as Hd. cbv zeta in Hd.
  rewrite <- Hrevs in Hd. eexists. split; [exact Hd|].
  set (F := flattens its 0 1) in *.
  destruct (flattens_facts its 0 1) as (A1 & A2 & A3). fold F in A1, A2, A3.
  apply (skel_ordered F).
  - rewrite apply_shared_rewrites_eq, apply_ref_rewrites_eq, !apply_rw_skel, map_map. reflexivity.
  - apply flattens_parent_lt. lia.
  - intros fn Hfn. assert (Hl : In (fn_label fn) (nseq 1 (length F))) by (rewrite A1, <- A2; now apply in_map).
    apply in_nseq in Hl. lia.
Qed.

(* ================================================================= (D) the normalised DOM *)
Definition inW (W : list N) (r : N) : bool := existsb (N.eqb r) W.
Lemma inW_true W r : inW W r = true <-> In r W.
Proof.
  unfold inW. rewrite existsb_exists. split.
  - intros (x & Hx & E). apply N.eqb_eq in E. now subst.
  - intro H. exists r. split; [exact H|apply N.eqb_refl].
Qed.
Lemma inW_false W r : inW W r = false <-> ~ In r W.
Proof. rewrite <- inW_true. destruct (inW W r); split; congruence. Qed.

(* what the second save sees of a value: a Ref the reader cannot resolve (no written instance carries it) is the null Ref;
   a SharedString is itself; any other value is what the per-value law reads back *)
Definition nback (W : list N) (norm : value -> value) (v : value) : value :=
  match v with
  | VRef r => if inW W r then VRef r else VRef 0
  | VSharedString c => VSharedString c
  | _ => norm v
  end.
Definition norm_props (W : list N) (norm : value -> value) (ps : list (bytes * value)) : list (bytes * value) :=
  List.map (fun kv => (fst kv, nback W norm (snd kv))) ps.
Definition norm_inst (W : list N) (norm : value -> value) (i : inst) : inst :=
  mkInst (i_ref i) (i_parent i) (i_class i) (i_name i) (norm_props W norm (i_props i)).
Definition norm_dom (W : list N) (norm : value -> value) (d : cdom) : cdom := List.map (norm_inst W norm) d.

Lemma find_inst_norm W norm d id : find_inst (norm_dom W norm d) id = option_map (norm_inst W norm) (find_inst d id).
Proof. induction d as [|i d IH]; [reflexivity|]. cbn [norm_dom List.map find_inst norm_inst i_ref]. destruct (i_ref i =? id); [reflexivity|exact IH]. Qed.
Lemma children_of_norm W norm d id : children_of (norm_dom W norm d) id = children_of d id.
Proof.
  unfold children_of. induction d as [|i d IH]; [reflexivity|]. cbn [norm_dom List.map filter norm_inst i_parent].
  destruct (i_parent i =? id); cbn [List.map i_ref]; [f_equal|]; exact IH.
Qed.
Lemma subtree_norm W norm d f : forall id, subtree (norm_dom W norm d) f id = subtree d f id.
Proof.
  induction f as [|f IH]; intro id; [reflexivity|]. cbn [subtree]. rewrite children_of_norm. f_equal.
  induction (children_of d id) as [|c cs IHc]; [reflexivity|]. cbn [flat_map]. now rewrite IH, IHc.
Qed.
Lemma flat_subtree_norm W norm d f rs : flat_map (subtree (norm_dom W norm d) f) rs = flat_map (subtree d f) rs.
Proof. induction rs as [|r rs IH]; [reflexivity|]. cbn [flat_map]. now rewrite subtree_norm, IH. Qed.
Lemma norm_dom_length W norm d : length (norm_dom W norm d) = length d.
Proof. apply map_length. Qed.
Lemma written_norm W norm d roots : written (norm_dom W norm d) roots = written d roots.
Proof.
  unfold written. rewrite norm_dom_length. induction roots as [|r rs IH]; [reflexivity|]. cbn [flat_map]. now rewrite subtree_norm, IH.
Qed.

(* ---- small list facts *)
Lemma rs_find_inst_some d r i : find_inst d r = Some i -> In i d /\ i_ref i = r.
Proof.
  induction d as [|j d IH]; [discriminate|]. cbn [find_inst]. destruct (N.eqb_spec (i_ref j) r) as [E|_].
  - intro H. inversion H; subst. split; [now left|reflexivity].
  - intro H. destruct (IH H). split; [now right|assumption].
Qed.
Lemma rs_Forall2_conj {A C} (R R' : A -> C -> Prop) l l' : Forall2 R l l' -> Forall2 R' l l' -> Forall2 (fun a b => R a b /\ R' a b) l l'.
Proof. intro H. induction H as [|a b l l' Hab _ IH]; intro H'; inversion H'; subst; constructor; [split; assumption|now apply IH]. Qed.
Lemma rs_Forall2_in_l {A C} (R : A -> C -> Prop) l l' x : Forall2 R l l' -> In x l -> exists y, In y l' /\ R x y.
Proof.
  induction 1 as [|a b l l' Hab _ IH]; intros Hin; [contradiction|]. destruct Hin as [->|Hin].
  - exists b. split; [now left|exact Hab].
  - destruct (IH Hin) as (y & Hy & Hr). exists y. split; [now right|exact Hr].
Qed.
Lemma rs_Forall2_in_r {A C} (R : A -> C -> Prop) l l' y : Forall2 R l l' -> In y l' -> exists x, In x l /\ R x y.
Proof.
  induction 1 as [|a b l l' Hab _ IH]; intros Hin; [contradiction|]. destruct Hin as [->|Hin].
  - exists a. split; [now left|exact Hab].
  - destruct (IH Hin) as (x & Hx & Hr). exists x. split; [now right|exact Hr].
Qed.
Lemma bfind_map_values {V U} (g : V -> U) k (l : list (bytes * V)) :
  bfind k (List.map (fun kv => (fst kv, g (snd kv))) l) = option_map g (bfind k l).
Proof. induction l as [|[k0 v0] l IH]; [reflexivity|]. cbn [List.map bfind fst snd]. destruct (bytes_eqb k k0); [reflexivity|exact IH]. Qed.
Lemma NoDup_keys_pairs {V} (l : list (bytes * V)) : NoDup (List.map fst l) -> NoDup l.
Proof.
  induction l as [|x l IH]; intro H; [constructor|]. cbn [List.map] in H. inversion H as [|? ? Hn Hd]; subst.
  constructor; [|now apply IH]. intro Hin. apply Hn. now apply in_map.
Qed.
Lemma perm_of_bfind {V} (l1 l2 : list (bytes * V)) :
  NoDup (List.map fst l1) -> NoDup (List.map fst l2) -> (forall k, bfind k l1 = bfind k l2) -> Permutation l1 l2.
Proof.
  intros H1 H2 Hk. apply NoDup_Permutation; [now apply NoDup_keys_pairs|now apply NoDup_keys_pairs|].
  intros [k v]. split; intro Hin.
  - apply bfind_some_in. rewrite <- Hk. now apply in_bfind.
  - apply bfind_some_in. rewrite Hk. now apply in_bfind.
Qed.

(* ---- the renaming [label W] on the refs that are left after the normalisation *)
Definition Pw (W : list N) (r : N) : Prop := r = 0 \/ In r W.
Lemma label_inj W a b : ~ In 0 W -> Pw W a -> Pw W b -> label W a = label W b -> a = b.
Proof.
  intros H0 Ha Hb E.
  assert (L0 : label W 0 = 0) by (now apply label_notin).
  destruct Ha as [->|Ha], Hb as [->|Hb]; [reflexivity| | |].
  - rewrite L0 in E. destruct (label_in W b Hb) as [Hl _]. lia.
  - rewrite L0 in E. destruct (label_in W a Ha) as [Hl _]. lia.
  - destruct (label_in W a Ha) as [_ Hna]. destruct (label_in W b Hb) as [_ Hnb]. rewrite E in Hna. congruence.
Qed.

Lemma value_back_rename W norm v : ~ In 0 W -> (nonspecial v -> plain (norm v) = true) ->
  value_back W norm v = rename_value (label W) (nback W norm v).
Proof.
  intros H0 Hp. destruct (value_cases v) as [(r & ->)|[(c & ->)|Hns]].
  - cbn [value_back nback]. destruct (inW W r) eqn:E; cbn [rename_value]; [reflexivity|].
    apply inW_false in E. rewrite (label_notin W r E), (label_notin W 0 H0). reflexivity.
  - reflexivity.
  - rewrite value_back_nonspecial by exact Hns. replace (nback W norm v) with (norm v) by (destruct v; try contradiction Hns; reflexivity).
    symmetry. apply rename_plain, Hp, Hns.
Qed.
Lemma nback_refs W norm v : (nonspecial v -> plain (norm v) = true) -> Forall (Pw W) (value_refs (nback W norm v)).
Proof.
  intro Hp. destruct (value_cases v) as [(r & ->)|[(c & ->)|Hns]].
  - cbn [nback]. destruct (inW W r) eqn:E; cbn [value_refs]; (constructor; [|constructor]); [right; now apply inW_true|now left].
  - constructor.
  - replace (nback W norm v) with (norm v) by (destruct v; try contradiction Hns; reflexivity).
    rewrite (proj2 (rename_plain (fun x => x) _ (Hp Hns))). constructor.
Qed.

(* ================================================================= (E) the second save *)
(* the per-value law with its normalisation [norm]: every value (other than a Ref or a SharedString) of a written instance is
   read back as [norm v], which is neither a Ref nor a Content object (the reader delivers those by other routes) *)
Definition norm_law (e : xenv) (d : cdom) (roots : list N) (norm : value -> value) : Prop :=
  forall id i k v, In id (written d roots) -> find_inst d id = Some i -> In (k, v) (i_props i) -> nonspecial v ->
    vlaw (xe_o e) v (norm v) /\ plain (norm v) = true.

Lemma written_in_dom d roots d1 e : Forall2 (inst_back e d roots (written d roots)) (written d roots) d1 ->
  forall id, In id (written d roots) -> In id (List.map i_ref d).
Proof.
  intros H id Hid. destruct (rs_Forall2_in_l _ _ _ _ H Hid) as (i' & _ & i & Hf & _).
  destruct (rs_find_inst_some _ _ _ Hf) as [Hi <-]. now apply in_map.
Qed.

Theorem xml_resave e ebeh dbeh d roots norm evs revs :
  input_ok d roots -> plain_mode e ebeh dbeh d roots -> hash_ok e -> norm_law e d roots norm ->
  xml_encode e ebeh d roots = Ok evs -> channel evs = Ok revs ->
  exists d1, xml_decode e dbeh revs = Ok d1 /\ same_forest e d roots d1 /\ forest_rel d roots d1 /\
             Forall2 (values_back d (written d roots) norm) (written d roots) d1 /\
             ordered (N.of_nat (length d1)) d1 /\
             xml_encode e ebeh d1 (children_of d1 0) = xml_encode e ebeh (norm_dom (written d roots) norm d) roots.
Proof.
  intros Hin Hpm Hh Hnl He Hc.
  assert (Hn : forall id i k v, In id (written d roots) -> find_inst d id = Some i -> In (k, v) (i_props i) -> nonspecial v ->
                 vlaw (xe_o e) v (norm v)) by (intros id i k v H1 H2 H3 H4; apply (Hnl id i k v H1 H2 H3 H4)).
  assert (Hrd : readable_dom e d roots) by (intros id i k v H1 H2 H3 H4; exists (norm v); eapply Hn; eassumption).
  destruct (xml_roundtrip_values e ebeh dbeh d roots norm evs revs Hin Hpm Hh Hn He Hc) as (d1 & Hd & Hsf & Hvb).
  destruct (xml_roundtrip_forest e ebeh dbeh d roots evs revs Hin Hpm (hash_ok_bytes e Hh) Hrd He Hc) as (d1' & Hd' & Hfr).
  rewrite Hd in Hd'. inversion Hd'; subst d1'. clear Hd'.
  destruct (xml_roundtrip_ordered_generic e ebeh dbeh plainD d roots evs revs (input_ok_0 d roots Hin) (hash_ok_bytes e Hh)
              (readable_plain e ebeh dbeh d roots Hpm Hrd) (dec_law_plain e ebeh dbeh d roots Hin Hpm) He Hc) as (d1' & Hd' & Hord).
  rewrite Hd in Hd'. inversion Hd'; subst d1'. clear Hd'.
  exists d1. split; [exact Hd|]. split; [exact Hsf|]. split; [exact Hfr|]. split; [exact Hvb|]. split; [exact Hord|].
  set (W := written d roots) in *.
  destruct Hin as (Hndd & HndW & H0 & Hprops).
  destruct Hsf as [Hib Hlab]. destruct Hfr as (_ & _ & Hroots & Hkids). fold W in Hib, Hlab, Hroots, Hkids.
  assert (Hlen1 : length d1 = length W) by (rewrite <- (map_length i_ref d1), Hlab, nseq_length; reflexivity).
  assert (HlenW : (length W <= length d)%nat).
  { rewrite <- (map_length i_ref d). apply NoDup_incl_length; [exact HndW|]. intros id Hid. eapply written_in_dom; eassumption. }
  assert (Hnd1 : NoDup (List.map i_ref d1)) by (rewrite Hlab; apply nodup_nseq).
  unfold xml_encode. rewrite !xml_encode_with_eq. rewrite norm_dom_length.
  (* the fuel on the decoded DOM *)
  rewrite (seq_with_ext_in (serialize_instance_with serialize_property (S (length d1)) e ebeh d1)
                           (serialize_instance_with serialize_property (S (length d)) e ebeh d1)).
  2:{ intros s c Hcin. destruct (children_ordered _ d1 0 c Hord Hcin) as [_ Hcle].
      apply (serialize_instance_fuel_ordered serialize_property e ebeh _ d1 Hord); lia. }
  rewrite Hroots.
  (* the simulation *)
  assert (Hsim : sim (label W) (Pw W)
                   (seq_with (serialize_instance_with serialize_property (S (length d)) e ebeh d1) (List.map (label W) roots) es0)
                   (seq_with (serialize_instance_with serialize_property (S (length d)) e ebeh (norm_dom W norm d)) roots es0)).
  { apply (roots_sim (label W) (Pw W) (fun a b => label_inj W a b H0) serialize_property e ebeh (norm_dom W norm d) d1 W).
    - apply serialize_property_rn; [now left|now apply label_notin|exact (fun a b => label_inj W a b H0)].
    - intros id Hid. now right.
    - intros id Hid.
      destruct (rs_Forall2_in_l _ _ _ _ (rs_Forall2_conj _ _ _ _ Hib Hvb) Hid) as (i' & Hi' & Hback & Hval).
      destruct Hback as (i & Hf & Hr & _ & Hcl & Hnm & Hpb). destruct Hval as (i0 & Hf0 & Hndk & Hbf).
      rewrite Hf in Hf0. inversion Hf0; subst i0. clear Hf0.
      assert (Hplain : forall k v, In (k, v) (i_props i) -> nonspecial v -> plain (norm v) = true)
        by (intros k v Hkv Hns; apply (Hnl id i k v Hid Hf Hkv Hns)).
      destruct (Hprops id i Hid Hf) as [Hndi _].
      exists (norm_inst W norm i), i'. split; [rewrite find_inst_norm, Hf; reflexivity|].
      split; [rewrite <- Hr; now apply find_inst_nodup|]. split; [exact Hcl|]. split; [exact Hnm|].
      cbn [norm_inst i_props]. split; [|split].
      + unfold rename_props. rewrite <- bsort_map_values. apply bsort_perm; [|exact Hndk].
        apply perm_of_bfind; [exact Hndk| |].
        * unfold norm_props. rewrite !map_fst_map_values. exact Hndi.
        * intro k. rewrite Hbf. unfold norm_props. rewrite !bfind_map_values.
          destruct (bfind k (i_props i)) as [v|] eqn:Ek; [|reflexivity]. cbn [option_map]. f_equal.
          apply value_back_rename; [exact H0|]. apply (Hplain k). now apply bfind_some_in.
      + unfold props_refs, norm_props. apply Forall_forall. intros r Hr'. apply in_flat_map in Hr'. destruct Hr' as (kv & Hkv & Hr').
        apply in_map_iff in Hkv. destruct Hkv as ([k v] & <- & Hkv). cbn [fst snd] in Hr'.
        assert (Hall : Forall (Pw W) (value_refs (nback W norm v))) by (apply nback_refs; apply (Hplain k v Hkv)).
        rewrite Forall_forall in Hall. apply Hall, Hr'.
      + rewrite children_of_norm. apply Hkids, Hid.
    - intros y Hy. unfold W, written.
      pose proof (flat_subtree_norm W norm d (S (length d)) roots) as E.
      rewrite <- E. exact Hy. }
  destruct Hsim as [-> _].
  destruct (seq_with (serialize_instance_with serialize_property (S (length d)) e ebeh (norm_dom W norm d)) roots es0) as [[body st]| |c|];
    reflexivity.
Qed.
Print Assumptions xml_resave.

Corollary xml_resave_ok e ebeh dbeh d roots norm evs revs evs' :
  input_ok d roots -> plain_mode e ebeh dbeh d roots -> hash_ok e -> norm_law e d roots norm ->
  xml_encode e ebeh d roots = Ok evs -> channel evs = Ok revs ->
  xml_encode e ebeh (norm_dom (written d roots) norm d) roots = Ok evs' ->
  exists d1, xml_decode e dbeh revs = Ok d1 /\ xml_encode e ebeh d1 (children_of d1 0) = Ok evs'.
Proof.
  intros Hin Hpm Hh Hnl He Hc He'.
  destruct (xml_resave e ebeh dbeh d roots norm evs revs Hin Hpm Hh Hnl He Hc) as (d1 & Hd & _ & _ & _ & _ & E).
  exists d1. split; [exact Hd|]. now rewrite E.
Qed.

(* ================================================================= (F) the decoded DOM is an encoder input again *)
Lemma map_lab_from W : NoDup W -> forall L, List.map (lab_from L W) W = nseq L (length W).
Proof.
  induction W as [|x W IH]; intros Hnd L; [reflexivity|]. inversion Hnd as [|? ? Hn Hd]; subst.
  cbn [List.map lab_from length nseq]. rewrite N.eqb_refl. f_equal. rewrite <- (IH Hd (L + 1)).
  apply map_ext_in. intros y Hy. destruct (N.eqb_spec x y) as [->|_]; [contradiction|reflexivity].
Qed.
Lemma map_label W : NoDup W -> List.map (label W) W = nseq 1 (length W).
Proof. intro H. apply (map_lab_from W H 1). Qed.

Lemma subtree_forest d d1 W :
  (forall r, In r W -> children_of d1 (label W r) = List.map (label W) (children_of d r)) ->
  forall f r, incl (subtree d f r) W -> subtree d1 f (label W r) = List.map (label W) (subtree d f r).
Proof.
  intros Hkids f. induction f as [|f IH]; intros r Hsub; [reflexivity|]. cbn [subtree] in *. cbn [List.map]. f_equal.
  rewrite Hkids by (apply Hsub; now left).
  assert (Hcs : forall c, In c (children_of d r) -> incl (subtree d f c) W).
  { intros c Hc y Hy. apply Hsub. right. apply in_flat_map. exists c. split; assumption. }
  clear Hsub. induction (children_of d r) as [|c cs IHc]; [reflexivity|]. cbn [List.map flat_map]. rewrite map_app.
  rewrite IH by (apply Hcs; now left). rewrite IHc; [reflexivity|]. intros c' Hc'. apply Hcs. now right.
Qed.

Lemma flat_subtree_forest d d1 W f :
  (forall r, In r W -> children_of d1 (label W r) = List.map (label W) (children_of d r)) ->
  forall rs, (forall r, In r rs -> incl (subtree d f r) W) ->
    flat_map (subtree d1 f) (List.map (label W) rs) = List.map (label W) (flat_map (subtree d f) rs).
Proof.
  intros Hkids rs. induction rs as [|r rs IH]; intro Hsub; [reflexivity|]. cbn [List.map flat_map]. rewrite map_app.
  rewrite (subtree_forest d d1 W Hkids) by (apply Hsub; now left). rewrite IH; [reflexivity|]. intros r' Hr'. apply Hsub. now right.
Qed.

Lemma bfind_none_iff {V} k (l : list (bytes * V)) : bfind k l = None <-> ~ In k (List.map fst l).
Proof.
  induction l as [|[k0 v0] l IH]; cbn [bfind List.map fst In]; [tauto|]. destruct (bytes_eqb k k0) eqn:E.
  - apply beqb_true_iff in E. subst. split; [discriminate|tauto].
  - apply beqb_false_iff in E. rewrite IH. assert (k0 <> k) by congruence. tauto.
Qed.

Lemma norm_dom_id W norm d :
  (forall i k v, In i d -> In (k, v) (i_props i) -> nback W norm v = v) -> norm_dom W norm d = d.
Proof.
  intro H. unfold norm_dom. rewrite <- (List.map_id d) at 2. apply map_ext_in. intros i Hi. destruct i as [r p c nm ps].
  unfold norm_inst. cbn [i_ref i_parent i_class i_name i_props]. f_equal.
  unfold norm_props. rewrite <- (List.map_id ps) at 2. apply map_ext_in. intros [k v] Hkv. cbn [fst snd]. f_equal. apply (H _ k v Hi). exact Hkv.
Qed.

(* idempotence of the normalisation, in the form needed: what the law reads back is read back as itself *)
Definition norm_idem (e : xenv) (d : cdom) (roots : list N) (norm : value -> value) : Prop :=
  forall id i k v, In id (written d roots) -> find_inst d id = Some i -> In (k, v) (i_props i) -> nonspecial v ->
    nonspecial (norm v) -> vlaw (xe_o e) (norm v) (norm v).

(* everything known about the DOM [d1] decoded from the first save *)
Section Decoded.
  Variables (e : xenv) (ebeh : ebehavior) (dbeh : dbehavior) (d : cdom) (roots : list N) (norm : value -> value) (d1 : cdom).
  Let W := written d roots.
  Hypothesis Hin : input_ok d roots.
  Hypothesis Hpm : plain_mode e ebeh dbeh d roots.
  Hypothesis Hnl : norm_law e d roots norm.
  Hypothesis Hid : norm_idem e d roots norm.
  Hypothesis Hsf : same_forest e d roots d1.
  Hypothesis Hfr : forest_rel d roots d1.
  Hypothesis Hvb : Forall2 (values_back d W norm) W d1.
  Hypothesis Hord : ordered (N.of_nat (length d1)) d1.

  Lemma dec_len : length d1 = length W.
  Proof. destruct Hsf as [_ Hlab]. rewrite <- (map_length i_ref d1), Hlab, nseq_length. reflexivity. Qed.
  Lemma dec_lenW : (length W <= length d)%nat.
  Proof.
    destruct Hin as (_ & HndW & _). destruct Hsf as [Hib _].
    rewrite <- (map_length i_ref d). apply NoDup_incl_length; [exact HndW|]. intros id Hidw. eapply written_in_dom; eassumption.
  Qed.

  Lemma dec_written : written d1 (children_of d1 0) = nseq 1 (length W).
  Proof.
    destruct Hin as (_ & HndW & _). destruct Hfr as (_ & _ & Hroots & Hkids). fold W in Hroots, Hkids.
    rewrite <- (map_label W HndW). unfold written at 1.
    assert (E : forall cs, (forall c, In c cs -> In c (children_of d1 0)) ->
              flat_map (subtree d1 (S (length d1))) cs = flat_map (subtree d1 (S (length d))) cs).
    { induction cs as [|c cs IH]; intro Hcs; [reflexivity|]. cbn [flat_map]. rewrite IH by (intros c' Hc'; apply Hcs; now right). f_equal.
      destruct (children_ordered _ d1 0 c Hord (Hcs c (or_introl eq_refl))) as [_ Hle].
      pose proof dec_len. pose proof dec_lenW. apply (subtree_fuel_ordered _ d1 Hord); lia. }
    rewrite E by (intros c Hc; exact Hc). rewrite Hroots.
    rewrite (flat_subtree_forest d d1 W (S (length d)) Hkids); [reflexivity|].
    intros r Hr y Hy. unfold W, written. apply in_flat_map. exists r. split; assumption.
  Qed.

  Lemma dec_back i1 : In i1 d1 ->
    exists id i, In id W /\ find_inst d id = Some i /\ i_class i1 = i_class i /\ NoDup (List.map fst (i_props i1)) /\
                 (forall k, bfind k (i_props i1) = option_map (value_back W norm) (bfind k (i_props i))).
  Proof.
    intro Hi1. destruct Hsf as [Hib _]. fold W in Hib.
    destruct (rs_Forall2_in_r _ _ _ _ (rs_Forall2_conj _ _ _ _ Hib Hvb) Hi1) as (id & HidW & Hback & Hval).
    destruct Hback as (i & Hf & _ & _ & Hcl & _). destruct Hval as (i0 & Hf0 & Hndk & Hbf).
    rewrite Hf in Hf0. inversion Hf0; subst i0. exists id, i. repeat split; assumption.
  Qed.

  Lemma dec_keys i1 id i : find_inst d id = Some i ->
    (forall k, bfind k (i_props i1) = option_map (value_back W norm) (bfind k (i_props i))) ->
    forall k, In k (List.map fst (i_props i1)) <-> In k (List.map fst (i_props i)).
  Proof.
    intros _ Hbf k. specialize (Hbf k).
    pose proof (bfind_none_iff k (i_props i1)) as A. pose proof (bfind_none_iff k (i_props i)) as B.
    destruct (bfind k (i_props i)) as [v|]; destruct (bfind k (i_props i1)) as [v1|]; cbn [option_map] in Hbf; try discriminate.
    - split; intros _.
      + destruct (in_dec (list_eq_dec N.eq_dec) k (List.map fst (i_props i))) as [H|H]; [exact H|]. apply B in H. discriminate.
      + destruct (in_dec (list_eq_dec N.eq_dec) k (List.map fst (i_props i1))) as [H|H]; [exact H|]. apply A in H. discriminate.
    - split; intro H; exfalso; [apply (proj1 A eq_refl H)|apply (proj1 B eq_refl H)].
  Qed.

  Lemma dec_value i1 k v1 : In i1 d1 -> In (k, v1) (i_props i1) ->
    exists id i v, In id W /\ find_inst d id = Some i /\ In (k, v) (i_props i) /\ v1 = value_back W norm v.
  Proof.
    intros Hi1 Hkv. destruct (dec_back i1 Hi1) as (id & i & HidW & Hf & _ & Hndk & Hbf).
    pose proof (in_bfind _ _ _ Hndk Hkv) as E. rewrite Hbf in E.
    destruct (bfind k (i_props i)) as [v|] eqn:Ev; [|discriminate]. cbn [option_map] in E. inversion E.
    exists id, i, v. repeat split; try assumption. now apply bfind_some_in.
  Qed.

  Lemma dec_input_ok : input_ok d1 (children_of d1 0).
  Proof.
    destruct Hsf as [_ Hlab]. split; [rewrite Hlab; apply nodup_nseq|]. rewrite dec_written.
    split; [apply nodup_nseq|]. split; [rewrite in_nseq; lia|].
    intros id1 i1 _ Hf1. destruct (rs_find_inst_some _ _ _ Hf1) as [Hi1 _].
    destruct (dec_back i1 Hi1) as (id & i & HidW & Hf & _ & Hndk & Hbf). split; [exact Hndk|].
    rewrite (dec_keys i1 id i Hf Hbf). destruct Hin as (_ & _ & _ & Hprops). apply (Hprops id i HidW Hf).
  Qed.

  Lemma dec_plain_mode : plain_mode e ebeh dbeh d1 (children_of d1 0).
  Proof.
    intros id1 i1 _ Hf1. destruct (rs_find_inst_some _ _ _ Hf1) as [Hi1 _].
    destruct (dec_back i1 Hi1) as (id & i & HidW & Hf & Hcl & Hndk & Hbf). rewrite Hcl.
    destruct (Hpm id i HidW Hf) as [HN Hk]. split; [exact HN|]. intros k Hkin. apply Hk. now apply (dec_keys i1 id i Hf Hbf).
  Qed.

  Lemma dec_norm_law : norm_law e d1 (children_of d1 0) (fun v => v) /\ norm_idem e d1 (children_of d1 0) (fun v => v).
  Proof.
    assert (H : forall id1 i1 k v1, find_inst d1 id1 = Some i1 -> In (k, v1) (i_props i1) -> nonspecial v1 ->
                  vlaw (xe_o e) v1 v1 /\ plain v1 = true).
    { intros id1 i1 k v1 Hf1 Hkv Hns. destruct (rs_find_inst_some _ _ _ Hf1) as [Hi1 _].
      destruct (dec_value i1 k v1 Hi1 Hkv) as (id & i & v & HidW & Hf & Hkv0 & ->).
      destruct (value_cases v) as [(r & ->)|[(c & ->)|Hns0]]; [contradiction Hns|contradiction Hns|].
      rewrite value_back_nonspecial in * by exact Hns0. destruct (Hnl id i k v HidW Hf Hkv0 Hns0) as [_ Hp].
      split; [exact (Hid id i k v HidW Hf Hkv0 Hns0 Hns)|exact Hp]. }
    split.
    - intros id1 i1 k v1 _ Hf1 Hkv Hns. exact (H id1 i1 k v1 Hf1 Hkv Hns).
    - intros id1 i1 k v1 _ Hf1 Hkv Hns _. exact (proj1 (H id1 i1 k v1 Hf1 Hkv Hns)).
  Qed.

  (* every Ref the decoded DOM holds is null or points to one of its instances *)
  Lemma dec_closed : norm_dom (written d1 (children_of d1 0)) (fun v => v) d1 = d1.
  Proof.
    apply norm_dom_id. intros i1 k v1 Hi1 Hkv. rewrite dec_written.
    destruct (dec_value i1 k v1 Hi1 Hkv) as (id & i & v & HidW & Hf & Hkv0 & ->).
    destruct (value_cases v) as [(r & ->)|[(c & ->)|Hns0]]; [|reflexivity|].
    - cbn [value_back nback]. destruct (in_dec N.eq_dec r W) as [Hr|Hr].
      + replace (inW (nseq 1 (length W)) (label W r)) with true; [reflexivity|]. symmetry. apply inW_true, in_nseq.
        destruct (label_in W r Hr) as [Hl _]. lia.
      + rewrite (label_notin W r Hr). destruct (inW (nseq 1 (length W)) 0); reflexivity.
    - rewrite value_back_nonspecial by exact Hns0. destruct (Hnl id i k v HidW Hf Hkv0 Hns0) as [_ Hp].
      destruct (norm v); try reflexivity. discriminate Hp.
  Qed.
End Decoded.

(* ================================================================= (G) the fixed point *)
(* [d1] is what is loaded from the first save of [d]; saving [d1], loading that and saving again gives the same document *)
Theorem xml_resave_fixed_point e ebeh dbeh d roots norm evs revs :
  input_ok d roots -> plain_mode e ebeh dbeh d roots -> hash_ok e -> norm_law e d roots norm -> norm_idem e d roots norm ->
  xml_encode e ebeh d roots = Ok evs -> channel evs = Ok revs ->
  exists d1, xml_decode e dbeh revs = Ok d1 /\
    xml_encode e ebeh d1 (children_of d1 0) = xml_encode e ebeh (norm_dom (written d roots) norm d) roots /\
    forall evs2 revs2, xml_encode e ebeh d1 (children_of d1 0) = Ok evs2 -> channel evs2 = Ok revs2 ->
      exists d2, xml_decode e dbeh revs2 = Ok d2 /\ xml_encode e ebeh d2 (children_of d2 0) = Ok evs2.
Proof.
  intros Hin Hpm Hh Hnl Hid He Hc.
  destruct (xml_resave e ebeh dbeh d roots norm evs revs Hin Hpm Hh Hnl He Hc) as (d1 & Hd & Hsf & Hfr & Hvb & Hord & E).
  exists d1. split; [exact Hd|]. split; [exact E|]. intros evs2 revs2 He2 Hc2.
  pose proof (dec_input_ok e d roots norm d1 Hin Hsf Hfr Hvb Hord) as Hin1.
  pose proof (dec_plain_mode e ebeh dbeh d roots norm d1 Hpm Hsf Hvb) as Hpm1.
  destruct (dec_norm_law e d roots norm d1 Hnl Hid Hsf Hvb) as [Hnl1 _].
  destruct (xml_resave e ebeh dbeh d1 (children_of d1 0) (fun v => v) evs2 revs2 Hin1 Hpm1 Hh Hnl1 He2 Hc2) as (d2 & Hd2 & _ & _ & _ & _ & E2).
  exists d2. split; [exact Hd2|]. rewrite E2, (dec_closed e d roots norm d1 Hin Hnl Hsf Hfr Hvb Hord). exact He2.
Qed.
Print Assumptions xml_resave_fixed_point.

(* ================================================================= (H) closed: the simple types *)
Lemma norm_f32_idem x : norm_f32 (norm_f32 x) = norm_f32 x.
Proof. unfold norm_f32. destruct (f32_is_nan x) eqn:E; [reflexivity|]. now rewrite E. Qed.
Lemma norm_f64_idem x : norm_f64 (norm_f64 x) = norm_f64 x.
Proof. unfold norm_f64. destruct (f64_is_nan x) eqn:E; [reflexivity|]. now rewrite E. Qed.
Lemma norm_v3_idem v : norm_v3 (norm_v3 v) = norm_v3 v.
Proof. unfold norm_v3. cbn [vx vy vz]. now rewrite !norm_f32_idem. Qed.
Lemma norm_v2_idem v : norm_v2 (norm_v2 v) = norm_v2 v.
Proof. unfold norm_v2. cbn [v2x v2y]. now rewrite !norm_f32_idem. Qed.
Lemma norm_udim_idem u : norm_udim (norm_udim u) = norm_udim u.
Proof. unfold norm_udim. cbn [ud_scale ud_offset]. now rewrite norm_f32_idem. Qed.
Lemma norm_phys_idem p : norm_phys (norm_phys p) = norm_phys p.
Proof.
  destruct p as [pp|]; [|reflexivity]. unfold norm_phys.
  cbn [ph_density ph_friction ph_elasticity ph_friction_weight ph_elasticity_weight]. now rewrite !norm_f32_idem.
Qed.
Lemma norm_font_idem f : norm_font (norm_font f) = norm_font f.
Proof.
  unfold norm_font. cbn [fo_family fo_weight fo_style fo_cached]. f_equal.
  - destruct (font_weight_ok (fo_weight f)) eqn:E; [now rewrite E|reflexivity].
  - destruct (fo_style f =? 0); reflexivity.
Qed.
Lemma norm_simple_idem v : norm_simple (norm_simple v) = norm_simple v.
Proof.
  destruct v; cbn [norm_simple]; try reflexivity;
    rewrite ?norm_f32_idem, ?norm_f64_idem, ?norm_v3_idem, ?norm_v2_idem, ?norm_udim_idem, ?norm_phys_idem, ?norm_font_idem; reflexivity.
Qed.
Lemma norm_f32_range x : x < 4294967296 -> norm_f32 x < 4294967296.
Proof. unfold norm_f32. destruct (f32_is_nan x); [intros _; reflexivity|auto]. Qed.
Lemma simple_ok_norm v : simple_ok v -> simple_ok (norm_simple v).
Proof.
  destruct v; cbn [norm_simple simple_ok]; try tauto.
  - apply norm_f32_range.
  - unfold norm_font. cbn [fo_weight]. destruct (font_weight_ok (fo_weight f)); [auto|intros _; reflexivity].
Qed.
Lemma nonspecial_norm_simple v : nonspecial v -> nonspecial (norm_simple v).
Proof. destruct v; cbn [norm_simple nonspecial]; tauto. Qed.
Lemma plain_norm_simple v : simple_ok v -> nonspecial v -> plain (norm_simple v) = true.
Proof. destruct v as [| | | | | | | | | | | | | | | | | | | | | | | | | | | | | | | | | | | | | | |c]; cbn [norm_simple simple_ok nonspecial plain]; try tauto; try reflexivity. destruct c; tauto. Qed.

Lemma norm_law_simple e d roots : float_laws (xe_o e) -> simple_dom d roots -> norm_law e d roots norm_simple.
Proof.
  intros Hfl Hs id i k v H1 H2 H3 Hns. pose proof (Hs id i k v H1 H2 H3) as Hok.
  split; [now apply simple_law|now apply plain_norm_simple].
Qed.
Lemma norm_idem_simple e d roots : float_laws (xe_o e) -> simple_dom d roots -> norm_idem e d roots norm_simple.
Proof.
  intros Hfl Hs id i k v H1 H2 H3 Hns Hns'. pose proof (Hs id i k v H1 H2 H3) as Hok.
  rewrite <- (norm_simple_idem v) at 2. apply simple_law; [exact Hfl|now apply simple_ok_norm|exact Hns'].
Qed.

(* C07, second half, XML, for the 26 simple value types (plus Ref and SharedString): no hypothesis beyond those of
   [xml_roundtrip_simple_types] *)
Theorem xml_resave_simple_types e ebeh dbeh d roots evs revs :
  input_ok d roots -> plain_mode e ebeh dbeh d roots -> hash_ok e -> float_laws (xe_o e) -> simple_dom d roots ->
  xml_encode e ebeh d roots = Ok evs -> channel evs = Ok revs ->
  exists d1, xml_decode e dbeh revs = Ok d1 /\
    xml_encode e ebeh d1 (children_of d1 0) = xml_encode e ebeh (norm_dom (written d roots) norm_simple d) roots /\
    forall evs2 revs2, xml_encode e ebeh d1 (children_of d1 0) = Ok evs2 -> channel evs2 = Ok revs2 ->
      exists d2, xml_decode e dbeh revs2 = Ok d2 /\ xml_encode e ebeh d2 (children_of d2 0) = Ok evs2.
Proof.
  intros Hin Hpm Hh Hfl Hs He Hc.
  apply (xml_resave_fixed_point e ebeh dbeh d roots norm_simple evs revs Hin Hpm Hh (norm_law_simple e d roots Hfl Hs)
           (norm_idem_simple e d roots Hfl Hs) He Hc).
Qed.
Print Assumptions xml_resave_simple_types.

(* ================================================================= (I) non-vacuity: save, load, save, load, save *)
(* [d_rt] of XmlRoundTrip: two roots (1 and 5), three levels, an unwritten instance, forward / backward / null / dangling Refs,
   two SharedStrings, a NaN with a payload (F32_NNAN inside a Vector3).  The hypotheses of [xml_resave_simple_types] hold; the
   second and the third save are the same event list; the first differs (NaN payload, and the dangling Ref 3 -> 99, which the
   first save numbers and the second writes as null); the second is the first save of the normalised DOM. *)
Example xml_resave_example :
  input_ok d_rt [1; 5] /\ plain_mode e_rt EWriteUnknown DReadUnknown d_rt [1; 5] /\ hash_ok e_rt /\ float_laws (xe_o e_rt) /\
  simple_dom d_rt [1; 5] /\
  match xml_encode e_rt EWriteUnknown d_rt [1; 5] with
  | Ok evs1 =>
      match (revs1 <- channel evs1 ;; xml_decode e_rt DReadUnknown revs1) with
      | Ok d1 =>
          match xml_encode e_rt EWriteUnknown d1 (children_of d1 0) with
          | Ok evs2 =>
              match (revs2 <- channel evs2 ;; xml_decode e_rt DReadUnknown revs2) with
              | Ok d2 =>
                  xml_encode e_rt EWriteUnknown d2 (children_of d2 0) = Ok evs2 /\ d2 = d1 /\ evs1 <> evs2 /\
                  xml_encode e_rt EWriteUnknown (norm_dom (written d_rt [1; 5]) norm_simple d_rt) [1; 5] = Ok evs2 /\
                  length evs1 = length evs2
              | _ => False
              end
          | _ => False
          end
      | _ => False
      end
  | _ => False
  end.
Proof.
  destruct xml_roundtrip_example as (_ & Hin & Hpm & Hh & Hfl & Hs & _).
  split; [exact Hin|]. split; [exact Hpm|]. split; [exact Hh|]. split; [exact Hfl|]. split; [exact Hs|].
  vm_compute. split; [reflexivity|]. split; [reflexivity|]. split; [discriminate|]. split; reflexivity.
Qed.

(* ######################################################################################################################## *)
(* BINARY                                                                                                                   *)
(* ######################################################################################################################## *)
From RbxVerif Require Import BinValues BinFile BinFileFacts BinStructure BinPostorder BinTypeInfoFacts BinRename BinKnownProps BinRoundTrip.

(* ================================================================= (J) encode_file sees the DOM only through the written instances *)
(* [encode_chunks] reads its DOM through [find_inst], [children_of] and (for the fuel of the traversal) its length.  Two DOMs
   that show the same instance and the same children for every written referent give the same chunks: the order of the
   instance list, the instances that are not written and the length of the list do not matter. *)
Lemma add_loop_fuel d dom : forall f outer stack lv out r,
  run (children_of dom) f outer stack lv out = Some r ->
  forall st k, add_loop (f + k) d dom outer stack lv st = add_loop f d dom outer stack lv st.
Proof.
  induction f as [|f IH]; intros outer stack lv out r H st k; [discriminate|].
  cbn [Nat.add add_loop run] in *. destruct stack as [|x rest]; [reflexivity|].
  destruct (find_inst dom x) as [inst|]; [|reflexivity].
  destruct outer; [eapply IH; exact H|].
  destruct (negb (is_nil (children_of dom x)) && negb (opt_eqb (last_opt (children_of dom x)) lv))%bool; [eapply IH; exact H|].
  destruct (collect_type_info d _ inst) as [st1| | |]; cbn [rbind]; try reflexivity. eapply IH; exact H.
Qed.

Section BinExt.
  Variables (d : db) (dom dom' : cdom) (S : list N).
  Hypothesis HS : forall r, In r S ->
    find_inst dom r = find_inst dom' r /\ children_of dom r = children_of dom' r /\ incl (children_of dom r) S.

  Lemma add_loop_ext : forall fuel outer stack lv st, incl stack S ->
    add_loop fuel d dom outer stack lv st = add_loop fuel d dom' outer stack lv st.
  Proof.
    induction fuel as [|f IH]; intros outer stack lv st Hst; [reflexivity|].
    cbn [add_loop]. destruct stack as [|x rest]; [reflexivity|].
    destruct (HS x (Hst x (or_introl eq_refl))) as (E1 & E2 & E3). rewrite <- E1, <- E2.
    destruct (find_inst dom x) as [inst|]; [|reflexivity].
    destruct outer; [apply IH; intros y Hy; apply in_app_or in Hy; destruct Hy as [Hy|Hy]; [now apply E3|now apply Hst]|].
    destruct (negb (is_nil (children_of dom x)) && negb (opt_eqb (last_opt (children_of dom x)) lv))%bool; [now apply IH|].
    destruct (collect_type_info d _ inst) as [st1| | |]; cbn [rbind]; try reflexivity.
    apply IH. intros y Hy. apply Hst. now right.
  Qed.

  Lemma map_res_ext_in {A B} (f g : A -> res B) (l : list A) : (forall x, In x l -> f x = g x) -> map_res f l = map_res g l.
  Proof.
    induction l as [|x l IH]; intro H; [reflexivity|]. cbn [map_res]. rewrite H by (now left).
    rewrite IH by (intros y Hy; apply H; now right). reflexivity.
  Qed.
  Lemma fold_find_ext (l : list N) : incl l S -> forall acc,
    fold_res (fun acc r => match find_inst dom r with Some i => Ok (acc ++ [i]) | None => Panic end) acc l =
    fold_res (fun acc r => match find_inst dom' r with Some i => Ok (acc ++ [i]) | None => Panic end) acc l.
  Proof.
    induction l as [|x l IH]; intros Hl acc; [reflexivity|]. cbn [fold_res].
    rewrite <- (proj1 (HS x (Hl x (or_introl eq_refl)))). destruct (find_inst dom x); cbn [rbind]; [|reflexivity].
    apply IH. intros y Hy. apply Hl. now right.
  Qed.
End BinExt.

Theorem encode_chunks_shape d p dom dom' ts :
  Forall (agrees (children_of dom)) ts -> NoDup (flat_map refs ts) ->
  (forall r, In r (flat_map refs ts) -> find_inst dom r = find_inst dom' r /\ children_of dom r = children_of dom' r) ->
  (sizes ts <= length dom)%nat -> (sizes ts <= length dom')%nat ->
  encode_chunks d p dom (List.map root ts) = encode_chunks d p dom' (List.map root ts).
Proof.
  intros Hag Hnd Hsame Hl Hl'.
  set (S := flat_map refs ts).
  assert (HS : forall r, In r S -> find_inst dom r = find_inst dom' r /\ children_of dom r = children_of dom' r /\ incl (children_of dom r) S).
  { intros r Hr. destruct (Hsame r Hr) as [E1 E2]. split; [exact E1|]. split; [exact E2|].
    unfold S in *. apply in_flat_map in Hr. destruct Hr as (t0 & Ht0 & Hr). destruct (refs_nsubtrees t0 r Hr) as (t & Ht & <-).
    rewrite Forall_forall in Hag. destruct (nsubtrees_facts _ t0 (Hag t0 Ht0) t Ht) as [Hat Hincl].
    destruct t as [q cs]. apply agrees_unfold in Hat. destruct Hat as [Hk _]. cbn [root]. rewrite Hk.
    intros y Hy. apply in_map_iff in Hy. destruct Hy as (c & <- & Hc). apply in_flat_map. exists t0. split; [exact Ht0|].
    apply Hincl. cbn [refs]. right. apply in_flat_map. exists c. split; [exact Hc|apply in_root_refs]. }
  assert (Hroots : incl (List.map root ts) S).
  { intros y Hy. apply in_map_iff in Hy. destruct Hy as (t & <- & Ht). apply in_flat_map. exists t. split; [exact Ht|apply in_root_refs]. }
  (* the traversal *)
  assert (Hadd : add_instances d p dom (List.map root ts) = add_instances d p dom' (List.map root ts)).
  { unfold add_instances. rewrite map_length.
    pose proof (postorder_fuel_suffices dom ts Hag Hnd) as Hrun.
    set (f0 := (3 * sizes ts + 3)%nat) in *.
    assert (E : forall n, (sizes ts <= n)%nat -> exists k, (3 * (n + 1) * (length ts + 1) = f0 + k)%nat).
    { intros n Hn. exists (3 * (n + 1) * (length ts + 1) - f0)%nat. unfold f0. nia. }
    destruct (E _ Hl) as (k & ->). destruct (E _ Hl') as (k' & ->).
    rewrite (add_loop_fuel d dom f0 _ _ _ _ _ Hrun).
    rewrite (add_loop_ext d dom dom' S HS f0 true _ None ser_state0 Hroots).
    assert (Hrun' : run (children_of dom') f0 true (List.map root ts) None [] = Some (flat_map post ts)).
    { apply postorder_fuel_suffices; [|exact Hnd]. clear - Hag HS. 
      assert (H : forall t, agrees (children_of dom) t -> incl (refs t) S -> agrees (children_of dom') t).
      { apply (tree_ind' (fun t => agrees (children_of dom) t -> incl (refs t) S -> agrees (children_of dom') t)).
        intros q cs IH Ha Hi. apply agrees_unfold in Ha. destruct Ha as [Hk Hcs]. apply agrees_unfold. split.
        - rewrite <- (proj1 (proj2 (HS q (Hi q (or_introl eq_refl))))). exact Hk.
        - rewrite Forall_forall in *. intros c Hc. apply IH; [exact Hc|apply Hcs, Hc|].
          intros y Hy. apply Hi. cbn [refs]. right. apply in_flat_map. exists c. split; assumption. }
      rewrite Forall_forall in *. intros t Ht. apply H; [apply Hag, Ht|]. intros y Hy. apply in_flat_map. exists t. split; assumption. }
    rewrite (add_loop_fuel d dom' f0 _ _ _ _ _ Hrun'). reflexivity. }
  unfold encode_chunks. rewrite <- Hadd.
  destruct (add_instances d p dom (List.map root ts)) as [st| | |] eqn:Hst; cbn [rbind]; try reflexivity.
  destruct (add_instances_inv _ _ _ _ _ Hst) as (st0 & Hloop & Hrel & _ & _ & _ & Hinv).
  pose proof (add_loop_postorder d dom ts _ ser_state0 st0 Hag Hnd Hloop) as Hpost. cbn [ss_relevant ser_state0 app] in Hpost.
  assert (HrelS : incl (ss_relevant st) S).
  { intros y Hy. rewrite Hrel, Hpost in Hy. eapply Permutation_in; [apply post_perm_refs_forest|exact Hy]. }
  destruct (if (2147483647 <? Z.of_nat (length (ss_relevant st)))%Z then Panic else Ok tt); cbn [rbind]; try reflexivity.
  destruct (map_res (inst_chunk (referent_table 0 (ss_relevant st) [])) (ss_types st)) as [insts| | |]; cbn [rbind]; try reflexivity.
  match goal with |- rbind ?A _ = rbind ?B _ => assert (EAB : A = B) end.
  { apply map_res_ext_in. intros ct Hct. apply map_res_ext_in. intros cp Hcp. unfold prop_chunk. destruct cp as [canon pi].
    destruct (negb (is_perm (ep_order p (pi_aliases pi)) (pi_aliases pi))); [reflexivity|].
    rewrite (fold_find_ext dom dom' S HS); [reflexivity|]. destruct ct as [c ti]. cbn [snd].
    rewrite (inv_insts _ _ Hinv c ti Hct). intros y Hy. apply filter_In in Hy. apply HrelS, Hy. }
  rewrite EAB. clear EAB.
  match goal with |- rbind ?A _ = rbind ?A _ => destruct A as [props| | |] end; cbn [rbind]; try reflexivity.
  destruct (map_res (to_ref (referent_table 0 (ss_relevant st) [])) (ss_relevant st)) as [objs| | |]; cbn [rbind]; try reflexivity.
  match goal with |- rbind ?A _ = rbind ?B _ => assert (EAB : A = B) end.
  { apply map_res_ext_in. intros r Hr. rewrite <- (proj1 (HS r (HrelS r Hr))). reflexivity. }
  rewrite EAB. reflexivity.
Qed.
Print Assumptions encode_chunks_shape.

Theorem encode_file_shape d p cmp dom dom' ts :
  Forall (agrees (children_of dom)) ts -> NoDup (flat_map refs ts) ->
  (forall r, In r (flat_map refs ts) -> find_inst dom r = find_inst dom' r /\ children_of dom r = children_of dom' r) ->
  (sizes ts <= length dom)%nat -> (sizes ts <= length dom')%nat ->
  encode_file d p cmp dom (List.map root ts) = encode_file d p cmp dom' (List.map root ts).
Proof. intros. unfold encode_file. now rewrite (encode_chunks_shape d p dom dom' ts). Qed.

Lemma agrees_ext (k k' : N -> list N) : forall t, (forall r, In r (refs t) -> k r = k' r) -> agrees k t -> agrees k' t.
Proof.
  apply (tree_ind' (fun t => (forall r, In r (refs t) -> k r = k' r) -> agrees k t -> agrees k' t)).
  intros q cs IH He Ha. apply agrees_unfold in Ha. destruct Ha as [Hk Hcs]. apply agrees_unfold. split.
  - rewrite <- (He q (or_introl eq_refl)). exact Hk.
  - rewrite Forall_forall in *. intros c Hc. apply IH; [exact Hc| |apply Hcs, Hc].
    intros y Hy. apply He. cbn [refs]. right. apply in_flat_map. exists c. split; assumption.
Qed.

Lemma in_children_of dom i : In i dom -> In (i_ref i) (children_of dom (i_parent i)).
Proof. intro H. unfold children_of. apply in_map. apply filter_In. split; [exact H|apply N.eqb_refl]. Qed.
Lemma children_of_inv dom r q : In r (children_of dom q) -> exists j, In j dom /\ i_ref j = r /\ i_parent j = q.
Proof.
  unfold children_of. intro H. apply in_map_iff in H. destruct H as (j & E & Hj). apply filter_In in Hj. destruct Hj as [Hj Hp].
  apply N.eqb_eq in Hp. exists j. repeat split; assumption.
Qed.

(* ================================================================= (K) the second save of a decoded forest, generically *)
(* [out] shows the forest [ts] of [dom] under the relabelling [L] ([same_forest]); the decoded instance of r has the class and
   the name of r and the property list [nprops r] with its Refs relabelled (a Ref to an instance that is not written is null);
   [nd] shows, for every written r, that very instance under its own referent: then both give the same file. *)
Section BinResave.
  Variables (d : db) (ep : enc_params) (cmp : compression) (dom : cdom) (ts : list tree) (L : N -> N) (out nd : cdom).
  Variable nprops : N -> list (bytes * value).
  Let W := flat_map refs ts.
  Let roots := List.map root ts.
  Let L' := fun x => if inW W x then L x else 0.
  Hypothesis Hnd_dom : NoDup (List.map i_ref dom).
  Hypothesis Hag : Forall (agrees (children_of dom)) ts.
  Hypothesis HndW : NoDup W.
  Hypothesis H0W : ~ In 0 W.
  Hypothesis Hfound : forall r, In r W -> find_inst dom r <> None.
  Hypothesis Hsf : same_forest dom ts L out.
  Hypothesis Hinst : forall r, In r W -> exists i', find_inst out (L r) = Some i' /\ i_class i' = class_of dom r /\
                                   i_name i' = i_name (src dom r) /\ i_props i' = rename_props L' (nprops r).
  Hypothesis Hnp : forall r kv, In r W -> In kv (nprops r) ->
    match snd kv with VRef x => x = 0 \/ In x W | VContent (CObject _) => False | _ => True end.
  Hypothesis Hnd : forall r, In r W ->
    find_inst nd r = Some (mkInst r (if inW roots r then 0 else i_parent (src dom r)) (class_of dom r) (i_name (src dom r)) (nprops r)).
  Hypothesis Hnd_kids : forall r, In r W -> children_of nd r = children_of dom r.
  Hypothesis Hlen : (length W <= length nd)%nat.
  Hypothesis Hdb : db_defaults_null d = true.

  Let Lset := List.map L W.
  Let P := fun x => x = 0 \/ In x Lset.
  Definition psi_of (x : N) : N := match find (fun r => L r =? x) W with Some r => r | None => 0 end.
  Let psi := psi_of.

  Lemma rs_L_nodup : NoDup Lset.
  Proof. destruct Hsf as (Hperm & Hnd' & _). eapply Permutation_NoDup; [exact Hperm|exact Hnd']. Qed.
  Lemma rs_L_inj a b : In a W -> In b W -> L a = L b -> a = b.
  Proof. apply (NoDup_map_In_inj L W a b rs_L_nodup). Qed.
  Lemma rs_L_nz r : In r W -> L r <> 0.
  Proof. destruct Hsf as (_ & _ & H & _). apply H. Qed.
  Lemma rs_psi_L r : In r W -> psi (L r) = r.
  Proof.
    intro Hr. unfold psi, psi_of. destruct (find (fun r0 => L r0 =? L r) W) as [r'|] eqn:E.
    - apply find_some in E. destruct E as [Hr' E]. apply N.eqb_eq in E. now apply rs_L_inj.
    - exfalso. apply (find_none _ _ E r) in Hr. now rewrite N.eqb_refl in Hr.
  Qed.
  Lemma rs_psi_0 : psi 0 = 0.
  Proof.
    unfold psi, psi_of. destruct (find (fun r0 => L r0 =? 0) W) as [r'|] eqn:E; [|reflexivity].
    apply find_some in E. destruct E as [Hr' E]. apply N.eqb_eq in E. now apply rs_L_nz in Hr'.
  Qed.
  Lemma rs_psi_inj a b : P a -> P b -> psi a = psi b -> a = b.
  Proof.
    intros [->|Ha] [->|Hb] E; [reflexivity| | |].
    - apply in_map_iff in Hb. destruct Hb as (r & <- & Hr). rewrite rs_psi_0, rs_psi_L in E by exact Hr. subst r. contradiction.
    - apply in_map_iff in Ha. destruct Ha as (r & <- & Hr). rewrite rs_psi_0, rs_psi_L in E by exact Hr. subst r. contradiction.
    - apply in_map_iff in Ha. destruct Ha as (r & <- & Hr). apply in_map_iff in Hb. destruct Hb as (r' & <- & Hr').
      rewrite !rs_psi_L in E by assumption. now subst.
  Qed.
  Lemma rs_L'_W r : In r W -> L' r = L r.
  Proof. intro H. unfold L'. now rewrite (proj2 (inW_true W r) H). Qed.
  Lemma rs_L'_0 : L' 0 = 0.
  Proof. unfold L'. now rewrite (proj2 (inW_false W 0) H0W). Qed.

  Lemma rs_kids_W r c : In r W -> In c (children_of dom r) -> In c W.
  Proof.
    intros Hr Hc. unfold W in *. apply in_flat_map in Hr. destruct Hr as (t0 & Ht0 & Hr). destruct (refs_nsubtrees t0 r Hr) as (t & Ht & <-).
    rewrite Forall_forall in Hag. destruct (nsubtrees_facts _ t0 (Hag t0 Ht0) t Ht) as [Hat Hincl].
    destruct t as [q cs]. apply agrees_unfold in Hat. destruct Hat as [Hk _]. cbn [root] in Hc. rewrite Hk in Hc.
    apply in_map_iff in Hc. destruct Hc as (c' & <- & Hc'). apply in_flat_map. exists t0. split; [exact Ht0|].
    apply Hincl. cbn [refs]. right. apply in_flat_map. exists c'. split; [exact Hc'|apply in_root_refs].
  Qed.
  Lemma rs_roots_W r : In r roots -> In r W.
  Proof. intro H. apply in_map_iff in H. destruct H as (t & <- & Ht). apply in_flat_map. exists t. split; [exact Ht|apply in_root_refs]. Qed.

  (* every instance of [out] is the decoded instance of one written r; its parent *)
  Lemma rs_out_inst i' : In i' out -> exists r, In r W /\ i_ref i' = L r /\ find_inst out (L r) = Some i'.
  Proof.
    intro Hi. destruct Hsf as (Hperm & Hnd' & _).
    assert (Hin : In (i_ref i') (List.map L W)) by (eapply Permutation_in; [exact Hperm|now apply in_map]).
    apply in_map_iff in Hin. destruct Hin as (r & E & Hr). exists r. split; [exact Hr|]. split; [now symmetry|].
    rewrite E. now apply find_inst_nodup.
  Qed.
  Lemma rs_out_parent i' r : In r W -> find_inst out (L r) = Some i' ->
    P (i_parent i') /\ psi (i_parent i') = (if inW roots r then 0 else i_parent (src dom r)).
  Proof.
    intros Hr Hf. destruct (rs_find_inst_some _ _ _ Hf) as [Hi Href].
    pose proof (in_children_of out i' Hi) as Hch. rewrite Href in Hch.
    destruct Hsf as (_ & _ & _ & Hroots & Hkids & Hnone & _). fold W in Hkids, Hnone. fold roots in Hroots.
    destruct (N.eq_dec (i_parent i') 0) as [E0|Hnz].
    - rewrite E0 in *. split; [now left|]. rewrite rs_psi_0. rewrite Hroots in Hch. apply in_map_iff in Hch.
      destruct Hch as (r' & E & Hr'). apply rs_L_inj in E; [|now apply rs_roots_W|exact Hr]. subst r'.
      now rewrite (proj2 (inW_true roots r) Hr').
    - destruct (in_dec N.eq_dec (i_parent i') Lset) as [Hin|Hni]; [|rewrite (Hnone _ Hnz Hni) in Hch; contradiction].
      split; [now right|]. apply in_map_iff in Hin. destruct Hin as (q & Eq & Hq). rewrite <- Eq in *. rewrite rs_psi_L by exact Hq.
      rewrite (Hkids q Hq) in Hch. apply in_map_iff in Hch. destruct Hch as (r' & E & Hr').
      apply rs_L_inj in E; [|now apply (rs_kids_W q)|exact Hr]. subst r'.
      replace (inW roots r) with false.
      2:{ symmetry. apply inW_false. intro Hroot. unfold roots in Hroot. apply in_map_iff in Hroot. destruct Hroot as (t & <- & Ht).
          exact (root_not_child (children_of dom) ts t q Hag HndW Ht Hq Hr'). }
      destruct (children_of_inv dom r q Hr') as (j & Hj & Ej1 & Ej2).
      unfold src. rewrite <- Ej1. rewrite (find_inst_nodup dom j Hnd_dom Hj). now symmetry.
  Qed.

  Lemma rs_value_back kv r : In r W -> In kv (nprops r) ->
    rename_value psi (rename_value L' (snd kv)) = snd kv /\ Forall P (bvalue_refs (rename_value L' (snd kv))).
  Proof.
    intros Hr Hkv. pose proof (Hnp r kv Hr Hkv) as H.
    destruct (snd kv) as [| | | | | | | | | | | | | | | | | | | | | | | | | | | | | | | | | | | | | | |c]; try (split; [reflexivity|constructor]).
    - cbn [rename_value bvalue_refs]. destruct H as [->|Hx].
      + rewrite rs_L'_0, rs_psi_0. split; [reflexivity|]. constructor; [now left|constructor].
      + rewrite (rs_L'_W _ Hx), (rs_psi_L _ Hx). split; [reflexivity|]. constructor; [right; now apply in_map|constructor].
    - destruct c; try contradiction; split; try reflexivity; constructor.
  Qed.

  Lemma rs_out_refs i' : In i' out -> Forall P (binst_refs i').
  Proof.
    intro Hi. destruct (rs_out_inst i' Hi) as (r & Hr & Eref & Hf).
    destruct (Hinst r Hr) as (i'' & Hf' & _ & _ & Hps). rewrite Hf in Hf'. inversion Hf'; subst i''.
    unfold binst_refs. constructor; [right; rewrite Eref; now apply in_map|].
    constructor; [apply (rs_out_parent i' r Hr Hf)|].
    rewrite Hps. unfold bprops_refs, rename_props. apply Forall_forall. intros x Hx. apply in_flat_map in Hx.
    destruct Hx as (kv' & Hkv' & Hx). apply in_map_iff in Hkv'. destruct Hkv' as (kv & <- & Hkv). cbn [snd] in Hx.
    destruct (rs_value_back kv r Hr Hkv) as [_ Hall]. rewrite Forall_forall in Hall. now apply Hall.
  Qed.

  Lemma rs_dom_ok : dom_ok P out.
  Proof.
    apply Forall_forall. intros i' Hi. pose proof (rs_out_refs i' Hi) as H. unfold binst_refs in H.
    inversion H as [|? ? H1 H']; subst. inversion H' as [|? ? H2 H3]; subst. split; [exact H1|]. split; [exact H2|].
    rewrite Forall_forall in *. intros x Hx. apply H3. unfold props_refs in Hx. unfold bprops_refs.
    apply in_flat_map in Hx. destruct Hx as (kv & Hkv & Hx). apply in_flat_map. exists kv. split; [exact Hkv|].
    destruct (snd kv); try contradiction. exact Hx.
  Qed.

  Theorem bin_resave_generic_chunks : encode_chunks d ep out (children_of out 0) = encode_chunks d ep nd roots.
  Proof.
    assert (Hroots_out : children_of out 0 = List.map L roots) by (destruct Hsf as (_ & _ & _ & H & _); exact H).
    (* un-relabel the decoded DOM *)
    rewrite <- (bin_encode_chunks_rename psi d ep out (children_of out 0) Hdb rs_psi_0).
    2:{ intros a b Ha Hb. apply rs_psi_inj.
        - unfold bin_dom_refs in Ha. destruct Ha as [<-|Ha]; [now left|]. apply in_app_or in Ha. destruct Ha as [Ha|Ha].
          + right. rewrite Hroots_out in Ha. apply in_map_iff in Ha. destruct Ha as (r & <- & Hr). apply in_map. now apply rs_roots_W.
          + apply in_flat_map in Ha. destruct Ha as (i' & Hi & Ha). pose proof (rs_out_refs i' Hi) as H. rewrite Forall_forall in H. now apply H.
        - unfold bin_dom_refs in Hb. destruct Hb as [<-|Hb]; [now left|]. apply in_app_or in Hb. destruct Hb as [Hb|Hb].
          + right. rewrite Hroots_out in Hb. apply in_map_iff in Hb. destruct Hb as (r & <- & Hr). apply in_map. now apply rs_roots_W.
          + apply in_flat_map in Hb. destruct Hb as (i' & Hi & Hb). pose proof (rs_out_refs i' Hi) as H. rewrite Forall_forall in H. now apply H. }
    assert (Er : List.map psi (children_of out 0) = roots).
    { rewrite Hroots_out, map_map. rewrite <- (List.map_id roots) at 2. apply map_ext_in. intros r Hr. apply rs_psi_L. now apply rs_roots_W. }
    rewrite Er. symmetry. unfold roots.
    apply encode_chunks_shape.
    - rewrite Forall_forall in *. intros t Ht. apply (agrees_ext (children_of dom)); [|apply Hag, Ht].
      intros r Hr. symmetry. apply Hnd_kids. apply in_flat_map. exists t. split; assumption.
    - exact HndW.
    - intros r Hr. fold W in Hr. destruct (Hinst r Hr) as (i' & Hf & Hc & Hn & Hps).
      destruct (rs_out_parent i' r Hr Hf) as [_ Hpar]. destruct (rs_find_inst_some _ _ _ Hf) as [Hi Href].
      assert (HPL : P (L r)) by (right; now apply in_map).
      split.
      + rewrite (Hnd r Hr).
        replace (find_inst (rename_dom psi out) r) with (find_inst (rename_dom psi out) (psi (L r))) by (now rewrite rs_psi_L).
        rewrite (XmlDeterminism.find_inst_rename psi P rs_psi_inj out (L r) rs_dom_ok HPL), Hf. cbn [option_map]. f_equal.
        unfold rename_inst. rewrite Href, (rs_psi_L r Hr), Hpar, Hc, Hn, Hps. f_equal.
        unfold rename_props. rewrite map_map. cbn [fst snd]. rewrite <- (List.map_id (nprops r)) at 1. apply map_ext_in.
        intros [k v] Hkv. cbn [fst snd]. f_equal. symmetry. exact (proj1 (rs_value_back (k, v) r Hr Hkv)).
      + rewrite (Hnd_kids r Hr).
        replace (children_of (rename_dom psi out) r) with (children_of (rename_dom psi out) (psi (L r))) by (now rewrite rs_psi_L).
        rewrite (XmlDeterminism.children_of_rename psi P rs_psi_inj out (L r) rs_dom_ok HPL).
        destruct Hsf as (_ & _ & _ & _ & Hkids & _). rewrite (Hkids r Hr), map_map.
        rewrite <- (List.map_id (children_of dom r)) at 1. apply map_ext_in. intros c Hc'. symmetry. apply rs_psi_L. now apply (rs_kids_W r).
    - rewrite BinKnownProps.sizes_refs. exact Hlen.
    - rewrite BinKnownProps.sizes_refs. unfold rename_dom. rewrite map_length. destruct Hsf as (Hperm & _).
      rewrite <- (map_length i_ref out), (Permutation_length Hperm), map_length. fold W. lia.
  Qed.

  Theorem bin_resave_generic : encode_file d ep cmp out (children_of out 0) = encode_file d ep cmp nd roots.
  Proof. unfold encode_file. now rewrite bin_resave_generic_chunks. Qed.
End BinResave.
Print Assumptions bin_resave_generic.

(* ================================================================= (L) the closed case: properties unknown to the database, simple types *)
(* the normalised DOM: what the second save sees of [dom].  Every written instance carries a value for every property its class
   has a column for (its own, or the column default); Strings are BinaryStrings; a Ref to an instance that is not written is
   null; a chosen root hangs under the DOM root. *)
Definition ref_keep (st : ser_state) (r : N) : N := if existsb (N.eqb r) (ss_relevant st) then r else 0.
Definition norm_val0 (st : ser_state) (v : value) : value :=
  match v with VString s => VBinaryString s | VRef r => VRef (ref_keep st r) | _ => v end.
Definition source_props0 (st : ser_state) (ti : type_info) (i : inst) : list (bytes * value) :=
  List.map (fun cp => (fst cp, norm_val0 st (match bfind (fst cp) (i_props i) with Some v => v | None => pi_default (snd cp) end)))
           (filter (fun cp => negb (bytes_eqb (fst cp) NAME)) (ti_props ti)).
(* (an instance whose class has no entry in the class table is not written; it is left as it is) *)
Definition bnorm_props (st : ser_state) (i : inst) : list (bytes * value) :=
  match bfind (i_class i) (ss_types st) with Some ti => collect_props (source_props0 st ti i) | None => i_props i end.
Definition bnorm_inst (st : ser_state) (roots : list N) (i : inst) : inst :=
  mkInst (i_ref i) (if inW roots (i_ref i) then 0 else i_parent i) (i_class i) (i_name i) (bnorm_props st i).
Lemma bnorm_props_entry st dom r ti : bfind (class_of dom r) (ss_types st) = Some ti ->
  bnorm_props st (src dom r) = collect_props (source_props0 st ti (src dom r)).
Proof.
  intro H. unfold bnorm_props. replace (i_class (src dom r)) with (class_of dom r); [now rewrite H|].
  unfold src, class_of. destruct (find_inst dom r); reflexivity.
Qed.
Definition bnorm_dom (st : ser_state) (roots : list N) (dom : cdom) : cdom := List.map (bnorm_inst st roots) dom.

Lemma bremove_map_values {V U} (g : V -> U) k (m : list (bytes * V)) :
  bremove k (List.map (fun kv => (fst kv, g (snd kv))) m) = List.map (fun kv => (fst kv, g (snd kv))) (bremove k m).
Proof. induction m as [|[k0 v0] m IH]; [reflexivity|]. cbn [List.map bremove fst snd]. destruct (bytes_eqb k k0); [exact IH|]. cbn [List.map fst snd]. now rewrite IH. Qed.
Lemma collect_props_map_values (g : value -> value) l :
  collect_props (List.map (fun kv => (fst kv, g (snd kv))) l) = List.map (fun kv => (fst kv, g (snd kv))) (collect_props l).
Proof.
  unfold collect_props. change (@nil (bytes * value)) with (List.map (fun kv : bytes * value => (fst kv, g (snd kv))) []) at 1.
  generalize (@nil (bytes * value)) as acc. induction l as [|[k v] l IH]; intro acc; [reflexivity|].
  cbn [List.map fold_left fst snd]. rewrite <- IH. f_equal. unfold bupd. cbn [List.map fst snd]. now rewrite bremove_map_values.
Qed.
Lemma bremove_in {V} k (m : list (bytes * V)) x : In x (bremove k m) -> In x m.
Proof. induction m as [|[k0 v0] m IH]; [intros []|]. cbn [bremove]. destruct (bytes_eqb k k0); [intro H; right; now apply IH|]. intros [H|H]; [now left|right; now apply IH]. Qed.
Lemma collect_props_in kv l : In kv (collect_props l) -> In kv l.
Proof.
  unfold collect_props. assert (H : forall acc, In kv (fold_left (fun m kv0 => bupd (fst kv0) (snd kv0) m) l acc) -> In kv l \/ In kv acc).
  { induction l as [|[k v] l IH]; intros acc Hin; [now right|]. cbn [fold_left fst snd] in Hin. destruct (IH _ Hin) as [H|H]; [left; now right|].
    unfold bupd in H. destruct H as [<-|H]; [left; now left|right; eapply bremove_in; exact H]. }
  intro Hin. destruct (H [] Hin) as [H1|[]]. exact H1.
Qed.
Lemma simple_col_no_content wt vs v : simple_col wt vs -> In v vs -> match v with VContent _ => False | _ => True end.
Proof. intros Hs Hin. destruct Hs; apply in_map_iff in Hin; destruct Hin as (x & <- & _); exact I. Qed.

Lemma find_inst_bnorm st roots dom r : find_inst (bnorm_dom st roots dom) r = option_map (bnorm_inst st roots) (find_inst dom r).
Proof. induction dom as [|i dom IH]; [reflexivity|]. cbn [bnorm_dom List.map find_inst bnorm_inst i_ref]. destruct (i_ref i =? r); [reflexivity|exact IH]. Qed.

Theorem bin_resave_chunks d ep cmp dom ts b p st :
  BinRoundTrip.input_ok dom ts -> names_ok dom -> unknown_props d dom -> ep_order ep [] = [] ->
  encode_file d ep cmp dom (List.map root ts) = Ok b ->
  add_instances d ep dom (List.map root ts) = Ok st ->
  dp_lim p = None ->
  (forall e, encode_chunks d ep dom (List.map root ts) = Ok e -> frame_ok p cmp e) ->
  sstr_ok st ->
  (forall x, In x (cols (ss_types st)) -> fst (snd x) <> NAME -> simple_col (pi_type (snd (snd x))) (col_values ep dom x)) ->
  db_defaults_null d = true ->
  exists out,
    decode_file d p b = Ok out /\ BinRoundTrip.same_forest dom ts (lbl st) out /\
    encode_chunks d ep out (children_of out 0) = encode_chunks d ep (bnorm_dom st (List.map root ts) dom) (List.map root ts).
Proof.
  intros Hin Hnames Hun Hord Hf Hst Hlim Hs Hss Hsimple Hdb.
  destruct (unknown_props_roundtrip d ep cmp dom ts b p st Hin Hnames Hun Hord Hf Hst Hlim Hs Hss Hsimple) as (out & Hdec & Hsf & Hinst).
  exists out. split; [exact Hdec|]. split; [exact Hsf|].
  destruct Hin as (Hnd_dom & _ & Hag & HndW & H0W).
  destruct (enc_relevant_postorder d ep dom ts st Hag HndW Hst) as [Hrel Hndr].
  destruct (add_instances_inv _ _ _ _ _ Hst) as (_ & _ & _ & _ & _ & _ & Hinv).
  destruct (unknown_props_table d ep dom _ st Hun Hst) as (_ & _ & _ & Hpl).
  set (W := flat_map refs ts) in *.
  assert (HWrel : forall r, In r W <-> In r (ss_relevant st)).
  { intro r. rewrite Hrel. split; intro H; [eapply Permutation_in; [apply Permutation_sym, post_perm_refs_forest|exact H]
                                            |eapply Permutation_in; [apply post_perm_refs_forest|exact H]]. }
  assert (Hfound : forall r, In r W -> find_inst dom r <> None) by (intros r Hr; apply (inv_found _ _ Hinv), HWrel, Hr).
  (* the class entry of a written instance *)
  assert (Hentry : forall r, In r W -> exists ti k, In (class_of dom r, ti) (ss_types st) /\ bfind (class_of dom r) (ss_types st) = Some ti /\
                                                     nth_error (ti_instances ti) k = Some r).
  { intros r Hr. apply HWrel in Hr. pose proof (inv_cover _ _ Hinv r Hr) as Hc. apply in_map_iff in Hc. destruct Hc as ([c ti] & Ec & Hct).
    cbn [fst] in Ec. subst c. exists ti.
    assert (Hbf : bfind (class_of dom r) (ss_types st) = Some ti) by (apply BinColumnsFacts.in_bfind; [apply sorted_NoDup, (inv_sorted _ _ Hinv)|exact Hct]).
    assert (Hri : In r (ti_instances ti)).
    { rewrite (inv_insts _ _ Hinv _ _ Hct). apply filter_In. split; [exact Hr|]. unfold of_class. apply bytes_eqb_refl. }
    destruct (In_nth_error _ _ Hri) as (k & Hk). exists k. split; [exact Hct|]. split; [exact Hbf|exact Hk]. }
  (* the values of the columns hold no Content *)
  assert (Hval : forall r ti k cp, In (class_of dom r, ti) (ss_types st) -> nth_error (ti_instances ti) k = Some r ->
            In cp (filter (fun cp => negb (bytes_eqb (fst cp) NAME)) (ti_props ti)) ->
            match (match bfind (fst cp) (i_props (src dom r)) with Some v => v | None => pi_default (snd cp) end) with
            | VContent _ => False | _ => True end).
  { intros r ti k [canon pi] Hct Hk Hcp. apply filter_In in Hcp. destruct Hcp as [Hcp Hnn]. cbn [fst snd] in *. apply negb_true_iff in Hnn.
    assert (Hx : In (class_of dom r, ti, (canon, pi)) (cols (ss_types st))).
    { unfold cols. apply in_flat_map. exists (class_of dom r, ti). split; [exact Hct|]. apply in_map_iff. exists (canon, pi). auto. }
    destruct (Hpl _ Hx) as (_ & E2 & E3). cbn [fst snd] in E2, E3.
    assert (Hn : canon <> NAME) by (intro E; subst canon; rewrite bytes_eqb_refl in Hnn; discriminate).
    pose proof (Hsimple _ Hx Hn) as Hsc. cbn [fst snd] in Hsc.
    rewrite <- (prop_value_plain ep canon pi (src dom r) E2 E3 Hord Hnn).
    apply (simple_col_no_content _ _ _ Hsc). unfold col_values. apply in_map. apply in_map. eapply nth_error_In; exact Hk. }
  assert (HL0 : forall x, (if inW W x then lbl st x else 0) = ref_new st x).
  { intro x. unfold ref_new. destruct (inW W x) eqn:E.
    - apply inW_true, HWrel in E. replace (existsb (N.eqb x) (ss_relevant st)) with true; [reflexivity|]. symmetry. now apply inW_true.
    - apply inW_false in E. replace (existsb (N.eqb x) (ss_relevant st)) with false; [reflexivity|]. symmetry. apply inW_false.
      intro H. apply E, HWrel, H. }
  apply (bin_resave_generic_chunks d ep dom ts (lbl st) out (bnorm_dom st (List.map root ts) dom)
           (fun r => bnorm_props st (src dom r)) Hnd_dom Hag HndW H0W Hsf).
  - (* the decoded instances *)
    intros r Hr. fold W in Hr. destruct (Hentry r Hr) as (ti & k & Hct & Hti & Hk).
    destruct (Hinst _ ti k r Hct Hk) as (i' & H1 & _ & H3 & H4 & H5). exists i'. split; [exact H1|]. split; [exact H3|]. split; [exact H4|].
    rewrite H5, (bnorm_props_entry st dom r ti Hti). unfold rename_props. rewrite <- collect_props_map_values. f_equal.
    unfold source_props, source_props0. rewrite map_map. apply map_ext_in. intros cp Hcp. cbn [fst snd]. f_equal.
    pose proof (Hval r ti k cp Hct Hk Hcp) as Hnc.
    destruct (match bfind (fst cp) (i_props (src dom r)) with Some v => v | None => pi_default (snd cp) end); try reflexivity; try contradiction.
    cbn [norm_val norm_val0 rename_value]. f_equal. fold W. rewrite <- HL0. unfold ref_keep.
    destruct (inW W r0) eqn:E.
    + pose proof E as E'. apply inW_true, HWrel, inW_true in E'. unfold inW in E'. rewrite E', E. reflexivity.
    + replace (existsb (N.eqb r0) (ss_relevant st)) with false.
      * replace (inW W 0) with false; [reflexivity|]. symmetry. now apply inW_false.
      * symmetry. apply inW_false. intro H. apply inW_false in E. apply E, HWrel, H.
  - (* the values of the normalised DOM *)
    intros r kv Hr Hkv. fold W in Hr. destruct (Hentry r Hr) as (ti & k & Hct & Hti & Hk). cbv beta in Hkv. rewrite (bnorm_props_entry st dom r ti Hti) in Hkv.
    apply collect_props_in in Hkv. unfold source_props0 in Hkv. apply in_map_iff in Hkv. destruct Hkv as (cp & <- & Hcp). cbn [snd].
    pose proof (Hval r ti k cp Hct Hk Hcp) as Hnc.
    destruct (match bfind (fst cp) (i_props (src dom r)) with Some v => v | None => pi_default (snd cp) end); try exact I; try contradiction.
    cbn [norm_val0]. unfold ref_keep. destruct (existsb (N.eqb r0) (ss_relevant st)) eqn:E; [right|now left].
    fold W. apply HWrel. now apply inW_true.
  - (* the normalised DOM shows them *)
    intros r Hr. fold W in Hr. rewrite find_inst_bnorm. pose proof (Hfound r Hr) as Hne. unfold src, class_of.
    destruct (find_inst dom r) as [i|] eqn:Ef; [|contradiction]. cbn [option_map]. destruct (rs_find_inst_some _ _ _ Ef) as [_ Eref].
    unfold bnorm_inst. rewrite Eref. reflexivity.
  - (* its children lists *)
    intros r Hr. fold W in Hr. unfold children_of, bnorm_dom.
    assert (H : forall l, (forall j, In j l -> In j dom) ->
              List.map i_ref (filter (fun i => i_parent i =? r) (List.map (bnorm_inst st (List.map root ts)) l)) =
              List.map i_ref (filter (fun i => i_parent i =? r) l)).
    { induction l as [|j l IH]; intro Hl; [reflexivity|]. cbn [List.map filter].
      assert (Ej : (i_parent (bnorm_inst st (List.map root ts) j) =? r) = (i_parent j =? r)).
      { unfold bnorm_inst. cbn [i_parent]. destruct (inW (List.map root ts) (i_ref j)) eqn:E; [|reflexivity].
        apply inW_true in E. apply in_map_iff in E. destruct E as (t & Et & Ht).
        replace (0 =? r) with false by (symmetry; apply N.eqb_neq; intro E0; subst r; contradiction).
        symmetry. apply N.eqb_neq. intro Ep. apply (root_not_child (children_of dom) ts t r Hag HndW Ht Hr). rewrite Et, <- Ep.
        apply in_children_of. apply Hl. now left. }
      rewrite Ej. specialize (IH (fun j' Hj' => Hl j' (or_intror Hj'))).
      destruct (i_parent j =? r); cbn [List.map]; rewrite IH; reflexivity. }
    apply H. auto.
  - unfold bnorm_dom. rewrite map_length, <- (map_length i_ref dom). apply NoDup_incl_length; [exact HndW|].
    intros r Hr. fold W in Hr. pose proof (Hfound r Hr) as Hne. destruct (find_inst dom r) as [i|] eqn:Ef; [|contradiction].
    destruct (rs_find_inst_some _ _ _ Ef) as [Hi <-]. now apply in_map.
  - exact Hdb.
Qed.

Theorem bin_resave d ep cmp dom ts b p st :
  BinRoundTrip.input_ok dom ts -> names_ok dom -> unknown_props d dom -> ep_order ep [] = [] ->
  encode_file d ep cmp dom (List.map root ts) = Ok b ->
  add_instances d ep dom (List.map root ts) = Ok st ->
  dp_lim p = None ->
  (forall e, encode_chunks d ep dom (List.map root ts) = Ok e -> frame_ok p cmp e) ->
  sstr_ok st ->
  (forall x, In x (cols (ss_types st)) -> fst (snd x) <> NAME -> simple_col (pi_type (snd (snd x))) (col_values ep dom x)) ->
  db_defaults_null d = true ->
  exists out,
    decode_file d p b = Ok out /\ BinRoundTrip.same_forest dom ts (lbl st) out /\
    encode_file d ep cmp out (children_of out 0) = encode_file d ep cmp (bnorm_dom st (List.map root ts) dom) (List.map root ts).
Proof.
  intros H1 H2 H3 H4 H5 H6 H7 H8 H9 H10 H11.
  destruct (bin_resave_chunks d ep cmp dom ts b p st H1 H2 H3 H4 H5 H6 H7 H8 H9 H10 H11) as (out & Hd & Hsf & E).
  exists out. split; [exact Hd|]. split; [exact Hsf|]. unfold encode_file. now rewrite E.
Qed.
Print Assumptions bin_resave.

(* ================================================================= (M) non-vacuity, binary *)
(* the hypotheses of [bin_resave] hold on the sample DOM of BinRoundTrip (a Folder with two children, Int32 / Bool / Ref / String
   properties, one of them missing on one instance), and the conclusion is the computed one *)
Example bin_resave_sample :
  exists out,
    decode_file db0 (dp0 None) sample_file = Ok out /\
    BinRoundTrip.same_forest sample_dom [sample_tree] (lbl SampleRoundTrip.sample_st) out /\
    encode_file db0 ep0 None out (children_of out 0)
    = encode_file db0 ep0 None (bnorm_dom SampleRoundTrip.sample_st [1] sample_dom) [1].
Proof.
  apply (bin_resave db0 ep0 None sample_dom [sample_tree] sample_file (dp0 None) SampleRoundTrip.sample_st).
  - exact SampleRoundTrip.sample_input_ok.
  - exact SampleRoundTrip.sample_names_ok.
  - exact SampleRoundTrip2.sample_unknown_props.
  - reflexivity.
  - exact sample_encodes.
  - exact SampleRoundTrip.sample_st_ok.
  - reflexivity.
  - exact SampleRoundTrip.sample_frame_ok.
  - exact SampleRoundTrip.sample_sstr_ok.
  - intros x Hx Hn. exact (proj2 (SampleRoundTrip.sample_plain_cols x Hx Hn)).
  - reflexivity.
Qed.

(* save, load, save, load, save on a DOM with two roots (10 and 40), a child (20), an instance that is not written (30), a Ref
   to a root (10 -> 40), a Ref to the parent (20 -> 10), a Ref to nothing that is written (20 -> 99), a Float32 NaN with a
   payload, a String, and properties missing on one instance of a class.  The second and the third file are equal, the second
   load equals the first, and here (simple types, no database) already the FIRST file is the fixed point: the normalisations of
   this class of DOMs (String -> BinaryString, explicit defaults, unresolvable Refs -> null, relabelling) do not show in the bytes. *)
Definition dom_bin2 : cdom :=
  [ mkInst 10 0 (bstr "Folder0") (bstr "a") [(bstr "P", VInt32 7%Z); (bstr "T", VRef 40); (bstr "F", VFloat32 4290772993)];
    mkInst 20 10 (bstr "Folder0") (bstr "b") [(bstr "P", VInt32 (-3)%Z); (bstr "R", VRef 10); (bstr "D", VRef 99)];
    mkInst 30 0 (bstr "Unwritten") (bstr "u") [];
    mkInst 40 0 (bstr "Thing") (bstr "c") [(bstr "S", VString (bstr "hi"))] ].
Definition save_load_bin (dom : cdom) (roots : list N) : res (bytes * cdom) :=
  b <- encode_file db0 ep0 None dom roots ;; o <- decode_file db0 (dp0 None) b ;; Ok (b, o).
Example bin_resave_chain_example :
  match save_load_bin dom_bin2 [10; 40] with
  | Ok (b1, o1) =>
      match save_load_bin o1 (children_of o1 0) with
      | Ok (b2, o2) =>
          encode_file db0 ep0 None o2 (children_of o2 0) = Ok b2 /\ o2 = o1 /\ b2 = b1 /\
          List.map i_ref o1 = [2; 3; 1] /\ children_of o1 0 = [2; 3] /\
          encode_file db0 ep0 None
            (bnorm_dom (match add_instances db0 ep0 dom_bin2 [10; 40] with Ok s => s | _ => ser_state0 end) [10; 40] dom_bin2) [10; 40] = Ok b2
      | _ => False
      end
  | _ => False
  end.
Proof. vm_compute. repeat split; reflexivity. Qed.

(* ================================================================= (N) the first save is not always the fixed point: witnesses *)
Definition xml_save_load (d : cdom) (roots : list N) : res (list wevent * cdom) :=
  evs <- xml_encode e_rt EWriteUnknown d roots ;; revs <- channel evs ;; d1 <- xml_decode e_rt DReadUnknown revs ;; Ok (evs, d1).

(* a Ref to an instance that is not written: the first save gives it a referent number no Item carries, the reader cannot
   resolve it, the second save writes `null`.  So save (load (save d)) <> save d, and [norm_dom] must null such Refs. *)
Example xml_first_save_differs_dangling_ref_refuted :
  let d := [mkInst 1 0 (B "Folder") (B "f") [(B "R", VRef 5)]] in
  match xml_save_load d [1] with
  | Ok (evs1, d1) =>
      match xml_save_load d1 (children_of d1 0) with
      | Ok (evs2, d2) => evs2 <> evs1 /\ xml_encode e_rt EWriteUnknown d2 (children_of d2 0) = Ok evs2 /\
                         d1 = [mkInst 1 0 (B "Folder") (B "f") [(B "R", VRef 0)]]
      | _ => False
      end
  | _ => False
  end.
Proof. vm_compute. split; [discriminate|split; reflexivity]. Qed.

(* a NaN with a payload is normalised by the reader (the loaded DOM differs from the source), but the writer prints every NaN
   as `NAN`: the value normalisation does not show in the events, the first save is already the fixed point *)
Example xml_nan_payload_invisible :
  let d := [mkInst 1 0 (B "Part") (B "p") [(B "X", VFloat32 F32_NNAN)]] in
  match xml_save_load d [1] with
  | Ok (evs1, d1) =>
      match xml_save_load d1 (children_of d1 0) with
      | Ok (evs2, d2) => evs2 = evs1 /\ d1 = [mkInst 1 0 (B "Part") (B "p") [(B "X", VFloat32 F32_NAN)]] /\ d1 <> d /\ d2 = d1
      | _ => False
      end
  | _ => False
  end.
Proof. vm_compute. split; [reflexivity|split; [reflexivity|split; [discriminate|reflexivity]]]. Qed.

(* EXPORT
   XML   ordered, serialize_instance_fuel_ordered, subtree_fuel_ordered     fuel on DOMs that list parents first
         serialize_instance_sim, roots_sim                                  the writer on two DOMs showing the same forest (any shape)
         xml_roundtrip_ordered_generic                                      the decoded DOM lists parents first
         nback, norm_dom, norm_law, norm_idem
         xml_resave            save (load (save d)) = save (norm_dom d)     [res equality: same events or the same failure]
         xml_resave_ok, xml_resave_fixed_point, xml_resave_simple_types     (closed: the 26 simple types, Ref, SharedString)
         examples: xml_resave_example, xml_first_save_differs_dangling_ref_refuted, xml_nan_payload_invisible
   BIN   add_loop_fuel, add_loop_ext, encode_chunks_shape, encode_file_shape   the file depends on the DOM only through the written
                                                                            instances (not on list order, length, other instances)
         bin_resave_generic    the second save of any decoded forest described by [same_forest] + per-instance property lists
         bnorm_dom, bin_resave encode_file (decode_file (encode_file dom)) = encode_file (bnorm_dom dom), closed case
                               (properties unknown to the database, simple column types), any compressor under frame_ok
         examples: bin_resave_sample, bin_resave_chain_example
   [round 1; now proved, see (Q) at the end] NOT PROVED (bin_resave_fixed_point): encode_file (decode_file (encode_file out)) = encode_file out for out = the decoded DOM, as a
   theorem.  Missing: that [out] satisfies the hypotheses of [bin_resave] again (unknown_props, simple_col for the columns of the
   SECOND class table, sstr_ok, frame_ok of the second chunk list) and that [bnorm_dom] of a decoded DOM is the DOM itself up to the
   listing order of each property table (then BinTypeInfoFacts.encode_file_props_perm_iff closes it).  Computed instance:
   [bin_resave_chain_example] (third file = second file, second load = first load). *)

(* ######################################################################################################################## *)
(* ROUND 2: the binary fixed point                                                                                           *)
(* ######################################################################################################################## *)

From RbxVerif Require Import BinColumnsFacts.

(* ================================================================= (O) the class table of a DOM whose properties the database does not know *)
(* (the covering half is CrossFormatFile's [enc_cols_cover], re-proved here together with the converse)
   every property set on a written instance has a column in the table of its class, and every column other than Name stems from a
   property set on a written instance of the class, whose value type gives the column its wire type *)
Definition vis_ok (ti : type_info) : Prop := forall k, In k (ti_visited ti) -> exists pi, In (k, pi) (ti_props ti).

Lemma cti_prop_tbl d class ss ti pv ss' ti' :
  find_desc_bin d (string_of_bytes class) (string_of_bytes (fst pv)) = Ok None ->
  cti_prop d class (ss, ti) pv = Ok (ss', ti') -> vis_ok ti ->
  vis_ok ti' /\ (forall kp, In kp (ti_props ti) -> In kp (ti_props ti')) /\ (exists pi, In (fst pv, pi) (ti_props ti')) /\
  (forall k pi, In (k, pi) (ti_props ti') -> In (k, pi) (ti_props ti) \/ (k = fst pv /\ from_rbx_type (vtype (snd pv)) = Some (pi_type pi))) /\
  (keys_sorted (ti_props ti) -> keys_sorted (ti_props ti')).
Proof.
  destruct pv as [pname pvalue]. cbn [fst snd]. intros Hdb H Hv. unfold cti_prop in H.
  destruct (bmem pname (ti_visited ti)) eqn:Ev.
  { injection H as _ <-. split; [exact Hv|]. split; [auto|]. split; [apply Hv; now apply bmem_In|auto]. }
  unfold resolve_prop in H. rewrite Hdb in H. cbn [rbind] in H.
  cbn [ti_props ti_class ti_id ti_service ti_instances ti_visited] in H.
  match type of H with rbind ?X _ = _ => destruct X as [[ss1 ti1]| | |] eqn:E1 end; cbn [rbind] in H; try discriminate.
  rewrite bytes_eqb_refl in H. injection H as _ <-.
  destruct (bfind pname (ti_props ti)) as [pi0|] eqn:Ef.
  - injection E1 as _ <-. unfold vis_ok. cbn [ti_props ti_visited]. split; [|split; [|split; [|split]]].
    + intros k [<-|Hk]; [exists pi0; now apply bfind_in|now apply Hv].
    + auto.
    + exists pi0. now apply bfind_in.
    + auto.
    + auto.
  - match type of E1 with rbind ?X _ = _ => destruct X as [dbdef| | |] end; cbn [rbind] in E1; try discriminate.
    match type of E1 with match ?X with _ => _ end = _ => destruct X as [dv|] end; [|discriminate].
    destruct (from_rbx_type (vtype pvalue)) as [ser_type|] eqn:Et; [|discriminate].
    injection E1 as _ <-. unfold vis_ok. cbn [ti_props ti_visited]. split; [|split; [|split; [|split]]].
    + intros k [<-|Hk]; [eexists; apply in_binsert; left; reflexivity|]. destruct (Hv k Hk) as (pi & Hpi). exists pi. apply in_binsert. now right.
    + intros kp Hk. apply in_binsert. now right.
    + eexists. apply in_binsert. left. reflexivity.
    + intros k pi Hk. apply in_binsert in Hk. destruct Hk as [[= -> ->]|Hk]; [right; split; [reflexivity|reflexivity]|now left].
    + intro Hs. apply binsert_sorted; [exact Hs|exact Ef].
Qed.

Lemma cti_fold_tbl d class l : forall ss ti ss' ti',
  (forall pv, In pv l -> find_desc_bin d (string_of_bytes class) (string_of_bytes (fst pv)) = Ok None) ->
  fold_res (cti_prop d class) (ss, ti) l = Ok (ss', ti') -> vis_ok ti ->
  vis_ok ti' /\ (forall kp, In kp (ti_props ti) -> In kp (ti_props ti')) /\
  (forall pv, In pv l -> exists pi, In (fst pv, pi) (ti_props ti')) /\
  (forall k pi, In (k, pi) (ti_props ti') -> In (k, pi) (ti_props ti) \/
                  exists pv, In pv l /\ k = fst pv /\ from_rbx_type (vtype (snd pv)) = Some (pi_type pi)) /\
  (keys_sorted (ti_props ti) -> keys_sorted (ti_props ti')).
Proof.
  induction l as [|pv l IH]; intros ss ti ss' ti' Hl; cbn [fold_res].
  { intros [= _ <-] Hv. split; [exact Hv|]. split; [auto|]. split; [intros pv []|auto]. }
  destruct (cti_prop d class (ss, ti) pv) as [[ss1 ti1]| | |] eqn:E; cbn [rbind]; try discriminate.
  intros H Hv. destruct (cti_prop_tbl d class ss ti pv ss1 ti1 (Hl pv (or_introl eq_refl)) E Hv) as (Hv1 & Hm1 & Hc1 & Ho1 & Hs1).
  destruct (IH ss1 ti1 ss' ti' (fun pv' Hin => Hl pv' (or_intror Hin)) H Hv1) as (Hv' & Hm' & Hc' & Ho' & Hs').
  split; [exact Hv'|]. split; [auto|]. split; [|split; [|auto]].
  - intros pv' [<-|Hin]; [|now apply Hc']. destruct Hc1 as (pi1 & Hk1). exists pi1. now apply Hm'.
  - intros k pi Hk. destruct (Ho' k pi Hk) as [Hk1|(pv' & Hin & E1 & E2)].
    + destruct (Ho1 k pi Hk1) as [Hk0|[E1 E2]]; [now left|right]. exists pv. split; [now left|split; assumption].
    + right. exists pv'. split; [now right|split; assumption].
Qed.

Definition tbl_inv (dom : cdom) (st : ser_state) : Prop :=
  (forall c ti, In (c, ti) (ss_types st) -> vis_ok ti) /\
  (forall r i k v ti, In r (ss_relevant st) -> find_inst dom r = Some i -> In (k, v) (i_props i) ->
     In (i_class i, ti) (ss_types st) -> exists pi, In (k, pi) (ti_props ti)) /\
  (forall c ti k pi, In (c, ti) (ss_types st) -> In (k, pi) (ti_props ti) ->
     k = NAME \/ exists r i v, In r (ss_relevant st) /\ find_inst dom r = Some i /\ i_class i = c /\ In (k, v) (i_props i) /\
                               from_rbx_type (vtype v) = Some (pi_type pi)) /\
  (forall c ti, In (c, ti) (ss_types st) -> keys_sorted (ti_props ti)).

Lemma collect_tbl d dom st r inst st' :
  unknown_props d dom -> find_inst dom r = Some inst -> types_inv dom st -> tbl_inv dom st ->
  collect_type_info d (mkSS (ss_relevant st ++ [r]) (ss_types st) (ss_next_id st) (ss_sstr st)) inst = Ok st' ->
  tbl_inv dom st'.
Proof.
  intros Hun Hfi Hinv (Hvis & Hcov & Hor & Hsrt) H. pose proof (sorted_NoDup _ (inv_sorted _ _ Hinv)) as Hndk.
  destruct (find_inst_some _ _ _ Hfi) as [Hind _].
  assert (Hl : forall pv, In pv (i_props inst) -> find_desc_bin d (string_of_bytes (i_class inst)) (string_of_bytes (fst pv)) = Ok None).
  { intros [pname v] Hin. cbn [fst]. exact (proj1 (Hun inst pname v Hind Hin)). }
  assert (G : forall types0 ti0 next ss2 ti2,
            NoDup (List.map fst types0) -> bfind (i_class inst) types0 = Some ti0 -> vis_ok ti0 ->
            (forall c ti, In (c, ti) types0 -> (c, ti) = (i_class inst, ti0) \/ In (c, ti) (ss_types st)) ->
            (forall r' i' k v, In r' (ss_relevant st) -> find_inst dom r' = Some i' -> In (k, v) (i_props i') -> i_class i' = i_class inst ->
                               exists pi, In (k, pi) (ti_props ti0)) ->
            (forall k pi, In (k, pi) (ti_props ti0) ->
               k = NAME \/ exists r' i' v, In r' (ss_relevant st) /\ find_inst dom r' = Some i' /\ i_class i' = i_class inst /\ In (k, v) (i_props i') /\
                                           from_rbx_type (vtype v) = Some (pi_type pi)) ->
            keys_sorted (ti_props ti0) -> (forall c ti, In (c, ti) types0 -> keys_sorted (ti_props ti)) ->
            fold_res (cti_prop d (i_class inst))
              (ss_sstr st, mkTI (ti_id ti0) (ti_service ti0) (ti_instances ti0 ++ [i_ref inst]) (ti_props ti0) (ti_class ti0) (ti_visited ti0))
              (i_props inst) = Ok (ss2, ti2) ->
            tbl_inv dom (mkSS (ss_relevant st ++ [r]) (bset (i_class inst) ti2 types0) next ss2)).
  { intros types0 ti0 next ss2 ti2 Hnd0 Hf0 Hv0 Hold Hcov0 Hor0 Hs0 Hsall Ef.
    destruct (cti_fold_tbl d (i_class inst) (i_props inst) _ _ _ _ Hl Ef) as (Hv2 & Hm2 & Hc2 & Ho2 & Hs2); [exact Hv0|].
    cbn [ti_props] in Hm2, Ho2, Hs2.
    assert (Hnd2 : NoDup (List.map fst (bset (i_class inst) ti2 types0))) by (now rewrite bset_keys).
    assert (Hin2 : In (i_class inst, ti2) (bset (i_class inst) ti2 types0)) by (eapply in_bset_same; eauto).
    split; [|split; [|split]]; cbn [ss_types ss_relevant].
    4:{ intros c ti Hin. apply (in_bset_cases _ _ _ _ Hf0) in Hin. destruct Hin as [[-> ->]|Hin]; [now apply Hs2|now apply (Hsall c ti)]. }
    - intros c ti Hin. apply (in_bset_cases _ _ _ _ Hf0) in Hin. destruct Hin as [[-> ->]|Hin]; [exact Hv2|].
      destruct (Hold c ti Hin) as [[= -> ->]|Hin']; [exact Hv0|now apply (Hvis c ti)].
    - intros r' i' k v ti Hr' Hf' Hkv Hct.
      destruct (bytes_eqb (i_class i') (i_class inst)) eqn:Ec.
      + apply bytes_eqb_eq in Ec. rewrite Ec in Hct. assert (ti = ti2) by (eapply keys_functional; eauto). subst ti.
        apply in_app_or in Hr'. destruct Hr' as [Hr'|[<-|[]]].
        * destruct (Hcov0 r' i' k v Hr' Hf' Hkv Ec) as (pi & Hpi). exists pi. now apply Hm2.
        * rewrite Hfi in Hf'. injection Hf' as <-. exact (Hc2 (k, v) Hkv).
      + apply bytes_eqb_false_neq in Ec. apply (in_bset_cases _ _ _ _ Hf0) in Hct. destruct Hct as [[E _]|Hct]; [contradiction|].
        destruct (Hold _ _ Hct) as [[= E _]|Hct']; [contradiction|].
        apply in_app_or in Hr'. destruct Hr' as [Hr'|[<-|[]]]; [now apply (Hcov r' i' k v ti)|].
        rewrite Hfi in Hf'. injection Hf' as <-. now elim Ec.
    - intros c ti k pi Hct Hkp. apply (in_bset_cases _ _ _ _ Hf0) in Hct. destruct Hct as [[-> ->]|Hct].
      + destruct (Ho2 k pi Hkp) as [Hk0|([pn pv] & Hin & E1 & E2)].
        * destruct (Hor0 k pi Hk0) as [->|(r' & i' & v & A1 & A2 & A3 & A4 & A5)]; [now left|right].
          exists r', i', v. split; [apply in_or_app; now left|auto].
        * right. cbn [fst snd] in E1, E2. subst k. exists r, inst, pv. split; [apply in_or_app; right; now left|auto].
      + destruct (Hold _ _ Hct) as [[= -> ->]|Hct'].
        * destruct (Hor0 k pi Hkp) as [->|(r' & i' & v & A1 & A2 & A3 & A4 & A5)]; [now left|right].
          exists r', i', v. split; [apply in_or_app; now left|auto].
        * destruct (Hor c ti k pi Hct' Hkp) as [->|(r' & i' & v & A1 & A2 & A3 & A4 & A5)]; [now left|right].
          exists r', i', v. split; [apply in_or_app; now left|auto]. }
  unfold collect_type_info in H. cbn [ss_types ss_next_id ss_sstr ss_relevant] in H.
  destruct (bfind (i_class inst) (ss_types st)) as [ti0|] eqn:Hf.
  - match type of H with rbind ?X _ = _ => destruct X as [[ss2 ti2]| | |] eqn:Ef end; cbn [rbind] in H; try discriminate.
    injection H as <-. apply (G (ss_types st) ti0 (ss_next_id st) ss2 ti2 Hndk Hf); [|auto| | | | |exact Ef].
    + apply (Hvis (i_class inst)). now apply bfind_in.
    + intros r' i' k v Hr' Hf' Hkv Ec. apply (Hcov r' i' k v ti0 Hr' Hf' Hkv). rewrite Ec. now apply bfind_in.
    + intros k pi Hkp. apply (Hor (i_class inst) ti0 k pi); [now apply bfind_in|exact Hkp].
    + apply (Hsrt (i_class inst)). now apply bfind_in.
    + exact Hsrt.
  - match type of H with rbind ?X _ = _ => destruct X as [[ss2 ti2]| | |] eqn:Ef end; cbn [rbind] in H; try discriminate.
    injection H as <-.
    set (nti := new_type_info d (ss_next_id st) (i_class inst)) in *.
    apply (G (binsert (i_class inst, nti) (ss_types st)) nti (ss_next_id st + 1) ss2 ti2); [| | | | | | | |exact Ef].
    + eapply Permutation_NoDup; [symmetry; apply Permutation_map; apply binsert_perm|]. cbn [List.map fst]. constructor; [|exact Hndk].
      now apply bfind_none_notin.
    + now apply BinStructure.bfind_binsert_same.
    + intros k [].
    + intros c ti Hin. apply in_binsert in Hin. destruct Hin as [E|Hin]; [now left|now right].
    + intros r' i' k v Hr' Hf' Hkv Ec. exfalso. apply (bfind_none_notin _ _ Hf). rewrite <- Ec.
      pose proof (inv_cover _ _ Hinv r' Hr') as Hc. unfold class_of in Hc. now rewrite Hf' in Hc.
    + intros k pi [[= <- _]|[]]. now left.
    + unfold nti, new_type_info, keys_sorted. cbn [ti_props List.map fst]. repeat constructor.
    + intros c ti Hin. apply in_binsert in Hin. destruct Hin as [[= -> ->]|Hin]; [|now apply (Hsrt c ti)].
      unfold nti, new_type_info, keys_sorted. cbn [ti_props List.map fst]. repeat constructor.
Qed.

Lemma add_loop_tbl d dom : unknown_props d dom -> forall fuel outer stack lv st st',
  types_inv dom st -> tbl_inv dom st -> add_loop fuel d dom outer stack lv st = Ok st' -> tbl_inv dom st'.
Proof.
  intros Hun. induction fuel as [|f IH]; intros outer stack lv st st' Hinv Hc H; [discriminate|].
  cbn [add_loop] in H. destruct stack as [|x rest]; [now injection H as <-|].
  destruct (find_inst dom x) as [inst|] eqn:Hfi; [|discriminate].
  destruct outer; [exact (IH _ _ _ _ _ Hinv Hc H)|].
  match type of H with (if ?c then _ else _) = _ => destruct c end; [exact (IH _ _ _ _ _ Hinv Hc H)|].
  destruct (collect_type_info d _ inst) as [st1| | |] eqn:E; cbn [rbind] in H; try discriminate.
  destruct (cti_step _ _ _ _ _ _ Hfi Hinv E) as (Hinv1 & _).
  exact (IH _ _ _ _ _ Hinv1 (collect_tbl d dom st x inst st1 Hun Hfi Hinv Hc E) H).
Qed.

Theorem enc_tbl_inv d ep dom roots st : unknown_props d dom -> add_instances d ep dom roots = Ok st -> tbl_inv dom st.
Proof.
  intros Hun Hst. destruct (add_instances_inv _ _ _ _ _ Hst) as (st0 & Hl & Hrel & Ht & _).
  assert (Hc : tbl_inv dom st0).
  { eapply (add_loop_tbl d dom Hun); [apply types_inv0| |exact Hl].
    split; [intros c ti []|split; [intros r i k v ti []|split; [intros c ti k pi []|intros c ti []]]]. }
  unfold tbl_inv. rewrite Hrel, Ht. exact Hc.
Qed.
Print Assumptions enc_tbl_inv.

(* ================================================================= (P) the normalised DOM is an encoder input of the same kind *)
Lemma map_fst_filter {V} (q : bytes -> bool) (l : list (bytes * V)) :
  List.map fst (filter (fun cp => q (fst cp)) l) = filter q (List.map fst l).
Proof. induction l as [|x l IH]; [reflexivity|]. cbn [filter List.map]. destruct (q (fst x)); cbn [List.map]; now rewrite IH. Qed.
Lemma nodup_filter {A} (q : A -> bool) l : NoDup l -> NoDup (filter q l).
Proof. induction 1 as [|x l Hn _ IH]; [constructor|]. cbn [filter]. destruct (q x); [constructor; [|exact IH]|exact IH]. intro H. apply filter_In in H. tauto. Qed.
Lemma bfind_fold_notin k l : forall acc, ~ In k (List.map fst l) ->
  bfind k (fold_left (fun m (kv : bytes * value) => bupd (fst kv) (snd kv) m) l acc) = bfind k acc.
Proof.
  induction l as [|[k0 v0] l IH]; intros acc Hn; [reflexivity|]. cbn [fold_left fst snd List.map In] in *.
  rewrite IH by tauto. rewrite bfind_bupd. replace (bytes_eqb k k0) with false; [reflexivity|].
  symmetry. apply XmlDeterminism.beqb_false_iff. intro E. apply Hn. now left.
Qed.
Lemma bfind_collect_props k v l : NoDup (List.map fst l) -> In (k, v) l -> bfind k (collect_props l) = Some v.
Proof.
  unfold collect_props. generalize (@nil (bytes * value)) as acc.
  induction l as [|[k0 v0] l IH]; intros acc Hnd Hin; [contradiction|]. cbn [List.map fst] in Hnd. inversion Hnd as [|? ? Hn Hd]; subst.
  cbn [fold_left fst snd]. destruct Hin as [[= -> ->]|Hin].
  - rewrite bfind_fold_notin by exact Hn. rewrite bfind_bupd, bytes_eqb_refl. reflexivity.
  - now apply IH.
Qed.
Lemma collect_props_keys_in k l : In k (List.map fst (collect_props l)) -> In k (List.map fst l).
Proof. intro H. apply in_map_iff in H. destruct H as ([k' v] & <- & Hin). apply collect_props_in in Hin. apply in_map_iff. exists (k', v). auto. Qed.

Lemma simple_col_norm st wt vs : simple_col wt vs -> simple_col wt (List.map (norm_val0 st) vs).
Proof.
  intro H. destruct H; rewrite map_map; cbn [norm_val0].
  - apply sc_bool. - now apply sc_int32. - now apply sc_int64. - now apply sc_float32. - now apply sc_float64.
  - now apply sc_bstring. - now apply sc_bstring.
  - rewrite <- (map_map (ref_keep st) VRef). apply sc_ref.
Qed.
Lemma simple_col_wire st wt vs v : simple_col wt vs -> In v vs -> from_rbx_type (vtype (norm_val0 st v)) = Some wt.
Proof. intros Hs Hin. destruct Hs; apply in_map_iff in Hin; destruct Hin as (x & <- & _); reflexivity. Qed.

Lemma sorted_keys_ext (l : list bytes) : forall l',
  StronglySorted blt l -> StronglySorted blt l' -> (forall x, In x l <-> In x l') -> l = l'.
Proof.
  induction l as [|a r IH]; intros [|a' r'] Hs Hs' Hin.
  - reflexivity.
  - exfalso. apply (proj2 (Hin a')). left; reflexivity.
  - exfalso. apply (proj1 (Hin a)). left; reflexivity.
  - apply StronglySorted_inv in Hs. destruct Hs as [Hsr Ha].
    apply StronglySorted_inv in Hs'. destruct Hs' as [Hsr' Ha'].
    rewrite Forall_forall in Ha, Ha'.
    assert (Haa : a = a').
    { destruct (proj1 (Hin a) (or_introl eq_refl)) as [E|E]; [auto|].
      destruct (proj2 (Hin a') (or_introl eq_refl)) as [E'|E']; [auto|].
      exfalso. apply (blt_irrefl a). apply (blt_trans _ a'); [apply Ha|apply Ha']; assumption. }
    subst a'. f_equal. apply IH; try assumption.
    intro x. split; intro Hx.
    + destruct (proj1 (Hin x) (or_intror Hx)) as [E|E]; [|exact E].
      subst x. exfalso. apply (blt_irrefl a). now apply Ha.
    + destruct (proj2 (Hin x) (or_intror Hx)) as [E|E]; [|exact E].
      subst x. exfalso. apply (blt_irrefl a). now apply Ha'.
Qed.

Definition simple_val (v : value) : Prop :=
  match v with VBool _ | VInt32 _ | VInt64 _ | VFloat32 _ | VFloat64 _ | VString _ | VBinaryString _ | VRef _ => True | _ => False end.
Lemma simple_col_val wt vs v : simple_col wt vs -> In v vs -> simple_val v.
Proof. intros Hs Hin. destruct Hs; apply in_map_iff in Hin; destruct Hin as (x & <- & _); exact I. Qed.

Section BinFix.
  Variables (d : db) (ep : enc_params) (cmp : compression) (dom : cdom) (ts : list tree) (b : bytes) (p : dec_params) (st : ser_state).
  Hypothesis Hin : BinRoundTrip.input_ok dom ts.
  Hypothesis Hnames : names_ok dom.
  Hypothesis Hun : unknown_props d dom.
  Hypothesis Hord : ep_order ep [] = [].
  Hypothesis Hst : add_instances d ep dom (List.map root ts) = Ok st.
  Hypothesis Hsimple : forall x, In x (cols (ss_types st)) -> fst (snd x) <> NAME -> simple_col (pi_type (snd (snd x))) (col_values ep dom x).
  Let W := flat_map refs ts.
  Let roots := List.map root ts.
  Let nd := bnorm_dom st roots dom.

  Lemma bf_rel : ss_relevant st = flat_map post ts /\ NoDup (ss_relevant st) /\ forall r, In r W <-> In r (ss_relevant st).
  Proof.
    destruct Hin as (_ & _ & Hag & HndW & _). destruct (enc_relevant_postorder d ep dom ts st Hag HndW Hst) as [Hrel Hndr].
    split; [exact Hrel|]. split; [exact Hndr|]. intro r. rewrite Hrel. unfold W.
    split; intro H; [eapply Permutation_in; [apply Permutation_sym, post_perm_refs_forest|exact H]
                    |eapply Permutation_in; [apply post_perm_refs_forest|exact H]].
  Qed.
  Lemma bf_inv : types_inv dom st.
  Proof. destruct (add_instances_inv _ _ _ _ _ Hst) as (_ & _ & _ & _ & _ & _ & Hinv). exact Hinv. Qed.
  Lemma bf_found r : In r W -> exists i, find_inst dom r = Some i /\ i_ref i = r /\ In i dom.
  Proof.
    intro Hr. pose proof (inv_found _ _ bf_inv r (proj1 (proj2 (proj2 bf_rel) r) Hr)) as Hne.
    destruct (find_inst dom r) as [i|] eqn:Ef; [|contradiction]. destruct (rs_find_inst_some _ _ _ Ef). exists i. auto.
  Qed.
  Lemma bf_types_nodup : NoDup (List.map fst (ss_types st)).
  Proof. apply sorted_NoDup, (inv_sorted _ _ bf_inv). Qed.
  Lemma bf_entry r : In r W -> exists ti, In (class_of dom r, ti) (ss_types st) /\ bfind (class_of dom r) (ss_types st) = Some ti /\ In r (ti_instances ti).
  Proof.
    intro Hr. apply bf_rel in Hr. pose proof (inv_cover _ _ bf_inv r Hr) as Hc. apply in_map_iff in Hc. destruct Hc as ([c ti] & Ec & Hct).
    cbn [fst] in Ec. subst c. exists ti. split; [exact Hct|]. split; [apply in_bfind; [exact bf_types_nodup|exact Hct]|].
    rewrite (inv_insts _ _ bf_inv _ _ Hct). apply filter_In. split; [exact Hr|]. unfold of_class. apply bytes_eqb_refl.
  Qed.
  Lemma bf_insts_W c ti r : In (c, ti) (ss_types st) -> In r (ti_instances ti) -> In r W /\ class_of dom r = c.
  Proof.
    intros Hct Hr. rewrite (inv_insts _ _ bf_inv _ _ Hct) in Hr. apply filter_In in Hr. destruct Hr as [Hr Hc]. split; [now apply bf_rel|].
    unfold of_class in Hc. now apply bytes_eqb_eq.
  Qed.

  (* the value the first save writes for instance r in the column cp of its class *)
  Definition colv (r : N) (cp : bytes * prop_info) : value :=
    match bfind (fst cp) (i_props (src dom r)) with Some v => v | None => pi_default (snd cp) end.
  Lemma bf_colv c ti r cp : In (c, ti) (ss_types st) -> In r (ti_instances ti) -> In cp (ti_props ti) -> fst cp <> NAME ->
    In (colv r cp) (col_values ep dom (c, ti, cp)) /\ simple_col (pi_type (snd cp)) (col_values ep dom (c, ti, cp)).
  Proof.
    intros Hct Hr Hcp Hn. destruct cp as [canon pi]. cbn [fst snd] in *.
    destruct (unknown_props_table d ep dom _ st Hun Hst) as (_ & _ & _ & Hpl).
    assert (Hx : In (c, ti, (canon, pi)) (cols (ss_types st))).
    { unfold cols. apply in_flat_map. exists (c, ti). split; [exact Hct|]. apply in_map_iff. exists (canon, pi). auto. }
    destruct (Hpl _ Hx) as (_ & E2 & E3). cbn [fst snd] in E2, E3.
    assert (Hnn : bytes_eqb canon NAME = false) by (apply XmlDeterminism.beqb_false_iff; exact Hn).
    split; [|exact (Hsimple _ Hx Hn)]. unfold colv. cbn [fst snd].
    rewrite <- (prop_value_plain ep canon pi (src dom r) E2 E3 Hord Hnn). unfold col_values. apply in_map. now apply in_map.
  Qed.

  (* ---- the normalised DOM *)
  Lemma bf_nd_find r : find_inst nd r = option_map (bnorm_inst st roots) (find_inst dom r).
  Proof. apply find_inst_bnorm. Qed.
  Lemma bf_nd_class r : class_of nd r = class_of dom r.
  Proof. unfold class_of. rewrite bf_nd_find. destruct (find_inst dom r); reflexivity. Qed.
  Lemma bf_nd_refs : List.map i_ref nd = List.map i_ref dom.
  Proof. unfold nd, bnorm_dom. rewrite map_map. reflexivity. Qed.
  Lemma bf_nd_kids r : In r W -> children_of nd r = children_of dom r.
  Proof.
    intro Hr. destruct Hin as (_ & _ & Hag & HndW & H0W). unfold children_of, nd, bnorm_dom.
    assert (H : forall l, (forall j, In j l -> In j dom) ->
              List.map i_ref (filter (fun i => i_parent i =? r) (List.map (bnorm_inst st roots) l)) =
              List.map i_ref (filter (fun i => i_parent i =? r) l)).
    { induction l as [|j l IH]; intro Hl; [reflexivity|]. cbn [List.map filter].
      assert (Ej : (i_parent (bnorm_inst st roots j) =? r) = (i_parent j =? r)).
      { unfold bnorm_inst. cbn [i_parent]. destruct (inW roots (i_ref j)) eqn:E; [|reflexivity].
        apply inW_true in E. unfold roots in E. apply in_map_iff in E. destruct E as (t & Et & Ht).
        replace (0 =? r) with false by (symmetry; apply N.eqb_neq; intro E0; subst r; contradiction).
        symmetry. apply N.eqb_neq. intro Ep. apply (root_not_child (children_of dom) ts t r Hag HndW Ht Hr). rewrite Et, <- Ep.
        apply in_children_of. apply Hl. now left. }
      rewrite Ej. specialize (IH (fun j' Hj' => Hl j' (or_intror Hj'))).
      destruct (i_parent j =? r); cbn [List.map]; rewrite IH; reflexivity. }
    apply H. auto.
  Qed.
  Lemma bf_nd_src r : In r W -> exists i ti, find_inst dom r = Some i /\ bfind (class_of dom r) (ss_types st) = Some ti /\
    In (class_of dom r, ti) (ss_types st) /\ In r (ti_instances ti) /\
    src nd r = mkInst r (if inW roots r then 0 else i_parent i) (i_class i) (i_name i) (collect_props (source_props0 st ti (src dom r))) /\
    i_class i = class_of dom r /\ src dom r = i.
  Proof.
    intro Hr. destruct (bf_found r Hr) as (i & Ef & Eref & _). destruct (bf_entry r Hr) as (ti & Hct & Hbf & Hri).
    exists i, ti. split; [exact Ef|]. split; [exact Hbf|]. split; [exact Hct|]. split; [exact Hri|].
    assert (Ec : i_class i = class_of dom r) by (unfold class_of; now rewrite Ef).
    assert (Es : src dom r = i) by (unfold src; now rewrite Ef).
    split; [|split; [exact Ec|exact Es]].
    unfold src at 1. rewrite bf_nd_find, Ef. cbn [option_map]. unfold bnorm_inst. rewrite Eref. f_equal.
    rewrite <- Es at 1. apply bnorm_props_entry. exact Hbf.
  Qed.

  Lemma bf_ti_keys_nodup c ti : In (c, ti) (ss_types st) -> NoDup (List.map fst (ti_props ti)).
  Proof. intro Hct. apply sorted_NoDup. exact (proj2 (proj2 (proj2 (enc_tbl_inv d ep dom _ st Hun Hst))) c ti Hct). Qed.

  (* the property table of a written instance of the normalised DOM: one value per column of its class *)
  Lemma bf_nd_props r ti : In r W -> bfind (class_of dom r) (ss_types st) = Some ti ->
    i_props (src nd r) = collect_props (source_props0 st ti (src dom r)) /\
    (forall cp, In cp (ti_props ti) -> fst cp <> NAME -> bfind (fst cp) (i_props (src nd r)) = Some (norm_val0 st (colv r cp))) /\
    (forall k, In k (List.map fst (i_props (src nd r))) -> k <> NAME /\ In k (List.map fst (ti_props ti))).
  Proof.
    intros Hr Hbf. destruct (bf_nd_src r Hr) as (i & ti' & Ef & Hbf' & Hct & Hri & Esrc & Ec & Es). rewrite Hbf in Hbf'. inversion Hbf'; subst ti'.
    assert (Ep : i_props (src nd r) = collect_props (source_props0 st ti (src dom r))) by (rewrite Esrc; reflexivity).
    split; [exact Ep|]. split.
    - intros cp Hcp Hn. rewrite Ep. apply bfind_collect_props.
      + unfold source_props0. rewrite map_map. cbn [fst]. 
        change (fun x : bytes * prop_info => fst x) with (@fst bytes prop_info).
        rewrite (map_fst_filter (fun k => negb (bytes_eqb k NAME))). apply nodup_filter. now apply (bf_ti_keys_nodup (class_of dom r)).
      + unfold source_props0. apply in_map_iff. exists cp. split; [reflexivity|]. apply filter_In. split; [exact Hcp|].
        apply negb_true_iff. now apply XmlDeterminism.beqb_false_iff.
    - intros k Hk. rewrite Ep in Hk. apply collect_props_keys_in in Hk. unfold source_props0 in Hk. rewrite map_map in Hk. cbn [fst] in Hk.
      apply in_map_iff in Hk. destruct Hk as (cp & <- & Hcp). apply filter_In in Hcp. destruct Hcp as [Hcp Hnn].
      apply negb_true_iff, XmlDeterminism.beqb_false_iff in Hnn. split; [exact Hnn|]. now apply in_map.
  Qed.

  Lemma bf_nd_input_ok : BinRoundTrip.input_ok nd ts.
  Proof.
    destruct Hin as (Hnd_dom & Hcl & Hag & HndW & H0W). split; [rewrite bf_nd_refs; exact Hnd_dom|]. split; [|split; [|split; assumption]].
    - unfold class_ok in *. apply Forall_forall. intros i Hi. unfold nd, bnorm_dom in Hi. apply in_map_iff in Hi. destruct Hi as (i0 & <- & Hi0).
      rewrite Forall_forall in Hcl. exact (Hcl i0 Hi0).
    - rewrite Forall_forall in *. intros t Ht. apply (agrees_ext (children_of dom)); [|apply Hag, Ht].
      intros r Hr. symmetry. apply bf_nd_kids. apply in_flat_map. exists t. split; assumption.
  Qed.
  Lemma bf_nd_names_ok : names_ok nd.
  Proof.
    unfold names_ok in *. apply Forall_forall. intros i Hi. unfold nd, bnorm_dom in Hi. apply in_map_iff in Hi. destruct Hi as (i0 & <- & Hi0).
    rewrite Forall_forall in Hnames. exact (Hnames i0 Hi0).
  Qed.
  Lemma bf_nd_unknown : unknown_props d nd.
  Proof.
    intros i pname v Hi Hkv. unfold nd, bnorm_dom in Hi. apply in_map_iff in Hi. destruct Hi as (i0 & <- & Hi0).
    cbn [bnorm_inst i_class i_props] in *. unfold bnorm_props in Hkv.
    destruct (bfind (i_class i0) (ss_types st)) as [ti|] eqn:Hbf; [|exact (Hun i0 pname v Hi0 Hkv)].
    apply collect_props_in in Hkv. unfold source_props0 in Hkv. apply in_map_iff in Hkv. destruct Hkv as ([canon pi] & E & Hcp).
    cbn [fst snd] in E. inversion E; subst pname. apply filter_In in Hcp. destruct Hcp as [Hcp Hnn]. cbn [fst] in Hnn.
    apply negb_true_iff, XmlDeterminism.beqb_false_iff in Hnn.
    destruct (enc_table_plain d ep dom _ st Hun Hst (i_class i0) ti (bfind_in _ _ _ Hbf) canon pi Hcp) as (_ & _ & _ & [E0|H]); [contradiction|exact H].
  Qed.

  (* ---- the class table of the second save *)
  Variable st2 : ser_state.
  Hypothesis Hst2 : add_instances d ep nd roots = Ok st2.

  Lemma bf2_rel : ss_relevant st2 = ss_relevant st.
  Proof.
    destruct bf_nd_input_ok as (_ & _ & Hag2 & HndW & _). destruct (enc_relevant_postorder d ep nd ts st2 Hag2 HndW Hst2) as [Hrel2 _].
    rewrite Hrel2. symmetry. apply bf_rel.
  Qed.
  Lemma bf2_inv : types_inv nd st2.
  Proof. destruct (add_instances_inv _ _ _ _ _ Hst2) as (_ & _ & _ & _ & _ & _ & Hinv). exact Hinv. Qed.
  Lemma bf2_insts c ti ti2 : In (c, ti) (ss_types st) -> In (c, ti2) (ss_types st2) -> ti_instances ti2 = ti_instances ti.
  Proof.
    intros Hct Hct2. rewrite (inv_insts _ _ bf_inv _ _ Hct), (inv_insts _ _ bf2_inv _ _ Hct2), bf2_rel.
    apply filter_ext. intro r. unfold of_class. now rewrite bf_nd_class.
  Qed.
  Lemma bf2_entry r : In r W -> exists ti2, In (class_of dom r, ti2) (ss_types st2).
  Proof.
    intro Hr. apply bf_rel in Hr. rewrite <- bf2_rel in Hr. pose proof (inv_cover _ _ bf2_inv r Hr) as Hc. rewrite bf_nd_class in Hc.
    apply in_map_iff in Hc. destruct Hc as ([c ti2] & Ec & Hct). cbn [fst] in Ec. subst c. exists ti2. exact Hct.
  Qed.
  Lemma bf2_nd_find r : In r W -> find_inst nd r = Some (src nd r) /\ i_class (src nd r) = class_of dom r.
  Proof.
    intro Hr. destruct (bf_found r Hr) as (i & Ef & _). unfold src. rewrite bf_nd_find, Ef. cbn [option_map]. split; [reflexivity|].
    cbn [bnorm_inst i_class]. unfold class_of. now rewrite Ef.
  Qed.

  (* the columns of a class are the same in both tables, by name *)
  Lemma bf2_keys c ti ti2 : In (c, ti) (ss_types st) -> In (c, ti2) (ss_types st2) ->
    List.map fst (ti_props ti2) = List.map fst (ti_props ti).
  Proof.
    intros Hct Hct2.
    destruct (enc_tbl_inv d ep dom _ st Hun Hst) as (_ & _ & _ & Hsrt).
    destruct (enc_tbl_inv d ep nd _ st2 bf_nd_unknown Hst2) as (_ & Hcov2 & Hor2 & Hsrt2).
    assert (Hbf : bfind c (ss_types st) = Some ti) by (apply in_bfind; [exact bf_types_nodup|exact Hct]).
    apply sorted_keys_ext; [exact (Hsrt2 c ti2 Hct2)|exact (Hsrt c ti Hct)|].
    intro k. split; intro Hk.
    - apply in_map_iff in Hk. destruct Hk as ([k' pi2] & <- & Hkp). cbn [fst].
      destruct (Hor2 c ti2 k' pi2 Hct2 Hkp) as [->|(r & i & v & Hr & Hf & Hc & Hkv & _)].
      + destruct (proj1 (enc_name_entry _ _ _ _ _ Hst c ti Hct)) as (pi & Hpi). apply in_map_iff. exists (NAME, pi). auto.
      + rewrite bf2_rel in Hr. apply bf_rel in Hr. destruct (bf2_nd_find r Hr) as [Hf' Hc']. rewrite Hf in Hf'. inversion Hf'; subst i.
        rewrite Hc' in Hc. rewrite <- Hc in Hbf. apply (bf_nd_props r ti Hr Hbf). apply in_map_iff. exists (k', v). auto.
    - apply in_map_iff in Hk. destruct Hk as ([k' pi] & <- & Hkp). cbn [fst].
      destruct (bytes_eqb k' NAME) eqn:En.
      + apply bytes_eqb_eq in En. subst k'. destruct (proj1 (enc_name_entry _ _ _ _ _ Hst2 c ti2 Hct2)) as (pi2 & Hpi). apply in_map_iff. exists (NAME, pi2). auto.
      + apply XmlDeterminism.beqb_false_iff in En.
        destruct (ti_instances ti) as [|r rs] eqn:Ei; [exfalso; exact (inv_nonempty _ _ bf_inv c ti Hct Ei)|].
        assert (Hri : In r (ti_instances ti)) by (rewrite Ei; now left).
        destruct (bf_insts_W c ti r Hct Hri) as [Hr Hc]. rewrite <- Hc in Hbf.
        destruct (bf_nd_props r ti Hr Hbf) as (_ & Hval & _). pose proof (Hval (k', pi) Hkp En) as Hb. cbn [fst] in Hb. apply bfind_in in Hb.
        destruct (bf2_nd_find r Hr) as [Hf' Hc'].
        assert (Hr2 : In r (ss_relevant st2)) by (rewrite bf2_rel; now apply bf_rel).
        destruct (Hcov2 r (src nd r) k' _ ti2 Hr2 Hf' Hb) as (pi2 & Hpi2); [rewrite Hc', Hc; exact Hct2|].
        apply in_map_iff. exists (k', pi2). auto.
  Qed.

  Lemma bf_colvalues c ti cp : In (c, ti) (ss_types st) -> In cp (ti_props ti) -> fst cp <> NAME ->
    col_values ep dom (c, ti, cp) = List.map (fun r => colv r cp) (ti_instances ti).
  Proof.
    intros Hct Hcp Hn. destruct cp as [canon pi]. cbn [fst snd] in *.
    destruct (unknown_props_table d ep dom _ st Hun Hst) as (_ & _ & _ & Hpl).
    assert (Hx : In (c, ti, (canon, pi)) (cols (ss_types st))).
    { unfold cols. apply in_flat_map. exists (c, ti). split; [exact Hct|]. apply in_map_iff. exists (canon, pi). auto. }
    destruct (Hpl _ Hx) as (_ & E2 & E3). cbn [fst snd] in E2, E3.
    assert (Hnn : bytes_eqb canon NAME = false) by (apply XmlDeterminism.beqb_false_iff; exact Hn).
    unfold col_values. rewrite map_map. apply map_ext. intro r. unfold colv. cbn [fst snd]. now apply prop_value_plain.
  Qed.

  (* the class entry of the first table for an entry of the second *)
  Lemma bf2_entry_back c ti2 : In (c, ti2) (ss_types st2) -> exists ti, In (c, ti) (ss_types st).
  Proof.
    intro Hct2. destruct (ti_instances ti2) as [|r rs] eqn:Ei; [exfalso; exact (inv_nonempty _ _ bf2_inv c ti2 Hct2 Ei)|].
    assert (Hri : In r (ti_instances ti2)) by (rewrite Ei; now left).
    rewrite (inv_insts _ _ bf2_inv _ _ Hct2) in Hri. apply filter_In in Hri. destruct Hri as [Hr Hc].
    unfold of_class in Hc. apply bytes_eqb_eq in Hc. rewrite bf_nd_class in Hc. rewrite bf2_rel in Hr. apply bf_rel in Hr.
    destruct (bf_entry r Hr) as (ti & Hct & _). rewrite Hc in Hct. exists ti. exact Hct.
  Qed.

  Lemma bf2_simple x2 : In x2 (cols (ss_types st2)) -> fst (snd x2) <> NAME -> simple_col (pi_type (snd (snd x2))) (col_values ep nd x2).
  Proof.
    destruct x2 as [[c ti2] [k pi2]]. cbn [fst snd]. intros Hx2 Hn.
    assert (Hc2 : In (c, ti2) (ss_types st2) /\ In (k, pi2) (ti_props ti2)).
    { unfold cols in Hx2. apply in_flat_map in Hx2. destruct Hx2 as (ct & Hct & Hx). apply in_map_iff in Hx.
      destruct Hx as (cp & E & Hcp). inversion E; subst. auto. }
    destruct Hc2 as [Hct2 Hkp2]. destruct (bf2_entry_back c ti2 Hct2) as (ti & Hct).
    assert (Hk : In k (List.map fst (ti_props ti))) by (rewrite <- (bf2_keys c ti ti2 Hct Hct2); apply in_map_iff; exists (k, pi2); auto).
    apply in_map_iff in Hk. destruct Hk as ([k' pi] & Ek & Hkp). cbn [fst] in Ek. subst k'.
    assert (Hbf : bfind c (ss_types st) = Some ti) by (apply in_bfind; [exact bf_types_nodup|exact Hct]).
    assert (Hnn : bytes_eqb k NAME = false) by (apply XmlDeterminism.beqb_false_iff; exact Hn).
    (* the values of the column *)
    destruct (unknown_props_table d ep nd _ st2 bf_nd_unknown Hst2) as (_ & _ & _ & Hpl2).
    destruct (Hpl2 _ Hx2) as (_ & E2 & E3). cbn [fst snd] in E2, E3.
    assert (Ecol : col_values ep nd (c, ti2, (k, pi2)) = List.map (norm_val0 st) (col_values ep dom (c, ti, (k, pi)))).
    { rewrite (bf_colvalues c ti (k, pi) Hct Hkp Hn). unfold col_values. rewrite (bf2_insts c ti ti2 Hct Hct2), !map_map.
      apply map_ext_in. intros r Hr. rewrite (prop_value_plain ep k pi2 (src nd r) E2 E3 Hord Hnn).
      destruct (bf_insts_W c ti r Hct Hr) as [HrW Hc]. rewrite <- Hc in Hbf.
      destruct (bf_nd_props r ti HrW Hbf) as (_ & Hval & _). pose proof (Hval (k, pi) Hkp Hn) as Hb. cbn [fst] in Hb.
      rewrite Hb. reflexivity. }
    (* the wire type of the column *)
    destruct (enc_tbl_inv d ep nd _ st2 bf_nd_unknown Hst2) as (_ & _ & Hor2 & _).
    destruct (Hor2 c ti2 k pi2 Hct2 Hkp2) as [->|(r & i & v & Hr & Hf & Hc & Hkv & Hty)]; [contradiction|].
    rewrite bf2_rel in Hr. apply bf_rel in Hr. destruct (bf2_nd_find r Hr) as [Hf' Hc']. rewrite Hf in Hf'. inversion Hf'; subst i.
    rewrite Hc' in Hc. rewrite <- Hc in Hbf. destruct (bf_nd_props r ti Hr Hbf) as (Ep & _ & _).
    rewrite Ep in Hkv. apply collect_props_in in Hkv. unfold source_props0 in Hkv. apply in_map_iff in Hkv. destruct Hkv as ([k' pi'] & E & Hcp).
    cbn [fst snd] in E. inversion E as [[Ek Ev]]. subst k'. apply filter_In in Hcp. destruct Hcp as [Hcp _].
    assert (pi' = pi) by (eapply keys_functional; [apply (bf_ti_keys_nodup c ti Hct)|exact Hcp|exact Hkp]). subst pi'.
    assert (Hri : In r (ti_instances ti)) by (destruct (bf_entry r Hr) as (ti' & Hct' & Hbf' & Hri'); rewrite Hbf in Hbf'; inversion Hbf'; subst ti'; exact Hri').
    destruct (bf_colv c ti r (k, pi) Hct Hri Hkp Hn) as [Hinv Hsc]. cbn [snd] in Hsc.
    change (norm_val0 st (colv r (k, pi)) = v) in Ev. rewrite <- Ev, (simple_col_wire st _ _ _ Hsc Hinv) in Hty. inversion Hty as [Et].
    rewrite Ecol. first [rewrite <- Et|idtac]. now apply simple_col_norm.
  Qed.

  (* ---- the second round trip *)
  Let L2' := fun x => if inW W x then lbl st2 x else 0.
  Lemma bf2_L x : L2' x = ref_new st2 x.
  Proof.
    unfold L2', ref_new. rewrite bf2_rel. destruct (inW W x) eqn:E.
    - apply inW_true, bf_rel in E. replace (existsb (N.eqb x) (ss_relevant st)) with true; [reflexivity|]. symmetry. now apply inW_true.
    - apply inW_false in E. replace (existsb (N.eqb x) (ss_relevant st)) with false; [reflexivity|]. symmetry. apply inW_false.
      intro H. apply E, bf_rel, H.
  Qed.
  Lemma bf_val_rename c ti r cp : In (c, ti) (ss_types st) -> In r (ti_instances ti) -> In cp (ti_props ti) -> fst cp <> NAME ->
    norm_val st2 (norm_val0 st (colv r cp)) = rename_value L2' (norm_val0 st (colv r cp)) /\
    match norm_val0 st (colv r cp) with VRef x => x = 0 \/ In x W | VContent (CObject _) => False | _ => True end.
  Proof.
    intros Hct Hr Hcp Hn. destruct (bf_colv c ti r cp Hct Hr Hcp Hn) as [Hinv Hsc].
    pose proof (simple_col_val _ _ _ Hsc Hinv) as Hsv. destruct (colv r cp); try contradiction Hsv; cbn [norm_val0 norm_val rename_value]; try (split; [reflexivity|exact I]).
    split; [now rewrite bf2_L|]. unfold ref_keep. destruct (existsb (N.eqb r0) (ss_relevant st)) eqn:E; [right|now left].
    apply bf_rel. now apply inW_true.
  Qed.

  Hypothesis Hdb : db_defaults_null d = true.
  Hypothesis Hlim : dp_lim p = None.
  Variable b2 : bytes.
  Hypothesis Hf2 : encode_file d ep cmp nd roots = Ok b2.
  Hypothesis Hs2 : forall e, encode_chunks d ep nd roots = Ok e -> frame_ok p cmp e.
  Hypothesis Hss2 : sstr_ok st2.

  Theorem bf_fix : exists out2, decode_file d p b2 = Ok out2 /\ encode_file d ep cmp out2 (children_of out2 0) = Ok b2.
  Proof.
    destruct (unknown_props_roundtrip d ep cmp nd ts b2 p st2 bf_nd_input_ok bf_nd_names_ok bf_nd_unknown Hord Hf2 Hst2 Hlim Hs2 Hss2 bf2_simple)
      as (out2 & Hdec & Hsf2 & Hinst2).
    exists out2. split; [exact Hdec|]. rewrite <- Hf2.
    destruct bf_nd_input_ok as (Hnd_nd & _ & Hag2 & HndW & H0W).
    apply (bin_resave_generic d ep cmp nd ts (lbl st2) out2 nd (fun r => i_props (src nd r)) Hnd_nd Hag2 HndW H0W Hsf2).
    - (* the decoded instances *)
      intros r Hr. fold W in Hr. destruct (bf_nd_src r Hr) as (i & ti & Ef & Hbf & Hct & Hri & Esrc & Ec & Es).
      destruct (bf2_entry r Hr) as (ti2 & Hct2). destruct (bf_nd_props r ti Hr Hbf) as (Ep & Hval & _).
      assert (Hri2 : In r (ti_instances ti2)) by (rewrite (bf2_insts _ ti ti2 Hct Hct2); exact Hri).
      destruct (In_nth_error _ _ Hri2) as (k & Hk). rewrite <- bf_nd_class in Hct2.
      destruct (Hinst2 _ ti2 k r Hct2 Hk) as (i2 & H1 & _ & H3 & H4 & H5). exists i2. split; [exact H1|]. split; [exact H3|]. split; [exact H4|].
      rewrite H5, Ep. unfold rename_props. rewrite <- collect_props_map_values. f_equal. fold W. fold L2'.
      unfold source_props, source_props0. rewrite map_map. cbn [fst snd].
      set (q := fun k0 : bytes => negb (bytes_eqb k0 NAME)).
      set (H := fun k0 : bytes => (k0, norm_val st2 (match bfind k0 (i_props (src nd r)) with Some v => v | None => VBool false end))).
      rewrite bf_nd_class in Hct2.
      transitivity (List.map H (List.map fst (filter (fun cp => q (fst cp)) (ti_props ti2)))).
      + rewrite map_map. apply map_ext_in. intros [k0 pi2] Hcp. apply filter_In in Hcp. destruct Hcp as [Hcp Hq]. cbn [fst snd] in *. unfold H. f_equal. f_equal.
        assert (Hk0 : In k0 (List.map fst (ti_props ti))) by (rewrite <- (bf2_keys _ ti ti2 Hct Hct2); apply in_map_iff; exists (k0, pi2); auto).
        apply in_map_iff in Hk0. destruct Hk0 as ([k0' pi] & Ek & Hkp). cbn [fst] in Ek. subst k0'.
        unfold q in Hq. apply negb_true_iff, XmlDeterminism.beqb_false_iff in Hq.
        pose proof (Hval (k0, pi) Hkp Hq) as Hb. cbn [fst] in Hb. rewrite Hb. reflexivity.
      + rewrite !(map_fst_filter q), (bf2_keys _ ti ti2 Hct Hct2), <- (map_fst_filter q), map_map. apply map_ext_in.
        intros [k0 pi] Hcp. apply filter_In in Hcp. destruct Hcp as [Hcp Hq]. cbn [fst snd] in *. unfold H. f_equal.
        unfold q in Hq. apply negb_true_iff, XmlDeterminism.beqb_false_iff in Hq.
        pose proof (Hval (k0, pi) Hcp Hq) as Hb. cbn [fst] in Hb. rewrite Hb.
        exact (proj1 (bf_val_rename _ ti r (k0, pi) Hct Hri Hcp Hq)).
    - (* the values *)
      intros r kv Hr Hkv. fold W in Hr. cbv beta in Hkv. destruct (bf_nd_src r Hr) as (i & ti & Ef & Hbf & Hct & Hri & Esrc & Ec & Es).
      destruct (bf_nd_props r ti Hr Hbf) as (Ep & _ & _). rewrite Ep in Hkv. apply collect_props_in in Hkv. unfold source_props0 in Hkv.
      apply in_map_iff in Hkv. destruct Hkv as (cp & <- & Hcp). cbn [snd]. apply filter_In in Hcp. destruct Hcp as [Hcp Hq].
      apply negb_true_iff, XmlDeterminism.beqb_false_iff in Hq. fold W.
      exact (proj2 (bf_val_rename _ ti r cp Hct Hri Hcp Hq)).
    - (* the source shows them *)
      intros r Hr. fold W in Hr. destruct (bf2_nd_find r Hr) as [Hf' Hc']. rewrite Hf'. f_equal.
      destruct (bf_nd_src r Hr) as (i & ti & Ef & Hbf & Hct & Hri & Esrc & Ec & Es). rewrite bf_nd_class.
      rewrite Esrc at 1. cbn [i_parent i_name i_props]. rewrite Esrc. cbn [i_parent i_name i_props]. fold roots. rewrite Ec.
      destruct (inW roots r); reflexivity.
    - reflexivity.
    - rewrite <- (map_length i_ref nd). apply NoDup_incl_length; [exact HndW|]. intros r Hr. fold W in Hr.
      destruct (bf2_nd_find r Hr) as [Hf' _]. destruct (rs_find_inst_some _ _ _ Hf') as [Hi <-]. now apply in_map.
    - exact Hdb.
  Qed.
End BinFix.
Print Assumptions bf_fix.

(* ================================================================= (Q) C07, second half, binary: the fixed point after the first save *)
(* [out] is what is loaded from the first save of [dom].  Saving [out] (bytes b2), loading b2 and saving again gives b2 again.
   Hypotheses beyond those of [bin_resave], all about the SECOND save and of the same kind as the corresponding hypotheses about
   the first: the compressor law / size limits on the chunks of the second file ([frame_ok], stated on the chunks of [out]), and
   the u32 limits on the shared-string table of the second traversal ([sstr_ok]; the traversal is that of the normalised DOM, which
   yields the same chunks as that of [out]: [bin_resave_chunks]). *)
Theorem bin_resave_fixed_point d ep cmp dom ts b p st :
  BinRoundTrip.input_ok dom ts -> names_ok dom -> unknown_props d dom -> ep_order ep [] = [] ->
  encode_file d ep cmp dom (List.map root ts) = Ok b ->
  add_instances d ep dom (List.map root ts) = Ok st ->
  dp_lim p = None ->
  (forall e, encode_chunks d ep dom (List.map root ts) = Ok e -> frame_ok p cmp e) ->
  sstr_ok st ->
  (forall x, In x (cols (ss_types st)) -> fst (snd x) <> NAME -> simple_col (pi_type (snd (snd x))) (col_values ep dom x)) ->
  db_defaults_null d = true ->
  exists out,
    decode_file d p b = Ok out /\ BinRoundTrip.same_forest dom ts (lbl st) out /\
    encode_file d ep cmp out (children_of out 0) = encode_file d ep cmp (bnorm_dom st (List.map root ts) dom) (List.map root ts) /\
    forall b2,
      encode_file d ep cmp out (children_of out 0) = Ok b2 ->
      (forall e2, encode_chunks d ep out (children_of out 0) = Ok e2 -> frame_ok p cmp e2) ->
      (forall st2, add_instances d ep (bnorm_dom st (List.map root ts) dom) (List.map root ts) = Ok st2 -> sstr_ok st2) ->
      exists out2, decode_file d p b2 = Ok out2 /\ encode_file d ep cmp out2 (children_of out2 0) = Ok b2.
Proof.
  intros H1 H2 H3 H4 H5 H6 H7 H8 H9 H10 H11.
  destruct (bin_resave_chunks d ep cmp dom ts b p st H1 H2 H3 H4 H5 H6 H7 H8 H9 H10 H11) as (out & Hd & Hsf & E).
  exists out. split; [exact Hd|]. split; [exact Hsf|]. split; [unfold encode_file; now rewrite E|].
  intros b2 Hf2 Hs2 Hss2.
  assert (Hf2' : encode_file d ep cmp (bnorm_dom st (List.map root ts) dom) (List.map root ts) = Ok b2) by (unfold encode_file in *; now rewrite <- E).
  rewrite E in Hs2.
  assert (Hst2 : exists st2, add_instances d ep (bnorm_dom st (List.map root ts) dom) (List.map root ts) = Ok st2).
  { unfold encode_file, encode_chunks in Hf2'.
    destruct (add_instances d ep (bnorm_dom st (List.map root ts) dom) (List.map root ts)) as [st2| | |]; cbn [rbind] in Hf2'; try discriminate.
    now exists st2. }
  destruct Hst2 as (st2 & Hst2).
  exact (bf_fix d ep cmp dom ts p st H1 H2 H3 H4 H6 H10 st2 Hst2 H11 H7 b2 Hf2' Hs2 (Hss2 st2 Hst2)).
Qed.
Print Assumptions bin_resave_fixed_point.


(* non-vacuity: every hypothesis of [bin_resave_fixed_point], including those on the second save, holds on the sample DOM of
   BinRoundTrip; the third save is obtained from the theorem, not by computing it *)
Definition fx_out : cdom := Eval vm_compute in match decode_file db0 (dp0 None) sample_file with Ok o => o | _ => [] end.
Definition fx_b2 : bytes := Eval vm_compute in match encode_file db0 ep0 None fx_out (children_of fx_out 0) with Ok x => x | _ => [] end.
Definition fx_e2 : encoded := Eval vm_compute in match encode_chunks db0 ep0 fx_out (children_of fx_out 0) with Ok e => e | _ => mkEnc [] [] end.
Definition fx_st2 : ser_state := Eval vm_compute in
  match add_instances db0 ep0 (bnorm_dom SampleRoundTrip.sample_st [1] sample_dom) [1] with Ok s => s | _ => ser_state0 end.
Lemma fx_out_ok : decode_file db0 (dp0 None) sample_file = Ok fx_out. Proof. vm_compute. reflexivity. Qed.
Lemma fx_b2_ok : encode_file db0 ep0 None fx_out (children_of fx_out 0) = Ok fx_b2. Proof. vm_compute. reflexivity. Qed.
Lemma fx_e2_ok : encode_chunks db0 ep0 fx_out (children_of fx_out 0) = Ok fx_e2. Proof. vm_compute. reflexivity. Qed.
Lemma fx_st2_ok : add_instances db0 ep0 (bnorm_dom SampleRoundTrip.sample_st (List.map root [sample_tree]) sample_dom) (List.map root [sample_tree]) = Ok fx_st2.
Proof. vm_compute. reflexivity. Qed.
Lemma fx_frame_ok e : encode_chunks db0 ep0 fx_out (children_of fx_out 0) = Ok e -> frame_ok (dp0 None) None e.
Proof.
  rewrite fx_e2_ok. intros [= <-]. unfold frame_ok, fx_e2. cbn [en_chunks].
  repeat (constructor; [split; [split; [vm_compute; reflexivity|exact I]|exact I]|]). constructor.
Qed.
Lemma fx_sstr_ok : sstr_ok fx_st2.
Proof. split; [vm_compute; reflexivity|constructor]. Qed.
Example bin_resave_fixed_point_sample :
  exists out b2 out2,
    decode_file db0 (dp0 None) sample_file = Ok out /\
    encode_file db0 ep0 None out (children_of out 0) = Ok b2 /\
    decode_file db0 (dp0 None) b2 = Ok out2 /\
    encode_file db0 ep0 None out2 (children_of out2 0) = Ok b2.
Proof.
  destruct (bin_resave_fixed_point db0 ep0 None sample_dom [sample_tree] sample_file (dp0 None) SampleRoundTrip.sample_st
              SampleRoundTrip.sample_input_ok SampleRoundTrip.sample_names_ok SampleRoundTrip2.sample_unknown_props eq_refl
              sample_encodes SampleRoundTrip.sample_st_ok eq_refl SampleRoundTrip.sample_frame_ok SampleRoundTrip.sample_sstr_ok
              (fun x Hx Hn => proj2 (SampleRoundTrip.sample_plain_cols x Hx Hn)) eq_refl) as (out & Hd & _ & _ & Hfix).
  rewrite fx_out_ok in Hd. inversion Hd; subst out.
  destruct (Hfix fx_b2 fx_b2_ok fx_frame_ok) as (out2 & Hd2 & He2).
  { intros st2 Hst2. rewrite fx_st2_ok in Hst2. inversion Hst2; subst st2. exact fx_sstr_ok. }
  exists fx_out, fx_b2, out2. split; [exact fx_out_ok|]. split; [exact fx_b2_ok|]. split; assumption.
Qed.
Print Assumptions bin_resave_fixed_point_sample.

(* EXPORT, round 2
     vis_ok, tbl_inv, enc_tbl_inv     the class table of a DOM with database-unknown properties: every set property of a written
                                      instance has a column; every column but Name stems from a set property of a written instance of
                                      the class whose value type is the column's wire type; property lists sorted by name
     bin_resave_generic_chunks, bin_resave_chunks   the round-1 theorems at the level of the chunk list
     BinFix: bf_nd_input_ok, bf_nd_names_ok, bf_nd_unknown (the normalised DOM is an encoder input of the same kind),
             bf2_keys (same columns per class in both tables), bf2_simple (same wire types, simple columns), bf_fix
     bin_resave_fixed_point           encode_file (decode_file (encode_file out)) = encode_file out for out = decode_file (encode_file dom)
     example: bin_resave_fixed_point_sample
   The paragraph "NOT PROVED (bin_resave_fixed_point)" of the round-1 EXPORT comment above is superseded by section (Q). *)
