(* BinChunkFacts.v — chunk-level round trips of the binary codec (Model/BinFile.v): the proven column
   codecs (enc_col / dec_col, Proofs/BinValuesFacts*.v) composed into whole PROP, INST and SSTR chunks.
     1. PROP: decode_prop on a written PROP payload, generic in the column law; the effect of
        apply_values on the instance table; the two skipped chunk shapes (no type byte / unknown type byte)
     2. the "Name" PROP chunk
     3. INST: decode_inst on the payload written by inst_chunk
     4. SSTR: decode_sstr on the payload written by encode_chunks
     5. dispatch_chunk on each chunk name
   Allocation limits: every statement holds for any limit that allows the announced sizes
   ([alloc_ok lim n], which is [true] for [lim = None]). *)
From Coq Require Import Lia Permutation.
From RbxVerif Require Import Base Bytes Value Utf8 Utf8Lossy Attr Db CodecDom BinValues BinFile
  BytesFacts BinValuesFacts BinValuesFacts2 BinFileFacts BinSafe.
From RbxVerif Require AttrFacts.
Open Scope N_scope.

(* ------------------------------------------------------------------------------------------ *)
(* 0. helpers                                                                                   *)
(* ------------------------------------------------------------------------------------------ *)
Lemma read_str_w_bstr lim s rest :
  N.of_nat (length s) < 2 ^ 32 -> alloc_ok lim (N.of_nat (length s)) = true -> utf8_valid s = true ->
  read_str lim (w_bstr s ++ rest) = Ok (s, rest).
Proof.
  intros Hl Ha Hu. unfold read_str. unfold pbind at 1. rewrite (read_bstr_app _ _ _ Hl Ha).
  rewrite Hu. reflexivity.
Qed.

Lemma run_chunk_ok {A} (p : parser A) b a rest : p b = Ok (a, rest) -> run_chunk p b = Ok a.
Proof. unfold run_chunk. now intros ->. Qed.

Lemma map_res_length {A B} (f : A -> res B) l l' : map_res f l = Ok l' -> length l' = length l.
Proof.
  revert l'. induction l as [|x l IH]; intros l' H; cbn [map_res] in H.
  - now inversion H.
  - destruct (f x) as [b| | |]; cbn [rbind] in H; try discriminate.
    destruct (map_res f l) as [r| | |]; cbn [rbind] in H; try discriminate.
    inversion H; subst. cbn [length]. now rewrite (IH r eq_refl).
Qed.

Lemma map_res_Forall2 {A B} (f : A -> res B) l l' :
  map_res f l = Ok l' -> Forall2 (fun a b => f a = Ok b) l l'.
Proof.
  revert l'. induction l as [|x l IH]; intros l' H; cbn [map_res] in H.
  - inversion H. constructor.
  - destruct (f x) as [b| | |] eqn:E; cbn [rbind] in H; try discriminate.
    destruct (map_res f l) as [r| | |]; cbn [rbind] in H; try discriminate.
    inversion H; subst. constructor; [exact E|now apply IH].
Qed.

Lemma Forall2_weaken {A B} (P Q : A -> B -> Prop) :
  (forall a b, P a b -> Q a b) -> forall l l', Forall2 P l l' -> Forall2 Q l l'.
Proof. intros H l l' HF. induction HF; constructor; auto. Qed.

Lemma to_ref_ok refs r z : to_ref refs r = Ok z <-> lookup r refs = Some z.
Proof. unfold to_ref. destruct (lookup r refs); split; intros H; inversion H; reflexivity. Qed.

(* ---- the Z-keyed instance table ---- *)
Lemma zfind_zremove_eq {V} k (m : list (Z * V)) : zfind k (zremove k m) = None.
Proof.
  induction m as [|[k' v] m IH]; cbn [zremove zfind]; [reflexivity|].
  destruct (Z.eqb k k') eqn:E; [exact IH|]. cbn [zfind]. now rewrite E.
Qed.

Lemma zfind_zremove_ne {V} k k' (m : list (Z * V)) : k <> k' -> zfind k (zremove k' m) = zfind k m.
Proof.
  intros Hne. induction m as [|[k2 v] m IH]; cbn [zremove zfind]; [reflexivity|].
  destruct (Z.eqb k' k2) eqn:E.
  - apply Z.eqb_eq in E. subst k2. rewrite IH. destruct (Z.eqb_spec k k'); [contradiction|reflexivity].
  - cbn [zfind]. now rewrite IH.
Qed.

Lemma zfind_zupd_eq {V} k (v : V) m : zfind k (zupd k v m) = Some v.
Proof. unfold zupd. cbn [zfind]. now rewrite Z.eqb_refl. Qed.

Lemma zfind_zupd_ne {V} k k' (v : V) m : k <> k' -> zfind k (zupd k' v m) = zfind k m.
Proof.
  intros Hne. unfold zupd. cbn [zfind]. destruct (Z.eqb_spec k k'); [contradiction|].
  now apply zfind_zremove_ne.
Qed.

Lemma zfind_none_keys {V} k (m : list (Z * V)) : zfind k m = None <-> ~ In k (List.map fst m).
Proof.
  induction m as [|[k' v] m IH]; cbn [zfind List.map fst In]; [tauto|].
  destruct (Z.eqb_spec k k') as [->|Hne].
  - split; [discriminate|]. intros H. exfalso. apply H. now left.
  - rewrite IH. split; [intros H [E|E]; [congruence|contradiction]|tauto].
Qed.

Lemma zremove_notin {V} k (m : list (Z * V)) : ~ In k (List.map fst m) -> zremove k m = m.
Proof.
  induction m as [|[k' v] m IH]; cbn [zremove List.map fst In]; [reflexivity|].
  intros H. destruct (Z.eqb_spec k k') as [->|Hne]; [exfalso; apply H; now left|].
  rewrite IH; [reflexivity|tauto].
Qed.

Lemma zremove_keys {V} k (m : list (Z * V)) :
  List.map fst (zremove k m) = filter (fun k' => negb (Z.eqb k k')) (List.map fst m).
Proof.
  induction m as [|[k' v] m IH]; cbn [zremove List.map fst filter]; [reflexivity|].
  destruct (Z.eqb k k'); cbn [negb List.map fst]; now rewrite IH.
Qed.

(* updating an existing key keeps the key set (as a duplicate-free list, up to order) *)
Lemma zupd_keys_perm {V} k (v : V) m :
  NoDup (List.map fst m) -> In k (List.map fst m) ->
  Permutation (List.map fst (zupd k v m)) (List.map fst m) /\ NoDup (List.map fst (zupd k v m)).
Proof.
  intros Hnd Hin. unfold zupd. cbn [List.map fst]. rewrite zremove_keys.
  assert (P : Permutation (k :: filter (fun k' => negb (Z.eqb k k')) (List.map fst m)) (List.map fst m)).
  { revert Hnd Hin. generalize (List.map fst m) as ks. induction ks as [|a ks IH]; intros Hnd Hin; [destruct Hin|].
    inversion Hnd as [|? ? Hna Hnd']; subst. cbn [filter]. destruct (Z.eqb_spec k a) as [->|Hne].
    - cbn [negb]. apply perm_skip.
      assert (E : filter (fun k' => negb (Z.eqb a k')) ks = ks).
      { clear IH Hnd Hin Hnd'. induction ks as [|b ks IH]; [reflexivity|]. cbn [filter].
        destruct (Z.eqb_spec a b) as [->|Hb]; [exfalso; apply Hna; now left|].
        cbn [negb]. rewrite IH; [reflexivity|]. intros H. apply Hna. now right. }
      rewrite E. apply Permutation_refl.
    - cbn [negb]. destruct Hin as [E|Hin]; [congruence|].
      eapply perm_trans; [apply perm_swap|]. apply perm_skip. now apply IH. }
  split; [exact P|]. eapply Permutation_NoDup; [apply Permutation_sym; exact P|exact Hnd].
Qed.

(* ------------------------------------------------------------------------------------------ *)
(* 1. PROP chunks                                                                               *)
(* ------------------------------------------------------------------------------------------ *)
(* the head of every PROP chunk: type id and property name *)
Definition prop_header (lim : option N) : parser (N * bytes) :=
  type_id <== read_le 4 ;; prop_name <== read_str lim ;; pret (type_id, prop_name).

(* the state decode_prop returns: only the instance table changes *)
Definition with_insts (st : dstate) (insts : list (Z * dinst)) : dstate :=
  mkDS (ds_sstr st) (ds_types st) insts (ds_roots st) (ds_next st).

(* the column decoder context decode_prop builds from the state *)
Definition prop_dctx (p : dec_params) (st : dstate) : dec_ctx :=
  mkDC (fun v => match zfind v (ds_insts st) with Some i => di_label i | None => 0 end) (ds_sstr st) (dp_lim p).

Definition set_name (i : dinst) (s : bytes) : dinst := mkDI (di_label i) (di_class i) s (di_props i) (di_children i).

Lemma prop_header_app lim type_id pname rest :
  type_id < 2 ^ 32 ->
  N.of_nat (length pname) < 2 ^ 32 -> alloc_ok lim (N.of_nat (length pname)) = true -> utf8_valid pname = true ->
  prop_header lim (w_le32 type_id ++ w_bstr pname ++ rest) = Ok ((type_id, pname), rest).
Proof.
  intros Ht Hl Ha Hu. unfold prop_header.
  unfold pbind at 1. rewrite (le32_app _ _ Ht).
  unfold pbind at 1. rewrite (read_str_w_bstr _ _ _ Hl Ha Hu). reflexivity.
Qed.

(* decode_prop after its header *)
Lemma decode_prop_after_header d p st chunk type_id pname chunk1 ti :
  prop_header (dp_lim p) chunk = Ok ((type_id, pname), chunk1) ->
  lookup type_id (ds_types st) = Some ti ->
  decode_prop d p st chunk =
  match chunk1 with
  | [] => Ok st
  | byte :: chunk2 =>
      match wire_of_id byte with
      | None => Ok st
      | Some ty =>
          if bytes_eqb pname NAME then
            names <- run_chunk (prepeat (length (dt_referents ti)) (read_bstr (dp_lim p))) chunk2 ;;
            insts <- apply_values set_name (ds_insts st) (dt_referents ti)
                                  (List.map (fun s => if utf8_valid s then s else utf8_lossy s) names) ;;
            Ok (with_insts st insts)
          else
            cp <- find_canonical_property d ty (dt_name ti) pname ;;
            match cp with
            | None => Ok st
            | Some (name, cty, migration) =>
                vs <- run_chunk (dec_col ty cty (prop_dctx p st) (length (dt_referents ti))) chunk2 ;;
                insts <- apply_values (fun i v => add_property p i name migration v)
                                      (ds_insts st) (dt_referents ti) vs ;;
                Ok (with_insts st insts)
            end
      end
  end.
Proof.
  intros Hh Hl. unfold decode_prop. unfold prop_header in Hh. cbv zeta. rewrite Hh, Hl. reflexivity.
Qed.

(* ---- C04: the two chunk shapes the reader skips ---- *)
(* a chunk that ends right after the property name: ignored, whatever the state *)
Theorem decode_prop_skip_truncated_gen d p st chunk type_id pname ti :
  prop_header (dp_lim p) chunk = Ok ((type_id, pname), []) ->
  lookup type_id (ds_types st) = Some ti ->
  decode_prop d p st chunk = Ok st.
Proof. intros Hh Hl. now rewrite (decode_prop_after_header _ _ _ _ _ _ _ _ Hh Hl). Qed.

Theorem decode_prop_skip_truncated d p st type_id pname ti :
  type_id < 2 ^ 32 ->
  N.of_nat (length pname) < 2 ^ 32 -> alloc_ok (dp_lim p) (N.of_nat (length pname)) = true -> utf8_valid pname = true ->
  lookup type_id (ds_types st) = Some ti ->
  decode_prop d p st (w_le32 type_id ++ w_bstr pname) = Ok st.
Proof.
  intros Ht Hl Ha Hu Hty. apply (decode_prop_skip_truncated_gen d p st _ type_id pname ti); [|exact Hty].
  rewrite <- (app_nil_r (w_bstr pname)). now apply prop_header_app.
Qed.

(* a type byte that names no wire type: ignored, whatever follows and whatever the state *)
Theorem decode_prop_skip_unknown_type_gen d p st chunk type_id pname ti byte tail :
  prop_header (dp_lim p) chunk = Ok ((type_id, pname), byte :: tail) ->
  lookup type_id (ds_types st) = Some ti ->
  wire_of_id byte = None ->
  decode_prop d p st chunk = Ok st.
Proof. intros Hh Hl Hw. rewrite (decode_prop_after_header _ _ _ _ _ _ _ _ Hh Hl). now rewrite Hw. Qed.

Theorem decode_prop_skip_unknown_type d p st type_id pname ti byte tail :
  type_id < 2 ^ 32 ->
  N.of_nat (length pname) < 2 ^ 32 -> alloc_ok (dp_lim p) (N.of_nat (length pname)) = true -> utf8_valid pname = true ->
  lookup type_id (ds_types st) = Some ti ->
  wire_of_id byte = None ->
  decode_prop d p st (w_le32 type_id ++ w_bstr pname ++ w_u8 byte ++ tail) = Ok st.
Proof.
  intros Ht Hl Ha Hu Hty Hw.
  apply (decode_prop_skip_unknown_type_gen d p st _ type_id pname ti byte tail); [|exact Hty|exact Hw].
  now apply prop_header_app.
Qed.

(* an undeclared type id is an error even for these shapes *)
Theorem decode_prop_unknown_type_id d p st chunk type_id pname chunk1 :
  prop_header (dp_lim p) chunk = Ok ((type_id, pname), chunk1) ->
  lookup type_id (ds_types st) = None ->
  decode_prop d p st chunk = Err E_TYPE_ID.
Proof. intros Hh Hl. unfold decode_prop. unfold prop_header in Hh. cbv zeta. now rewrite Hh, Hl. Qed.

(* ---- the PROP chunk round trip, generic in the column law ---- *)
(* core: what decode_prop does on a written PROP payload, given what the column decoder returns on the column *)
Theorem decode_prop_chunk d p st type_id cname rs pname ty col name cty migration vs' :
  type_id < 2 ^ 32 ->
  lookup type_id (ds_types st) = Some (mkDT cname rs) ->
  N.of_nat (length pname) < 2 ^ 32 -> alloc_ok (dp_lim p) (N.of_nat (length pname)) = true ->
  utf8_valid pname = true -> bytes_eqb pname NAME = false ->
  find_canonical_property d ty cname pname = Ok (Some (name, cty, migration)) ->
  run_chunk (dec_col ty cty (prop_dctx p st) (length rs)) col = Ok vs' ->
  decode_prop d p st (w_le32 type_id ++ w_bstr pname ++ w_u8 (wire_id ty) ++ col) =
  (insts <- apply_values (fun i v => add_property p i name migration v) (ds_insts st) rs vs' ;;
   Ok (with_insts st insts)).
Proof.
  intros Ht Hty Hl Ha Hu Hn Hcp Hcol.
  rewrite (decode_prop_after_header d p st _ type_id pname (w_u8 (wire_id ty) ++ col) (mkDT cname rs));
    [|now apply prop_header_app|exact Hty].
  cbn [w_u8 app]. rewrite wire_of_id_wire_id, Hn. cbn [dt_name dt_referents].
  rewrite Hcp. cbn [rbind]. rewrite Hcol. reflexivity.
Qed.

(* the same with the hypotheses in the shape of the column round-trip theorems
   (exists b, enc_col W c vs = Ok b /\ dec_col W cty dc (length vs) (b ++ rest) = Ok (vs', rest)) *)
Theorem prop_chunk_roundtrip d p st type_id cname rs pname ty ctx vs col name cty migration vs' :
  type_id < 2 ^ 32 ->
  lookup type_id (ds_types st) = Some (mkDT cname rs) ->
  length rs = length vs ->
  N.of_nat (length pname) < 2 ^ 32 -> alloc_ok (dp_lim p) (N.of_nat (length pname)) = true ->
  utf8_valid pname = true -> bytes_eqb pname NAME = false ->
  enc_col ty ctx vs = Ok col ->
  find_canonical_property d ty cname pname = Ok (Some (name, cty, migration)) ->
  (exists b, enc_col ty ctx vs = Ok b /\
             dec_col ty cty (prop_dctx p st) (length vs) (b ++ []) = Ok (vs', [])) ->
  decode_prop d p st (w_le32 type_id ++ w_bstr pname ++ w_u8 (wire_id ty) ++ col) =
  (insts <- apply_values (fun i v => add_property p i name migration v) (ds_insts st) rs vs' ;;
   Ok (with_insts st insts)).
Proof.
  intros Ht Hty Hlen Hl Ha Hu Hn Henc Hcp (b & Hb & Hdec).
  rewrite Henc in Hb. inversion Hb; subst b. rewrite app_nil_r in Hdec.
  apply (decode_prop_chunk d p st type_id cname rs pname ty col name cty migration vs'); try assumption.
  rewrite Hlen. exact (run_chunk_ok _ _ _ _ Hdec).
Qed.

(* a property the database says does not serialize: the chunk is skipped *)
Theorem decode_prop_chunk_not_serialized d p st type_id cname rs pname ty col :
  type_id < 2 ^ 32 ->
  lookup type_id (ds_types st) = Some (mkDT cname rs) ->
  N.of_nat (length pname) < 2 ^ 32 -> alloc_ok (dp_lim p) (N.of_nat (length pname)) = true ->
  utf8_valid pname = true -> bytes_eqb pname NAME = false ->
  find_canonical_property d ty cname pname = Ok None ->
  decode_prop d p st (w_le32 type_id ++ w_bstr pname ++ w_u8 (wire_id ty) ++ col) = Ok st.
Proof.
  intros Ht Hty Hl Ha Hu Hn Hcp.
  rewrite (decode_prop_after_header d p st _ type_id pname (w_u8 (wire_id ty) ++ col) (mkDT cname rs));
    [|now apply prop_header_app|exact Hty].
  cbn [w_u8 app]. rewrite wire_of_id_wire_id, Hn. cbn [dt_name dt_referents].
  rewrite Hcp. reflexivity.
Qed.

(* what the serializer's prop_chunk produces: the chunk name, and the payload in the shape the theorems above take *)
Lemma fold_find_insts_spec dom rs acc insts :
  fold_res (fun acc r => match find_inst dom r with Some i => Ok (acc ++ [i]) | None => Panic end) acc rs = Ok insts ->
  exists l, insts = acc ++ l /\ Forall2 (fun r i => find_inst dom r = Some i) rs l.
Proof.
  revert acc. induction rs as [|r rs IH]; intros acc H; cbn [fold_res] in H.
  - inversion H; subst. exists []. split; [now rewrite app_nil_r|constructor].
  - destruct (find_inst dom r) as [i|] eqn:E; cbn [rbind] in H; [|discriminate].
    destruct (IH _ H) as (l & -> & HF). exists (i :: l). split; [now rewrite <- app_assoc|].
    constructor; assumption.
Qed.

Theorem prop_chunk_inv p dom ctx ti canon pi nm payload :
  prop_chunk p dom ctx ti (canon, pi) = Ok (nm, payload) ->
  exists insts col,
    Forall2 (fun r i => find_inst dom r = Some i) (ti_instances ti) insts /\
    enc_col (pi_type pi) ctx (List.map (prop_value p canon pi (ep_order p (pi_aliases pi))) insts) = Ok col /\
    nm = CH_PROP /\
    payload = w_le32 (ti_id ti) ++ w_bstr (pi_ser_name pi) ++ w_u8 (wire_id (pi_type pi)) ++ col.
Proof.
  unfold prop_chunk. intros H.
  destruct (negb (is_perm (ep_order p (pi_aliases pi)) (pi_aliases pi))); [discriminate|].
  destruct (fold_res _ [] (ti_instances ti)) as [insts| | |] eqn:Ef; cbn [rbind] in H; try discriminate.
  destruct (enc_col _ ctx _) as [col| | |] eqn:Ec; cbn [rbind] in H; try discriminate.
  inversion H; subst. destruct (fold_find_insts_spec _ _ _ _ Ef) as (l & -> & HF). cbn [app] in *.
  exists l, col. auto.
Qed.

(* ---- apply_values: the effect on the instance table ---- *)
(* When the referents of the class are pairwise distinct keys of the table, apply_values succeeds; the
   instance under the k-th referent becomes [f i v_k] (i its old contents, v_k the k-th value), and every other
   entry (a key that is not a referent of the class, or a referent beyond the values) reads as before. *)
Theorem apply_values_spec {A} (f : dinst -> A -> dinst) rs : forall insts (vs : list A),
  NoDup rs -> (forall r, In r rs -> zfind r insts <> None) ->
  exists insts', apply_values f insts rs vs = Ok insts' /\
    (forall k r v, nth_error rs k = Some r -> nth_error vs k = Some v ->
       exists i, zfind r insts = Some i /\ zfind r insts' = Some (f i v)) /\
    (forall z, ~ In z rs -> zfind z insts' = zfind z insts) /\
    (forall k r, nth_error rs k = Some r -> nth_error vs k = None -> zfind r insts' = zfind r insts).
Proof.
  induction rs as [|r rs IH]; intros insts vs Hnd Hin.
  - exists insts. cbn [apply_values]. split; [reflexivity|]. split; [|split].
    + intros [|k] r v H; discriminate.
    + reflexivity.
    + intros [|k] r H; discriminate.
  - destruct vs as [|v vs].
    + exists insts. cbn [apply_values]. split; [reflexivity|]. split; [|split].
      * intros [|k] r0 v0 _ H; discriminate.
      * reflexivity.
      * reflexivity.
    + inversion Hnd as [|? ? Hnr Hnd']; subst.
      cbn [apply_values]. destruct (zfind r insts) as [i|] eqn:Ei; [|exfalso; apply (Hin r); [now left|exact Ei]].
      assert (Hne : forall r', In r' rs -> r' <> r) by (intros r' Hr' ->; contradiction).
      destruct (IH (zupd r (f i v) insts) vs Hnd') as (insts' & Hap & H1 & H2 & H3).
      { intros r' Hr'. rewrite zfind_zupd_ne by now apply Hne. apply Hin. now right. }
      exists insts'. split; [exact Hap|]. split; [|split].
      * intros [|k] r0 v0 Hr0 Hv0; cbn [nth_error] in Hr0, Hv0.
        -- inversion Hr0; inversion Hv0; subst. exists i. split; [exact Ei|].
           rewrite (H2 r0 Hnr). apply zfind_zupd_eq.
        -- destruct (H1 k r0 v0 Hr0 Hv0) as (i0 & Hi0 & Hi0'). exists i0. split; [|exact Hi0'].
           rewrite <- Hi0. symmetry. apply zfind_zupd_ne. apply Hne. eapply nth_error_In; eauto.
      * intros z Hz. rewrite H2 by (intros Hz'; apply Hz; now right).
        apply zfind_zupd_ne. intros ->. apply Hz. now left.
      * intros [|k] r0 Hr0 Hv0; cbn [nth_error] in Hr0, Hv0; [discriminate|].
        rewrite (H3 k r0 Hr0 Hv0). apply zfind_zupd_ne. apply Hne. eapply nth_error_In; eauto.
Qed.

(* the table keeps its keys: when they were duplicate-free they still are, and they are the same keys *)
Theorem apply_values_keys {A} (f : dinst -> A -> dinst) rs : forall insts (vs : list A) insts',
  NoDup (List.map fst insts) ->
  apply_values f insts rs vs = Ok insts' ->
  Permutation (List.map fst insts') (List.map fst insts) /\ NoDup (List.map fst insts').
Proof.
  induction rs as [|r rs IH]; intros insts vs insts' Hnd H.
  - cbn [apply_values] in H. inversion H; subst. split; [apply Permutation_refl|exact Hnd].
  - destruct vs as [|v vs]; cbn [apply_values] in H.
    + inversion H; subst. split; [apply Permutation_refl|exact Hnd].
    + destruct (zfind r insts) as [i|] eqn:Ei; [|discriminate].
      assert (Hin : In r (List.map fst insts)).
      { destruct (in_dec Z.eq_dec r (List.map fst insts)) as [Hi|Hi]; [exact Hi|].
        apply zfind_none_keys in Hi. congruence. }
      destruct (zupd_keys_perm r (f i v) insts Hnd Hin) as [P ND].
      destruct (IH _ _ _ ND H) as [P' ND']. split; [eapply perm_trans; eassumption|exact ND'].
Qed.

(* apply_values has two outcomes only: Ok, or the panic of the reader's `unwrap` on instances_by_ref.get_mut
   (a referent of the class that has a value is not in the table) *)
Theorem apply_values_ok_or_panic {A} (f : dinst -> A -> dinst) rs : forall insts (vs : list A),
  (forall insts', apply_values f insts rs vs <> Ok insts') -> apply_values f insts rs vs = Panic.
Proof.
  induction rs as [|r rs IH]; intros insts vs H; [exfalso; eapply H; reflexivity|].
  destruct vs as [|v vs]; [exfalso; eapply H; reflexivity|].
  cbn [apply_values] in *. destruct (zfind r insts); [|reflexivity]. now apply IH.
Qed.

(* the PROP chunk round trip down to the instance table: every instance of the class gets exactly
   add_property of its value, every other instance is unchanged *)
Theorem decode_prop_chunk_state d p st type_id cname rs pname ty col name cty migration vs' :
  type_id < 2 ^ 32 ->
  lookup type_id (ds_types st) = Some (mkDT cname rs) ->
  N.of_nat (length pname) < 2 ^ 32 -> alloc_ok (dp_lim p) (N.of_nat (length pname)) = true ->
  utf8_valid pname = true -> bytes_eqb pname NAME = false ->
  find_canonical_property d ty cname pname = Ok (Some (name, cty, migration)) ->
  run_chunk (dec_col ty cty (prop_dctx p st) (length rs)) col = Ok vs' ->
  NoDup rs -> (forall r, In r rs -> zfind r (ds_insts st) <> None) ->
  exists insts',
    decode_prop d p st (w_le32 type_id ++ w_bstr pname ++ w_u8 (wire_id ty) ++ col) = Ok (with_insts st insts') /\
    (forall k r v, nth_error rs k = Some r -> nth_error vs' k = Some v ->
       exists i, zfind r (ds_insts st) = Some i /\ zfind r insts' = Some (add_property p i name migration v)) /\
    (forall z, ~ In z rs -> zfind z insts' = zfind z (ds_insts st)) /\
    (forall k r, nth_error rs k = Some r -> nth_error vs' k = None -> zfind r insts' = zfind r (ds_insts st)).
Proof.
  intros Ht Hty Hl Ha Hu Hn Hcp Hcol Hnd Hin.
  destruct (apply_values_spec (fun i v => add_property p i name migration v) rs (ds_insts st) vs' Hnd Hin)
    as (insts' & Hap & H1 & H2 & H3).
  exists insts'. split; [|auto].
  rewrite (decode_prop_chunk d p st type_id cname rs pname ty col name cty migration vs') by assumption.
  rewrite Hap. reflexivity.
Qed.

(* the same from the reader's state invariant BinSafe.inv (every referent of every declared class is in the table:
   it holds of dstate0 and is kept by every chunk, BinSafe.dispatch_ok), so that only the distinctness of the
   class's referents remains to be shown *)
Corollary decode_prop_chunk_state_inv d p st type_id cname rs pname ty col name cty migration vs' :
  inv st ->
  type_id < 2 ^ 32 ->
  lookup type_id (ds_types st) = Some (mkDT cname rs) ->
  N.of_nat (length pname) < 2 ^ 32 -> alloc_ok (dp_lim p) (N.of_nat (length pname)) = true ->
  utf8_valid pname = true -> bytes_eqb pname NAME = false ->
  find_canonical_property d ty cname pname = Ok (Some (name, cty, migration)) ->
  run_chunk (dec_col ty cty (prop_dctx p st) (length rs)) col = Ok vs' ->
  NoDup rs ->
  exists insts',
    decode_prop d p st (w_le32 type_id ++ w_bstr pname ++ w_u8 (wire_id ty) ++ col) = Ok (with_insts st insts') /\
    (forall k r v, nth_error rs k = Some r -> nth_error vs' k = Some v ->
       exists i, zfind r (ds_insts st) = Some i /\ zfind r insts' = Some (add_property p i name migration v)) /\
    (forall z, ~ In z rs -> zfind z insts' = zfind z (ds_insts st)) /\
    (forall k r, nth_error rs k = Some r -> nth_error vs' k = None -> zfind r insts' = zfind r (ds_insts st)).
Proof.
  intros Hinv Ht Hty Hl Ha Hu Hn Hcp Hcol Hnd.
  apply decode_prop_chunk_state with (cname := cname) (cty := cty); try assumption.
  intros r Hr. exact (Hinv type_id _ Hty r Hr).
Qed.

(* ------------------------------------------------------------------------------------------ *)
(* 2. the "Name" PROP chunk                                                                     *)
(* ------------------------------------------------------------------------------------------ *)
Lemma name_is_NAME : bytes_eqb NAME NAME = true.
Proof. vm_compute. reflexivity. Qed.

Lemma NAME_header_ok lim : N.of_nat (length NAME) < 2 ^ 32 /\ utf8_valid NAME = true /\
  (alloc_ok lim 4 = true -> alloc_ok lim (N.of_nat (length NAME)) = true).
Proof. split; [vm_compute; reflexivity|]. split; [vm_compute; reflexivity|]. intros H. exact H. Qed.

Lemma names_column_app lim (names : list bytes) rest :
  Forall (fun s => bstr_ok lim s = true) names ->
  prepeat (length names) (read_bstr lim) (flat_map w_bstr names ++ rest) = Ok (names, rest).
Proof.
  intros H. apply (prepeat_roundtrip (fun s => bstr_ok lim s = true) w_bstr); [|exact H].
  intros a r Ha. apply bstr_ok_spec in Ha. destruct Ha as [Hl Ha]. now apply read_bstr_app.
Qed.

(* the Name chunk as written (a String column of the instance names): every instance of the class gets its name,
   passed through the reader's from_utf8 / from_utf8_lossy normalisation; the type byte is not looked at beyond being
   a known wire type *)
Theorem decode_prop_name_chunk_norm d p st type_id cname rs ty (names : list bytes) tail :
  type_id < 2 ^ 32 ->
  lookup type_id (ds_types st) = Some (mkDT cname rs) ->
  length rs = length names ->
  alloc_ok (dp_lim p) 4 = true ->
  Forall (fun s => bstr_ok (dp_lim p) s = true) names ->
  decode_prop d p st (w_le32 type_id ++ w_bstr NAME ++ w_u8 (wire_id ty) ++ flat_map w_bstr names ++ tail) =
  (insts <- apply_values set_name (ds_insts st) rs (List.map str_norm names) ;; Ok (with_insts st insts)).
Proof.
  intros Ht Hty Hlen Ha Hnames. destruct (NAME_header_ok (dp_lim p)) as (Hl & Hu & Ha').
  rewrite (decode_prop_after_header d p st _ type_id NAME
             (w_u8 (wire_id ty) ++ flat_map w_bstr names ++ tail) (mkDT cname rs));
    [|apply prop_header_app; auto|exact Hty].
  cbn [w_u8 app]. rewrite wire_of_id_wire_id, name_is_NAME. cbn [dt_referents].
  rewrite Hlen. rewrite (run_chunk_ok _ _ _ _ (names_column_app _ names tail Hnames)). cbn [rbind].
  reflexivity.
Qed.

Theorem decode_prop_name_chunk d p st type_id cname rs ty (names : list bytes) tail :
  type_id < 2 ^ 32 ->
  lookup type_id (ds_types st) = Some (mkDT cname rs) ->
  length rs = length names ->
  alloc_ok (dp_lim p) 4 = true ->
  Forall (fun s => bstr_ok (dp_lim p) s = true /\ utf8_valid s = true) names ->
  decode_prop d p st (w_le32 type_id ++ w_bstr NAME ++ w_u8 (wire_id ty) ++ flat_map w_bstr names ++ tail) =
  (insts <- apply_values set_name (ds_insts st) rs names ;; Ok (with_insts st insts)).
Proof.
  intros Ht Hty Hlen Ha Hnames.
  rewrite decode_prop_name_chunk_norm with (cname := cname) (rs := rs); try assumption.
  2:{ eapply Forall_impl; [|exact Hnames]. now intros a [H _]. }
  replace (List.map str_norm names) with names; [reflexivity|].
  symmetry. rewrite <- (map_id names) at 2. apply map_ext_in. intros a Hin.
  rewrite Forall_forall in Hnames. apply str_norm_valid. now apply Hnames.
Qed.

(* the column the serializer writes for the Name property is this String column *)
Lemma name_column ctx (names : list bytes) : enc_col WString ctx (List.map VString names) = Ok (flat_map w_bstr names).
Proof. apply enc_string_col. Qed.

(* down to the instance table *)
Theorem decode_prop_name_chunk_state d p st type_id cname rs ty (names : list bytes) tail :
  type_id < 2 ^ 32 ->
  lookup type_id (ds_types st) = Some (mkDT cname rs) ->
  length rs = length names ->
  alloc_ok (dp_lim p) 4 = true ->
  Forall (fun s => bstr_ok (dp_lim p) s = true /\ utf8_valid s = true) names ->
  NoDup rs -> (forall r, In r rs -> zfind r (ds_insts st) <> None) ->
  exists insts',
    decode_prop d p st (w_le32 type_id ++ w_bstr NAME ++ w_u8 (wire_id ty) ++ flat_map w_bstr names ++ tail)
      = Ok (with_insts st insts') /\
    (forall k r s, nth_error rs k = Some r -> nth_error names k = Some s ->
       exists i, zfind r (ds_insts st) = Some i /\ zfind r insts' = Some (set_name i s)) /\
    (forall z, ~ In z rs -> zfind z insts' = zfind z (ds_insts st)).
Proof.
  intros Ht Hty Hlen Ha Hnames Hnd Hin.
  destruct (apply_values_spec set_name rs (ds_insts st) names Hnd Hin) as (insts' & Hap & H1 & H2 & _).
  exists insts'. split; [|auto].
  rewrite decode_prop_name_chunk with (cname := cname) (rs := rs) by assumption.
  rewrite Hap. reflexivity.
Qed.

(* ------------------------------------------------------------------------------------------ *)
(* 3. INST chunks                                                                               *)
(* ------------------------------------------------------------------------------------------ *)
(* the reader's loop over the referents of an INST chunk: a fresh instance per referent, labels counting up *)
Definition fresh_insts (cname : bytes) (ids : list Z) (insts : list (Z * dinst)) (next : N) : list (Z * dinst) * N :=
  fold_left (fun acc referent =>
               let '(insts, next) := acc in
               (zupd referent (mkDI next cname cname [] []) insts, next + 1))
            ids (insts, next).

(* the state after an INST chunk declaring class [cname] under [type_id] with file referents [ids] *)
Definition inst_register (st : dstate) (type_id : N) (cname : bytes) (ids : list Z) : dstate :=
  let '(insts, next) := fresh_insts cname ids (ds_insts st) (ds_next st) in
  mkDS (ds_sstr st) (upd type_id (mkDT cname ids) (ds_types st)) insts (ds_roots st) next.

(* the new entries, in file order *)
Fixpoint label_insts (cname : bytes) (ids : list Z) (next : N) : list (Z * dinst) :=
  match ids with
  | [] => []
  | id :: r => (id, mkDI next cname cname [] []) :: label_insts cname r (next + 1)
  end.

Lemma fresh_insts_nil cname insts next : fresh_insts cname [] insts next = (insts, next).
Proof. reflexivity. Qed.

Lemma fresh_insts_cons cname id ids insts next :
  fresh_insts cname (id :: ids) insts next = fresh_insts cname ids (zupd id (mkDI next cname cname [] []) insts) (next + 1).
Proof. reflexivity. Qed.

Lemma zupd_notin {V} k (v : V) m : ~ In k (List.map fst m) -> zupd k v m = (k, v) :: m.
Proof. intros H. unfold zupd. now rewrite zremove_notin. Qed.

Lemma fresh_insts_next cname ids : forall insts next,
  snd (fresh_insts cname ids insts next) = next + N.of_nat (length ids).
Proof.
  induction ids as [|id ids IH]; intros insts next.
  - rewrite fresh_insts_nil. cbn [snd length]. lia.
  - rewrite fresh_insts_cons, IH. cbn [length]. lia.
Qed.

(* distinct referents none of which is in the table yet (the situation of a written file): the table is extended
   by exactly the new entries (most recent first) *)
Theorem fresh_insts_fresh cname ids : forall insts next,
  NoDup ids -> (forall id, In id ids -> ~ In id (List.map fst insts)) ->
  fresh_insts cname ids insts next = (rev (label_insts cname ids next) ++ insts, next + N.of_nat (length ids)).
Proof.
  induction ids as [|id ids IH]; intros insts next Hnd Hfr.
  - rewrite fresh_insts_nil. cbn [label_insts rev length app]. f_equal. lia.
  - inversion Hnd as [|? ? Hni Hnd']; subst.
    rewrite fresh_insts_cons. rewrite zupd_notin by (apply Hfr; now left).
    rewrite IH; [|exact Hnd'|].
    + cbn [label_insts rev length]. rewrite <- app_assoc. cbn [app]. f_equal. lia.
    + intros id' Hin'. cbn [List.map fst In]. intros [E|E]; [subst; contradiction|].
      exact (Hfr id' (or_intror Hin') E).
Qed.

(* distinct referents, any table: the k-th referent maps to a fresh instance labelled next + k of the class, named
   after the class, with no properties and no children; all other keys read as before *)
Theorem fresh_insts_spec cname ids : forall insts next,
  NoDup ids ->
  (forall k id, nth_error ids k = Some id ->
     zfind id (fst (fresh_insts cname ids insts next)) = Some (mkDI (next + N.of_nat k) cname cname [] [])) /\
  (forall z, ~ In z ids -> zfind z (fst (fresh_insts cname ids insts next)) = zfind z insts).
Proof.
  induction ids as [|id ids IH]; intros insts next Hnd.
  - split; [intros [|k] id H; discriminate|reflexivity].
  - inversion Hnd as [|? ? Hni Hnd']; subst. rewrite fresh_insts_cons.
    destruct (IH (zupd id (mkDI next cname cname [] []) insts) (next + 1) Hnd') as [H1 H2].
    split.
    + intros [|k] id0 Hk; cbn [nth_error] in Hk.
      * inversion Hk; subst. rewrite (H2 id0 Hni). rewrite zfind_zupd_eq. f_equal. f_equal. lia.
      * rewrite (H1 k id0 Hk). f_equal. f_equal. lia.
    + intros z Hz. rewrite H2 by (intros Hz'; apply Hz; now right).
      apply zfind_zupd_ne. intros ->. apply Hz. now left.
Qed.

Lemma read_referents_app lim (ids : list Z) rest :
  Forall (fun v => in_i32 v = true) ids ->
  alloc_ok lim (4 * N.of_nat (length ids)) = true ->
  read_referents lim (N.of_nat (length ids)) (enc_ref_array ids ++ rest) = Ok (ids, rest).
Proof.
  intros Hids Ha. unfold read_referents. unfold pbind at 1. rewrite (palloc_ok _ _ _ Ha).
  rewrite app_length, enc_ref_array_length.
  destruct (N.ltb_spec (N.of_nat (4 * length ids + length rest)) (4 * N.of_nat (length ids))) as [H|H]; [lia|].
  rewrite Nat2N.id. now apply ref_array_roundtrip.
Qed.

(* decode_inst on a written INST payload; [marker] stands for the service markers (or nothing) and anything after *)
Theorem decode_inst_payload lim st type_id cname (service : bool) (ids : list Z) marker :
  type_id < 2 ^ 32 ->
  N.of_nat (length cname) < 2 ^ 32 -> alloc_ok lim (N.of_nat (length cname)) = true -> utf8_valid cname = true ->
  N.of_nat (length ids) < 2 ^ 32 -> alloc_ok lim (4 * N.of_nat (length ids)) = true ->
  Forall (fun v => in_i32 v = true) ids ->
  decode_inst lim st (w_le32 type_id ++ w_bstr cname ++ w_bool service ++ w_le32 (N.of_nat (length ids)) ++
                      enc_ref_array ids ++ marker)
  = Ok (inst_register st type_id cname ids, marker).
Proof.
  intros Ht Hl Ha Hu Hn Han Hids. unfold decode_inst.
  unfold pbind at 1. rewrite (le32_app _ _ Ht).
  unfold pbind at 1. rewrite (read_str_w_bstr _ _ _ Hl Ha Hu).
  unfold pbind at 1.
  assert (Hb : read_u8 (w_bool service ++ w_le32 (N.of_nat (length ids)) ++ enc_ref_array ids ++ marker)
               = Ok (if service then 1 else 0, w_le32 (N.of_nat (length ids)) ++ enc_ref_array ids ++ marker)).
  { destruct service; reflexivity. }
  rewrite Hb.
  unfold pbind at 1. rewrite (le32_app _ _ Hn).
  unfold pbind at 1. rewrite (read_referents_app _ _ _ Hids Han).
  unfold inst_register, fresh_insts.
  destruct (fold_left _ ids (ds_insts st, ds_next st)) as [insts next]. reflexivity.
Qed.

(* the INST chunk round trip: what the reader's dispatch does with the chunk inst_chunk writes, for service and
   non-service classes alike *)
Theorem inst_chunk_roundtrip lim st refs cname ti nm payload :
  inst_chunk refs (cname, ti) = Ok (nm, payload) ->
  ti_id ti < 2 ^ 32 ->
  N.of_nat (length cname) < 2 ^ 32 -> alloc_ok lim (N.of_nat (length cname)) = true -> utf8_valid cname = true ->
  N.of_nat (length (ti_instances ti)) < 2 ^ 32 -> alloc_ok lim (4 * N.of_nat (length (ti_instances ti))) = true ->
  (forall r z, In r (ti_instances ti) -> lookup r refs = Some z -> in_i32 z = true) ->
  exists ids,
    Forall2 (fun r z => lookup r refs = Some z) (ti_instances ti) ids /\
    nm = CH_INST /\
    run_chunk (decode_inst lim st) payload = Ok (inst_register st (ti_id ti) cname ids).
Proof.
  intros H Ht Hl Ha Hu Hn Han Hrange. unfold inst_chunk in H.
  destruct (map_res (to_ref refs) (ti_instances ti)) as [ids| | |] eqn:Em; cbn [rbind] in H; try discriminate.
  inversion H; subst nm payload. clear H.
  pose proof (map_res_length _ _ _ Em) as Hlen.
  assert (HF : Forall2 (fun r z => lookup r refs = Some z) (ti_instances ti) ids).
  { exact (Forall2_weaken _ _ (fun a b Hab => proj1 (to_ref_ok refs a b) Hab) _ _ (map_res_Forall2 _ _ _ Em)). }
  exists ids. split; [exact HF|]. split; [reflexivity|].
  assert (Hids : Forall (fun v => in_i32 v = true) ids).
  { clear - HF Hrange. induction HF as [|r z rs zs Hrz HF IH]; constructor.
    - apply (Hrange r z); [now left|exact Hrz].
    - apply IH. intros r' z' Hin. apply Hrange. now right. }
  rewrite (len32_small _ Hn). rewrite <- Hlen in *.
  eapply run_chunk_ok. apply decode_inst_payload; assumption.
Qed.

(* ------------------------------------------------------------------------------------------ *)
(* 4. the SSTR chunk                                                                            *)
(* ------------------------------------------------------------------------------------------ *)
Definition sstr_entry (s : bytes) : bytes := [0;0;0;0;0;0;0;0;0;0;0;0;0;0;0;0] ++ w_bstr s.
(* the payload serialize_shared_strings writes (the term inside encode_chunks) *)
Definition sstr_payload (l : list bytes) : bytes :=
  w_le32 0 ++ w_le32 (len32 l) ++ flat_map (fun s => [0;0;0;0;0;0;0;0;0;0;0;0;0;0;0;0] ++ w_bstr s) l.
Definition sstr_chunks (l : list bytes) : list (bytes * bytes) :=
  match l with [] => [] | _ => [(CH_SSTR, sstr_payload l)] end.

Lemma sstr_entry_app lim s rest : bstr_ok lim s = true ->
  (_ <== read_exact 16 ;; read_bstr lim) (sstr_entry s ++ rest) = Ok (s, rest).
Proof.
  intros H. apply bstr_ok_spec in H. destruct H as [Hl Ha]. unfold sstr_entry. rewrite <- app_assoc.
  unfold pbind. change 16%nat with (length [0;0;0;0;0;0;0;0;0;0;0;0;0;0;0;0]). rewrite read_exact_app.
  now apply read_bstr_app.
Qed.

Theorem sstr_chunk_roundtrip lim (l : list bytes) rest :
  N.of_nat (length l) < 2 ^ 32 ->
  Forall (fun s => bstr_ok lim s = true) l ->
  decode_sstr lim (sstr_payload l ++ rest) = Ok (l, rest).
Proof.
  intros Hn Hl. unfold decode_sstr, sstr_payload. rewrite <- !app_assoc.
  unfold pbind at 1. rewrite le32_app by (cbv; reflexivity).
  change (N.eqb 0 0) with true. cbn [negb].
  unfold pbind at 1. rewrite le32_app by (rewrite len32_small; assumption).
  rewrite (len32_small _ Hn). unfold pfor32.
  apply (AttrFacts.pfor_app _ sstr_entry (bstr_ok lim)).
  - intros a r Ha. now apply sstr_entry_app.
  - intros a. unfold sstr_entry. rewrite app_length. cbn [length]. lia.
  - apply forallb_forall. rewrite Forall_forall in Hl. exact Hl.
Qed.

(* ------------------------------------------------------------------------------------------ *)
(* 5. dispatch_chunk on each chunk name                                                         *)
(* ------------------------------------------------------------------------------------------ *)
Lemma dispatch_META d p st data :
  dispatch_chunk d p st CH_META data = (_ <- run_chunk (decode_meta (dp_lim p)) data ;; Ok (Some st)).
Proof. reflexivity. Qed.

Lemma dispatch_SSTR d p st data :
  dispatch_chunk d p st CH_SSTR data =
  (l <- run_chunk (decode_sstr (dp_lim p)) data ;;
   Ok (Some (mkDS (ds_sstr st ++ l) (ds_types st) (ds_insts st) (ds_roots st) (ds_next st)))).
Proof. reflexivity. Qed.

Lemma dispatch_INST d p st data :
  dispatch_chunk d p st CH_INST data = (st' <- run_chunk (decode_inst (dp_lim p) st) data ;; Ok (Some st')).
Proof. reflexivity. Qed.

Lemma dispatch_PROP d p st data :
  dispatch_chunk d p st CH_PROP data = (st' <- decode_prop d p st data ;; Ok (Some st')).
Proof. reflexivity. Qed.

Lemma dispatch_PRNT d p st data :
  dispatch_chunk d p st CH_PRNT data = (st' <- decode_prnt (dp_lim p) st data ;; Ok (Some st')).
Proof. reflexivity. Qed.

Lemma dispatch_END d p st data : dispatch_chunk d p st CH_END data = Ok None.
Proof. reflexivity. Qed.

(* the chunks as written, through the dispatch *)
Theorem dispatch_sstr_chunk d p st (l : list bytes) :
  N.of_nat (length l) < 2 ^ 32 ->
  Forall (fun s => bstr_ok (dp_lim p) s = true) l ->
  dispatch_chunk d p st CH_SSTR (sstr_payload l) =
  Ok (Some (mkDS (ds_sstr st ++ l) (ds_types st) (ds_insts st) (ds_roots st) (ds_next st))).
Proof.
  intros Hn Hl. rewrite dispatch_SSTR. rewrite <- (app_nil_r (sstr_payload l)).
  now rewrite (run_chunk_ok _ _ _ _ (sstr_chunk_roundtrip _ l [] Hn Hl)).
Qed.

Theorem dispatch_inst_chunk d p st refs cname ti nm payload :
  inst_chunk refs (cname, ti) = Ok (nm, payload) ->
  ti_id ti < 2 ^ 32 ->
  N.of_nat (length cname) < 2 ^ 32 -> alloc_ok (dp_lim p) (N.of_nat (length cname)) = true -> utf8_valid cname = true ->
  N.of_nat (length (ti_instances ti)) < 2 ^ 32 -> alloc_ok (dp_lim p) (4 * N.of_nat (length (ti_instances ti))) = true ->
  (forall r z, In r (ti_instances ti) -> lookup r refs = Some z -> in_i32 z = true) ->
  exists ids,
    Forall2 (fun r z => lookup r refs = Some z) (ti_instances ti) ids /\
    dispatch_chunk d p st nm payload = Ok (Some (inst_register st (ti_id ti) cname ids)).
Proof.
  intros H Ht Hl Ha Hu Hn Han Hr.
  destruct (inst_chunk_roundtrip (dp_lim p) st refs cname ti nm payload H Ht Hl Ha Hu Hn Han Hr) as (ids & HF & -> & Hrun).
  exists ids. split; [exact HF|]. rewrite dispatch_INST, Hrun. reflexivity.
Qed.

Theorem dispatch_prop_chunk d p st type_id cname rs pname ty col name cty migration vs' :
  type_id < 2 ^ 32 ->
  lookup type_id (ds_types st) = Some (mkDT cname rs) ->
  N.of_nat (length pname) < 2 ^ 32 -> alloc_ok (dp_lim p) (N.of_nat (length pname)) = true ->
  utf8_valid pname = true -> bytes_eqb pname NAME = false ->
  find_canonical_property d ty cname pname = Ok (Some (name, cty, migration)) ->
  run_chunk (dec_col ty cty (prop_dctx p st) (length rs)) col = Ok vs' ->
  dispatch_chunk d p st CH_PROP (w_le32 type_id ++ w_bstr pname ++ w_u8 (wire_id ty) ++ col) =
  (insts <- apply_values (fun i v => add_property p i name migration v) (ds_insts st) rs vs' ;;
   Ok (Some (with_insts st insts))).
Proof.
  intros. rewrite dispatch_PROP.
  rewrite (decode_prop_chunk d p st type_id cname rs pname ty col name cty migration vs') by assumption.
  destruct (apply_values _ _ _ _); reflexivity.
Qed.

(* the chunk list of encode_chunks, decomposed: SSTR (if any), one INST per class, the PROP chunks of every class,
   PRNT; with the facts that produced them *)
Definition prnt_parent (dom : cdom) (refs : list (N * Z)) (r : N) : res Z :=
  match find_inst dom r with
  | None => Panic
  | Some i => Ok (if N.eqb (i_parent i) 0 then (-1)%Z
                  else match lookup (i_parent i) refs with Some z => z | None => (-1)%Z end)
  end.

Theorem encode_chunks_inv d ep dom roots e : encode_chunks d ep dom roots = Ok e ->
  exists st insts props objs parents,
    let refs := referent_table 0 (ss_relevant st) [] in
    let ctx := mkEC (fun r => lookup r refs) (fun s => index_of s (ss_sstr st) 0) (ep_quant ep) in
    add_instances d ep dom roots = Ok st /\
    (Z.of_nat (length (ss_relevant st)) <= 2147483647)%Z /\
    map_res (inst_chunk refs) (ss_types st) = Ok insts /\
    map_res (fun ct => map_res (prop_chunk ep dom ctx (snd ct)) (ti_props (snd ct))) (ss_types st) = Ok props /\
    map_res (to_ref refs) (ss_relevant st) = Ok objs /\
    map_res (prnt_parent dom refs) (ss_relevant st) = Ok parents /\
    en_header e = FILE_MAGIC_HEADER ++ FILE_SIGNATURE ++ w_le16 0 ++ w_le32 (len32 (ss_types st)) ++
                  w_le32 (len32 (ss_relevant st)) ++ [0; 0; 0; 0; 0; 0; 0; 0] /\
    en_chunks e = sstr_chunks (ss_sstr st) ++ insts ++ concat props ++
                  [(CH_PRNT, w_u8 0 ++ w_le32 (len32 (ss_relevant st)) ++ enc_ref_array objs ++ enc_ref_array parents)].
Proof.
  unfold encode_chunks. intros H.
  destruct (add_instances d ep dom roots) as [st| | |]; cbn [rbind] in H; try discriminate.
  destruct (Z.ltb_spec 2147483647 (Z.of_nat (length (ss_relevant st)))) as [Hlt|Hge]; cbn [rbind] in H; try discriminate.
  cbv zeta in H.
  match type of H with context [map_res (inst_chunk ?r) ?l] =>
    destruct (map_res (inst_chunk r) l) as [insts| | |] eqn:Ei; cbn [rbind] in H; try discriminate end.
  match type of H with context [map_res ?f (ss_types st)] =>
    destruct (map_res f (ss_types st)) as [props| | |] eqn:Ep; cbn [rbind] in H; try discriminate end.
  match type of H with context [map_res (to_ref ?r) ?l] =>
    destruct (map_res (to_ref r) l) as [objs| | |] eqn:Eo; cbn [rbind] in H; try discriminate end.
  match type of H with context [map_res ?f (ss_relevant st)] =>
    destruct (map_res f (ss_relevant st)) as [parents| | |] eqn:Epa; cbn [rbind] in H; try discriminate end.
  injection H as <-. exists st, insts, props, objs, parents. cbv zeta. cbn [en_header en_chunks].
  repeat split; try assumption. destruct (ss_sstr st); reflexivity.
Qed.

(* ---- the writer's PROP chunks, through the reader ---- *)
(* prop_chunk's output read back by decode_prop, for any column law instance on the values it wrote *)
Theorem prop_chunk_written_roundtrip d ep dp dom ctx ti canon pi nm payload st cname rs name cty migration :
  prop_chunk ep dom ctx ti (canon, pi) = Ok (nm, payload) ->
  ti_id ti < 2 ^ 32 ->
  lookup (ti_id ti) (ds_types st) = Some (mkDT cname rs) ->
  length rs = length (ti_instances ti) ->
  N.of_nat (length (pi_ser_name pi)) < 2 ^ 32 -> alloc_ok (dp_lim dp) (N.of_nat (length (pi_ser_name pi))) = true ->
  utf8_valid (pi_ser_name pi) = true -> bytes_eqb (pi_ser_name pi) NAME = false ->
  find_canonical_property d (pi_type pi) cname (pi_ser_name pi) = Ok (Some (name, cty, migration)) ->
  exists insts,
    Forall2 (fun r i => find_inst dom r = Some i) (ti_instances ti) insts /\ nm = CH_PROP /\
    forall vs',
      (exists b, enc_col (pi_type pi) ctx (List.map (prop_value ep canon pi (ep_order ep (pi_aliases pi))) insts) = Ok b /\
                 dec_col (pi_type pi) cty (prop_dctx dp st)
                         (length (List.map (prop_value ep canon pi (ep_order ep (pi_aliases pi))) insts)) (b ++ [])
                 = Ok (vs', [])) ->
      decode_prop d dp st payload =
      (insts' <- apply_values (fun i v => add_property dp i name migration v) (ds_insts st) rs vs' ;;
       Ok (with_insts st insts')).
Proof.
  intros H Ht Hty Hlen Hl Ha Hu Hn Hcp.
  destruct (prop_chunk_inv _ _ _ _ _ _ _ _ H) as (insts & col & HF & Henc & -> & ->).
  exists insts. split; [exact HF|]. split; [reflexivity|]. intros vs' Hlaw.
  eapply prop_chunk_roundtrip; try eassumption.
  rewrite map_length, Hlen. clear - HF. induction HF; cbn [length]; congruence.
Qed.

(* the Name chunk of a class as the serializer writes it (the entry new_type_info creates; no migration) *)
Theorem name_prop_chunk_written ep dom ctx ti aliases dflt nm payload :
  prop_chunk ep dom ctx ti (NAME, mkPI WString NAME aliases dflt None) = Ok (nm, payload) ->
  exists insts,
    Forall2 (fun r i => find_inst dom r = Some i) (ti_instances ti) insts /\ nm = CH_PROP /\
    payload = w_le32 (ti_id ti) ++ w_bstr NAME ++ w_u8 (wire_id WString) ++ flat_map w_bstr (List.map i_name insts).
Proof.
  intros H. destruct (prop_chunk_inv _ _ _ _ _ _ _ _ H) as (insts & col & HF & Henc & -> & ->).
  exists insts. split; [exact HF|]. split; [reflexivity|]. cbn [pi_type pi_ser_name pi_aliases] in *.
  assert (E : List.map (prop_value ep NAME (mkPI WString NAME aliases dflt None) (ep_order ep aliases)) insts
              = List.map VString (List.map i_name insts)).
  { rewrite map_map. apply map_ext. intros i. unfold prop_value. rewrite name_is_NAME. reflexivity. }
  rewrite E, enc_string_col in Henc. inversion Henc; subst. reflexivity.
Qed.

Theorem name_prop_chunk_written_roundtrip d ep dp dom ctx ti aliases dflt nm payload st cname rs :
  prop_chunk ep dom ctx ti (NAME, mkPI WString NAME aliases dflt None) = Ok (nm, payload) ->
  ti_id ti < 2 ^ 32 ->
  lookup (ti_id ti) (ds_types st) = Some (mkDT cname rs) ->
  length rs = length (ti_instances ti) ->
  alloc_ok (dp_lim dp) 4 = true ->
  (forall r i, In r (ti_instances ti) -> find_inst dom r = Some i ->
               bstr_ok (dp_lim dp) (i_name i) = true /\ utf8_valid (i_name i) = true) ->
  exists insts,
    Forall2 (fun r i => find_inst dom r = Some i) (ti_instances ti) insts /\
    nm = CH_PROP /\
    decode_prop d dp st payload =
    (insts' <- apply_values set_name (ds_insts st) rs (List.map i_name insts) ;; Ok (with_insts st insts')).
Proof.
  intros H Ht Hty Hlen Ha Hnames.
  destruct (name_prop_chunk_written _ _ _ _ _ _ _ _ H) as (insts & HF & -> & ->).
  exists insts. split; [exact HF|]. split; [reflexivity|].
  rewrite <- (app_nil_r (flat_map w_bstr (List.map i_name insts))).
  apply decode_prop_name_chunk with (cname := cname); try assumption.
  - rewrite map_length, Hlen. clear - HF. induction HF; cbn [length]; congruence.
  - clear - HF Hnames. induction HF as [|r i rs0 is0 Hri HF IH]; cbn [List.map]; constructor.
    + apply (Hnames r i); [now left|exact Hri].
    + apply IH. intros r' i' Hin. apply Hnames. now right.
Qed.

(* one step of the loop over a de-framed chunk list *)
Lemma chunk_list_loop_step d p st name data rest st' :
  dispatch_chunk d p st name data = Ok (Some st') ->
  chunk_list_loop d p st ((name, data) :: rest) = chunk_list_loop d p st' rest.
Proof. intros H. cbn [chunk_list_loop]. now rewrite H. Qed.

Lemma chunk_list_loop_end d p st data rest : chunk_list_loop d p st ((CH_END, data) :: rest) = Ok st.
Proof. reflexivity. Qed.

(* ------------------------------------------------------------------------------------------ *)
(* 6. non-vacuity: the theorems instantiated on a small concrete state                          *)
(* ------------------------------------------------------------------------------------------ *)
Module Examples.
Definition F : bytes := bstr "Folder0".
Definition P : bytes := bstr "P".
(* class 3 = Folder0 with file referents 10 and 11, both declared *)
Definition ex_st : dstate :=
  mkDS [] [(3, mkDT F [10%Z; 11%Z])] [(11%Z, mkDI 2 F F [] []); (10%Z, mkDI 1 F F [] [])] [] 3.
Definition ex_ctx : enc_ctx := mkEC (fun _ => None) (fun _ => None) (fun _ => 0).
Definition ex_vs : list value := [VInt32 7%Z; VInt32 (-3)%Z].
Definition ex_col : bytes := [0; 0; 0; 0; 0; 0; 14; 5].

(* (1) the PROP round trip, obtained from prop_chunk_roundtrip with every hypothesis discharged *)
Example prop_chunk_roundtrip_ex :
  decode_prop db0 (dp0 None) ex_st (w_le32 3 ++ w_bstr P ++ w_u8 (wire_id WInt32) ++ ex_col) =
  Ok (with_insts ex_st [(11%Z, mkDI 2 F F [(P, VInt32 (-3)%Z)] []); (10%Z, mkDI 1 F F [(P, VInt32 7%Z)] [])]).
Proof.
  rewrite (prop_chunk_roundtrip db0 (dp0 None) ex_st 3 F [10%Z; 11%Z] P WInt32 ex_ctx ex_vs ex_col
             P VT_Int32 None ex_vs).
  - vm_compute. reflexivity.
  - vm_compute. reflexivity.
  - vm_compute. reflexivity.
  - reflexivity.
  - vm_compute. reflexivity.
  - reflexivity.
  - vm_compute. reflexivity.
  - vm_compute. reflexivity.
  - vm_compute. reflexivity.
  - vm_compute. reflexivity.
  - exists ex_col. split; vm_compute; reflexivity.
Qed.

(* the hypotheses of decode_prop_chunk_state (distinct declared referents) hold there as well *)
Example prop_chunk_state_hyps_ex :
  NoDup [10%Z; 11%Z] /\ (forall r, In r [10%Z; 11%Z] -> zfind r (ds_insts ex_st) <> None).
Proof.
  split.
  - repeat constructor; cbn [In]; intuition discriminate.
  - intros r [<-|[<-|[]]]; vm_compute; discriminate.
Qed.

(* C04 skip cases on the same state *)
Example skip_truncated_ex : decode_prop db0 (dp0 None) ex_st (w_le32 3 ++ w_bstr P) = Ok ex_st.
Proof.
  apply (decode_prop_skip_truncated db0 (dp0 None) ex_st 3 P (mkDT F [10%Z; 11%Z])); vm_compute; reflexivity.
Qed.
Example skip_unknown_type_ex :
  decode_prop db0 (dp0 None) ex_st (w_le32 3 ++ w_bstr P ++ w_u8 200 ++ [1; 2; 3]) = Ok ex_st.
Proof.
  apply (decode_prop_skip_unknown_type db0 (dp0 None) ex_st 3 P (mkDT F [10%Z; 11%Z])); vm_compute; reflexivity.
Qed.

(* (2) the Name chunk *)
Example name_chunk_ex :
  decode_prop db0 (dp0 None) ex_st
    (w_le32 3 ++ w_bstr NAME ++ w_u8 (wire_id WString) ++ flat_map w_bstr [bstr "a"; bstr "b"] ++ []) =
  Ok (with_insts ex_st [(11%Z, mkDI 2 F (bstr "b") [] []); (10%Z, mkDI 1 F (bstr "a") [] [])]).
Proof.
  rewrite (decode_prop_name_chunk db0 (dp0 None) ex_st 3 F [10%Z; 11%Z] WString [bstr "a"; bstr "b"] []).
  - vm_compute. reflexivity.
  - vm_compute. reflexivity.
  - vm_compute. reflexivity.
  - reflexivity.
  - reflexivity.
  - repeat constructor.
Qed.

(* (3) the INST round trip for a service class with instances 5 and 7 (file referents 0 and 1) *)
Definition ex_refs : list (N * Z) := [(7, 1%Z); (5, 0%Z)].
Definition ex_ti : type_info := mkTI 3 true [5; 7] [] None [].
Definition ex_inst_payload : bytes :=
  [3; 0; 0; 0; 7; 0; 0; 0; 70; 111; 108; 100; 101; 114; 48; 1; 2; 0; 0; 0; 0; 0; 0; 0; 0; 0; 0; 2; 1; 1].

Example inst_chunk_ex : inst_chunk ex_refs (F, ex_ti) = Ok (CH_INST, ex_inst_payload).
Proof. vm_compute. reflexivity. Qed.

Example inst_chunk_roundtrip_ex :
  run_chunk (decode_inst None dstate0) ex_inst_payload =
  Ok (mkDS [] [(3, mkDT F [0%Z; 1%Z])] [(1%Z, mkDI 2 F F [] []); (0%Z, mkDI 1 F F [] [])] [] 3).
Proof.
  destruct (inst_chunk_roundtrip None dstate0 ex_refs F ex_ti CH_INST ex_inst_payload) as (ids & HF & _ & Hrun).
  - exact inst_chunk_ex.
  - vm_compute. reflexivity.
  - vm_compute. reflexivity.
  - reflexivity.
  - vm_compute. reflexivity.
  - vm_compute. reflexivity.
  - reflexivity.
  - intros r z [<-|[<-|[]]] H; vm_compute in H; inversion H; reflexivity.
  - rewrite Hrun. cbn [ex_ti ti_instances] in HF.
    inversion HF as [|? z0 ? l0 H0 HF1]; subst. inversion HF1 as [|? z1 ? l1 H1 HF2]; subst. inversion HF2; subst.
    vm_compute in H0, H1. inversion H0; inversion H1; subst. vm_compute. reflexivity.
Qed.

(* the writer's prop_chunk on the sample DOM of BinFileFacts (class Folder0 = instances 1 and 2, property P),
   read back through prop_chunk_written_roundtrip *)
Definition ex_ti2 : type_info := mkTI 3 false [1; 2] [] None [].
Definition ex_pi : prop_info := mkPI WInt32 P [] (VInt32 0%Z) None.
Example prop_chunk_written_ex :
  exists payload,
    prop_chunk ep0 sample_dom ex_ctx ex_ti2 (P, ex_pi) = Ok (CH_PROP, payload) /\
    decode_prop db0 (dp0 None) ex_st payload =
    Ok (with_insts ex_st [(11%Z, mkDI 2 F F [(P, VInt32 (-3)%Z)] []); (10%Z, mkDI 1 F F [(P, VInt32 7%Z)] [])]).
Proof.
  eexists. split; [vm_compute; reflexivity|].
  match goal with |- decode_prop _ _ _ ?pl = _ =>
    destruct (prop_chunk_written_roundtrip db0 ep0 (dp0 None) sample_dom ex_ctx ex_ti2 P ex_pi CH_PROP pl
                ex_st F [10%Z; 11%Z] P VT_Int32 None) as (insts & HF & _ & Hdec) end.
  - vm_compute. reflexivity.
  - vm_compute. reflexivity.
  - vm_compute. reflexivity.
  - reflexivity.
  - vm_compute. reflexivity.
  - reflexivity.
  - vm_compute. reflexivity.
  - vm_compute. reflexivity.
  - vm_compute. reflexivity.
  - cbn [ex_ti2 ti_instances] in HF.
    inversion HF as [|? i0 ? l0 H0 HF1]; subst. inversion HF1 as [|? i1 ? l1 H1 HF2]; subst. inversion HF2; subst.
    vm_compute in H0, H1. inversion H0; inversion H1; subst.
    rewrite (Hdec ex_vs).
    + vm_compute. reflexivity.
    + exists ex_col. split; vm_compute; reflexivity.
Qed.

(* (4) the SSTR round trip *)
Example sstr_chunk_ex : decode_sstr None (sstr_payload [bstr "xy"; []; bstr "z"] ++ [9]) = Ok ([bstr "xy"; []; bstr "z"], [9]).
Proof. apply sstr_chunk_roundtrip; [vm_compute; reflexivity|repeat constructor]. Qed.
End Examples.

Print Assumptions decode_prop_chunk.
Print Assumptions prop_chunk_roundtrip.
Print Assumptions decode_prop_chunk_state.
Print Assumptions decode_prop_chunk_state_inv.
Print Assumptions apply_values_spec.
Print Assumptions apply_values_keys.
Print Assumptions decode_prop_skip_truncated.
Print Assumptions decode_prop_skip_truncated_gen.
Print Assumptions decode_prop_skip_unknown_type.
Print Assumptions decode_prop_skip_unknown_type_gen.
Print Assumptions prop_chunk_written_roundtrip.
Print Assumptions decode_prop_name_chunk.
Print Assumptions decode_prop_name_chunk_state.
Print Assumptions name_prop_chunk_written_roundtrip.
Print Assumptions inst_chunk_roundtrip.
Print Assumptions decode_inst_payload.
Print Assumptions fresh_insts_fresh.
Print Assumptions fresh_insts_spec.
Print Assumptions sstr_chunk_roundtrip.
Print Assumptions dispatch_sstr_chunk.
Print Assumptions dispatch_inst_chunk.
Print Assumptions dispatch_prop_chunk.
Print Assumptions encode_chunks_inv.
Print Assumptions Examples.prop_chunk_roundtrip_ex.
Print Assumptions Examples.inst_chunk_roundtrip_ex.
Print Assumptions Examples.prop_chunk_written_ex.

(* EXPORT (for Properties/C01.v unless noted):
   PROP     decode_prop_chunk, prop_chunk_roundtrip, decode_prop_chunk_state, decode_prop_chunk_state_inv,
            decode_prop_chunk_not_serialized,
            prop_chunk_inv, prop_chunk_written_roundtrip, decode_prop_unknown_type_id
            apply_values_spec, apply_values_keys, apply_values_ok_or_panic
   C04      decode_prop_skip_truncated, decode_prop_skip_truncated_gen,
            decode_prop_skip_unknown_type, decode_prop_skip_unknown_type_gen
   Name     decode_prop_name_chunk_norm, decode_prop_name_chunk, decode_prop_name_chunk_state,
            name_prop_chunk_written, name_prop_chunk_written_roundtrip
   INST     decode_inst_payload, inst_chunk_roundtrip, fresh_insts_next, fresh_insts_fresh, fresh_insts_spec
   SSTR     sstr_chunk_roundtrip
   dispatch dispatch_META, dispatch_SSTR, dispatch_INST, dispatch_PROP, dispatch_PRNT, dispatch_END,
            dispatch_sstr_chunk, dispatch_inst_chunk, dispatch_prop_chunk,
            chunk_list_loop_step, chunk_list_loop_end, encode_chunks_inv
   non-vacuity  Examples.prop_chunk_roundtrip_ex, Examples.prop_chunk_written_ex, Examples.inst_chunk_roundtrip_ex, Examples.name_chunk_ex,
            Examples.sstr_chunk_ex, Examples.skip_truncated_ex, Examples.skip_unknown_type_ex
   definitions used in the statements: prop_header, with_insts, prop_dctx, set_name, fresh_insts, inst_register,
            label_insts, sstr_payload, sstr_chunks, prnt_parent; alloc_ok / bstr_ok / str_norm are BinValuesFacts2's. *)
