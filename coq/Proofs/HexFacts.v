(* HexFacts.v — lemmas about Model/Hex.v: hex formatting followed by `from_str_radix` is the identity on the
   whole range of the integer type (a general lemma on digit strings, no enumeration); the Ref and UniqueId
   text round trips (UniqueId: the current code, every random part; never panics); and, for the record, the
   refutation of the round trip for negative `random` on the code before /repo commit 680c0119. *)
From RbxVerif Require Import Hex BytesFacts.
From Coq Require Import Lia.
Open Scope N_scope.

Definition step16 (a d : N) : N := a * 16 + d.
Definition value_le (l : list N) : N := fold_right (fun d a => a * 16 + d) 0 l.
Definition small (d : N) : Prop := d < 16.

(* ---- single digits ---- *)
Lemma digit_val_hex_digit d : d < 16 -> digit_val (hex_digit d) = Some d.
Proof.
  intros H. destruct d as [|p]; [reflexivity|].
  do 4 (destruct p as [p|p|]; try reflexivity); exfalso; lia.
Qed.

Lemma hex_digit_range d : d < 16 -> 48 <= hex_digit d < 128.
Proof. intros H. unfold hex_digit. destruct (d <? 10) eqn:E; [apply N.ltb_lt in E|apply N.ltb_ge in E]; lia. Qed.

(* ---- hex_rev: enough fuel, value, digit range, length ---- *)
Lemma hex_rev_spec fuel : forall n, n < 16 ^ N.of_nat fuel -> (0 < fuel)%nat ->
  value_le (hex_rev fuel n) = n /\ Forall small (hex_rev fuel n) /\ hex_rev fuel n <> [].
Proof.
  induction fuel as [|k IH]; intros n Hn Hf; [lia|].
  assert (Hd : n = 16 * (n / 16) + n mod 16) by (apply N.div_mod; lia).
  assert (Hm : n mod 16 < 16) by (apply N.mod_lt; lia).
  cbn [hex_rev]. destruct (n / 16 =? 0) eqn:E.
  - apply N.eqb_eq in E. repeat split.
    + unfold value_le; cbn. lia.
    + constructor; [exact Hm|constructor].
    + discriminate.
  - apply N.eqb_neq in E.
    assert (Hq : n / 16 < 16 ^ N.of_nat k).
    { apply N.div_lt_upper_bound; [lia|]. rewrite Nat2N.inj_succ, N.pow_succ_r' in Hn. exact Hn. }
    assert (Hk : (0 < k)%nat).
    { destruct k; [|lia]. change (16 ^ N.of_nat 0) with 1 in Hq. apply N.lt_1_r in Hq. contradiction. }
    destruct (IH (n / 16) Hq Hk) as (Hv & HF & _). repeat split.
    + unfold value_le in *; cbn. rewrite Hv. lia.
    + constructor; [exact Hm|exact HF].
    + discriminate.
Qed.

Lemma hex_rev_length fuel : forall n k, n < 16 ^ N.of_nat k -> (0 < k)%nat -> (length (hex_rev fuel n) <= k)%nat.
Proof.
  induction fuel as [|f IH]; intros n k Hn Hk; cbn [hex_rev]; [cbn; lia|].
  destruct (n / 16 =? 0) eqn:E; [cbn; lia|]. apply N.eqb_neq in E.
  destruct k as [|k]; [lia|].
  assert (Hq : n / 16 < 16 ^ N.of_nat k).
  { apply N.div_lt_upper_bound; [lia|]. rewrite Nat2N.inj_succ, N.pow_succ_r' in Hn. exact Hn. }
  assert (Hk' : (0 < k)%nat) by (destruct k; [change (16 ^ N.of_nat 0) with 1 in Hq; apply N.lt_1_r in Hq; contradiction|lia]).
  specialize (IH (n / 16) k Hq Hk'). cbn [length]. lia.
Qed.

Lemma size_nat_bound n : n < 2 ^ N.of_nat (N.size_nat n).
Proof.
  destruct n as [|p]; [cbn; lia|]. cbn [N.size_nat].
  induction p as [p IH|p IH|]; cbn [Pos.size_nat].
  - rewrite Nat2N.inj_succ, N.pow_succ_r'. lia.
  - rewrite Nat2N.inj_succ, N.pow_succ_r'. lia.
  - cbn. lia.
Qed.

Lemma fuel_enough n : n < 16 ^ N.of_nat (S (N.size_nat n)).
Proof.
  eapply N.lt_le_trans; [apply size_nat_bound|].
  eapply N.le_trans; [apply (N.pow_le_mono_l 2 16); lia|].
  apply N.pow_le_mono_r; lia.
Qed.

Lemma fold_left_rev_value l : fold_left step16 (rev l) 0 = value_le l.
Proof. unfold value_le. rewrite <- (rev_involutive l) at 2. rewrite fold_left_rev_right. reflexivity. Qed.

Lemma hex_min_spec n : fold_left step16 (hex_min n) 0 = n /\ Forall small (hex_min n) /\ hex_min n <> [].
Proof.
  unfold hex_min. destruct (hex_rev_spec (S (N.size_nat n)) n (fuel_enough n)) as (Hv & HF & Hne); [lia|].
  repeat split.
  - rewrite fold_left_rev_value. exact Hv.
  - apply Forall_rev. exact HF.
  - intros H. apply Hne. rewrite <- (rev_involutive (hex_rev _ n)), H. reflexivity.
Qed.

Lemma hex_min_length n k : n < 16 ^ N.of_nat k -> (0 < k)%nat -> (length (hex_min n) <= k)%nat.
Proof. intros. unfold hex_min. rewrite rev_length. now apply hex_rev_length. Qed.

(* ---- the digit list printed by fmt_hex ---- *)
Definition fmt_digits (w : nat) (n : N) : list N := repeat 0 (w - length (hex_min n)) ++ hex_min n.

Lemma fmt_hex_digits w n : fmt_hex w n = List.map hex_digit (fmt_digits w n).
Proof. reflexivity. Qed.

Lemma fold_zeros k : fold_left step16 (repeat 0 k) 0 = 0.
Proof. induction k; cbn; [reflexivity|exact IHk]. Qed.

Lemma fmt_digits_spec w n :
  fold_left step16 (fmt_digits w n) 0 = n /\ Forall small (fmt_digits w n) /\ fmt_digits w n <> [].
Proof.
  destruct (hex_min_spec n) as (Hv & HF & Hne). unfold fmt_digits. repeat split.
  - rewrite fold_left_app, fold_zeros. exact Hv.
  - apply Forall_app. split; [|exact HF]. apply Forall_forall. intros x Hx. apply repeat_spec in Hx. subst. unfold small. lia.
  - intros H. apply app_eq_nil in H. tauto.
Qed.

Lemma fmt_hex_length w n : n < 16 ^ N.of_nat w -> (0 < w)%nat -> length (fmt_hex w n) = w.
Proof.
  intros Hn Hw. rewrite fmt_hex_digits, map_length. unfold fmt_digits.
  rewrite app_length, repeat_length. pose proof (hex_min_length n w Hn Hw). lia.
Qed.

Lemma fmt_hex_ascii w n : Forall (fun b => b < 128) (fmt_hex w n).
Proof.
  rewrite fmt_hex_digits. destruct (fmt_digits_spec w n) as (_ & HF & _).
  apply Forall_forall. intros b Hb. apply in_map_iff in Hb. destruct Hb as (d & <- & Hd).
  rewrite Forall_forall in HF. apply HF in Hd. apply hex_digit_range in Hd. lia.
Qed.

(* ---- the digit loop on a string of hex digits ---- *)
Lemma fold_step_ge ds : forall acc, acc <= fold_left step16 ds acc.
Proof.
  induction ds as [|d ds IH]; intros acc; cbn; [lia|].
  specialize (IH (step16 acc d)). unfold step16 in *. lia.
Qed.

Lemma parse_digits_ok hi ovf ds : forall acc, Forall small ds -> fold_left step16 ds acc <= hi ->
  parse_digits hi ovf acc (List.map hex_digit ds) = Ok (fold_left step16 ds acc).
Proof.
  induction ds as [|d ds IH]; intros acc HF Hle; cbn [List.map parse_digits fold_left]; [reflexivity|].
  inversion HF as [|? ? Hd HF']; subst. rewrite (digit_val_hex_digit d Hd). cbn zeta.
  change (acc * 16 + d) with (step16 acc d). cbn [fold_left] in Hle.
  pose proof (fold_step_ge ds (step16 acc d)) as Hge.
  destruct (hi <? step16 acc d) eqn:E; [apply N.ltb_lt in E; lia|].
  apply IH; assumption.
Qed.

Lemma parse_digits_overflow hi ovf ds : forall acc, Forall small ds -> acc <= hi -> hi < fold_left step16 ds acc ->
  parse_digits hi ovf acc (List.map hex_digit ds) = Err ovf.
Proof.
  induction ds as [|d ds IH]; intros acc HF Hacc Hgt; cbn [List.map parse_digits fold_left] in *; [lia|].
  inversion HF as [|? ? Hd HF']; subst. rewrite (digit_val_hex_digit d Hd). cbn zeta.
  change (acc * 16 + d) with (step16 acc d) in *.
  destruct (hi <? step16 acc d) eqn:E; [reflexivity|]. apply N.ltb_ge in E.
  apply IH; assumption.
Qed.

(* a non-empty string of hex digits has no sign: the sign logic hands it to the positive loop unchanged *)
Lemma parse_hex_gen_digits signed ph nh ds : Forall small ds -> ds <> [] ->
  parse_hex_gen signed ph nh (List.map hex_digit ds) =
  (m <- parse_digits ph PIE_POS 0 (List.map hex_digit ds) ;; Ok (false, m)).
Proof.
  intros HF Hne. destruct ds as [|d ds]; [contradiction|]. inversion HF as [|? ? Hd _]; subst.
  pose proof (hex_digit_range d Hd) as Hr. cbn [List.map parse_hex_gen].
  assert (E1 : (hex_digit d =? 43) = false) by (apply N.eqb_neq; lia).
  assert (E2 : (hex_digit d =? 45) = false) by (apply N.eqb_neq; lia).
  rewrite E1, E2. reflexivity.
Qed.

Lemma parse_digits_no_panic hi ovf s : forall acc, parse_digits hi ovf acc s <> Panic.
Proof.
  induction s as [|c r IH]; intros acc; cbn; [discriminate|].
  destruct (digit_val c); [|discriminate]. destruct (hi <? acc * 16 + n); [discriminate|apply IH].
Qed.
Lemma parse_hex_gen_no_panic signed ph nh s : parse_hex_gen signed ph nh s <> Panic.
Proof.
  unfold parse_hex_gen. destruct s as [|c r]; [discriminate|].
  destruct (((c =? 43) || (c =? 45)) && is_nil r); [discriminate|].
  destruct (c =? 43).
  - pose proof (parse_digits_no_panic ph PIE_POS r 0). destruct (parse_digits ph PIE_POS 0 r); cbn; congruence.
  - destruct ((c =? 45) && signed).
    + pose proof (parse_digits_no_panic nh PIE_NEG r 0). destruct (parse_digits nh PIE_NEG 0 r); cbn; congruence.
    + pose proof (parse_digits_no_panic ph PIE_POS (c :: r) 0). destruct (parse_digits ph PIE_POS 0 (c :: r)); cbn; congruence.
Qed.

(* ---- format then parse ---- *)
Lemma parse_hex_u_fmt bits w n : n < 2 ^ bits -> parse_hex_u bits (fmt_hex w n) = Ok n.
Proof.
  intros Hn. destruct (fmt_digits_spec w n) as (Hv & HF & Hne).
  unfold parse_hex_u. rewrite fmt_hex_digits, (parse_hex_gen_digits _ _ _ _ HF Hne).
  rewrite parse_digits_ok; [|exact HF|rewrite Hv; lia]. rewrite Hv. reflexivity.
Qed.

Lemma parse_hex_i64_fmt w n : n < 2 ^ 63 -> parse_hex_i64 (fmt_hex w n) = Ok (Z.of_N n).
Proof.
  intros Hn. destruct (fmt_digits_spec w n) as (Hv & HF & Hne).
  unfold parse_hex_i64. rewrite fmt_hex_digits, (parse_hex_gen_digits _ _ _ _ HF Hne).
  rewrite parse_digits_ok; [|exact HF|rewrite Hv; change (2 ^ 63) with 9223372036854775808 in Hn; lia].
  rewrite Hv. reflexivity.
Qed.

Lemma parse_hex_i64_fmt_big w n : 2 ^ 63 <= n -> parse_hex_i64 (fmt_hex w n) = Err PIE_POS.
Proof.
  intros Hn. destruct (fmt_digits_spec w n) as (Hv & HF & Hne).
  unfold parse_hex_i64. rewrite fmt_hex_digits, (parse_hex_gen_digits _ _ _ _ HF Hne).
  rewrite parse_digits_overflow; [reflexivity|exact HF|lia|].
  rewrite Hv. change (2 ^ 63) with 9223372036854775808 in Hn. lia.
Qed.

(* ---- Ref: all 2^128 values ---- *)
Theorem ref_text_roundtrip : forall n, n < 2 ^ 128 -> ref_from_str (ref_display n) = Ok n.
Proof. intros n Hn. unfold ref_from_str, ref_display. now apply parse_hex_u_fmt. Qed.

(* the printed form is always exactly 32 lower-case hex digits *)
Theorem ref_display_length : forall n, n < 2 ^ 128 -> length (ref_display n) = 32%nat.
Proof. intros n Hn. unfold ref_display. apply fmt_hex_length; [exact Hn|lia]. Qed.

(* ---- UniqueId ---- *)
Lemma firstn_exact {A} (a b : list A) k : length a = k -> firstn k (a ++ b) = a.
Proof. intros <-. induction a; cbn; [now destruct b|now rewrite IHa]. Qed.
Lemma skipn_exact {A} (a b : list A) k : length a = k -> skipn k (a ++ b) = b.
Proof. intros <-. induction a; cbn; [reflexivity|exact IHa]. Qed.

Lemma nth_opt_some_in {A} (l : list A) : forall i x, nth_opt i l = Some x -> In x l.
Proof.
  induction l as [|a l IH]; intros i x H; [destruct i; discriminate|].
  destruct i; cbn in H; [inversion H; now left|right; eauto].
Qed.
Lemma nth_opt_none_len {A} (l : list A) : forall i, nth_opt i l = None -> (length l <= i)%nat.
Proof.
  induction l as [|a l IH]; intros i H; cbn; [lia|].
  destruct i; cbn in H; [discriminate|]. apply IH in H. lia.
Qed.

Lemma ascii_char_boundary s i : Forall (fun b => b < 128) s -> (i <= length s)%nat -> is_char_boundary s i = true.
Proof.
  intros HF Hi. unfold is_char_boundary. destruct (nth_opt i s) as [b|] eqn:E.
  - apply nth_opt_some_in in E. rewrite Forall_forall in HF. apply HF in E.
    apply N.ltb_lt in E. rewrite E. reflexivity.
  - apply nth_opt_none_len in E. apply Nat.eqb_eq. lia.
Qed.

Lemma slice_first (a b : bytes) : length a = 16%nat -> slice (a ++ b) 0 16 = a.
Proof. intros Ha. unfold slice. change (16 - 0)%nat with 16%nat. change (skipn 0 (a ++ b)) with (a ++ b). now apply firstn_exact. Qed.
Lemma slice_mid (a b c : bytes) : length a = 16%nat -> length b = 8%nat -> slice (a ++ b ++ c) 16 24 = b.
Proof. intros Ha Hb. unfold slice. change (24 - 16)%nat with 8%nat. rewrite (skipn_exact _ _ 16 Ha). now apply firstn_exact. Qed.
Lemma slice_last (a b c : bytes) : length a = 16%nat -> length b = 8%nat -> length c = 8%nat -> slice (a ++ b ++ c) 24 32 = c.
Proof.
  intros Ha Hb Hc. unfold slice. change (32 - 24)%nat with 8%nat. rewrite app_assoc.
  rewrite (skipn_exact (a ++ b) c 24) by (rewrite app_length, Ha, Hb; reflexivity).
  rewrite <- (app_nil_r c) at 1. now apply firstn_exact.
Qed.

Lemma uid_display_parts index time random :
  index < 2 ^ 32 -> time < 2 ^ 32 -> (- 2 ^ 63 <= random < 2 ^ 63)%Z ->
  let a := fmt_hex 16 (wrap_u 64 random) in let b := fmt_hex 8 time in let c := fmt_hex 8 index in
  length a = 16%nat /\ length b = 8%nat /\ length c = 8%nat /\
  Forall (fun x => x < 128) (uid_display index time random).
Proof.
  intros Hi Ht Hr a b c.
  assert (Hw : wrap_u 64 random < 2 ^ 64).
  { unfold wrap_u. change (Z.of_N 64) with 64%Z.
    pose proof (Z.mod_pos_bound random (2 ^ 64) ltac:(lia)) as Hb.
    apply N2Z.inj_lt. rewrite Z2N.id by lia. change (Z.of_N (2 ^ 64)) with (2 ^ 64)%Z. lia. }
  repeat split.
  - apply fmt_hex_length; [|lia]. change (16 ^ N.of_nat 16) with (2 ^ 64). exact Hw.
  - apply fmt_hex_length; [|lia]. change (16 ^ N.of_nat 8) with (2 ^ 32). exact Ht.
  - apply fmt_hex_length; [|lia]. change (16 ^ N.of_nat 8) with (2 ^ 32). exact Hi.
  - unfold uid_display. repeat (apply Forall_app; split); apply fmt_hex_ascii.
Qed.

Lemma uid_display_ascii index time random :
  index < 2 ^ 32 -> time < 2 ^ 32 -> (- 2 ^ 63 <= random < 2 ^ 63)%Z -> is_ascii (uid_display index time random) = true.
Proof.
  intros Hi Ht Hr. destruct (uid_display_parts index time random Hi Ht Hr) as (_ & _ & _ & Hascii).
  unfold is_ascii. apply forallb_forall. intros b Hb. rewrite Forall_forall in Hascii. apply N.ltb_lt. now apply Hascii.
Qed.

Lemma wrap_u64_bound z : wrap_u 64 z < 2 ^ 64.
Proof.
  unfold wrap_u. change (Z.of_N 64) with 64%Z.
  pose proof (Z.mod_pos_bound z (2 ^ 64) ltac:(lia)) as Hb.
  apply N2Z.inj_lt. rewrite Z2N.id by lia. change (Z.of_N (2 ^ 64)) with (2 ^ 64)%Z. lia.
Qed.

Lemma is_ascii_Forall s : is_ascii s = true -> Forall (fun b => b < 128) s.
Proof.
  unfold is_ascii. intros H. apply Forall_forall. intros b Hb.
  rewrite forallb_forall in H. apply N.ltb_lt. now apply H.
Qed.

(* UniqueId text round trip on the current code: EVERY index, time and random *)
Theorem uid_text_roundtrip : forall index time random,
  index < 2 ^ 32 -> time < 2 ^ 32 -> (- 2 ^ 63 <= random < 2 ^ 63)%Z ->
  uid_from_str (uid_display index time random) = Ok (index, time, random).
Proof.
  intros index time random Hi Ht Hr.
  destruct (uid_display_parts index time random Hi Ht Hr) as (Ha & Hb & Hc & Hascii).
  unfold uid_from_str. rewrite (uid_display_ascii _ _ _ Hi Ht Hr).
  assert (Hlen : length (uid_display index time random) = 32%nat).
  { unfold uid_display. rewrite !app_length, Ha, Hb, Hc. reflexivity. }
  rewrite Hlen. cbn [Nat.eqb andb].
  rewrite !ascii_char_boundary by (try exact Hascii; rewrite Hlen; lia). cbn [negb].
  unfold uid_display.
  rewrite (slice_first _ _ Ha), (slice_mid _ _ _ Ha Hb), (slice_last _ _ _ Ha Hb Hc).
  rewrite (parse_hex_u_fmt 64 16 _ (wrap_u64_bound random)), (parse_hex_u_fmt 32 8 time Ht), (parse_hex_u_fmt 32 8 index Hi).
  cbn [rbind]. rewrite BytesFacts.wrap_roundtrip64; [reflexivity|].
  unfold in_i64. apply andb_true_intro. split; [apply Z.leb_le|apply Z.ltb_lt]; lia.
Qed.

(* from_str never panics, whatever the bytes: the two things that could -- `&s[0..16]`/`&s[16..24]`/`&s[24..32]`
   off a char boundary -- are unreachable behind `s.len() == 32 && s.is_ascii()`, and from_str_radix returns
   errors (the code before 680c0119 did panic: uid_pinned_panics below) *)
Theorem uid_from_str_no_panic : forall s, uid_from_str s <> Panic.
Proof.
  intros s. unfold uid_from_str.
  destruct (Nat.eqb (length s) 32) eqn:El; cbn [andb]; [|discriminate].
  destruct (is_ascii s) eqn:Ea; [|discriminate].
  apply Nat.eqb_eq in El. apply is_ascii_Forall in Ea.
  rewrite !ascii_char_boundary by (try exact Ea; rewrite El; lia). cbn [negb].
  unfold parse_hex_u.
  destruct (parse_hex_gen false (2 ^ 64 - 1) 0 (slice s 0 16)) as [[? ?]| | |] eqn:E1; cbn [rbind]; try discriminate.
  - destruct (parse_hex_gen false (2 ^ 32 - 1) 0 (slice s 16 24)) as [[? ?]| | |] eqn:E2; cbn [rbind]; try discriminate.
    + destruct (parse_hex_gen false (2 ^ 32 - 1) 0 (slice s 24 32)) as [[? ?]| | |] eqn:E3; cbn [rbind]; try discriminate.
      exfalso. revert E3. apply parse_hex_gen_no_panic.
    + exfalso. revert E2. apply parse_hex_gen_no_panic.
  - exfalso. revert E1. apply parse_hex_gen_no_panic.
Qed.

(* a 32-byte string that is not ASCII is a length error, wherever the multi-byte character sits *)
Theorem uid_from_str_non_ascii : forall s, is_ascii s = false -> uid_from_str s = Err ERR_UID_LEN.
Proof. intros s H. unfold uid_from_str. rewrite H, Bool.andb_false_r. reflexivity. Qed.

(* ---- uid_from_str_pinned: the code before /repo commit 680c0119 (the refutation witnesses) ---- *)
Lemma uid_pinned_display index time random :
  index < 2 ^ 32 -> time < 2 ^ 32 -> (- 2 ^ 63 <= random < 2 ^ 63)%Z ->
  uid_from_str_pinned (uid_display index time random) =
  (r <- parse_hex_i64 (fmt_hex 16 (wrap_u 64 random)) ;; Ok (index, time, r)).
Proof.
  intros Hi Ht Hr. destruct (uid_display_parts index time random Hi Ht Hr) as (Ha & Hb & Hc & Hascii).
  unfold uid_from_str_pinned.
  assert (Hlen : length (uid_display index time random) = 32%nat).
  { unfold uid_display. rewrite !app_length, Ha, Hb, Hc. reflexivity. }
  rewrite Hlen. cbn [Nat.eqb].
  rewrite !ascii_char_boundary by (try exact Hascii; rewrite Hlen; lia). cbn [negb].
  unfold uid_display.
  rewrite (slice_first _ _ Ha), (slice_mid _ _ _ Ha Hb), (slice_last _ _ _ Ha Hb Hc).
  rewrite (parse_hex_u_fmt 32 8 time Ht), (parse_hex_u_fmt 32 8 index Hi).
  destruct (parse_hex_i64 (fmt_hex 16 (wrap_u 64 random))); reflexivity.
Qed.

Lemma wrap_u_nonneg z : (0 <= z < 2 ^ 64)%Z -> wrap_u 64 z = Z.to_N z.
Proof. intros H. unfold wrap_u. change (Z.of_N 64) with 64%Z. now rewrite Z.mod_small. Qed.
Lemma wrap_u_neg z : (- 2 ^ 63 <= z < 0)%Z -> wrap_u 64 z = Z.to_N (z + 2 ^ 64).
Proof.
  intros H. unfold wrap_u. change (Z.of_N 64) with 64%Z. f_equal.
  symmetry. apply Z.mod_unique with (q := (-1)%Z); lia.
Qed.

(* it round-tripped the non-negative random parts only ... *)
Theorem uid_pinned_roundtrip : forall index time random,
  index < 2 ^ 32 -> time < 2 ^ 32 -> (0 <= random < 2 ^ 63)%Z ->
  uid_from_str_pinned (uid_display index time random) = Ok (index, time, random).
Proof.
  intros index time random Hi Ht Hr. rewrite uid_pinned_display by (try assumption; lia).
  rewrite wrap_u_nonneg by lia. rewrite parse_hex_i64_fmt.
  - cbn [rbind]. rewrite Z2N.id by lia. reflexivity.
  - apply N2Z.inj_lt. rewrite Z2N.id by lia. change (Z.of_N (2 ^ 63)) with (2 ^ 63)%Z. lia.
Qed.

(* ... EVERY negative random failed: Display prints the two's complement, 16 digits with the top bit set, which
   i64::from_str_radix rejects as a positive overflow (DESIGN F17) ... *)
Theorem uid_text_negative_fails : forall index time random,
  index < 2 ^ 32 -> time < 2 ^ 32 -> (- 2 ^ 63 <= random < 0)%Z ->
  uid_from_str_pinned (uid_display index time random) = Err PIE_POS.
Proof.
  intros index time random Hi Ht Hr. rewrite uid_pinned_display by (try assumption; lia).
  rewrite wrap_u_neg by lia. rewrite parse_hex_i64_fmt_big; [reflexivity|].
  apply N2Z.inj_le. rewrite Z2N.id by lia. change (Z.of_N (2 ^ 63)) with (2 ^ 63)%Z. lia.
Qed.

Theorem uid_text_refuted : exists index time random,
  index < 2 ^ 32 /\ time < 2 ^ 32 /\ (- 2 ^ 63 <= random < 2 ^ 63)%Z /\
  uid_from_str_pinned (uid_display index time random) <> Ok (index, time, random).
Proof.
  exists 0, 0, (-1)%Z. repeat split; try lia.
  assert (E : uid_from_str_pinned (uid_display 0 0 (-1)) = Err PIE_POS) by (vm_compute; reflexivity).
  rewrite E. discriminate.
Qed.

(* ... and a 32-byte string with a two-byte character across the random/time boundary (byte 16) or the time/index
   boundary (byte 24) panicked; the current code answers FromStrBadLen *)
Example uid_pinned_panics :
  let s16 := repeat 48 15 ++ [195; 169] ++ repeat 48 15 in
  let s24 := repeat 48 23 ++ [195; 169] ++ repeat 48 7 in
  uid_from_str_pinned s16 = Panic /\ uid_from_str_pinned s24 = Panic /\
  uid_from_str s16 = Err ERR_UID_LEN /\ uid_from_str s24 = Err ERR_UID_LEN.
Proof. repeat split; vm_compute; reflexivity. Qed.

(* the text form is 32 bytes of ASCII hex *)
Theorem uid_display_length : forall index time random,
  index < 2 ^ 32 -> time < 2 ^ 32 -> (- 2 ^ 63 <= random < 2 ^ 63)%Z ->
  length (uid_display index time random) = 32%nat.
Proof.
  intros index time random Hi Ht Hr. destruct (uid_display_parts index time random Hi Ht Hr) as (Ha & Hb & Hc & _).
  unfold uid_display. rewrite !app_length, Ha, Hb, Hc. reflexivity.
Qed.

(* malformed input: what from_str_radix rejects (used as documentation of the error classes compared by the
   serde17 correspondence) *)
Example parse_empty : parse_hex_u 128 [] = Err PIE_EMPTY. Proof. reflexivity. Qed.
Example parse_plus_alone : parse_hex_u 128 [43] = Err PIE_INVALID. Proof. reflexivity. Qed.
Example parse_minus_unsigned : parse_hex_u 128 [45; 49] = Err PIE_INVALID. Proof. reflexivity. Qed.
Example parse_plus_prefix : parse_hex_u 128 [43; 70; 102] = Ok 255. Proof. reflexivity. Qed.
Example parse_i64_min : parse_hex_i64 (45 :: 56 :: repeat 48 15) = Ok (-9223372036854775808)%Z. Proof. vm_compute. reflexivity. Qed.
Example parse_i64_below_min : parse_hex_i64 (45 :: 56 :: repeat 48 14 ++ [49]) = Err PIE_NEG. Proof. vm_compute. reflexivity. Qed.
Example parse_u128_overflow : parse_hex_u 128 (49 :: repeat 48 32) = Err PIE_POS. Proof. vm_compute. reflexivity. Qed.
