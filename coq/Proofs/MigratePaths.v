(* MigratePaths.v — property C15 at the level of the four code paths.
   A legacy property that the database marks as migrating (canonical descriptor of kind `KCanon (PMigrate q op)`) is
   handled in four places, all calling the one function Db.migrate:
     binary write  Model/BinFile.v  resolve_prop / cti_prop (collect_type_info), prop_value (serialize_properties)
     binary read   Model/BinFile.v  find_canonical_property, add_property, collect_props (finish)
     XML write     Model/XmlFile.v  serialize_property, has_explicit_new_value (repair 62703803)
     XML read      Model/XmlFile.v  deserialize_property
   For an ARBITRARY database in which the legacy name resolves to such a descriptor and the new name q resolves to a
   canonical serializing property named q:
     (1) Module Bin       binary read:  the migration is found; (q, w) is pushed, never the legacy name; an explicit q wins
                          in both chunk orders
     (2) Module Xml       XML read:     q |-> w inserted when q is absent, map unchanged when present; explicit wins in both
                          element orders; the legacy name is never a key
     (3) Module Xml       XML write:    `write_value_xml q w`, or nothing at all when an explicit new value is among the keys
     (4) Module BinWrite  binary write: the column of q is created / updated with `pi_migration = Some op`; the column value
                          of an instance is w for a legacy spelling and the explicit value for an explicit one
     (5) migrate_paths_agree, migrate_paths_explicit_wins: the four paths deliver the same pair (q, w)
     (6) migrate_failure_paths_disagree_refuted: when `migrate` fails the four paths do four different things (known
         finding), and the XML reader's outcome depends on the element order (xml_read_failure_depends_on_element_order_refuted)
   Then the hypotheses are discharged, by computation, for the 12 Migrate descriptors of the bundled database and for
   every class inheriting them (Module Bundled), and the statements are witnessed through the complete codecs on two small
   databases (Module EndToEnd).  BinFile and XmlFile define clashing names (dtype_vt, dstate, ...): each is imported
   inside its own module only.  Standard library only. *)
From Coq Require Import List NArith ZArith Bool Lia String.
From RbxVerif Require Import Base Bytes Value Db CodecDom.
From RbxVerif Require DbFacts BinFile XmlFile MigrationTables Database MigrateFacts XmlFileFacts.
Import ListNotations.
Open Scope list_scope.
Open Scope N_scope.

(* ------------------------------------------------------------------ byte-keyed association lists *)
Lemma mp_eqb_refl a : bytes_eqb a a = true.
Proof. induction a as [|x a IH]; cbn; auto. rewrite N.eqb_refl. exact IH. Qed.

Lemma mp_eqb_eq a b : bytes_eqb a b = true -> a = b.
Proof.
  revert b. induction a as [|x a IH]; intros [|y b] H; cbn in H; try discriminate; auto.
  apply andb_true_iff in H. destruct H as [H1 H2]. apply N.eqb_eq in H1. apply IH in H2. congruence.
Qed.

Lemma mp_eqb_neq a b : a <> b -> bytes_eqb a b = false.
Proof. intro H. destruct (bytes_eqb a b) eqn:E; [apply mp_eqb_eq in E; contradiction|reflexivity]. Qed.

Lemma mp_eqb_sym a b : bytes_eqb a b = bytes_eqb b a.
Proof.
  destruct (bytes_eqb a b) eqn:E.
  - apply mp_eqb_eq in E. subst. symmetry. apply mp_eqb_refl.
  - destruct (bytes_eqb b a) eqn:E'; [|reflexivity]. apply mp_eqb_eq in E'. subst. rewrite mp_eqb_refl in E. discriminate.
Qed.

Lemma mp_bfind_bupd_same {V} k (v : V) m : bfind k (bupd k v m) = Some v.
Proof. unfold bupd. cbn [bfind]. now rewrite mp_eqb_refl. Qed.

Lemma mp_bfind_bremove_other {V} k k' (m : list (bytes * V)) : bytes_eqb k k' = false -> bfind k (bremove k' m) = bfind k m.
Proof.
  intro Hn. induction m as [|[a x] m IH]; cbn [bremove bfind]; [reflexivity|].
  destruct (bytes_eqb k' a) eqn:E.
  - apply mp_eqb_eq in E. subst a. rewrite Hn. exact IH.
  - cbn [bfind]. destruct (bytes_eqb k a); [reflexivity|exact IH].
Qed.

Lemma mp_bfind_bupd_other {V} k k' (v : V) m : bytes_eqb k k' = false -> bfind k (bupd k' v m) = bfind k m.
Proof. intro Hn. unfold bupd. cbn [bfind]. rewrite Hn. now apply mp_bfind_bremove_other. Qed.

Lemma mp_keys_bremove {V} k k' (m : list (bytes * V)) : In k (List.map fst (bremove k' m)) -> In k (List.map fst m).
Proof.
  induction m as [|[a x] m IH]; cbn [bremove List.map fst In]; [tauto|].
  destruct (bytes_eqb k' a); cbn [List.map fst In]; intuition.
Qed.

Lemma mp_keys_bupd {V} k k' (v : V) m : In k (List.map fst (bupd k' v m)) -> k = k' \/ In k (List.map fst m).
Proof. unfold bupd. cbn [List.map fst In]. intros [H|H]; [left; now symmetry|right; now apply mp_keys_bremove in H]. Qed.

Lemma mp_bfind_none_keys {V} k (m : list (bytes * V)) : bfind k m = None <-> ~ In k (List.map fst m).
Proof.
  induction m as [|[a x] m IH]; cbn [bfind List.map fst In]; [tauto|].
  destruct (bytes_eqb k a) eqn:E.
  - apply mp_eqb_eq in E. subst. split; [discriminate|]. intro H. exfalso. apply H. now left.
  - rewrite IH. split; [intros H [H1|H1]; [subst; rewrite mp_eqb_refl in E; discriminate|tauto] | tauto].
Qed.

Lemma mp_existsb_key {V} k (m : list (bytes * V)) :
  existsb (fun kv => bytes_eqb (fst kv) k) m = match bfind k m with Some _ => true | None => false end.
Proof.
  induction m as [|[a x] m IH]; cbn [existsb bfind fst]; [reflexivity|].
  rewrite (mp_eqb_sym a k). destruct (bytes_eqb k a); [reflexivity|exact IH].
Qed.

Lemma mp_string_bytes s : string_of_bytes (bytes_of_string s) = s.
Proof.
  unfold string_of_bytes, bytes_of_string. rewrite List.map_map.
  rewrite (List.map_ext _ (fun a => a)) by (intro a; apply ascii_N_embedding).
  rewrite List.map_id. apply string_of_list_ascii_of_string.
Qed.

(* ------------------------------------------------------------------ the migration function *)
Definition mig_in_type (op : migop) : N :=
  match op with MigInset => 2 | MigFont => 9 | MigBrick => 3 | MigContent => 8 end.
Definition mig_out_type (op : migop) : N :=
  match op with MigInset => 9 | MigFont => 34 | MigBrick => 6 | MigContent => 39 end.

Lemma migrate_types ft bt op v w : migrate ft bt op v = Some w -> vtype v = mig_in_type op /\ vtype w = mig_out_type op.
Proof.
  unfold migrate. destruct op, v; try discriminate.
  - intros [= <-]. split; reflexivity.
  - destruct (font_lookup ft n) as [[[f wt] st]|]; [intros [= <-]; split; reflexivity|discriminate].
  - destruct (brick_lookup bt n) as [[[r g] b]|]; [intros [= <-]; split; reflexivity|discriminate].
  - intros [= <-]. split; reflexivity.
Qed.

Lemma mig_in_out_differ op : mig_in_type op <> mig_out_type op.
Proof. destruct op; discriminate. Qed.

(* a value of the NEW type is never migrated: this is what makes an explicit new value survive a column that
   carries the migration flag *)
Lemma migrate_none_on_new_type ft bt op x : vtype x = mig_out_type op -> migrate ft bt op x = None.
Proof.
  intro H. destruct (migrate ft bt op x) as [y|] eqn:E; [|reflexivity].
  apply migrate_types in E. destruct E as [E _]. rewrite H in E. symmetry in E. now apply mig_in_out_differ in E.
Qed.

Lemma migrate_not_idempotent ft bt op v w : migrate ft bt op v = Some w -> migrate ft bt op w = None.
Proof. intro H. apply migrate_none_on_new_type. now apply migrate_types in H. Qed.

(* the binary and the XML copy of find_property_descriptors return the same descriptors for a property that
   serializes (Proofs/DbFacts.v lookups_rel, which holds for EVERY database) *)
Lemma bin_lookup_gives_xml d c p canon ser :
  find_desc_bin d c p = Ok (Some (canon, Some ser)) -> find_desc_xml d c p = Ok (Some (canon, ser)).
Proof.
  intro H. pose proof (DbFacts.lookups_rel d c p) as R. rewrite H in R. inversion R. reflexivity.
Qed.

(* a property that is itself canonical + Migrate is its own serialized descriptor, in both copies *)
Lemma migrating_lookup_shape_bin d c p canon ser q op :
  find_desc_bin d c p = Ok (Some (canon, ser)) -> pd_kind canon = KCanon (PMigrate q op) -> ser = Some canon.
Proof.
  unfold find_desc_bin. destruct (get_class d c) as [cd|]; [|discriminate].
  generalize (S (length (db_classes d))). intro f. revert cd.
  induction f as [|f IH]; intros cd H Hk; cbn [find_desc_bin_loop] in H; [discriminate|].
  destruct (find_prop (cd_props cd) p) as [pd|].
  - destruct (pd_kind pd) as [s|t] eqn:Kp.
    + destruct s; cbn [ser_from_canon_bin rbind] in H;
        try (injection H as <- <-; rewrite Kp in Hk; try discriminate; reflexivity).
      destruct (find_prop (cd_props cd) name); cbn [rbind] in H; [|discriminate].
      injection H as <- <-. rewrite Kp in Hk. discriminate.
    + destruct (find_prop (cd_props cd) t) as [cn|]; [|discriminate].
      destruct (pd_kind cn) as [s|t'] eqn:Kc; [|discriminate].
      destruct s; cbn [ser_from_canon_bin rbind] in H;
        try (injection H as <- <-; rewrite Kc in Hk; try discriminate; reflexivity).
      destruct (find_prop (cd_props cd) name); cbn [rbind] in H; [|discriminate].
      injection H as <- <-. rewrite Kc in Hk. discriminate.
  - destruct (cd_super cd) as [sn|]; [|discriminate].
    destruct (get_class d sn) as [sc|]; [|discriminate]. eapply IH; eauto.
Qed.

(* =============================================================================================== binary *)
Module Bin.
Import BinFile.

Lemma collect_props_app l l' : collect_props (l ++ l') = fold_left (fun m kv => bupd (fst kv) (snd kv) m) l' (collect_props l).
Proof. unfold collect_props. apply fold_left_app. Qed.

Lemma collect_props_last l k v : bfind k (collect_props (l ++ [(k, v)])) = Some v.
Proof. rewrite collect_props_app. cbn [fold_left fst snd]. apply mp_bfind_bupd_same. Qed.

Lemma collect_props_keys l k : In k (List.map fst (collect_props l)) -> In k (List.map fst l).
Proof.
  unfold collect_props.
  assert (G : forall acc, In k (List.map fst (fold_left (fun m kv => bupd (fst kv) (snd kv) m) l acc)) ->
                          In k (List.map fst acc) \/ In k (List.map fst l)).
  { induction l as [|[a x] l IH]; intros acc H; cbn [fold_left] in H; [now left|].
    apply IH in H. destruct H as [H|H]; [|right; right; exact H].
    cbn [fst snd] in H. apply mp_keys_bupd in H. destruct H as [->|H]; [right; now left|now left]. }
  intro H. apply G in H. destruct H as [H|H]; [destruct H|exact H].
Qed.

(* ---------------------------------------------------------------- (1) binary read *)
Section Read.
Variables (d : db) (class pname : bytes) (pd : pdesc) (ser : option pdesc) (q : string) (op : migop).
Hypothesis Hlk : find_desc_bin d (string_of_bytes class) (string_of_bytes pname) = Ok (Some (pd, ser)).
Hypothesis Hk : pd_kind pd = KCanon (PMigrate q op).

(* find_canonical_property hands add_property the migration (new name, operation) *)
Lemma bin_read_finds_migration ty :
  find_canonical_property d ty class pname
  = Ok (Some (bstr (pd_name pd), dtype_vt (pd_type pd), Some (bstr q, op))).
Proof. unfold find_canonical_property. rewrite Hlk. cbn [rbind]. rewrite Hk. reflexivity. Qed.
End Read.

Definition has_prop (i : dinst) (k : bytes) : bool := existsb (fun kv => bytes_eqb (fst kv) k) (di_props i).
Definition push_prop (i : dinst) (k : bytes) (v : value) : dinst :=
  mkDI (di_label i) (di_class i) (di_name i) (di_props i ++ [(k, v)]) (di_children i).

Section AddProperty.
Variables (p : dec_params) (i : dinst) (name nn : bytes) (op : migop) (v : value).

(* the builder has no value for the new name: exactly (new name, migrated value) is pushed; [name] is unused *)
Lemma add_property_migrates w :
  has_prop i nn = false -> migrate (dp_font p) (dp_brick p) op v = Some w ->
  add_property p i name (Some (nn, op)) v = push_prop i nn w.
Proof. intros Hh Hm. unfold add_property. fold (has_prop i nn). rewrite Hh, Hm. reflexivity. Qed.

(* the builder already has the new name (its chunk came first): nothing happens *)
Lemma add_property_explicit_first :
  has_prop i nn = true -> add_property p i name (Some (nn, op)) v = i.
Proof. intros Hh. unfold add_property. fold (has_prop i nn). now rewrite Hh. Qed.

(* (6) the migration fails: the value is dropped without an error (log::warn! only) *)
Lemma add_property_failure_drops :
  migrate (dp_font p) (dp_brick p) op v = None -> add_property p i name (Some (nn, op)) v = i.
Proof. intros Hm. unfold add_property. rewrite Hm. destruct (existsb _ _); reflexivity. Qed.

(* a plain (non-migrating) chunk pushes its value under its canonical name *)
Lemma add_property_plain : add_property p i name None v = push_prop i name v.
Proof. reflexivity. Qed.

(* whatever happens, a migrating chunk adds at most the NEW name to the builder's keys *)
Lemma add_property_keys k :
  In k (List.map fst (di_props (add_property p i name (Some (nn, op)) v))) ->
  In k (List.map fst (di_props i)) \/ k = nn.
Proof.
  unfold add_property. destruct (existsb _ _); [now left|].
  destruct (migrate _ _ _ _); [|now left]. cbn [di_props]. rewrite map_app, in_app_iff. cbn [List.map fst In]. intuition.
Qed.
End AddProperty.

Lemma has_prop_push i k v : has_prop (push_prop i k v) k = true.
Proof.
  unfold has_prop, push_prop. cbn [di_props]. rewrite existsb_app. cbn [existsb fst]. rewrite mp_eqb_refl.
  now rewrite orb_true_r.
Qed.

(* the legacy name never becomes a key of the builder, nor of the property map `finish` collects from it *)
Theorem bin_read_legacy_name_never_a_key p i name nn op v legacy :
  legacy <> nn -> ~ In legacy (List.map fst (di_props i)) ->
  ~ In legacy (List.map fst (di_props (add_property p i name (Some (nn, op)) v))) /\
  bfind legacy (collect_props (di_props (add_property p i name (Some (nn, op)) v))) = None.
Proof.
  intros Hne Hni.
  assert (G : ~ In legacy (List.map fst (di_props (add_property p i name (Some (nn, op)) v)))).
  { intro H. apply add_property_keys in H. tauto. }
  split; [exact G|]. apply mp_bfind_none_keys. intro H. apply collect_props_keys in H. tauto.
Qed.

(* explicit wins in both chunk orders.  [legacy] = the legacy PROP chunk's value for this instance, [explicit] = the
   chunk of the new property itself (a plain chunk whose canonical name is the new name).  No hypothesis on the
   builder, on the migration succeeding, or on the values. *)
Theorem bin_read_explicit_wins_both_orders p i name nn op v ex :
  let legacy i := add_property p i name (Some (nn, op)) v in
  let explicit i := add_property p i nn None ex in
  legacy (explicit i) = explicit i /\
  bfind nn (collect_props (di_props (legacy (explicit i)))) = Some ex /\
  bfind nn (collect_props (di_props (explicit (legacy i)))) = Some ex.
Proof.
  intros legacy explicit. subst legacy explicit. cbv beta. rewrite !add_property_plain.
  assert (E : add_property p (push_prop i nn ex) name (Some (nn, op)) v = push_prop i nn ex)
    by (apply add_property_explicit_first, has_prop_push).
  split; [exact E|]. split.
  - rewrite E. unfold push_prop. cbn [di_props]. apply collect_props_last.
  - unfold push_prop. cbn [di_props]. apply collect_props_last.
Qed.

(* and in the legacy-first order the migrated value is indeed in the builder in between: it is REPLACED, not kept *)
Lemma bin_read_legacy_first_then_replaced p i name nn op v w ex :
  has_prop i nn = false -> migrate (dp_font p) (dp_brick p) op v = Some w ->
  di_props (add_property p (add_property p i name (Some (nn, op)) v) nn None ex) = di_props i ++ [(nn, w)] ++ [(nn, ex)].
Proof.
  intros Hh Hm. rewrite (add_property_migrates p i name nn op v w Hh Hm), add_property_plain.
  unfold push_prop. cbn [di_props]. now rewrite <- app_assoc.
Qed.

(* legacy value alone: the decoded property map has the new name with the migrated value *)
Theorem bin_read_legacy_alone p i name nn op v w :
  has_prop i nn = false -> migrate (dp_font p) (dp_brick p) op v = Some w ->
  di_props (add_property p i name (Some (nn, op)) v) = di_props i ++ [(nn, w)] /\
  bfind nn (collect_props (di_props (add_property p i name (Some (nn, op)) v))) = Some w.
Proof.
  intros Hh Hm. rewrite (add_property_migrates p i name nn op v w Hh Hm). unfold push_prop. cbn [di_props].
  split; [reflexivity|apply collect_props_last].
Qed.
End Bin.

(* =============================================================================================== XML *)
Module Xml.
Import XmlFile.

(* the values the four operations accept pass `try_convert` unchanged, whatever the target type *)
Lemma try_convert_legacy_id ft bt op v w o t : migrate ft bt op v = Some w -> try_convert o v t = Ok v.
Proof. unfold migrate. destruct op, v; try discriminate; reflexivity. Qed.

Lemma xbind_lift_ok {A C} (a : A) (f : A -> xrd C) s : xbind (xlift (Ok a)) f s = f a s.
Proof. reflexivity. Qed.
Lemma xbind_ok {A C} (p : xrd A) (f : A -> xrd C) s a s' : p s = Ok (a, s') -> xbind p f s = f a s'.
Proof. intro H. unfold xbind. now rewrite H. Qed.

Lemma S_bytes s : S_ (bytes_of_string s) = s.
Proof. apply mp_string_bytes. Qed.

(* ---------------------------------------------------------------- (2) XML read *)
Section Read.
Variables (e : xenv) (beh : dbehavior) (class : bytes) (inst_id : N) (ty pname : bytes).
Variables (pd ser : pdesc) (q : string) (op : migop).
Hypothesis Hbeh : beh <> DNoReflection.
Hypothesis Hlk : find_desc_xml (xe_db e) (S_ class) (S_ pname) = Ok (Some (pd, ser)).
Hypothesis Hk : pd_kind pd = KCanon (PMigrate q op).

(* the element is read, under the canonical (legacy) name as far as the rewrite queues are concerned, and converted *)
Variables (st st1 : dstate) (evs rest : list revent) (v0 v : value).
Hypothesis Hrd : read_prop_value e st ty inst_id (bytes_of_string (pd_name pd)) evs = Ok ((Some v0, st1), rest).
Hypothesis Hcv : try_convert (xe_o e) v0 (dtype_vt (pd_type pd)) = Ok v.

Lemma xml_read_step props :
  deserialize_property e beh class inst_id ty pname st props evs =
  match bfind (bytes_of_string q) props with
  | Some _ => Ok ((st1, props), rest)
  | None => match migrate (xe_font e) (xe_brick e) op v with
            | Some w => Ok ((st1, bupd (bytes_of_string q) w props), rest)
            | None => Err DE_MIGRATION
            end
  end.
Proof.
  unfold deserialize_property.
  assert (U : (if bytes_eqb pname (B "Name")
               then match beh with
                    | DNoReflection => Ok false
                    | _ => d <- find_desc_xml (xe_db e) (S_ class) (S_ pname) ;; Ok (match d with None => true | Some _ => false end)
                    end
               else Ok false) = Ok false).
  { destruct (bytes_eqb pname (B "Name")); [|reflexivity]. rewrite Hlk. destruct beh; reflexivity. }
  rewrite U.
  assert (L : match beh with DNoReflection => Ok None | _ => find_desc_xml (xe_db e) (S_ class) (S_ pname) end
              = Ok (Some (pd, ser))).
  { destruct beh; try exact Hlk. exfalso. now apply Hbeh. }
  rewrite xbind_lift_ok. cbv iota. rewrite L, xbind_lift_ok. cbv iota beta.
  rewrite (xbind_ok _ _ _ _ _ Hrd). cbv iota beta. rewrite Hcv, xbind_lift_ok. rewrite Hk.
  destruct (bfind (bytes_of_string q) props); [reflexivity|].
  destruct (migrate (xe_font e) (xe_brick e) op v); reflexivity.
Qed.

(* the new property is absent: it is inserted with the migrated value *)
Theorem xml_read_migrates props w :
  bfind (bytes_of_string q) props = None -> migrate (xe_font e) (xe_brick e) op v = Some w ->
  deserialize_property e beh class inst_id ty pname st props evs = Ok ((st1, bupd (bytes_of_string q) w props), rest).
Proof. intros Hn Hm. now rewrite xml_read_step, Hn, Hm. Qed.

(* the new property is present (its element came first): Entry::Occupied, the property map stays as it is *)
Theorem xml_read_explicit_first props x :
  bfind (bytes_of_string q) props = Some x ->
  deserialize_property e beh class inst_id ty pname st props evs = Ok ((st1, props), rest).
Proof. intros Hs. now rewrite xml_read_step, Hs. Qed.

(* (6) the migration fails and the new property is absent: the whole decode fails with MigrationError *)
Theorem xml_read_failure_is_an_error props :
  bfind (bytes_of_string q) props = None -> migrate (xe_font e) (xe_brick e) op v = None ->
  deserialize_property e beh class inst_id ty pname st props evs = Err DE_MIGRATION.
Proof. intros Hn Hm. now rewrite xml_read_step, Hn, Hm. Qed.

(* whatever the outcome, the legacy element adds at most the NEW name to the keys of the property map *)
Theorem xml_read_keys props st' props' rest' k :
  deserialize_property e beh class inst_id ty pname st props evs = Ok ((st', props'), rest') ->
  In k (List.map fst props') -> In k (List.map fst props) \/ k = bytes_of_string q.
Proof.
  rewrite xml_read_step. destruct (bfind (bytes_of_string q) props).
  - intros [= _ <- _] H. now left.
  - destruct (migrate _ _ _ _); [|discriminate]. intros [= _ <- _] H. apply mp_keys_bupd in H. tauto.
Qed.

Corollary xml_read_legacy_name_never_a_key props st' props' rest' legacy :
  legacy <> bytes_of_string q -> bfind legacy props = None ->
  deserialize_property e beh class inst_id ty pname st props evs = Ok ((st', props'), rest') ->
  bfind legacy props' = None.
Proof.
  intros Hne Hn H. apply mp_bfind_none_keys. intro Hin. apply (xml_read_keys _ _ _ _ _ H) in Hin.
  apply mp_bfind_none_keys in Hn. tauto.
Qed.
(* finding: for an unmigratable legacy value the outcome of the XML reader depends on the ORDER of the elements: after the
   explicit element the legacy one is skipped without being migrated; before it, it aborts the decode *)
Theorem xml_read_failure_depends_on_element_order_refuted props :
  migrate (xe_font e) (xe_brick e) op v = None ->
  (forall x, bfind (bytes_of_string q) props = Some x ->
             deserialize_property e beh class inst_id ty pname st props evs = Ok ((st1, props), rest)) /\
  (bfind (bytes_of_string q) props = None ->
   deserialize_property e beh class inst_id ty pname st props evs = Err DE_MIGRATION).
Proof.
  intro Hm. split; [intros x Hs; eapply xml_read_explicit_first; eauto|intro Hn; now apply xml_read_failure_is_an_error].
Qed.
End Read.

(* the element of a property that does not migrate: props.insert(canonical name, value) *)
Section ReadPlain.
Variables (e : xenv) (beh : dbehavior) (class : bytes) (inst_id : N) (ty pname : bytes).
Variables (qd qs : pdesc).
Hypothesis Hbeh : beh <> DNoReflection.
Hypothesis Hlk : find_desc_xml (xe_db e) (S_ class) (S_ pname) = Ok (Some (qd, qs)).
Hypothesis Hk : match pd_kind qd with KCanon (PMigrate _ _) => False | _ => True end.
Variables (st st1 : dstate) (evs rest : list revent) (x0 x : value).
Hypothesis Hrd : read_prop_value e st ty inst_id (bytes_of_string (pd_name qd)) evs = Ok ((Some x0, st1), rest).
Hypothesis Hcv : try_convert (xe_o e) x0 (dtype_vt (pd_type qd)) = Ok x.

Lemma xml_read_plain props :
  deserialize_property e beh class inst_id ty pname st props evs
  = Ok ((st1, bupd (bytes_of_string (pd_name qd)) x props), rest).
Proof.
  unfold deserialize_property.
  assert (U : (if bytes_eqb pname (B "Name")
               then match beh with
                    | DNoReflection => Ok false
                    | _ => d <- find_desc_xml (xe_db e) (S_ class) (S_ pname) ;; Ok (match d with None => true | Some _ => false end)
                    end
               else Ok false) = Ok false).
  { destruct (bytes_eqb pname (B "Name")); [|reflexivity]. rewrite Hlk. destruct beh; reflexivity. }
  rewrite U.
  assert (L : match beh with DNoReflection => Ok None | _ => find_desc_xml (xe_db e) (S_ class) (S_ pname) end
              = Ok (Some (qd, qs))).
  { destruct beh; try exact Hlk. exfalso. now apply Hbeh. }
  rewrite xbind_lift_ok. cbv iota. rewrite L, xbind_lift_ok. cbv iota beta.
  rewrite (xbind_ok _ _ _ _ _ Hrd). cbv iota beta. rewrite Hcv, xbind_lift_ok.
  destruct (pd_kind qd) as [[| | |to op]|t]; try reflexivity. destruct Hk.
Qed.
End ReadPlain.

(* explicit wins in both element orders *)
Theorem xml_read_explicit_then_legacy e beh class id props
  (* the explicit element of the new property *) tyq qname qd qs st evs x0 x st1 r1
  (* the legacy element *) ty pname pd ser q op v0 v st2 r2 :
  beh <> DNoReflection ->
  find_desc_xml (xe_db e) (S_ class) (S_ qname) = Ok (Some (qd, qs)) ->
  match pd_kind qd with KCanon (PMigrate _ _) => False | _ => True end ->
  pd_name qd = q ->
  read_prop_value e st tyq id (bytes_of_string (pd_name qd)) evs = Ok ((Some x0, st1), r1) ->
  try_convert (xe_o e) x0 (dtype_vt (pd_type qd)) = Ok x ->
  find_desc_xml (xe_db e) (S_ class) (S_ pname) = Ok (Some (pd, ser)) ->
  pd_kind pd = KCanon (PMigrate q op) ->
  read_prop_value e st1 ty id (bytes_of_string (pd_name pd)) r1 = Ok ((Some v0, st2), r2) ->
  try_convert (xe_o e) v0 (dtype_vt (pd_type pd)) = Ok v ->
  exists props1,
    deserialize_property e beh class id tyq qname st props evs = Ok ((st1, props1), r1) /\
    deserialize_property e beh class id ty pname st1 props1 r1 = Ok ((st2, props1), r2) /\
    bfind (bytes_of_string q) props1 = Some x.
Proof.
  intros Hb Hq Hkq Hn Hrq Hcq Hp Hkp Hrp Hcp.
  exists (bupd (bytes_of_string q) x props). split; [|split].
  - rewrite <- Hn. eapply xml_read_plain; eauto.
  - eapply xml_read_explicit_first; eauto. apply mp_bfind_bupd_same.
  - apply mp_bfind_bupd_same.
Qed.

Theorem xml_read_legacy_then_explicit e beh class id props
  (* the legacy element *) ty pname pd ser q op st evs v0 v st1 r1
  (* the explicit element of the new property *) tyq qname qd qs x0 x st2 r2 :
  beh <> DNoReflection ->
  find_desc_xml (xe_db e) (S_ class) (S_ pname) = Ok (Some (pd, ser)) ->
  pd_kind pd = KCanon (PMigrate q op) ->
  read_prop_value e st ty id (bytes_of_string (pd_name pd)) evs = Ok ((Some v0, st1), r1) ->
  try_convert (xe_o e) v0 (dtype_vt (pd_type pd)) = Ok v ->
  (bfind (bytes_of_string q) props <> None \/ migrate (xe_font e) (xe_brick e) op v <> None) ->
  find_desc_xml (xe_db e) (S_ class) (S_ qname) = Ok (Some (qd, qs)) ->
  match pd_kind qd with KCanon (PMigrate _ _) => False | _ => True end ->
  pd_name qd = q ->
  read_prop_value e st1 tyq id (bytes_of_string (pd_name qd)) r1 = Ok ((Some x0, st2), r2) ->
  try_convert (xe_o e) x0 (dtype_vt (pd_type qd)) = Ok x ->
  exists props1,
    deserialize_property e beh class id ty pname st props evs = Ok ((st1, props1), r1) /\
    deserialize_property e beh class id tyq qname st1 props1 r1 = Ok ((st2, bupd (bytes_of_string q) x props1), r2) /\
    bfind (bytes_of_string q) (bupd (bytes_of_string q) x props1) = Some x.
Proof.
  intros Hb Hp Hkp Hrp Hcp Hok Hq Hkq Hn Hrq Hcq.
  assert (S1 : exists props1, deserialize_property e beh class id ty pname st props evs = Ok ((st1, props1), r1)).
  { rewrite (xml_read_step e beh class id ty pname pd ser q op Hb Hp Hkp st st1 evs r1 v0 v Hrp Hcp).
    destruct (bfind (bytes_of_string q) props); [eauto|].
    destruct (migrate (xe_font e) (xe_brick e) op v); [eauto|]. destruct Hok as [H|H]; now elim H. }
  destruct S1 as [props1 S1]. exists props1. split; [exact S1|]. split; [|apply mp_bfind_bupd_same].
  rewrite <- Hn. eapply xml_read_plain; eauto.
Qed.

(* ---------------------------------------------------------------- (3) XML write *)
(* what `has_explicit_new_value` computes when no lookup panics: some OTHER key has the canonical descriptor name the
   migration target has *)
Definition canon_name_xml (d : db) (class : bytes) (k : string) : option string :=
  match find_desc_xml d (S_ class) k with Ok (Some (canon, _)) => Some (pd_name canon) | _ => None end.
Definition other_key_is (d : db) (class pname : bytes) (newc : string) (k : bytes) : bool :=
  negb (bytes_eqb k pname) &&
  match canon_name_xml d class (S_ k) with Some n => String.eqb n newc | None => false end.

Lemma has_other_key_for_spec e class pname newc keys :
  (forall k, In k keys -> exists r, find_desc_xml (xe_db e) (S_ class) (S_ k) = Ok r) ->
  has_other_key_for e class pname newc keys = Ok (existsb (other_key_is (xe_db e) class pname newc) keys).
Proof.
  induction keys as [|k r IH]; intro Ht; cbn [has_other_key_for existsb]; [reflexivity|].
  assert (Ht' : forall k, In k r -> exists x, find_desc_xml (xe_db e) (S_ class) (S_ k) = Ok x) by (intros; apply Ht; now right).
  specialize (IH Ht'). unfold other_key_is at 1, canon_name_xml.
  destruct (bytes_eqb k pname); cbn [negb andb orb]; [exact IH|].
  destruct (Ht k (or_introl eq_refl)) as [x Hx]. rewrite Hx. cbn [rbind].
  destruct x as [[canon s]|]; [|exact IH].
  destruct (String.eqb (pd_name canon) newc); [reflexivity|exact IH].
Qed.

Lemma has_explicit_new_value_spec e class pname q qd qs keys :
  find_desc_xml (xe_db e) (S_ class) q = Ok (Some (qd, qs)) ->
  (forall k, In k keys -> exists r, find_desc_xml (xe_db e) (S_ class) (S_ k) = Ok r) ->
  has_explicit_new_value e class pname q keys = Ok (existsb (other_key_is (xe_db e) class pname (pd_name qd)) keys).
Proof. intros Hq Ht. unfold has_explicit_new_value. rewrite Hq. cbn [rbind]. now apply has_other_key_for_spec. Qed.

(* the new name itself among the keys is an explicit new value *)
Lemma explicit_key_detected e class pname q qd qs keys :
  find_desc_xml (xe_db e) (S_ class) q = Ok (Some (qd, qs)) ->
  (forall k, In k keys -> exists r, find_desc_xml (xe_db e) (S_ class) (S_ k) = Ok r) ->
  In (bytes_of_string q) keys -> bytes_of_string q <> pname ->
  has_explicit_new_value e class pname q keys = Ok true.
Proof.
  intros Hq Ht Hin Hne. rewrite (has_explicit_new_value_spec _ _ _ _ _ _ _ Hq Ht). f_equal.
  apply existsb_exists. exists (bytes_of_string q). split; [exact Hin|].
  unfold other_key_is, canon_name_xml. rewrite (mp_eqb_neq _ _ Hne), S_bytes, Hq. cbn [negb andb]. apply String.eqb_refl.
Qed.

(* the legacy property is the only key: no explicit new value *)
Lemma sole_key_not_explicit e class pname q qd qs :
  find_desc_xml (xe_db e) (S_ class) q = Ok (Some (qd, qs)) ->
  has_explicit_new_value e class pname q [pname] = Ok false.
Proof.
  intros Hq. unfold has_explicit_new_value. rewrite Hq. cbn [rbind has_other_key_for]. now rewrite mp_eqb_refl.
Qed.

Section Write.
Variables (e : xenv) (beh : ebehavior) (class : bytes) (keys : list bytes) (st : estate) (pname : bytes) (v0 v : value).
Variables (cd ser : pdesc) (q : string) (op : migop).
Hypothesis Hbeh : beh <> ENoReflection.
Hypothesis Hlk : find_desc_xml (xe_db e) (S_ class) (S_ pname) = Ok (Some (cd, ser)).
Hypothesis Hk : pd_kind ser = KCanon (PMigrate q op).
Hypothesis Hcv : try_convert (xe_o e) v0 (dtype_vt (pd_type ser)) = Ok v.

Lemma xml_write_step :
  serialize_property e beh class keys st pname v0 =
  (explicit <- has_explicit_new_value e class pname q keys ;;
   if explicit : bool then Ok ([], st)
   else match migrate (xe_font e) (xe_brick e) op v with
        | Some w => write_value_xml e st (bytes_of_string q) w
        | None => write_value_xml e st (bytes_of_string (pd_name ser)) v
        end).
Proof.
  unfold serialize_property.
  assert (L : match beh with ENoReflection => Ok None | _ => find_desc_xml (xe_db e) (S_ class) (S_ pname) end
              = Ok (Some (cd, ser))).
  { destruct beh; try exact Hlk. exfalso. now apply Hbeh. }
  rewrite L. cbn [rbind]. cbv zeta. rewrite Hcv. cbn [rbind]. rewrite Hk. reflexivity.
Qed.

(* no explicit new value: the NEW name with the MIGRATED value is written *)
Theorem xml_write_migrates w :
  has_explicit_new_value e class pname q keys = Ok false -> migrate (xe_font e) (xe_brick e) op v = Some w ->
  serialize_property e beh class keys st pname v0 = write_value_xml e st (bytes_of_string q) w.
Proof. intros He Hm. rewrite xml_write_step, He. cbn [rbind]. now rewrite Hm. Qed.

(* an explicit new value: nothing is written for the legacy property, the emit state is untouched *)
Theorem xml_write_explicit_wins :
  has_explicit_new_value e class pname q keys = Ok true ->
  serialize_property e beh class keys st pname v0 = Ok ([], st).
Proof. intros He. rewrite xml_write_step, He. reflexivity. Qed.

(* (6) the migration fails: the LEGACY name with the LEGACY value is written *)
Theorem xml_write_failure_keeps_legacy :
  has_explicit_new_value e class pname q keys = Ok false -> migrate (xe_font e) (xe_brick e) op v = None ->
  serialize_property e beh class keys st pname v0 = write_value_xml e st (bytes_of_string (pd_name ser)) v.
Proof. intros He Hm. rewrite xml_write_step, He. cbn [rbind]. now rewrite Hm. Qed.
End Write.

(* every element write_value_xml produces carries the name it was given, and nothing else names a property *)
Lemma write_value_xml_name e st n v evs st' :
  write_value_xml e st n v = Ok (evs, st') -> exists tag body, evs = WStart tag [(B "name", n)] :: body.
Proof.
  unfold write_value_xml, name_attr. destruct v;
  try (destruct (write_xml (xe_o e) _) as [[tg rr]|]; [|discriminate];
       destruct rr as [evs0| |cc|]; cbn [rbind]; try discriminate; intros [= <- _]; eauto).
  - match goal with |- context [?r =? 0] => destruct (r =? 0); [intros [= <- _]; eauto|];
      destruct (map_id st r) as [id st1] end. intros [= <- _]. eauto.
  - match goal with |- context [xe_hash e ?s] => destruct (xe_hash e s) as [h|] end; cbn [ask rbind]; [|discriminate].
    intros [= <- _]. eauto.
Qed.
End Xml.

(* =============================================================================================== binary write *)
Module BinWrite.
Import BinFile.

Lemma bfind_binsert_same {V} k (x : V) l : bfind k l = None -> bfind k (binsert (k, x) l) = Some x.
Proof.
  induction l as [|[a y] l IH]; cbn [binsert bfind fst]; intro H.
  - now rewrite mp_eqb_refl.
  - destruct (bytes_eqb k a) eqn:E; [discriminate|].
    destruct (bytes_ltb a k); cbn [bfind]; [rewrite E; now apply IH|now rewrite mp_eqb_refl].
Qed.

Lemma bfind_bset_same {V} k (x : V) m : bfind k m <> None -> bfind k (bset k x m) = Some x.
Proof.
  induction m as [|[a y] m IH]; cbn [bset bfind]; intro H; [congruence|].
  destruct (bytes_eqb k a) eqn:E; cbn [bfind]; [now rewrite mp_eqb_refl|rewrite E; now apply IH].
Qed.

Lemma bfind_bset_other {V} k k' (x : V) m : bytes_eqb k k' = false -> bfind k (bset k' x m) = bfind k m.
Proof.
  intro Hn. induction m as [|[a y] m IH]; cbn [bset bfind]; [reflexivity|].
  destruct (bytes_eqb k' a) eqn:E; cbn [bfind].
  - apply mp_eqb_eq in E. subst a. now rewrite Hn.
  - destruct (bytes_eqb k a); [reflexivity|exact IH].
Qed.

(* ---------------------------------------------------------------- (4) binary write: collect_type_info *)
Section Resolve.
Variables (d : db) (class pname : bytes) (cd sd : pdesc) (q : string) (op : migop).
Hypothesis Hlk : find_desc_bin d (string_of_bytes class) (string_of_bytes pname) = Ok (Some (cd, Some sd)).
Hypothesis Hk : pd_kind sd = KCanon (PMigrate q op).

(* the legacy property is filed under the column of the property it migrates to, with the operation *)
Lemma bin_write_resolves qd qs pvalue :
  find_desc_bin d (string_of_bytes class) q = Ok (Some (qd, Some qs)) ->
  resolve_prop d class pname pvalue
  = Ok (RProp (bstr (pd_name qd)) (bstr (pd_name qs)) (dtype_vt (pd_type qs)) (Some op)).
Proof. intro Hq. unfold resolve_prop. rewrite Hlk. cbn [rbind]. rewrite Hk, Hq. reflexivity. Qed.

(* remark: when the target does not resolve to a serializing property the legacy value is skipped, silently *)
Lemma bin_write_target_missing pvalue r2 :
  find_desc_bin d (string_of_bytes class) q = Ok r2 ->
  match r2 with Some (_, Some _) => False | _ => True end ->
  resolve_prop d class pname pvalue = Ok RSkip.
Proof.
  intros Hq Hs. unfold resolve_prop. rewrite Hlk. cbn [rbind]. rewrite Hk, Hq. cbn [rbind].
  destruct r2 as [[c2 [s2|]]|]; [destruct Hs|reflexivity|reflexivity].
Qed.

Variables (qd qs : pdesc).
Hypothesis Hq : find_desc_bin d (string_of_bytes class) q = Ok (Some (qd, Some qs)).
Let canonical := bstr (pd_name qd).
Let serialized := bstr (pd_name qs).
Let ser_ty := dtype_vt (pd_type qs).

Variables (ss : list bytes) (ti : type_info) (pvalue : value).
Hypothesis Hnv : bmem pname (ti_visited ti) = false.
Hypothesis Hne : bytes_eqb pname canonical = false.

(* first sight of the column: it is created with the target's serialized name, wire type and default, the migration
   operation, and the legacy name as its only alias *)
Theorem cti_prop_legacy_creates_column dbdef dv wt :
  bfind canonical (ti_props ti) = None ->
  match ti_class ti with Some c => find_default d c (string_of_bytes canonical) | None => Ok None end = Ok dbdef ->
  match dbdef with Some x => Some x | None => fallback_default_value ser_ty end = Some dv ->
  from_rbx_type ser_ty = Some wt ->
  let props' := bset canonical (mkPI wt serialized [pname] dv (Some op))
                     (binsert (canonical, mkPI wt serialized [] dv (Some op)) (ti_props ti)) in
  cti_prop d class (ss, ti) (pname, pvalue)
  = Ok (track_sstr dv (track_sstr pvalue ss),
        mkTI (ti_id ti) (ti_service ti) (ti_instances ti) props' (ti_class ti) (pname :: ti_visited ti)) /\
  bfind canonical props' = Some (mkPI wt serialized [pname] dv (Some op)).
Proof.
  intros Hnone Hdef Hdv Hwt props'. split.
  - unfold cti_prop. rewrite Hnv. rewrite (bin_write_resolves qd qs pvalue Hq). cbn [rbind].
    cbn [ti_props ti_class ti_id ti_service ti_instances ti_visited].
    fold canonical serialized ser_ty. rewrite Hnone, Hdef. cbn [rbind]. rewrite Hdv, Hwt. cbn [rbind].
    rewrite Hne. cbn [ti_props ti_class ti_id ti_service ti_instances ti_visited].
    rewrite (bfind_binsert_same canonical _ _ Hnone). cbn [pi_aliases pi_type pi_ser_name pi_default pi_migration bmem existsb].
    reflexivity.
  - subst props'. apply bfind_bset_same. rewrite (bfind_binsert_same canonical _ _ Hnone). discriminate.
Qed.

(* the column exists already (the new property itself, or another legacy spelling, was seen before): the legacy name is
   added to its aliases and the migration operation is SET on it; type, serialized name and default stay *)
Theorem cti_prop_legacy_updates_column pi :
  bfind canonical (ti_props ti) = Some pi ->
  let pi' := mkPI (pi_type pi) (pi_ser_name pi)
                  (if bmem pname (pi_aliases pi) then pi_aliases pi else pi_aliases pi ++ [pname])
                  (pi_default pi) (Some op) in
  cti_prop d class (ss, ti) (pname, pvalue)
  = Ok (track_sstr pvalue ss,
        mkTI (ti_id ti) (ti_service ti) (ti_instances ti) (bset canonical pi' (ti_props ti)) (ti_class ti) (pname :: ti_visited ti)) /\
  bfind canonical (bset canonical pi' (ti_props ti)) = Some pi'.
Proof.
  intros Hsome pi'. split.
  - unfold cti_prop. rewrite Hnv. rewrite (bin_write_resolves qd qs pvalue Hq). cbn [rbind].
    cbn [ti_props ti_class ti_id ti_service ti_instances ti_visited].
    fold canonical. rewrite Hsome. cbn [rbind]. rewrite Hne.
    cbn [ti_props ti_class ti_id ti_service ti_instances ti_visited]. rewrite Hsome. reflexivity.
  - apply bfind_bset_same. rewrite Hsome. discriminate.
Qed.
End Resolve.

(* the new property itself, visited when its column exists already (created by a legacy spelling, migration operation
   set): the column is left as it is; the operation stays on it *)
Theorem cti_prop_explicit_keeps_column d class qname qd qs ss ti ex pi :
  find_desc_bin d (string_of_bytes class) (string_of_bytes qname) = Ok (Some (qd, Some qs)) ->
  match pd_kind qs with KCanon (PMigrate _ _) => False | _ => True end ->
  qname = bstr (pd_name qd) ->
  bmem qname (ti_visited ti) = false ->
  bfind qname (ti_props ti) = Some pi ->
  cti_prop d class (ss, ti) (qname, ex)
  = Ok (track_sstr ex ss,
        mkTI (ti_id ti) (ti_service ti) (ti_instances ti) (ti_props ti) (ti_class ti) (qname :: ti_visited ti)).
Proof.
  intros Hl Hk Hn Hv Hc. unfold cti_prop. rewrite Hv. unfold resolve_prop. rewrite Hl. cbn [rbind].
  assert (R : match pd_kind qs with
              | KCanon (PMigrate to op) =>
                  r2 <- find_desc_bin d (string_of_bytes class) to ;;
                  match r2 with
                  | Some (c2, Some s2) => Ok (RProp (bstr (pd_name c2)) (bstr (pd_name s2)) (dtype_vt (pd_type s2)) (Some op))
                  | _ => Ok RSkip
                  end
              | _ => Ok (RProp (bstr (pd_name qd)) (bstr (pd_name qs)) (dtype_vt (pd_type qs)) None)
              end = Ok (RProp qname (bstr (pd_name qs)) (dtype_vt (pd_type qs)) None)).
  { rewrite <- Hn. destruct (pd_kind qs) as [[| | |t o]|]; try reflexivity. destruct Hk. }
  rewrite R. cbn [rbind]. cbn [ti_props ti_class ti_id ti_service ti_instances ti_visited].
  rewrite Hc. cbn [rbind]. now rewrite mp_eqb_refl.
Qed.

(* ---------------------------------------------------------------- (4) binary write: the column values *)
Section PropValue.
Variables (p : enc_params) (canon : bytes) (pi : prop_info) (ord : list bytes) (i : inst) (op : migop).
Hypothesis Hname : bytes_eqb canon NAME = false.
Hypothesis Hmig : pi_migration pi = Some op.

Definition carried (i : inst) (a : bytes) : bool := match bfind a (i_props i) with Some _ => true | None => false end.

(* an instance carrying only a legacy spelling: the column gets the migrated value *)
Theorem prop_value_legacy_migrated a v w :
  bfind canon (i_props i) = None -> find (carried i) ord = Some a -> bfind a (i_props i) = Some v ->
  migrate (ep_font p) (ep_brick p) op v = Some w ->
  prop_value p canon pi ord i = w.
Proof.
  intros Hc Hf Ha Hm. unfold prop_value. rewrite Hname, Hc. fold (carried i). rewrite Hf, Ha, Hmig, Hm. reflexivity.
Qed.

(* (6) ... and when the migration fails the column gets the RAW legacy value (`Err(_) => value`) *)
Theorem prop_value_legacy_failure_keeps_raw a v :
  bfind canon (i_props i) = None -> find (carried i) ord = Some a -> bfind a (i_props i) = Some v ->
  migrate (ep_font p) (ep_brick p) op v = None ->
  prop_value p canon pi ord i = v.
Proof.
  intros Hc Hf Ha Hm. unfold prop_value. rewrite Hname, Hc. fold (carried i). rewrite Hf, Ha, Hmig, Hm. reflexivity.
Qed.

(* an instance carrying the new property explicitly: its value is found first (whatever legacy spellings the
   instance carries besides), the migration is attempted on it, fails, and the value is written as it is *)
Theorem prop_value_explicit_wins ex :
  bfind canon (i_props i) = Some ex -> migrate (ep_font p) (ep_brick p) op ex = None ->
  prop_value p canon pi ord i = ex.
Proof. intros Hc Hm. unfold prop_value. rewrite Hname, Hc, Hmig, Hm. reflexivity. Qed.

Corollary prop_value_explicit_wins_typed ex :
  bfind canon (i_props i) = Some ex -> vtype ex = mig_out_type op ->
  prop_value p canon pi ord i = ex.
Proof. intros Hc Ht. apply prop_value_explicit_wins; [exact Hc|]. now apply migrate_none_on_new_type. Qed.

(* an instance carrying neither: the default of the new property, as it is, when it has the new type *)
Theorem prop_value_default_untouched :
  bfind canon (i_props i) = None -> find (carried i) ord = None -> vtype (pi_default pi) = mig_out_type op ->
  prop_value p canon pi ord i = pi_default pi.
Proof.
  intros Hc Hf Ht. unfold prop_value. rewrite Hname, Hc. fold (carried i). rewrite Hf, Hmig.
  now rewrite (migrate_none_on_new_type _ _ _ _ Ht).
Qed.
End PropValue.

(* the common case: the legacy name is the column's only alias *)
Corollary prop_value_sole_alias p canon pi i op pname v w :
  bytes_eqb canon NAME = false -> pi_migration pi = Some op ->
  bfind canon (i_props i) = None -> bfind pname (i_props i) = Some v ->
  migrate (ep_font p) (ep_brick p) op v = Some w ->
  prop_value p canon pi [pname] i = w.
Proof.
  intros Hn Hm Hc Ha Hw. eapply prop_value_legacy_migrated; eauto.
  cbn [find]. unfold carried. now rewrite Ha.
Qed.
End BinWrite.

(* =============================================================================================== (5), (6) *)
(* The four statements, for a database [d], migration tables [ft] [bt], a class and a legacy property name (as the
   byte strings the codecs hold), the legacy descriptor [pd], the new name [q] with its serialized descriptor [qs],
   a legacy value [v] and a value [w].  Every path delivers the pair (q, w). *)
Definition bin_read_delivers d ft bt class pname (q : string) (v w : value) : Prop :=
  forall infl uid lim ty i, Bin.has_prop i (bytes_of_string q) = false ->
  exists name cty mg,
    BinFile.find_canonical_property d ty class pname = Ok (Some (name, cty, mg)) /\
    BinFile.add_property (BinFile.mkDP ft bt infl uid lim) i name mg v = Bin.push_prop i (bytes_of_string q) w.

Definition xml_read_delivers d ft bt class pname (pd : pdesc) (q : string) (v w : value) : Prop :=
  forall o h beh id ty st st1 evs rest props, beh <> XmlFile.DNoReflection ->
  let e := XmlFile.mkXE d ft bt o h in
  XmlFile.read_prop_value e st ty id (bytes_of_string (pd_name pd)) evs = Ok ((Some v, st1), rest) ->
  bfind (bytes_of_string q) props = None ->
  XmlFile.deserialize_property e beh class id ty pname st props evs = Ok ((st1, bupd (bytes_of_string q) w props), rest).

Definition xml_write_delivers d ft bt class pname (q : string) (v w : value) : Prop :=
  forall o h beh keys st, beh <> XmlFile.ENoReflection ->
  let e := XmlFile.mkXE d ft bt o h in
  XmlFile.has_explicit_new_value e class pname q keys = Ok false ->
  XmlFile.serialize_property e beh class keys st pname v = XmlFile.write_value_xml e st (bytes_of_string q) w.

Definition bin_write_delivers d ft bt class pname (q : string) (op : migop) (qs : pdesc) (v w : value) : Prop :=
  (forall pvalue, BinFile.resolve_prop d class pname pvalue
                  = Ok (BinFile.RProp (bytes_of_string q) (bytes_of_string (pd_name qs)) (BinFile.dtype_vt (pd_type qs)) (Some op))) /\
  (forall quant order hash pi ord i a,
     bytes_eqb (bytes_of_string q) BinFile.NAME = false -> BinFile.pi_migration pi = Some op ->
     bfind (bytes_of_string q) (i_props i) = None ->
     find (BinWrite.carried i) ord = Some a -> bfind a (i_props i) = Some v ->
     BinFile.prop_value (BinFile.mkEP ft bt quant order hash) (bytes_of_string q) pi ord i = w).

Section Agree.
Variables (d : db) (ft : font_table) (bt : brick_table).
Variables (class pname : bytes) (pd : pdesc) (q : string) (op : migop) (qd qs : pdesc).
Hypothesis Hp : find_desc_bin d (string_of_bytes class) (string_of_bytes pname) = Ok (Some (pd, Some pd)).
Hypothesis Hk : pd_kind pd = KCanon (PMigrate q op).
Hypothesis Hq : find_desc_bin d (string_of_bytes class) q = Ok (Some (qd, Some qs)).
Hypothesis Hqn : pd_name qd = q.

Let Hp_xml : find_desc_xml d (string_of_bytes class) (string_of_bytes pname) = Ok (Some (pd, pd)) := bin_lookup_gives_xml _ _ _ _ _ Hp.
Let Hq_xml : find_desc_xml d (string_of_bytes class) q = Ok (Some (qd, qs)) := bin_lookup_gives_xml _ _ _ _ _ Hq.

(* (5) the migration succeeds: all four paths deliver the same new name with the same value *)
Theorem migrate_paths_agree v w :
  migrate ft bt op v = Some w ->
  bin_read_delivers d ft bt class pname q v w /\
  xml_read_delivers d ft bt class pname pd q v w /\
  xml_write_delivers d ft bt class pname q v w /\
  bin_write_delivers d ft bt class pname q op qs v w.
Proof.
  intro Hm. split; [|split; [|split]].
  - intros infl uid lim ty i Hh. do 3 eexists. split.
    + eapply Bin.bin_read_finds_migration; eauto.
    + apply Bin.add_property_migrates; [exact Hh|exact Hm].
  - intros o h beh id ty st st1 evs rest props Hb e Hrd Hn.
    eapply (Xml.xml_read_migrates e beh class id ty pname pd pd q op Hb); eauto.
    eapply Xml.try_convert_legacy_id; eauto.
  - intros o h beh keys st Hb e He.
    eapply (Xml.xml_write_migrates e beh class keys st pname v v pd pd q op Hb); eauto.
    eapply Xml.try_convert_legacy_id; eauto.
  - split.
    + intro pvalue. rewrite (BinWrite.bin_write_resolves d class pname pd pd q op Hp Hk qd qs pvalue Hq).
      unfold BinFile.bstr. now rewrite Hqn.
    + intros quant order hash pi ord i a Hn Hmg Hc Hf Ha.
      eapply BinWrite.prop_value_legacy_migrated; eauto.
Qed.

(* the value is unique: two paths cannot deliver different values *)
Corollary migrate_paths_value_unique v w w' :
  migrate ft bt op v = Some w -> migrate ft bt op v = Some w' -> w = w'.
Proof. congruence. Qed.

(* explicit new value: all four paths keep it.  Binary read and XML read: the new name is already there, nothing
   changes; XML write: nothing is written for the legacy property; binary write: the column value of the instance is
   the explicit one although the column carries the migration operation. *)
Theorem migrate_paths_explicit_wins v :
  (forall infl uid lim ty i, Bin.has_prop i (bytes_of_string q) = true ->
     exists name cty mg,
       BinFile.find_canonical_property d ty class pname = Ok (Some (name, cty, mg)) /\
       BinFile.add_property (BinFile.mkDP ft bt infl uid lim) i name mg v = i) /\
  (forall o h beh id ty st st1 evs rest props x v0, beh <> XmlFile.DNoReflection ->
     let e := XmlFile.mkXE d ft bt o h in
     XmlFile.read_prop_value e st ty id (bytes_of_string (pd_name pd)) evs = Ok ((Some v0, st1), rest) ->
     XmlValues.try_convert o v0 (XmlFile.dtype_vt (pd_type pd)) = Ok v ->
     bfind (bytes_of_string q) props = Some x ->
     XmlFile.deserialize_property e beh class id ty pname st props evs = Ok ((st1, props), rest)) /\
  (forall o h beh keys st v0, beh <> XmlFile.ENoReflection ->
     let e := XmlFile.mkXE d ft bt o h in
     XmlValues.try_convert o v0 (XmlFile.dtype_vt (pd_type pd)) = Ok v ->
     XmlFile.has_explicit_new_value e class pname q keys = Ok true ->
     XmlFile.serialize_property e beh class keys st pname v0 = Ok ([], st)) /\
  (forall quant order hash pi ord i ex,
     bytes_eqb (bytes_of_string q) BinFile.NAME = false -> BinFile.pi_migration pi = Some op ->
     bfind (bytes_of_string q) (i_props i) = Some ex -> vtype ex = mig_out_type op ->
     BinFile.prop_value (BinFile.mkEP ft bt quant order hash) (bytes_of_string q) pi ord i = ex).
Proof.
  split; [|split; [|split]].
  - intros infl uid lim ty i Hh. do 3 eexists. split.
    + eapply Bin.bin_read_finds_migration; eauto.
    + now apply Bin.add_property_explicit_first.
  - intros o h beh id ty st st1 evs rest props x v0 Hb e Hrd Hcv Hs.
    eapply (Xml.xml_read_explicit_first e beh class id ty pname pd pd q op Hb); eauto.
  - intros o h beh keys st v0 Hb e Hcv He.
    eapply (Xml.xml_write_explicit_wins e beh class keys st pname v0 v pd pd q op Hb); eauto.
  - intros quant order hash pi ord i ex Hn Hmg Hc Ht.
    eapply BinWrite.prop_value_explicit_wins_typed; eauto.
Qed.

(* (6) the migration FAILS: the four paths disagree.
     binary read   the property is dropped, the decode goes on
     XML read      the decode fails with MigrationError
     XML write     the legacy name is written with the legacy value
     binary write  the raw legacy value is put into the column of the new property *)
Theorem migrate_failure_paths_disagree_refuted v :
  migrate ft bt op v = None ->
  (forall infl uid lim ty i,
     exists name cty mg,
       BinFile.find_canonical_property d ty class pname = Ok (Some (name, cty, mg)) /\
       BinFile.add_property (BinFile.mkDP ft bt infl uid lim) i name mg v = i) /\
  (forall o h beh id ty st st1 evs rest props v0, beh <> XmlFile.DNoReflection ->
     let e := XmlFile.mkXE d ft bt o h in
     XmlFile.read_prop_value e st ty id (bytes_of_string (pd_name pd)) evs = Ok ((Some v0, st1), rest) ->
     XmlValues.try_convert o v0 (XmlFile.dtype_vt (pd_type pd)) = Ok v ->
     bfind (bytes_of_string q) props = None ->
     XmlFile.deserialize_property e beh class id ty pname st props evs = Err XmlValues.DE_MIGRATION) /\
  (forall o h beh keys st v0, beh <> XmlFile.ENoReflection ->
     let e := XmlFile.mkXE d ft bt o h in
     XmlValues.try_convert o v0 (XmlFile.dtype_vt (pd_type pd)) = Ok v ->
     XmlFile.has_explicit_new_value e class pname q keys = Ok false ->
     XmlFile.serialize_property e beh class keys st pname v0
     = XmlFile.write_value_xml e st (bytes_of_string (pd_name pd)) v) /\
  (forall quant order hash pi ord i a,
     bytes_eqb (bytes_of_string q) BinFile.NAME = false -> BinFile.pi_migration pi = Some op ->
     bfind (bytes_of_string q) (i_props i) = None ->
     find (BinWrite.carried i) ord = Some a -> bfind a (i_props i) = Some v ->
     BinFile.prop_value (BinFile.mkEP ft bt quant order hash) (bytes_of_string q) pi ord i = v).
Proof.
  intro Hm. split; [|split; [|split]].
  - intros infl uid lim ty i. do 3 eexists. split.
    + eapply Bin.bin_read_finds_migration; eauto.
    + now apply Bin.add_property_failure_drops.
  - intros o h beh id ty st st1 evs rest props v0 Hb e Hrd Hcv Hn.
    eapply (Xml.xml_read_failure_is_an_error e beh class id ty pname pd pd q op Hb); eauto.
  - intros o h beh keys st v0 Hb e Hcv He.
    eapply (Xml.xml_write_failure_keeps_legacy e beh class keys st pname v0 v pd pd q op Hb); eauto.
  - intros quant order hash pi ord i a Hn Hmg Hc Hf Ha.
    eapply BinWrite.prop_value_legacy_failure_keeps_raw; eauto.
Qed.
End Agree.

(* ... and a raw legacy value in the column of the new property's wire type is a PropTypeMismatch for the whole file:
   the value that could not be migrated makes the binary encoder fail *)
Lemma raw_legacy_value_in_new_column op v wt ctx vs :
  vtype v = mig_in_type op -> BinValues.from_rbx_type (mig_out_type op) = Some wt ->
  BinValues.enc_col wt ctx (v :: vs) = Err BinValues.EE_TYPE_MISMATCH.
Proof.
  intros Hv Hw. destruct op; cbn in Hw; injection Hw as <-; destruct v; try discriminate Hv; reflexivity.
Qed.

(* =============================================================================================== instances *)
(* the executable form of the hypotheses of Section Agree, for a database, a class name and a legacy property name *)
Definition migop_eqb (a b : migop) : bool :=
  match a, b with
  | MigInset, MigInset | MigFont, MigFont | MigBrick, MigBrick | MigContent, MigContent => true
  | _, _ => false
  end.
Definition plain_kind (k : pkind) : bool :=
  match k with KCanon PSerializes | KCanon (PSerAs _) => true | _ => false end.
Definition target_ok (d : db) (c p q : string) : bool :=
  match find_desc_bin d c q with
  | Ok (Some (qd, Some qs)) => String.eqb (pd_name qd) q && plain_kind (pd_kind qd) && negb (String.eqb p q)
  | _ => false
  end.
Definition entry_ok (d : db) (m : string * string * string * migop) : bool :=
  let '(c, p, q, op) := m in
  match find_desc_bin d c p with
  | Ok (Some (pd, _)) =>
      match pd_kind pd with
      | KCanon (PMigrate q' op') => String.eqb q' q && migop_eqb op' op && String.eqb (pd_name pd) p && target_ok d c p q
      | _ => false
      end
  | _ => false
  end.
(* the same for whatever the lookup of [p] finds in class [c] (inherited descriptors included) *)
Definition class_entry_ok (d : db) (c p : string) : bool :=
  match find_desc_bin d c p with
  | Ok (Some (pd, _)) =>
      match pd_kind pd with
      | KCanon (PMigrate q _) => target_ok d c p q
      | _ => true
      end
  | Ok None => true
  | _ => false
  end.

Record mig_hyps (d : db) (c p : string) (pd : pdesc) (q : string) (op : migop) (qd qs : pdesc) : Prop := mkMH {
  mh_legacy : find_desc_bin d c p = Ok (Some (pd, Some pd));
  mh_kind : pd_kind pd = KCanon (PMigrate q op);
  mh_target : find_desc_bin d c q = Ok (Some (qd, Some qs));
  mh_target_name : pd_name qd = q;
  mh_target_plain : match pd_kind qd with KCanon (PMigrate _ _) => False | _ => True end;
  mh_names_differ : p <> q
}.

Lemma migop_eqb_eq a b : migop_eqb a b = true -> a = b.
Proof. destruct a, b; (reflexivity || discriminate). Qed.

Lemma target_ok_sound d c p q : target_ok d c p q = true ->
  exists qd qs, find_desc_bin d c q = Ok (Some (qd, Some qs)) /\ pd_name qd = q /\
                match pd_kind qd with KCanon (PMigrate _ _) => False | _ => True end /\ p <> q.
Proof.
  unfold target_ok. destruct (find_desc_bin d c q) as [[[qd [qs|]]|]| | |]; try discriminate.
  intro H. apply andb_true_iff in H. destruct H as [H H3]. apply andb_true_iff in H. destruct H as [H1 H2].
  exists qd, qs. split; [reflexivity|]. split; [now apply String.eqb_eq|]. split.
  - destruct (pd_kind qd) as [[| | |t o]|]; try exact I. discriminate.
  - intro E. subst. rewrite String.eqb_refl in H3. discriminate.
Qed.

Lemma class_entry_ok_sound d c p pd ser q op :
  class_entry_ok d c p = true -> find_desc_bin d c p = Ok (Some (pd, ser)) -> pd_kind pd = KCanon (PMigrate q op) ->
  exists qd qs, mig_hyps d c p pd q op qd qs.
Proof.
  intros H Hl Hk. unfold class_entry_ok in H. rewrite Hl, Hk in H.
  destruct (target_ok_sound _ _ _ _ H) as [qd [qs [H1 [H2 [H3 H4]]]]]. exists qd, qs.
  pose proof (migrating_lookup_shape_bin _ _ _ _ _ _ _ Hl Hk) as ->. now constructor.
Qed.

Lemma entry_ok_sound d c p q op : entry_ok d (c, p, q, op) = true ->
  exists pd qd qs, pd_name pd = p /\ mig_hyps d c p pd q op qd qs.
Proof.
  unfold entry_ok. destruct (find_desc_bin d c p) as [[[pd ser]|]| | |] eqn:Hl; try discriminate.
  destruct (pd_kind pd) as [[| | |q' op']|] eqn:Hk; try discriminate.
  intro H. apply andb_true_iff in H. destruct H as [H H4]. apply andb_true_iff in H. destruct H as [H H3].
  apply andb_true_iff in H. destruct H as [H1 H2].
  apply String.eqb_eq in H1. apply migop_eqb_eq in H2. apply String.eqb_eq in H3. subst q' op'.
  destruct (target_ok_sound _ _ _ _ H4) as [qd [qs [G1 [G2 [G3 G4]]]]]. exists pd, qd, qs. split; [exact H3|].
  pose proof (migrating_lookup_shape_bin _ _ _ _ _ _ _ Hl Hk) as ->. now constructor.
Qed.

(* the conclusions of (5), (explicit wins) and (6) for names given as strings *)
Theorem mig_hyps_paths_agree d ft bt c p pd q op qd qs v w :
  mig_hyps d c p pd q op qd qs -> migrate ft bt op v = Some w ->
  let class := bytes_of_string c in let pname := bytes_of_string p in
  bin_read_delivers d ft bt class pname q v w /\
  xml_read_delivers d ft bt class pname pd q v w /\
  xml_write_delivers d ft bt class pname q v w /\
  bin_write_delivers d ft bt class pname q op qs v w.
Proof.
  intros [H1 H2 H3 H4 H5 H6] Hm class pname.
  apply (migrate_paths_agree d ft bt class pname pd q op qd qs); auto; unfold class, pname; now rewrite !mp_string_bytes.
Qed.

(* ---- a small database (Proofs/DbFacts.v Mutants): Part.BrickColor migrates to Color, which serializes as
   Color3uint8; the hypotheses are satisfiable and the four statements hold of it *)
Module Sample.
Import DbFacts.Mutants.
Open Scope string_scope.
Definition sdb : db := mk good_props good_defaults.
Definition sbt : brick_table := [(194, (163, 162, 165))]%N.

Example sample_entry_ok : entry_ok sdb ("Part", "BrickColor", "Color", MigBrick) = true.
Proof. vm_compute. reflexivity. Qed.

Example sample_hyps : exists pd qd qs, pd_name qs = "Color3uint8" /\ mig_hyps sdb "Part" "BrickColor" pd "Color" MigBrick qd qs.
Proof.
  exists (P "BrickColor" (DValue 3) (KCanon (PMigrate "Color" MigBrick))),
         (P "Color" (DValue 5) (KCanon (PSerAs "Color3uint8"))), (P "Color3uint8" (DValue 6) (KAlias "Color")).
  split; [reflexivity|]. constructor; try reflexivity; try exact I; try discriminate.
Qed.

Example sample_paths_agree :
  exists pd qs,
  bin_read_delivers sdb [] sbt (bytes_of_string "Part") (bytes_of_string "BrickColor") "Color" (VBrickColor 194) (VColor3uint8 163 162 165) /\
  xml_read_delivers sdb [] sbt (bytes_of_string "Part") (bytes_of_string "BrickColor") pd "Color" (VBrickColor 194) (VColor3uint8 163 162 165) /\
  xml_write_delivers sdb [] sbt (bytes_of_string "Part") (bytes_of_string "BrickColor") "Color" (VBrickColor 194) (VColor3uint8 163 162 165) /\
  bin_write_delivers sdb [] sbt (bytes_of_string "Part") (bytes_of_string "BrickColor") "Color" MigBrick qs (VBrickColor 194) (VColor3uint8 163 162 165).
Proof.
  destruct sample_hyps as [pd [qd [qs [_ H]]]]. exists pd, qs.
  exact (mig_hyps_paths_agree sdb [] sbt "Part" "BrickColor" pd "Color" MigBrick qd qs
           (VBrickColor 194) (VColor3uint8 163 162 165) H eq_refl).
Qed.

(* the failure side is not vacuous either: BrickColor 5 is not in this table *)
Example sample_failure : migrate [] sbt MigBrick (VBrickColor 5) = None.
Proof. reflexivity. Qed.
End Sample.

(* ---- the bundled database (Gen/Database.v) with the regenerated migration tables (Gen/MigrationTables.v) *)
Module Bundled.
Import MigrationTables Database MigrateFacts.
Open Scope string_scope.

(* each of the 12 Migrate descriptors satisfies the hypotheses of Section Agree *)
Theorem bundled_entries_ok : forallb (entry_ok database) bundled_migrations = true.
Proof. vm_cast_no_check (eq_refl true). Qed.

Definition bundled_legacy_names : list string :=
  List.map (fun m : string * string * string * migop => snd (fst (fst m))) bundled_migrations.

(* ... and so does whatever the lookup of one of the legacy names finds in ANY of the 797 classes (the descriptors are
   declared on BasePart, TextLabel, ... and inherited by Part, ...) *)
Theorem bundled_classes_ok :
  forallb (fun c => forallb (class_entry_ok database (cd_name c)) bundled_legacy_names) (db_classes database) = true.
Proof. vm_cast_no_check (eq_refl true). Qed.

(* no alias of the bundled database leads to a migrating property: the legacy names are reached by their own spelling only *)
Theorem bundled_no_alias_of_migrating :
  flat_map (fun c => flat_map (fun p => match pd_kind p with
                                         | KAlias t => match find_prop (cd_props c) t with
                                                       | Some tp => match pd_kind tp with
                                                                    | KCanon (PMigrate _ _) => [(cd_name c, pd_name p, t)]
                                                                    | _ => [] end
                                                       | None => [] end
                                         | _ => [] end) (cd_props c)) (db_classes database) = [].
Proof. vm_cast_no_check (eq_refl (@nil (string * string * string))). Qed.

Theorem bundled_mig_hyps c p q op :
  In (c, p, q, op) bundled_migrations ->
  exists pd qd qs, pd_name pd = p /\ mig_hyps database c p pd q op qd qs.
Proof.
  intro Hin. pose proof bundled_entries_ok as H. rewrite forallb_forall in H. exact (entry_ok_sound _ _ _ _ _ (H _ Hin)).
Qed.

Theorem bundled_mig_hyps_inherited c p pd ser q op :
  In c (db_classes database) -> In p bundled_legacy_names ->
  find_desc_bin database (cd_name c) p = Ok (Some (pd, ser)) -> pd_kind pd = KCanon (PMigrate q op) ->
  exists qd qs, mig_hyps database (cd_name c) p pd q op qd qs.
Proof.
  intros Hc Hp Hl Hk. pose proof bundled_classes_ok as H. rewrite forallb_forall in H. specialize (H c Hc).
  rewrite forallb_forall in H. exact (class_entry_ok_sound _ _ _ _ _ _ _ (H p Hp) Hl Hk).
Qed.

(* (5) on the bundled database: for each of the 12 entries and every migratable legacy value, the four paths deliver
   the same (new name, value) *)
Theorem bundled_migrate_paths_agree c p q op v w :
  In (c, p, q, op) bundled_migrations -> mig op v = Some w ->
  exists pd qs,
    pd_name pd = p /\
    bin_read_delivers database font_migration_table brick_color_table (bytes_of_string c) (bytes_of_string p) q v w /\
    xml_read_delivers database font_migration_table brick_color_table (bytes_of_string c) (bytes_of_string p) pd q v w /\
    xml_write_delivers database font_migration_table brick_color_table (bytes_of_string c) (bytes_of_string p) q v w /\
    bin_write_delivers database font_migration_table brick_color_table (bytes_of_string c) (bytes_of_string p) q op qs v w.
Proof.
  intros Hin Hm. destruct (bundled_mig_hyps c p q op Hin) as [pd [qd [qs [Hn H]]]]. exists pd, qs. split; [exact Hn|].
  exact (mig_hyps_paths_agree _ _ _ _ _ _ _ _ _ _ _ _ H Hm).
Qed.

(* ... and for the classes that inherit them, e.g. Part.BrickColor *)
Theorem bundled_migrate_paths_agree_inherited c p pd ser q op v w :
  In c (db_classes database) -> In p bundled_legacy_names ->
  find_desc_bin database (cd_name c) p = Ok (Some (pd, ser)) -> pd_kind pd = KCanon (PMigrate q op) ->
  mig op v = Some w ->
  exists qs,
    bin_read_delivers database font_migration_table brick_color_table (bytes_of_string (cd_name c)) (bytes_of_string p) q v w /\
    xml_read_delivers database font_migration_table brick_color_table (bytes_of_string (cd_name c)) (bytes_of_string p) pd q v w /\
    xml_write_delivers database font_migration_table brick_color_table (bytes_of_string (cd_name c)) (bytes_of_string p) q v w /\
    bin_write_delivers database font_migration_table brick_color_table (bytes_of_string (cd_name c)) (bytes_of_string p) q op qs v w.
Proof.
  intros Hc Hp Hl Hk Hm. destruct (bundled_mig_hyps_inherited c p pd ser q op Hc Hp Hl Hk) as [qd [qs H]]. exists qs.
  exact (mig_hyps_paths_agree _ _ _ _ _ _ _ _ _ _ _ _ H Hm).
Qed.

(* the XML writer's `has_explicit_new_value` on the bundled database (no lookup panics: bundled_coherent) *)
Theorem bundled_has_explicit_new_value o h class pname q qd qs keys :
  let e := XmlFile.mkXE database font_migration_table brick_color_table o h in
  find_desc_xml database (XmlFile.S_ class) q = Ok (Some (qd, qs)) ->
  XmlFile.has_explicit_new_value e class pname q keys
  = Ok (existsb (Xml.other_key_is database class pname (pd_name qd)) keys).
Proof.
  intros e Hq. apply (Xml.has_explicit_new_value_spec e class pname q qd qs keys Hq).
  intros k _. apply DbFacts.safe_xml_total. apply DbFacts.coherent_safe. exact DbFacts.bundled_coherent.
Qed.

(* (6) on the bundled database: Enum.Font has items the FontToFontFace table does not know (BuilderSans = 46, ...), so
   TextLabel.Font = Enum.Font.BuilderSans is treated in four different ways *)
Example bundled_font_46_unmigratable : mig MigFont (VEnum 46) = None.
Proof. vm_compute. reflexivity. Qed.

Example bundled_textlabel_font_hyps :
  exists pd qd qs, pd_name pd = "Font" /\ mig_hyps database "TextLabel" "Font" pd "FontFace" MigFont qd qs.
Proof. apply bundled_mig_hyps. vm_compute. tauto. Qed.
End Bundled.

(* =============================================================================================== whole-codec witnesses *)
(* Computed through the complete encoders and decoders on two three-descriptor databases: a legacy BrickColor-typed
   property migrating to `Color`, named so that it sorts BEFORE the new name ([db_first]: its PROP chunk / XML element
   comes first) or AFTER it ([db_last]).  A file written without reflection data ([db_none]) keeps both spellings, so the
   reader under test meets both; a file written with the database and read without shows what the writer did. *)
Module EndToEnd.
Import XmlFileFacts.
Open Scope string_scope.
Definition cls (legacy : string) : cdesc :=
  mkCD "Part" None false
    [ mkPD legacy (DValue 3) (KCanon (PMigrate "Color" MigBrick)); mkPD "Color" (DValue 6) (KCanon PSerializes);
      mkPD "Name" (DValue 24) (KCanon PSerializes) ] [].
Definition db_first : db := mkDb [cls "BrickColor"] [].
Definition db_last : db := mkDb [cls "Tint"] [].
Definition db_none : db := mkDb [] [].
Definition sbt : brick_table := [(194, (163, 162, 165))]%N.
Definition bs := bytes_of_string.
Definition ep : BinFile.enc_params := BinFile.mkEP [] sbt (fun _ => 0%N) (fun l => l) [].
Definition dp : BinFile.dec_params := BinFile.mkDP [] sbt (fun _ _ => None) (VUniqueId 0 0 0%Z) None.
Definition xe (d : db) : XmlFile.xenv := XmlFile.mkXE d [] sbt o0 (fun _ => None).
Definition part (props : list (bytes * value)) : cdom := [mkInst 1 0 (bs "Part") (bs "P") props].
Definition props_of (r : res cdom) : res (list (list (bytes * value))) :=
  match r with Ok l => Ok (List.map i_props l) | Panic => Panic | Err c => Err c | OutOfFuel => OutOfFuel end.
(* write with database [dw], read with database [dr] *)
Definition bin (dw dr : db) (dom : cdom) : res (list (list (bytes * value))) :=
  props_of (b <- BinFile.encode_file dw ep None dom [1%N] ;; BinFile.decode_file dr dp b).
Definition xml (dw dr : db) (rb : XmlFile.dbehavior) (dom : cdom) : res (list (list (bytes * value))) :=
  props_of (evs <- XmlFile.xml_encode (xe dw) XmlFile.EWriteUnknown dom [1%N] ;; revs <- XmlEvents.channel evs ;;
            XmlFile.xml_decode (xe dr) rb revs).
Definition both (legacy : string) (n : N) : cdom := part [(bs legacy, VBrickColor n); (bs "Color", VColor3uint8 1 2 3)].
Definition only (legacy : string) (n : N) : cdom := part [(bs legacy, VBrickColor n)].
Definition explicit_kept : res (list (list (bytes * value))) := Ok [[(bs "Color", VColor3uint8 1 2 3)]].
Definition migrated_kept : res (list (list (bytes * value))) := Ok [[(bs "Color", VColor3uint8 163 162 165)]].

(* explicit wins on all four paths, in both orders on the two reading paths; the legacy name is in no decoded DOM *)
Theorem e2e_explicit_wins :
  bin db_none db_first (both "BrickColor" 194) = explicit_kept /\      (* binary read, legacy chunk first *)
  bin db_none db_last (both "Tint" 194) = explicit_kept /\             (* binary read, explicit chunk first *)
  xml db_none db_first XmlFile.DIgnoreUnknown (both "BrickColor" 194) = explicit_kept /\   (* XML read, legacy element first *)
  xml db_none db_last XmlFile.DIgnoreUnknown (both "Tint" 194) = explicit_kept /\          (* XML read, explicit element first *)
  bin db_first db_none (both "BrickColor" 194) = explicit_kept /\      (* binary write *)
  xml db_first db_none XmlFile.DReadUnknown (both "BrickColor" 194) = explicit_kept.       (* XML write *)
Proof. repeat split; vm_compute; reflexivity. Qed.

(* the legacy value alone: the same (new name, migrated value) from all four paths *)
Theorem e2e_paths_agree :
  bin db_none db_first (only "BrickColor" 194) = migrated_kept /\                          (* binary read *)
  bin db_first db_none (only "BrickColor" 194) = migrated_kept /\                          (* binary write *)
  xml db_none db_first XmlFile.DIgnoreUnknown (only "BrickColor" 194) = migrated_kept /\   (* XML read *)
  xml db_first db_none XmlFile.DReadUnknown (only "BrickColor" 194) = migrated_kept.       (* XML write *)
Proof. repeat split; vm_compute; reflexivity. Qed.

(* an unmigratable value (BrickColor 5 is not in this table): four different treatments *)
Theorem e2e_failure_paths_disagree_refuted :
  bin db_none db_first (only "BrickColor" 5) = Ok [[]] /\                                  (* binary read: dropped *)
  bin db_first db_none (only "BrickColor" 5) = Err BinValues.EE_TYPE_MISMATCH /\           (* binary write: the file cannot be written *)
  xml db_none db_first XmlFile.DIgnoreUnknown (only "BrickColor" 5) = Err XmlValues.DE_MIGRATION /\   (* XML read: error *)
  xml db_first db_none XmlFile.DReadUnknown (only "BrickColor" 5)
    = Ok [[(bs "BrickColor", VInt32 5)]].                                                  (* XML write: the legacy element *)
Proof. repeat split; vm_compute; reflexivity. Qed.

(* ... and with the explicit value besides it, the XML reader's verdict depends on the element order *)
Theorem e2e_xml_read_failure_depends_on_element_order_refuted :
  xml db_none db_first XmlFile.DIgnoreUnknown (both "BrickColor" 5) = Err XmlValues.DE_MIGRATION /\ (* legacy first *)
  xml db_none db_last XmlFile.DIgnoreUnknown (both "Tint" 5) = explicit_kept /\                     (* explicit first *)
  bin db_none db_first (both "BrickColor" 5) = explicit_kept /\                                     (* the binary reader: no *)
  bin db_none db_last (both "Tint" 5) = explicit_kept.
Proof. repeat split; vm_compute; reflexivity. Qed.
End EndToEnd.

Print Assumptions Bin.bin_read_finds_migration.
Print Assumptions Bin.bin_read_legacy_alone.
Print Assumptions Bin.bin_read_explicit_wins_both_orders.
Print Assumptions Bin.bin_read_legacy_name_never_a_key.
Print Assumptions Xml.xml_read_migrates.
Print Assumptions Xml.xml_read_explicit_first.
Print Assumptions Xml.xml_read_explicit_then_legacy.
Print Assumptions Xml.xml_read_legacy_then_explicit.
Print Assumptions Xml.xml_read_legacy_name_never_a_key.
Print Assumptions Xml.xml_read_failure_depends_on_element_order_refuted.
Print Assumptions Xml.xml_write_migrates.
Print Assumptions Xml.xml_write_explicit_wins.
Print Assumptions Xml.explicit_key_detected.
Print Assumptions BinWrite.cti_prop_legacy_creates_column.
Print Assumptions BinWrite.cti_prop_legacy_updates_column.
Print Assumptions BinWrite.cti_prop_explicit_keeps_column.
Print Assumptions BinWrite.prop_value_legacy_migrated.
Print Assumptions BinWrite.prop_value_explicit_wins_typed.
Print Assumptions migrate_paths_agree.
Print Assumptions migrate_paths_explicit_wins.
Print Assumptions migrate_failure_paths_disagree_refuted.
Print Assumptions raw_legacy_value_in_new_column.
Print Assumptions Bundled.bundled_migrate_paths_agree.
Print Assumptions Bundled.bundled_migrate_paths_agree_inherited.
Print Assumptions Bundled.bundled_has_explicit_new_value.
Print Assumptions EndToEnd.e2e_explicit_wins.
Print Assumptions EndToEnd.e2e_paths_agree.
Print Assumptions EndToEnd.e2e_failure_paths_disagree_refuted.
Print Assumptions EndToEnd.e2e_xml_read_failure_depends_on_element_order_refuted.

(* EXPORT (for Properties/C15.v):
     migrate_paths_agree                      (5) the four paths deliver the same (new name, value)
     migrate_paths_explicit_wins              explicit new value wins on all four paths
     migrate_failure_paths_disagree_refuted   (6) the four behaviours when `migrate` fails
     raw_legacy_value_in_new_column           ... and the binary encoder then fails with PropTypeMismatch
     migrate_none_on_new_type, migrate_types  input / output type of each operation
     Bin.bin_read_finds_migration, Bin.bin_read_legacy_alone, Bin.bin_read_explicit_wins_both_orders,
     Bin.bin_read_legacy_name_never_a_key     (1)
     Xml.xml_read_migrates, Xml.xml_read_explicit_first, Xml.xml_read_explicit_then_legacy,
     Xml.xml_read_legacy_then_explicit, Xml.xml_read_legacy_name_never_a_key,
     Xml.xml_read_failure_depends_on_element_order_refuted                                  (2)
     Xml.xml_write_migrates, Xml.xml_write_explicit_wins, Xml.has_explicit_new_value_spec,
     Xml.explicit_key_detected, Xml.sole_key_not_explicit                                   (3)
     BinWrite.bin_write_resolves, BinWrite.cti_prop_legacy_creates_column, BinWrite.cti_prop_legacy_updates_column,
     BinWrite.cti_prop_explicit_keeps_column, BinWrite.prop_value_legacy_migrated,
     BinWrite.prop_value_explicit_wins, BinWrite.prop_value_explicit_wins_typed             (4)
     Bundled.bundled_entries_ok, Bundled.bundled_classes_ok, Bundled.bundled_no_alias_of_migrating,
     Bundled.bundled_migrate_paths_agree, Bundled.bundled_migrate_paths_agree_inherited,
     Bundled.bundled_has_explicit_new_value
     EndToEnd.e2e_explicit_wins, EndToEnd.e2e_paths_agree, EndToEnd.e2e_failure_paths_disagree_refuted,
     EndToEnd.e2e_xml_read_failure_depends_on_element_order_refuted *)
