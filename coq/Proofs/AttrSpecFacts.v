(* AttrSpecFacts.v — the attribute codec of Model/Attr.v against the independent document codec Spec/AttrSpec.v:
     spec_value_roundtrip / spec_roundtrip   the document codec is self-consistent;
     spec_enc_value_agrees / spec_encode_agrees   on maps whose rotations are exact (a table rotation, or not
                                              recognised at all) the writer's bytes ARE the document's bytes;
     attr_meets_spec    reading the writer's bytes by the document gives the normalised map (any rotations);
     attr_reads_spec    the reader returns what the document describes for a document-encoded map. *)
From RbxVerif Require Import Base Bytes Value Utf8 Rotation BrickColor Attr AttrSpec BytesFacts RotationFacts AttrFacts.
From Coq Require Import Lia.
Open Scope N_scope.

(* ================================================================ the document reader on its own primitives *)
Lemma sbind_some {A B} (p : sparser A) (f : A -> sparser B) b a b1 : p b = Some (a, b1) -> sbind p f b = f a b1.
Proof. unfold sbind. now intros ->. Qed.

Lemma sp_take_app a : forall rest, sp_take (a ++ rest) (N.of_nat (length a)) = Some (a, rest).
Proof.
  induction a as [|x a IH]; intros rest.
  - cbn [app length]. destruct rest; reflexivity.
  - cbn [app length sp_take].
    replace (N.eqb (N.of_nat (S (length a))) 0) with false by (symmetry; apply N.eqb_neq; lia).
    replace (N.pred (N.of_nat (S (length a)))) with (N.of_nat (length a)) by lia.
    now rewrite IH.
Qed.

Lemma sp_rd_le_app k v rest : v < 2 ^ (8 * N.of_nat k) ->
  sp_rd_le (N.of_nat k) (le_bytes k v ++ rest) = Some (v, rest).
Proof.
  intros H. unfold sp_rd_le, sp_bytes.
  rewrite (sbind_some _ _ _ (le_bytes k v) rest).
  - unfold sret. now rewrite le_roundtrip.
  - rewrite <- (le_bytes_length k v) at 2. apply sp_take_app.
Qed.

Lemma srd_u8 v rest : v < 256 -> sp_rd_u8 (sp_u8 v ++ rest) = Some (v, rest).
Proof. intros H. exact (sp_rd_le_app 1 v rest H). Qed.
Lemma srd_u16 v rest : v < 65536 -> sp_rd_u16 (sp_u16 v ++ rest) = Some (v, rest).
Proof. intros H. exact (sp_rd_le_app 2 v rest H). Qed.
Lemma srd_u32 v rest : v < 4294967296 -> sp_rd_u32 (sp_u32 v ++ rest) = Some (v, rest).
Proof. intros H. exact (sp_rd_le_app 4 v rest H). Qed.
Lemma srd_f32 x rest : f32_ok x = true -> sp_rd_f32 (sp_f32 x ++ rest) = Some (x, rest).
Proof. intros H. apply N.ltb_lt in H. exact (sp_rd_le_app 4 x rest H). Qed.
Lemma srd_f64 x rest : f64_ok x = true -> sp_rd_f64 (sp_f64 x ++ rest) = Some (x, rest).
Proof. intros H. apply N.ltb_lt in H. exact (sp_rd_le_app 8 x rest H). Qed.
Lemma srd_i32 z rest : in_i32 z = true -> sp_rd_i32 (sp_i32 z ++ rest) = Some (z, rest).
Proof.
  intros H. unfold sp_rd_i32, sp_i32.
  rewrite (sbind_some _ _ _ (wrap_u 32 z) rest).
  - unfold sret. now rewrite wrap_roundtrip32.
  - apply (sp_rd_le_app 4). exact (wrap_u32_bound z).
Qed.
Lemma srd_string s rest : len32 s = true -> sp_rd_string (sp_string s ++ rest) = Some (s, rest).
Proof.
  intros H. unfold sp_rd_string, sp_string. rewrite <- app_assoc.
  rewrite (sbind_some _ _ _ (N.of_nat (length s)) (s ++ rest)).
  - apply sp_take_app.
  - apply srd_u32. unfold len32 in H. now apply N.ltb_lt.
Qed.

Ltac sstep L :=
  rewrite <- ?app_assoc;
  erewrite sbind_some; [| apply L; first [assumption | lia | idtac]].

Lemma srd_color3 r g b rest : f32_ok r = true -> f32_ok g = true -> f32_ok b = true ->
  sp_rd_color3 (sp_color3 r g b ++ rest) = Some ((r, g, b), rest).
Proof. intros Hr Hg Hb. unfold sp_rd_color3, sp_color3. sstep srd_f32. sstep srd_f32. sstep srd_f32. reflexivity. Qed.
Lemma srd_udim u rest : udim_ok u = true -> sp_rd_udim (sp_udim u ++ rest) = Some (u, rest).
Proof.
  intros H. apply andb_true_iff in H. destruct H as [Hs Ho]. unfold sp_rd_udim, sp_udim.
  sstep srd_f32. sstep srd_i32. destruct u; reflexivity.
Qed.
Lemma srd_vector2 v rest : vec2_ok v = true -> sp_rd_vector2 (sp_vector2 v ++ rest) = Some (v, rest).
Proof.
  intros H. apply andb_true_iff in H. destruct H as [Hx Hy]. unfold sp_rd_vector2, sp_vector2.
  sstep srd_f32. sstep srd_f32. destruct v; reflexivity.
Qed.
Lemma srd_vector3 v rest : vec3_ok v = true -> sp_rd_vector3 (sp_vector3 v ++ rest) = Some (v, rest).
Proof.
  intros H. unfold vec3_ok in H. apply andb_true_iff in H. destruct H as [H Hz]. apply andb_true_iff in H. destruct H as [Hx Hy].
  unfold sp_rd_vector3, sp_vector3. sstep srd_f32. sstep srd_f32. sstep srd_f32. destruct v; reflexivity.
Qed.

Lemma sp_repeat_app {A} (p : sparser A) (enc : A -> bytes) (P : A -> bool) :
  (forall a rest, P a = true -> p (enc a ++ rest) = Some (a, rest)) ->
  forall l fuel rest, forallb P l = true -> (length l <= fuel)%nat ->
  sp_repeat fuel (N.of_nat (length l)) p (flat_map enc l ++ rest) = Some (l, rest).
Proof.
  intros Hp. induction l as [|a l IH]; intros fuel rest Hl Hf.
  - destruct fuel; reflexivity.
  - cbn [forallb] in Hl. apply andb_true_iff in Hl. destruct Hl as [Ha Hl].
    destruct fuel as [|f]; [cbn in Hf; lia|]. cbn [length flat_map sp_repeat].
    replace (N.eqb (N.of_nat (S (length l))) 0) with false by (symmetry; apply N.eqb_neq; lia).
    rewrite <- app_assoc, (Hp a _ Ha).
    replace (N.pred (N.of_nat (S (length l)))) with (N.of_nat (length l)) by lia.
    rewrite IH; [reflexivity|assumption|cbn in Hf; lia].
Qed.
Lemma sp_array_app {A} (p : sparser A) (enc : A -> bytes) (P : A -> bool) l rest :
  (forall a rest, P a = true -> p (enc a ++ rest) = Some (a, rest)) ->
  (forall a, (1 <= length (enc a))%nat) ->
  forallb P l = true ->
  sp_array (N.of_nat (length l)) p (flat_map enc l ++ rest) = Some (l, rest).
Proof.
  intros Hp Hne Hl. unfold sp_array. apply (sp_repeat_app p enc P Hp); [assumption|].
  rewrite app_length. pose proof (flat_map_min_length enc l Hne). lia.
Qed.

(* ================================================================ the rotation tables seen by matrix *)
Lemma spec_id_rot_consistent t m k :
  NoDup (List.map fst t) -> spec_id_of_rot m t = Some k -> spec_rot_of_id k t = Some m.
Proof.
  induction t as [|[k' m'] r IH]; cbn; [discriminate|]. intros Hnd H. inversion Hnd as [|? ? Hn Hnd']; subst.
  destruct (AttrSpec.mat3_eqb m m') eqn:E.
  - injection H as <-. rewrite N.eqb_refl. f_equal. symmetry. now apply spec_mat3_eqb_eq.
  - destruct (N.eqb_spec k k') as [->|_].
    + exfalso. apply Hn. clear -H. induction r as [|[a b] r IH]; cbn in *; [discriminate|].
      destruct (AttrSpec.mat3_eqb m b); [injection H as ->; now left|right; now apply IH].
    + now apply IH.
Qed.

Lemma spec_table_keys_nodup : NoDup (List.map fst spec_rotation_table).
Proof. apply nodupb_NoDup. vm_compute. reflexivity. Qed.

Lemma spec_id_of_rot_some m k : spec_id_of_rot m spec_rotation_table = Some k ->
  from_basic_rotation_id k = Some m /\ k <> 0 /\ k < 256.
Proof.
  intros H. apply (spec_id_rot_consistent _ _ _ spec_table_keys_nodup) in H.
  rewrite spec_rotation_table_agrees in H. split; [exact H|].
  apply from_id_some_in, rotation_id_bound in H. lia.
Qed.

(* a rotation is exact if it is one of the 24 table matrices bit for bit, or not recognised by the writer at all *)
Definition rot_exact (m : mat3) : Prop := spec_id_of_rot m spec_rotation_table = to_basic_rotation_id m.
Definition value_exact (v : value) : Prop := match v with VCFrame c => rot_exact (cf_rot c) | _ => True end.

Lemma table_rotation_exact id m : from_basic_rotation_id id = Some m -> rot_exact m.
Proof.
  intros H. unfold rot_exact.
  assert (K : forallb (fun id => match from_basic_rotation_id id with
                                 | Some b => match spec_id_of_rot b spec_rotation_table, to_basic_rotation_id b with
                                             | Some x, Some y => N.eqb x y | _, _ => false end
                                 | None => false end) rotation_ids = true) by (vm_compute; reflexivity).
  rewrite forallb_forall in K. specialize (K id (from_id_some_in _ _ H)). rewrite H in K.
  destruct (spec_id_of_rot m spec_rotation_table), (to_basic_rotation_id m); try discriminate.
  apply N.eqb_eq in K. now subst.
Qed.

Lemma unrecognised_rotation_exact m : to_basic_rotation_id m = None -> rot_exact m.
Proof.
  intros H. unfold rot_exact. rewrite H.
  destruct (spec_id_of_rot m spec_rotation_table) as [k|] eqn:E; [|reflexivity].
  destruct (spec_id_of_rot_some _ _ E) as [Hb _].
  assert (R : to_basic_rotation_id m = Some k).
  { destruct (rotation_ids_roundtrip k (from_id_some_in _ _ Hb)) as [m' [H1 H2]]. congruence. }
  congruence.
Qed.

(* ================================================================ value level *)
Lemma sp_string_eq s : len32 s = true -> sp_string s = write_string s.
Proof. intros H. unfold sp_string, write_string. now rewrite (len32_as_u32 _ H). Qed.

Lemma some_pair_inj {A B} (a a' : A) (b b' : B) : Some (a, b) = Some (a', b') -> a = a' /\ b = b'.
Proof. intros H. split; congruence. Qed.

Ltac eval_tid :=
  match goal with
  | |- context [from_variant_type ?t] =>
    let r := eval vm_compute in (from_variant_type t) in change (from_variant_type t) with r
  end.

(* on exact rotations the writer's bytes and type ids are the document's, value by value; the document has
   no other value types than the ones the writer supports *)
Lemma spec_enc_value_agrees v : wf_value v = true -> value_exact v ->
  spec_enc_value v =
  match from_variant_type (vtype v), write_value v with Some id, Ok body => Some (id, body) | _, _ => None end.
Proof.
  intros Hwf Hex. destruct v; cbn [spec_enc_value write_value]; eval_tid; cbn [wf_value] in Hwf; try reflexivity.
  - unfold wf_bytes in Hwf. split_and. now rewrite sp_string_eq.
  - destruct b; reflexivity.
  - cbn [value_exact] in Hex. unfold sp_cframe. rewrite Hex. reflexivity.
  - split_and. unfold len32 in *. rewrite (len32_as_u32 kps); [reflexivity|assumption].
  - split_and. rewrite (len32_as_u32 kps); [reflexivity|assumption].
  - unfold wf_bytes in Hwf. split_and. now rewrite sp_string_eq.
  - apply andb_true_iff in Hwf. destruct Hwf as [H Hc]. apply andb_true_iff in H. destruct H as [H _].
    apply andb_true_iff in H. destruct H as [Hf _]. destruct (wf_string_parts _ Hf) as [_ [Hfl _]].
    rewrite (sp_string_eq _ Hfl). destruct (fo_cached f) as [c|].
    + destruct (wf_string_parts _ Hc) as [_ [Hcl _]]. now rewrite (sp_string_eq _ Hcl).
    + reflexivity.
  - split_and. destruct (wf_string_parts ty) as [_ [Hl _]]; [assumption|]. now rewrite (sp_string_eq _ Hl).
Qed.

Lemma srd_cframe c rest : cframe_ok c = true -> sp_rd_cframe (sp_cframe c ++ rest) = Some (c, rest).
Proof.
  intros Hwf. unfold cframe_ok, mat3_ok in Hwf. split_and. unfold sp_cframe, sp_rd_cframe.
  sstep srd_vector3.
  destruct (spec_id_of_rot (cf_rot c) spec_rotation_table) as [k|] eqn:E.
  - destruct (spec_id_of_rot_some _ _ E) as [_ [Hnz Hlt]].
    sstep srd_u8. destruct (N.eqb_spec k 0); [easy|].
    rewrite (spec_id_rot_consistent _ _ _ spec_table_keys_nodup E). destruct c; reflexivity.
  - sstep srd_u8. rewrite N.eqb_refl. sstep srd_vector3. sstep srd_vector3. sstep srd_vector3.
    destruct c as [p [x y z]]; reflexivity.
Qed.

Ltac open_sv := unfold spec_dec_value; cbv beta iota.

(* the document codec reads back what it writes *)
Lemma spec_value_roundtrip v id body : wf_value v = true -> spec_enc_value v = Some (id, body) ->
  forall rest, spec_dec_value id (body ++ rest) = Some (spec_norm_value v, rest).
Proof.
  intros Hwf He rest.
  destruct v; cbn [spec_enc_value] in He; try discriminate He; apply some_pair_inj in He; destruct He as [<- <-];
    cbn [wf_value] in Hwf; cbn [spec_norm_value]; open_sv.
  - (* BinaryString *) unfold wf_bytes in Hwf. split_and. sstep srd_string. reflexivity.
  - (* Bool *) destruct b; sstep srd_u8; reflexivity.
  - (* BrickColor *) pose proof (brick_valid_u16 _ Hwf). sstep srd_u32. reflexivity.
  - (* CFrame *) sstep srd_cframe. reflexivity.
  - (* Color3 *) split_and. sstep srd_color3. reflexivity.
  - (* ColorSequence *) split_and.
    sstep srd_u32; [|match goal with H : len32 _ = true |- _ => unfold len32 in H; now apply N.ltb_lt end].
    erewrite sbind_some; [reflexivity|].
    apply (sp_array_app _ cseq_enc cseq_ok); [| |assumption].
    + intros [t [[r g] b]] rs Hk. unfold cseq_ok in Hk. split_and. unfold cseq_enc.
      change (write_f32 F32_ZERO) with (sp_f32 0). change write_f32 with sp_f32. change write_color3 with sp_color3.
      sstep srd_f32; [|reflexivity]. sstep srd_f32. sstep srd_color3. reflexivity.
    + intros [t [[r g] b]]. unfold cseq_enc, write_color3, write_f32. rewrite !app_length, !le_bytes_length. lia.
  - (* Float32 *) sstep srd_f32. reflexivity.
  - (* Float64 *) sstep srd_f64. reflexivity.
  - (* Int32 *) sstep srd_i32. reflexivity.
  - (* NumberRange *) split_and. sstep srd_f32. sstep srd_f32. reflexivity.
  - (* NumberSequence *) split_and.
    sstep srd_u32; [|match goal with H : len32 _ = true |- _ => unfold len32 in H; now apply N.ltb_lt end].
    erewrite sbind_some; [reflexivity|].
    apply (sp_array_app _ nseq_enc nseq_ok); [| |assumption].
    + intros [[t v] e] rs Hk. unfold nseq_ok in Hk. split_and. unfold nseq_enc. change write_f32 with sp_f32.
      sstep srd_f32. sstep srd_f32. sstep srd_f32. reflexivity.
    + intros [[t v] e]. unfold nseq_enc, write_f32. rewrite !app_length, !le_bytes_length. lia.
  - (* Rect *) split_and. sstep srd_vector2. sstep srd_vector2. reflexivity.
  - (* String *) unfold wf_bytes in Hwf. split_and. sstep srd_string. reflexivity.
  - (* UDim *) sstep srd_udim. reflexivity.
  - (* UDim2 *) split_and. sstep srd_udim. sstep srd_udim. reflexivity.
  - (* Vector2 *) sstep srd_vector2. reflexivity.
  - (* Vector3 *) sstep srd_vector3. reflexivity.
  - (* Font *)
    apply andb_true_iff in Hwf. destruct Hwf as [H Hc]. apply andb_true_iff in H. destruct H as [H Hst].
    apply andb_true_iff in H. destruct H as [Hfam Hmem].
    destruct (wf_string_parts _ Hfam) as [_ [Hfl _]]. destruct (font_weight_u16 _ Hmem) as [Hw _]. apply N.leb_le in Hst.
    sstep srd_u16. sstep srd_u8. sstep srd_string.
    destruct f as [fam w s [c|]]; cbn [fo_family fo_weight fo_style fo_cached] in *.
    + destruct (wf_string_parts _ Hc) as [_ [Hcl _]]. sstep srd_string. destruct c; reflexivity.
    + sstep srd_string. reflexivity.
  - (* EnumItem *) split_and. destruct (wf_string_parts ty) as [_ [Hl _]]; [assumption|].
    sstep srd_string. sstep srd_u32. reflexivity.
Qed.

(* on exact rotations the two normalisations coincide *)
Lemma norm_spec_norm v : value_exact v -> norm_value v = spec_norm_value v.
Proof.
  destruct v; try reflexivity. cbn [value_exact norm_value spec_norm_value]. unfold rot_exact. intros H.
  destruct (to_basic_rotation_id (cf_rot c)) as [k|] eqn:E; [|reflexivity].
  destruct (spec_id_of_rot_some _ _ H) as [Hb _]. rewrite Hb. destruct c; reflexivity.
Qed.

(* the document reader on the writer's bytes, value by value (rotations need not be exact here) *)
Lemma meets_value v id body : wf_value v = true -> from_variant_type (vtype v) = Some id -> write_value v = Ok body ->
  forall rest, spec_dec_value id (body ++ rest) = Some (norm_value v, rest).
Proof.
  intros Hwf Hid Hw rest.
  assert (G : value_exact v -> spec_dec_value id (body ++ rest) = Some (norm_value v, rest)).
  { intros Hex. rewrite (norm_spec_norm _ Hex). apply spec_value_roundtrip; [assumption|].
    rewrite (spec_enc_value_agrees _ Hwf Hex), Hid, Hw. reflexivity. }
  destruct v; try (apply G; exact I).
  destruct (to_basic_rotation_id (cf_rot c)) as [k|] eqn:E; [|apply G; now apply unrecognised_rotation_exact].
  clear G. vm_compute in Hid. apply (f_equal (fun o => match o with Some x => x | None => 0 end)) in Hid. cbv beta iota in Hid. subst id.
  cbn [write_value] in Hw. rewrite E in Hw. apply ok_inj in Hw. subst body.
  cbn [norm_value wf_value] in *. rewrite E.
  destruct (to_basic_some _ _ E) as [b [Hb [Hnz Hlt]]]. rewrite Hb.
  unfold cframe_ok in Hwf. apply andb_true_iff in Hwf. destruct Hwf as [Hp _].
  assert (R : sp_rd_cframe ((write_vector3 (cf_pos c) ++ write_u8 k) ++ rest) = Some (mkCF (cf_pos c) b, rest)).
  { unfold sp_rd_cframe. change write_vector3 with sp_vector3. change write_u8 with sp_u8.
    sstep srd_vector3. sstep srd_u8. destruct (N.eqb_spec k 0); [easy|].
    rewrite spec_rotation_table_agrees, Hb. reflexivity. }
  open_sv. rewrite (sbind_some _ _ _ _ _ R). reflexivity.
Qed.

Lemma from_variant_type_lt ty id : from_variant_type ty = Some id -> id < 256.
Proof.
  unfold from_variant_type. destruct (assoc_fst ty attr_type_ids) as [i|] eqn:E.
  - intros [= <-]. apply assoc_fst_in in E.
    assert (K : forallb (fun e => N.ltb (snd e) 256) attr_type_ids = true) by (vm_compute; reflexivity).
    rewrite forallb_forall in K. specialize (K _ E). now apply N.ltb_lt in K.
  - destruct (N.eqb ty VT_String); [intros [= <-]; reflexivity|discriminate].
Qed.

Lemma meets_entry k v ebytes rest :
  wf_entry (k, v) = true -> write_entry (k, v) = Ok ebytes ->
  spec_dec_entry (ebytes ++ rest) = Some ((k, norm_value v), rest).
Proof.
  unfold wf_entry. cbn [fst snd]. intros Hwf Hw. apply andb_true_iff in Hwf. destruct Hwf as [Hk Hv].
  destruct (wf_string_parts _ Hk) as [_ [Hkl _]].
  unfold write_entry in Hw. destruct (from_variant_type (vtype v)) as [id|] eqn:Hid; [|discriminate].
  destruct (write_value v) as [body| | |] eqn:Hb; try discriminate. cbn [rbind] in Hw. apply ok_inj in Hw. subst ebytes.
  pose proof (from_variant_type_lt _ _ Hid) as Hlt.
  unfold spec_dec_entry. rewrite <- (sp_string_eq _ Hkl), <- (write_u8_small id Hlt). change write_u8 with sp_u8.
  sstep srd_string. sstep srd_u8.
  rewrite (sbind_some _ _ _ _ _ (meets_value v id body Hv Hid Hb rest)). reflexivity.
Qed.

Lemma meets_entries m : forall fuel body rest,
  forallb wf_entry m = true -> write_entries m = Ok body -> (length m <= fuel)%nat ->
  sp_repeat fuel (N.of_nat (length m)) spec_dec_entry (body ++ rest) = Some (norm m, rest).
Proof.
  induction m as [|[k v] m IH]; intros fuel body rest Hwf Hw Hf.
  - cbn in Hw. apply ok_inj in Hw. subst body. destruct fuel; reflexivity.
  - cbn [write_entries] in Hw. destruct (write_entry (k, v)) as [a| | |] eqn:Ha; try discriminate. cbn [rbind] in Hw.
    destruct (write_entries m) as [b'| | |] eqn:Hb; try discriminate. cbn [rbind] in Hw. apply ok_inj in Hw. subst body.
    cbn [forallb] in Hwf. apply andb_true_iff in Hwf. destruct Hwf as [He Hwf].
    destruct fuel as [|f]; [cbn in Hf; lia|]. cbn [length sp_repeat].
    replace (N.eqb (N.of_nat (S (length m))) 0) with false by (symmetry; apply N.eqb_neq; lia).
    rewrite <- app_assoc, (meets_entry k v a _ He Ha).
    replace (N.pred (N.of_nat (S (length m)))) with (N.of_nat (length m)) by lia.
    rewrite (IH f b' rest Hwf eq_refl); [reflexivity|cbn in Hf; lia].
Qed.

Lemma spec_decode_entries m body :
  len32 m = true -> forallb wf_entry m = true -> write_entries m = Ok body ->
  spec_decode (write_u32 (N.of_nat (length m)) ++ body) = Ok (norm m).
Proof.
  intros Hlen Hent Hb.
  assert (Hn : N.of_nat (length m) < 4294967296) by (unfold len32 in Hlen; now apply N.ltb_lt).
  unfold spec_decode. change write_u32 with sp_u32.
  rewrite (sbind_some _ _ _ _ _ (srd_u32 _ body Hn)). unfold sp_array.
  pose proof (meets_entries m (S (length body)) body [] Hent Hb) as R. rewrite app_nil_r in R.
  rewrite R; [reflexivity|]. pose proof (write_entries_length _ _ Hb) as L. clear -L. lia.
Qed.

(* The bytes follow the document: whatever non-empty well-formed map the writer encodes, the independent reader
   written from docs/attributes.md decodes those bytes to the same names with the same (normalised) values. *)
Theorem attr_meets_spec m b :
  wf_amap m = true -> m <> [] -> attr_encode m = Ok b -> spec_decode b = Ok (norm m).
Proof.
  unfold wf_amap. intros Hwf Hne Henc. apply andb_true_iff in Hwf. destruct Hwf as [Hwf Hent].
  apply andb_true_iff in Hwf. destruct Hwf as [Hlen _].
  destruct m as [|e m]; [easy|].
  unfold attr_encode in Henc. destruct (write_entries (e :: m)) as [body| | |] eqn:Hb; try discriminate.
  cbn [rbind] in Henc. apply ok_inj in Henc. subst b. rewrite (len32_as_u32 _ Hlen).
  now apply spec_decode_entries.
Qed.

(* the empty map is the one place where the writer leaves the document: it writes no bytes at all, and the
   document (whose blob always starts with the 4-byte count) has no reading of zero bytes *)
Theorem attr_empty_outside_document :
  attr_encode [] = Ok [] /\ spec_decode [] = Err SPEC_ERR /\
  spec_encode [] = Ok [0; 0; 0; 0] /\ attr_decode [0; 0; 0; 0] = Ok [].
Proof. repeat split; reflexivity. Qed.

(* ================================================================ the two writers *)
Lemma spec_enc_entries_agrees m :
  forallb wf_entry m = true -> Forall (fun e => value_exact (snd e)) m ->
  spec_enc_entries m = match write_entries m with Ok b => Some b | _ => None end.
Proof.
  induction m as [|[k v] m IH]; intros Hwf Hex; [reflexivity|].
  cbn [forallb] in Hwf. apply andb_true_iff in Hwf. destruct Hwf as [He Hwf].
  inversion Hex as [|? ? Hv Hex']; subst. cbn [snd] in Hv.
  unfold wf_entry in He. cbn [fst snd] in He. apply andb_true_iff in He. destruct He as [Hk Hval].
  destruct (wf_string_parts _ Hk) as [_ [Hkl _]].
  cbn [spec_enc_entries write_entries]. rewrite (IH Hwf Hex').
  unfold spec_enc_entry, write_entry. cbn [fst snd]. rewrite (spec_enc_value_agrees _ Hval Hv).
  destruct (from_variant_type (vtype v)) as [id|] eqn:Hid; [|reflexivity].
  destruct (write_value v) as [body| | |]; try reflexivity. cbn [rbind].
  rewrite (sp_string_eq _ Hkl). change (sp_u8 id) with (write_u8 id). rewrite (write_u8_small _ (from_variant_type_lt _ _ Hid)).
  destruct (write_entries m); reflexivity.
Qed.

(* on exact rotations the writer produces exactly the bytes the document prescribes (non-empty maps) *)
Theorem spec_encode_agrees m b :
  wf_amap m = true -> m <> [] -> Forall (fun e => value_exact (snd e)) m ->
  (attr_encode m = Ok b <-> spec_encode m = Ok b).
Proof.
  unfold wf_amap. intros Hwf Hne Hex. apply andb_true_iff in Hwf. destruct Hwf as [Hwf Hent].
  apply andb_true_iff in Hwf. destruct Hwf as [Hlen _].
  destruct m as [|e m]; [easy|].
  unfold spec_encode, attr_encode. rewrite (spec_enc_entries_agrees _ Hent Hex), (len32_as_u32 _ Hlen).
  destruct (write_entries (e :: m)) as [body| |c|]; cbn [rbind]; split; intros H; try discriminate; exact H.
Qed.

Lemma norm_spec_norm_map m : Forall (fun e => value_exact (snd e)) m -> norm m = spec_norm m.
Proof.
  induction 1 as [|e m He _ IH]; [reflexivity|]. unfold norm, spec_norm in *. cbn [List.map]. now rewrite IH, (norm_spec_norm _ He).
Qed.

(* blobs built from the document decode to the values they describe: the reader on the document's encoding *)
Theorem attr_reads_spec m b :
  wf_amap m = true -> Forall (fun e => value_exact (snd e)) m ->
  spec_encode m = Ok b -> attr_decode b = Ok (spec_norm m).
Proof.
  intros Hwf Hex Hs. destruct m as [|e m].
  - cbn in Hs. apply ok_inj in Hs. subst b. reflexivity.
  - rewrite <- (norm_spec_norm_map _ Hex). apply attr_roundtrip; [assumption|].
    apply (spec_encode_agrees (e :: m) b Hwf); [discriminate|assumption|assumption].
Qed.

(* the document codec by itself *)
Theorem spec_roundtrip m b :
  wf_amap m = true -> Forall (fun e => value_exact (snd e)) m -> spec_encode m = Ok b -> spec_decode b = Ok (spec_norm m).
Proof.
  intros Hwf Hex Hs. destruct m as [|e m].
  - cbn in Hs. apply ok_inj in Hs. subst b. reflexivity.
  - rewrite <- (norm_spec_norm_map _ Hex). apply attr_meets_spec; [assumption|discriminate|].
    apply (spec_encode_agrees (e :: m) b Hwf); [discriminate|assumption|assumption].
Qed.
