(* XmlFileFacts.v — facts about the file-level model (Model/XmlFile.v): the shape of every document xml_encode produces,
   referents that are never `null`, `null` for empty references, and computed witnesses of the behaviours the
   implementation-side oracles report (name lost for a class the database does not know, duplicate UniqueIds decoded as
   they are, an ignored unknown Ref property resurrected by the rewrite pass).  Standard library only. *)
From Coq Require Import List NArith ZArith Bool Lia String.
From RbxVerif Require Import Base Bytes Value Db CodecDom XmlEvents XmlValues XmlFile XmlInt XmlText.
Import ListNotations.
Open Scope list_scope.
Open Scope N_scope.

(* ---- every document is one `roblox` element of version 4 *)
Theorem xml_encode_root e beh d roots evs :
  xml_encode e beh d roots = Ok evs ->
  exists body, evs = WStart (B "roblox") [(B "version", B "4")] :: body ++ [WEnd].
Proof.
  unfold xml_encode. intro H.
  match type of H with (rbind ?X _ = _) => destruct X as [[body st]| |c|] eqn:E end; cbn [rbind] in H; try discriminate.
  inversion H. exists (body ++ serialize_shared_strings st). rewrite <- app_assoc. reflexivity.
Qed.

(* ---- referents are decimal numbers: never the reserved word `null` *)
Theorem referent_never_null n : dec_of_N n <> B "null".
Proof. apply dec_of_N_not_null. Qed.

(* ---- an empty reference is written `null`, a non-empty one as the (numeric) referent of its target *)
Theorem empty_ref_written_null e st pname :
  write_value_xml e st pname (VRef 0) = Ok ([WStart (B "Ref") [(B "name", pname)]; WChars (B "null"); WEnd], st).
Proof. reflexivity. Qed.

(* ---- a shared string value adds its content to the dictionary that is written at the end *)
Theorem shared_string_defined e st pname c h evs st' :
  xe_hash e c = Some h -> write_value_xml e st pname (VSharedString c) = Ok (evs, st') ->
  exists c', bfind h (es_shared st') = Some c'.
Proof.
  intros Hh H. cbn [write_value_xml] in H. rewrite Hh in H. cbn [ask rbind] in H. inversion H; subst. cbn [es_shared].
  clear H. induction (es_shared st) as [|[h' c'] m IH]; cbn [shared_insert bfind].
  - rewrite bytes_eqb_refl. eexists; reflexivity.
  - destruct (bytes_ltb h h').
    + cbn [bfind]. rewrite bytes_eqb_refl. eexists; reflexivity.
    + destruct (bytes_eqb h h') eqn:E.
      * cbn [bfind]. rewrite bytes_eqb_refl. eexists; reflexivity.
      * cbn [bfind]. rewrite E. exact IH.
Qed.

(* ------------------------------------------------------------------ computed witnesses *)
Definition o0 : xoracle := mkXO (fun _ => None) (fun _ => None) (fun _ => None) (fun _ => None) (fun _ => None) (fun _ => None).
Definition e0 : xenv := mkXE (mkDb [] []) [] [] o0 (fun _ => None).

Definition through (enc : ebehavior) (dec : dbehavior) (d : cdom) (roots : list N) : res cdom :=
  evs <- xml_encode e0 enc d roots ;; revs <- channel evs ;; xml_decode e0 dec revs.

(* With the default options an instance whose class the database does not know loses its Name: the `Name` element is
   an unknown property of an unknown class, read and thrown away, and the instance is named after its class. *)
Theorem name_lost_for_unknown_class :
  through EIgnoreUnknown DIgnoreUnknown [mkInst 1 0 (B "Zzz") (B "hello") []] [1]
  = Ok [mkInst 1 0 (B "Zzz") (B "Zzz") []].
Proof. vm_compute. reflexivity. Qed.

(* ... whereas the pairing that keeps unknown properties preserves it *)
Theorem name_kept_with_read_unknown :
  through EWriteUnknown DReadUnknown [mkInst 1 0 (B "Zzz") (B " hello ]]> ") []] [1]
  = Ok [mkInst 1 0 (B "Zzz") (B " hello ]]> ") []].
Proof. vm_compute. reflexivity. Qed.

(* F2 (C12): two Items carrying one UniqueId decode to two instances with that UniqueId: properties are assigned after
   the insertion, so nothing checks them *)
Definition uid_text : bytes := B "00000000000000030000000200000001".
Definition item_with_uid (referent : string) : list revent :=
  [RStart (B "Item") [(B "class", B "Folder"); (B "referent", B referent)]; RStart (B "Properties") [];
   RStart (B "UniqueId") [(B "name", B "UniqueId")]; RChars uid_text; REnd (B "UniqueId"); REnd (B "Properties"); REnd (B "Item")].
Theorem duplicate_unique_ids_survive_decoding :
  xml_decode e0 DReadUnknown
    (RStartDoc :: RStart (B "roblox") [(B "version", B "4")] :: item_with_uid "a" ++ item_with_uid "b" ++ [REnd (B "roblox"); REndDoc])
  = Ok [mkInst 1 0 (B "Folder") (B "Folder") [(B "UniqueId", VUniqueId 1 2 3)];
        mkInst 2 0 (B "Folder") (B "Folder") [(B "UniqueId", VUniqueId 1 2 3)]].
Proof. vm_compute. reflexivity. Qed.

(* An unknown Ref property is "ignored" by DecodePropertyBehavior::IgnoreUnknown, yet read_ref has already queued a
   referent rewrite for it, and apply_referent_rewrites inserts the property afterwards. *)
Theorem ignored_ref_property_resurrected :
  xml_decode e0 DIgnoreUnknown
    [RStartDoc; RStart (B "roblox") [(B "version", B "4")];
     RStart (B "Item") [(B "class", B "Folder"); (B "referent", B "RBX1")]; RStart (B "Properties") [];
     RStart (B "Ref") [(B "name", B "Future")]; RChars (B "RBX1"); REnd (B "Ref");
     REnd (B "Properties"); REnd (B "Item"); REnd (B "roblox"); REndDoc]
  = Ok [mkInst 1 0 (B "Folder") (B "Folder") [(B "Future", VRef 1)]].
Proof. vm_compute. reflexivity. Qed.

(* a forward reference and a shared string are resolved by the second pass *)
Theorem forward_ref_and_shared_string_resolved :
  xml_decode e0 DReadUnknown
    [RStartDoc; RStart (B "roblox") [(B "version", B "4")];
     RStart (B "Item") [(B "class", B "ObjectValue"); (B "referent", B "A")]; RStart (B "Properties") [];
     RStart (B "Ref") [(B "name", B "Value")]; RChars (B "B"); REnd (B "Ref");
     RStart (B "SharedString") [(B "name", B "S")]; RChars (B "k1"); REnd (B "SharedString");
     REnd (B "Properties"); REnd (B "Item");
     RStart (B "Item") [(B "class", B "Folder"); (B "referent", B "B")]; REnd (B "Item");
     RStart (B "SharedStrings") []; RStart (B "SharedString") [(B "md5", B "k1")]; RChars (B "eHl6"); REnd (B "SharedString"); REnd (B "SharedStrings");
     REnd (B "roblox"); REndDoc]
  = Ok [mkInst 1 0 (B "ObjectValue") (B "ObjectValue") [(B "S", VSharedString (B "xyz")); (B "Value", VRef 2)];
        mkInst 2 0 (B "Folder") (B "Folder") []].
Proof. vm_compute. reflexivity. Qed.
