(* XmlFileFacts.v — facts about the file-level model (Model/XmlFile.v): the shape of every document xml_encode produces,
   referents that are never `null`, `null` for empty references; the reader steps repaired in /repo (an ignored property
   leaves no trace in the parse state: 8e3b6855; the Name element of a class without a Name descriptor is read: 9d6f480a)
   proven for every input, with computed instances through the whole codec; the writer step of 62703803 (an explicit new
   value wins over a migrating legacy one) as a computed instance; and, about the `_pinned` definitions (= the code before
   those commits), the computed witnesses of what the implementation-side oracles used to report.  Standard library only. *)
From Coq Require Import List NArith ZArith Bool Lia String.
From RbxVerif Require Import Base Bytes Value Db CodecDom XmlEvents XmlValues XmlFile XmlInt XmlText.
Import ListNotations.
Open Scope list_scope.
Open Scope N_scope.

(* ---- every document is one `roblox` element of version 4 *)
Lemma xml_encode_with_root sprop e beh d roots evs :
  xml_encode_with sprop e beh d roots = Ok evs ->
  exists body, evs = WStart (B "roblox") [(B "version", B "4")] :: body ++ [WEnd].
Proof.
  unfold xml_encode_with. intro H.
  match type of H with (rbind ?X _ = _) => destruct X as [[body st]| |c|] eqn:E end; cbn [rbind] in H; try discriminate.
  inversion H. exists (body ++ serialize_shared_strings st). rewrite <- app_assoc. reflexivity.
Qed.

Theorem xml_encode_root e beh d roots evs :
  xml_encode e beh d roots = Ok evs ->
  exists body, evs = WStart (B "roblox") [(B "version", B "4")] :: body ++ [WEnd].
Proof. apply xml_encode_with_root. Qed.

(* ---- referents are decimal numbers: never the reserved word `null` *)
Theorem referent_never_null n : dec_of_N n <> B "null".
Proof. apply dec_of_N_not_null. Qed.

(* ---- an empty reference is written `null`, a non-empty one as the (numeric) referent of its target *)
Theorem empty_ref_written_null e st pname :
  write_value_xml e st pname (VRef 0) = Ok ([WStart (B "Ref") [(B "name", pname)]; WChars (B "null"); WEnd], st).
Proof. reflexivity. Qed.

(* ---- a shared string value adds its content to the dictionary that is written at the end *)
Theorem shared_string_defined e st pname c h evs st' :
  xe_hash e c = Some h -> write_value_xml e st pname (VSharedString c) = Ok (evs, st') ->
  exists c', bfind h (es_shared st') = Some c'.
Proof.
  intros Hh H. cbn [write_value_xml] in H. rewrite Hh in H. cbn [ask rbind] in H. inversion H; subst. cbn [es_shared].
  clear H. induction (es_shared st) as [|[h' c'] m IH]; cbn [shared_insert bfind].
  - rewrite bytes_eqb_refl. eexists; reflexivity.
  - destruct (bytes_ltb h h').
    + cbn [bfind]. rewrite bytes_eqb_refl. eexists; reflexivity.
    + destruct (bytes_eqb h h') eqn:E.
      * cbn [bfind]. rewrite bytes_eqb_refl. eexists; reflexivity.
      * cbn [bfind]. rewrite E. exact IH.
Qed.

(* ------------------------------------------------------------------ the repaired reader steps, for every input *)
Lemma firstn_length_app {A} (l : list A) x : firstn (length l) (l ++ x) = l.
Proof. rewrite firstn_app, Nat.sub_diag, firstn_all. cbn [firstn]. apply app_nil_r. Qed.

(* reading a value changes nothing of the parse state but the two rewrite queues, and those only by appending *)
Lemma read_prop_value_queues e st ty id pn evs ov st1 rest :
  read_prop_value e st ty id pn evs = Ok ((ov, st1), rest) -> drop_queued st st1 = st.
Proof.
  unfold read_prop_value, xbind. destruct (read_value_xml (xe_o e) ty evs) as [[rvl r]| |c|]; try discriminate.
  destruct st as [nodes next refs rw sh srw].
  destruct rvl; unfold xret; intro H; inversion H; subst; unfold drop_queued; cbn [ds_nodes ds_next ds_refs ds_rewrites ds_shared ds_srewrites];
    rewrite ?firstn_length_app, ?firstn_all; reflexivity.
Qed.

(* 8e3b6855: with IgnoreUnknown a property without a descriptor (other than Name) changes neither the parse state, in
   particular not the queues the second pass works off, nor the property map: whatever its type (Ref and SharedString
   included), it cannot reach the decoded DOM *)
Theorem ignored_property_leaves_no_trace e class id ty pname st props evs st' props' rest :
  bytes_eqb pname (B "Name") = false ->
  find_desc_xml (xe_db e) (S_ class) (S_ pname) = Ok None ->
  deserialize_property e DIgnoreUnknown class id ty pname st props evs = Ok ((st', props'), rest) ->
  st' = st /\ props' = props.
Proof.
  intros Hn Hd. unfold deserialize_property. rewrite Hn, Hd. unfold xlift, xbind at 1 2. 
  unfold xbind. destruct (read_prop_value e st ty id pname evs) as [[[ov st1] r]| |c|] eqn:E; try discriminate.
  unfold xret. intro H. inversion H; subst. split; [|reflexivity].
  exact (read_prop_value_queues _ _ _ _ _ _ _ _ _ E).
Qed.

Lemma read_string_element o a s rest :
  read_value_xml o (B "string") (RStart (B "string") a :: text_events s ++ REnd (B "string") :: rest) = Ok (RVal (VString s), rest).
Proof.
  change (read_value_xml o (B "string")) with (rv VString "string" x_chars).
  unfold rv, outer, x_in_tag, xbind, x_expect_start, x_next, xret. cbn [xbind]. rewrite bytes_eqb_refl.
  unfold x_chars. rewrite (x_chars_text_events s [] (REnd (B "string")) rest) by exact I. cbn [app].
  unfold x_expect_end, xbind, x_next. rewrite bytes_eqb_refl. reflexivity.
Qed.

(* 9d6f480a: whenever reflection is in use and the lookup finds no `Name` descriptor for the class (a class missing from
   the database, a class deriving from Object), the Name element, as the writer writes it, is read and kept *)
Theorem name_of_undescribed_class_is_read e beh class id a s st props rest :
  beh <> DNoReflection ->
  find_desc_xml (xe_db e) (S_ class) "Name" = Ok None ->
  deserialize_property e beh class id (B "string") (B "Name") st props (RStart (B "string") a :: text_events s ++ REnd (B "string") :: rest)
  = Ok ((st, bupd (B "Name") (VString s) props), rest).
Proof.
  intros Hb Hd. unfold deserialize_property.
  change (S_ (B "Name")) with "Name"%string. rewrite Hd.
  replace (bytes_eqb (B "Name") (B "Name")) with true by reflexivity.
  destruct beh; try (exfalso; apply Hb; reflexivity).
  all: cbn [rbind xlift]; unfold xbind, read_prop_value; unfold xbind, xlift; rewrite read_string_element; reflexivity.
Qed.

(* ------------------------------------------------------------------ computed witnesses *)
Definition o0 : xoracle := mkXO (fun _ => None) (fun _ => None) (fun _ => None) (fun _ => None) (fun _ => None) (fun _ => None).
Definition e0 : xenv := mkXE (mkDb [] []) [] [] o0 (fun _ => None).

Definition through (enc : ebehavior) (dec : dbehavior) (d : cdom) (roots : list N) : res cdom :=
  evs <- xml_encode e0 enc d roots ;; revs <- channel evs ;; xml_decode e0 dec revs.

Definition through_pinned (enc : ebehavior) (dec : dbehavior) (d : cdom) (roots : list N) : res cdom :=
  evs <- xml_encode_pinned e0 enc d roots ;; revs <- channel evs ;; xml_decode_pinned e0 dec revs.

(* Before 9d6f480a: with the default options an instance whose class the database does not know lost its Name: the `Name`
   element was an unknown property of an unknown class, read and thrown away, and the instance was named after its class. *)
Theorem name_lost_for_unknown_class_pinned :
  through_pinned EIgnoreUnknown DIgnoreUnknown [mkInst 1 0 (B "Zzz") (B "hello") []] [1]
  = Ok [mkInst 1 0 (B "Zzz") (B "Zzz") []].
Proof. vm_compute. reflexivity. Qed.

(* ... the repaired reader keeps it (names with leading/trailing whitespace and `]]>` included) *)
Theorem name_kept_for_unknown_class :
  through EIgnoreUnknown DIgnoreUnknown [mkInst 1 0 (B "Zzz") (B "hello") []; mkInst 2 1 (B "Yyy") (B " a ]]> b ") []] [1]
  = Ok [mkInst 1 0 (B "Zzz") (B "hello") []; mkInst 2 1 (B "Yyy") (B " a ]]> b ") []].
Proof. vm_compute. reflexivity. Qed.

(* the pairing that keeps unknown properties always preserved it *)
Theorem name_kept_with_read_unknown :
  through EWriteUnknown DReadUnknown [mkInst 1 0 (B "Zzz") (B " hello ]]> ") []] [1]
  = Ok [mkInst 1 0 (B "Zzz") (B " hello ]]> ") []].
Proof. vm_compute. reflexivity. Qed.

(* F2 (C12): two Items carrying one UniqueId decode to two instances with that UniqueId: properties are assigned after
   the insertion, so nothing checks them *)
Definition uid_text : bytes := B "00000000000000030000000200000001".
Definition item_with_uid (referent : string) : list revent :=
  [RStart (B "Item") [(B "class", B "Folder"); (B "referent", B referent)]; RStart (B "Properties") [];
   RStart (B "UniqueId") [(B "name", B "UniqueId")]; RChars uid_text; REnd (B "UniqueId"); REnd (B "Properties"); REnd (B "Item")].
Theorem duplicate_unique_ids_survive_decoding :
  xml_decode e0 DReadUnknown
    (RStartDoc :: RStart (B "roblox") [(B "version", B "4")] :: item_with_uid "a" ++ item_with_uid "b" ++ [REnd (B "roblox"); REndDoc])
  = Ok [mkInst 1 0 (B "Folder") (B "Folder") [(B "UniqueId", VUniqueId 1 2 3)];
        mkInst 2 0 (B "Folder") (B "Folder") [(B "UniqueId", VUniqueId 1 2 3)]].
Proof. vm_compute. reflexivity. Qed.

(* Before 8e3b6855: an unknown Ref property was "ignored" by DecodePropertyBehavior::IgnoreUnknown, yet read_ref had
   already queued a referent rewrite for it, and apply_referent_rewrites inserted the property afterwards. *)
Definition doc_ignored_ref : list revent :=
  [RStartDoc; RStart (B "roblox") [(B "version", B "4")];
   RStart (B "Item") [(B "class", B "Folder"); (B "referent", B "RBX1")]; RStart (B "Properties") [];
   RStart (B "Ref") [(B "name", B "Future")]; RChars (B "RBX1"); REnd (B "Ref");
   REnd (B "Properties"); REnd (B "Item"); REnd (B "roblox"); REndDoc].
Theorem ignored_ref_property_resurrected_pinned :
  xml_decode_pinned e0 DIgnoreUnknown doc_ignored_ref = Ok [mkInst 1 0 (B "Folder") (B "Folder") [(B "Future", VRef 1)]].
Proof. vm_compute. reflexivity. Qed.

(* the repaired reader: the property stays ignored; the same for a SharedString the dictionary defines *)
Theorem ignored_ref_property_stays_ignored :
  xml_decode e0 DIgnoreUnknown doc_ignored_ref = Ok [mkInst 1 0 (B "Folder") (B "Folder") []].
Proof. vm_compute. reflexivity. Qed.

Definition doc_ignored_shared : list revent :=
  [RStartDoc; RStart (B "roblox") [(B "version", B "4")];
   RStart (B "Item") [(B "class", B "Folder"); (B "referent", B "RBX1")]; RStart (B "Properties") [];
   RStart (B "SharedString") [(B "name", B "Future")]; RChars (B "k1"); REnd (B "SharedString");
   REnd (B "Properties"); REnd (B "Item");
   RStart (B "SharedStrings") []; RStart (B "SharedString") [(B "md5", B "k1")]; RChars (B "eHl6"); REnd (B "SharedString"); REnd (B "SharedStrings");
   REnd (B "roblox"); REndDoc].
Theorem ignored_shared_string_property_resurrected_pinned :
  xml_decode_pinned e0 DIgnoreUnknown doc_ignored_shared = Ok [mkInst 1 0 (B "Folder") (B "Folder") [(B "Future", VSharedString (B "xyz"))]].
Proof. vm_compute. reflexivity. Qed.
Theorem ignored_shared_string_property_stays_ignored :
  xml_decode e0 DIgnoreUnknown doc_ignored_shared = Ok [mkInst 1 0 (B "Folder") (B "Folder") []].
Proof. vm_compute. reflexivity. Qed.

(* 62703803 (C15, write path): a class with a legacy property MeshId migrating to MeshContent; an instance carrying both.
   Before the repair both were written as <Content name="MeshContent">, the explicit one first (MeshContent < MeshId), and
   the reader kept the later, legacy one; now the migrated legacy element is not written and the explicit value survives. *)
Definition db_mesh : db :=
  mkDb [mkCD "Mesh" None false
          [mkPD "MeshId" (DValue 8) (KCanon (PMigrate "MeshContent" MigContent));
           mkPD "MeshContent" (DValue 39) (KCanon PSerializes);
           mkPD "Name" (DValue 24) (KCanon PSerializes)] []] [].
Definition e_mesh : xenv := mkXE db_mesh [] [] o0 (fun _ => None).
Definition mesh_both : cdom :=
  [mkInst 1 0 (B "Mesh") (B "m") [(B "MeshId", VContentId (B "legacy")); (B "MeshContent", VContent (CUri (B "explicit")))]].
Theorem explicit_new_value_lost_pinned :
  (evs <- xml_encode_pinned e_mesh EIgnoreUnknown mesh_both [1] ;; revs <- channel evs ;; xml_decode e_mesh DIgnoreUnknown revs)
  = Ok [mkInst 1 0 (B "Mesh") (B "m") [(B "MeshContent", VContent (CUri (B "legacy")))]].
Proof. vm_compute. reflexivity. Qed.
Theorem explicit_new_value_wins :
  (evs <- xml_encode e_mesh EIgnoreUnknown mesh_both [1] ;; revs <- channel evs ;; xml_decode e_mesh DIgnoreUnknown revs)
  = Ok [mkInst 1 0 (B "Mesh") (B "m") [(B "MeshContent", VContent (CUri (B "explicit")))]].
Proof. vm_compute. reflexivity. Qed.
(* ... and a legacy property alone is still migrated *)
Theorem legacy_alone_still_migrated :
  (evs <- xml_encode e_mesh EIgnoreUnknown [mkInst 1 0 (B "Mesh") (B "m") [(B "MeshId", VContentId (B "legacy"))]] [1] ;;
   revs <- channel evs ;; xml_decode e_mesh DIgnoreUnknown revs)
  = Ok [mkInst 1 0 (B "Mesh") (B "m") [(B "MeshContent", VContent (CUri (B "legacy")))]].
Proof. vm_compute. reflexivity. Qed.

(* a forward reference and a shared string are resolved by the second pass *)
Theorem forward_ref_and_shared_string_resolved :
  xml_decode e0 DReadUnknown
    [RStartDoc; RStart (B "roblox") [(B "version", B "4")];
     RStart (B "Item") [(B "class", B "ObjectValue"); (B "referent", B "A")]; RStart (B "Properties") [];
     RStart (B "Ref") [(B "name", B "Value")]; RChars (B "B"); REnd (B "Ref");
     RStart (B "SharedString") [(B "name", B "S")]; RChars (B "k1"); REnd (B "SharedString");
     REnd (B "Properties"); REnd (B "Item");
     RStart (B "Item") [(B "class", B "Folder"); (B "referent", B "B")]; REnd (B "Item");
     RStart (B "SharedStrings") []; RStart (B "SharedString") [(B "md5", B "k1")]; RChars (B "eHl6"); REnd (B "SharedString"); REnd (B "SharedStrings");
     REnd (B "roblox"); REndDoc]
  = Ok [mkInst 1 0 (B "ObjectValue") (B "ObjectValue") [(B "S", VSharedString (B "xyz")); (B "Value", VRef 2)];
        mkInst 2 0 (B "Folder") (B "Folder") []].
Proof. vm_compute. reflexivity. Qed.
