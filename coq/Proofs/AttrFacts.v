(* AttrFacts.v — theorems about the attribute blob codec of Model/Attr.v (property C14):
     attr_empty, type_id_table_inj, the per-type value round trips, attr_roundtrip
     (wf_amap m -> attr_encode m = Ok b -> attr_decode b = Ok (norm m)),
   and the agreement of the model with the independent document codec Spec/AttrSpec.v on the rotation table. *)
From RbxVerif Require Import Base Bytes Value Utf8 Rotation BrickColor Attr BytesFacts RotationFacts.
From Coq Require Import Lia.
Open Scope N_scope.

(* ================================================================ small facts *)
Theorem attr_empty : attr_encode [] = Ok [] /\ attr_decode [] = Ok [].
Proof. split; reflexivity. Qed.

(* the type id table is injective in both directions: no two types share an id, no type has two ids *)
Fixpoint nodupb (l : list N) : bool :=
  match l with [] => true | x :: r => negb (mem x r) && nodupb r end.
Lemma mem_in x l : In x l -> mem x l = true.
Proof.
  induction l as [|y l IH]; [easy|]. intros [->|H]; cbn; [now rewrite N.eqb_refl|].
  destruct (N.eqb x y); [easy|now apply IH].
Qed.
Lemma nodupb_NoDup l : nodupb l = true -> NoDup l.
Proof.
  induction l as [|x r IH]; intros H; [constructor|]. cbn in H. apply andb_true_iff in H. destruct H as [Hx Hr].
  constructor; [|now apply IH]. intros Hin. rewrite (mem_in _ _ Hin) in Hx. discriminate.
Qed.

Lemma assoc_fst_in k t id : assoc_fst k t = Some id -> In (k, id) t.
Proof.
  induction t as [|[a b] r IH]; cbn; [discriminate|].
  destruct (N.eqb_spec k a) as [->|]; [intros [= ->]; now left|intros H; right; now apply IH].
Qed.
Lemma assoc_snd_in k t ty : assoc_snd k t = Some ty -> In (ty, k) t.
Proof.
  induction t as [|[a b] r IH]; cbn; [discriminate|].
  destruct (N.eqb_spec k b) as [->|]; [intros [= ->]; now left|intros H; right; now apply IH].
Qed.

Lemma nodup_map_inj {A B} (f : A -> B) (l : list A) x y :
  NoDup (List.map f l) -> In x l -> In y l -> f x = f y -> x = y.
Proof.
  induction l as [|a l IH]; [easy|]. cbn. intros Hnd [->|Hx] [->|Hy] E; try reflexivity.
  - inversion Hnd as [|? ? Hn _]. exfalso. apply Hn. rewrite E. now apply in_map.
  - inversion Hnd as [|? ? Hn _]. exfalso. apply Hn. rewrite <- E. now apply in_map.
  - inversion Hnd. now apply IH.
Qed.

Theorem type_id_table_inj :
  NoDup (List.map fst attr_type_ids) /\ NoDup (List.map snd attr_type_ids) /\
  (forall t1 t2 id, to_variant_type id = Some t1 -> to_variant_type id = Some t2 -> t1 = t2) /\
  (forall ty id, to_variant_type id = Some ty -> from_variant_type ty = Some id) /\
  (forall t1 t2 id, from_variant_type t1 = Some id -> from_variant_type t2 = Some id ->
                    t1 = t2 \/ (id = 0x02 /\ (t1 = VT_String \/ t2 = VT_String))).
Proof.
  assert (N1 : NoDup (List.map fst attr_type_ids)) by (apply nodupb_NoDup; vm_compute; reflexivity).
  assert (N2 : NoDup (List.map snd attr_type_ids)) by (apply nodupb_NoDup; vm_compute; reflexivity).
  split; [exact N1|]. split; [exact N2|]. split; [|split].
  - intros t1 t2 id H1 H2. congruence.
  - intros ty id H. apply assoc_snd_in in H. unfold from_variant_type.
    destruct (assoc_fst ty attr_type_ids) as [id'|] eqn:E.
    + apply assoc_fst_in in E. f_equal.
      exact (f_equal snd (nodup_map_inj fst attr_type_ids (ty, id') (ty, id) N1 E H eq_refl)).
    + exfalso. revert E. clear -H. induction attr_type_ids as [|[a b] r IH]; [easy|]. cbn.
      destruct H as [[= -> ->]|H]; [now rewrite N.eqb_refl|]. destruct (N.eqb ty a); [discriminate|now apply IH].
  - intros t1 t2 id H1 H2. unfold from_variant_type in H1, H2.
    destruct (assoc_fst t1 attr_type_ids) as [i1|] eqn:E1; destruct (assoc_fst t2 attr_type_ids) as [i2|] eqn:E2.
    + injection H1 as ->. injection H2 as ->. apply assoc_fst_in in E1, E2. left.
      exact (f_equal fst (nodup_map_inj snd attr_type_ids (t1, id) (t2, id) N2 E1 E2 eq_refl)).
    + destruct (N.eqb_spec t2 VT_String); [|discriminate]. injection H2 as <-. right. split; [congruence|now right].
    + destruct (N.eqb_spec t1 VT_String); [|discriminate]. injection H1 as <-. right. split; [congruence|now left].
    + destruct (N.eqb_spec t1 VT_String); [|discriminate]. destruct (N.eqb_spec t2 VT_String); [|discriminate].
      left. congruence.
Qed.

(* every number of the BrickColor table is a u16 *)
Lemma brick_valid_u16 n : brick_valid n = true -> n < 65536.
Proof.
  assert (H : forallb (fun k => N.ltb k 65536) brick_numbers = true) by (vm_compute; reflexivity).
  unfold brick_valid. intros Hm. rewrite forallb_forall in H.
  assert (Hin : In n brick_numbers).
  { revert Hm. generalize brick_numbers. induction l as [|y l IH]; cbn; [discriminate|].
    destruct (N.eqb_spec n y) as [->|]; [now left|]. intros Hm. right. now apply IH. }
  apply N.ltb_lt. now apply H.
Qed.

(* ================================================================ well-formedness: the Rust type invariants and
   the `as u32` size guards *)
Definition len32 {A} (l : list A) : bool := N.ltb (N.of_nat (length l)) 4294967296.
Definition wf_bytes (s : bytes) : bool := bytes_ok s && len32 s.                  (* Vec<u8>, len() as u32 exact *)
Definition wf_string (s : bytes) : bool := wf_bytes s && utf8_valid s.            (* String *)
Definition udim_ok (u : udim) : bool := f32_ok (ud_scale u) && in_i32 (ud_offset u).

Definition wf_value (v : value) : bool :=
  match v with
  | VBrickColor n => brick_valid n
  | VColor3 r g b => f32_ok r && f32_ok g && f32_ok b
  | VColorSequence kps =>
      len32 kps && forallb (fun kp => let '(t, (r, g, b)) := kp in f32_ok t && f32_ok r && f32_ok g && f32_ok b) kps
  | VInt32 z => in_i32 z
  | VFloat32 x => f32_ok x
  | VFloat64 x => f64_ok x
  | VNumberRange lo hi => f32_ok lo && f32_ok hi
  | VNumberSequence kps =>
      len32 kps && forallb (fun kp => let '(t, v, e) := kp in f32_ok t && f32_ok v && f32_ok e) kps
  | VRect lo hi => vec2_ok lo && vec2_ok hi
  | VBinaryString s => wf_bytes s
  | VString s => wf_bytes s
  | VUDim u => udim_ok u
  | VUDim2 x y => udim_ok x && udim_ok y
  | VVector2 v => vec2_ok v
  | VVector3 v => vec3_ok v
  | VCFrame c => cframe_ok c
  | VFont f =>
      wf_string (fo_family f) && mem (fo_weight f) font_weights && N.leb (fo_style f) 1 &&
      match fo_cached f with Some s => wf_string s | None => true end
  | VEnumItem ty n => wf_string ty && N.ltb n 4294967296
  | _ => true                       (* Bool; types the writer rejects are irrelevant to the round trip *)
  end.

(* BTreeMap<String, Variant>: strictly increasing names (byte order), every name a String *)
Fixpoint amap_sorted (m : amap) : bool :=
  match m with
  | [] => true
  | (k, _) :: r => forallb (fun e => bytes_ltb k (fst e)) r && amap_sorted r
  end.
Definition wf_entry (e : bytes * value) : bool := wf_string (fst e) && wf_value (snd e).
Definition wf_amap (m : amap) : bool := len32 m && amap_sorted m && forallb wf_entry m.

(* ================================================================ reading what was written: primitives *)
Lemma pmap_err_ok {A} c (p : parser A) b r : p b = Ok r -> pmap_err c p b = Ok r.
Proof. unfold pmap_err. now intros ->. Qed.

Lemma rd_u8 v rest : v < 256 -> read_u8 (write_u8 v ++ rest) = Ok (v, rest).
Proof. intros H. exact (read_le_app 1 v rest H). Qed.
Lemma rd_u16 v rest : v < 65536 -> read_u16 (write_u16 v ++ rest) = Ok (v, rest).
Proof. intros H. exact (read_le_app 2 v rest H). Qed.
Lemma rd_u32 v rest : v < 4294967296 -> read_u32 (write_u32 v ++ rest) = Ok (v, rest).
Proof. intros H. exact (read_le_app 4 v rest H). Qed.
Lemma rd_f32 x rest : f32_ok x = true -> read_f32 (write_f32 x ++ rest) = Ok (x, rest).
Proof. intros H. apply N.ltb_lt in H. exact (read_le_app 4 x rest H). Qed.
Lemma rd_f64 x rest : f64_ok x = true -> read_f64 (write_f64 x ++ rest) = Ok (x, rest).
Proof. intros H. apply N.ltb_lt in H. exact (read_le_app 8 x rest H). Qed.
Lemma rd_i32 z rest : in_i32 z = true -> read_i32 (write_i32 z ++ rest) = Ok (z, rest).
Proof.
  intros H. unfold read_i32, read_le_i, write_i32, i32_bits.
  rewrite (pbind_ok_intro _ _ _ (wrap_u 32 z) rest).
  - unfold pret. now rewrite wrap_roundtrip32.
  - apply read_le_app. exact (wrap_u32_bound z).
Qed.

Lemma len32_as_u32 {A} (l : list A) : len32 l = true -> as_u32 (N.of_nat (length l)) = N.of_nat (length l).
Proof. unfold len32, as_u32. intros H. apply N.ltb_lt in H. now apply N.mod_small. Qed.

Lemma read_vec_spec size b : read_vec size b = read_exact (N.to_nat size) b.
Proof.
  unfold read_vec. destruct (N.ltb_spec (N.of_nat (length b)) size) as [H|H]; [|reflexivity].
  symmetry. apply read_exact_short. lia.
Qed.

Lemma rd_string s rest : len32 s = true -> read_string (write_string s ++ rest) = Ok (s, rest).
Proof.
  intros H. unfold read_string, write_string. rewrite <- app_assoc, (len32_as_u32 _ H).
  rewrite (pbind_ok_intro _ _ _ (N.of_nat (length s)) (s ++ rest)).
  - rewrite read_vec_spec, Nnat.Nat2N.id. apply read_exact_app.
  - apply rd_u32. unfold len32 in H. now apply N.ltb_lt.
Qed.

(* one step of a parser sequence: the first parser consumes its own encoding *)
Ltac pstep L :=
  rewrite <- ?app_assoc;
  erewrite pbind_ok_intro; [| first [apply pmap_err_ok; apply L | apply L]; first [assumption | lia | idtac]].

Lemma rd_color3 r g b rest : f32_ok r = true -> f32_ok g = true -> f32_ok b = true ->
  read_color3 (write_color3 r g b ++ rest) = Ok ((r, g, b), rest).
Proof.
  intros Hr Hg Hb. unfold read_color3, write_color3.
  pstep rd_f32. pstep rd_f32. pstep rd_f32. reflexivity.
Qed.
Lemma rd_udim u rest : udim_ok u = true -> read_udim (write_udim u ++ rest) = Ok (u, rest).
Proof.
  intros H. apply andb_true_iff in H. destruct H as [Hs Ho]. unfold read_udim, write_udim.
  pstep rd_f32. pstep rd_i32. destruct u; reflexivity.
Qed.
Lemma rd_vector2 v rest : vec2_ok v = true -> read_vector2 (write_vector2 v ++ rest) = Ok (v, rest).
Proof.
  intros H. apply andb_true_iff in H. destruct H as [Hx Hy]. unfold read_vector2, write_vector2.
  pstep rd_f32. pstep rd_f32. destruct v; reflexivity.
Qed.
Lemma rd_vector3 v rest : vec3_ok v = true -> read_vector3 (write_vector3 v ++ rest) = Ok (v, rest).
Proof.
  intros H. unfold vec3_ok in H. apply andb_true_iff in H. destruct H as [H Hz]. apply andb_true_iff in H. destruct H as [Hx Hy].
  unfold read_vector3, write_vector3.
  pstep rd_f32. pstep rd_f32. pstep rd_f32. destruct v; reflexivity.
Qed.

(* loops *)
Lemma flat_map_min_length {A} (enc : A -> bytes) l :
  (forall a, (1 <= length (enc a))%nat) -> (length l <= length (flat_map enc l))%nat.
Proof.
  intros H. induction l as [|a l IH]; cbn; [lia|]. rewrite app_length. specialize (H a). lia.
Qed.

Lemma ploop_app {A} (p : parser A) (enc : A -> bytes) (P : A -> bool) :
  (forall a rest, P a = true -> p (enc a ++ rest) = Ok (a, rest)) ->
  forall l fuel rest, forallb P l = true -> (length l <= fuel)%nat ->
  ploop fuel (N.of_nat (length l)) p (flat_map enc l ++ rest) = Ok (l, rest).
Proof.
  intros Hp. induction l as [|a l IH]; intros fuel rest Hl Hf.
  - destruct fuel; reflexivity.
  - cbn [forallb] in Hl. apply andb_true_iff in Hl. destruct Hl as [Ha Hl].
    destruct fuel as [|f]; [cbn in Hf; lia|]. cbn [length flat_map ploop].
    replace (N.eqb (N.of_nat (S (length l))) 0) with false by (symmetry; apply N.eqb_neq; lia).
    rewrite <- app_assoc, (Hp a _ Ha).
    replace (N.pred (N.of_nat (S (length l)))) with (N.of_nat (length l)) by lia.
    rewrite IH; [reflexivity|assumption|cbn in Hf; lia].
Qed.

Lemma pfor_app {A} (p : parser A) (enc : A -> bytes) (P : A -> bool) l rest :
  (forall a rest, P a = true -> p (enc a ++ rest) = Ok (a, rest)) ->
  (forall a, (1 <= length (enc a))%nat) ->
  forallb P l = true ->
  pfor (N.of_nat (length l)) p (flat_map enc l ++ rest) = Ok (l, rest).
Proof.
  intros Hp Hne Hl. unfold pfor. apply (ploop_app p enc P Hp); [assumption|].
  rewrite app_length. pose proof (flat_map_min_length enc l Hne). lia.
Qed.

(* ================================================================ per-type round trips:
   reading (as type [ty]) the bytes written for [v], followed by anything, yields [norm_value v] and leaves the rest *)
Lemma from_utf8_ok buf code b : utf8_valid buf = true -> from_utf8 buf code b = Ok (buf, b).
Proof. unfold from_utf8. now intros ->. Qed.

Ltac open_rv := unfold read_value; cbv beta iota.
Ltac split_and :=
  repeat match goal with
         | H : (_ && _)%bool = true |- _ => apply andb_true_iff in H; destruct H
         end.

Lemma rt_bool (b : bool) rest : read_value 2 ([if b then 1 else 0] ++ rest) = Ok (VBool b, rest).
Proof. destruct b; reflexivity. Qed.

Lemma rt_brick n rest : brick_valid n = true ->
  read_value 3 (write_u32 n ++ rest) = Ok (VBrickColor n, rest).
Proof.
  intros H. pose proof (brick_valid_u16 n H) as Hn. open_rv.
  pstep rd_u32. cbv beta zeta. rewrite (N.mod_small n 65536 Hn), H. reflexivity.
Qed.

Lemma rt_color3 r g b rest : f32_ok r = true -> f32_ok g = true -> f32_ok b = true ->
  read_value 5 (write_color3 r g b ++ rest) = Ok (VColor3 r g b, rest).
Proof. intros Hr Hg Hb. open_rv. pstep rd_color3. reflexivity. Qed.

Lemma rt_int32 z rest : in_i32 z = true -> read_value 13 (write_i32 z ++ rest) = Ok (VInt32 z, rest).
Proof. intros H. open_rv. pstep rd_i32. reflexivity. Qed.
Lemma rt_float32 x rest : f32_ok x = true -> read_value 11 (write_f32 x ++ rest) = Ok (VFloat32 x, rest).
Proof. intros H. open_rv. pstep rd_f32. reflexivity. Qed.
Lemma rt_float64 x rest : f64_ok x = true -> read_value 12 (write_f64 x ++ rest) = Ok (VFloat64 x, rest).
Proof. intros H. open_rv. pstep rd_f64. reflexivity. Qed.
Lemma rt_number_range lo hi rest : f32_ok lo = true -> f32_ok hi = true ->
  read_value 15 ((write_f32 lo ++ write_f32 hi) ++ rest) = Ok (VNumberRange lo hi, rest).
Proof. intros H1 H2. open_rv. pstep rd_f32. pstep rd_f32. reflexivity. Qed.
Lemma rt_rect lo hi rest : vec2_ok lo = true -> vec2_ok hi = true ->
  read_value 19 ((write_vector2 lo ++ write_vector2 hi) ++ rest) = Ok (VRect lo hi, rest).
Proof. intros H1 H2. open_rv. pstep rd_vector2. pstep rd_vector2. reflexivity. Qed.
Lemma rt_binary_string s rest : len32 s = true ->
  read_value 1 (write_string s ++ rest) = Ok (VBinaryString s, rest).
Proof. intros H. open_rv. pstep rd_string. reflexivity. Qed.
Lemma rt_udim u rest : udim_ok u = true -> read_value 25 (write_udim u ++ rest) = Ok (VUDim u, rest).
Proof. intros H. open_rv. pstep rd_udim. reflexivity. Qed.
Lemma rt_udim2 x y rest : udim_ok x = true -> udim_ok y = true ->
  read_value 26 ((write_udim x ++ write_udim y) ++ rest) = Ok (VUDim2 x y, rest).
Proof. intros H1 H2. open_rv. pstep rd_udim. pstep rd_udim. reflexivity. Qed.
Lemma rt_vector2 v rest : vec2_ok v = true -> read_value 27 (write_vector2 v ++ rest) = Ok (VVector2 v, rest).
Proof.
  intros H. unfold vec2_ok in H. split_and. open_rv. unfold write_vector2.
  pstep rd_f32. pstep rd_f32. destruct v; reflexivity.
Qed.
Lemma rt_vector3 v rest : vec3_ok v = true ->
  read_value 29 ((write_f32 (vx v) ++ write_f32 (vy v) ++ write_f32 (vz v)) ++ rest) = Ok (VVector3 v, rest).
Proof.
  intros H. unfold vec3_ok in H. split_and. open_rv.
  pstep rd_f32. pstep rd_f32. pstep rd_f32. destruct v; reflexivity.
Qed.

Definition nseq_enc (kp : f32 * f32 * f32) : bytes := let '(t, v, e) := kp in write_f32 e ++ write_f32 t ++ write_f32 v.
Definition nseq_ok (kp : f32 * f32 * f32) : bool := let '(t, v, e) := kp in f32_ok t && f32_ok v && f32_ok e.
Lemma rt_number_sequence kps rest : len32 kps = true -> forallb nseq_ok kps = true ->
  read_value 16 ((write_u32 (as_u32 (N.of_nat (length kps))) ++ flat_map nseq_enc kps) ++ rest) = Ok (VNumberSequence kps, rest).
Proof.
  intros Hl Hk. open_rv. rewrite (len32_as_u32 _ Hl).
  pstep rd_u32; [|unfold len32 in Hl; now apply N.ltb_lt].
  erewrite pbind_ok_intro; [reflexivity|].
  apply (pfor_app _ nseq_enc nseq_ok); [| |exact Hk].
  - intros [[t v] e] r H. unfold nseq_ok in H. split_and. unfold nseq_enc.
    pstep rd_f32. pstep rd_f32. pstep rd_f32. reflexivity.
  - intros [[t v] e]. unfold nseq_enc, write_f32. rewrite !app_length, !le_bytes_length. lia.
Qed.

Definition cseq_enc (kp : f32 * (f32 * f32 * f32)) : bytes :=
  let '(t, (r, g, b)) := kp in write_f32 F32_ZERO ++ write_f32 t ++ write_color3 r g b.
Definition cseq_ok (kp : f32 * (f32 * f32 * f32)) : bool :=
  let '(t, (r, g, b)) := kp in f32_ok t && f32_ok r && f32_ok g && f32_ok b.
Lemma rt_color_sequence kps rest : len32 kps = true -> forallb cseq_ok kps = true ->
  read_value 7 ((write_u32 (as_u32 (N.of_nat (length kps))) ++ flat_map cseq_enc kps) ++ rest) = Ok (VColorSequence kps, rest).
Proof.
  intros Hl Hk. open_rv. rewrite (len32_as_u32 _ Hl).
  pstep rd_u32; [|unfold len32 in Hl; now apply N.ltb_lt].
  erewrite pbind_ok_intro; [reflexivity|].
  apply (pfor_app _ cseq_enc cseq_ok); [| |exact Hk].
  - intros [t [[r g] b]] rs H. unfold cseq_ok in H. split_and. unfold cseq_enc.
    pstep rd_f32; [|reflexivity]. pstep rd_f32. pstep rd_color3. reflexivity.
  - intros [t [[r g] b]]. unfold cseq_enc, write_color3, write_f32. rewrite !app_length, !le_bytes_length. lia.
Qed.

Lemma rt_enum_item ty n rest : wf_string ty = true -> n < 4294967296 ->
  read_value 38 ((write_string ty ++ write_u32 n) ++ rest) = Ok (VEnumItem ty n, rest).
Proof.
  intros H Hn. unfold wf_string, wf_bytes in H. split_and. open_rv.
  pstep rd_string. pstep rd_u32. rewrite (pbind_ok_intro _ _ _ ty rest (from_utf8_ok _ _ _ H0)). reflexivity.
Qed.

Lemma font_weight_u16 w : mem w font_weights = true -> w < 65536 /\ font_weight_or_default w = w.
Proof.
  intros H. split; [|unfold font_weight_or_default; now rewrite H].
  unfold font_weights in H. cbn in H.
  repeat match type of H with (if N.eqb ?a ?b then _ else _) = _ => destruct (N.eqb_spec a b); [subst; reflexivity|] end.
  discriminate.
Qed.

Lemma wf_string_parts s : wf_string s = true -> bytes_ok s = true /\ len32 s = true /\ utf8_valid s = true.
Proof.
  unfold wf_string, wf_bytes. intros H. apply andb_true_iff in H. destruct H as [H Hu].
  apply andb_true_iff in H. destruct H as [Hb Hl]. now repeat split.
Qed.

Lemma rt_font f rest : wf_value (VFont f) = true ->
  read_value 34 ((write_u16 (fo_weight f) ++ write_u8 (fo_style f) ++ write_string (fo_family f) ++
                  write_string (match fo_cached f with Some s => s | None => [] end)) ++ rest)
  = Ok (norm_value (VFont f), rest).
Proof.
  intros H. cbn [wf_value] in H.
  apply andb_true_iff in H. destruct H as [H Hc]. apply andb_true_iff in H. destruct H as [H Hst].
  apply andb_true_iff in H. destruct H as [Hfam Hmem].
  destruct (wf_string_parts _ Hfam) as [_ [Hfl Hfu]].
  destruct (font_weight_u16 _ Hmem) as [Hw Hw']. apply N.leb_le in Hst.
  assert (Hs : font_style_or_default (fo_style f) = fo_style f).
  { unfold font_style_or_default. destruct (N.leb_spec (fo_style f) 1); [reflexivity|lia]. }
  open_rv.
  pstep rd_u16. pstep rd_u8. pstep rd_string.
  rewrite (pbind_ok_intro _ _ _ (fo_family f) _ (from_utf8_ok _ _ _ Hfu)).
  destruct f as [fam w s [c|]]; cbn [fo_family fo_weight fo_style fo_cached norm_value] in *.
  - destruct (wf_string_parts _ Hc) as [_ [Hcl Hcu]].
    pstep rd_string. destruct c as [|x c].
    + rewrite Hw', Hs. reflexivity.
    + rewrite (pbind_ok_intro _ _ _ (Some (x :: c)) rest).
      * unfold pret. rewrite Hw', Hs. reflexivity.
      * rewrite (pbind_ok_intro _ _ _ (x :: c) rest (from_utf8_ok _ _ _ Hcu)). reflexivity.
  - pstep rd_string. rewrite Hw', Hs. reflexivity.
Qed.

Lemma rt_cframe c rest : cframe_ok c = true ->
  read_value 4 ((write_vector3 (cf_pos c) ++
                 match to_basic_rotation_id (cf_rot c) with
                 | Some rotation_id => write_u8 rotation_id
                 | None => write_u8 0 ++ write_vector3 (mx (cf_rot c)) ++ write_vector3 (my (cf_rot c)) ++ write_vector3 (mz (cf_rot c))
                 end) ++ rest)
  = Ok (norm_value (VCFrame c), rest).
Proof.
  intros H. unfold cframe_ok, mat3_ok in H. split_and. open_rv. cbn [norm_value].
  pstep rd_vector3.
  destruct (to_basic_rotation_id (cf_rot c)) as [id|] eqn:E.
  - destruct (to_basic_some _ _ E) as [b [Hb [Hnz Hlt]]]. rewrite Hb.
    pstep rd_u8. cbv beta. destruct (N.eqb_spec id 0) as [->|_]; [easy|]. rewrite Hb. reflexivity.
  - pstep rd_u8. cbv beta. rewrite N.eqb_refl.
    pstep rd_vector3. pstep rd_vector3. pstep rd_vector3.
    destruct c as [p [x y z]]; reflexivity.
Qed.

(* ================================================================ any supported value *)
Lemma value_roundtrip v id body :
  wf_value v = true -> from_variant_type (vtype v) = Some id -> write_value v = Ok body ->
  id < 256 /\
  exists ty, to_variant_type id = Some ty /\
             forall rest, read_value ty (body ++ rest) = Ok (norm_value v, rest).
Proof.
  intros Hwf Hid Hw.
  destruct v; cbn [write_value] in Hw; try discriminate Hw; injection Hw as <-;
    vm_compute in Hid; injection Hid as <-; cbn [wf_value] in Hwf; (split; [reflexivity|]).
  - (* BinaryString *) exists 1. split; [reflexivity|]. intros rest. unfold wf_bytes in Hwf. split_and.
    now apply rt_binary_string.
  - (* Bool *) exists 2. split; [reflexivity|]. intros rest. apply rt_bool.
  - (* BrickColor *) exists 3. split; [reflexivity|]. intros rest. now apply rt_brick.
  - (* CFrame *) exists 4. split; [reflexivity|]. intros rest. now apply rt_cframe.
  - (* Color3 *) exists 5. split; [reflexivity|]. intros rest. split_and. now apply rt_color3.
  - (* ColorSequence *) exists 7. split; [reflexivity|]. intros rest. split_and. now apply rt_color_sequence.
  - (* Float32 *) exists 11. split; [reflexivity|]. intros rest. now apply rt_float32.
  - (* Float64 *) exists 12. split; [reflexivity|]. intros rest. now apply rt_float64.
  - (* Int32 *) exists 13. split; [reflexivity|]. intros rest. now apply rt_int32.
  - (* NumberRange *) exists 15. split; [reflexivity|]. intros rest. split_and. now apply rt_number_range.
  - (* NumberSequence *) exists 16. split; [reflexivity|]. intros rest. split_and. now apply rt_number_sequence.
  - (* Rect *) exists 19. split; [reflexivity|]. intros rest. split_and. now apply rt_rect.
  - (* String, read back as BinaryString *) exists 1. split; [reflexivity|]. intros rest. unfold wf_bytes in Hwf. split_and.
    now apply rt_binary_string.
  - (* UDim *) exists 25. split; [reflexivity|]. intros rest. now apply rt_udim.
  - (* UDim2 *) exists 26. split; [reflexivity|]. intros rest. split_and. now apply rt_udim2.
  - (* Vector2 *) exists 27. split; [reflexivity|]. intros rest. now apply rt_vector2.
  - (* Vector3 *) exists 29. split; [reflexivity|]. intros rest. now apply rt_vector3.
  - (* Font *) exists 34. split; [reflexivity|]. intros rest. now apply rt_font.
  - (* EnumItem *) exists 38. split; [reflexivity|]. intros rest. split_and. apply rt_enum_item; [assumption|now apply N.ltb_lt].
Qed.

(* ================================================================ the order of names *)
Lemma bytes_ltb_irrefl a : bytes_ltb a a = false.
Proof. induction a as [|x a IH]; [reflexivity|]. cbn. now rewrite N.ltb_irrefl. Qed.

Lemma bytes_ltb_asym a : forall b, bytes_ltb a b = true -> bytes_ltb b a = false.
Proof.
  induction a as [|x a IH]; intros [|y b]; cbn; try easy.
  destruct (N.ltb_spec x y), (N.ltb_spec y x); try easy; try lia. apply IH.
Qed.

Lemma bytes_ltb_neq a : forall b, bytes_ltb a b = true -> bytes_eqb b a = false.
Proof.
  induction a as [|x a IH]; intros [|y b]; cbn; try easy.
  destruct (N.ltb_spec x y) as [H|H].
  - intros _. destruct (N.eqb_spec y x); [lia|reflexivity].
  - destruct (N.ltb_spec y x); [easy|]. intros Hab. rewrite (IH _ Hab). apply andb_false_r.
Qed.

Lemma bytes_ltb_trans a : forall b c, bytes_ltb a b = true -> bytes_ltb b c = true -> bytes_ltb a c = true.
Proof.
  induction a as [|x a IH]; intros [|y b] [|z c]; cbn; try easy.
  destruct (N.ltb_spec x y), (N.ltb_spec y x), (N.ltb_spec y z), (N.ltb_spec z y), (N.ltb_spec x z), (N.ltb_spec z x);
    try easy; try lia. apply IH.
Qed.

(* inserting a name greater than all present appends *)
Lemma amap_insert_append k v acc :
  forallb (fun e => bytes_ltb (fst e) k) acc = true -> amap_insert k v acc = acc ++ [(k, v)].
Proof.
  induction acc as [|[k' v'] r IH]; [reflexivity|]. cbn [forallb fst]. intros H.
  apply andb_true_iff in H. destruct H as [Hk Hr]. cbn [amap_insert app].
  rewrite (bytes_ltb_asym _ _ Hk), (bytes_ltb_neq _ _ Hk), (IH Hr). reflexivity.
Qed.

(* ================================================================ entries and the map *)
Lemma ok_inj {A} (a b : A) : @Ok A a = Ok b -> a = b.
Proof. congruence. Qed.

Lemma write_u8_small id : id < 256 -> write_u8 id = [id].
Proof. intros H. unfold write_u8. cbn. now rewrite N.mod_small. Qed.

Lemma entry_roundtrip k v ebytes rest :
  wf_entry (k, v) = true -> write_entry (k, v) = Ok ebytes ->
  read_entry (ebytes ++ rest) = Ok ((k, norm_value v), rest).
Proof.
  unfold wf_entry. cbn [fst snd]. intros Hwf Hw. apply andb_true_iff in Hwf. destruct Hwf as [Hk Hv].
  destruct (wf_string_parts _ Hk) as [_ [Hkl Hku]].
  unfold write_entry in Hw. destruct (from_variant_type (vtype v)) as [id|] eqn:Hid; [|discriminate].
  destruct (write_value v) as [body| | |] eqn:Hb; try discriminate. cbn [rbind] in Hw. apply ok_inj in Hw. subst ebytes.
  destruct (value_roundtrip v id body Hv Hid Hb) as [Hlt [ty [Hty Hrd]]].
  unfold read_entry.
  pstep rd_string.
  rewrite (pbind_ok_intro _ _ _ k _ (from_utf8_ok _ _ _ Hku)).
  rewrite <- (write_u8_small id Hlt).
  pstep rd_u8. rewrite Hty.
  rewrite (pbind_ok_intro _ _ _ (norm_value v) rest (Hrd rest)). reflexivity.
Qed.

Lemma write_entry_nonempty e b : write_entry e = Ok b -> (1 <= length b)%nat.
Proof.
  destruct e as [k v]. unfold write_entry. destruct (from_variant_type (vtype v)); [|discriminate].
  destruct (write_value v); try discriminate. cbn [rbind]. intros H. apply ok_inj in H. subst b.
  unfold write_string, write_u32. rewrite !app_length, le_bytes_length. lia.
Qed.

Lemma write_entries_length m b : write_entries m = Ok b -> (length m <= length b)%nat.
Proof.
  revert b. induction m as [|e m IH]; intros b; cbn [write_entries]; [intros [= <-]; cbn; lia|].
  destruct (write_entry e) as [a| | |] eqn:Ha; try discriminate. cbn [rbind].
  destruct (write_entries m) as [b'| | |] eqn:Hb; try discriminate. cbn [rbind]. intros [= <-].
  rewrite app_length. pose proof (write_entry_nonempty _ _ Ha). specialize (IH _ eq_refl). cbn [length]. lia.
Qed.

Lemma norm_cons e m : norm (e :: m) = (fst e, norm_value (snd e)) :: norm m.
Proof. reflexivity. Qed.

Lemma read_entries_app m : forall fuel acc body rest,
  forallb wf_entry m = true -> amap_sorted m = true ->
  (forall e, In e m -> forallb (fun a => bytes_ltb (fst a) (fst e)) acc = true) ->
  write_entries m = Ok body -> (length m <= fuel)%nat ->
  read_entries fuel (N.of_nat (length m)) acc (body ++ rest) = Ok (acc ++ norm m, rest).
Proof.
  induction m as [|[k v] m IH]; intros fuel acc body rest Hwf Hs Hacc Hw Hf.
  - cbn in Hw. injection Hw as <-. destruct fuel; cbn; now rewrite app_nil_r.
  - cbn [write_entries] in Hw. destruct (write_entry (k, v)) as [a| | |] eqn:Ha; try discriminate. cbn [rbind] in Hw.
    destruct (write_entries m) as [b'| | |] eqn:Hb; try discriminate. cbn [rbind] in Hw. injection Hw as <-.
    cbn [forallb] in Hwf. apply andb_true_iff in Hwf. destruct Hwf as [He Hwf].
    cbn [amap_sorted] in Hs. apply andb_true_iff in Hs. destruct Hs as [Hk Hs].
    destruct fuel as [|f]; [cbn in Hf; lia|]. cbn [length read_entries].
    replace (N.eqb (N.of_nat (S (length m))) 0) with false by (symmetry; apply N.eqb_neq; lia).
    rewrite <- app_assoc, (entry_roundtrip k v a _ He Ha).
    replace (N.pred (N.of_nat (S (length m)))) with (N.of_nat (length m)) by lia.
    rewrite (amap_insert_append k (norm_value v) acc (Hacc (k, v) (or_introl eq_refl))).
    rewrite (IH f (acc ++ [(k, norm_value v)]) b' rest Hwf Hs); [|  | exact eq_refl | cbn in Hf; lia].
    + rewrite norm_cons, <- app_assoc. reflexivity.
    + intros e Hin. rewrite forallb_app. rewrite (Hacc e (or_intror Hin)). cbn [forallb fst andb].
      rewrite forallb_forall in Hk. now rewrite (Hk e Hin).
Qed.

(* ================================================================ the round trip *)
Lemma rd_option_u32 n body : n < 4294967296 ->
  read_option_u32 (write_u32 n ++ body) = Ok (Some n, body).
Proof.
  intros Hn. unfold read_option_u32.
  assert (Hro : read_exact_or_none 4 (write_u32 n ++ body) = Ok (Some (write_u32 n), body)).
  { unfold read_exact_or_none.
    pose proof (take_n_app (write_u32 n) body) as T.
    assert (L4 : length (write_u32 n) = 4%nat) by apply le_bytes_length.
    rewrite L4 in T. rewrite T.
    destruct (write_u32 n ++ body) eqn:E; [|reflexivity].
    apply (f_equal (@length N)) in E. rewrite app_length, L4 in E. cbn [length] in E. lia. }
  rewrite (pbind_ok_intro _ _ _ _ _ Hro). unfold pret, write_u32.
  rewrite (le_roundtrip 4 n Hn). reflexivity.
Qed.

Lemma attr_decode_entries m body :
  len32 m = true -> amap_sorted m = true -> forallb wf_entry m = true -> write_entries m = Ok body ->
  attr_decode (write_u32 (N.of_nat (length m)) ++ body) = Ok (norm m).
Proof.
  intros Hlen Hsort Hent Hb.
  assert (Hn : N.of_nat (length m) < 4294967296) by (unfold len32 in Hlen; now apply N.ltb_lt).
  unfold attr_decode, read_attributes. rewrite (rd_option_u32 _ body Hn).
  pose proof (read_entries_app m (S (length body)) [] body [] Hent Hsort) as R.
  rewrite app_nil_r in R. rewrite R; [reflexivity| | exact Hb | ].
  - intros; reflexivity.
  - pose proof (write_entries_length _ _ Hb) as L. clear -L. lia.
Qed.

Theorem attr_roundtrip m b :
  wf_amap m = true -> attr_encode m = Ok b -> attr_decode b = Ok (norm m).
Proof.
  unfold wf_amap. intros Hwf Henc. apply andb_true_iff in Hwf. destruct Hwf as [Hwf Hent].
  apply andb_true_iff in Hwf. destruct Hwf as [Hlen Hsort].
  destruct m as [|e m].
  - apply ok_inj in Henc. subst b. reflexivity.
  - unfold attr_encode in Henc. destruct (write_entries (e :: m)) as [body| | |] eqn:Hb; try discriminate.
    cbn [rbind] in Henc. apply ok_inj in Henc. subst b. rewrite (len32_as_u32 _ Hlen).
    now apply attr_decode_entries.
Qed.

(* ================================================================ the document's rotation table *)
From RbxVerif Require Import AttrSpec.

Lemma spec_rot_lookup_none id t : ~ In id (List.map fst t) -> spec_rot_of_id id t = None.
Proof.
  induction t as [|[k m'] r IH]; cbn; [easy|]. intros H.
  destruct (N.eqb_spec id k) as [->|Hne]; [exfalso; apply H; now left|]. apply IH. intros Hin. apply H. now right.
Qed.

Lemma spec_vec3_eqb_eq a b : AttrSpec.vec3_eqb a b = true -> a = b.
Proof.
  unfold AttrSpec.vec3_eqb. intros H. apply andb_true_iff in H. destruct H as [H Hz]. apply andb_true_iff in H. destruct H as [Hx Hy].
  apply N.eqb_eq in Hx, Hy, Hz. destruct a, b. cbn in *. now subst.
Qed.
Lemma spec_mat3_eqb_eq a b : AttrSpec.mat3_eqb a b = true -> a = b.
Proof.
  unfold AttrSpec.mat3_eqb. intros H. apply andb_true_iff in H. destruct H as [H Hz]. apply andb_true_iff in H. destruct H as [Hx Hy].
  apply spec_vec3_eqb_eq in Hx, Hy, Hz. destruct a, b. cbn in *. now subst.
Qed.

(* docs/attributes.md lists Euler angles; read as Ry * Rx * Rz they are exactly the 24 matrices of
   Matrix3::from_basic_rotation_id, id by id, and no other id is defined by either *)
Theorem spec_rotation_table_agrees : forall id,
  spec_rot_of_id id spec_rotation_table = from_basic_rotation_id id.
Proof.
  intros id. destruct (N.ltb_spec id 36) as [Hlt|Hge].
  - assert (H : forallb (fun k => match spec_rot_of_id (N.of_nat k) spec_rotation_table, from_basic_rotation_id (N.of_nat k) with
                                  | Some a, Some b => AttrSpec.mat3_eqb a b | None, None => true | _, _ => false end)
                        (seq 0 36) = true) by (vm_compute; reflexivity).
    rewrite forallb_forall in H. specialize (H (N.to_nat id)).
    rewrite Nnat.N2Nat.id in H.
    assert (Hin : In (N.to_nat id) (seq 0 36)) by (apply in_seq; lia).
    specialize (H Hin).
    destruct (spec_rot_of_id id spec_rotation_table) as [a|], (from_basic_rotation_id id) as [b|]; try discriminate; [|reflexivity].
    f_equal. now apply spec_mat3_eqb_eq.
  - assert (K1 : forallb (fun k => N.ltb k 36) (List.map fst spec_rotation_table) = true) by (vm_compute; reflexivity).
    assert (K2 : forallb (fun k => N.ltb k 36) (List.map fst rotation_table) = true) by (vm_compute; reflexivity).
    rewrite forallb_forall in K1, K2.
    rewrite spec_rot_lookup_none; [|intros Hin; specialize (K1 _ Hin); apply N.ltb_lt in K1; lia].
    unfold from_basic_rotation_id. rewrite rot_lookup_none; [reflexivity|].
    intros Hin. specialize (K2 _ Hin). apply N.ltb_lt in K2. lia.
Qed.

(* ================================================================ sortedness as BTreeMap iteration gives it:
   consecutive names strictly increasing is enough (the order is transitive) *)
Fixpoint amap_adj_sorted (m : amap) : bool :=
  match m with
  | [] => true
  | (k, _) :: r => match r with [] => true | (k', _) :: _ => bytes_ltb k k' && amap_adj_sorted r end
  end.

Lemma adj_sorted_strong m : amap_adj_sorted m = true -> amap_sorted m = true.
Proof.
  induction m as [|[k v] r IH]; [reflexivity|]. destruct r as [|[k' v'] r']; [reflexivity|].
  cbn [amap_adj_sorted]. intros H. apply andb_true_iff in H. destruct H as [Hk Hr]. specialize (IH Hr).
  cbn [amap_sorted] in IH |- *. apply andb_true_iff in IH. destruct IH as [Hall Hs].
  cbn [forallb fst]. rewrite Hk, Hall, Hs. cbn [andb]. rewrite andb_true_r.
  apply forallb_forall. intros e He. rewrite forallb_forall in Hall. apply (bytes_ltb_trans k k' (fst e) Hk (Hall e He)).
Qed.

Corollary attr_roundtrip_adj m b :
  len32 m = true -> amap_adj_sorted m = true -> forallb wf_entry m = true ->
  attr_encode m = Ok b -> attr_decode b = Ok (norm m).
Proof.
  intros Hl Hs He. apply attr_roundtrip. unfold wf_amap. now rewrite Hl, (adj_sorted_strong _ Hs), He.
Qed.
