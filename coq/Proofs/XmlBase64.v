(* XmlBase64.v — base64 as written by `base64::encode` and read by `base64::decode` (Model/XmlValues.v): decoding what
   was encoded gives back the bytes, for every byte string.  Standard library only. *)
From Coq Require Import List NArith ZArith Bool Lia.
From RbxVerif Require Import Base Bytes XmlEvents XmlValues.
Import ListNotations.
Open Scope N_scope.

Ltac ndm := zify; Z.to_euclidean_division_equations; lia.

Definition sextets : list N := List.map N.of_nat (seq 0 64).

Lemma sextet_in d : d < 64 -> In d sextets.
Proof.
  intro H. unfold sextets. apply in_map_iff. exists (N.to_nat d). split; [apply N2Nat.id|].
  apply in_seq. lia.
Qed.

Lemma b64_table_ok :
  forallb (fun d => match b64_val (b64_char d) with Some e => (e =? d) && negb (b64_char d =? 61) | None => false end) sextets = true.
Proof. vm_compute. reflexivity. Qed.

Lemma b64_val_char d : d < 64 -> b64_val (b64_char d) = Some d /\ b64_char d <> 61.
Proof.
  intro H. pose proof (proj1 (forallb_forall _ _) b64_table_ok d (sextet_in d H)) as E. cbv beta in E.
  destruct (b64_val (b64_char d)) as [e|]; [|discriminate].
  apply andb_prop in E. destruct E as [E1 E2]. apply N.eqb_eq in E1. subst e. split; [reflexivity|].
  intro C. rewrite C in E2. discriminate.
Qed.

Lemma list_ind3 {A} (P : list A -> Prop) :
  P [] -> (forall x, P [x]) -> (forall x y, P [x; y]) -> (forall x y z r, P r -> P (x :: y :: z :: r)) ->
  forall l, P l.
Proof.
  intros H0 H1 H2 H3.
  assert (forall n l, (length l <= n)%nat -> P l) as G.
  { induction n as [|n IH]; intros l Hl.
    - destruct l; [exact H0|cbn in Hl; lia].
    - destruct l as [|x [|y [|z r]]]; auto. apply H3. apply IH. cbn in Hl. lia. }
  intro l. apply (G (length l)). lia.
Qed.

Lemma b64_encode_nil b : b64_encode b = [] -> b = [].
Proof. destruct b as [|x [|y [|z r]]]; cbn; congruence. Qed.

Lemma b64_decode_cons4 a b c d r : r <> [] ->
  b64_decode (a :: b :: c :: d :: r) =
  match b64_val a, b64_val b, b64_val c, b64_val d, b64_decode r with
  | Some p, Some q, Some t, Some u, Some rest =>
      Some (p * 4 + q / 16 :: (q mod 16) * 16 + t / 4 :: (t mod 4) * 64 + u :: rest)
  | _, _, _, _, _ => None
  end.
Proof. intro H. destruct r; [congruence|reflexivity]. Qed.

Theorem b64_roundtrip : forall b, Forall (fun x => x < 256) b -> b64_decode (b64_encode b) = Some b.
Proof.
  induction b as [|x|x y|x y z r IH] using list_ind3; intro HF.
  - reflexivity.
  - inversion HF as [|? ? Hx _]; subst. cbn [b64_encode b64_decode].
    assert (S1 : x / 4 < 64) by ndm. assert (S2 : (x mod 4) * 16 < 64) by ndm.
    destruct (b64_val_char _ S1) as [V1 _]. destruct (b64_val_char _ S2) as [V2 _].
    change (61 =? 61) with true. cbv iota. unfold b64_tail2. rewrite V1, V2.
    assert (E : ((x mod 4) * 16) mod 16 = 0) by ndm. rewrite E. cbn [N.eqb]. f_equal. f_equal. ndm.
  - inversion HF as [|? ? Hx HF']; subst. inversion HF' as [|? ? Hy _]; subst. cbn [b64_encode b64_decode].
    assert (S1 : x / 4 < 64) by ndm. assert (S2 : (x mod 4) * 16 + y / 16 < 64) by ndm. assert (S3 : (y mod 16) * 4 < 64) by ndm.
    destruct (b64_val_char _ S1) as [V1 _]. destruct (b64_val_char _ S2) as [V2 _]. destruct (b64_val_char _ S3) as [V3 N3].
    change (61 =? 61) with true. cbv iota.
    destruct (b64_char ((y mod 16) * 4) =? 61) eqn:E3; [apply N.eqb_eq in E3; contradiction|].
    unfold b64_tail3. rewrite V1, V2, V3.
    assert (E : ((y mod 16) * 4) mod 4 = 0) by ndm. rewrite E. cbn [N.eqb]. f_equal. f_equal; [ndm|]. f_equal. ndm.
  - inversion HF as [|? ? Hx HF']; subst. inversion HF' as [|? ? Hy HF'']; subst. inversion HF'' as [|? ? Hz HFr]; subst.
    specialize (IH HFr).
    assert (S1 : x / 4 < 64) by ndm. assert (S2 : (x mod 4) * 16 + y / 16 < 64) by ndm.
    assert (S3 : (y mod 16) * 4 + z / 64 < 64) by ndm. assert (S4 : z mod 64 < 64) by ndm.
    destruct (b64_val_char _ S1) as [V1 _]. destruct (b64_val_char _ S2) as [V2 _].
    destruct (b64_val_char _ S3) as [V3 _]. destruct (b64_val_char _ S4) as [V4 N4].
    assert (B1 : (x / 4) * 4 + ((x mod 4) * 16 + y / 16) / 16 = x) by ndm.
    assert (B2 : (((x mod 4) * 16 + y / 16) mod 16) * 16 + ((y mod 16) * 4 + z / 64) / 4 = y) by ndm.
    assert (B3 : (((y mod 16) * 4 + z / 64) mod 4) * 64 + z mod 64 = z) by ndm.
    change (b64_encode (x :: y :: z :: r)) with
      (b64_char (x / 4) :: b64_char ((x mod 4) * 16 + y / 16) :: b64_char ((y mod 16) * 4 + z / 64) :: b64_char (z mod 64) :: b64_encode r).
    destruct (b64_encode r) as [|c rest] eqn:ER.
    + apply b64_encode_nil in ER. subst r. cbn [b64_decode].
      destruct (b64_char (z mod 64) =? 61) eqn:E4; [apply N.eqb_eq in E4; contradiction|].
      rewrite V1, V2, V3, V4, B1, B2, B3. reflexivity.
    + rewrite b64_decode_cons4 by discriminate. rewrite V1, V2, V3, V4, IH, B1, B2, B3. reflexivity.
Qed.
