(* XmlCompound.v — round trips of element-structured values through the event channel: Vector3 (three float leaves inside
   the property element; the pattern of every tag-array type) and BinaryString (base64 in a CDATA section).
   Standard library only. *)
From Coq Require Import List NArith ZArith Bool Lia String.
From RbxVerif Require Import Base Bytes Value Db XmlEvents XmlValues XmlInt XmlBase64 XmlText.
Import ListNotations.
Open Scope list_scope.
Open Scope N_scope.

Lemma chan_start stack t n a body r :
  chan_go (n :: stack) t0 body = Ok r -> chan_go stack t (WStart n a :: body) = Ok (flush t ++ RStart n a :: r).
Proof. intro H. cbn [chan_go]. rewrite H. reflexivity. Qed.

Lemma chan_end n stack t rest r :
  chan_go stack t0 rest = Ok r -> chan_go (n :: stack) t (WEnd :: rest) = Ok (flush t ++ REnd n :: r).
Proof. intro H. cbn [chan_go]. rewrite H. reflexivity. Qed.

Section Compound.
  Variable o : xoracle.
  Hypothesis show32_parse : forall x t, f32_is_nan x = false -> x <> F32_INF -> x <> F32_NINF ->
    xo_show32 o x = Some t ->
    xo_parse32 o t = Some (Some x) /\ t <> B "INF" /\ t <> B "-INF" /\ t <> B "NAN".

  Definition leaf_events (tag : string) (t : bytes) (rest : list revent) : list revent :=
    RStart (B tag) [] :: text_events t ++ REnd (B tag) :: rest.

  (* Vector3::write_xml = three write_value_in_tag(f32); Vector3::read_xml = three read_value_in_tag(f32) *)
  Theorem vector3_roundtrip x y z tx ty tz name :
    text_f32 o x = Ok tx -> text_f32 o y = Ok ty -> text_f32 o z = Ok tz ->
    let a := [(B "name", name)] in
    let revs := RStart (B "Vector3") a :: leaf_events "X" tx (leaf_events "Y" ty (leaf_events "Z" tz [REnd (B "Vector3")])) in
    (exists evs, write_xml o (VVector3 (mkV3 x y z)) = Some (B "Vector3", Ok evs) /\
                 chan_go [] t0 (WStart (B "Vector3") a :: evs ++ [WEnd]) = Ok revs) /\
    read_value_xml o (B "Vector3") revs = Ok (RVal (VVector3 (mkV3 (norm_f32 x) (norm_f32 y) (norm_f32 z))), []).
  Proof.
    intros Hx Hy Hz a revs. split.
    - eexists. split.
      + cbn [write_xml]. unfold w_vec3, concat_res, xw_f32_tag, xw_f32. cbn [vx vy vz]. rewrite Hx, Hy, Hz. cbn [rbind]. reflexivity.
      + unfold w_elem. repeat rewrite <- app_assoc. cbn [app]. repeat rewrite <- app_assoc. cbn [app].
        apply (chan_start [] t0 (B "Vector3") a _ (leaf_events "X" tx (leaf_events "Y" ty (leaf_events "Z" tz [REnd (B "Vector3")])))).
        apply (chan_leaf [B "Vector3"] t0 (B "X") [] tx _ (leaf_events "Y" ty (leaf_events "Z" tz [REnd (B "Vector3")]))).
        apply (chan_leaf [B "Vector3"] t0 (B "Y") [] ty _ (leaf_events "Z" tz [REnd (B "Vector3")])).
        apply (chan_leaf [B "Vector3"] t0 (B "Z") [] tz _ [REnd (B "Vector3")]).
        apply (chan_end (B "Vector3") [] t0 [] []). reflexivity.
    - change (read_value_xml o (B "Vector3")) with (rv VVector3 "Vector3" (r_vec3 o)).
      unfold rv, outer, x_in_tag, xbind, x_expect_start, x_next, xret, revs. cbn [xbind]. rewrite bytes_eqb_refl.
      unfold r_vec3, xbind, leaf_events.
      rewrite (r_f32_text_rest o show32_parse "X" [] x tx _ Hx).
      rewrite (r_f32_text_rest o show32_parse "Y" [] y ty _ Hy).
      rewrite (r_f32_text_rest o show32_parse "Z" [] z tz _ Hz).
      unfold xret, x_expect_end, xbind, x_next. rewrite bytes_eqb_refl. reflexivity.
  Qed.
End Compound.

(* ------------------------------------------------------------------ BinaryString: base64 inside CDATA *)
Definition b64_sym (c : N) : bool :=
  ((65 <=? c) && (c <=? 90)) || ((97 <=? c) && (c <=? 122)) || ((48 <=? c) && (c <=? 57)) || (c =? 43) || (c =? 47) || (c =? 61).

Lemma b64_char_sym d : d < 64 -> b64_sym (b64_char d) = true.
Proof.
  intro H. pose proof (sextet_in d H) as Hin.
  assert (F : forallb (fun d => b64_sym (b64_char d)) sextets = true) by (vm_compute; reflexivity).
  exact (proj1 (forallb_forall _ _) F d Hin).
Qed.

Lemma b64_encode_syms : forall b, Forall (fun x => x < 256) b -> Forall (fun c => b64_sym c = true) (b64_encode b).
Proof.
  induction b as [|x|x y|x y z r IH] using list_ind3; intro HF.
  - constructor.
  - inversion HF; subst. cbn [b64_encode].
    repeat constructor; try reflexivity; apply b64_char_sym; ndm.
  - inversion HF as [|? ? Hx HF']; subst. inversion HF' as [|? ? Hy _]; subst. cbn [b64_encode].
    repeat constructor; try reflexivity; apply b64_char_sym; ndm.
  - inversion HF as [|? ? Hx HF']; subst. inversion HF' as [|? ? Hy HF'']; subst. inversion HF'' as [|? ? Hz HFr]; subst.
    change (b64_encode (x :: y :: z :: r)) with
      (b64_char (x / 4) :: b64_char ((x mod 4) * 16 + y / 16) :: b64_char ((y mod 16) * 4 + z / 64) :: b64_char (z mod 64) :: b64_encode r).
    repeat (constructor; [apply b64_char_sym; ndm|]). apply IH. exact HFr.
Qed.

(* no base64 symbol is (the first byte of) a whitespace character *)
Lemma sym_lt c : b64_sym c = true -> c < 128.
Proof.
  intro H. destruct (N.lt_ge_cases c 128) as [L|G]; [exact L|]. exfalso. unfold b64_sym in H.
  replace (c <=? 90) with false in H by (symmetry; apply N.leb_gt; lia).
  replace (c <=? 122) with false in H by (symmetry; apply N.leb_gt; lia).
  replace (c <=? 57) with false in H by (symmetry; apply N.leb_gt; lia).
  replace (c =? 43) with false in H by (symmetry; apply N.eqb_neq; lia).
  replace (c =? 47) with false in H by (symmetry; apply N.eqb_neq; lia).
  replace (c =? 61) with false in H by (symmetry; apply N.eqb_neq; lia).
  rewrite !andb_false_r in H. discriminate.
Qed.

Definition ascii_codes : list N := List.map N.of_nat (seq 0 128).
Lemma sym_not_ws c : b64_sym c = true -> ws1 c = false /\ c < 128.
Proof.
  intro H. pose proof (sym_lt c H) as L. split; [|exact L].
  assert (F : forallb (fun c => implb (b64_sym c) (negb (ws1 c))) ascii_codes = true) by (vm_compute; reflexivity).
  assert (Hin : In c ascii_codes).
  { unfold ascii_codes. apply in_map_iff. exists (N.to_nat c). split; [apply N2Nat.id|]. apply in_seq. lia. }
  pose proof (proj1 (forallb_forall _ _) F c Hin) as E. cbv beta in E. rewrite H in E. cbn [implb] in E.
  destruct (ws1 c); [discriminate|reflexivity].
Qed.

Lemma strip_ws_go_syms : forall fuel s, (length s <= fuel)%nat -> Forall (fun c => b64_sym c = true) s -> strip_ws_go fuel s = s.
Proof.
  induction fuel as [|f IH]; intros s Hl HF.
  - destruct s; [reflexivity|cbn in Hl; lia].
  - destruct s as [|c r]; [reflexivity|]. inversion HF as [|? ? Hc HFr]; subst.
    destruct (sym_not_ws c Hc) as [W1 Hlt].
    cbn [strip_ws_go]. unfold ws_head. rewrite W1.
    assert (W2 : forall d, ws2 c d = false) by (intro d; unfold ws2; replace (c =? 194) with false by (symmetry; apply N.eqb_neq; lia); reflexivity).
    assert (W3 : forall d e, ws3 c d e = false).
    { intros d e. unfold ws3.
      replace (c =? 225) with false by (symmetry; apply N.eqb_neq; lia).
      replace (c =? 226) with false by (symmetry; apply N.eqb_neq; lia).
      replace (c =? 227) with false by (symmetry; apply N.eqb_neq; lia). reflexivity. }
    destruct r as [|d r2]; [rewrite IH by (cbn in *; lia || assumption); reflexivity|].
    rewrite W2. destruct r2 as [|e r3].
    + rewrite IH; [reflexivity|cbn in *; lia|assumption].
    + rewrite W3. rewrite IH; [reflexivity|cbn in *; lia|assumption].
Qed.

Theorem binary_string_roundtrip o b name : Forall (fun x => x < 256) b ->
  let a := [(B "name", name)] in
  exists evs revs,
    write_xml o (VBinaryString b) = Some (B "BinaryString", Ok evs) /\
    chan_go [] t0 (WStart (B "BinaryString") a :: evs ++ [WEnd]) = Ok revs /\
    read_value_xml o (B "BinaryString") revs = Ok (RVal (VBinaryString b), []).
Proof.
  intros HF a. destruct b as [|x b'].
  - (* empty: no character event at all *)
    exists [], [RStart (B "BinaryString") a; REnd (B "BinaryString")]. repeat split; reflexivity.
  - set (b := x :: b') in *. set (t := b64_encode b).
    exists [WCData t], (RStart (B "BinaryString") a :: List.map RCData (split_cdata t) ++ [REnd (B "BinaryString")]).
    split; [reflexivity|]. split; [reflexivity|].
    change (read_value_xml o (B "BinaryString")) with (rv VBinaryString "BinaryString" x_base64).
    unfold rv, outer, x_in_tag, xbind, x_expect_start, x_next, xret. cbn [xbind]. rewrite bytes_eqb_refl.
    unfold x_base64, xbind, x_chars.
    change (List.map RCData (split_cdata t) ++ [REnd (B "BinaryString")]) with (List.map RCData (split_cdata t) ++ REnd (B "BinaryString") :: []).
    rewrite x_chars_cdata by exact I. rewrite split_cdata_concat. cbn [app].
    unfold strip_ws. rewrite strip_ws_go_syms; [|lia|apply b64_encode_syms; exact HF].
    unfold t. rewrite b64_roundtrip by exact HF.
    unfold xret, x_expect_end, xbind, x_next. rewrite bytes_eqb_refl. reflexivity.
Qed.
