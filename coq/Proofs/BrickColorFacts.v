(* BrickColorFacts.v — BrickColor (Model/BrickColorTbl.v over the regenerated table, Gen/Types17.brick_entries):
   number <-> entry is a bijection on the table and `from_number n = None` for every other u16 (all 65536
   numbers, by computation); entry -> name is injective EXCEPT for the four later duplicates of Gold, Rust,
   Lilac and Deep orange, which `from_name` maps to the first entry of that name; entry -> colour is injective.
   FontWeight / FontStyle: from_uN (as_uN w) = Some w and every other number is rejected. *)
From RbxVerif Require Import BaseFacts BitSets BrickColorTbl Db MigrationTables Types17 BitSetsFacts.
From Coq Require Import Lia.
Open Scope N_scope.

Notation BT := brick_entries.

(* ---- the two generated lists describe the same rows ---- *)
Lemma brick_tables_aligned : List.map fst brick_color_table = List.map fst brick_color_names.
Proof. vm_compute. reflexivity. Qed.
Lemma brick_count : length BT = BRICK_COUNT /\ length brick_color_table = BRICK_COUNT /\ length brick_color_names = BRICK_COUNT.
Proof. vm_compute. auto. Qed.

(* ---- general facts about the first-match lookups (any table) ---- *)
Lemma bytes_eqb_eq a : forall b, bytes_eqb a b = true <-> a = b.
Proof.
  induction a as [|x a IH]; intros [|y b]; cbn; split; intros H; try reflexivity; try discriminate.
  - apply andb_prop in H. destruct H as [H1 H2]. apply N.eqb_eq in H1. apply IH in H2. now subst.
  - inversion H; subst. rewrite N.eqb_refl. cbn. now apply IH.
Qed.

Lemma from_number_some t : forall n e, bc_from_number t n = Some e -> bc_number e = n /\ In e t.
Proof.
  induction t as [|x t IH]; intros n e H; cbn in H; [discriminate|].
  destruct (bc_number x =? n) eqn:E.
  - inversion H; subst. apply N.eqb_eq in E. split; [exact E|now left].
  - destruct (IH n e H). split; [assumption|now right].
Qed.

Lemma from_number_none t : forall n, bc_from_number t n = None <-> ~ In n (List.map bc_number t).
Proof.
  induction t as [|x t IH]; intros n; cbn; [tauto|].
  destruct (bc_number x =? n) eqn:E.
  - apply N.eqb_eq in E. split; [discriminate|]. intros H. exfalso. apply H. now left.
  - apply N.eqb_neq in E. rewrite IH. tauto.
Qed.

Lemma from_number_entry t : NoDup (List.map bc_number t) -> forall e, In e t -> bc_from_number t (bc_number e) = Some e.
Proof.
  induction t as [|x t IH]; intros Hnd e Hin; [destruct Hin|]. cbn in Hnd. inversion Hnd as [|? ? Hx Hnd']; subst.
  cbn. destruct Hin as [->|Hin]; [now rewrite N.eqb_refl|].
  destruct (bc_number x =? bc_number e) eqn:E; [|now apply IH].
  apply N.eqb_eq in E. exfalso. apply Hx. rewrite E. now apply in_map.
Qed.

Lemma from_name_some t : forall s e, bc_from_name t s = Some e -> bc_name e = s /\ In e t.
Proof.
  induction t as [|x t IH]; intros s e H; cbn in H; [discriminate|].
  destruct (bytes_eqb s (bc_name x)) eqn:E.
  - inversion H; subst. apply bytes_eqb_eq in E. split; [now symmetry|now left].
  - destruct (IH s e H). split; [assumption|now right].
Qed.

Lemma from_name_none t : forall s, bc_from_name t s = None <-> ~ In s (List.map bc_name t).
Proof.
  induction t as [|x t IH]; intros s; cbn; [tauto|].
  destruct (bytes_eqb s (bc_name x)) eqn:E.
  - apply bytes_eqb_eq in E. split; [discriminate|]. intros H. exfalso. apply H. now left.
  - rewrite IH. split; intros H; [intros [H1|H1]; [|tauto]|tauto].
    symmetry in H1. apply bytes_eqb_eq in H1. congruence.
Qed.

(* ---- the pinned table ---- *)
Fixpoint nodupb (l : list N) : bool := match l with [] => true | x :: r => negb (mem x r) && nodupb r end.
Lemma nodupb_sound l : nodupb l = true -> NoDup l.
Proof.
  induction l as [|x l IH]; intros H; [constructor|]. cbn in H. apply andb_prop in H. destruct H as [H1 H2].
  constructor; [|now apply IH]. apply mem_false_In. now destruct (mem x l).
Qed.

Lemma brick_numbers_nodup : NoDup (List.map bc_number BT).
Proof. apply nodupb_sound. vm_compute. reflexivity. Qed.

(* colours as one number, to reuse nodupb *)
Definition color_code (e : bc_entry) : N := let '(r, g, b) := bc_to_color3uint8 e in (r * 256 + g) * 256 + b.
Lemma brick_colors_nodup : NoDup (List.map color_code BT).
Proof. apply nodupb_sound. vm_compute. reflexivity. Qed.
Lemma brick_colors_bytes : forallb (fun e => let '(r, g, b) := bc_to_color3uint8 e in (r <? 256) && (g <? 256) && (b <? 256)) BT = true.
Proof. vm_compute. reflexivity. Qed.

Lemma nodup_map_inj {A} (f : A -> N) (l : list A) : NoDup (List.map f l) -> forall a b, In a l -> In b l -> f a = f b -> a = b.
Proof.
  induction l as [|x l IH]; intros Hnd a b Ha Hb E; [destruct Ha|]. cbn in Hnd. inversion Hnd as [|? ? Hx Hnd']; subst.
  destruct Ha as [->|Ha], Hb as [->|Hb]; try reflexivity.
  - exfalso. apply Hx. rewrite E. now apply in_map.
  - exfalso. apply Hx. rewrite <- E. now apply in_map.
  - now apply IH.
Qed.

(* every u16: either the number of exactly one entry, found by from_number, or rejected *)
Definition number_ok (n : N) : bool :=
  match bc_from_number BT n with
  | Some e => (bc_number e =? n) && mem n (List.map bc_number BT)
  | None => negb (mem n (List.map bc_number BT))
  end.
Lemma all_u16_ok : forallb number_ok (nrange 65536) = true.
Proof. vm_compute. reflexivity. Qed.

Theorem brick_from_number_u16 : forall n, n < 65536 ->
  (exists e, bc_from_number BT n = Some e /\ In e BT /\ bc_number e = n) \/
  (bc_from_number BT n = None /\ ~ In n (List.map bc_number BT)).
Proof.
  intros n Hn. assert (H : number_ok n = true).
  { apply (proj1 (forallb_forall _ _) all_u16_ok). apply in_nrange. lia. }
  unfold number_ok in H. destruct (bc_from_number BT n) as [e|] eqn:E.
  - left. exists e. destruct (from_number_some _ _ _ E). auto.
  - right. split; [reflexivity|]. apply mem_false_In. now destruct (mem n (List.map bc_number BT)).
Qed.

(* number <-> entry *)
Theorem brick_number_entry : forall e, In e BT -> bc_from_number BT (bc_number e) = Some e.
Proof. apply from_number_entry. exact brick_numbers_nodup. Qed.
Theorem brick_entry_number : forall n e, bc_from_number BT n = Some e -> bc_number e = n /\ In e BT.
Proof. apply from_number_some. Qed.
Theorem brick_numbers_u16 : forall e, In e BT -> bc_number e < 65536.
Proof.
  assert (H : forallb (fun e => bc_number e <? 65536) BT = true) by (vm_compute; reflexivity).
  intros e He. apply N.ltb_lt. exact (proj1 (forallb_forall _ _) H e He).
Qed.

(* entry <-> colour *)
Theorem brick_color_injective : forall a b, In a BT -> In b BT -> bc_to_color3uint8 a = bc_to_color3uint8 b -> a = b.
Proof.
  intros a b Ha Hb E. apply (nodup_map_inj color_code BT brick_colors_nodup a b Ha Hb).
  unfold color_code. now rewrite E.
Qed.

(* entry <-> name: the entries that `from_name (Display e)` does not return *)
Definition name_shadowed (e : bc_entry) : bool :=
  match bc_from_name BT (bc_name e) with Some e' => negb (bc_number e' =? bc_number e) | None => true end.
Lemma shadowed_numbers : List.map bc_number (filter name_shadowed BT) = [321; 333; 345; 1017].
Proof. vm_compute. reflexivity. Qed.

Theorem brick_name_roundtrip : forall e, In e BT -> ~ In (bc_number e) [321; 333; 345; 1017] ->
  bc_from_name BT (bc_name e) = Some e.
Proof.
  intros e He Hn. rewrite <- shadowed_numbers in Hn.
  destruct (name_shadowed e) eqn:S.
  - exfalso. apply Hn. apply in_map. apply filter_In. auto.
  - unfold name_shadowed in S. destruct (bc_from_name BT (bc_name e)) as [e'|] eqn:E; [|discriminate].
    destruct (from_name_some _ _ _ E) as [_ Hin]. f_equal.
    apply (nodup_map_inj bc_number BT brick_numbers_nodup e' e Hin He).
    apply N.eqb_eq. now destruct (bc_number e' =? bc_number e).
Qed.

(* the documented collisions: Display then from_name lands on the FIRST colour of that name *)
Theorem brick_name_collisions : forall e, In e BT -> In (bc_number e) [321; 333; 345; 1017] ->
  exists e', bc_from_name BT (bc_name e) = Some e' /\ bc_name e' = bc_name e /\ bc_number e' <> bc_number e.
Proof.
  assert (H : forallb (fun e => negb (mem (bc_number e) [321; 333; 345; 1017]) ||
                       match bc_from_name BT (bc_name e) with
                       | Some e' => bytes_eqb (bc_name e') (bc_name e) && negb (bc_number e' =? bc_number e)
                       | None => false end) BT = true) by (vm_compute; reflexivity).
  intros e He Hn. pose proof (proj1 (forallb_forall _ _) H e He) as Hc. cbn beta in Hc.
  apply mem_In in Hn. rewrite Hn in Hc. cbn [negb orb] in Hc.
  destruct (bc_from_name BT (bc_name e)) as [e'|]; [|discriminate]. exists e'.
  apply andb_prop in Hc. destruct Hc as [H1 H2]. apply bytes_eqb_eq in H1.
  repeat split; [exact H1|]. intros E. rewrite E, N.eqb_refl in H2. discriminate.
Qed.

Theorem brick_name_sound : forall s e, bc_from_name BT s = Some e -> bc_name e = s /\ In e BT.
Proof. apply from_name_some. Qed.

(* ---- FontWeight / FontStyle ---- *)
Definition enum_ok (from : list (N * bytes)) (as_ : list (bytes * N)) (lim : N) : bool :=
  forallb (fun va => match num_to_variant from (snd va) with Some v => bytes_eqb v (fst va) | None => false end) as_ &&
  forallb (fun n => match num_to_variant from n with
                    | Some v => match variant_to_num as_ v with Some k => k =? n | None => false end
                    | None => negb (mem n (List.map snd as_)) end) (nrange lim).

Lemma font_weight_ok : enum_ok font_weight_from font_weight_as 65536 = true.
Proof. vm_compute. reflexivity. Qed.
Lemma font_style_ok : enum_ok font_style_from font_style_as 256 = true.
Proof. vm_compute. reflexivity. Qed.

Theorem font_weight_roundtrip : forall v k, In (v, k) font_weight_as -> num_to_variant font_weight_from k = Some v.
Proof.
  intros v k H. pose proof font_weight_ok as Hok. unfold enum_ok in Hok. apply andb_prop in Hok. destruct Hok as [H1 _].
  pose proof (proj1 (forallb_forall _ _) H1 (v, k) H) as Hc. cbn [fst snd] in Hc.
  destruct (num_to_variant font_weight_from k) as [v'|]; [|discriminate]. apply bytes_eqb_eq in Hc. now subst.
Qed.
Theorem font_style_roundtrip : forall v k, In (v, k) font_style_as -> num_to_variant font_style_from k = Some v.
Proof.
  intros v k H. pose proof font_style_ok as Hok. unfold enum_ok in Hok. apply andb_prop in Hok. destruct Hok as [H1 _].
  pose proof (proj1 (forallb_forall _ _) H1 (v, k) H) as Hc. cbn [fst snd] in Hc.
  destruct (num_to_variant font_style_from k) as [v'|]; [|discriminate]. apply bytes_eqb_eq in Hc. now subst.
Qed.
Theorem font_weight_u16 : forall n, n < 65536 ->
  match num_to_variant font_weight_from n with
  | Some v => variant_to_num font_weight_as v = Some n
  | None => ~ In n (List.map snd font_weight_as)
  end.
Proof.
  intros n Hn. pose proof font_weight_ok as Hok. unfold enum_ok in Hok. apply andb_prop in Hok. destruct Hok as [_ H2].
  assert (Hin : In n (nrange 65536)) by (apply in_nrange; lia).
  pose proof (proj1 (forallb_forall _ _) H2 n Hin) as Hc. cbn beta in Hc.
  destruct (num_to_variant font_weight_from n) as [v|].
  - destruct (variant_to_num font_weight_as v) as [k|]; [|discriminate]. apply N.eqb_eq in Hc. now subst.
  - apply mem_false_In. now destruct (mem n (List.map snd font_weight_as)).
Qed.
